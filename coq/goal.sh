#!/bin/sh
# usage: goal.sh File.v LINE  — prints the proof state after line LINE (dev tool)
f="$1"; n="$2"; d=$(dirname "$0"); cd "$d"
t=$(mktemp -p . tmpgoal_XXXX.v)
head -n "$n" "$f" > "$t"; echo "Show. Admitted." >> "$t"
timeout 120 coqc -Q . MRS "$t" 2>&1 | tail -${3:-40}
rm -f "$t" "${t%.v}.vo" "${t%.v}.glob" "${t%.v}.vok" "${t%.v}.vos" ".${t#./}" ".$(basename ${t%.v}).aux"
