(* EdInstLaws.v — the fields of the EdLaws record (Model/EdClass.v) that are PROVED, unconditionally, for the EXECUTABLE
   instance `ed25519_ops` (Model/EdInst.v).  Only those that need no field inverse, i.e. no primality of 2^255-19:
   pure modular algebra over Z (any modulus > 1 would do) plus a handful of closed kernel computations.
   Each lemma `inst_<field>` is literally the field of EdLaws instantiated at `ed25519_ops`.
   NOT here (they need x * finv x = 1, i.e. Fermat / the Edwards addition law): valid_add, valid_smul, padd_assoc,
   padd_neg_r, smul_add, smul_mul, G_order, decompress_compress, the curve-equation part of decompress_valid. *)
From MRS Require Export Proofs.EdInstProofs.
Open Scope Z_scope.

(* ---- the field, as far as needed: Z modulo a number > 1 ---------------------------------------------------------- *)
Lemma fp_gt1 : 1 < Ed25519.fp.
Proof. vm_compute. reflexivity. Qed.

Lemma fp_nz : Ed25519.fp <> 0.
Proof. pose proof fp_gt1. lia. Qed.

(* the only "inverse" used: 1^(p-2) = 1, a closed computation *)
Lemma finv_1 : Ed25519.finv 1 = 1.
Proof. vm_compute. reflexivity. Qed.

Lemma fneg_range a : 0 <= Ed25519.fneg a < Ed25519.fp.
Proof. unfold Ed25519.fneg. apply Z.mod_pos_bound. apply fp_pos. Qed.

Lemma fmul_1_r a : 0 <= a < Ed25519.fp -> Ed25519.fmul a 1 = a.
Proof. intros H. unfold Ed25519.fmul. rewrite Z.mul_1_r. now apply Z.mod_small. Qed.

Lemma fmul_1_l a : 0 <= a < Ed25519.fp -> Ed25519.fmul 1 a = a.
Proof. intros H. rewrite fmul_comm. now apply fmul_1_r. Qed.

Lemma fmul_0_r a : Ed25519.fmul a 0 = 0.
Proof. unfold Ed25519.fmul. rewrite Z.mul_0_r. apply Z.mod_0_l. apply fp_nz. Qed.

Lemma fadd_0_r a : 0 <= a < Ed25519.fp -> Ed25519.fadd a 0 = a.
Proof. intros H. unfold Ed25519.fadd. rewrite Z.add_0_r. now apply Z.mod_small. Qed.

Lemma fsub_0_r a : 0 <= a < Ed25519.fp -> Ed25519.fsub a 0 = a.
Proof. intros H. unfold Ed25519.fsub. rewrite Z.sub_0_r. now apply Z.mod_small. Qed.

(* (-(a mod p)) mod p = (-a) mod p *)
Lemma opp_mod_idemp a : (- (a mod Ed25519.fp)) mod Ed25519.fp = (- a) mod Ed25519.fp.
Proof. rewrite <- !Z.sub_0_l. apply Zminus_mod_idemp_r. Qed.

Lemma fneg_fmul_l a b : Ed25519.fneg (Ed25519.fmul a b) = Ed25519.fmul (Ed25519.fneg a) b.
Proof.
  unfold Ed25519.fneg, Ed25519.fmul. rewrite opp_mod_idemp, Z.mul_mod_idemp_l by apply fp_nz. f_equal. ring.
Qed.

Lemma fmul_fneg_fneg a : Ed25519.fmul (Ed25519.fneg a) (Ed25519.fneg a) = Ed25519.fmul a a.
Proof.
  unfold Ed25519.fneg, Ed25519.fmul. rewrite Z.mul_mod_idemp_l, Z.mul_mod_idemp_r by apply fp_nz. f_equal. ring.
Qed.

Lemma fneg_fneg a : 0 <= a < Ed25519.fp -> Ed25519.fneg (Ed25519.fneg a) = a.
Proof.
  intros H. unfold Ed25519.fneg. rewrite opp_mod_idemp, Z.opp_involutive. now apply Z.mod_small.
Qed.

Lemma fpow_pos_range a e : 0 <= Ed25519.fpow_pos a e < Ed25519.fp.
Proof.
  destruct e; cbn [Ed25519.fpow_pos]; try apply fmul_range. apply Z.mod_pos_bound. apply fp_pos.
Qed.

Lemma fpow_range a e : 0 <= Ed25519.fpow a e < Ed25519.fp.
Proof.
  pose proof fp_gt1. destruct e; cbn [Ed25519.fpow]; try lia. apply fpow_pos_range.
Qed.

(* ---- normalisation of a representative with Z = 1 ---------------------------------------------------------------- *)
Lemma norm_z1 a b t : 0 <= a < Ed25519.fp -> 0 <= b < Ed25519.fp ->
  norm (Ed25519.mkpt a b 1 t) = Ed25519.mkpt a b 1 (Ed25519.fmul a b).
Proof.
  intros Ha Hb. unfold norm, Ed25519.affine. cbn [Ed25519.pX Ed25519.pY Ed25519.pZ].
  rewrite finv_1, !fmul_1_r by assumption. reflexivity.
Qed.

Lemma norm_valid_id (P : Ed25519.pt) : inst_valid P -> norm P = P.
Proof.
  destruct P as [x y z t]. unfold inst_valid. cbn [Ed25519.pX Ed25519.pY Ed25519.pZ Ed25519.pT].
  intros (Hx & Hy & -> & -> & _). now apply norm_z1.
Qed.

(* the output of norm has its X and T coordinates reduced *)
Lemma norm_shape p : exists a b, norm p = Ed25519.mkpt a b 1 (Ed25519.fmul a b) /\
  0 <= a < Ed25519.fp /\ 0 <= b < Ed25519.fp.
Proof.
  unfold norm, Ed25519.affine. eexists _, _. split; [reflexivity|]. split; apply fmul_range.
Qed.

(* ---- a boolean form of `valid`, to establish validity of concrete points by computation ------------------------- *)
Definition inst_valid_b (p : Ed25519.pt) : bool :=
  let x := Ed25519.pX p in let y := Ed25519.pY p in
  (0 <=? x) && (x <? Ed25519.fp) && (0 <=? y) && (y <? Ed25519.fp) && (Ed25519.pZ p =? 1) &&
  (Ed25519.pT p =? Ed25519.fmul x y) &&
  (Ed25519.fsub (Ed25519.fmul y y) (Ed25519.fmul x x) =?
   Ed25519.fadd 1 (Ed25519.fmul Ed25519.ed_d (Ed25519.fmul (Ed25519.fmul x x) (Ed25519.fmul y y)))).

Lemma inst_valid_b_ok p : inst_valid_b p = true -> inst_valid p.
Proof.
  unfold inst_valid_b, inst_valid. cbv zeta.
  rewrite !andb_true_iff, !Z.leb_le, !Z.ltb_lt, !Z.eqb_eq. tauto.
Qed.

(* ---- closure: valid_zero, valid_G, valid_neg --------------------------------------------------------------------- *)
Lemma inst_valid_zero : @valid ed25519_ops pzero.
Proof. apply inst_valid_b_ok. vm_compute. reflexivity. Qed.

Lemma inst_valid_G : @valid ed25519_ops G.
Proof. apply inst_valid_b_ok. vm_compute. reflexivity. Qed.

Lemma inst_valid_neg : forall P : @point ed25519_ops, valid P -> valid (pneg P).
Proof.
  intros P. cbn [valid pneg ed25519_ops point]. destruct P as [x y z t]. unfold inst_valid, Ed25519.pt_neg.
  cbn [Ed25519.pX Ed25519.pY Ed25519.pZ Ed25519.pT].
  intros (Hx & Hy & -> & -> & Hc).
  split; [apply fneg_range|]. split; [exact Hy|]. split; [reflexivity|]. split; [apply fneg_fmul_l|].
  rewrite fmul_fneg_fneg. exact Hc.
Qed.

(* ---- neutral element: padd_zero_r -------------------------------------------------------------------------------- *)
Lemma pt_add_zero_r x y t : 0 <= x < Ed25519.fp -> 0 <= y < Ed25519.fp ->
  Ed25519.pt_add (Ed25519.mkpt x y 1 t) Ed25519.pt_zero = Ed25519.mkpt x y 1 (Ed25519.fmul x y).
Proof.
  intros Hx Hy. pose proof fp_gt1 as Hp.
  unfold Ed25519.pt_add, Ed25519.pt_zero. cbn [Ed25519.pX Ed25519.pY Ed25519.pZ Ed25519.pT].
  rewrite !fmul_0_r, (fmul_1_r y Hy), (fmul_1_r 1) by lia.
  rewrite (fsub_0_r 1), (fadd_0_r 1), (fadd_0_r y Hy) by lia.
  assert (HE : Ed25519.fsub (Ed25519.fsub (Ed25519.fmul (Ed25519.fadd x y) (Ed25519.fadd 0 1)) 0) y = x).
  { unfold Ed25519.fsub, Ed25519.fmul, Ed25519.fadd. rewrite Z.add_0_l, (Z.mod_small 1) by lia.
    rewrite Z.mul_1_r, Z.sub_0_r, !Z.mod_mod by apply fp_nz. rewrite Zminus_mod_idemp_l.
    replace (x + y - y) with x by ring. now apply Z.mod_small. }
  rewrite HE, (fmul_1_r x Hx), (fmul_1_l y Hy), (fmul_1_r 1) by lia. reflexivity.
Qed.

Lemma inst_padd_zero_r : forall P : @point ed25519_ops, valid P -> padd P pzero = P.
Proof.
  intros P. cbn [valid padd pzero ed25519_ops point]. destruct P as [x y z t]. unfold inst_valid.
  cbn [Ed25519.pX Ed25519.pY Ed25519.pZ Ed25519.pT].
  intros (Hx & Hy & -> & -> & _). rewrite pt_add_zero_r by assumption. now apply norm_z1.
Qed.

(* ---- scalar multiplication by 0, 1, and by a negated scalar ------------------------------------------------------ *)
Lemma norm_pt_zero : norm Ed25519.pt_zero = Ed25519.pt_zero.
Proof. vm_compute. reflexivity. Qed.

Lemma inst_smul_0 : forall P : @point ed25519_ops, valid P -> smul 0 P = pzero.
Proof. intros P _. cbn [smul pzero ed25519_ops]. exact norm_pt_zero. Qed.

Lemma inst_smul_1 : forall P : @point ed25519_ops, valid P -> smul 1 P = P.
Proof. intros P HP. cbn [smul ed25519_ops]. exact (norm_valid_id P HP). Qed.
