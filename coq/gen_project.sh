#!/bin/sh
# regenerates _CoqProject (file list) and the Makefile; full .vo builds only.
cd "$(dirname "$0")"
{ echo "-Q . MRS"; echo "-arg -w -arg -notation-overridden,-deprecated-hint-without-locality,-deprecated-instance-without-locality"; find Model Spec Proofs Props -name '*.v' | sort; } > _CoqProject.new
if ! cmp -s _CoqProject.new _CoqProject; then mv _CoqProject.new _CoqProject; coq_makefile -f _CoqProject -o Makefile >/dev/null; else rm _CoqProject.new; [ -f Makefile ] || coq_makefile -f _CoqProject -o Makefile >/dev/null; fi
