(* NetworkProofs.v — the tag table is Monero's, is a bijection, and the lookups are exact. *)
From MRS Require Export Spec.Tags Proofs.BaseProofs.
Open Scope N_scope.

Ltac case_eqb :=
  repeat match goal with
         | |- context [N.eqb ?x ?y] => destruct (N.eqb_spec x y); subst; cbn [orb andb]
         | H : context [N.eqb ?x ?y] |- _ => destruct (N.eqb_spec x y); subst; cbn [orb andb] in H
         end.

Lemma table_as_u8 n t : In (n, kind_of t, net_as_u8 n t) tag_table.
Proof. destruct n, t; cbn; intuition. Qed.

Lemma table_functional n k tag : In (n, k, tag) tag_table ->
  forall t, kind_of t = k -> tag = net_as_u8 n t.
Proof.
  intros H t Hk. cbn in H.
  repeat (destruct H as [H|H]; [inversion H; subst; destruct t; try discriminate; reflexivity|]).
  destruct H.
Qed.

Lemma from_as n t : net_from_u8 (net_as_u8 n t) = Some n.
Proof. destruct n, t; reflexivity. Qed.

Lemma as_u8_injective n t n' t' :
  net_as_u8 n t = net_as_u8 n' t' -> n = n' /\ kind_of t = kind_of t'.
Proof. destruct n, t, n', t'; cbn; intros H; try discriminate; auto. Qed.

Lemma from_u8_exact b n : net_from_u8 b = Some n <-> exists k, In (n, k, b) tag_table.
Proof.
  split.
  - unfold net_from_u8. intros H. case_eqb; inversion H; subst;
      first [exists KStd; cbn; tauto | exists KInt; cbn; tauto | exists KSub; cbn; tauto].
  - intros [k H]. cbn in H.
    repeat (destruct H as [H|H]; [inversion H; subst; reflexivity|]). destruct H.
Qed.

Lemma from_u8_none b : net_from_u8 b = None <-> forall n k, ~ In (n, k, b) tag_table.
Proof.
  split.
  - intros H n k Hin. assert (net_from_u8 b = Some n) by (apply from_u8_exact; eauto). congruence.
  - intros H. destruct (net_from_u8 b) as [n|] eqn:E; [|reflexivity].
    apply from_u8_exact in E. destruct E as [k Hk]. exfalso. eapply H; eauto.
Qed.

Lemma integrated_of_spec bs :
  integrated_of bs =
  if Nat.ltb (length bs) 73 then Err EBad else Ok (Integrated (firstn 8 (skipn 65 bs))).
Proof.
  unfold integrated_of, slice. destruct (Nat.ltb_spec (length bs) 73) as [L|L]; [reflexivity|].
  replace (Nat.leb 65 73 && Nat.leb 73 (length bs)) with true; [reflexivity|].
  symmetry. apply andb_true_intro. split; [reflexivity|]. apply Nat.leb_le. lia.
Qed.

(* the type lookup, stated against the tag table of the SAME network *)
Definition atype_spec (bs : bytes) (n : network) : res addr_type :=
  match bs with
  | [] => Err EBad
  | b0 :: _ =>
      if b2n b0 =? net_as_u8 n Standard then Ok Standard
      else if b2n b0 =? net_as_u8 n (Integrated []) then
        (if Nat.ltb (length bs) 73 then Err EBad else Ok (Integrated (firstn 8 (skipn 65 bs))))
      else if b2n b0 =? net_as_u8 n SubAddress then Ok SubAddress
      else Err EBad
  end.

Lemma atype_from_slice_spec bs n : atype_from_slice bs n = atype_spec bs n.
Proof.
  destruct bs as [|b0 r]; [reflexivity|]. unfold atype_from_slice, atype_spec.
  rewrite integrated_of_spec. destruct n; reflexivity.
Qed.

Lemma atype_never_panics bs n : atype_from_slice bs n <> Panic.
Proof.
  rewrite atype_from_slice_spec. unfold atype_spec. destruct bs as [|b0 r]; [discriminate|].
  repeat match goal with |- context [if ?c then _ else _] => destruct c end; discriminate.
Qed.

Lemma atype_ok_kind bs n t : atype_from_slice bs n = Ok t ->
  exists b0 r, bs = b0 :: r /\ b2n b0 = net_as_u8 n t /\
    match t with Integrated pid => (73 <= length bs)%nat /\ pid = firstn 8 (skipn 65 bs) | _ => True end.
Proof.
  rewrite atype_from_slice_spec. unfold atype_spec. destruct bs as [|b0 r]; [discriminate|].
  intros H. exists b0, r. split; [reflexivity|].
  destruct (N.eqb_spec (b2n b0) (net_as_u8 n Standard)) as [E1|E1].
  { inversion H; subst. auto. }
  destruct (N.eqb_spec (b2n b0) (net_as_u8 n (Integrated []))) as [E2|E2].
  { destruct (Nat.ltb_spec (length (b0 :: r)) 73); [discriminate|]. inversion H; subst.
    split; [destruct n; exact E2|]. split; [assumption|reflexivity]. }
  destruct (N.eqb_spec (b2n b0) (net_as_u8 n SubAddress)) as [E3|E3]; [|discriminate].
  inversion H; subst. auto.
Qed.

Lemma atype_accepts_own_tag n t r :
  (match t with Integrated pid => (72 <= length r)%nat /\ pid = firstn 8 (skipn 64 r) | _ => True end) ->
  atype_from_slice (n2b (net_as_u8 n t) :: r) n = Ok t.
Proof.
  intros Ht. rewrite atype_from_slice_spec. unfold atype_spec.
  rewrite b2n_n2b_small by (destruct n, t; cbn; lia).
  destruct n, t; cbn [net_as_u8]; try reflexivity;
    destruct Ht as [Hl ->];
    (replace (Nat.ltb (length (_ :: r)) 73) with false
       by (symmetry; apply Nat.ltb_ge; cbn [length]; lia)); reflexivity.
Qed.

Lemma atype_rejects_foreign_tag n n' t b0 r :
  n <> n' -> b2n b0 = net_as_u8 n' t -> atype_from_slice (b0 :: r) n = Err EBad.
Proof.
  intros Hn Hb. rewrite atype_from_slice_spec. unfold atype_spec. rewrite Hb.
  destruct n, n', t; try congruence; reflexivity.
Qed.

Lemma atype_rejects_unknown b0 r n :
  (forall k, ~ In (n, k, b2n b0) tag_table) -> atype_from_slice (b0 :: r) n = Err EBad.
Proof.
  intros H. rewrite atype_from_slice_spec. unfold atype_spec.
  destruct (N.eqb_spec (b2n b0) (net_as_u8 n Standard)) as [E|_].
  { exfalso. apply (H KStd). rewrite E. apply (table_as_u8 n Standard). }
  destruct (N.eqb_spec (b2n b0) (net_as_u8 n (Integrated []))) as [E|_].
  { exfalso. apply (H KInt). rewrite E. apply (table_as_u8 n (Integrated [])). }
  destruct (N.eqb_spec (b2n b0) (net_as_u8 n SubAddress)) as [E|_].
  { exfalso. apply (H KSub). rewrite E. apply (table_as_u8 n SubAddress). }
  reflexivity.
Qed.
