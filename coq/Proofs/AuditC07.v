(* AuditC07.v — lemmas added by the model-mutation audit (notes/MODEL_MUTANTS_B.md) for C07.
   Two parts of Model/Scan.v were used by the scan theorems but characterised by none of them:
   (1) WHICH entry `lookup` returns when several table entries carry the same key (HashMap::insert replaces: the last one);
       every scan theorem only speaks of "an in-range index with that spend key";
   (2) the public method SubKeyChecker::check (checker_check), which had a totality theorem (C04) only. *)
From MRS Require Export Proofs.ScanEndToEnd.
Open Scope Z_scope.

Section AuditC07Basics.
Context {E : EdOps}.
Variable Hs : hs_fun.
Variable Hb : bytes -> bytes.

(* HashMap::get after the insertions of SubKeyChecker::new: the LAST inserted entry with that key *)
Lemma lookup_last t k i : lookup t k = Some i <->
  exists pre post, t = pre ++ (k, i) :: post /\ forall j, ~ In (k, j) post.
Proof.
  revert i. induction t as [|[k' i0] r IH]; intros i.
  - split; [discriminate|]. intros (pre & post & H & _). now destruct pre.
  - cbn [lookup]. destruct (lookup r k) as [j|] eqn:Hl.
    + split.
      * intros H. injection H as <-. destruct (proj1 (IH j) eq_refl) as (pre & post & -> & Hno).
        exists ((k', i0) :: pre), post. split; [reflexivity|exact Hno].
      * intros (pre & post & Ht & Hno). destruct pre as [|x pre'].
        -- simpl in Ht. injection Ht as Hk Hi Hr. subst k' i0 post. exfalso. apply (Hno j). now apply lookup_some.
        -- simpl in Ht. injection Ht as Hx Hr. subst x r. apply IH. now exists pre', post.
    + split.
      * unfold pk_eqb. destruct (bytes_eqb k' k) eqn:He; [|discriminate]. intros H. injection H as <-.
        apply bytes_eqb_eq in He. subst k'. exists [], r. split; [reflexivity|]. now apply lookup_none.
      * intros (pre & post & Ht & Hno). destruct pre as [|x pre'].
        -- simpl in Ht. injection Ht as Hk Hi Hr. subst k' i0 post. unfold pk_eqb. now rewrite bytes_eqb_refl.
        -- simpl in Ht. injection Ht as Hx Hr. subst x r. exfalso. apply (lookup_none _ _ Hl i).
           apply in_or_app. right. now left.
Qed.

(* SubKeyChecker::check(index, key, tx_pubkey) is the check of one key on an untagged output carrying `key` *)
Lemma checker_check_check_key t v Sb i am P K : pk_from_slice P = Ok P ->
  check_key Hs Hb t v Sb i (mk_txout am (TKey P)) K =
    bindr (checker_check Hs t v Sb i P K) (fun r => match r with Some idx => Ok (Some (idx, K)) | None => Ok None end).
Proof.
  intros HP. unfold check_key, as_one_time_key, checker_check. cbn [o_target target_key]. rewrite HP.
  destruct (from_key v Sb K) as [g|e|]; cbn [bindr]; try reflexivity.
Qed.

(* the key-acceptance predicate handed to the extra-field parser by the scan is PublicKey::from_slice acceptance *)
Lemma valid_pk_b_iff k : valid_pk_b k = true <-> pk_from_slice k = Ok k.
Proof.
  unfold valid_pk_b. destruct (pk_from_slice k) as [k'|e|] eqn:H.
  - apply pk_from_slice_id in H. subst k'. split; reflexivity.
  - split; discriminate.
  - split; discriminate.
Qed.

End AuditC07Basics.

Section AuditC07Laws.
Context {E : EdOps} {LW : EdLaws E}.
Variable Hs : hs_fun.

Let Hb0 : bytes -> bytes := fun _ => [].

(* SOUNDNESS and COMPLETENESS of SubKeyChecker::check for an accepted output key P *)
Lemma checker_check_sound v Sb a b c d t i P K idx :
  checker_new Hs v Sb a b c d = Ok t -> pk_from_slice P = Ok P ->
  checker_check Hs t v Sb i P K = Ok (Some idx) ->
  in_ranges a b c d idx /\
  exists g Sidx, from_key v Sb K = Ok g /\ get_spend_public_key Hs v Sb idx = Ok Sidx /\ one_time_key Hs (Sidx, snd g) i = Ok P.
Proof.
  intros Ht HP Hc.
  assert (Hk : check_key Hs Hb0 t v Sb i (mk_txout 0 (TKey P)) K = Ok (Some (idx, K))).
  { rewrite checker_check_check_key by exact HP. now rewrite Hc. }
  destruct (check_key_sound Hs Hb0 _ _ _ _ _ _ _ _ _ _ _ _ Ht Hk) as (_ & Hr & g & P' & Sidx & H1 & H2 & _ & H4 & H5).
  destruct (as_one_time_key_some _ _ H2) as [HP' _]. cbn [o_target target_key] in HP'. subst P'.
  split; [exact Hr|]. now exists g, Sidx.
Qed.

Lemma checker_check_complete v Sb a b c d t i P K idx g Sidx :
  pk_from_slice Sb = Ok Sb -> checker_new Hs v Sb a b c d = Ok t -> pk_from_slice P = Ok P ->
  in_ranges a b c d idx -> from_key v Sb K = Ok g -> get_spend_public_key Hs v Sb idx = Ok Sidx ->
  one_time_key Hs (Sidx, snd g) i = Ok P ->
  exists idx', checker_check Hs t v Sb i P K = Ok (Some idx') /\ in_ranges a b c d idx' /\
               get_spend_public_key Hs v Sb idx' = Ok Sidx.
Proof.
  intros HS Ht HP Hr Hg HSi Hot.
  assert (Hm : matches Hs Hb0 v Sb i (mk_txout 0 (TKey P)) K idx).
  { exists g, P, Sidx. repeat split; auto.
    unfold as_one_time_key. cbn [o_target target_key]. now rewrite HP. }
  destruct (matches_check_key Hs Hb0 _ _ _ _ _ _ _ _ _ _ _ HS Ht Hr Hm) as (idx' & Hk & Hr' & Hsp).
  rewrite checker_check_check_key in Hk by exact HP.
  exists idx'. destruct (checker_check Hs t v Sb i P K) as [[j|]|e|]; cbn [bindr] in Hk; try discriminate.
  injection Hk as ->. split; [reflexivity|]. split; [exact Hr'|]. now rewrite Hsp.
Qed.

End AuditC07Laws.
