(* EdInstLaws.v — the fields of the EdLaws record (Model/EdClass.v) that are PROVED, unconditionally, for the EXECUTABLE
   instance `ed25519_ops` (Model/EdInst.v).  Only those that need no field inverse, i.e. no primality of 2^255-19:
   pure modular algebra over Z (any modulus > 1 would do) plus a handful of closed kernel computations.
   Each lemma `inst_<field>` is literally the field of EdLaws instantiated at `ed25519_ops`.
   NOT here (they need x * finv x = 1, i.e. Fermat / the Edwards addition law): valid_add, valid_smul, padd_assoc,
   padd_neg_r, smul_add, smul_mul, G_order, decompress_compress, the curve-equation part of decompress_valid. *)
From MRS Require Export Proofs.EdInstProofs.
From MRS Require Import Proofs.EdKAT.
Open Scope Z_scope.

(* ---- the field, as far as needed: Z modulo a number > 1 ---------------------------------------------------------- *)
Lemma fp_gt1 : 1 < Ed25519.fp.
Proof. vm_compute. reflexivity. Qed.

Lemma fp_nz : Ed25519.fp <> 0.
Proof. pose proof fp_gt1. lia. Qed.

(* the only "inverse" used: 1^(p-2) = 1, a closed computation *)
Lemma finv_1 : Ed25519.finv 1 = 1.
Proof. vm_compute. reflexivity. Qed.

Lemma fneg_range a : 0 <= Ed25519.fneg a < Ed25519.fp.
Proof. unfold Ed25519.fneg. apply Z.mod_pos_bound. apply fp_pos. Qed.

Lemma fmul_1_r a : 0 <= a < Ed25519.fp -> Ed25519.fmul a 1 = a.
Proof. intros H. unfold Ed25519.fmul. rewrite Z.mul_1_r. now apply Z.mod_small. Qed.

Lemma fmul_1_l a : 0 <= a < Ed25519.fp -> Ed25519.fmul 1 a = a.
Proof. intros H. rewrite fmul_comm. now apply fmul_1_r. Qed.

Lemma fmul_0_r a : Ed25519.fmul a 0 = 0.
Proof. unfold Ed25519.fmul. rewrite Z.mul_0_r. apply Z.mod_0_l. apply fp_nz. Qed.

Lemma fadd_0_r a : 0 <= a < Ed25519.fp -> Ed25519.fadd a 0 = a.
Proof. intros H. unfold Ed25519.fadd. rewrite Z.add_0_r. now apply Z.mod_small. Qed.

Lemma fsub_0_r a : 0 <= a < Ed25519.fp -> Ed25519.fsub a 0 = a.
Proof. intros H. unfold Ed25519.fsub. rewrite Z.sub_0_r. now apply Z.mod_small. Qed.

(* (-(a mod p)) mod p = (-a) mod p *)
Lemma opp_mod_idemp a : (- (a mod Ed25519.fp)) mod Ed25519.fp = (- a) mod Ed25519.fp.
Proof. rewrite <- !Z.sub_0_l. apply Zminus_mod_idemp_r. Qed.

Lemma fneg_fmul_l a b : Ed25519.fneg (Ed25519.fmul a b) = Ed25519.fmul (Ed25519.fneg a) b.
Proof.
  unfold Ed25519.fneg, Ed25519.fmul. rewrite opp_mod_idemp, Z.mul_mod_idemp_l by apply fp_nz. f_equal. ring.
Qed.

Lemma fmul_fneg_fneg a : Ed25519.fmul (Ed25519.fneg a) (Ed25519.fneg a) = Ed25519.fmul a a.
Proof.
  unfold Ed25519.fneg, Ed25519.fmul. rewrite Z.mul_mod_idemp_l, Z.mul_mod_idemp_r by apply fp_nz. f_equal. ring.
Qed.

Lemma fneg_fneg a : 0 <= a < Ed25519.fp -> Ed25519.fneg (Ed25519.fneg a) = a.
Proof.
  intros H. unfold Ed25519.fneg. rewrite opp_mod_idemp, Z.opp_involutive. now apply Z.mod_small.
Qed.

Lemma fpow_pos_range a e : 0 <= Ed25519.fpow_pos a e < Ed25519.fp.
Proof.
  destruct e; cbn [Ed25519.fpow_pos]; try apply fmul_range. apply Z.mod_pos_bound. apply fp_pos.
Qed.

Lemma fpow_range a e : 0 <= Ed25519.fpow a e < Ed25519.fp.
Proof.
  pose proof fp_gt1. destruct e; cbn [Ed25519.fpow]; try lia. apply fpow_pos_range.
Qed.

(* ---- normalisation of a representative with Z = 1 ---------------------------------------------------------------- *)
Lemma norm_z1 a b t : 0 <= a < Ed25519.fp -> 0 <= b < Ed25519.fp ->
  norm (Ed25519.mkpt a b 1 t) = Ed25519.mkpt a b 1 (Ed25519.fmul a b).
Proof.
  intros Ha Hb. unfold norm, Ed25519.affine. cbn [Ed25519.pX Ed25519.pY Ed25519.pZ].
  rewrite finv_1, !fmul_1_r by assumption. reflexivity.
Qed.

Lemma norm_valid_id (P : Ed25519.pt) : inst_valid P -> norm P = P.
Proof.
  destruct P as [x y z t]. unfold inst_valid. cbn [Ed25519.pX Ed25519.pY Ed25519.pZ Ed25519.pT].
  intros (Hx & Hy & -> & -> & _). now apply norm_z1.
Qed.

(* the output of norm has its X and T coordinates reduced *)
Lemma norm_shape p : exists a b, norm p = Ed25519.mkpt a b 1 (Ed25519.fmul a b) /\
  0 <= a < Ed25519.fp /\ 0 <= b < Ed25519.fp.
Proof.
  unfold norm, Ed25519.affine. eexists _, _. split; [reflexivity|]. split; apply fmul_range.
Qed.

(* ---- a boolean form of `valid`, to establish validity of concrete points by computation ------------------------- *)
Definition inst_valid_b (p : Ed25519.pt) : bool :=
  let x := Ed25519.pX p in let y := Ed25519.pY p in
  (0 <=? x) && (x <? Ed25519.fp) && (0 <=? y) && (y <? Ed25519.fp) && (Ed25519.pZ p =? 1) &&
  (Ed25519.pT p =? Ed25519.fmul x y) &&
  (Ed25519.fsub (Ed25519.fmul y y) (Ed25519.fmul x x) =?
   Ed25519.fadd 1 (Ed25519.fmul Ed25519.ed_d (Ed25519.fmul (Ed25519.fmul x x) (Ed25519.fmul y y)))).

Lemma inst_valid_b_ok p : inst_valid_b p = true -> inst_valid p.
Proof.
  unfold inst_valid_b, inst_valid. cbv zeta. intros H.
  apply andb_true_iff in H. destruct H as [H H7]. apply andb_true_iff in H. destruct H as [H H6].
  apply andb_true_iff in H. destruct H as [H H5]. apply andb_true_iff in H. destruct H as [H H4].
  apply andb_true_iff in H. destruct H as [H H3]. apply andb_true_iff in H. destruct H as [H1 H2].
  apply Z.leb_le in H1, H3. apply Z.ltb_lt in H2, H4. apply Z.eqb_eq in H5, H6, H7.
  split; [split; assumption|]. split; [split; assumption|]. split; [exact H5|]. split; [exact H6|exact H7].
Qed.

(* ---- closure: valid_zero, valid_G, valid_neg --------------------------------------------------------------------- *)
Lemma inst_valid_zero : @valid ed25519_ops pzero.
Proof. apply inst_valid_b_ok. vm_compute. reflexivity. Qed.

Lemma inst_valid_G : @valid ed25519_ops G.
Proof. apply inst_valid_b_ok. vm_compute. reflexivity. Qed.

Lemma inst_valid_neg : forall P : @point ed25519_ops, valid P -> valid (pneg P).
Proof.
  intros P. cbn [valid pneg ed25519_ops point]. destruct P as [x y z t]. unfold inst_valid, Ed25519.pt_neg.
  cbn [Ed25519.pX Ed25519.pY Ed25519.pZ Ed25519.pT].
  intros (Hx & Hy & -> & -> & Hc).
  split; [apply fneg_range|]. split; [exact Hy|]. split; [reflexivity|]. split; [apply fneg_fmul_l|].
  rewrite fmul_fneg_fneg. exact Hc.
Qed.

(* ---- neutral element: padd_zero_r -------------------------------------------------------------------------------- *)
Lemma pt_add_zero_r x y t : 0 <= x < Ed25519.fp -> 0 <= y < Ed25519.fp ->
  Ed25519.pt_add (Ed25519.mkpt x y 1 t) Ed25519.pt_zero = Ed25519.mkpt x y 1 (Ed25519.fmul x y).
Proof.
  intros Hx Hy. pose proof fp_gt1 as Hp.
  unfold Ed25519.pt_add, Ed25519.pt_zero. cbn [Ed25519.pX Ed25519.pY Ed25519.pZ Ed25519.pT].
  rewrite !fmul_0_r, (fmul_1_r y Hy), (fmul_1_r 1) by lia.
  rewrite (fsub_0_r 1), (fadd_0_r 1), (fadd_0_r y Hy) by lia.
  assert (HE : Ed25519.fsub (Ed25519.fsub (Ed25519.fmul (Ed25519.fadd x y) (Ed25519.fadd 0 1)) 0) y = x).
  { unfold Ed25519.fsub, Ed25519.fmul, Ed25519.fadd. rewrite Z.add_0_l, (Z.mod_small 1) by lia.
    rewrite Z.mul_1_r, Z.sub_0_r, !Z.mod_mod by apply fp_nz. rewrite Zminus_mod_idemp_l.
    replace (x + y - y) with x by ring. now apply Z.mod_small. }
  rewrite HE, (fmul_1_r x Hx), (fmul_1_l y Hy), (fmul_1_r 1) by lia. reflexivity.
Qed.

Lemma inst_padd_zero_r : forall P : @point ed25519_ops, valid P -> padd P pzero = P.
Proof.
  intros P. cbn [valid padd pzero ed25519_ops point]. destruct P as [x y z t]. unfold inst_valid.
  cbn [Ed25519.pX Ed25519.pY Ed25519.pZ Ed25519.pT].
  intros (Hx & Hy & -> & -> & _). rewrite pt_add_zero_r by assumption. now apply norm_z1.
Qed.

(* ---- scalar multiplication by 0, 1, and by a negated scalar ------------------------------------------------------ *)
Lemma norm_pt_zero : norm Ed25519.pt_zero = Ed25519.pt_zero.
Proof. vm_compute. reflexivity. Qed.

Lemma inst_smul_0 : forall P : @point ed25519_ops, valid P -> smul 0 P = pzero.
Proof. intros P _. cbn [smul pzero ed25519_ops]. exact norm_pt_zero. Qed.

Lemma inst_smul_1 : forall P : @point ed25519_ops, valid P -> smul 1 P = P.
Proof. intros P HP. cbn [smul ed25519_ops]. exact (norm_valid_id P HP). Qed.

(* smul_opp needs no algebra beyond -(-x) = x on reduced coordinates: the instance DEFINES k·P for k < 0 as the
   negation of the normalised (-k)·P.  It holds for every representative P, valid or not. *)
Lemma pt_neg_norm_invol p : Ed25519.pt_neg (Ed25519.pt_neg (norm p)) = norm p.
Proof.
  destruct (norm_shape p) as (a & b & -> & Ha & Hb). unfold Ed25519.pt_neg.
  cbn [Ed25519.pX Ed25519.pY Ed25519.pZ Ed25519.pT].
  rewrite (fneg_fneg a Ha), (fneg_fneg (Ed25519.fmul a b)) by apply fmul_range. reflexivity.
Qed.

Lemma pt_neg_zero : Ed25519.pt_neg Ed25519.pt_zero = Ed25519.pt_zero.
Proof. vm_compute. reflexivity. Qed.

Lemma inst_smul_opp : forall a (P : @point ed25519_ops), valid P -> smul (- a) P = pneg (smul a P).
Proof.
  intros a P _. cbn [smul pneg ed25519_ops]. unfold inst_smul.
  destruct (Z.ltb_spec (- a) 0) as [H1|H1]; destruct (Z.ltb_spec a 0) as [H2|H2]; try lia.
  - rewrite Z.opp_involutive. reflexivity.
  - rewrite pt_neg_norm_invol. reflexivity.
  - assert (a = 0) as -> by lia. change (- 0) with 0. change (Ed25519.smul 0 P) with Ed25519.pt_zero.
    rewrite norm_pt_zero. symmetry. exact pt_neg_zero.
Qed.

(* ---- the order of the base point: l·G = O (kernel computation, Proofs/EdKAT.v) ---------------------------------- *)
Lemma inst_smul_ell_G : @smul ed25519_ops ell G = pzero.
Proof. exact kat_ell_G. Qed.

(* ---- the eight small-order points: tors_valid, tors_8 ------------------------------------------------------------ *)
Lemma mod8_cases i : i mod 8 = 0 \/ i mod 8 = 1 \/ i mod 8 = 2 \/ i mod 8 = 3 \/
                     i mod 8 = 4 \/ i mod 8 = 5 \/ i mod 8 = 6 \/ i mod 8 = 7.
Proof. pose proof (Z.mod_pos_bound i 8 ltac:(lia)). lia. Qed.

(* Each closed computation is run once by vm_compute; `tors_ok k` / `tors8_ok k` are NOTATIONS, so that every later step
   is syntactic (exact with the very same term): neither the unifier nor the kernel ever has to convert curve arithmetic
   with its lazy machine (closed: slow; with the stuck `i mod 8` inside: exponential). *)
Local Notation tors_ok k := (inst_valid_b (norm (Ed25519.smul k Ed25519.torsion_gen))).

Lemma tors_ok_all : tors_ok 0 && (tors_ok 1 && (tors_ok 2 && (tors_ok 3 && (tors_ok 4 && (tors_ok 5 && (tors_ok 6 && tors_ok 7)))))) = true.
Proof. vm_cast_no_check (eq_refl true). Qed.   (* one VM run, at Qed *)

Lemma tors_ok_mod8 i : tors_ok (i mod 8) = true.
Proof.
  pose proof tors_ok_all as H.
  apply andb_true_iff in H. destruct H as [H0 H]. apply andb_true_iff in H. destruct H as [H1 H].
  apply andb_true_iff in H. destruct H as [H2 H]. apply andb_true_iff in H. destruct H as [H3 H].
  apply andb_true_iff in H. destruct H as [H4 H]. apply andb_true_iff in H. destruct H as [H5 H].
  apply andb_true_iff in H. destruct H as [H6 H7].
  destruct (mod8_cases i) as [-> | [-> | [-> | [-> | [-> | [-> | [-> | ->]]]]]]];
    [exact H0|exact H1|exact H2|exact H3|exact H4|exact H5|exact H6|exact H7].
Qed.

Lemma inst_tors_valid : forall i, @valid ed25519_ops (tors i).
Proof.
  intros i. cbn [valid tors ed25519_ops]. unfold Ed25519.torsion. apply inst_valid_b_ok. exact (tors_ok_mod8 i).
Qed.

Definition pt_eqb_strict (p q : Ed25519.pt) : bool :=
  (Ed25519.pX p =? Ed25519.pX q) && (Ed25519.pY p =? Ed25519.pY q) &&
  (Ed25519.pZ p =? Ed25519.pZ q) && (Ed25519.pT p =? Ed25519.pT q).

Lemma pt_eqb_strict_ok p q : pt_eqb_strict p q = true -> p = q.
Proof.
  destruct p as [x1 y1 z1 t1], q as [x2 y2 z2 t2]. unfold pt_eqb_strict.
  cbn [Ed25519.pX Ed25519.pY Ed25519.pZ Ed25519.pT]. intros H.
  apply andb_true_iff in H. destruct H as [H H4]. apply andb_true_iff in H. destruct H as [H H3].
  apply andb_true_iff in H. destruct H as [H1 H2]. apply Z.eqb_eq in H1, H2, H3, H4. congruence.
Qed.

Local Notation tors8_ok k :=
  (pt_eqb_strict (inst_smul 8 (norm (Ed25519.smul k Ed25519.torsion_gen))) Ed25519.pt_zero).

Lemma tors8_ok_all : tors8_ok 0 && (tors8_ok 1 && (tors8_ok 2 && (tors8_ok 3 && (tors8_ok 4 && (tors8_ok 5 && (tors8_ok 6 && tors8_ok 7)))))) = true.
Proof. vm_cast_no_check (eq_refl true). Qed.   (* one VM run, at Qed *)

Lemma tors8_ok_mod8 i : tors8_ok (i mod 8) = true.
Proof.
  pose proof tors8_ok_all as H.
  apply andb_true_iff in H. destruct H as [H0 H]. apply andb_true_iff in H. destruct H as [H1 H].
  apply andb_true_iff in H. destruct H as [H2 H]. apply andb_true_iff in H. destruct H as [H3 H].
  apply andb_true_iff in H. destruct H as [H4 H]. apply andb_true_iff in H. destruct H as [H5 H].
  apply andb_true_iff in H. destruct H as [H6 H7].
  destruct (mod8_cases i) as [-> | [-> | [-> | [-> | [-> | [-> | [-> | ->]]]]]]];
    [exact H0|exact H1|exact H2|exact H3|exact H4|exact H5|exact H6|exact H7].
Qed.

Lemma inst_tors_8 : forall i, @smul ed25519_ops 8 (tors i) = pzero.
Proof.
  intros i. cbn [smul pzero tors ed25519_ops]. unfold Ed25519.torsion. apply pt_eqb_strict_ok. exact (tors8_ok_mod8 i).
Qed.

(* ---- decompress_valid, the part that needs no inverse: everything in `valid` except the curve equation ----------- *)
(* whatever `decompress` returns is a normalised representative (Z = 1, T = XY) with reduced coordinates; that (X, Y)
   satisfies the curve equation needs v * finv v = 1 and the square-root test, i.e. primality: NOT proved. *)
Lemma inst_decompress_some_shape : forall b (P : @point ed25519_ops), decompress b = Some P ->
  0 <= Ed25519.pX P < Ed25519.fp /\ 0 <= Ed25519.pY P < Ed25519.fp /\ Ed25519.pZ P = 1 /\
  Ed25519.pT P = Ed25519.fmul (Ed25519.pX P) (Ed25519.pY P).
Proof.
  intros b P. cbn [decompress ed25519_ops]. unfold Ed25519.decompress.
  destruct (negb (Nat.eqb (length b) 32)); [discriminate|]. cbv zeta.
  set (y := (Ed25519.le2z b mod 2 ^ 255) mod Ed25519.fp).
  set (x2 := Ed25519.fmul _ (Ed25519.finv _)).
  set (r0 := Ed25519.fpow x2 _).
  set (r1 := if Ed25519.fmul r0 r0 =? x2 then r0 else Ed25519.fmul r0 Ed25519.sqrt_m1).
  set (r2 := if r1 mod 2 =? 0 then r1 else Ed25519.fneg r1).
  set (x := if Ed25519.le2z b / 2 ^ 255 =? 1 then Ed25519.fneg r2 else r2).
  assert (Hy : 0 <= y < Ed25519.fp) by (apply Z.mod_pos_bound; apply fp_pos).
  assert (Hr0 : 0 <= r0 < Ed25519.fp) by apply fpow_range.
  assert (Hr1 : 0 <= r1 < Ed25519.fp).
  { unfold r1. destruct (Ed25519.fmul r0 r0 =? x2); [exact Hr0|apply fmul_range]. }
  assert (Hr2 : 0 <= r2 < Ed25519.fp).
  { unfold r2. destruct (r1 mod 2 =? 0); [exact Hr1|apply fneg_range]. }
  assert (Hx : 0 <= x < Ed25519.fp).
  { unfold x. destruct (le2z b / 2 ^ 255 =? 1); [apply fneg_range|exact Hr2]. }
  clearbody x y. destruct (negb _); [discriminate|]. intros H. injection H as <-.
  cbn [Ed25519.pX Ed25519.pY Ed25519.pZ Ed25519.pT]. split; [exact Hx|]. split; [exact Hy|]. split; reflexivity.
Qed.

(* ---- summary: EdLaws for the executable instance follows from the NINE fields that are not proved here ------------ *)
(* (for decompress_valid only its curve-equation part is left as a hypothesis) *)
Definition inst_on_curve (p : Ed25519.pt) : Prop :=
  let x := Ed25519.pX p in let y := Ed25519.pY p in
  Ed25519.fsub (Ed25519.fmul y y) (Ed25519.fmul x x) =
  Ed25519.fadd 1 (Ed25519.fmul Ed25519.ed_d (Ed25519.fmul (Ed25519.fmul x x) (Ed25519.fmul y y))).

Lemma inst_laws_from_remaining :
  (forall P Q : @point ed25519_ops, valid P -> valid Q -> valid (padd P Q)) ->
  (forall k (P : @point ed25519_ops), valid P -> valid (smul k P)) ->
  (forall P Q R : @point ed25519_ops, valid P -> valid Q -> valid R -> padd P (padd Q R) = padd (padd P Q) R) ->
  (forall P : @point ed25519_ops, valid P -> padd P (pneg P) = pzero) ->
  (forall a b (P : @point ed25519_ops), valid P -> smul (a + b) P = padd (smul a P) (smul b P)) ->
  (forall a b (P : @point ed25519_ops), valid P -> smul (a * b) P = smul a (smul b P)) ->
  (forall a b, @smul ed25519_ops a G = smul b G -> a mod ell = b mod ell) ->
  (forall P : @point ed25519_ops, valid P -> decompress (compress P) = Some P) ->
  (forall b (P : @point ed25519_ops), decompress b = Some P -> inst_on_curve P) ->
  EdLaws ed25519_ops.
Proof.
  intros Hadd Hsmul Hassoc Hneg Hsadd Hsmulmul Hord Hdc Hcurve. constructor.
  - exact inst_valid_zero.
  - exact inst_valid_G.
  - exact Hadd.
  - exact inst_valid_neg.
  - exact Hsmul.
  - exact Hassoc.
  - intros P Q _ _. apply inst_padd_comm.
  - exact inst_padd_zero_r.
  - exact Hneg.
  - exact inst_smul_0.
  - exact inst_smul_1.
  - exact Hsadd.
  - exact Hsmulmul.
  - exact inst_smul_opp.
  - exact inst_smul_ell_G.
  - exact Hord.
  - intros P _. apply inst_compress_len.
  - exact Hdc.
  - intros b P H. destruct (inst_decompress_some_shape b P H) as (Hx & Hy & Hz & Ht).
    pose proof (Hcurve b P H) as Hc. cbn [valid ed25519_ops]. unfold inst_valid. cbv zeta.
    split; [exact Hx|]. split; [exact Hy|]. split; [exact Hz|]. split; [exact Ht|exact Hc].
  - exact inst_peqb_eq.
  - exact inst_tors_valid.
  - exact inst_tors_8.
Qed.
