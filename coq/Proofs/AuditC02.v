(* AuditC02.v — lemma added by the model-mutation audit (notes/MODEL_MUTANTS_A.md), seed C02-e.
   The seed changes only the encoder of SubField::Nonce (one raw length byte instead of a varint).  The C02 theorem set
   spoke about Model/Codec.v only, where the extra field is an opaque Vec<u8>; the typed extra field (Model/Extra.v)
   was covered by the C16 theorems alone, so Props/C02.vo did not even depend on the mutated definition.  The lemma
   below is the C02 statement for the typed extra field: the consensus encoding of a well-formed ExtraField
   (length-prefixed blob of the sub-field encodings) parses back, at the Vec<u8> layer and at the sub-field layer. *)
From MRS Require Export Proofs.ExtraProofs.
Open Scope N_scope.

Lemma audit_extra_consensus_roundtrip valid_pk fs r :
  wf_extra valid_pk fs ->
  dec_bytes_vec (enc_extra fs ++ r) = (Ok (enc_fields fs), r) /\
  try_parse valid_pk (enc_fields fs) = Ok (true, fs).
Proof.
  intros (Hw & Hp & Hl). split.
  - unfold enc_extra. now apply dec_bytes_vec_complete.
  - now apply roundtrip_fields.
Qed.
