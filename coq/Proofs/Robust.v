(* Robust.v — C04 (b) termination / linear work, (c) allocation requests, (d) operations on parsed blocks.
   Builds on the exactness theorems of C01 (Proofs/CodecExact.v): a decoder that succeeds has consumed exactly the
   serialisation of its value, so "consumes at least k bytes" is a statement about encoder lengths. *)
From MRS Require Export Proofs.CodecExact Proofs.NoPanic.
From MRS Require Import Proofs.TreeHashProofs.
Open Scope N_scope.

(* ---- (b) every successful element decode consumes input ------------------------------------------------------- *)
(* `consumes d k`: whenever d succeeds, the cursor has advanced by at least k bytes *)
Definition consumes {A} (d : dec A) (k : nat) : Prop :=
  forall s a r, d s = (Ok a, r) -> (length r + k <= length s)%nat.

Lemma consumes_weaken {A} (d : dec A) k k' : consumes d k -> (k' <= k)%nat -> consumes d k'.
Proof. intros H Hk s a r Hd. specialize (H s a r Hd). lia. Qed.

(* from exactness: it suffices to bound the encoder from below *)
Lemma consumes_of_exact {A} (d : dec A) e `{Exact A d e} k :
  (forall a, (k <= length (e a))%nat) -> consumes d k.
Proof.
  intros Hk s a r Hd. apply exact_pf in Hd. subst. rewrite app_length. specialize (Hk a). lia.
Qed.

Lemma enc_varint_nonempty n : (1 <= length (enc_varint n))%nat.
Proof.
  pose proof (enc_varint_len_exact n) as E. unfold lenN in E.
  assert (1 <= leb_len n) by (unfold leb_len; lia). lia.
Qed.

Lemma consumes_varint : consumes dec_varint 1.
Proof. apply (consumes_of_exact dec_varint enc_varint). apply enc_varint_nonempty. Qed.

Lemma consumes_read_u8 : consumes read_u8 1.
Proof. intros s a r H. apply read_u8_ok in H. subst. cbn. lia. Qed.

Lemma consumes_read_n n : consumes (read_n n) n.
Proof. intros s a r H. apply read_n_ok in H. destruct H as [-> <-]. rewrite app_length. lia. Qed.

Lemma consumes_hash : consumes dec_hash 32.
Proof. exact (consumes_read_n 32). Qed.
Lemma consumes_hash8 : consumes dec_hash8 8.
Proof. exact (consumes_read_n 8). Qed.

Lemma consumes_u8 : consumes dec_u8 1.
Proof. intros s a r H. apply dmap_ok in H. destruct H as (b & H & _). now apply consumes_read_u8 in H. Qed.

Lemma enc_u8_length n : length (enc_u8 n) = 1%nat.
Proof. reflexivity. Qed.

(* TxIn: the tag byte and at least one varint byte (the Gen input `ff 00` is exactly 2 bytes) *)
Lemma consumes_txin : consumes dec_txin 2.
Proof.
  apply (consumes_of_exact dec_txin enc_txin). intros [h|a ko ki]; unfold enc_txin; rewrite ?app_length, enc_u8_length.
  - pose proof (enc_varint_nonempty h). lia.
  - pose proof (enc_varint_nonempty a). lia.
Qed.

Lemma consumes_target : consumes dec_target 33.
Proof.
  intros s a r H. unfold dec_target, dec_arr in H. dec_inv.
  - apply consumes_u8 in Hd. apply consumes_read_n in Hd0. lia.
  - apply consumes_u8 in Hd. apply consumes_read_n in Hd0. apply consumes_u8 in Hd1. lia.
Qed.

(* TxOut: amount varint, tag, 32-byte key *)
Lemma consumes_txout : consumes dec_txout 34.
Proof.
  intros s a r H. unfold dec_txout in H. dec_inv. apply consumes_varint in Hd. apply consumes_target in Hd0. lia.
Qed.

Lemma consumes_signature : consumes dec_signature 64.
Proof.
  intros s a r H. unfold dec_signature in H. dec_inv. apply consumes_hash in Hd. apply consumes_hash in Hd0. lia.
Qed.

Lemma consumes_ecdh t : consumes (dec_ecdh t) 8.
Proof.
  intros s a r H. unfold dec_ecdh in H. destruct t; dec_inv;
    repeat match goal with
           | Hx : dec_hash _ = (Ok _, _) |- _ => apply consumes_hash in Hx
           | Hx : dec_hash8 _ = (Ok _, _) |- _ => apply consumes_hash8 in Hx
           end; lia.
Qed.

(* ---- rep: the number of completed iterations is bounded by the bytes consumed ---------------------------------- *)
Lemma repn_consumes {A} (d : dec A) k : consumes d k -> forall n s l r,
  repn n d s = (Ok l, r) -> (length r + k * n <= length s)%nat.
Proof.
  intros Hc. induction n as [|n IH]; intros s l r H; cbn [repn] in H.
  - apply ret_ok in H. destruct H; subst. lia.
  - apply bind_ok in H. destruct H as (a & r1 & H1 & H2). apply Hc in H1.
    apply bind_ok in H2. destruct H2 as (t & r2 & H2 & H3). apply IH in H2.
    apply ret_ok in H3. destruct H3; subst. lia.
Qed.

Lemma rep_consumes {A} (d : dec A) k : consumes d k -> forall n s l r,
  rep n d s = (Ok l, r) -> (length r + k * N.to_nat n <= length s)%nat.
Proof. intros Hc n s l r H. rewrite rep_repn in H. now apply (repn_consumes d k Hc) in H. Qed.

(* declared count huge, input short: the loop cannot have completed *)
Lemma rep_bounded {A} (d : dec A) : consumes d 1 -> forall n s l r,
  rep n d s = (Ok l, r) -> n <= lenN s.
Proof. intros Hc n s l r H. apply (rep_consumes d 1 Hc) in H. unfold lenN. lia. Qed.

(* the number of times the element decoder is CALLED by the loop `for _ in 0..n { d()? }`, success or not *)
Fixpoint calls {A} (n : nat) (d : dec A) (s : bytes) : nat :=
  match n with
  | O => O
  | S n' => match d s with (Ok _, r) => S (calls n' d r) | _ => 1%nat end
  end.

Lemma calls_bounded {A} (d : dec A) : consumes d 1 -> forall n s, (calls n d s <= S (length s))%nat.
Proof.
  intros Hc. induction n as [|n IH]; intros s; cbn [calls]; [lia|].
  destruct (d s) as [[a|e|] r] eqn:E; try lia. apply Hc in E. specialize (IH r). lia.
Qed.

Lemma calls_le_n {A} (d : dec A) : forall n s, (calls n d s <= n)%nat.
Proof. induction n as [|n IH]; intros s; cbn [calls]; [lia|]. destruct (d s) as [[a|e|] r]; try lia. specialize (IH r). lia. Qed.

(* `calls` counts the iterations of exactly the loop that `repn` (= `rep`, rep_repn) runs: it succeeds iff all n calls did *)
Lemma calls_repn {A} (d : dec A) : forall n s l r, repn n d s = (Ok l, r) -> calls n d s = n.
Proof.
  induction n as [|n IH]; intros s l r H; cbn [repn calls] in *; [reflexivity|].
  apply bind_ok in H. destruct H as (a & r1 & H1 & H2). rewrite H1.
  apply bind_ok in H2. destruct H2 as (t & r2 & H2 & _). now rewrite (IH _ _ _ H2).
Qed.

(* vectors: a successful Vec<T> decode read its declared length and that many elements *)
Lemma vec_consumes {A} (d : dec A) k size : consumes d k -> forall s l r,
  dec_vec size d s = (Ok l, r) -> (length r + 1 + k * length l <= length s)%nat.
Proof.
  intros Hc s l r H. unfold dec_vec, dec_len in H. apply bind_ok in H. destruct H as (n & r1 & H1 & H2).
  apply consumes_varint in H1. destruct (over_cap size n); [discriminate|].
  rewrite rep_repn in H2. pose proof (repn_consumes d k Hc _ _ _ _ H2) as Hr.
  assert (length l = N.to_nat n).
  { clear - H2. revert H2. generalize (N.to_nat n) as m. intros m. revert r1 l r.
    induction m as [|m IH]; intros s l r H; cbn [repn] in H.
    - apply ret_ok in H. destruct H; subst. reflexivity.
    - apply bind_ok in H. destruct H as (a & r1 & _ & H). apply bind_ok in H. destruct H as (t & r2 & H & H').
      apply IH in H. apply ret_ok in H'. destruct H'; subst. cbn. lia. }
  lia.
Qed.

Lemma sized_consumes {A} (d : dec A) k size n : consumes d k -> forall s l r,
  dec_sized size n d s = (Ok l, r) -> (length r + k * N.to_nat n <= length s)%nat.
Proof.
  intros Hc s l r H. unfold dec_sized in H. destruct (over_cap size n); [discriminate|].
  now apply (rep_consumes d k Hc) in H.
Qed.

(* a loop whose element may consume nothing is bounded by the allocation cap instead (a row of 0 columns) *)
Lemma cap_bounds_len size n : over_cap size n = false -> size * n <= MAX_VEC_MEM_ALLOC_SIZE.
Proof. unfold over_cap. intros H. apply N.ltb_ge in H. exact H. Qed.

(* the MLSAG rows: `cols` is 2 or 1 + inputs, never 0, so every row consumes at least 32 bytes *)
Lemma consumes_mg_row cols : 1 <= cols -> consumes (dec_sized 32 cols dec_hash) 32.
Proof.
  intros Hc s l r H. apply (sized_consumes dec_hash 32 32 cols consumes_hash) in H. lia.
Qed.

Lemma consumes_mgsig mixin cols : 1 <= cols -> consumes (dec_mgsig mixin cols) (32 * N.to_nat (mixin + 1) + 32).
Proof.
  intros Hc s a r H. unfold dec_mgsig in H. dec_inv.
  apply (rep_consumes _ 32 (consumes_mg_row cols Hc)) in Hd. apply consumes_hash in Hd0. lia.
Qed.

Lemma consumes_clsag mixin : consumes (dec_clsag mixin) (32 * N.to_nat (mixin + 1) + 64).
Proof.
  intros s a r H. unfold dec_clsag in H. dec_inv.
  apply (rep_consumes _ 32 consumes_hash) in Hd. apply consumes_hash in Hd0. apply consumes_hash in Hd1. lia.
Qed.

(* with zero columns the row loop consumes nothing and runs mixin + 1 times whatever the input: not reachable from
   dec_tx (cols >= 2), stated so that the exception is on record *)
Lemma mg_zero_cols_consumes_nothing mixin s :
  exists l, rep (mixin + 1) (dec_sized 32 0 dec_hash) s = (Ok l, s).
Proof.
  rewrite rep_repn. generalize (N.to_nat (mixin + 1)) as n. induction n as [|n IH].
  - exists []. reflexivity.
  - destruct IH as (l & IH). exists ([] :: l). cbn [repn]. unfold bind at 1.
    change (dec_sized 32 0 dec_hash s) with (@ret (list bytes) [] s). unfold ret at 1. unfold bind. rewrite IH. reflexivity.
Qed.

(* the element types of the remaining capped vectors: fixed 32-byte fields plus (for the bulletproofs) two Vec<Key> *)
Ltac consume_fields :=
  repeat match goal with
         | Hx : dec_hash _ = (Ok _, _) |- _ => apply consumes_hash in Hx
         | Hx : dec_key64 _ = (Ok _, _) |- _ => apply (consumes_read_n 2048) in Hx
         | Hx : dec_varint _ = (Ok _, _) |- _ => apply consumes_varint in Hx
         | Hx : dec_u32 _ = (Ok _, _) |- _ =>
             apply dmap_ok in Hx; destruct Hx as (? & Hx & _); apply (consumes_read_n 4) in Hx
         | Hx : dec_vec _ dec_hash _ = (Ok _, _) |- _ => apply (vec_consumes dec_hash 32 _ consumes_hash) in Hx
         end.

Lemma consumes_bulletproof : consumes dec_bulletproof 290.
Proof. intros s a r H. unfold dec_bulletproof in H. dec_inv. consume_fields. lia. Qed.

Lemma consumes_bpplus : consumes dec_bpplus 194.
Proof. intros s a r H. unfold dec_bpplus in H. dec_inv. consume_fields. lia. Qed.

Lemma consumes_borosig : consumes dec_borosig 4128.
Proof. intros s a r H. unfold dec_borosig in H. dec_inv. consume_fields. lia. Qed.

Lemma consumes_rangesig : consumes dec_rangesig (4128 + 2048).
Proof.
  intros s a r H. unfold dec_rangesig in H. dec_inv. apply consumes_borosig in Hd. consume_fields. lia.
Qed.

Lemma consumes_header : consumes dec_header 39.
Proof. intros s a r H. unfold dec_header in H. dec_inv. consume_fields. lia. Qed.

(* ---- (c) allocation requests ------------------------------------------------------------------------------------ *)
(* Vec::with_capacity(len) in `Vec<T>` / `Box<[T]>` / consensus_decode_sized_vec: requested only after the cap test,
   size_of::<T>() * len bytes *)
Definition alloc_request (size len : N) : option N :=
  if over_cap size len then None else Some (size * len).

(* the requests made by one dec_vec / dec_sized call itself (not by its elements) *)
Definition vec_request {A} (size : N) (d : dec A) (s : bytes) : option N :=
  match dec_len s with (Ok n, _) => alloc_request size n | _ => None end.

Lemma alloc_each size len q : alloc_request size len = Some q -> q <= MAX_VEC_MEM_ALLOC_SIZE.
Proof.
  unfold alloc_request. destruct (over_cap size len) eqn:E; [discriminate|]. intros H. inversion H; subst.
  now apply cap_bounds_len.
Qed.

Lemma vec_request_each {A} size (d : dec A) s q : vec_request size d s = Some q -> q <= 32 * 1024 * 1024.
Proof.
  unfold vec_request. destruct (dec_len s) as [[n|e|] r]; try discriminate. apply alloc_each.
Qed.

(* a pre-allocation that is KEPT (the vector decode succeeded) is paid for by the bytes read: every element took >= k bytes *)
Lemma alloc_kept_linear {A} (d : dec A) k size : consumes d k -> forall s l r,
  dec_vec size d s = (Ok l, r) ->
  vec_request size d s = Some (size * lenN l) /\ N.of_nat k * (size * lenN l) <= size * (lenN s - lenN r).
Proof.
  intros Hc s l r H. pose proof (vec_consumes d k size Hc s l r H) as Hv.
  unfold dec_vec in H. unfold vec_request. apply bind_ok in H. destruct H as (n & r1 & H1 & H2). rewrite H1.
  unfold alloc_request. destruct (over_cap size n) eqn:Ec; [discriminate|].
  rewrite rep_repn in H2.
  assert (El : lenN l = n).
  { assert (G : forall m s l r, repn m d s = (Ok l, r) -> length l = m).
    { clear. induction m as [|m IH]; intros s l r H; cbn [repn] in H.
      - apply ret_ok in H. destruct H; subst. reflexivity.
      - apply bind_ok in H. destruct H as (a & r1 & _ & H). apply bind_ok in H. destruct H as (t & r2 & H & H').
        apply IH in H. apply ret_ok in H'. destruct H'; subst. cbn. lia. }
    apply G in H2. unfold lenN. lia. }
  rewrite El. split; [reflexivity|].
  assert (N.of_nat k * n <= lenN s - lenN r) by (unfold lenN in *; lia).
  rewrite (N.mul_comm size n), N.mul_assoc, (N.mul_comm _ size). apply N.mul_le_mono_l. assumption.
Qed.

(* ---- (d) operations on parsed blocks ------------------------------------------------------------------------------ *)
Lemma block_hashes_bounded sz s b r : dec_block sz s = (Ok b, r) -> lenN (tx_hashes b) <= 2 ^ 20.
Proof.
  intros H. unfold dec_block in H. dec_inv. cbn [tx_hashes].
  eapply (dec_vec_ok dec_hash enc_arr) in Hd1. destruct Hd1 as (_ & _ & Hc). apply cap_bounds_len in Hc.
  unfold MAX_VEC_MEM_ALLOC_SIZE in Hc. change (2 ^ 20) with 1048576. lia.
Qed.

(* the tree-hash assert (count <= 2^28) cannot fire on a parsed block *)
Lemma block_count_below_assert sz s b r : dec_block sz s = (Ok b, r) -> lenN (tx_hashes b) + 1 <= 2 ^ 28.
Proof. intros H. apply block_hashes_bounded in H. change (2 ^ 28) with 268435456. change (2 ^ 20) with 1048576 in H. lia. Qed.

Lemma block_root_total (H : bytes -> bytes) sz s b r mh : dec_block sz s = (Ok b, r) ->
  tx_root H mh (tx_hashes b) = Ok (root_spec H (mh :: tx_hashes b)).
Proof.
  intros Hd. apply tx_root_correct. apply block_hashes_bounded in Hd. change (2 ^ 28) with 268435456.
  change (2 ^ 20) with 1048576 in Hd. lia.
Qed.

Lemma block_blob_total (H : bytes -> bytes) sz s b r hdr mh : dec_block sz s = (Ok b, r) ->
  hashable_blob H hdr mh (tx_hashes b) = Ok (blob_spec H leb128 hdr (mh :: tx_hashes b)).
Proof.
  intros Hd. apply hashable_blob_correct. apply block_hashes_bounded in Hd. change (2 ^ 28) with 268435456.
  change (2 ^ 20) with 1048576 in Hd. lia.
Qed.

(* Block::id with Keccak-256: `blob.len().try_into().unwrap()` cannot fail, the serialised header of a parsed block is
   at most as long as the input it was parsed from *)
Lemma block_id_total sz s b r mh : dec_block sz s = (Ok b, r) -> length mh = 32%nat -> lenN s < 2 ^ 32 ->
  block_id keccak256 (enc_header (blk_header b)) mh (tx_hashes b) =
  Ok (id_spec keccak256 leb128 correct_block_id_202612 existing_block_id_202612 (enc_header (blk_header b)) (mh :: tx_hashes b)).
Proof.
  intros Hd Hm Hs. apply block_id_keccak; [exact Hm| |].
  - apply block_hashes_bounded in Hd. change (2 ^ 28) with 268435456. change (2 ^ 20) with 1048576 in Hd. lia.
  - apply exact_pf in Hd. subst s. unfold enc_block in Hs. unfold lenN in *. rewrite !app_length in Hs. lia.
Qed.

(* `key_offsets.len().checked_sub(1)`: a RingCT transaction whose first input has an empty ring is a parse ERROR, and
   whenever the prunable part is decoded the mixin is the ring size minus one (no wrap-around) *)
Lemma tx_ring_guard sz s t r a ki rest :
  dec_tx sz s = (Ok t, r) -> inputs (tx_prefix t) = ToKey a [] ki :: rest -> version (tx_prefix t) <> 1 ->
  rct_p (tx_rct t) = None.
Proof.
  unfold dec_tx. intros H Hi Hv.
  apply bind_ok in H. destruct H as (p & r1 & Hp & H).
  destruct (version p =? 1) eqn:Ev.
  - dec_inv. cbn [tx_prefix version] in *. apply N.eqb_eq in Ev. congruence.
  - destruct (lenN (inputs p) =? 0) eqn:Ei.
    + dec_inv. reflexivity.
    + apply bind_ok in H. destruct H as (sig & r2 & Hsig & H).
      destruct (rb_type sig) eqn:Et; [dec_inv; reflexivity|..];
        (destruct (inputs p) as [|[h|a' ko ki'] tl] eqn:Ep;
         [ dec_inv; cbn [tx_prefix] in Hi; congruence
         | dec_inv; cbn [tx_prefix] in Hi; congruence
         | destruct (lenN ko =? 0) eqn:Ek;
           [ discriminate H
           | dec_inv; cbn [tx_prefix] in Hi; rewrite Ep in Hi; inversion Hi; subst; discriminate Ek ] ]).
Qed.
