(* AuditC10.v — lemmas added by the model-mutation audit (notes/MODEL_MUTANTS_B.md) for C10.
   Mutant C10-a (from_key computes (8*v mod l)*R instead of 8*(v*R)) broke only proof scripts about honest keys
   (generators_agree: R = r*G, where both computations agree because l*G = O); no C10 statement tied BOTH constructors
   from_key / from_random to the derivation 8*(a*B) for an ARBITRARY accepted key B, in particular one with a small-order
   component.  These lemmas do. *)
From MRS Require Export Proofs.DeriveProofs.
Open Scope Z_scope.

Section AuditC10.
Context {E : EdOps} {LW : EdLaws E}.

(* both constructors apply the cofactor to the POINT a*B, for every valid B *)
Lemma generators_derive a S B : valid B ->
  from_key a S (compress B) = Ok (S, compress (smul 8 (smul a B))) /\
  from_random (compress B) S a = Ok (S, compress (smul 8 (smul a B))).
Proof.
  intros HB. unfold from_key, from_random. rewrite key_derive_compress by exact HB. cbn [bindr]. split; reflexivity.
Qed.

(* ... hence both clear a small-order component of the key they are given *)
Lemma generators_clear_torsion a S B' T : valid B' -> valid T -> smul 8 T = pzero ->
  from_key a S (compress (padd B' T)) = Ok (S, compress (smul (8 * a) B')) /\
  from_random (compress (padd B' T)) S a = Ok (S, compress (smul (8 * a) B')) /\
  from_key a S (compress (padd B' T)) = from_key a S (compress B').
Proof.
  intros HB HT H8.
  destruct (generators_derive a S (padd B' T)) as [H1 H2]; [auto with ed|].
  destruct (generators_derive a S B' HB) as [H3 _].
  rewrite derivation_clears_torsion in H1, H2 by auto.
  rewrite smul8_smul in H3 by exact HB.
  split; [exact H1|split; [exact H2|]]. now rewrite H1, H3.
Qed.

(* for every byte string that PublicKey::from_slice accepts *)
Lemma generators_accepted a S k : pk_from_slice k = Ok k ->
  exists B, valid B /\ compress B = k /\
    from_key a S k = Ok (S, compress (smul 8 (smul a B))) /\ from_random k S a = Ok (S, compress (smul 8 (smul a B))).
Proof.
  intros H. apply pk_from_slice_iff in H. destruct H as (B & HB & <-).
  exists B. destruct (generators_derive a S B HB) as [H1 H2]. repeat split; auto.
Qed.

End AuditC10.
