(* KeccakBounds.v — every lane of every Keccak state of the model stays below 2^64, so rotations never lose bits and the
   8-byte little-endian squeeze of a lane is exact. *)
From MRS Require Export Proofs.KeccakProofs.
Open Scope N_scope.

Definition hi_clear (x : N) : Prop := forall i, 64 <= i -> N.testbit x i = false.

Lemma lt_hi_clear x : x < 2 ^ 64 -> hi_clear x.
Proof.
  intros Hx i Hi. destruct (N.eq_dec x 0) as [->|Hz]; [apply N.bits_0|].
  apply N.bits_above_log2. apply N.lt_le_trans with 64; [|exact Hi].
  apply N.log2_lt_pow2; lia.
Qed.

Lemma hi_clear_lt x : hi_clear x -> x < 2 ^ 64.
Proof.
  intros Hc. destruct (N.lt_ge_cases x (2 ^ 64)) as [L|G]; [exact L|exfalso].
  assert (Hpos : 0 < x) by (assert (0 < 2 ^ 64) by (apply N.neq_0_lt_0, N.pow_nonzero; discriminate); lia).
  assert (Hl : 64 <= N.log2 x) by (apply N.log2_le_pow2; assumption).
  specialize (Hc (N.log2 x) Hl). rewrite N.bit_log2 in Hc by lia. discriminate.
Qed.

Lemma hc_0 : hi_clear 0.
Proof. intros i _. apply N.bits_0. Qed.
Lemma hc_lxor a b : hi_clear a -> hi_clear b -> hi_clear (N.lxor a b).
Proof. intros Ha Hb i Hi. now rewrite N.lxor_spec, Ha, Hb. Qed.
Lemma hc_lor a b : hi_clear a -> hi_clear b -> hi_clear (N.lor a b).
Proof. intros Ha Hb i Hi. now rewrite N.lor_spec, Ha, Hb. Qed.
Lemma hc_land_r a b : hi_clear b -> hi_clear (N.land a b).
Proof. intros Hb i Hi. rewrite N.land_spec, Hb by exact Hi. apply andb_false_r. Qed.
Lemma hc_land_l a b : hi_clear a -> hi_clear (N.land a b).
Proof. intros Ha i Hi. rewrite N.land_spec, Ha by exact Hi. reflexivity. Qed.
Lemma hc_shiftr a k : hi_clear a -> hi_clear (N.shiftr a k).
Proof. intros Ha i Hi. rewrite N.shiftr_spec by lia. apply Ha. lia. Qed.
Lemma hc_mask64 : hi_clear mask64.
Proof. apply lt_hi_clear. vm_compute. reflexivity. Qed.

Lemma hc_rotl64 x n : hi_clear x -> hi_clear (rotl64 x n).
Proof.
  intros Hx. unfold rotl64. destruct (n =? 0); [exact Hx|].
  apply hc_lor; [apply hc_land_r, hc_mask64|apply hc_shiftr, Hx].
Qed.
Lemma hc_not64 x : hi_clear x -> hi_clear (not64 x).
Proof. intros Hx. apply hc_lxor; [exact Hx|apply hc_mask64]. Qed.

Lemma hc_nth l i : Forall hi_clear l -> hi_clear (nth i l 0).
Proof.
  intros Hl. revert i. induction Hl as [|x l Hx _ IH]; intros [|i]; cbn [nth]; try apply hc_0; [exact Hx|apply IH].
Qed.

Lemma hc_fold_lxor l : forall acc, hi_clear acc -> Forall hi_clear l -> hi_clear (fold_left N.lxor l acc).
Proof.
  induction l as [|x l IH]; intros acc Ha Hl; [exact Ha|].
  cbn [fold_left]. inversion Hl; subst. apply IH; [now apply hc_lxor|assumption].
Qed.

Lemma Forall_map_all {A B} (P : B -> Prop) (f : A -> B) l : (forall x, P (f x)) -> Forall P (map f l).
Proof. intros H. induction l; constructor; auto. Qed.

Lemma hc_theta a : Forall hi_clear a -> Forall hi_clear (theta a).
Proof.
  intros Ha. unfold theta. apply Forall_map_all. intros i.
  apply hc_lxor; [apply hc_nth, Ha|]. apply hc_nth.
  apply Forall_map_all. intros x.
  assert (Hc : Forall hi_clear (map (fun x0 => fold_left N.lxor (map (fun y => lane a (idx x0 y)) range5) 0) range5)).
  { apply Forall_map_all. intros x0. apply hc_fold_lxor; [apply hc_0|]. apply Forall_map_all. intros y. apply hc_nth, Ha. }
  apply hc_lxor; [apply hc_nth, Hc|apply hc_rotl64, hc_nth, Hc].
Qed.

Lemma hc_rho_pi a : Forall hi_clear a -> Forall hi_clear (rho_pi a).
Proof. intros Ha. unfold rho_pi. apply Forall_map_all. intros i. apply hc_rotl64, hc_nth, Ha. Qed.

Lemma hc_chi a : Forall hi_clear a -> Forall hi_clear (chi a).
Proof.
  intros Ha. unfold chi. apply Forall_map_all. intros i.
  apply hc_lxor; [apply hc_nth, Ha|]. apply hc_land_r, hc_nth, Ha.
Qed.

Lemma hc_iota rc a : hi_clear rc -> Forall hi_clear a -> Forall hi_clear (iota rc a).
Proof.
  intros Hr Ha. destruct a as [|h t]; [constructor|]. inversion Ha; subst.
  cbn [iota]. constructor; [now apply hc_lxor|assumption].
Qed.

Lemma hc_round_constants : Forall hi_clear round_constants.
Proof. unfold round_constants. repeat constructor; apply lt_hi_clear; vm_compute; reflexivity. Qed.

Lemma hc_keccak_f a : Forall hi_clear a -> Forall hi_clear (keccak_f a).
Proof.
  unfold keccak_f. generalize hc_round_constants. generalize round_constants as rcs. intros rcs Hr. revert a.
  induction Hr as [|rc rcs Hrc _ IH]; intros a Ha; [exact Ha|].
  cbn [fold_left]. apply IH. unfold keccak_round. apply hc_iota; [exact Hrc|]. apply hc_chi, hc_rho_pi, hc_theta, Ha.
Qed.

Lemma hc_lanes_of_bytes fuel : forall bs, Forall hi_clear (lanes_of_bytes fuel bs).
Proof.
  induction fuel as [|f IH]; intros bs; [constructor|].
  destruct bs as [|b t]; [constructor|]. cbn [lanes_of_bytes]. constructor; [|apply IH].
  apply lt_hi_clear. pose proof (le2n_lt (firstn 8 (b :: t))) as Hl.
  assert (Hn : lenN (firstn 8 (b :: t)) <= 8) by (unfold lenN; rewrite firstn_length; lia).
  apply N.lt_le_trans with (256 ^ lenN (firstn 8 (b :: t))); [exact Hl|].
  change (2 ^ 64) with (256 ^ 8). apply N.pow_le_mono_r; [discriminate|exact Hn].
Qed.

Lemma hc_xor_lanes st : forall blk, Forall hi_clear st -> Forall hi_clear blk -> Forall hi_clear (xor_lanes st blk).
Proof.
  induction st as [|s st IH]; intros blk Hs Hb; [constructor|].
  destruct blk as [|b blk]; [exact Hs|]. inversion Hs; inversion Hb; subst.
  cbn [xor_lanes]. constructor; [now apply hc_lxor|now apply IH].
Qed.

Lemma hc_absorb fuel : forall st m, Forall hi_clear st -> Forall hi_clear (absorb fuel st m).
Proof.
  induction fuel as [|f IH]; intros st m Hs; [exact Hs|].
  destruct m as [|b t]; [exact Hs|]. cbn [absorb]. apply IH, hc_keccak_f, hc_xor_lanes; [exact Hs|apply hc_lanes_of_bytes].
Qed.

Lemma hc_repeat0 n : Forall hi_clear (repeat 0 n).
Proof. induction n; constructor; [apply hc_0|assumption]. Qed.

(* the final state: 25 lanes, all below 2^64; the digest is the exact little-endian image of its first four lanes *)
Lemma keccak256_state m : exists st,
  length st = 25%nat /\ Forall (fun x => x < 2 ^ 64) st /\
  keccak256 m = flat_map (n2le 8) (firstn 4 st) /\
  Forall (fun x => le2n (n2le 8 x) = x) st.
Proof.
  exists (absorb (S (length (pad m) / rate)) (repeat 0 25) (pad m)).
  assert (Hc : Forall hi_clear (absorb (S (length (pad m) / rate)) (repeat 0 25) (pad m))) by apply hc_absorb, hc_repeat0.
  split; [apply absorb_length, repeat_length|]. split.
  - eapply Forall_impl; [|exact Hc]. intros x. apply hi_clear_lt.
  - split; [reflexivity|]. eapply Forall_impl; [|exact Hc]. intros x Hx. apply le2n_n2le.
    change (256 ^ N.of_nat 8) with (2 ^ 64). now apply hi_clear_lt.
Qed.
