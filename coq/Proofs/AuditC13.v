(* AuditC13.v — lemmas added by the model-mutation audit (notes/MODEL_MUTANTS_B.md) for C13.
   The "only canonical text" statements (sk_from_str t = Ok s -> hex_decode t = Ok (bytes of s), likewise for public keys) are relative
   to the model's `hex_decode` (the `hex` crate), which was characterised only by decode (encode b) = b.  A more lenient decoder
   (skipping blanks, accepting other letters, ...) would have left every C13 statement true.  Here: the decoder accepts ONLY the
   case variants of the canonical lower-case encoding. *)
From MRS Require Export Proofs.KeysProofs.
Open Scope N_scope.

(* ASCII upper-case letters to lower case, every other byte unchanged *)
Definition ascii_lower (c : byte) : byte :=
  let n := b2n c in if (65 <=? n) && (n <=? 90) then n2b (n + 32) else c.

Lemma hex_val_lower c x : hex_val c = Some x -> x < 16 /\ hex_digit x = ascii_lower c.
Proof.
  destruct c; intros H; vm_compute in H; try discriminate; injection H as <-; (split; [reflexivity|vm_compute; reflexivity]).
Qed.

Lemma hex_decode_pairs_lower_n : forall n t b, (List.length t <= n)%nat ->
  hex_decode_pairs t = Ok b -> map ascii_lower t = hex_encode b.
Proof.
  induction n as [|n IH]; intros [|a [|c t]] b Hn H; try (cbn [List.length] in Hn; lia).
  - injection H as <-. reflexivity.
  - injection H as <-. reflexivity.
  - discriminate.
  - cbn [hex_decode_pairs] in H.
    destruct (hex_val a) as [x|] eqn:Ha; [|discriminate]. destruct (hex_val c) as [y|] eqn:Hc; [|discriminate].
    destruct (hex_decode_pairs t) as [r|e|] eqn:Ht; try discriminate. injection H as <-.
    destruct (hex_val_lower _ _ Ha) as [Hx Hxa]. destruct (hex_val_lower _ _ Hc) as [Hy Hyc].
    cbn [map hex_encode]. rewrite (IH t r) by (cbn [List.length] in Hn; lia || exact Ht).
    rewrite b2n_n2b_small by lia.
    replace ((16 * x + y) / 16) with x by (apply (N.div_unique (16 * x + y) 16 x y); lia).
    replace ((16 * x + y) mod 16) with y by (apply (N.mod_unique (16 * x + y) 16 x y); lia).
    now rewrite Hxa, Hyc.
Qed.

Lemma hex_decode_pairs_lower t b : hex_decode_pairs t = Ok b -> map ascii_lower t = hex_encode b.
Proof. apply (hex_decode_pairs_lower_n (List.length t)). lia. Qed.

(* hex::decode returns b only for a case variant of hex::encode(b) *)
Lemma hex_decode_lower t b : hex_decode t = Ok b -> map ascii_lower t = hex_encode b.
Proof. unfold hex_decode. destruct (Nat.odd (List.length t)); [discriminate|]. apply hex_decode_pairs_lower. Qed.

(* ... and every case variant is accepted *)
Lemma hex_val_of_lower c x : hex_val (ascii_lower c) = Some x -> hex_val c = Some x.
Proof. destruct c; intros H; vm_compute in H; try discriminate; injection H as <-; vm_compute; reflexivity. Qed.

Lemma hex_decode_pairs_of_lower : forall b t, map ascii_lower t = hex_encode b -> hex_decode_pairs t = Ok b.
Proof.
  induction b as [|b0 r IH]; intros t H.
  - destruct t; [reflexivity|discriminate].
  - cbn [hex_encode] in H. destruct t as [|a [|c t]]; try discriminate. cbn [map] in H.
    injection H as Ha Hc Ht. destruct (hex_pair b0) as [H1 H2].
    rewrite <- Ha in H1. rewrite <- Hc in H2. apply hex_val_of_lower in H1. apply hex_val_of_lower in H2.
    cbn [hex_decode_pairs]. rewrite H1, H2, (IH t Ht).
    f_equal. f_equal. rewrite <- (n2b_b2n b0) at 3. f_equal. pose proof (N.div_mod' (b2n b0) 16). lia.
Qed.

Lemma hex_decode_iff t b : hex_decode t = Ok b <-> map ascii_lower t = hex_encode b.
Proof.
  split; [apply hex_decode_lower|]. intros H. unfold hex_decode.
  assert (Hlen : List.length t = (2 * List.length b)%nat).
  { rewrite <- (map_length ascii_lower), H. apply hex_encode_length. }
  rewrite Hlen. replace (Nat.odd (2 * List.length b)) with false.
  - now apply hex_decode_pairs_of_lower.
  - symmetry. rewrite <- Nat.negb_even. rewrite Nat.even_mul. reflexivity.
Qed.

Open Scope Z_scope.

Lemma sk_text_canonical t s : sk_from_str t = Ok s -> map ascii_lower t = sk_to_string s.
Proof. intros H. unfold sk_to_string. apply hex_decode_lower. now apply sk_str_back. Qed.

Section AuditC13Pk.
Context {E : EdOps} {LW : EdLaws E}.

Lemma pk_text_canonical t k : pk_from_str t = Ok k -> map ascii_lower t = pk_to_string k.
Proof. intros H. unfold pk_to_string. apply hex_decode_lower. now apply pk_str_back. Qed.

End AuditC13Pk.
