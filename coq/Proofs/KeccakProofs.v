(* KeccakProofs.v — facts about Model/Keccak.v: digest length, byte-level shape of the padding and its refinement to the
   bit-level pad10*1 of Spec/Pad.v, fuel of the absorb loop, hash-to-scalar. *)
From MRS Require Export Proofs.BaseProofs Model.Keccak Spec.Pad.
Open Scope N_scope.

(* ---- little-endian conversions ------------------------------------------ *)
Lemma n2le_length k n : length (n2le k n) = k.
Proof. revert n. induction k as [|k IH]; intros n; cbn [n2le length]; [reflexivity|now rewrite IH]. Qed.

Lemma le2n_n2le k : forall n, n < 256 ^ N.of_nat k -> le2n (n2le k n) = n.
Proof.
  induction k as [|k IH]; intros n Hn.
  - cbn [n2le le2n]. change (256 ^ N.of_nat 0) with 1 in Hn. lia.
  - cbn [n2le le2n]. rewrite b2n_n2b.
    rewrite Nat2N.inj_succ, N.pow_succ_r' in Hn.
    rewrite IH.
    + pose proof (N.div_mod' n 256) as E. lia.
    + apply N.div_lt_upper_bound; lia.
Qed.

Lemma le2n_lt bs : le2n bs < 256 ^ lenN bs.
Proof.
  unfold lenN. induction bs as [|b t IH].
  - cbn [le2n length]. change (256 ^ N.of_nat 0) with 1. lia.
  - cbn [le2n length]. rewrite Nat2N.inj_succ, N.pow_succ_r'. pose proof (b2n_lt b). lia.
Qed.

Lemma n2le_le2n bs : n2le (length bs) (le2n bs) = bs.
Proof.
  induction bs as [|b t IH]; [reflexivity|].
  cbn [le2n length n2le]. pose proof (b2n_lt b) as Hb.
  assert (E1 : (b2n b + 256 * le2n t) / 256 = le2n t).
  { symmetry. apply (N.div_unique _ 256 _ (b2n b)); lia. }
  assert (E2 : (b2n b + 256 * le2n t) mod 256 = b2n b).
  { symmetry. apply (N.mod_unique _ 256 (le2n t)); lia. }
  rewrite E1, IH. f_equal.
  apply b2n_inj. rewrite b2n_n2b. exact E2.
Qed.

(* ---- hash-to-scalar ------------------------------------------------------ *)
Lemma group_order_pos : group_order <> 0.
Proof. discriminate. Qed.

Lemma group_order_lt_256_32 : group_order < 256 ^ N.of_nat 32.
Proof. vm_compute. reflexivity. Qed.

Lemma h2s_spec h : h2s h = le2n h mod group_order.
Proof. reflexivity. Qed.

Lemma h2s_lt h : h2s h < group_order.
Proof. unfold h2s. apply N.mod_lt. exact group_order_pos. Qed.

Lemma scalar_bytes_length s : length (scalar_bytes s) = 32%nat.
Proof. apply n2le_length. Qed.

Lemma scalar_bytes_le2n s : s < group_order -> le2n (scalar_bytes s) = s.
Proof.
  intros Hs. unfold scalar_bytes. apply le2n_n2le.
  pose proof group_order_lt_256_32. lia.
Qed.

Lemma scalar_bytes_inj s t : s < group_order -> t < group_order -> scalar_bytes s = scalar_bytes t -> s = t.
Proof. intros Hs Ht E. rewrite <- (scalar_bytes_le2n s Hs), <- (scalar_bytes_le2n t Ht). now rewrite E. Qed.

Lemma h2s_scalar h :
  h2s h = le2n h mod group_order /\ h2s h < group_order /\
  le2n (scalar_bytes (h2s h)) = h2s h /\ length (scalar_bytes (h2s h)) = 32%nat.
Proof.
  split; [reflexivity|]. split; [apply h2s_lt|]. split; [apply scalar_bytes_le2n, h2s_lt|apply scalar_bytes_length].
Qed.

(* a digest that already is a canonical scalar is returned unchanged *)
Lemma h2s_canonical h : length h = 32%nat -> le2n h < group_order -> scalar_bytes (h2s h) = h.
Proof.
  intros Hl Hc. unfold h2s, scalar_bytes. rewrite N.mod_small by exact Hc.
  rewrite <- Hl. apply n2le_le2n.
Qed.

(* ---- digest length -------------------------------------------------------- *)
Lemma iota_length rc a : length (iota rc a) = length a.
Proof. destruct a; reflexivity. Qed.

Lemma keccak_round_length a rc : length (keccak_round a rc) = 25%nat.
Proof. unfold keccak_round, chi. rewrite iota_length, map_length. reflexivity. Qed.

Lemma fold_rounds_length l : forall a, l <> [] -> length (fold_left keccak_round l a) = 25%nat.
Proof.
  induction l as [|rc t IH]; intros a Hne; [contradiction|].
  destruct t as [|rc' t'].
  - cbn [fold_left]. apply keccak_round_length.
  - change (fold_left keccak_round (rc :: rc' :: t') a) with (fold_left keccak_round (rc' :: t') (keccak_round a rc)).
    apply IH. discriminate.
Qed.

Lemma keccak_f_length a : length (keccak_f a) = 25%nat.
Proof. unfold keccak_f. apply fold_rounds_length. discriminate. Qed.

Lemma absorb_length fuel : forall st p, length st = 25%nat -> length (absorb fuel st p) = 25%nat.
Proof.
  induction fuel as [|f IH]; intros st p Hst; [exact Hst|].
  destruct p as [|b p']; [exact Hst|].
  cbn [absorb]. apply IH. apply keccak_f_length.
Qed.

Lemma flat_map_n2le_length k l : length (flat_map (n2le k) l) = (k * length l)%nat.
Proof.
  induction l as [|x t IH]; cbn [flat_map length]; [lia|].
  rewrite app_length, n2le_length, IH. lia.
Qed.

Lemma keccak256_length m : length (keccak256 m) = 32%nat.
Proof.
  unfold keccak256. rewrite flat_map_n2le_length, firstn_length.
  rewrite absorb_length by apply repeat_length. reflexivity.
Qed.

(* ---- byte-level shape of the padding --------------------------------------- *)
Local Open Scope nat_scope.

(* what is appended to a message of n bytes *)
Definition pad_suffix (n : nat) : bytes :=
  let q := 136 - n mod 136 in
  if Nat.eqb q 1 then [x81] else x01 :: repeat x00 (q - 2) ++ [x80].

Lemma pad_is_suffix m : pad m = m ++ pad_suffix (length m).
Proof.
  unfold pad, pad_suffix, rate.
  destruct (Nat.eqb (136 - length m mod 136) 1); reflexivity.
Qed.

Lemma mod136_lt n : n mod 136 < 136.
Proof. apply Nat.mod_upper_bound. discriminate. Qed.

Lemma pad_suffix_length n : length (pad_suffix n) = 136 - n mod 136.
Proof.
  unfold pad_suffix. pose proof (mod136_lt n) as Hlt.
  destruct (Nat.eqb_spec (136 - n mod 136) 1) as [E|E].
  - cbn [length]. lia.
  - cbn [length]. rewrite app_length, repeat_length. cbn [length]. lia.
Qed.

Lemma pad_suffix_shape n :
  pad_suffix n = [x81] \/ exists z, pad_suffix n = x01 :: repeat x00 z ++ [x80].
Proof.
  unfold pad_suffix. destruct (Nat.eqb (136 - n mod 136) 1); [now left|right; eexists; reflexivity].
Qed.

Lemma pad_length m : length (pad m) = 136 * (length m / 136 + 1).
Proof.
  rewrite pad_is_suffix, app_length, pad_suffix_length.
  pose proof (Nat.div_mod_eq (length m) 136) as E. pose proof (mod136_lt (length m)). lia.
Qed.

(* the complete byte-level statement: the message, then between 1 and 136 bytes of the form 81 | 01 00* 80,
   just enough to reach the next multiple of the rate (a whole extra block exactly when |m| is a multiple of 136) *)
Lemma pad_shape m : exists s,
  pad m = m ++ s /\
  (s = [x81] \/ exists z, s = x01 :: repeat x00 z ++ [x80]) /\
  length s = 136 - length m mod 136 /\ 1 <= length s <= 136 /\
  length (pad m) = 136 * (length m / 136 + 1).
Proof.
  exists (pad_suffix (length m)). split; [apply pad_is_suffix|]. split; [apply pad_suffix_shape|].
  rewrite pad_suffix_length. split; [reflexivity|]. split; [pose proof (mod136_lt (length m)); lia|apply pad_length].
Qed.

(* ---- refinement to the bit-level pad10*1 ------------------------------------ *)
Lemma bits_of_bytes_app a b : bits_of_bytes (a ++ b) = bits_of_bytes a ++ bits_of_bytes b.
Proof. unfold bits_of_bytes. apply flat_map_app. Qed.

Lemma bits_of_byte_length b : length (bits_of_byte b) = 8.
Proof. unfold bits_of_byte. rewrite map_length. reflexivity. Qed.

Lemma bits_of_bytes_length bs : length (bits_of_bytes bs) = 8 * length bs.
Proof.
  induction bs as [|b t IH]; [reflexivity|].
  change (bits_of_bytes (b :: t)) with (bits_of_byte b ++ bits_of_bytes t).
  rewrite app_length, bits_of_byte_length, IH. cbn [length]. lia.
Qed.

Lemma bits_zero_bytes k : bits_of_bytes (repeat x00 k) = repeat false (8 * k).
Proof.
  induction k as [|k IH]; [reflexivity|].
  replace (8 * S k) with (8 + 8 * k) by lia. rewrite repeat_app.
  change (repeat x00 (S k)) with (x00 :: repeat x00 k).
  change (bits_of_bytes (x00 :: repeat x00 k)) with (bits_of_byte x00 ++ bits_of_bytes (repeat x00 k)).
  rewrite IH. reflexivity.
Qed.

Lemma pad_zeros_rate n : pad_zeros 1088 (8 * n) = 8 * (136 - n mod 136) - 2.
Proof.
  unfold pad_zeros. pose proof (mod136_lt n) as Hlt. pose proof (Nat.div_mod_eq n 136) as E.
  assert (E1 : (8 * n + 2) mod 1088 = 8 * (n mod 136) + 2).
  { symmetry. apply (Nat.mod_unique _ 1088 (n / 136)); lia. }
  rewrite E1. rewrite Nat.mod_small by lia. lia.
Qed.

Lemma pad_suffix_bits n : bits_of_bytes (pad_suffix n) = pad10star1 1088 (8 * n).
Proof.
  unfold pad10star1. rewrite pad_zeros_rate. unfold pad_suffix. pose proof (mod136_lt n) as Hlt.
  destruct (Nat.eqb_spec (136 - n mod 136) 1) as [E|E].
  - rewrite E. reflexivity.
  - remember (136 - n mod 136) as q eqn:Hq.
    change (x01 :: repeat x00 (q - 2) ++ [x80]) with ([x01] ++ repeat x00 (q - 2) ++ [x80]).
    rewrite !bits_of_bytes_app, bits_zero_bytes.
    change (bits_of_bytes [x01]) with (true :: repeat false 7).
    change (bits_of_bytes [x80]) with (repeat false 7 ++ [true]).
    replace (8 * q - 2) with (7 + (8 * (q - 2) + 7)) by lia.
    rewrite !repeat_app. rewrite <- !app_assoc. reflexivity.
Qed.

(* bits (pad m) = bits m || 1 0^j 1  with j = (-|bits m| - 2) mod 1088: original multi-rate padding, no suffix *)
Lemma pad_is_pad10star1 m : bits_of_bytes (pad m) = padded_bits (bits_of_bytes m).
Proof.
  unfold padded_bits, rate_bits. rewrite pad_is_suffix, bits_of_bytes_app, bits_of_bytes_length.
  now rewrite pad_suffix_bits.
Qed.

Lemma padded_bits_length M : exists k, 1 <= k /\ length (padded_bits M) = 1088 * k.
Proof.
  unfold padded_bits, pad10star1, rate_bits. rewrite app_length. cbn [length]. rewrite app_length, repeat_length.
  cbn [length]. unfold pad_zeros.
  pose proof (Nat.div_mod_eq (length M + 2) 1088) as E.
  assert (Hlt : (length M + 2) mod 1088 < 1088) by (apply Nat.mod_upper_bound; discriminate).
  destruct (Nat.eq_dec ((length M + 2) mod 1088) 0) as [Z|NZ].
  - rewrite Z. replace (1088 - 0) with 1088 by lia. rewrite Nat.mod_same by discriminate.
    exists ((length M + 2) / 1088). lia.
  - rewrite Nat.mod_small by lia. exists ((length M + 2) / 1088 + 1). lia.
Qed.

(* the SHA-3 padding differs on every message (the first appended bit is 0 instead of 1) *)
Lemma sha3_padding_differs M : padded_bits M <> sha3_padded_bits M.
Proof.
  unfold padded_bits, sha3_padded_bits, pad10star1. rewrite <- app_assoc. intros H.
  apply app_inv_head in H. discriminate H.
Qed.

(* ---- the absorb loop never runs out of fuel ----------------------------------- *)
Definition absorb_block (st : list N) (blk : bytes) : list N :=
  keccak_f (xor_lanes st (lanes_of_bytes 17 blk)).

(* the k successive 136-byte blocks of p *)
Fixpoint blocks (k : nat) (p : bytes) : list bytes :=
  match k with O => [] | S k' => firstn 136 p :: blocks k' (skipn 136 p) end.

Lemma blocks_length k p : length (blocks k p) = k.
Proof. revert p. induction k as [|k IH]; intros p; cbn [blocks length]; [reflexivity|now rewrite IH]. Qed.

Lemma blocks_concat k : forall p, length p = 136 * k -> concat (blocks k p) = p /\ Forall (fun b => length b = 136) (blocks k p).
Proof.
  induction k as [|k IH]; intros p Hp.
  - destruct p; [split; [reflexivity|constructor]|cbn [length] in Hp; lia].
  - cbn [blocks concat]. destruct (IH (skipn 136 p)) as [E F].
    { rewrite skipn_length. lia. }
    rewrite E. split; [apply firstn_skipn|]. constructor; [|exact F].
    rewrite firstn_length. lia.
Qed.

Lemma absorb_step f st p : p <> [] ->
  absorb (S f) st p = absorb f (absorb_block st (firstn 136 p)) (skipn 136 p).
Proof. intros Hp. destruct p; [contradiction|reflexivity]. Qed.

Lemma absorb_nil fuel st : absorb fuel st [] = st.
Proof. destruct fuel; reflexivity. Qed.

Lemma absorb_blocks k : forall fuel st p, length p = 136 * k -> k <= fuel ->
  absorb fuel st p = fold_left absorb_block (blocks k p) st.
Proof.
  induction k as [|k IH]; intros fuel st p Hp Hf.
  - destruct p; [|cbn [length] in Hp; lia]. apply absorb_nil.
  - destruct fuel as [|f]; [lia|].
    rewrite absorb_step by (intros ->; cbn [length] in Hp; lia).
    cbn [blocks fold_left]. apply IH; [rewrite skipn_length; lia|lia].
Qed.

(* keccak256 processes exactly length (pad m) / 136 = |m| / 136 + 1 blocks, whose concatenation is pad m *)
Lemma keccak256_blocks m :
  let k := length m / 136 + 1 in
  length (pad m) / 136 = k /\
  concat (blocks k (pad m)) = pad m /\ length (blocks k (pad m)) = k /\
  Forall (fun b => length b = 136) (blocks k (pad m)) /\
  keccak256 m = flat_map (n2le 8) (firstn 4 (fold_left absorb_block (blocks k (pad m)) (repeat 0%N 25))) /\
  forall fuel, k <= fuel -> absorb fuel (repeat 0%N 25) (pad m) = absorb k (repeat 0%N 25) (pad m).
Proof.
  intros k. pose proof (pad_length m) as Hl. fold k in Hl.
  assert (Hd : length (pad m) / 136 = k).
  { rewrite Hl. rewrite Nat.mul_comm. apply Nat.div_mul. discriminate. }
  destruct (blocks_concat k (pad m) Hl) as [E F].
  split; [exact Hd|]. split; [exact E|]. split; [apply blocks_length|]. split; [exact F|]. split.
  - unfold keccak256, rate. rewrite Hd. rewrite (absorb_blocks k) by (try exact Hl; lia). reflexivity.
  - intros fuel Hf. rewrite (absorb_blocks k fuel) by assumption. rewrite (absorb_blocks k k) by (try exact Hl; lia).
    reflexivity.
Qed.

(* the lane loader: 17 iterations are exactly enough for a 136-byte block *)
Lemma lanes_of_bytes_fuel k : forall f blk, length blk = 8 * k -> k <= f ->
  lanes_of_bytes f blk = lanes_of_bytes k blk /\ length (lanes_of_bytes k blk) = k.
Proof.
  induction k as [|k IH]; intros f blk Hb Hf.
  - destruct blk; [|cbn [length] in Hb; lia]. destruct f; split; reflexivity.
  - destruct f as [|f]; [lia|]. destruct blk as [|b t]; [cbn [length] in Hb; lia|].
    cbn [lanes_of_bytes].
    destruct (IH f (skipn 8 (b :: t))) as [E L]; [rewrite skipn_length; lia|lia|].
    rewrite E. split; [reflexivity|]. cbn [length]. now rewrite L.
Qed.

Lemma lanes_of_block blk : length blk = 136 ->
  length (lanes_of_bytes 17 blk) = 17 /\ forall extra, lanes_of_bytes (17 + extra) blk = lanes_of_bytes 17 blk.
Proof.
  intros Hb. split.
  - apply (lanes_of_bytes_fuel 17 17 blk); [exact Hb|lia].
  - intros extra. apply (lanes_of_bytes_fuel 17 (17 + extra) blk); [exact Hb|lia].
Qed.

Lemma pad_is_pad10star1_explicit m :
  bits_of_bytes (pad m) = padded_bits (bits_of_bytes m) /\
  padded_bits (bits_of_bytes m) = bits_of_bytes m ++ pad10star1 1088 (8 * length m).
Proof.
  split; [apply pad_is_pad10star1|]. unfold padded_bits, rate_bits. now rewrite bits_of_bytes_length.
Qed.
