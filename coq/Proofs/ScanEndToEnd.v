(* ScanEndToEnd.v — compositions of the scan-level lemmas of ScanProofs.v with the exactness lemmas of EcdhProofs.v, for every
   instance of EdLaws and every pair of hashes:
     Part 1 (C07): matches -> reported, for ARBITRARY outputs (the converse of scan_sound), and reported <-> matches;
     Part 2 (C08): the scan of a sender-built RingCT output returns the sender's amount, mask and commitment (end to end),
                   and iteration k of the scan loop neither panics nor errors on such an output;
     Part 3 (C09): the recovered scalar of a sender-built owned output is the secret of the sender's one-time key;
     Part 4: a second toy instance of EdLaws (Z/l with a LENIENT decoder, so that H_bytes and non-canonical keys decode), used
             for the non-vacuity Examples of Part 2 and for the witness that Part 1 needs an ACCEPTED spend key. *)
From MRS Require Export Proofs.ScanProofs Proofs.EcdhProofs Proofs.ScanToy.
Open Scope Z_scope.

Section EndToEnd.
Context {E : EdOps} {LW : EdLaws E}.
Variable Hs : hs_fun.
Variable Hb : bytes -> bytes.

(* ================================================================================================================================ *)
(* Part 1: matches -> reported                                                                                                        *)

(* the spend keys in the table are accepted keys when the wallet's spend key is *)
Lemma spend_public_accepted v S idx Sidx : pk_from_slice S = Ok S -> get_spend_public_key Hs v S idx = Ok Sidx ->
  pk_from_slice Sidx = Ok Sidx.
Proof.
  intros HS HSi. destruct (public_keys_accepted Hs v S idx HS) as (vw & sp & _ & Hsp & _ & Hacc).
  rewrite HSi in Hsp. injection Hsp as <-. exact Hacc.
Qed.

(* the algebraic match condition makes check_key succeed, with an in-range index having the same spend key *)
Lemma matches_check_key v S a b c d t i o K idx :
  pk_from_slice S = Ok S -> checker_new Hs v S a b c d = Ok t -> in_ranges a b c d idx ->
  matches Hs Hb v S i o K idx ->
  exists idx', check_key Hs Hb t v S i o K = Ok (Some (idx', K)) /\ in_ranges a b c d idx' /\
               get_spend_public_key Hs v S idx' = get_spend_public_key Hs v S idx.
Proof.
  intros HS Ht Hr (g & P & Sidx & Hg & HP & Htag & HSi & Hot).
  pose proof (spend_public_accepted _ _ _ _ HS HSi) as Hacc.
  apply pk_from_slice_iff in Hacc. destruct Hacc as (Q & HQ & HQc). subst Sidx.
  rewrite one_time_key_spec in Hot by exact HQ. injection Hot as HPeq.
  assert (Hcand : candidate_spend Hs g i P = Ok (compress Q)).
  { unfold candidate_spend, get_rvn_scalar, pk_from_priv. rewrite <- HPeq.
    rewrite pk_sub_compress by auto with ed. now rewrite psub_add_l by auto with ed. }
  destruct (checker_complete Hs _ _ _ _ _ _ _ _ Ht Hr) as (k' & Hk' & Hin).
  rewrite HSi in Hk'. injection Hk' as <-.
  destruct (lookup_complete _ _ _ Hin) as (idx' & Hl & Hin').
  destruct (checker_in Hs _ _ _ _ _ _ _ _ _ Ht Hin') as [Hr' Hsp'].
  exists idx'. split; [|split; [exact Hr'|now rewrite Hsp', HSi]].
  unfold check_key. rewrite HP, Hg. cbn [bindr]. rewrite Htag. cbn [negb].
  unfold check_with_key_generator. rewrite Hcand. cbn [bindr]. now rewrite Hl.
Qed.

(* a key that matches no in-range index is rejected (when its check does not fail) *)
Lemma check_key_no_match v S a b c d t i o K r :
  checker_new Hs v S a b c d = Ok t -> check_key Hs Hb t v S i o K = Ok r ->
  (forall idx, in_ranges a b c d idx -> ~ matches Hs Hb v S i o K idx) -> r = None.
Proof.
  intros Ht Hc Hno. destruct r as [[idx key]|]; [|reflexivity]. exfalso.
  destruct (check_key_sound Hs Hb _ _ _ _ _ _ _ _ _ _ _ _ Ht Hc) as (_ & Hr & g & P & Sidx & H1 & H2 & H3 & H4 & H5).
  apply (Hno idx Hr). exists g, P, Sidx. auto.
Qed.

(* ... and conversely: a key whose check returns None matches no in-range index *)
Lemma check_key_none_no_match v S a b c d t i o K :
  pk_from_slice S = Ok S -> checker_new Hs v S a b c d = Ok t -> check_key Hs Hb t v S i o K = Ok None ->
  forall idx, in_ranges a b c d idx -> ~ matches Hs Hb v S i o K idx.
Proof.
  intros HS Ht Hc idx Hr Hm. destruct (matches_check_key _ _ _ _ _ _ _ _ _ _ _ HS Ht Hr Hm) as (idx' & Hc' & _). congruence.
Qed.

(* the main key's check does not fail in a successful scan *)
Lemma scan_main_checked v S t rct main outs adds ecdhs outpks l k o :
  scan_outputs Hs Hb t v S rct main 0%N outs adds ecdhs outpks = SOk l -> nth_error outs k = Some o ->
  exists r, check_key Hs Hb t v S (N.of_nat k) o main = Ok r.
Proof.
  intros Hscan Ho. destruct (scan_outputs_checked Hs Hb _ _ _ _ _ _ _ _ _ _ _ Hscan k o Ho) as (res & Hres).
  replace (0 + N.of_nat k)%N with (N.of_nat k) in Hres by lia. unfold check_output in Hres.
  destruct (check_key Hs Hb t v S (N.of_nat k) o main) as [r|e|]; cbn [bindr] in Hres; try discriminate. now exists r.
Qed.

(* C07: matches -> reported *)
Lemma matches_reported v S a b c d p rct l fields main k o K idx :
  pk_from_slice S = Ok S ->
  prefix_check_outputs Hs Hb v S a b c d p rct = SOk l ->
  raw_try_parse valid_pk_b (extra p) = Ok fields -> tx_pubkey fields = Some main ->
  nth_error (outputs p) k = Some o ->
  in_ranges a b c d idx -> matches Hs Hb v S (N.of_nat k) o K idx ->
  (K = main \/
   (nth_error (adds_of fields) k = Some K /\
    forall idx2, in_ranges a b c d idx2 -> ~ matches Hs Hb v S (N.of_nat k) o main idx2)) ->
  exists w, In w l /\ ow_pos w = N.of_nat k /\ ow_out w = o /\ ow_key w = K /\ in_ranges a b c d (ow_index w) /\
    get_spend_public_key Hs v S (ow_index w) = get_spend_public_key Hs v S idx /\
    ((forall idx2, in_ranges a b c d idx2 -> get_spend_public_key Hs v S idx2 = get_spend_public_key Hs v S idx -> idx2 = idx) ->
       ow_index w = idx).
Proof.
  intros HS H Hf Hm Ho Hr Hmt HK.
  destruct (prefix_scan_inv Hs Hb _ _ _ _ _ _ _ _ _ H) as (t & f' & m' & Ht & Hf' & Hm' & Hscan).
  rewrite Hf in Hf'. injection Hf' as <-. rewrite Hm in Hm'. injection Hm' as <-.
  destruct (matches_check_key _ _ _ _ _ _ _ _ _ _ _ HS Ht Hr Hmt) as (idx' & Hck & Hr' & Hsp').
  assert (Hco : check_output Hs Hb t v S (N.of_nat k) o main (nth_error (adds_of fields) k) = Ok (Some (idx', K))).
  { unfold check_output. destruct HK as [<-|[HKa Hno]].
    - now rewrite Hck.
    - destruct (scan_main_checked _ _ _ _ _ _ _ _ _ _ _ _ Hscan Ho) as (r & Hmain).
      pose proof (check_key_no_match _ _ _ _ _ _ _ _ _ _ _ Ht Hmain Hno) as ->.
      rewrite Hmain. cbn [bindr]. rewrite HKa. exact Hck. }
  destruct (scan_outputs_complete Hs Hb _ _ _ _ _ _ _ _ _ _ _ Hscan k o idx' K Ho) as (op & Hin).
  { replace (0 + N.of_nat k)%N with (N.of_nat k) by lia. exact Hco. }
  replace (0 + N.of_nat k)%N with (N.of_nat k) in Hin by lia.
  exists (mk_owned (N.of_nat k) o idx' K op). cbn [ow_pos ow_out ow_key ow_index].
  split; [exact Hin|]. do 3 (split; [reflexivity|]). split; [exact Hr'|]. split; [exact Hsp'|].
  intros Huniq. now apply Huniq.
Qed.

(* C07: reported <-> matches, for every transaction and every position *)
Lemma reported_iff_matches v S a b c d p rct l fields main k o :
  pk_from_slice S = Ok S ->
  prefix_check_outputs Hs Hb v S a b c d p rct = SOk l ->
  raw_try_parse valid_pk_b (extra p) = Ok fields -> tx_pubkey fields = Some main ->
  nth_error (outputs p) k = Some o ->
  ((exists w, In w l /\ ow_pos w = N.of_nat k) <->
   ((exists idx, in_ranges a b c d idx /\ matches Hs Hb v S (N.of_nat k) o main idx) \/
    (exists K idx, nth_error (adds_of fields) k = Some K /\ in_ranges a b c d idx /\ matches Hs Hb v S (N.of_nat k) o K idx))).
Proof.
  intros HS H Hf Hm Ho. split.
  - intros (w & Hw & Hpos).
    destruct (scan_sound Hs Hb _ _ _ _ _ _ _ _ _ _ H Hw)
      as (t & f' & m' & o' & Ht & Hf' & Hm' & Ho' & _ & Hr & Hk & g & P & Sidx & H1 & H2 & H3 & H4 & H5).
    rewrite Hf in Hf'. injection Hf' as <-. rewrite Hm in Hm'. injection Hm' as <-.
    rewrite Hpos, Nat2N.id, Ho in Ho'. injection Ho' as <-. rewrite Hpos in *.
    assert (Hmt : matches Hs Hb v S (N.of_nat k) o (ow_key w) (ow_index w)) by (exists g, P, Sidx; auto).
    destruct Hk as [Hk|(_ & adds & Ha & Hn)].
    + left. exists (ow_index w). rewrite Hk in Hmt. now split.
    + right. exists (ow_key w), (ow_index w). rewrite Nat2N.id in Hn. unfold adds_of. rewrite Ha. auto.
  - intros Hcase.
    destruct (prefix_scan_inv Hs Hb _ _ _ _ _ _ _ _ _ H) as (t & f' & m' & Ht & Hf' & Hm' & Hscan).
    rewrite Hf in Hf'. injection Hf' as <-. rewrite Hm in Hm'. injection Hm' as <-.
    assert (Hmainrep : forall idx, in_ranges a b c d idx -> matches Hs Hb v S (N.of_nat k) o main idx ->
                       exists w, In w l /\ ow_pos w = N.of_nat k).
    { intros idx Hr Hmt.
      destruct (matches_reported _ _ _ _ _ _ _ _ _ _ _ _ _ main idx HS H Hf Hm Ho Hr Hmt) as (w & Hw & Hp & _); [now left|].
      now exists w. }
    destruct Hcase as [(idx & Hr & Hmt)|(K & idx & HKa & Hr & Hmt)]; [now apply (Hmainrep idx)|].
    destruct (scan_main_checked _ _ _ _ _ _ _ _ _ _ _ _ Hscan Ho) as ([[idx1 key1]|] & Hmain).
    + destruct (check_key_sound Hs Hb _ _ _ _ _ _ _ _ _ _ _ _ Ht Hmain) as (-> & Hr1 & g & P & Sidx & H1 & H2 & H3 & H4 & H5).
      apply (Hmainrep idx1 Hr1). exists g, P, Sidx. auto.
    + destruct (matches_reported _ _ _ _ _ _ _ _ _ _ _ _ _ K idx HS H Hf Hm Ho Hr Hmt) as (w & Hw & Hp & _).
      { right. split; [exact HKa|]. now apply (check_key_none_no_match _ _ _ _ _ _ _ _ _ _ HS Ht Hmain). }
      now exists w.
Qed.

(* ================================================================================================================================ *)
(* Part 2: the sender's amount is recovered                                                                                           *)

(* the scalar the scanner derives for the published key and the position is the sender's Hs(D || i) *)
Lemma sender_shared v Sp maj min r i : valid Sp -> (i < 2 ^ 64)%N ->
  let dst := wallet_address Hs v Sp maj min in
  let snt := send Hs Hb r dst i in
  shared_scalar Hs v (compress Sp) (compress (sn_key snt)) i = Ok (sn_shared snt).
Proof.
  intros HS Hi dst snt. destruct (sender_derivation Hs v Sp maj min r HS) as [_ Hder]. fold dst in Hder.
  unfold shared_scalar, from_key, snt, send. cbn [sn_key sn_shared]. rewrite Hder. cbn [bindr].
  unfold get_rvn_scalar, rvn_preimage, enc_pk, derivation_to_scalar. cbn [snd]. now rewrite leb_pos.
Qed.

(* what the sender puts into ecdh_info for amount a and mask y under the shared scalar sh: the compact form (then y is the derived
   mask) or the legacy form (then y is any scalar in [0,l) and the hash-to-scalar has values in [0,l)) *)
Definition sender_ecdh (sh : Z) (a : N) (y : Z) (e : ecdh) : Prop :=
  (e = EBulletproof (sender_compact Hb a sh) /\ y = gen_commitment_mask Hs sh) \/
  (e = EStandard (fst (sender_legacy Hs a y sh)) (snd (sender_legacy Hs a y sh)) /\ 0 <= y < ell /\ (forall m, 0 <= Hs m < ell)).

Lemma sender_open_with sh a y e Hp : (a < 2 ^ 64)%N -> decompress Ed25519.H_bytes = Some Hp -> sender_ecdh sh a y e ->
  open_with Hs Hb e sh (pedersen Hp y a) = Ok (Some (a, y, pedersen Hp y a)).
Proof.
  intros Ha HH [[-> ->]|(-> & Hy & Hr)].
  - now apply compact_exact.
  - now apply legacy_exact.
Qed.

Lemma sender_open_commitment v Sp maj min r i a y e Hp : valid Sp -> (i < 2 ^ 64)%N ->
  let dst := wallet_address Hs v Sp maj min in
  let snt := send Hs Hb r dst i in
  (a < 2 ^ 64)%N -> decompress Ed25519.H_bytes = Some Hp -> sender_ecdh (sn_shared snt) a y e ->
  open_commitment Hs Hb e v (compress Sp) (compress (sn_key snt)) i (pedersen Hp y a) = Ok (Some (a, y, pedersen Hp y a)).
Proof.
  intros HS Hi dst snt Ha HH He. unfold open_commitment.
  pose proof (sender_shared v Sp maj min r i HS Hi) as Hsh. cbv zeta in Hsh. fold dst in Hsh. fold snt in Hsh.
  rewrite Hsh. cbn [bindr]. now apply sender_open_with.
Qed.

(* the opening step of a sender-built output succeeds with the sender's values: it is never the cause of an error or a panic *)
Lemma sender_opening_step v Sp maj min r i a y bs e c0 Hp : valid Sp -> (i < 2 ^ 64)%N ->
  let dst := wallet_address Hs v Sp maj min in
  let snt := send Hs Hb r dst i in
  rb_type bs <> RNull ->
  (a < 2 ^ 64)%N -> decompress Ed25519.H_bytes = Some Hp -> sender_ecdh (sn_shared snt) a y e ->
  decompress c0 = Some (pedersen Hp y a) ->
  opening_step Hs Hb (Some bs) (Some e) (Some c0) v (compress Sp) i (compress (sn_key snt))
    = SOk (Some (a, y, pedersen Hp y a)).
Proof.
  intros HS Hi dst snt Hty Ha HH He Hc.
  pose proof (sender_open_commitment v Sp maj min r i a y e Hp HS Hi Ha HH He) as Hopen. cbv zeta in Hopen.
  fold dst in Hopen. fold snt in Hopen.
  unfold opening_step. destruct (rb_type bs); [congruence|..]; now rewrite Hc, Hopen.
Qed.

(* iteration k of the scan loop on a sender-built RingCT output: the key check reports the published key and the opening step
   returns the sender's values *)
Lemma sender_step_ok v Sp a b c d t maj min r i o main add am y bs e c0 Hp :
  valid Sp -> checker_new Hs v (compress Sp) a b c d = Ok t -> in_ranges a b c d (maj, min) -> (i < 2 ^ 64)%N ->
  let dst := wallet_address Hs v Sp maj min in
  let snt := send Hs Hb r dst i in
  let K := compress (sn_key snt) in
  (o_target o = TKey (compress (sn_onetime snt)) \/ o_target o = TTagged (compress (sn_onetime snt)) (b2n (sn_tag snt))) ->
  (K = main \/ (add = Some K /\ check_key Hs Hb t v (compress Sp) i o main = Ok None)) ->
  rb_type bs <> RNull ->
  (am < 2 ^ 64)%N -> decompress Ed25519.H_bytes = Some Hp -> sender_ecdh (sn_shared snt) am y e ->
  decompress c0 = Some (pedersen Hp y am) ->
  exists idx',
    check_output Hs Hb t v (compress Sp) i o main add = Ok (Some (idx', K)) /\
    get_spend_public_key Hs v (compress Sp) idx' = Ok (compress (a_spend dst)) /\
    opening_step Hs Hb (Some bs) (Some e) (Some c0) v (compress Sp) i K = SOk (Some (am, y, pedersen Hp y am)).
Proof.
  intros HS Ht Hr Hi dst snt K Htg HK Hty Ha HH He Hc.
  destruct (sender_check_key Hs Hb v Sp a b c d t maj min r i o HS Ht Hr Hi Htg) as (idx' & Hck & Hin').
  fold dst snt K in Hck, Hin'.
  destruct (checker_in Hs _ _ _ _ _ _ _ _ _ Ht Hin') as [_ Hsp'].
  exists idx'. split; [|split; [exact Hsp'|]].
  - unfold check_output. destruct HK as [<-|[-> Hnone]].
    + now rewrite Hck.
    + rewrite Hnone. cbn [bindr]. exact Hck.
  - exact (sender_opening_step v Sp maj min r i am y bs e c0 Hp HS Hi Hty Ha HH He Hc).
Qed.

(* C08 end to end *)
Lemma sender_amount_recovered v Sp a b c d p l fields main k o maj min r bs e c0 Hp am y :
  valid Sp ->
  prefix_check_outputs Hs Hb v (compress Sp) a b c d p (Some bs) = SOk l ->
  raw_try_parse valid_pk_b (extra p) = Ok fields -> tx_pubkey fields = Some main ->
  nth_error (outputs p) k = Some o -> (N.of_nat k < 2 ^ 64)%N ->
  in_ranges a b c d (maj, min) ->
  let dst := wallet_address Hs v Sp maj min in
  let snt := send Hs Hb r dst (N.of_nat k) in
  let K := compress (sn_key snt) in
  (o_target o = TKey (compress (sn_onetime snt)) \/ o_target o = TTagged (compress (sn_onetime snt)) (b2n (sn_tag snt))) ->
  (K = main \/
   (nth_error (adds_of fields) k = Some K /\
    forall idx2, in_ranges a b c d idx2 -> ~ matches Hs Hb v (compress Sp) (N.of_nat k) o main idx2)) ->
  rb_type bs <> RNull ->
  nth_error (rb_ecdh bs) k = Some e -> nth_error (rb_out_pk bs) k = Some c0 ->
  (am < 2 ^ 64)%N -> decompress Ed25519.H_bytes = Some Hp -> sender_ecdh (sn_shared snt) am y e ->
  decompress c0 = Some (pedersen Hp y am) ->
  exists w, In w l /\ ow_pos w = N.of_nat k /\ ow_out w = o /\ ow_key w = K /\
    ow_opening w = Some (am, y, pedersen Hp y am) /\
    owned_amount w = Some am /\ owned_blinding_factor w = Some y /\ owned_commitment w = Some (pedersen Hp y am) /\
    get_spend_public_key Hs v (compress Sp) (ow_index w) = Ok (compress (a_spend dst)) /\
    ((forall idx2, in_ranges a b c d idx2 -> get_spend_public_key Hs v (compress Sp) idx2 = Ok (compress (a_spend dst)) ->
        idx2 = (maj, min)) -> ow_index w = (maj, min)).
Proof.
  intros HS H Hf Hm Ho Hk64 Hr dst snt K Htg HK Hty He Hc Ha HH Hse HC.
  destruct (prefix_scan_inv Hs Hb _ _ _ _ _ _ _ _ _ H) as (t & f' & m' & Ht & Hf' & Hm' & Hscan).
  rewrite Hf in Hf'. injection Hf' as <-. rewrite Hm in Hm'. injection Hm' as <-.
  assert (HK1 : K = main \/ nth_error (adds_of fields) k = Some K) by (destruct HK as [HK|[HK _]]; auto).
  destruct (scan_complete Hs Hb v Sp a b c d p (Some bs) l fields main k o maj min r HS H Hf Hm Ho Hk64 Hr Htg HK1)
    as (w & t' & Hw & Hpos & Hout & Ht' & Himp).
  rewrite Ht in Ht'. injection Ht' as <-. fold dst snt K in Himp.
  assert (HK2 : K = main \/ check_key Hs Hb t v (compress Sp) (N.of_nat k) o main = Ok None).
  { destruct HK as [HK|[_ Hno]]; [now left|right].
    destruct (scan_main_checked _ _ _ _ _ _ _ _ _ _ _ _ Hscan Ho) as (r0 & Hmain).
    now rewrite (check_key_no_match _ _ _ _ _ _ _ _ _ _ _ Ht Hmain Hno) in Hmain. }
  destruct (Himp HK2) as (Hkey & Hsp & Huniq).
  destruct (scan_outputs_inv Hs Hb _ _ _ _ _ _ _ _ _ _ _ Hscan w Hw) as (k' & o' & Hk' & Hpos' & _ & _ & Hop).
  assert (k' = k) by lia. subst k'. rewrite Hpos, Hkey in Hop. cbn [ecdhs_of outpks_of] in Hop. rewrite He, Hc in Hop.
  pose proof (sender_opening_step v Sp maj min r (N.of_nat k) am y bs e c0 Hp HS Hk64 Hty Ha HH Hse HC) as Hstep.
  cbv zeta in Hstep. fold dst in Hstep. fold snt in Hstep. fold K in Hstep.
  rewrite Hstep in Hop. injection Hop as Hop. symmetry in Hop.
  exists w. unfold owned_amount, owned_blinding_factor, owned_commitment. rewrite Hop. repeat split; auto.
Qed.

(* ================================================================================================================================ *)
(* Part 3: the recovered key of a sender-built output                                                                                 *)
Lemma sender_recover v s a b c d p rct l fields main k o maj min r :
  prefix_check_outputs Hs Hb v (pk_from_priv s) a b c d p rct = SOk l ->
  raw_try_parse valid_pk_b (extra p) = Ok fields -> tx_pubkey fields = Some main ->
  nth_error (outputs p) k = Some o -> (N.of_nat k < 2 ^ 64)%N ->
  in_ranges a b c d (maj, min) ->
  let dst := wallet_address Hs v (smul s G) maj min in
  let snt := send Hs Hb r dst (N.of_nat k) in
  let K := compress (sn_key snt) in
  (o_target o = TKey (compress (sn_onetime snt)) \/ o_target o = TTagged (compress (sn_onetime snt)) (b2n (sn_tag snt))) ->
  (K = main \/ nth_error (adds_of fields) k = Some K) ->
  exists w x, In w l /\ ow_pos w = N.of_nat k /\ ow_out w = o /\
    owned_recover_key Hs v s w = Ok x /\ smul x G = sn_onetime snt /\ pk_from_priv x = compress (sn_onetime snt).
Proof.
  intros H Hf Hm Ho Hk64 Hr dst snt K Htg HK.
  assert (HS : valid (smul s G)) by auto with ed.
  destruct (scan_complete Hs Hb v (smul s G) a b c d p rct l fields main k o maj min r HS H Hf Hm Ho Hk64 Hr Htg HK)
    as (w & t & Hw & Hpos & Hout & _ & _).
  destruct (owned_recover Hs Hb v s a b c d p rct l w H Hw) as (g & x & _ & Hx & _ & Hot).
  destruct (wallet_address_valid Hs v (smul s G) maj min HS) as [HvS HvV]. fold dst in HvS, HvV.
  assert (HvP : valid (sn_onetime snt)).
  { unfold snt, send. cbn [sn_onetime]. unfold one_time_public_key. auto with ed. }
  assert (Hkey : target_key (o_target o) = compress (sn_onetime snt)) by (destruct Htg as [-> | ->]; reflexivity).
  rewrite Hout in Hot. unfold as_one_time_key in Hot. rewrite Hkey, pk_from_slice_compress in Hot by exact HvP.
  injection Hot as Hot. exists w, x. repeat split; auto.
  unfold pk_from_priv in Hot. symmetry in Hot. apply compress_inj in Hot; auto with ed.
Qed.

End EndToEnd.

(* ================================================================================================================================ *)
(* Part 4: a toy instance of EdLaws with a LENIENT decoder: Z/l, generator 1, compress = 32-byte little-endian, decompress = the
   little-endian integer of ANY 32 bytes reduced mod l (so H_bytes decodes, and 5 + l is a non-canonical encoding of the point 5).
   Consistency of the hypotheses only; says nothing about Ed25519.                                                                    *)
Definition toy2_decompress (b : bytes) : option Z :=
  if Nat.eqb (List.length b) 32 then Some (le2z b mod ell) else None.

Definition toy2_ops : EdOps := {|
  point := Z;
  pzero := 0;
  padd := fun a b => (a + b) mod ell;
  pneg := fun a => (- a) mod ell;
  smul := fun k a => (k * a) mod ell;
  G := 1;
  compress := fun a => z2le 32 a;
  decompress := toy2_decompress;
  peqb := Z.eqb;
  valid := fun a => 0 <= a < ell;
  tors := fun _ => 0
|}.

Lemma toy2_laws : EdLaws toy2_ops.
Proof.
  pose proof ell_lt as Hl. pose proof ell_nz as Hnz. pose proof ell_big as Hbig.
  constructor; cbn [point pzero padd pneg smul G compress decompress peqb valid tors toy2_ops].
  - lia.
  - lia.
  - intros P Q _ _. now apply Z.mod_pos_bound.
  - intros P _. now apply Z.mod_pos_bound.
  - intros k P _. now apply Z.mod_pos_bound.
  - intros P Q R _ _ _. rewrite Z.add_mod_idemp_r, Z.add_mod_idemp_l by exact Hnz. f_equal. lia.
  - intros P Q _ _. f_equal. lia.
  - intros P HP. rewrite Z.add_0_r. now apply Z.mod_small.
  - intros P HP. rewrite Z.add_mod_idemp_r by exact Hnz. rewrite Z.add_opp_diag_r. now apply Z.mod_0_l.
  - intros P _. now apply Z.mod_0_l.
  - intros P HP. rewrite Z.mul_1_l. now apply Z.mod_small.
  - intros a b P _. rewrite <- Z.add_mod by exact Hnz. f_equal. lia.
  - intros a b P _. rewrite Z.mul_mod_idemp_r by exact Hnz. f_equal. lia.
  - intros a P _. rewrite <- (Z.sub_0_l (a * P mod ell)), Zminus_mod_idemp_r. f_equal. lia.
  - rewrite Z.mul_1_r. now apply Z.mod_same.
  - intros a b. now rewrite !Z.mul_1_r.
  - intros P _. apply z2le_length.
  - intros P HP. unfold toy2_decompress. rewrite z2le_length, le2z_z2le32 by lia. cbn [Nat.eqb].
    f_equal. now apply Z.mod_small.
  - intros b P. unfold toy2_decompress. destruct (Nat.eqb _ _); [|discriminate]. intros H. injection H as <-.
    apply Z.mod_pos_bound. lia.
  - intros P Q _ _. apply Z.eqb_eq.
  - intros _. lia.
  - intros _. now apply Z.mod_0_l.
Qed.

(* the toy hash-to-scalar has values in [0, l) *)
Lemma toyHs_range m : 0 <= toyHs m < ell.
Proof.
  pose proof ell_lt as Hl. pose proof ell_big as Hbig. unfold toyHs. assert (H1 : 0 <= 1 < ell) by lia. revert H1. generalize 1.
  induction m as [|x r IH]; intros acc Hacc; cbn [fold_left]; [exact Hacc|].
  apply IH. apply Z.mod_pos_bound. lia.
Qed.

(* ---- a RingCT transaction built with Spec/Sender.v: position 0 to subaddress (0,1) under an additional key, untagged, compact
   ecdh entry, amount 2^64-1; position 1 to the primary address under the main key, tagged, legacy ecdh entry, amount 12345, mask l-1 *)
Definition t2_v : Z := 3.
Definition t2_s : Z := 5.
Definition t2_Sp : @point toy2_ops := @smul toy2_ops t2_s (@G toy2_ops).
Definition t2_Sb : bytes := @compress toy2_ops t2_Sp.
Definition t2_Hp : @point toy2_ops := le2z Ed25519.H_bytes mod ell.
Definition t2_d0 := @wallet_address toy2_ops toyHs t2_v t2_Sp 0 1.
Definition t2_d1 := @wallet_address toy2_ops toyHs t2_v t2_Sp 0 0.
Definition t2_s0 := @send toy2_ops toyHs toyHb 13 t2_d0 0.
Definition t2_s1 := @send toy2_ops toyHs toyHb 11 t2_d1 1.
Definition t2_main : bytes := @compress toy2_ops (sn_key t2_s1).
Definition t2_add0 : bytes := @compress toy2_ops (sn_key t2_s0).
Definition t2_P0 : bytes := @compress toy2_ops (sn_onetime t2_s0).
Definition t2_P1 : bytes := @compress toy2_ops (sn_onetime t2_s1).
Definition t2_a0 : N := (2 ^ 64 - 1)%N.
Definition t2_y0 : Z := gen_commitment_mask toyHs (sn_shared t2_s0).
Definition t2_e0 : ecdh := EBulletproof (sender_compact toyHb t2_a0 (sn_shared t2_s0)).
Definition t2_C0 : @point toy2_ops := @pedersen toy2_ops t2_Hp t2_y0 t2_a0.
Definition t2_a1 : N := 12345%N.
Definition t2_y1 : Z := ell - 1.
Definition t2_e1 : ecdh :=
  EStandard (fst (sender_legacy toyHs t2_a1 t2_y1 (sn_shared t2_s1))) (snd (sender_legacy toyHs t2_a1 t2_y1 (sn_shared t2_s1))).
Definition t2_C1 : @point toy2_ops := @pedersen toy2_ops t2_Hp t2_y1 t2_a1.
Definition t2_o0 : txout := mk_txout 0 (TKey t2_P0).
Definition t2_o1 : txout := mk_txout 0 (TTagged t2_P1 (b2n (sn_tag t2_s1))).
Definition t2_fields : list subfield := [TxPublicKey t2_main; AdditionalPublicKey [t2_add0]].
Definition t2_prefix : txprefix := mk_prefix 2 0 [] [t2_o0; t2_o1] (enc_fields t2_fields).
Definition t2_base : rct_base :=
  mk_base RClsag 0 [] [t2_e0; t2_e1] [@compress toy2_ops t2_C0; @compress toy2_ops t2_C1].
Definition t2_scan := @prefix_check_outputs toy2_ops toyHs toyHb t2_v t2_Sb 0 1 0 2 t2_prefix (Some t2_base).

(* boolean views of a scan result: vm_compute is only run on goals whose types do not mention the instance (the normal form of
   the record of operations is huge), so "r = SOk .." is obtained from a computed boolean *)
Definition sres_ok {A} (r : sres A) : bool := match r with SOk _ => true | _ => false end.
Definition sres_nil {A} (r : sres (list A)) : bool := match r with SOk [] => true | _ => false end.
Lemma sres_ok_spec {A} (r : sres A) : sres_ok r = true -> exists l, r = SOk l.
Proof. destruct r as [l|e|]; try discriminate. intros _. now exists l. Qed.
Lemma sres_nil_spec {A} (r : sres (list A)) : sres_nil r = true -> r = SOk [].
Proof. destruct r as [[|x l]|e|]; try discriminate. reflexivity. Qed.
Definition res_list {A} (r : res (list A)) : list A := match r with Ok l => l | _ => [] end.
Definition t2_table : table := res_list (@checker_new toy2_ops toyHs t2_v t2_Sb 0 1 0 2).

(* observable part: position, index, matched key, amount(), blinding_factor(), commitment() *)
Definition t2_view (r : sres (list (@owned toy2_ops))) : option (list (N * index * bytes * option N * option Z * option Z)) :=
  match r with
  | SOk l => Some (map (fun w => (ow_pos w, ow_index w, ow_key w, @owned_amount toy2_ops w, @owned_blinding_factor toy2_ops w,
                                  @owned_commitment toy2_ops w)) l)
  | _ => None
  end.

(* the scan returns the sender's amounts, masks and commitments *)
Lemma t2_scan_result :
  t2_view t2_scan = Some [(0%N, (0%N, 1%N), t2_add0, Some t2_a0, Some t2_y0, Some t2_C0);
                          (1%N, (0%N, 0%N), t2_main, Some t2_a1, Some t2_y1, Some t2_C1)].
Proof. vm_compute. reflexivity. Qed.

(* every hypothesis of sender_amount_recovered holds for both outputs of this transaction (the no-other-match hypothesis of
   position 0, which uses the additional key, is discharged through check_key_none_no_match) *)
Lemma t2_hypotheses :
  @valid toy2_ops t2_Sp /\ (exists l, t2_scan = SOk l) /\
  @raw_try_parse (@valid_pk_b toy2_ops) (extra t2_prefix) = Ok t2_fields /\ tx_pubkey t2_fields = Some t2_main /\
  @decompress toy2_ops Ed25519.H_bytes = Some t2_Hp /\ rb_type t2_base <> RNull /\
  (nth_error (outputs t2_prefix) 0 = Some t2_o0 /\ nth_error (adds_of t2_fields) 0 = Some t2_add0 /\
   (forall idx2, in_ranges 0 1 0 2 idx2 -> ~ @matches toy2_ops toyHs toyHb t2_v t2_Sb 0%N t2_o0 t2_main idx2) /\
   nth_error (rb_ecdh t2_base) 0 = Some t2_e0 /\ sender_ecdh toyHs toyHb (sn_shared t2_s0) t2_a0 t2_y0 t2_e0 /\
   (t2_a0 < 2 ^ 64)%N /\
   exists c0, nth_error (rb_out_pk t2_base) 0 = Some c0 /\ @decompress toy2_ops c0 = Some t2_C0) /\
  (nth_error (outputs t2_prefix) 1 = Some t2_o1 /\
   nth_error (rb_ecdh t2_base) 1 = Some t2_e1 /\ sender_ecdh toyHs toyHb (sn_shared t2_s1) t2_a1 t2_y1 t2_e1 /\
   (t2_a1 < 2 ^ 64)%N /\
   exists c1, nth_error (rb_out_pk t2_base) 1 = Some c1 /\ @decompress toy2_ops c1 = Some t2_C1).
Proof.
  split; [vm_compute; split; [discriminate|reflexivity]|].
  split. { apply sres_ok_spec. vm_compute. reflexivity. }
  split; [vm_compute; reflexivity|]. split; [reflexivity|]. split; [vm_compute; reflexivity|]. split; [discriminate|]. split.
  - split; [reflexivity|]. split; [reflexivity|]. split.
    { assert (Ht : @checker_new toy2_ops toyHs t2_v t2_Sb 0 1 0 2 = Ok t2_table) by (vm_compute; reflexivity).
      apply (@check_key_none_no_match toy2_ops toy2_laws toyHs toyHb t2_v t2_Sb 0 1 0 2 t2_table 0%N t2_o0 t2_main).
      - vm_compute. reflexivity.
      - exact Ht.
      - vm_compute. reflexivity. }
    split; [reflexivity|]. split; [left; split; reflexivity|]. split; [reflexivity|].
    eexists. split; [reflexivity|]. vm_compute. reflexivity.
  - split; [reflexivity|]. split; [reflexivity|]. split.
    { right. split; [reflexivity|]. split; [vm_compute; split; [discriminate|reflexivity]|]. apply toyHs_range. }
    split; [reflexivity|]. eexists. split; [reflexivity|]. vm_compute. reflexivity.
Qed.

(* ---- matches_reported needs an ACCEPTED spend key: with the wallet spend key stored as the non-canonical encoding 5 + l of the
   point 5 (PublicKey has a public field; PublicKey::from_slice rejects such bytes), an output that satisfies the algebraic match
   condition for the primary address is NOT reported: the table is keyed by the stored bytes, the looked-up candidate
   P - Hs(rv||0)G is the canonical encoding *)
Definition t3_S : bytes := z2le 32 (5 + ell).
Definition t3_main : bytes := @compress toy2_ops (@smul toy2_ops 11 (@G toy2_ops)).
Definition t3_g : bytes * bytes := match @from_key toy2_ops 3 t3_S t3_main with Ok g => g | _ => ([], []) end.
Definition t3_P : bytes := match @one_time_key toy2_ops toyHs t3_g 0 with Ok P => P | _ => [] end.
Definition t3_o : txout := mk_txout 7 (TKey t3_P).
Definition t3_prefix : txprefix := mk_prefix 1 0 [] [t3_o] (enc_fields [TxPublicKey t3_main]).

Lemma matches_reported_unaccepted_spend_key_refuted :
  exists (E : EdOps) (LW : EdLaws E) (Hs : hs_fun) (Hb : bytes -> bytes) v S a b c d p rct fields main o idx,
    pk_from_slice S <> Ok S /\
    prefix_check_outputs Hs Hb v S a b c d p rct = SOk [] /\
    raw_try_parse valid_pk_b (extra p) = Ok fields /\ tx_pubkey fields = Some main /\
    nth_error (outputs p) 0 = Some o /\ in_ranges a b c d idx /\ matches Hs Hb v S 0%N o main idx.
Proof.
  exists toy2_ops, toy2_laws, toyHs, toyHb, 3, t3_S, 0%N, 1%N, 0%N, 1%N, t3_prefix, None, [TxPublicKey t3_main], t3_main, t3_o, (0%N, 0%N).
  split; [vm_compute; discriminate|]. split; [apply sres_nil_spec; vm_compute; reflexivity|]. split; [vm_compute; reflexivity|].
  split; [reflexivity|]. split; [reflexivity|]. split; [unfold in_ranges; cbn [fst snd]; lia|].
  exists t3_g, t3_P, t3_S. repeat split; vm_compute; reflexivity.
Qed.

(* the hypotheses of matches_reported are satisfiable with an ACCEPTED spend key: both outputs of the transaction above match *)
Definition res_get {A} (dflt : A) (r : res A) : A := match r with Ok x => x | _ => dflt end.
Definition t2_g0 : bytes * bytes := res_get ([], []) (@from_key toy2_ops t2_v t2_Sb t2_add0).
Definition t2_g1 : bytes * bytes := res_get ([], []) (@from_key toy2_ops t2_v t2_Sb t2_main).
Definition t2_S01 : bytes := res_get [] (@get_spend_public_key toy2_ops toyHs t2_v t2_Sb (0%N, 1%N)).

Lemma t2_matches :
  @pk_from_slice toy2_ops t2_Sb = Ok t2_Sb /\
  @matches toy2_ops toyHs toyHb t2_v t2_Sb 0%N t2_o0 t2_add0 (0%N, 1%N) /\
  @matches toy2_ops toyHs toyHb t2_v t2_Sb 1%N t2_o1 t2_main (0%N, 0%N).
Proof.
  split; [vm_compute; reflexivity|]. split.
  - exists t2_g0, t2_P0, t2_S01. repeat split; vm_compute; reflexivity.
  - exists t2_g1, t2_P1, t2_Sb. repeat split; vm_compute; reflexivity.
Qed.
