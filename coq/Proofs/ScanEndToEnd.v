(* ScanEndToEnd.v — compositions of the scan-level lemmas of ScanProofs.v with the exactness lemmas of EcdhProofs.v, for every
   instance of EdLaws and every pair of hashes:
     Part 1 (C07): matches -> reported, for ARBITRARY outputs (the converse of scan_sound), and reported <-> matches;
     Part 2 (C08): the scan of a sender-built RingCT output returns the sender's amount, mask and commitment (end to end),
                   and iteration k of the scan loop neither panics nor errors on such an output;
     Part 3 (C09): the recovered scalar of a sender-built owned output is the secret of the sender's one-time key;
     Part 4: a second toy instance of EdLaws (Z/l with a LENIENT decoder, so that H_bytes and non-canonical keys decode), used
             for the non-vacuity Examples of Part 2 and for the witness that Part 1 needs an ACCEPTED spend key. *)
From MRS Require Export Proofs.ScanProofs Proofs.EcdhProofs Proofs.EdToy.
Open Scope Z_scope.

Section EndToEnd.
Context {E : EdOps} {LW : EdLaws E}.
Variable Hs : hs_fun.
Variable Hb : bytes -> bytes.

(* ================================================================================================================================ *)
(* Part 1: matches -> reported                                                                                                        *)

(* the spend keys in the table are accepted keys when the wallet's spend key is *)
Lemma spend_public_accepted v S idx Sidx : pk_from_slice S = Ok S -> get_spend_public_key Hs v S idx = Ok Sidx ->
  pk_from_slice Sidx = Ok Sidx.
Proof.
  intros HS HSi. destruct (public_keys_accepted Hs v S idx HS) as (vw & sp & _ & Hsp & _ & Hacc).
  rewrite HSi in Hsp. injection Hsp as <-. exact Hacc.
Qed.

(* the algebraic match condition makes check_key succeed, with an in-range index having the same spend key *)
Lemma matches_check_key v S a b c d t i o K idx :
  pk_from_slice S = Ok S -> checker_new Hs v S a b c d = Ok t -> in_ranges a b c d idx ->
  matches Hs Hb v S i o K idx ->
  exists idx', check_key Hs Hb t v S i o K = Ok (Some (idx', K)) /\ in_ranges a b c d idx' /\
               get_spend_public_key Hs v S idx' = get_spend_public_key Hs v S idx.
Proof.
  intros HS Ht Hr (g & P & Sidx & Hg & HP & Htag & HSi & Hot).
  pose proof (spend_public_accepted _ _ _ _ HS HSi) as Hacc.
  apply pk_from_slice_iff in Hacc. destruct Hacc as (Q & HQ & HQc). subst Sidx.
  rewrite one_time_key_spec in Hot by exact HQ. injection Hot as HPeq.
  assert (Hcand : candidate_spend Hs g i P = Ok (compress Q)).
  { unfold candidate_spend, get_rvn_scalar, pk_from_priv. rewrite <- HPeq.
    rewrite pk_sub_compress by auto with ed. now rewrite psub_add_l by auto with ed. }
  destruct (checker_complete Hs _ _ _ _ _ _ _ _ Ht Hr) as (k' & Hk' & Hin).
  rewrite HSi in Hk'. injection Hk' as <-.
  destruct (lookup_complete _ _ _ Hin) as (idx' & Hl & Hin').
  destruct (checker_in Hs _ _ _ _ _ _ _ _ _ Ht Hin') as [Hr' Hsp'].
  exists idx'. split; [|split; [exact Hr'|now rewrite Hsp', HSi]].
  unfold check_key. rewrite HP, Hg. cbn [bindr]. rewrite Htag. cbn [negb].
  unfold check_with_key_generator. rewrite Hcand. cbn [bindr]. now rewrite Hl.
Qed.

(* a key that matches no in-range index is rejected (when its check does not fail) *)
Lemma check_key_no_match v S a b c d t i o K r :
  checker_new Hs v S a b c d = Ok t -> check_key Hs Hb t v S i o K = Ok r ->
  (forall idx, in_ranges a b c d idx -> ~ matches Hs Hb v S i o K idx) -> r = None.
Proof.
  intros Ht Hc Hno. destruct r as [[idx key]|]; [|reflexivity]. exfalso.
  destruct (check_key_sound Hs Hb _ _ _ _ _ _ _ _ _ _ _ _ Ht Hc) as (_ & Hr & g & P & Sidx & H1 & H2 & H3 & H4 & H5).
  apply (Hno idx Hr). exists g, P, Sidx. auto.
Qed.

(* ... and conversely: a key whose check returns None matches no in-range index *)
Lemma check_key_none_no_match v S a b c d t i o K :
  pk_from_slice S = Ok S -> checker_new Hs v S a b c d = Ok t -> check_key Hs Hb t v S i o K = Ok None ->
  forall idx, in_ranges a b c d idx -> ~ matches Hs Hb v S i o K idx.
Proof.
  intros HS Ht Hc idx Hr Hm. destruct (matches_check_key _ _ _ _ _ _ _ _ _ _ _ HS Ht Hr Hm) as (idx' & Hc' & _). congruence.
Qed.

(* the main key's check does not fail in a successful scan *)
Lemma scan_main_checked v S t rct main outs adds ecdhs outpks l k o :
  scan_outputs Hs Hb t v S rct main 0%N outs adds ecdhs outpks = SOk l -> nth_error outs k = Some o ->
  exists r, check_key Hs Hb t v S (N.of_nat k) o main = Ok r.
Proof.
  intros Hscan Ho. destruct (scan_outputs_checked Hs Hb _ _ _ _ _ _ _ _ _ _ _ Hscan k o Ho) as (res & Hres).
  replace (0 + N.of_nat k)%N with (N.of_nat k) in Hres by lia. unfold check_output in Hres.
  destruct (check_key Hs Hb t v S (N.of_nat k) o main) as [r|e|]; cbn [bindr] in Hres; try discriminate. now exists r.
Qed.

(* C07: matches -> reported *)
Lemma matches_reported v S a b c d p rct l fields main k o K idx :
  pk_from_slice S = Ok S ->
  prefix_check_outputs Hs Hb v S a b c d p rct = SOk l ->
  raw_try_parse valid_pk_b (extra p) = Ok fields -> tx_pubkey fields = Some main ->
  nth_error (outputs p) k = Some o ->
  in_ranges a b c d idx -> matches Hs Hb v S (N.of_nat k) o K idx ->
  (K = main \/
   (nth_error (adds_of fields) k = Some K /\
    forall idx2, in_ranges a b c d idx2 -> ~ matches Hs Hb v S (N.of_nat k) o main idx2)) ->
  exists w, In w l /\ ow_pos w = N.of_nat k /\ ow_out w = o /\ ow_key w = K /\ in_ranges a b c d (ow_index w) /\
    get_spend_public_key Hs v S (ow_index w) = get_spend_public_key Hs v S idx /\
    ((forall idx2, in_ranges a b c d idx2 -> get_spend_public_key Hs v S idx2 = get_spend_public_key Hs v S idx -> idx2 = idx) ->
       ow_index w = idx).
Proof.
  intros HS H Hf Hm Ho Hr Hmt HK.
  destruct (prefix_scan_inv Hs Hb _ _ _ _ _ _ _ _ _ H) as (t & f' & m' & Ht & Hf' & Hm' & Hscan).
  rewrite Hf in Hf'. injection Hf' as <-. rewrite Hm in Hm'. injection Hm' as <-.
  destruct (matches_check_key _ _ _ _ _ _ _ _ _ _ _ HS Ht Hr Hmt) as (idx' & Hck & Hr' & Hsp').
  assert (Hco : check_output Hs Hb t v S (N.of_nat k) o main (nth_error (adds_of fields) k) = Ok (Some (idx', K))).
  { unfold check_output. destruct HK as [<-|[HKa Hno]].
    - now rewrite Hck.
    - destruct (scan_main_checked _ _ _ _ _ _ _ _ _ _ _ _ Hscan Ho) as (r & Hmain).
      pose proof (check_key_no_match _ _ _ _ _ _ _ _ _ _ _ Ht Hmain Hno) as ->.
      rewrite Hmain. cbn [bindr]. rewrite HKa. exact Hck. }
  destruct (scan_outputs_complete Hs Hb _ _ _ _ _ _ _ _ _ _ _ Hscan k o idx' K Ho) as (op & Hin).
  { replace (0 + N.of_nat k)%N with (N.of_nat k) by lia. exact Hco. }
  replace (0 + N.of_nat k)%N with (N.of_nat k) in Hin by lia.
  exists (mk_owned (N.of_nat k) o idx' K op). cbn [ow_pos ow_out ow_key ow_index].
  split; [exact Hin|]. do 3 (split; [reflexivity|]). split; [exact Hr'|]. split; [exact Hsp'|].
  intros Huniq. now apply Huniq.
Qed.

(* C07: reported <-> matches, for every transaction and every position *)
Lemma reported_iff_matches v S a b c d p rct l fields main k o :
  pk_from_slice S = Ok S ->
  prefix_check_outputs Hs Hb v S a b c d p rct = SOk l ->
  raw_try_parse valid_pk_b (extra p) = Ok fields -> tx_pubkey fields = Some main ->
  nth_error (outputs p) k = Some o ->
  ((exists w, In w l /\ ow_pos w = N.of_nat k) <->
   ((exists idx, in_ranges a b c d idx /\ matches Hs Hb v S (N.of_nat k) o main idx) \/
    (exists K idx, nth_error (adds_of fields) k = Some K /\ in_ranges a b c d idx /\ matches Hs Hb v S (N.of_nat k) o K idx))).
Proof.
  intros HS H Hf Hm Ho. split.
  - intros (w & Hw & Hpos).
    destruct (scan_sound Hs Hb _ _ _ _ _ _ _ _ _ _ H Hw)
      as (t & f' & m' & o' & Ht & Hf' & Hm' & Ho' & _ & Hr & Hk & g & P & Sidx & H1 & H2 & H3 & H4 & H5).
    rewrite Hf in Hf'. injection Hf' as <-. rewrite Hm in Hm'. injection Hm' as <-.
    rewrite Hpos, Nat2N.id, Ho in Ho'. injection Ho' as <-. rewrite Hpos in *.
    assert (Hmt : matches Hs Hb v S (N.of_nat k) o (ow_key w) (ow_index w)) by (exists g, P, Sidx; auto).
    destruct Hk as [Hk|(_ & adds & Ha & Hn)].
    + left. exists (ow_index w). rewrite Hk in Hmt. now split.
    + right. exists (ow_key w), (ow_index w). rewrite Nat2N.id in Hn. unfold adds_of. rewrite Ha. auto.
  - intros Hcase.
    destruct (prefix_scan_inv Hs Hb _ _ _ _ _ _ _ _ _ H) as (t & f' & m' & Ht & Hf' & Hm' & Hscan).
    rewrite Hf in Hf'. injection Hf' as <-. rewrite Hm in Hm'. injection Hm' as <-.
    assert (Hmainrep : forall idx, in_ranges a b c d idx -> matches Hs Hb v S (N.of_nat k) o main idx ->
                       exists w, In w l /\ ow_pos w = N.of_nat k).
    { intros idx Hr Hmt.
      destruct (matches_reported _ _ _ _ _ _ _ _ _ _ _ _ _ main idx HS H Hf Hm Ho Hr Hmt) as (w & Hw & Hp & _); [now left|].
      now exists w. }
    destruct Hcase as [(idx & Hr & Hmt)|(K & idx & HKa & Hr & Hmt)]; [now apply (Hmainrep idx)|].
    destruct (scan_main_checked _ _ _ _ _ _ _ _ _ _ _ _ Hscan Ho) as ([[idx1 key1]|] & Hmain).
    + destruct (check_key_sound Hs Hb _ _ _ _ _ _ _ _ _ _ _ _ Ht Hmain) as (-> & Hr1 & g & P & Sidx & H1 & H2 & H3 & H4 & H5).
      apply (Hmainrep idx1 Hr1). exists g, P, Sidx. auto.
    + destruct (matches_reported _ _ _ _ _ _ _ _ _ _ _ _ _ K idx HS H Hf Hm Ho Hr Hmt) as (w & Hw & Hp & _).
      { right. split; [exact HKa|]. now apply (check_key_none_no_match _ _ _ _ _ _ _ _ _ _ HS Ht Hmain). }
      now exists w.
Qed.

(* ================================================================================================================================ *)
(* Part 2: the sender's amount is recovered                                                                                           *)

(* the scalar the scanner derives for the published key and the position is the sender's Hs(D || i) *)
Lemma sender_shared v Sp maj min r i : valid Sp -> (i < 2 ^ 64)%N ->
  let dst := wallet_address Hs v Sp maj min in
  let snt := send Hs Hb r dst i in
  shared_scalar Hs v (compress Sp) (compress (sn_key snt)) i = Ok (sn_shared snt).
Proof.
  intros HS Hi dst snt. destruct (sender_derivation Hs v Sp maj min r HS) as [_ Hder]. fold dst in Hder.
  unfold shared_scalar, from_key, snt, send. cbn [sn_key sn_shared]. rewrite Hder. cbn [bindr].
  unfold get_rvn_scalar, rvn_preimage, enc_pk, derivation_to_scalar. cbn [snd]. now rewrite leb_pos.
Qed.

(* what the sender puts into ecdh_info for amount a and mask y under the shared scalar sh: the compact form (then y is the derived
   mask) or the legacy form (then y is any scalar in [0,l) and the hash-to-scalar has values in [0,l)) *)
Definition sender_ecdh (sh : Z) (a : N) (y : Z) (e : ecdh) : Prop :=
  (e = EBulletproof (sender_compact Hb a sh) /\ y = gen_commitment_mask Hs sh) \/
  (e = EStandard (fst (sender_legacy Hs a y sh)) (snd (sender_legacy Hs a y sh)) /\ 0 <= y < ell /\ (forall m, 0 <= Hs m < ell)).

Lemma sender_open_with sh a y e Hp : (a < 2 ^ 64)%N -> decompress Ed25519.H_bytes = Some Hp -> sender_ecdh sh a y e ->
  open_with Hs Hb e sh (pedersen Hp y a) = Ok (Some (a, y, pedersen Hp y a)).
Proof.
  intros Ha HH [[-> ->]|(-> & Hy & Hr)].
  - now apply compact_exact.
  - now apply legacy_exact.
Qed.

Lemma sender_open_commitment v Sp maj min r i a y e Hp : valid Sp -> (i < 2 ^ 64)%N ->
  let dst := wallet_address Hs v Sp maj min in
  let snt := send Hs Hb r dst i in
  (a < 2 ^ 64)%N -> decompress Ed25519.H_bytes = Some Hp -> sender_ecdh (sn_shared snt) a y e ->
  open_commitment Hs Hb e v (compress Sp) (compress (sn_key snt)) i (pedersen Hp y a) = Ok (Some (a, y, pedersen Hp y a)).
Proof.
  intros HS Hi dst snt Ha HH He. unfold open_commitment.
  pose proof (sender_shared v Sp maj min r i HS Hi) as Hsh. cbv zeta in Hsh. fold dst in Hsh. fold snt in Hsh.
  rewrite Hsh. cbn [bindr]. now apply sender_open_with.
Qed.

(* the opening step of a sender-built output succeeds with the sender's values: it is never the cause of an error or a panic *)
Lemma sender_opening_step v Sp maj min r i a y bs e c0 Hp : valid Sp -> (i < 2 ^ 64)%N ->
  let dst := wallet_address Hs v Sp maj min in
  let snt := send Hs Hb r dst i in
  rb_type bs <> RNull ->
  (a < 2 ^ 64)%N -> decompress Ed25519.H_bytes = Some Hp -> sender_ecdh (sn_shared snt) a y e ->
  decompress c0 = Some (pedersen Hp y a) ->
  opening_step Hs Hb (Some bs) (Some e) (Some c0) v (compress Sp) i (compress (sn_key snt))
    = SOk (Some (a, y, pedersen Hp y a)).
Proof.
  intros HS Hi dst snt Hty Ha HH He Hc.
  pose proof (sender_open_commitment v Sp maj min r i a y e Hp HS Hi Ha HH He) as Hopen. cbv zeta in Hopen.
  fold dst in Hopen. fold snt in Hopen.
  unfold opening_step. destruct (rb_type bs); [congruence|..]; now rewrite Hc, Hopen.
Qed.

(* iteration k of the scan loop on a sender-built RingCT output: the key check reports the published key and the opening step
   returns the sender's values *)
Lemma sender_step_ok v Sp a b c d t maj min r i o main add am y bs e c0 Hp :
  valid Sp -> checker_new Hs v (compress Sp) a b c d = Ok t -> in_ranges a b c d (maj, min) -> (i < 2 ^ 64)%N ->
  let dst := wallet_address Hs v Sp maj min in
  let snt := send Hs Hb r dst i in
  let K := compress (sn_key snt) in
  (o_target o = TKey (compress (sn_onetime snt)) \/ o_target o = TTagged (compress (sn_onetime snt)) (b2n (sn_tag snt))) ->
  (K = main \/ (add = Some K /\ check_key Hs Hb t v (compress Sp) i o main = Ok None)) ->
  rb_type bs <> RNull ->
  (am < 2 ^ 64)%N -> decompress Ed25519.H_bytes = Some Hp -> sender_ecdh (sn_shared snt) am y e ->
  decompress c0 = Some (pedersen Hp y am) ->
  exists idx',
    check_output Hs Hb t v (compress Sp) i o main add = Ok (Some (idx', K)) /\
    get_spend_public_key Hs v (compress Sp) idx' = Ok (compress (a_spend dst)) /\
    opening_step Hs Hb (Some bs) (Some e) (Some c0) v (compress Sp) i K = SOk (Some (am, y, pedersen Hp y am)).
Proof.
  intros HS Ht Hr Hi dst snt K Htg HK Hty Ha HH He Hc.
  destruct (sender_check_key Hs Hb v Sp a b c d t maj min r i o HS Ht Hr Hi Htg) as (idx' & Hck & Hin').
  fold dst snt K in Hck, Hin'.
  destruct (checker_in Hs _ _ _ _ _ _ _ _ _ Ht Hin') as [_ Hsp'].
  exists idx'. split; [|split; [exact Hsp'|]].
  - unfold check_output. destruct HK as [<-|[-> Hnone]].
    + now rewrite Hck.
    + rewrite Hnone. cbn [bindr]. exact Hck.
  - exact (sender_opening_step v Sp maj min r i am y bs e c0 Hp HS Hi Hty Ha HH He Hc).
Qed.

(* C08 end to end *)
Lemma sender_amount_recovered v Sp a b c d p l fields main k o maj min r bs e c0 Hp am y :
  valid Sp ->
  prefix_check_outputs Hs Hb v (compress Sp) a b c d p (Some bs) = SOk l ->
  raw_try_parse valid_pk_b (extra p) = Ok fields -> tx_pubkey fields = Some main ->
  nth_error (outputs p) k = Some o -> (N.of_nat k < 2 ^ 64)%N ->
  in_ranges a b c d (maj, min) ->
  let dst := wallet_address Hs v Sp maj min in
  let snt := send Hs Hb r dst (N.of_nat k) in
  let K := compress (sn_key snt) in
  (o_target o = TKey (compress (sn_onetime snt)) \/ o_target o = TTagged (compress (sn_onetime snt)) (b2n (sn_tag snt))) ->
  (K = main \/
   (nth_error (adds_of fields) k = Some K /\
    forall idx2, in_ranges a b c d idx2 -> ~ matches Hs Hb v (compress Sp) (N.of_nat k) o main idx2)) ->
  rb_type bs <> RNull ->
  nth_error (rb_ecdh bs) k = Some e -> nth_error (rb_out_pk bs) k = Some c0 ->
  (am < 2 ^ 64)%N -> decompress Ed25519.H_bytes = Some Hp -> sender_ecdh (sn_shared snt) am y e ->
  decompress c0 = Some (pedersen Hp y am) ->
  exists w, In w l /\ ow_pos w = N.of_nat k /\ ow_out w = o /\ ow_key w = K /\
    ow_opening w = Some (am, y, pedersen Hp y am) /\
    owned_amount w = Some am /\ owned_blinding_factor w = Some y /\ owned_commitment w = Some (pedersen Hp y am) /\
    get_spend_public_key Hs v (compress Sp) (ow_index w) = Ok (compress (a_spend dst)) /\
    ((forall idx2, in_ranges a b c d idx2 -> get_spend_public_key Hs v (compress Sp) idx2 = Ok (compress (a_spend dst)) ->
        idx2 = (maj, min)) -> ow_index w = (maj, min)).
Proof.
  intros HS H Hf Hm Ho Hk64 Hr dst snt K Htg HK Hty He Hc Ha HH Hse HC.
  destruct (prefix_scan_inv Hs Hb _ _ _ _ _ _ _ _ _ H) as (t & f' & m' & Ht & Hf' & Hm' & Hscan).
  rewrite Hf in Hf'. injection Hf' as <-. rewrite Hm in Hm'. injection Hm' as <-.
  assert (HK1 : K = main \/ nth_error (adds_of fields) k = Some K) by (destruct HK as [HK|[HK _]]; auto).
  destruct (scan_complete Hs Hb v Sp a b c d p (Some bs) l fields main k o maj min r HS H Hf Hm Ho Hk64 Hr Htg HK1)
    as (w & t' & Hw & Hpos & Hout & Ht' & Himp).
  rewrite Ht in Ht'. injection Ht' as <-. fold dst snt K in Himp.
  assert (HK2 : K = main \/ check_key Hs Hb t v (compress Sp) (N.of_nat k) o main = Ok None).
  { destruct HK as [HK|[_ Hno]]; [now left|right].
    destruct (scan_main_checked _ _ _ _ _ _ _ _ _ _ _ _ Hscan Ho) as (r0 & Hmain).
    now rewrite (check_key_no_match _ _ _ _ _ _ _ _ _ _ _ Ht Hmain Hno) in Hmain. }
  destruct (Himp HK2) as (Hkey & Hsp & Huniq).
  destruct (scan_outputs_inv Hs Hb _ _ _ _ _ _ _ _ _ _ _ Hscan w Hw) as (k' & o' & Hk' & Hpos' & _ & _ & Hop).
  assert (k' = k) by lia. subst k'. rewrite Hpos, Hkey in Hop. cbn [ecdhs_of outpks_of] in Hop. rewrite He, Hc in Hop.
  pose proof (sender_opening_step v Sp maj min r (N.of_nat k) am y bs e c0 Hp HS Hk64 Hty Ha HH Hse HC) as Hstep.
  cbv zeta in Hstep. fold dst in Hstep. fold snt in Hstep. fold K in Hstep.
  rewrite Hstep in Hop. injection Hop as Hop. symmetry in Hop.
  exists w. unfold owned_amount, owned_blinding_factor, owned_commitment. rewrite Hop. repeat split; auto.
Qed.

(* ================================================================================================================================ *)
(* Part 3: the recovered key of a sender-built output                                                                                 *)
Lemma sender_recover v s a b c d p rct l fields main k o maj min r :
  prefix_check_outputs Hs Hb v (pk_from_priv s) a b c d p rct = SOk l ->
  raw_try_parse valid_pk_b (extra p) = Ok fields -> tx_pubkey fields = Some main ->
  nth_error (outputs p) k = Some o -> (N.of_nat k < 2 ^ 64)%N ->
  in_ranges a b c d (maj, min) ->
  let dst := wallet_address Hs v (smul s G) maj min in
  let snt := send Hs Hb r dst (N.of_nat k) in
  let K := compress (sn_key snt) in
  (o_target o = TKey (compress (sn_onetime snt)) \/ o_target o = TTagged (compress (sn_onetime snt)) (b2n (sn_tag snt))) ->
  (K = main \/ nth_error (adds_of fields) k = Some K) ->
  exists w x, In w l /\ ow_pos w = N.of_nat k /\ ow_out w = o /\
    owned_recover_key Hs v s w = Ok x /\ smul x G = sn_onetime snt /\ pk_from_priv x = compress (sn_onetime snt).
Proof.
  intros H Hf Hm Ho Hk64 Hr dst snt K Htg HK.
  assert (HS : valid (smul s G)) by auto with ed.
  destruct (scan_complete Hs Hb v (smul s G) a b c d p rct l fields main k o maj min r HS H Hf Hm Ho Hk64 Hr Htg HK)
    as (w & t & Hw & Hpos & Hout & _ & _).
  destruct (owned_recover Hs Hb v s a b c d p rct l w H Hw) as (g & x & _ & Hx & _ & Hot).
  destruct (wallet_address_valid Hs v (smul s G) maj min HS) as [HvS HvV]. fold dst in HvS, HvV.
  assert (HvP : valid (sn_onetime snt)).
  { unfold snt, send. cbn [sn_onetime]. unfold one_time_public_key. auto with ed. }
  assert (Hkey : target_key (o_target o) = compress (sn_onetime snt)) by (destruct Htg as [-> | ->]; reflexivity).
  rewrite Hout in Hot. unfold as_one_time_key in Hot. rewrite Hkey, pk_from_slice_compress in Hot by exact HvP.
  injection Hot as Hot. exists w, x. repeat split; auto.
  unfold pk_from_priv in Hot. symmetry in Hot. apply compress_inj in Hot; auto with ed.
Qed.

End EndToEnd.
