(* EdToy.v — the EdLaws record is satisfiable: the cyclic group Z/l (written additively, generator 1, encoding =
   32-byte little-endian) is an instance.  This only shows that the hypotheses of the `_partial` theorems are
   consistent (the theorems are not vacuous); it says nothing about Ed25519. *)
From MRS Require Export Proofs.KeysProofs.
Open Scope Z_scope.

Definition toy_decompress (b : bytes) : option Z :=
  if Nat.eqb (List.length b) 32 && (le2z b <? ell) then Some (le2z b) else None.

Definition toy_ops : EdOps := {|
  point := Z;
  pzero := 0;
  padd := fun a b => (a + b) mod ell;
  pneg := fun a => (- a) mod ell;
  smul := fun k a => (k * a) mod ell;
  G := 1;
  compress := fun a => z2le 32 a;
  decompress := toy_decompress;
  peqb := Z.eqb;
  valid := fun a => 0 <= a < ell;
  tors := fun _ => 0
|}.

Lemma ell_pos : 0 < ell. Proof. apply ell_lt. Qed.
Lemma ell_big : 2 ^ 252 < ell. Proof. vm_compute. reflexivity. Qed.
Lemma ell_nz : ell <> 0. Proof. pose proof ell_pos. lia. Qed.

Lemma toy_laws : EdLaws toy_ops.
Proof.
  pose proof ell_lt as Hl. pose proof ell_nz as Hnz. pose proof ell_big as Hbig.
  constructor; cbn [point pzero padd pneg smul G compress decompress peqb valid tors toy_ops].
  - lia.
  - lia.
  - intros P Q _ _. now apply Z.mod_pos_bound.
  - intros P _. now apply Z.mod_pos_bound.
  - intros k P _. now apply Z.mod_pos_bound.
  - intros P Q R _ _ _. rewrite Z.add_mod_idemp_r, Z.add_mod_idemp_l by exact Hnz. f_equal. lia.
  - intros P Q _ _. f_equal. lia.
  - intros P HP. rewrite Z.add_0_r. now apply Z.mod_small.
  - intros P HP. rewrite Z.add_mod_idemp_r by exact Hnz. rewrite Z.add_opp_diag_r. now apply Z.mod_0_l.
  - intros P _. now apply Z.mod_0_l.
  - intros P HP. rewrite Z.mul_1_l. now apply Z.mod_small.
  - intros a b P _. rewrite <- Z.add_mod by exact Hnz. f_equal. lia.
  - intros a b P _. rewrite Z.mul_mod_idemp_r by exact Hnz. f_equal. lia.
  - intros a P _. rewrite <- (Z.sub_0_l (a * P mod ell)), Zminus_mod_idemp_r. f_equal. lia.
  - rewrite Z.mul_1_r. now apply Z.mod_same.
  - intros a b. now rewrite !Z.mul_1_r.
  - intros P _. apply z2le_length.
  - intros P HP. unfold toy_decompress. rewrite z2le_length, le2z_z2le32 by lia. cbn [Nat.eqb andb].
    destruct (Z.ltb_spec P ell); [reflexivity|lia].
  - intros b P. unfold toy_decompress. destruct (_ && _) eqn:Hc; [|discriminate].
    apply andb_true_iff in Hc. destruct Hc as [_ Hc]. apply Z.ltb_lt in Hc. intros H. injection H as <-.
    pose proof (le2z_nonneg b). lia.
  - intros P Q _ _. apply Z.eqb_eq.
  - intros _. lia.
  - intros _. now apply Z.mod_0_l.
Qed.

(* in this instance G really has order l: scalars 0 and 1 give different points *)
Lemma toy_nontrivial : @smul toy_ops 1 G <> @smul toy_ops 0 G.
Proof. vm_compute. discriminate. Qed.
