(* Base58Proofs.v — Monero base58 (model of base58-monero 2.1.0) is a bijection between byte strings and the
   texts it accepts: fixed-width base-58 positional notation per block. *)
From MRS Require Export Model.Base58 Proofs.BaseProofs.
Open Scope list_scope.
Open Scope N_scope.

(* ------------------------------------------------------------------------------------------------ *)
(* generic list facts                                                                                 *)

Lemma lenN_app {A} (a b : list A) : lenN (a ++ b) = lenN a + lenN b.
Proof. unfold lenN. rewrite app_length. lia. Qed.

Lemma lenN_cons {A} (x : A) l : lenN (x :: l) = 1 + lenN l.
Proof. unfold lenN. cbn [length]. lia. Qed.

Lemma lenN_rev {A} (l : list A) : lenN (rev l) = lenN l.
Proof. unfold lenN. now rewrite rev_length. Qed.

(* ---- chunks ------------------------------------------------------------------------------------- *)
Lemma chunks_f_enough {A} n : (0 < n)%nat -> forall f1 f2 (l : list A),
  (length l <= f1)%nat -> (length l <= f2)%nat -> chunks_f f1 n l = chunks_f f2 n l.
Proof.
  intros Hn. induction f1 as [|f1 IH]; intros f2 l H1 H2.
  - destruct l; [|cbn in H1; lia]. destruct f2; reflexivity.
  - destruct l as [|x t]; [destruct f2; reflexivity|].
    destruct f2 as [|f2]; [cbn in H2; lia|].
    cbn [chunks_f]. f_equal. apply IH.
    + rewrite skipn_length. cbn [length] in *. lia.
    + rewrite skipn_length. cbn [length] in *. lia.
Qed.

Lemma chunks_nil {A} n : chunks n (@nil A) = [].
Proof. reflexivity. Qed.

Lemma chunks_step {A} n (l : list A) : (0 < n)%nat -> l <> [] ->
  chunks n l = firstn n l :: chunks n (skipn n l).
Proof.
  intros Hn Hl. unfold chunks. destruct l as [|x t]; [congruence|].
  cbn [length chunks_f]. f_equal. apply chunks_f_enough; [assumption| |lia].
  rewrite skipn_length. cbn [length]. lia.
Qed.

Lemma chunks_app_full {A} n (a r : list A) : (0 < n)%nat -> length a = n ->
  chunks n (a ++ r) = a :: chunks n r.
Proof.
  intros Hn Ha. rewrite chunks_step; [|assumption|destruct a; [cbn in Ha; lia|discriminate]].
  rewrite firstn_app, skipn_app, Ha, Nat.sub_diag. cbn [firstn skipn].
  rewrite <- Ha, firstn_all, skipn_all, app_nil_r. reflexivity.
Qed.

Lemma chunks_short {A} n (t : list A) : (0 < length t <= n)%nat -> chunks n t = [t].
Proof.
  intros H. rewrite chunks_step; [|lia|destruct t; [cbn in H; lia|discriminate]].
  rewrite firstn_all2 by lia. rewrite skipn_all2 by lia. reflexivity.
Qed.

(* every list is full blocks followed by a short (possibly empty) tail *)
Lemma chunk_ind {A} n (P : list A -> Prop) : (0 < n)%nat ->
  (forall t, (length t < n)%nat -> P t) ->
  (forall a r, length a = n -> P r -> P (a ++ r)) ->
  forall l, P l.
Proof.
  intros Hn Ht Hf l. remember (length l) as m eqn:Hm. revert l Hm.
  induction m as [m IH] using lt_wf_ind. intros l Hm.
  destruct (Nat.lt_ge_cases (length l) n) as [L|L]; [now apply Ht|].
  rewrite <- (firstn_skipn n l). apply Hf.
  - rewrite firstn_length. lia.
  - apply (IH (length (skipn n l))); [rewrite skipn_length; lia|reflexivity].
Qed.

(* ------------------------------------------------------------------------------------------------ *)
(* the alphabet                                                                                       *)

Lemma alphabet_length : length alphabet = 58%nat.
Proof. reflexivity. Qed.

Lemma index_of_char d : d < 58 -> index_of (b58_char d) alphabet = Some d.
Proof.
  intros H. rewrite <- (N2Nat.id d). assert (Hn : (N.to_nat d < 58)%nat) by lia.
  generalize dependent (N.to_nat d). clear H d. intros n Hn.
  do 58 (destruct n as [|n]; [vm_compute; reflexivity|]). lia.
Qed.

Lemma index_of_sound c d : index_of c alphabet = Some d -> d < 58 /\ b58_char d = c.
Proof.
  destruct c; vm_compute; intros H; try discriminate H; injection H as <-; split; reflexivity.
Qed.

Lemma b58_char_inj d1 d2 : d1 < 58 -> d2 < 58 -> b58_char d1 = b58_char d2 -> d1 = d2.
Proof.
  intros H1 H2 E. apply index_of_char in H1, H2. rewrite E in H1. congruence.
Qed.

(* ------------------------------------------------------------------------------------------------ *)
(* fixed-width base-58 digits, least significant first                                               *)

Fixpoint rdigits (k : nat) (n : N) : list N :=
  match k with O => [] | S k' => n mod 58 :: rdigits k' (n / 58) end.
Fixpoint valr (ds : list N) : N :=
  match ds with [] => 0 | d :: t => d + 58 * valr t end.

Lemma rdigits_length k n : length (rdigits k n) = k.
Proof. revert n. induction k; intros; cbn [rdigits length]; [reflexivity|now rewrite IHk]. Qed.

Lemma rdigits_lt k n : Forall (fun d => d < 58) (rdigits k n).
Proof.
  revert n. induction k; intros; cbn [rdigits]; constructor; [apply N.mod_lt; lia|apply IHk].
Qed.

Lemma valr_rdigits k : forall n, n < 58 ^ N.of_nat k -> valr (rdigits k n) = n.
Proof.
  induction k as [|k IH]; intros n Hn.
  - cbn in Hn. cbn. lia.
  - cbn [rdigits valr]. rewrite IH.
    + pose proof (N.div_mod' n 58). lia.
    + replace (N.of_nat (S k)) with (N.succ (N.of_nat k)) in Hn by lia.
      rewrite N.pow_succ_r' in Hn. apply N.div_lt_upper_bound; lia.
Qed.

Lemma rdigits_valr ds : Forall (fun d => d < 58) ds -> rdigits (length ds) (valr ds) = ds.
Proof.
  induction 1 as [|d t Hd Ht IH]; [reflexivity|].
  cbn [length rdigits valr].
  replace ((d + 58 * valr t) mod 58) with d
    by (rewrite N.mul_comm, N.mod_add by lia; symmetry; now apply N.mod_small).
  replace ((d + 58 * valr t) / 58) with (valr t)
    by (rewrite N.mul_comm, N.div_add by lia; rewrite (N.div_small d) by lia; lia).
  now rewrite IH.
Qed.

Lemma valr_lt ds : Forall (fun d => d < 58) ds -> valr ds < 58 ^ lenN ds.
Proof.
  induction 1 as [|d t Hd Ht IH]; [cbn; lia|].
  rewrite lenN_cons. replace (1 + lenN t) with (N.succ (lenN t)) by lia. rewrite N.pow_succ_r'.
  cbn [valr]. lia.
Qed.

(* value of a reversed block of characters; None as soon as a character is outside the alphabet *)
Fixpoint valr_chars (rdata : bytes) : option N :=
  match rdata with
  | [] => Some 0
  | c :: t => match index_of c alphabet, valr_chars t with
              | Some d, Some v => Some (d + 58 * v)
              | _, _ => None
              end
  end.

Lemma valr_chars_map ds : Forall (fun d => d < 58) ds ->
  valr_chars (map b58_char ds) = Some (valr ds).
Proof.
  induction 1 as [|d t Hd Ht IH]; [reflexivity|].
  cbn [map valr_chars valr]. rewrite index_of_char by assumption. now rewrite IH.
Qed.

Lemma valr_chars_inv rdata v : valr_chars rdata = Some v ->
  exists ds, Forall (fun d => d < 58) ds /\ rdata = map b58_char ds /\ v = valr ds.
Proof.
  revert v. induction rdata as [|c t IH]; intros v H.
  - injection H as <-. exists []. repeat split. constructor.
  - cbn [valr_chars] in H. destruct (index_of c alphabet) as [d|] eqn:E; [|discriminate].
    destruct (valr_chars t) as [w|] eqn:Et; [|discriminate]. injection H as <-.
    destruct (IH w eq_refl) as (ds & Hds & -> & ->). apply index_of_sound in E. destruct E as [Hd <-].
    exists (d :: ds). repeat split. now constructor.
Qed.

Lemma pow58_11 : 58 ^ 11 < 2 ^ 128.
Proof. vm_compute. reflexivity. Qed.

Lemma dec_loop_spec rdata : forall order res, order * 58 ^ lenN rdata < 2 ^ 128 ->
  dec_loop rdata order res = option_map (fun v => res + order * v) (valr_chars rdata).
Proof.
  induction rdata as [|c t IH]; intros order res Hb.
  - cbn. f_equal. lia.
  - cbn [dec_loop valr_chars]. destruct (index_of c alphabet) as [d|]; [|reflexivity].
    rewrite lenN_cons in Hb. replace (1 + lenN t) with (N.succ (lenN t)) in Hb by lia.
    rewrite N.pow_succ_r' in Hb.
    assert (H1 : 1 <= 58 ^ lenN t) by (apply N.lt_succ_r, N.lt_succ_r; pose proof (N.pow_nonzero 58 (lenN t)); lia).
    set (X := 58 ^ lenN t) in *. set (B := 2 ^ 128) in *.
    assert (Hle : order * 58 * 1 <= order * 58 * X) by (apply N.mul_le_mono_l; exact H1).
    assert (Ho : order * 58 < B) by lia.
    rewrite (N.mod_small _ _ Ho). rewrite IH by (fold X; fold B; lia).
    destruct (valr_chars t) as [v|]; [|reflexivity]. cbn [option_map]. f_equal. lia.
Qed.

Lemma enc_loop_spec k : forall n acc,
  enc_loop k n acc = rev (map b58_char (rdigits k n)) ++ acc.
Proof.
  induction k as [|k IH]; intros n acc; [reflexivity|].
  cbn [enc_loop rdigits map rev]. rewrite IH, <- app_assoc. reflexivity.
Qed.

(* ---- the block codec: k characters <-> a number below 58^k ---------------------------------------- *)
Definition enc_k (k : nat) (n : N) : bytes := enc_loop k n [].
Definition dec_k (s : bytes) : option N := dec_loop (rev s) 1 0.

Lemma enc_k_length k n : length (enc_k k n) = k.
Proof. unfold enc_k. rewrite enc_loop_spec, app_nil_r, rev_length, map_length. apply rdigits_length. Qed.

Lemma enc_k_alphabet k n : Forall (fun c => In c alphabet) (enc_k k n).
Proof.
  unfold enc_k. rewrite enc_loop_spec, app_nil_r. apply Forall_rev, Forall_map.
  eapply Forall_impl; [|apply rdigits_lt]. intros d Hd. unfold b58_char. apply nth_In.
  rewrite alphabet_length. cbv beta in Hd. lia.
Qed.

Lemma pow58_le k : (k <= 11)%nat -> 58 ^ N.of_nat k <= 58 ^ 11.
Proof. intros. apply N.pow_le_mono_r; lia. Qed.

Lemma dec_k_spec s : (length s <= 11)%nat -> dec_k s = valr_chars (rev s).
Proof.
  intros Hl. unfold dec_k. rewrite dec_loop_spec.
  - destruct (valr_chars (rev s)); [|reflexivity]. cbn [option_map]. f_equal. lia.
  - rewrite lenN_rev. unfold lenN. pose proof (pow58_le _ Hl). pose proof pow58_11. lia.
Qed.

(* decoding the k-digit text of n gives n back *)
Lemma dec_enc_k k n : (k <= 11)%nat -> n < 58 ^ N.of_nat k -> dec_k (enc_k k n) = Some n.
Proof.
  intros Hk Hn. rewrite dec_k_spec by (now rewrite enc_k_length).
  unfold enc_k. rewrite enc_loop_spec, app_nil_r, rev_involutive.
  rewrite valr_chars_map by apply rdigits_lt. now rewrite valr_rdigits.
Qed.

(* a decodable text is the (length s)-digit text of its value: the spelling of a number is unique *)
Lemma enc_dec_k s v : (length s <= 11)%nat -> dec_k s = Some v ->
  enc_k (length s) v = s /\ v < 58 ^ lenN s.
Proof.
  intros Hl H. rewrite dec_k_spec in H by assumption.
  apply valr_chars_inv in H. destruct H as (ds & Hds & Hs & ->).
  assert (Hlen : length s = length ds).
  { rewrite <- (rev_length s), Hs, map_length. reflexivity. }
  split.
  - unfold enc_k. rewrite enc_loop_spec, app_nil_r, Hlen, rdigits_valr by assumption.
    rewrite <- Hs. apply rev_involutive.
  - unfold lenN. rewrite Hlen. now apply valr_lt.
Qed.

(* every string over the alphabet of length <= 11 has a value *)
Lemma dec_k_total s : (length s <= 11)%nat -> Forall (fun c => In c alphabet) s -> exists v, dec_k s = Some v.
Proof.
  intros Hl Hs. rewrite dec_k_spec by assumption. apply Forall_rev in Hs.
  induction Hs as [|c t Hc Ht IH]; [now exists 0|].
  destruct IH as [v Hv]. cbn [valr_chars]. rewrite Hv.
  destruct (index_of c alphabet) as [d|] eqn:E; [eauto|].
  exfalso. revert Hc E. generalize alphabet. intros l. induction l as [|x l IHl]; [contradiction|].
  intros [->|Hin]; cbn [index_of].
  - now rewrite (Byte.byte_dec_lb (eq_refl c)).
  - destruct (Byte.eqb x c); [discriminate|]. destruct (index_of c l); [discriminate|]. now apply IHl.
Qed.

(* ------------------------------------------------------------------------------------------------ *)
(* big-endian byte strings <-> numbers                                                               *)

Definition be2n (data : bytes) : N := le2n (rev data).

Lemma le2n_app a b : le2n (a ++ b) = le2n a + 256 ^ lenN a * le2n b.
Proof.
  induction a as [|x a IH]; [cbn [app le2n lenN length]; change (N.of_nat 0) with 0; rewrite N.pow_0_r; lia|].
  cbn [app le2n]. rewrite IH, lenN_cons. replace (1 + lenN a) with (N.succ (lenN a)) by lia.
  rewrite N.pow_succ_r'. lia.
Qed.

Lemma le2n_lt l : le2n l < 256 ^ lenN l.
Proof.
  induction l as [|x l IH]; [cbn; lia|].
  cbn [le2n]. rewrite lenN_cons. replace (1 + lenN l) with (N.succ (lenN l)) by lia.
  rewrite N.pow_succ_r'. pose proof (b2n_lt x). lia.
Qed.

Lemma n2le_length k n : length (n2le k n) = k.
Proof. revert n. induction k; intros; cbn [n2le length]; [reflexivity|now rewrite IHk]. Qed.

Lemma n2b_add256 b x : n2b (b2n b + 256 * x) = b.
Proof.
  apply b2n_inj. rewrite b2n_n2b, N.mul_comm, N.mod_add by lia. apply N.mod_small, b2n_lt.
Qed.

Lemma n2le_le2n l : n2le (length l) (le2n l) = l.
Proof.
  induction l as [|x l IH]; [reflexivity|].
  cbn [length n2le le2n]. rewrite n2b_add256. f_equal.
  rewrite N.mul_comm, N.div_add by lia. rewrite (N.div_small (b2n x)) by apply b2n_lt. exact IH.
Qed.

Lemma le2n_n2le k : forall n, n < 256 ^ N.of_nat k -> le2n (n2le k n) = n.
Proof.
  induction k as [|k IH]; intros n Hn.
  - cbn in Hn. cbn. lia.
  - cbn [n2le le2n]. rewrite b2n_n2b. rewrite IH.
    + pose proof (N.div_mod' n 256). lia.
    + replace (N.of_nat (S k)) with (N.succ (N.of_nat k)) in Hn by lia.
      rewrite N.pow_succ_r' in Hn. apply N.div_lt_upper_bound; lia.
Qed.

Lemma n2le_small k : forall n, n < 256 ^ N.of_nat k -> forall j, n2le (k + j) n = n2le k n ++ repeat x00 j.
Proof.
  induction k as [|k IH]; intros n Hn j.
  - cbn in Hn. assert (n = 0) by lia. subst n. cbn [Nat.add n2le app].
    induction j as [|j IHj]; [reflexivity|]. cbn [n2le repeat]. f_equal. exact IHj.
  - cbn [Nat.add n2le app]. f_equal. apply IH.
    replace (N.of_nat (S k)) with (N.succ (N.of_nat k)) in Hn by lia.
    rewrite N.pow_succ_r' in Hn. apply N.div_lt_upper_bound; lia.
Qed.

Lemma n2be_length k n : length (n2be k n) = k.
Proof. unfold n2be. rewrite rev_length. apply n2le_length. Qed.

Lemma be2n_n2be k n : n < 256 ^ N.of_nat k -> be2n (n2be k n) = n.
Proof. intros H. unfold be2n, n2be. rewrite rev_involutive. now apply le2n_n2le. Qed.

Lemma n2be_be2n t : n2be (length t) (be2n t) = t.
Proof.
  unfold be2n, n2be. rewrite <- (rev_length t), n2le_le2n. apply rev_involutive.
Qed.

Lemma be2n_lt t : be2n t < 256 ^ lenN t.
Proof. unfold be2n. rewrite <- lenN_rev. apply le2n_lt. Qed.

(* the last m bytes of the 8-byte big-endian form of a number below 256^m *)
Lemma skipn_n2be8 m v : (m <= 8)%nat -> v < 256 ^ N.of_nat m -> skipn (8 - m) (n2be 8 v) = n2be m v.
Proof.
  intros Hm Hv. unfold n2be. replace 8%nat with (m + (8 - m))%nat at 2 by lia.
  rewrite (n2le_small m v Hv), rev_app_distr, skipn_app.
  rewrite rev_length, repeat_length, Nat.sub_diag. cbn [skipn].
  rewrite skipn_all2 by (rewrite rev_length, repeat_length; lia). reflexivity.
Qed.

(* ---- u8be_to_u64 ------------------------------------------------------------------------------- *)
Lemma land_mul256_small k g : g < 256 -> N.land (k * 256) g = 0.
Proof.
  intros Hg. apply N.bits_inj. intros i. rewrite N.land_spec, N.bits_0.
  destruct (N.lt_ge_cases i 8) as [Hi|Hi].
  - change (k * 256) with (k * 2 ^ 8). rewrite N.mul_pow2_bits_low by assumption. reflexivity.
  - destruct (N.eq_dec g 0) as [->|Hg0]; [now rewrite N.bits_0, andb_false_r|].
    rewrite (N.bits_above_log2 g i); [now rewrite andb_false_r|].
    apply N.log2_lt_pow2; [lia|]. apply N.lt_le_trans with (2 ^ 8); [exact Hg|].
    apply N.pow_le_mono_r; lia.
Qed.

Lemma lor_mul256_add k g : g < 256 -> N.lor (k * 256) g = k * 256 + g.
Proof.
  intros Hg. rewrite <- N.lxor_lor by (now apply land_mul256_small).
  symmetry. apply N.add_nocarry_lxor. now apply land_mul256_small.
Qed.

Lemma be_step_spec r b : r * 256 < 2 ^ 64 ->
  N.lor (N.shiftl r 8 mod 2 ^ 64) (b2n b) = r * 256 + b2n b.
Proof.
  intros Hr. rewrite N.shiftl_mul_pow2. change (2 ^ 8) with 256.
  rewrite N.mod_small by exact Hr. apply lor_mul256_add, b2n_lt.
Qed.

Lemma u8be_fold data : forall acc, acc * 256 ^ lenN data + be2n data < 2 ^ 64 ->
  fold_left (fun res b => N.lor (N.shiftl res 8 mod 2 ^ 64) (b2n b)) data acc
  = acc * 256 ^ lenN data + be2n data.
Proof.
  induction data as [|b t IH]; intros acc Hb.
  - cbn. lia.
  - unfold be2n in *. cbn [rev fold_left] in *. rewrite le2n_app in *. cbn [le2n] in *.
    rewrite lenN_rev in *. rewrite lenN_cons in *.
    replace (1 + lenN t) with (N.succ (lenN t)) in * by lia. rewrite N.pow_succ_r' in *.
    assert (H1 : 1 <= 256 ^ lenN t) by (pose proof (N.pow_nonzero 256 (lenN t)); lia).
    set (X := 256 ^ lenN t) in *. set (B := 2 ^ 64) in *.
    assert (Hle : acc * 256 * 1 <= acc * 256 * X) by (apply N.mul_le_mono_l; exact H1).
    rewrite be_step_spec by (fold B; lia).
    rewrite IH by (fold X; fold B; lia). fold X. lia.
Qed.

Lemma pow256_le m : (m <= 8)%nat -> 256 ^ N.of_nat m <= 2 ^ 64.
Proof. intros. change (2 ^ 64) with (256 ^ 8). apply N.pow_le_mono_r; lia. Qed.

Lemma u8be_to_u64_spec data : (length data <= 8)%nat -> u8be_to_u64 data = be2n data.
Proof.
  intros Hl. unfold u8be_to_u64. rewrite u8be_fold.
  - lia.
  - pose proof (be2n_lt data). pose proof (pow256_le _ Hl). unfold lenN in *. lia.
Qed.

(* ------------------------------------------------------------------------------------------------ *)
(* the size table                                                                                     *)

Definition sz (m : nat) : nat := nth m enc_sizes 0%nat.

Lemma position_sz m : (m <= 8)%nat -> position_nat (sz m) enc_sizes = Some m.
Proof. intros H. do 9 (destruct m as [|m]; [reflexivity|]). lia. Qed.

Lemma position_inv n size : position_nat n enc_sizes = Some size -> (size <= 8)%nat /\ sz size = n.
Proof.
  unfold enc_sizes. cbn [position_nat]. intros H.
  repeat (match type of H with
          | context [Nat.eqb ?x n] =>
              let E := fresh "E" in
              destruct (Nat.eqb_spec x n) as [E|E];
              [subst n; cbn in H; injection H as <-; split; [lia|reflexivity] | cbn [option_map] in H]
          end).
  cbn in H. discriminate.
Qed.

Lemma sz_facts m : (1 <= m <= 8)%nat ->
  (1 <= sz m <= 11)%nat /\ (m < 8 -> sz m < 11)%nat /\ 256 ^ N.of_nat m <= 58 ^ N.of_nat (sz m).
Proof.
  intros H. destruct m as [|m]; [lia|].
  do 8 (destruct m as [|m]; [split; [cbn; lia|split; [cbn; lia|vm_compute; discriminate]]|]). lia.
Qed.

Lemma max_spec m : (m <= 8)%nat ->
  (if Nat.eqb m 8 then Ok (2 ^ 64) else if Nat.leb m 7 then Ok (N.shiftl 1 (N.of_nat (m * 8))) else @Panic N)
  = Ok (256 ^ N.of_nat m).
Proof. intros H. do 9 (destruct m as [|m]; [reflexivity|]). lia. Qed.

(* ------------------------------------------------------------------------------------------------ *)
(* blocks                                                                                             *)

Lemma encode_block_spec data : (0 < length data <= 8)%nat ->
  encode_block data =
  Ok (enc_k (sz (length data)) (be2n data) ++ repeat x31 (11 - sz (length data))).
Proof.
  intros H. unfold encode_block.
  replace (Nat.eqb (length data) 0) with false by (symmetry; apply Nat.eqb_neq; lia).
  replace (Nat.ltb 8 (length data)) with false by (symmetry; apply Nat.ltb_ge; lia).
  cbn [orb]. rewrite u8be_to_u64_spec by lia. reflexivity.
Qed.

Lemma decode_block_enc m n : (1 <= m <= 8)%nat -> n < 256 ^ N.of_nat m ->
  decode_block (enc_k (sz m) n) = Ok (n2be 8 n, m).
Proof.
  intros Hm Hn. destruct (sz_facts m Hm) as (Hs & _ & Hp).
  unfold decode_block. rewrite enc_k_length.
  replace (Nat.ltb 11 (sz m)) with false by (symmetry; apply Nat.ltb_ge; lia).
  rewrite position_sz by lia.
  change (dec_loop (rev (enc_k (sz m) n)) 1 0) with (dec_k (enc_k (sz m) n)).
  rewrite dec_enc_k by lia. rewrite max_spec by lia.
  replace (n <? 256 ^ N.of_nat m) with true by (symmetry; apply N.ltb_lt; exact Hn).
  pose proof (pow256_le m ltac:(lia)). rewrite N.mod_small by lia. reflexivity.
Qed.

Lemma decode_block_inv s d size : decode_block s = Ok (d, size) ->
  (size <= 8)%nat /\ sz size = length s /\
  exists v, v < 256 ^ N.of_nat size /\ d = n2be 8 v /\ enc_k (length s) v = s.
Proof.
  unfold decode_block. destruct (Nat.ltb_spec 11 (length s)) as [L|L]; [discriminate|].
  destruct (position_nat (length s) enc_sizes) as [sz0|] eqn:Ep; [|discriminate].
  apply position_inv in Ep. destruct Ep as [Hs8 Hsz].
  change (dec_loop (rev s) 1 0) with (dec_k s). destruct (dec_k s) as [v|] eqn:Ed; [|discriminate].
  rewrite max_spec by assumption.
  destruct (N.ltb_spec v (256 ^ N.of_nat sz0)) as [Hv|Hv]; [|discriminate].
  intros H. injection H as <- <-. split; [assumption|]. split; [assumption|].
  exists v. split; [assumption|]. split.
  - pose proof (pow256_le sz0 Hs8). rewrite N.mod_small by lia. reflexivity.
  - apply enc_dec_k in Ed; [|assumption]. apply Ed.
Qed.

Lemma decode_block_never_panics s : decode_block s <> Panic.
Proof.
  unfold decode_block. destruct (Nat.ltb 11 (length s)); [discriminate|].
  destruct (position_nat (length s) enc_sizes) as [sz0|] eqn:Ep; [|discriminate].
  apply position_inv in Ep. destruct Ep as [Hs8 _].
  destruct (dec_loop (rev s) 1 0); [|discriminate]. rewrite max_spec by assumption.
  destruct (_ <? _); discriminate.
Qed.

(* ------------------------------------------------------------------------------------------------ *)
(* whole strings: unfolding equations of encode and decode                                           *)

Lemma emit_shift vs : forall i f last, emit (S i) (S f) last vs = emit i f last vs.
Proof. induction vs as [|v t IH]; intros; cbn [emit]; [reflexivity|]. now rewrite IH. Qed.

Lemma b58_encode_nil : b58_encode [] = Ok [].
Proof. reflexivity. Qed.

Lemma b58_encode_tail t : (0 < length t < 8)%nat ->
  b58_encode t = Ok (enc_k (sz (length t)) (be2n t)).
Proof.
  intros H. unfold b58_encode. rewrite chunks_short by lia. cbn [map collect].
  rewrite encode_block_spec by lia.
  rewrite Nat.div_small, Nat.mod_small by lia. cbn [emit Nat.eqb]. fold (sz (length t)).
  rewrite app_nil_r, firstn_app, enc_k_length, Nat.sub_diag. cbn [firstn].
  rewrite app_nil_r. rewrite <- (enc_k_length (sz (length t)) (be2n t)) at 1. now rewrite firstn_all.
Qed.

Lemma b58_encode_full a r : length a = 8%nat ->
  b58_encode (a ++ r) =
  match b58_encode r with Ok x => Ok (enc_k 11 (be2n a) ++ x) | Err e => Err e | Panic => Panic end.
Proof.
  intros Ha. unfold b58_encode. rewrite chunks_app_full by lia. cbn [map collect].
  rewrite encode_block_spec by lia. rewrite Ha. change (sz 8) with 11%nat. cbn [Nat.sub repeat].
  rewrite app_nil_r, app_length, Ha.
  replace ((8 + length r) mod 8)%nat with (length r mod 8)%nat
    by (rewrite Nat.add_comm; change 8%nat with (1 * 8)%nat at 2; now rewrite Nat.mod_add).
  replace ((8 + length r) / 8)%nat with (S (length r / 8))
    by (rewrite Nat.add_comm; change 8%nat with (1 * 8)%nat at 2; rewrite Nat.div_add by lia; lia).
  destruct (collect (map encode_block (chunks 8 r))) as [vs|e|]; [|reflexivity|reflexivity].
  cbn [emit Nat.eqb]. now rewrite emit_shift.
Qed.

Definition block_bytes (c : bytes * nat) : bytes := skipn (8 - snd c) (fst c).

Lemma b58_decode_nil : b58_decode [] = Ok [].
Proof. reflexivity. Qed.

Lemma b58_decode_tail t : (0 < length t <= 11)%nat ->
  b58_decode t =
  match decode_block t with Ok c => Ok (block_bytes c) | Err e => Err e | Panic => Panic end.
Proof.
  intros H. unfold b58_decode. rewrite chunks_short by lia. cbn [map collect].
  destruct (decode_block t) as [c|e|]; [|reflexivity|reflexivity].
  cbn [flat_map]. now rewrite app_nil_r.
Qed.

Lemma b58_decode_full a r : length a = 11%nat ->
  b58_decode (a ++ r) =
  match decode_block a with
  | Ok c => match b58_decode r with Ok x => Ok (block_bytes c ++ x) | Err e => Err e | Panic => Panic end
  | Err e => Err e
  | Panic => Panic
  end.
Proof.
  intros Ha. unfold b58_decode. rewrite chunks_app_full by lia. cbn [map collect].
  destruct (decode_block a) as [c|e|]; [|reflexivity|reflexivity].
  destruct (collect (map decode_block (chunks 11 r))) as [bl|e|]; reflexivity.
Qed.

(* ------------------------------------------------------------------------------------------------ *)
(* main theorems                                                                                      *)

(* every byte string has a text, and the text decodes to the byte string *)
Theorem b58_decode_encode : forall b, exists s, b58_encode b = Ok s /\ b58_decode s = Ok b.
Proof.
  apply (chunk_ind 8); [lia| |].
  - intros t Ht. destruct t as [|x t']; [exists []; split; reflexivity|].
    set (t := x :: t') in *. assert (Hl : (0 < length t < 8)%nat) by (subst t; cbn [length] in *; lia).
    exists (enc_k (sz (length t)) (be2n t)). split; [now apply b58_encode_tail|].
    destruct (sz_facts (length t) ltac:(lia)) as (Hs & _ & _).
    rewrite b58_decode_tail by (rewrite enc_k_length; lia).
    pose proof (be2n_lt t) as Hv. unfold lenN in Hv.
    rewrite decode_block_enc by (lia || assumption). unfold block_bytes. cbn [fst snd].
    rewrite skipn_n2be8 by (lia || assumption). now rewrite n2be_be2n.
  - intros a r Ha (s & He & Hd). exists (enc_k 11 (be2n a) ++ s). split.
    + rewrite b58_encode_full by assumption. now rewrite He.
    + rewrite b58_decode_full by apply enc_k_length.
      pose proof (be2n_lt a) as Hv. unfold lenN in Hv. rewrite Ha in Hv.
      change 11%nat with (sz 8). rewrite decode_block_enc by (lia || assumption).
      rewrite Hd. unfold block_bytes. cbn [fst snd Nat.sub skipn]. now rewrite <- Ha, n2be_be2n.
Qed.

(* whatever decodes is the text of its bytes: no byte string has a second accepted spelling *)
Theorem b58_encode_decode : forall s b, b58_decode s = Ok b -> b58_encode b = Ok s.
Proof.
  intros s. pattern s. apply (chunk_ind 11); [lia| |].
  - intros t Ht b H. destruct t as [|x t']; [injection H as <-; reflexivity|].
    set (t := x :: t') in *. assert (Hl : (0 < length t < 11)%nat) by (subst t; cbn [length] in *; lia).
    rewrite b58_decode_tail in H by lia.
    destruct (decode_block t) as [[d size]|e|] eqn:E; try discriminate. injection H as <-.
    apply decode_block_inv in E. destruct E as (Hs8 & Hsz & v & Hv & -> & Henc).
    unfold block_bytes. cbn [fst snd]. rewrite skipn_n2be8 by assumption.
    assert (Hsize : (0 < size < 8)%nat).
    { destruct size as [|size]; [change (sz 0) with 0%nat in Hsz; lia|].
      do 7 (destruct size as [|size]; [lia|]). destruct size; [change (sz 8) with 11%nat in Hsz; lia|lia]. }
    rewrite b58_encode_tail by (rewrite n2be_length; lia).
    rewrite n2be_length, be2n_n2be by assumption. now rewrite Hsz, Henc.
  - intros a r Ha IH b H. rewrite b58_decode_full in H by assumption.
    destruct (decode_block a) as [[d size]|e|] eqn:E; try discriminate.
    destruct (b58_decode r) as [x|e|] eqn:Er; try discriminate. injection H as <-.
    apply decode_block_inv in E. destruct E as (Hs8 & Hsz & v & Hv & -> & Henc).
    assert (size = 8%nat).
    { rewrite Ha in Hsz. do 8 (destruct size as [|size]; [vm_compute in Hsz; lia|]). destruct size; [reflexivity|lia]. }
    subst size. unfold block_bytes. cbn [fst snd Nat.sub skipn].
    rewrite b58_encode_full by apply n2be_length. rewrite (IH x eq_refl).
    rewrite be2n_n2be by assumption. now rewrite <- Ha, Henc.
Qed.

Lemma b58_encode_never_fails b : exists s, b58_encode b = Ok s.
Proof. destruct (b58_decode_encode b) as (s & H & _). eauto. Qed.

Lemma collect_never_panics {A} (l : list (res A)) : Forall (fun r => r <> Panic) l -> collect l <> Panic.
Proof.
  induction 1 as [|r t Hr Ht IH]; [discriminate|].
  cbn [collect]. destruct r as [a|e|]; [|discriminate|congruence].
  destruct (collect t); [discriminate|discriminate|congruence].
Qed.

Lemma b58_decode_never_panics s : b58_decode s <> Panic.
Proof.
  unfold b58_decode.
  assert (H : collect (map decode_block (chunks 11 s)) <> Panic).
  { apply collect_never_panics, Forall_map, Forall_forall. intros x _. apply decode_block_never_panics. }
  destruct (collect _); [discriminate|discriminate|congruence].
Qed.

(* injectivity of the text: different byte strings never share a text *)
Lemma b58_encode_inj b1 b2 s : b58_encode b1 = Ok s -> b58_encode b2 = Ok s -> b1 = b2.
Proof.
  intros H1 H2. destruct (b58_decode_encode b1) as (s1 & E1 & D1).
  destruct (b58_decode_encode b2) as (s2 & E2 & D2). congruence.
Qed.

(* what the decoder refuses, stated positively: a text is accepted iff it is the text of some byte string *)
Lemma b58_decode_accepts_iff s : (exists b, b58_decode s = Ok b) <-> (exists b, b58_encode b = Ok s).
Proof.
  split; intros [b H].
  - exists b. now apply b58_encode_decode.
  - exists b. destruct (b58_decode_encode b) as (s' & E & D). congruence.
Qed.

(* ---- statements as used by Props/C12.v ---------------------------------------------------------- *)
Lemma enc_dec_k_alphabet s : (length s <= 11)%nat -> Forall (fun c => In c alphabet) s ->
  exists v, dec_k s = Some v /\ v < 58 ^ lenN s /\ enc_k (length s) v = s.
Proof.
  intros Hl Hs. destruct (dec_k_total s Hl Hs) as [v Hv]. exists v. split; [assumption|].
  destruct (enc_dec_k s v Hl Hv). auto.
Qed.

Lemma dec_k_outside_alphabet s : (length s <= 11)%nat -> ~ Forall (fun c => In c alphabet) s -> dec_k s = None.
Proof.
  intros Hl Hn. destruct (dec_k s) as [v|] eqn:E; [|reflexivity]. exfalso. apply Hn.
  destruct (enc_dec_k s v Hl E) as [<- _]. apply enc_k_alphabet.
Qed.

Lemma enc_k_digits k n : enc_k k n = rev (map b58_char (rdigits k n)).
Proof. unfold enc_k. rewrite enc_loop_spec. apply app_nil_r. Qed.

Lemma alphabet_table :
  alphabet = [x31; x32; x33; x34; x35; x36; x37; x38; x39;
              x41; x42; x43; x44; x45; x46; x47; x48; x4a; x4b; x4c; x4d; x4e; x50; x51; x52; x53; x54; x55; x56;
              x57; x58; x59; x5a;
              x61; x62; x63; x64; x65; x66; x67; x68; x69; x6a; x6b; x6d; x6e; x6f; x70; x71; x72; x73; x74; x75;
              x76; x77; x78; x79; x7a] /\ NoDup alphabet.
Proof.
  split; [reflexivity|].
  assert (Hd : forall l : bytes, (fix nodupb (l : bytes) : bool :=
                 match l with [] => true | x :: t => negb (existsb (Byte.eqb x) t) && nodupb t end) l = true ->
               NoDup l).
  { induction l as [|x t IH]; intros Hb; [constructor|]. apply andb_prop in Hb. destruct Hb as [H1 H2].
    constructor; [|now apply IH]. intros Hin. apply negb_true_iff in H1.
    assert (existsb (Byte.eqb x) t = true); [|congruence].
    apply existsb_exists. exists x. split; [assumption|]. apply (Byte.byte_dec_lb (eq_refl x)). }
  apply Hd. vm_compute. reflexivity.
Qed.

(* the recursion equations that determine the encoder: Monero's block-wise fixed-width base 58 *)
Lemma b58_encode_equations :
  b58_encode [] = Ok [] /\
  (forall t, (0 < length t < 8)%nat -> b58_encode t = Ok (enc_k (sz (length t)) (be2n t))) /\
  (forall a r, length a = 8%nat ->
     b58_encode (a ++ r) =
     match b58_encode r with Ok x => Ok (enc_k 11 (be2n a) ++ x) | Err e => Err e | Panic => Panic end).
Proof. split; [exact b58_encode_nil|split; [exact b58_encode_tail|exact b58_encode_full]]. Qed.

Lemma b58_encode_length : forall b s, b58_encode b = Ok s ->
  length s = (11 * (length b / 8) + sz (length b mod 8))%nat.
Proof.
  intros b. pattern b. apply (chunk_ind 8); [lia| |].
  - intros t Ht s Hs. destruct t as [|x t']; [injection Hs as <-; reflexivity|].
    set (t := x :: t') in *. assert (Hl : (0 < length t < 8)%nat) by (subst t; cbn [length] in *; lia).
    rewrite b58_encode_tail in Hs by lia. injection Hs as <-. rewrite enc_k_length.
    rewrite Nat.div_small, Nat.mod_small by lia. subst t. cbn [length]. lia.
  - intros a r Ha IH s Hs. rewrite b58_encode_full in Hs by assumption.
    destruct (b58_encode r) as [x|e|] eqn:Er; try discriminate.
    assert (Es : s = enc_k 11 (be2n a) ++ x) by congruence. subst s. clear Hs.
    rewrite app_length, enc_k_length, (IH x eq_refl), app_length, Ha.
    replace ((8 + length r) mod 8)%nat with (length r mod 8)%nat
      by (rewrite Nat.add_comm; change 8%nat with (1 * 8)%nat at 2; now rewrite Nat.mod_add).
    replace ((8 + length r) / 8)%nat with (S (length r / 8))
      by (rewrite Nat.add_comm; change 8%nat with (1 * 8)%nat at 2; rewrite Nat.div_add by lia; lia).
    lia.
Qed.
