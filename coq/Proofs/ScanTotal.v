(* ScanTotal.v — output scanning and key recovery never reach the `Panic` / `SPanic` outcome of Model/Scan.v (C04, the part
   "every operation offered on a successfully parsed object ... output scanning with any key pair and index ranges").
   For every instance of EdLaws and every pair of hashes.  Where a panic path of the model is NOT excluded by the laws
   (H.point.decompress().unwrap() in open_commitment: `H_bytes` is a concrete byte string, an abstract `decompress` may reject
   it) the hypothesis is explicit, discharged for the executable instance (`ed25519_H_decompresses`) and shown to be needed
   (`scan_panics_without_H`, on the toy instance of the laws). *)
From MRS Require Export Proofs.ScanProofs Proofs.ExtraProofs Proofs.ScanToy Model.EdInst.
Open Scope Z_scope.

(* "the result is SOk _ or SErr _" *)
Definition ok_or_err {A} (r : sres A) : Prop := (exists a, r = SOk a) \/ (exists e, r = SErr e).

Lemma ok_or_err_no_panic {A} (r : sres A) : ok_or_err r <-> r <> SPanic.
Proof.
  split.
  - intros [[a ->]|[e ->]]; discriminate.
  - destruct r as [a|e|]; [left; eauto|right; eauto|congruence].
Qed.

(* ---- lists / extra fields (no curve) ------------------------------------------------------------------------------------- *)
Lemma Forall_tl {A} (P : A -> Prop) (l : list A) : Forall P l -> Forall P (tl l).
Proof. intros H. destruct l; [constructor|now inversion H]. Qed.

Lemma Forall_nth_error {A} (P : A -> Prop) (l : list A) k a : Forall P l -> nth_error l k = Some a -> P a.
Proof. intros H Hk. apply nth_error_In in Hk. rewrite Forall_forall in H. now apply H. Qed.

Lemma tx_pubkey_wf vp fs m : Forall (wf_subfield vp) fs -> tx_pubkey fs = Some m -> vp m = true.
Proof.
  induction fs as [|f t IH]; [discriminate|]. intros Hw. inversion Hw as [|f' t' Hf Ht]; subst.
  destruct f; cbn [tx_pubkey]; try (now apply IH). intros H. injection H as <-. now destruct Hf.
Qed.

Lemma tx_additional_wf vp fs ks : Forall (wf_subfield vp) fs -> tx_additional_pubkeys fs = Some ks ->
  Forall (fun k => vp k = true) ks.
Proof.
  induction fs as [|f t IH]; [discriminate|]. intros Hw. inversion Hw as [|f' t' Hf Ht]; subst.
  destruct f; cbn [tx_additional_pubkeys]; try (now apply IH). intros H. injection H as <-.
  destruct Hf as [Hf _]. eapply Forall_impl; [|exact Hf]. intros k Hk. now destruct Hk.
Qed.

Lemma raw_try_parse_total vp raw : exists fs, raw_try_parse vp raw = Ok fs /\ Forall (wf_subfield vp) fs.
Proof.
  destruct (try_parse_total vp raw) as (ok & fs & H). exists fs. unfold raw_try_parse. rewrite H. split; [reflexivity|].
  unfold try_parse in H. now apply parse_loop_wf in H.
Qed.

(* ---- the view tag: a total boolean function of (target, derivation, position), position taken modulo 2^64 ------------------ *)
Section ViewTag.
Variable Hb : bytes -> bytes.

Lemma view_tag_total t rv i :
  check_view_tag Hb t rv i = check_view_tag Hb t rv (i mod 2 ^ 64)%N /\
  check_view_tag Hb t rv i =
    match t with
    | TKey _ => true
    | TTagged _ tag => (tag =? b2n (hd x00 (Hb (view_tag_salt ++ rv ++ enc_varint (i mod 2 ^ 64)%N))))%N
    end /\
  (forall k tag, t = TTagged k tag -> (256 <= tag)%N -> check_view_tag Hb t rv i = false).
Proof.
  split; [|split].
  - destruct t as [k|k tag]; [reflexivity|]. cbn [check_view_tag]. unfold view_tag_of.
    now rewrite N.mod_mod by (apply N.pow_nonzero; discriminate).
  - destruct t; reflexivity.
  - intros k tag -> Htag. cbn [check_view_tag]. unfold view_tag_of. apply N.eqb_neq.
    pose proof (b2n_lt (hd x00 (Hb (view_tag_salt ++ rv ++ enc_varint (i mod 2 ^ 64)%N)))). lia.
Qed.

End ViewTag.

(* ---- totality on accepted keys --------------------------------------------------------------------------------------------- *)
Section ScanTotal.
Context {E : EdOps} {LW : EdLaws E}.
Variable Hs : hs_fun.
Variable Hb : bytes -> bytes.

Notation accepted k := (pk_from_slice k = Ok k).

Lemma accepted_of_valid_pk_b k : valid_pk_b k = true -> accepted k.
Proof.
  unfold valid_pk_b. destruct (pk_from_slice k) as [k'|e|] eqn:H; try discriminate. intros _.
  now rewrite (pk_from_slice_id _ _ H).
Qed.

Lemma key_derive_accepted a K : accepted K -> exists D, key_derive a K = Ok D /\ accepted D.
Proof.
  intros HK. destruct (derivation_accepted a K HK) as (B & HB & _ & ->). eexists. split; [reflexivity|].
  apply pk_from_slice_compress. auto with ed.
Qed.

(* KeyGenerator::from_key: only the transaction key is decompressed; the spend key is carried along unread *)
Lemma from_key_accepted v S K : accepted K -> exists rv, from_key v S K = Ok (S, rv) /\ accepted rv.
Proof.
  intros HK. destruct (key_derive_accepted v K HK) as (D & HD & HDa). exists D. unfold from_key. rewrite HD. now split.
Qed.

Lemma candidate_spend_accepted g i P : accepted P -> exists c, candidate_spend Hs g i P = Ok c /\ accepted c.
Proof. intros HP. unfold candidate_spend. apply pk_sub_accepted; [exact HP|apply pk_from_priv_accepted]. Qed.

(* SubKeyChecker::check_with_key_generator / check: for ANY table *)
Lemma check_with_key_generator_total tb g i P : accepted P ->
  exists c, candidate_spend Hs g i P = Ok c /\ accepted c /\ check_with_key_generator Hs tb g i P = Ok (lookup tb c).
Proof.
  intros HP. destruct (candidate_spend_accepted g i P HP) as (c & Hc & Hca). exists c.
  unfold check_with_key_generator. rewrite Hc. auto.
Qed.

Lemma checker_check_total tb v S i P K : accepted P -> accepted K ->
  exists r, checker_check Hs tb v S i P K = Ok r.
Proof.
  intros HP HK. destruct (from_key_accepted v S K HK) as (rv & Hg & _). unfold checker_check. rewrite Hg. cbn [bindr].
  destruct (check_with_key_generator_total tb (S, rv) i P HP) as (c & _ & _ & ->). eauto.
Qed.

Lemma subkey_check_total tb v S i P K : accepted P ->
  (forall g, exists r, check_with_key_generator Hs tb g i P = Ok r) /\
  (accepted K -> exists r, checker_check Hs tb v S i P K = Ok r).
Proof.
  intros HP. split.
  - intros g. destruct (check_with_key_generator_total tb g i P HP) as (c & _ & _ & ->). eauto.
  - intros HK. now apply checker_check_total.
Qed.

(* SubKeyChecker::new *)
Lemma table_rows_total v S idxs : accepted S -> exists t, table_rows Hs v S idxs = Ok t.
Proof.
  intros HS. induction idxs as [|i r [t IH]]; [now exists []|].
  destruct (public_keys_accepted Hs v S i HS) as (vw & sp & _ & Hsp & _).
  cbn [table_rows]. rewrite Hsp, IH. cbn [bindr]. eauto.
Qed.

Lemma checker_new_total v S a b c d : accepted S -> exists t, checker_new Hs v S a b c d = Ok t.
Proof. intros HS. unfold checker_new. now apply table_rows_total. Qed.

(* the closure check_key and the or_else over the additional key *)
Lemma check_key_total tb v S i o K : accepted K -> exists r, check_key Hs Hb tb v S i o K = Ok r.
Proof.
  intros HK. unfold check_key. destruct (as_one_time_key (o_target o)) as [P|] eqn:HP; [|eauto].
  destruct (as_one_time_key_some _ _ HP) as [_ HPa].
  destruct (from_key_accepted v S K HK) as (rv & -> & _). cbn [bindr].
  destruct (negb _); [eauto|].
  destruct (check_with_key_generator_total tb (S, rv) i P HPa) as (c & _ & _ & ->). cbn [bindr].
  destruct (lookup tb c); eauto.
Qed.

Lemma check_output_total tb v S i o main add : accepted main -> (forall a, add = Some a -> accepted a) ->
  exists r, check_output Hs Hb tb v S i o main add = Ok r /\ (forall idx key, r = Some (idx, key) -> accepted key).
Proof.
  intros Hm Ha. unfold check_output. destruct (check_key_total tb v S i o main Hm) as (r1 & H1). rewrite H1. cbn [bindr].
  destruct r1 as [[idx key]|].
  - eexists. split; [reflexivity|]. intros idx' key' Heq. injection Heq as <- <-.
    destruct (check_key_inv _ _ _ _ _ _ _ _ _ _ H1) as [-> _]. exact Hm.
  - destruct add as [a|].
    + destruct (check_key_total tb v S i o a (Ha a eq_refl)) as (r2 & H2). exists r2. split; [exact H2|].
      intros idx key ->. destruct (check_key_inv _ _ _ _ _ _ _ _ _ _ H2) as [-> _]. now apply Ha.
    + exists None. split; [reflexivity|discriminate].
Qed.

(* ---- the opening step: the only unwrap left is H.point.decompress() ------------------------------------------------------------ *)
Definition H_decompresses : Prop := exists Hp : point, decompress Ed25519.H_bytes = Some Hp.

Lemma open_commitment_total e v S K i C : H_decompresses -> accepted K ->
  exists r, open_commitment Hs Hb e v S K i C = Ok r.
Proof.
  intros [Hp HH] HK. unfold open_commitment, shared_scalar.
  destruct (from_key_accepted v S K HK) as (rv & -> & _). cbn [bindr].
  unfold open_with. destruct (ecdh_decode Hs Hb e _) as [a y]. unfold H_pt, pk_point. rewrite HH. cbn [bindr].
  destruct (peqb _ _); eauto.
Qed.

Lemma opening_step_no_panic rct e c v S i K : H_decompresses -> accepted K ->
  ok_or_err (opening_step Hs Hb rct e c v S i K).
Proof.
  intros HH HK. unfold opening_step, ok_or_err. destruct rct as [bs|]; [|left; eauto].
  destruct (rb_type bs); try (left; eauto; fail);
    (destruct e as [e0|]; [|right; eauto]; destruct c as [c0|]; [|right; eauto];
     destruct (decompress c0) as [C|]; [|right; eauto];
     destruct (open_commitment_total e0 v S K i C HH HK) as (r & ->); destruct r; [left|right]; eauto).
Qed.

(* ---- the loop ---------------------------------------------------------------------------------------------------------------------- *)
Lemma scan_outputs_no_panic tb v S rct main outs : H_decompresses -> accepted main ->
  forall i adds ecdhs outpks, Forall (fun k => accepted k) adds ->
  ok_or_err (scan_outputs Hs Hb tb v S rct main i outs adds ecdhs outpks).
Proof.
  intros HH Hm. induction outs as [|o rest IH]; intros i adds ecdhs outpks Ha; [left; now exists []|].
  cbn [scan_outputs]. rewrite !uncons_spec.
  destruct (check_output_total tb v S i o main (nth_error adds 0) Hm) as (r & Hr & Hkey).
  { intros a Hn. exact (Forall_nth_error _ _ _ _ Ha Hn). }
  rewrite Hr. pose proof (IH (i + 1)%N (tl adds) (tl ecdhs) (tl outpks) (Forall_tl _ _ Ha)) as Hrec.
  destruct r as [[idx key]|]; [|exact Hrec].
  destruct (opening_step_no_panic rct (nth_error ecdhs 0) (nth_error outpks 0) v S i key HH (Hkey _ _ eq_refl)) as [[op ->]|[e ->]];
    [|right; eauto].
  destruct Hrec as [[l ->]|[e ->]]; [left|right]; eauto.
Qed.

(* every reported transaction key is an accepted key *)
Lemma scan_outputs_keys_accepted tb v S rct main outs i adds ecdhs outpks l :
  accepted main -> Forall (fun k => accepted k) adds ->
  scan_outputs Hs Hb tb v S rct main i outs adds ecdhs outpks = SOk l ->
  forall w, In w l -> accepted (ow_key w).
Proof.
  intros Hm Ha H w Hw.
  destruct (scan_outputs_inv _ _ _ _ _ _ _ _ _ _ _ _ _ H w Hw) as (k & o & _ & _ & _ & Hc & _).
  destruct (check_output_cases _ _ _ _ _ _ _ _ _ _ _ Hc) as [[_ ->]|(_ & Hadd & _)]; [exact Hm|].
  exact (Forall_nth_error _ _ _ _ Ha Hadd).
Qed.

(* ---- the extra field of ANY prefix yields accepted keys ---------------------------------------------------------------------------- *)
Lemma parsed_keys_accepted raw fields : raw_try_parse valid_pk_b raw = Ok fields ->
  (forall m, tx_pubkey fields = Some m -> accepted m) /\ Forall (fun k => accepted k) (adds_of fields).
Proof.
  intros H. destruct (raw_try_parse_total valid_pk_b raw) as (fs & Hfs & Hw). rewrite Hfs in H. injection H as ->. split.
  - intros m Hm. apply accepted_of_valid_pk_b. exact (tx_pubkey_wf _ _ _ Hw Hm).
  - unfold adds_of. destruct (tx_additional_pubkeys fields) as [ks|] eqn:Hk; [|constructor].
    eapply Forall_impl; [|exact (tx_additional_wf _ _ _ Hw Hk)]. intros k. apply accepted_of_valid_pk_b.
Qed.

(* ---- the entry points ---------------------------------------------------------------------------------------------------------------- *)
(* check_outputs_with: ANY table, ANY stored spend-key bytes (they are never decompressed on this path) *)
Lemma check_outputs_with_no_panic tb v S p rct : H_decompresses ->
  ok_or_err (check_outputs_with Hs Hb tb v S p rct).
Proof.
  intros HH. unfold check_outputs_with.
  destruct (raw_try_parse_total valid_pk_b (extra p)) as (fs & Hfs & _). rewrite Hfs.
  destruct (parsed_keys_accepted _ _ Hfs) as [Hm Ha].
  destruct (tx_pubkey fs) as [main|]; [|right; eauto].
  apply scan_outputs_no_panic; auto.
Qed.

Lemma prefix_check_outputs_no_panic v S a b c d p rct : H_decompresses -> accepted S ->
  ok_or_err (prefix_check_outputs Hs Hb v S a b c d p rct).
Proof.
  intros HH HS. unfold prefix_check_outputs. destruct (checker_new_total v S a b c d HS) as (t & ->).
  now apply check_outputs_with_no_panic.
Qed.

Lemma scan_entry_points_no_panic v S : accepted S -> H_decompresses -> forall a b c d,
  (exists tb, checker_new Hs v S a b c d = Ok tb) /\
  (forall p rct, ok_or_err (prefix_check_outputs Hs Hb v S a b c d p rct)) /\
  (forall t, ok_or_err (tx_check_outputs Hs Hb v S a b c d t)) /\
  (forall tb p rct, checker_new Hs v S a b c d = Ok tb -> ok_or_err (check_outputs_with Hs Hb tb v S p rct)) /\
  (forall tb t, checker_new Hs v S a b c d = Ok tb -> ok_or_err (tx_check_outputs_with Hs Hb tb v S t)).
Proof.
  intros HS HH a b c d. split; [now apply checker_new_total|]. split; [|split; [|split]].
  - intros p rct. now apply prefix_check_outputs_no_panic.
  - intros t. unfold tx_check_outputs. now apply prefix_check_outputs_no_panic.
  - intros tb p rct _. now apply check_outputs_with_no_panic.
  - intros tb t _. unfold tx_check_outputs_with. now apply check_outputs_with_no_panic.
Qed.

Lemma scan_any_table_no_panic : H_decompresses -> forall tb v S,
  (forall p rct, ok_or_err (check_outputs_with Hs Hb tb v S p rct)) /\
  (forall t, ok_or_err (tx_check_outputs_with Hs Hb tb v S t)).
Proof.
  intros HH tb v S. split.
  - intros p rct. now apply check_outputs_with_no_panic.
  - intros t. unfold tx_check_outputs_with. now apply check_outputs_with_no_panic.
Qed.

(* ---- operations on the owned outputs that a scan returns -------------------------------------------------------------------------------- *)
Lemma check_outputs_with_keys_accepted tb v S p rct l w :
  check_outputs_with Hs Hb tb v S p rct = SOk l -> In w l -> accepted (ow_key w).
Proof.
  unfold check_outputs_with. destruct (raw_try_parse valid_pk_b (extra p)) as [fs|e|] eqn:Hfs; try discriminate.
  destruct (parsed_keys_accepted _ _ Hfs) as [Hm Ha].
  destruct (tx_pubkey fs) as [main|]; [|discriminate]. intros H Hw.
  eapply scan_outputs_keys_accepted; [exact (Hm _ eq_refl)|exact Ha|exact H|exact Hw].
Qed.

Lemma prefix_scan_is_with v S a b c d p rct l : prefix_check_outputs Hs Hb v S a b c d p rct = SOk l ->
  exists tb, checker_new Hs v S a b c d = Ok tb /\ check_outputs_with Hs Hb tb v S p rct = SOk l.
Proof.
  unfold prefix_check_outputs. destruct (checker_new Hs v S a b c d) as [tb|e|]; try discriminate. intros H. now exists tb.
Qed.

(* recover_key with ANY key pair (the scanning wallet's or not) on an output whose transaction key is accepted *)
Lemma recover_key_total w v' s' : accepted (ow_key w) ->
  exists g, from_key v' (pk_from_priv s') (ow_key w) = Ok g /\
            owned_recover_key Hs v' s' w = Ok (recover Hs v' s' g (ow_pos w) (ow_index w)).
Proof.
  intros HK. destruct (from_key_accepted v' (pk_from_priv s') (ow_key w) HK) as (rv & Hg & _).
  exists (pk_from_priv s', rv). split; [exact Hg|]. unfold owned_recover_key, recoverer_new. now rewrite Hg.
Qed.

Lemma owned_ops_total :
  (forall tb v S p rct l w, check_outputs_with Hs Hb tb v S p rct = SOk l -> In w l ->
     accepted (ow_key w) /\
     forall v' s', exists g, from_key v' (pk_from_priv s') (ow_key w) = Ok g /\
                             owned_recover_key Hs v' s' w = Ok (recover Hs v' s' g (ow_pos w) (ow_index w))) /\
  (forall v S a b c d p rct l w, prefix_check_outputs Hs Hb v S a b c d p rct = SOk l -> In w l ->
     accepted (ow_key w) /\
     forall v' s', exists g, from_key v' (pk_from_priv s') (ow_key w) = Ok g /\
                             owned_recover_key Hs v' s' w = Ok (recover Hs v' s' g (ow_pos w) (ow_index w))) /\
  (forall v s a b c d p rct l w, prefix_check_outputs Hs Hb v (pk_from_priv s) a b c d p rct = SOk l -> In w l ->
     exists x, owned_recover_key Hs v s w = Ok x /\ as_one_time_key (o_target (ow_out w)) = Some (pk_from_priv x)).
Proof.
  split; [|split].
  - intros tb v S p rct l w H Hw. pose proof (check_outputs_with_keys_accepted _ _ _ _ _ _ _ H Hw) as HK.
    split; [exact HK|]. intros v' s'. now apply recover_key_total.
  - intros v S a b c d p rct l w H Hw. destruct (prefix_scan_is_with _ _ _ _ _ _ _ _ _ H) as (tb & _ & H').
    pose proof (check_outputs_with_keys_accepted _ _ _ _ _ _ _ H' Hw) as HK.
    split; [exact HK|]. intros v' s'. now apply recover_key_total.
  - intros v s a b c d p rct l w H Hw.
    destruct (owned_recover Hs Hb _ _ _ _ _ _ _ _ _ _ H Hw) as (g & x & _ & Hx & _ & Ht). now exists x.
Qed.

End ScanTotal.

(* ---- the hypothesis on H ------------------------------------------------------------------------------------------------------------------- *)
(* it holds in the executable instance: CompressedEdwardsY(H_bytes).decompress() succeeds, with these affine coordinates
   (one kernel evaluation of the square root, about 30 s, at Qed) *)
Definition H_affine : @point ed25519_ops :=
  Ed25519.mkpt 44115840154693352731557989475342686826820046586146704265789981914775973517427
               9102111593045260626123023279363907201838477468971026384621755002289944880523
               1
               45035627625256346993259834415070860711967380454398467193881681167533463681117.

Lemma ed25519_H_decompresses : @decompress ed25519_ops Ed25519.H_bytes = Some H_affine /\ @H_decompresses ed25519_ops.
Proof.
  assert (H : @decompress ed25519_ops Ed25519.H_bytes = Some H_affine) by (vm_cast_no_check (eq_refl (Some H_affine))).
  split; [exact H|]. now exists H_affine.
Qed.

(* it does NOT follow from the laws: in the toy instance (Z/l, 32-byte little-endian encodings below l) H_bytes is not an
   encoding, and the toy scan of Proofs/ScanToy.v with a RingCT base attached reaches the unwrap *)
Definition toy_rct : rct_base := mk_base RClsag 0 [] [EBulletproof [x00; x00; x00; x00; x00; x00; x00; x00]] [toy_P0].

(* (vm_compute on a goal whose TYPE mentions the instance would normalise the instance's functions: go through booleans) *)
Definition is_spanic {A} (r : sres A) : bool := match r with SPanic => true | _ => false end.
Definition is_sok {A} (r : sres A) : bool := match r with SOk _ => true | _ => false end.
Lemma is_spanic_eq {A} (r : sres A) : is_spanic r = true -> r = SPanic.
Proof. destruct r; [discriminate|discriminate|reflexivity]. Qed.
Lemma is_sok_eq {A} (r : sres A) : is_sok r = true -> exists l, r = SOk l.
Proof. destruct r as [l| |]; [now exists l|discriminate|discriminate]. Qed.

Lemma scan_panics_without_H :
  @decompress toy_ops Ed25519.H_bytes = None /\
  @prefix_check_outputs toy_ops toyHs toyHb toy_v toy_Sb 0 1 0 2 toy_prefix (Some toy_rct) = SPanic /\
  (exists l, @prefix_check_outputs toy_ops toyHs toyHb toy_v toy_Sb 0 1 0 2 toy_prefix None = SOk l).
Proof.
  split; [vm_compute; reflexivity|split].
  - apply is_spanic_eq. vm_compute. reflexivity.
  - apply is_sok_eq. vm_compute. reflexivity.
Qed.

(* ---- the hypotheses together are satisfiable ------------------------------------------------------------------------------------------------ *)
(* Z/l again, but with a LENIENT decompress (any 32 bytes, reduced modulo l - as dalek's decompress reduces y modulo p); accepted
   keys are still the canonical encodings, because pk_from_slice re-compresses.  It satisfies the laws and decodes H_bytes. *)
Definition toyH_ops : EdOps := {|
  point := Z;
  pzero := 0;
  padd := fun a b => (a + b) mod ell;
  pneg := fun a => (- a) mod ell;
  smul := fun k a => (k * a) mod ell;
  G := 1;
  compress := fun a => z2le 32 a;
  decompress := fun b => if Nat.eqb (List.length b) 32 then Some (le2z b mod ell) else None;
  peqb := Z.eqb;
  valid := fun a => 0 <= a < ell;
  tors := fun _ => 0
|}.

Lemma toyH_laws : EdLaws toyH_ops.
Proof.
  pose proof ell_lt as Hl. pose proof toy_laws as L. destruct L.
  constructor; try assumption; cbn [point compress decompress valid toyH_ops].
  - intros P HP. rewrite z2le_length, le2z_z2le32 by lia. cbn [Nat.eqb]. now rewrite Z.mod_small.
  - intros b P. destruct (Nat.eqb _ _); [|discriminate]. intros H. injection H as <-. apply Z.mod_pos_bound. lia.
Qed.

Lemma scan_hyps_satisfiable :
  exists (E : EdOps) (LW : EdLaws E) (S : bytes), @pk_from_slice E S = Ok S /\ @H_decompresses E.
Proof.
  exists toyH_ops, toyH_laws, (@compress toyH_ops (@G toyH_ops)). split.
  - apply (@pk_from_slice_compress toyH_ops toyH_laws). apply (@valid_G toyH_ops toyH_laws).
  - exists (le2z Ed25519.H_bytes mod ell). reflexivity.
Qed.
