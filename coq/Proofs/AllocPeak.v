(* AllocPeak.v — C04: PEAK of the live heap reservations of the consensus decoders, for EVERY input (also when parsing fails
   midway: a huge declared length, the reservation made, then EOF).

   1. An instrumented cursor monad `idec A := bytes -> (live, peak) -> (res A * bytes) * (live, peak)`: the decoders of
      Model/Codec.v re-stated with the allocation events of the Rust code:
        ivec / isized   `Vec::with_capacity(len)` after the cap test: `ialloc (size_of T * len)`, then the element loop;
        igrow           `let mut v = vec![]; for .. { v.push(decode()?) }` and `iter.map(decode).collect::<Result<Vec<_>,_>>()`
                        (ringct.rs: ecdh_info, Clsags, Clsag.s, MGs, MgSig.ss; transaction.rs: v1 signatures): amortised
                        doubling of std's RawVec (first allocation 4 elements, then 2 * capacity; while the buffer is
                        re-allocated the old and the new buffer are live together);
      nothing is freed on the success path except the old buffers of growing vectors (all values are kept in the parsed
      object); on an error the run stops (Rust then only drops), so the recorded peak is the peak of the whole call.
   2. Erasure: forgetting the instrumentation gives exactly the decoders of Model/Codec.v (`Erases`, er_tx / er_block).
   3. `PK i C K cred`: the accounting invariant.  rho bytes of budget per input byte; a state with `live + C + rho * |rest|
      <= B0` has credit C.  A decoder never lets the live heap exceed `B0 + K` and, when it succeeds, hands on the credit
      `cred a`.  Reservations of capped vectors are NOT paid in advance: they are the `K` (32 MiB per nesting level), and are
      paid by the elements once these have been read.
   4. peak_tx / peak_block: peak <= 2 * 32 MiB + A + rho * |input| for all inputs, all size tables, all rho with `rho_ok`;
      `rho_of` computes such a rho from the tables (33 for the real ones). *)
From MRS Require Export Proofs.Robust.
Open Scope N_scope.

(* ---- 1. the instrumented monad ------------------------------------------------------------------------------------------- *)
Definition meas := (N * N)%type.                      (* (live bytes, peak of live bytes) *)
Definition idec (A : Type) := bytes -> meas -> (res A * bytes) * meas.

Definition iret {A} (a : A) : idec A := fun s m => ((Ok a, s), m).
Definition ifail {A} (e : err) : idec A := fun s m => ((Err e, s), m).
Definition ilift {A} (d : dec A) : idec A := fun s m => (d s, m).      (* a decoder that does not touch the heap *)
Definition ibind {A B} (d : idec A) (k : A -> idec B) : idec B :=
  fun s m => match d s m with
             | ((Ok a, r), m') => k a r m'
             | ((Err e, r), m') => ((Err e, r), m')
             | ((Panic, r), m') => ((Panic, r), m')
             end.
Notation "x <~ d ;; k" := (ibind d (fun x => k)) (at level 61, d at next level, right associativity).

Definition ialloc (q : N) : idec unit :=
  fun s m => ((Ok tt, s), (fst m + q, N.max (snd m) (fst m + q))).
Definition ifree (q : N) : idec unit :=
  fun s m => ((Ok tt, s), (fst m - q, snd m)).

Fixpoint irepn {A} (n : nat) (d : idec A) : idec (list A) :=
  match n with
  | O => iret []
  | S n' => a <~ d ;; t <~ irepn n' d ;; iret (a :: t)
  end.

(* Vec<T>::consensus_decode / Box<[T]>: length, cap test, Vec::with_capacity(len), len pushes (never re-allocates) *)
Definition ivec {A} (size : N) (d : idec A) : idec (list A) :=
  n <~ ilift dec_len ;;
  if over_cap size n then ifail EBad else _ <~ ialloc (size * n) ;; irepn (N.to_nat n) d.
(* consensus_decode_sized_vec *)
Definition isized {A} (size : N) (n : N) (d : idec A) : idec (list A) :=
  if over_cap size n then ifail EBad else _ <~ ialloc (size * n) ;; irepn (N.to_nat n) d.

(* capacity of a Vec grown by push from `vec![]` after i pushes: RawVec::grow_amortized, max(4, 2 * cap) when full
   (MIN_NON_ZERO_CAP = 4 for element sizes 2..1024) *)
Fixpoint gcap (i : nat) : N :=
  match i with
  | O => 0
  | S j => if N.of_nat j <? gcap j then gcap j else N.max 4 (2 * gcap j)
  end.
(* the i-th push (i elements already in the vector): when full, the new buffer is allocated, then the old one is freed *)
Definition ipush (esize : N) (i : nat) : idec unit :=
  if N.of_nat i <? gcap i then iret tt
  else _ <~ ialloc (esize * gcap (S i)) ;; ifree (esize * gcap i).
Fixpoint igrown {A} (esize : N) (i n : nat) (d : idec A) : idec (list A) :=
  match n with
  | O => iret []
  | S n' => a <~ d ;; _ <~ ipush esize i ;; t <~ igrown esize (S i) n' d ;; iret (a :: t)
  end.
Definition igrow {A} (esize : N) (n : N) (d : idec A) : idec (list A) := igrown esize 0 (N.to_nat n) d.

(* ---- 2. erasure ------------------------------------------------------------------------------------------------------------ *)
Definition Erases {A} (i : idec A) (d : dec A) : Prop := forall s m, fst (i s m) = d s.

Lemma er_ret {A} (a : A) : Erases (iret a) (ret a).
Proof. intros s m. reflexivity. Qed.
Lemma er_fail {A} e : Erases (@ifail A e) (fail e).
Proof. intros s m. reflexivity. Qed.
Lemma er_lift {A} (d : dec A) : Erases (ilift d) d.
Proof. intros s m. reflexivity. Qed.
Lemma er_bind {A B} (i : idec A) d (k : A -> idec B) k' :
  Erases i d -> (forall a, Erases (k a) (k' a)) -> Erases (ibind i k) (bind d k').
Proof.
  intros H1 H2 s m. unfold ibind, bind. specialize (H1 s m).
  destruct (i s m) as [[[a|e|] r] m']; cbn [fst] in H1; rewrite <- H1; [apply H2|reflexivity|reflexivity].
Qed.
Lemma er_alloc {A} q (i : idec A) d : Erases i d -> Erases (_ <~ ialloc q ;; i) d.
Proof. intros H s m. unfold ibind, ialloc. apply H. Qed.
Lemma er_repn {A} (i : idec A) d : Erases i d -> forall n, Erases (irepn n i) (repn n d).
Proof.
  intros H. induction n as [|n IH]; cbn [irepn repn]; [apply er_ret|].
  apply er_bind; [exact H|]. intros a. apply er_bind; [exact IH|]. intros t. apply er_ret.
Qed.
Lemma er_ext {A} (i : idec A) d d' : Erases i d -> (forall s, d s = d' s) -> Erases i d'.
Proof. intros H E s m. rewrite <- E. apply H. Qed.
Lemma er_rep {A} (i : idec A) d n : Erases i d -> Erases (irepn (N.to_nat n) i) (rep n d).
Proof. intros H. apply (er_ext _ (repn (N.to_nat n) d)); [now apply er_repn|]. intros s. now rewrite rep_repn. Qed.
Lemma er_vec {A} (i : idec A) d size : Erases i d -> Erases (ivec size i) (dec_vec size d).
Proof.
  intros H. unfold ivec, dec_vec. apply er_bind; [apply er_lift|]. intros n.
  destruct (over_cap size n); [apply er_fail|]. apply er_alloc. now apply er_rep.
Qed.
Lemma er_sized {A} (i : idec A) d size n : Erases i d -> Erases (isized size n i) (dec_sized size n d).
Proof.
  intros H. unfold isized, dec_sized. destruct (over_cap size n); [apply er_fail|]. apply er_alloc. now apply er_rep.
Qed.
Lemma er_push esize i s m : fst (ipush esize i s m) = (Ok tt, s).
Proof. unfold ipush. destruct (N.of_nat i <? gcap i); reflexivity. Qed.
Lemma er_grown {A} (i : idec A) d esize : Erases i d -> forall n j, Erases (igrown esize j n i) (repn n d).
Proof.
  intros H. induction n as [|n IH]; intros j; cbn [igrown repn]; [apply er_ret|].
  apply er_bind; [exact H|]. intros a s m. unfold ibind at 1.
  pose proof (er_push esize j s m) as E. destruct (ipush esize j s m) as [[rs r] m']. cbn [fst] in E. inversion E; subst.
  exact (er_bind _ _ _ _ (IH (S j)) (fun t => er_ret (a :: t)) _ _).
Qed.
Lemma er_grow {A} (i : idec A) d esize n : Erases i d -> Erases (igrow esize n i) (rep n d).
Proof.
  intros H. unfold igrow. apply (er_ext _ (repn (N.to_nat n) d)); [now apply er_grown|]. intros s. now rewrite rep_repn.
Qed.

(* ---- the instrumented decoders (same control flow as Model/Codec.v, allocation events added) ------------------------------ *)
(* mem::size_of of the element types of the GROWING vectors (layout-dependent, like `sizes`):
   EcdhInfo (enum of 2 x [u8;32] / [u8;8], align 1: 65), Vec<Key> (a row of MgSig.ss and a row of v1 signatures: 3 words = 24),
   Clsag (Vec + 2 keys = 88), MgSig (Vec + key = 56).  Key = 32 and Signature = 64 are forced ([u8;32] newtypes). *)
Record gsizes := mk_gsizes { g_ecdh : N; g_row : N; g_clsag : N; g_mgsig : N }.
Definition default_gsizes : gsizes := mk_gsizes 65 24 88 56.

Definition idec_txin : idec txin :=
  t <~ ilift dec_u8 ;;
  if t =? 255 then h <~ ilift dec_varint ;; iret (Gen h)
  else if (t =? 0) || (t =? 1) then ifail EBad
  else if t =? 2 then
    a <~ ilift dec_varint ;; ko <~ ivec 8 (ilift dec_varint) ;; ki <~ ilift dec_hash ;; iret (ToKey a ko ki)
  else ifail EBad.

Definition idec_prefix (sz : sizes) : idec txprefix :=
  v <~ ilift dec_varint ;; u <~ ilift dec_varint ;;
  i <~ ivec (sz_txin sz) idec_txin ;;
  o <~ ivec (sz_txout sz) (ilift dec_txout) ;;
  e <~ ivec 1 (ilift read_u8) ;;
  iret (mk_prefix v u i o e).

Definition idec_bulletproof : idec bulletproof :=
  A <~ ilift dec_hash ;; S <~ ilift dec_hash ;; T1 <~ ilift dec_hash ;; T2 <~ ilift dec_hash ;;
  taux <~ ilift dec_hash ;; mu <~ ilift dec_hash ;;
  L <~ ivec 32 (ilift dec_hash) ;; R <~ ivec 32 (ilift dec_hash) ;;
  a <~ ilift dec_hash ;; b <~ ilift dec_hash ;; t <~ ilift dec_hash ;;
  iret (mk_bp A S T1 T2 taux mu L R a b t).

Definition idec_bpplus : idec bpplus :=
  A <~ ilift dec_hash ;; A1 <~ ilift dec_hash ;; B <~ ilift dec_hash ;; r1 <~ ilift dec_hash ;;
  s1 <~ ilift dec_hash ;; d1 <~ ilift dec_hash ;;
  L <~ ivec 32 (ilift dec_hash) ;; R <~ ivec 32 (ilift dec_hash) ;;
  iret (mk_bpp A A1 B r1 s1 d1 L R).

Definition idec_rct_base (gs : gsizes) (inputs outputs : N) : idec rct_base :=
  t <~ ilift dec_rct_type ;;
  match t with
  | RNull => iret (mk_base RNull 0 [] [] [])
  | _ =>
      fee <~ ilift dec_varint ;;
      po <~ (if rct_type_eqb t RSimple then isized 32 inputs (ilift dec_hash) else iret []) ;;
      ecdh <~ igrow (g_ecdh gs) outputs (ilift (dec_ecdh t)) ;;          (* vec![] + push *)
      opk <~ isized 32 outputs (ilift dec_hash) ;;
      iret (mk_base t fee po ecdh opk)
  end.

Definition idec_clsag (mixin : N) : idec clsag :=
  s <~ igrow 32 (mixin + 1) (ilift dec_hash) ;; c1 <~ ilift dec_hash ;; D <~ ilift dec_hash ;; iret (mk_clsag s c1 D).
Definition idec_mgsig (gs : gsizes) (mixin cols : N) : idec mgsig :=
  ss <~ igrow (g_row gs) (mixin + 1) (isized 32 cols (ilift dec_hash)) ;; cc <~ ilift dec_hash ;; iret (mk_mg ss cc).

Definition idec_rct_prunable (sz : sizes) (gs : gsizes) (t : rct_type) (inputs outputs mixin : N) : idec rct_prunable :=
  proofs <~
    (if is_rct_bp t then
       match t with
       | RBulletproof2 | RClsag =>
           bps <~ ivec (sz_bulletproof sz) idec_bulletproof ;; iret ([], bps, [])
       | _ =>
           n <~ ilift dec_u32 ;; bps <~ isized (sz_bulletproof sz) n idec_bulletproof ;; iret ([], bps, [])
       end
     else if is_rct_bp_plus t then
       bpp <~ ivec (sz_bpplus sz) idec_bpplus ;; iret ([], [], bpp)
     else
       rs <~ isized (sz_rangesig sz) outputs (ilift dec_rangesig) ;; iret (rs, [], [])) ;;
  let '(rs, bps, bpp) := proofs in
  sigs <~
    (if uses_clsag t then
       cl <~ igrow (g_clsag gs) inputs (idec_clsag mixin) ;;
       iret ([], cl)
     else
       let mg_elements := if is_simple_or_bp t then inputs else 1 in
       let cols := if is_simple_or_bp t then 2 else 1 + inputs in
       mgs <~ igrow (g_mgsig gs) mg_elements (idec_mgsig gs mixin cols) ;;
       iret (mgs, [])) ;;
  let '(mgs, cl) := sigs in
  po <~ (if has_p_pseudo t then isized 32 inputs (ilift dec_hash) else iret []) ;;
  iret (mk_prunable rs bps bpp mgs cl po).

(* version 1: `inputs.iter().filter_map(..).collect::<Result<Vec<Vec<Signature>>,_>>()`, each row
   `key_offsets.iter().map(decode).collect::<Result<Vec<Signature>,_>>()`: both collects go through GenericShunt (size_hint
   lower bound 0), i.e. first allocation of 4 elements on the first item, then doubling; `i` rows have been pushed *)
Fixpoint idec_v1_sigs (gs : gsizes) (ins : list txin) (i : nat) : idec (list (list signature)) :=
  match ins with
  | [] => iret []
  | Gen _ :: t => idec_v1_sigs gs t i
  | ToKey _ ko _ :: t =>
      row <~ igrow 64 (lenN ko) (ilift dec_signature) ;; _ <~ ipush (g_row gs) i ;;
      rest <~ idec_v1_sigs gs t (S i) ;; iret (row :: rest)
  end.

Definition idec_tx (sz : sizes) (gs : gsizes) : idec tx :=
  p <~ idec_prefix sz ;;
  let n_in := lenN (inputs p) in
  let n_out := lenN (outputs p) in
  if version p =? 1 then
    sigs <~ idec_v1_sigs gs (inputs p) 0 ;;
    iret (mk_tx p sigs (mk_rct None None))
  else if n_in =? 0 then iret (mk_tx p [] (mk_rct None None))
  else
    sig <~ idec_rct_base gs n_in n_out ;;
    match rb_type sig with
    | RNull => iret (mk_tx p [] (mk_rct (Some sig) None))
    | t =>
        match (match inputs p with
               | ToKey _ ko _ :: _ => if lenN ko =? 0 then None else Some (lenN ko - 1)
               | _ => Some 0
               end) with
        | None => ifail EBad
        | Some mixin =>
            pr <~ idec_rct_prunable sz gs t n_in n_out mixin ;;
            iret (mk_tx p [] (mk_rct (Some sig) (Some pr)))
        end
    end.

Definition idec_block (sz : sizes) (gs : gsizes) : idec block :=
  h <~ ilift dec_header ;; m <~ idec_tx sz gs ;; hs <~ ivec 32 (ilift dec_hash) ;; iret (mk_block h m hs).

(* the peak of the live reservations during one call on input s, starting from an empty heap *)
Definition peak_of {A} (i : idec A) (s : bytes) : N := snd (snd (i s (0, 0))).

(* ---- erasure of the grammar ------------------------------------------------------------------------------------------------- *)
Ltac er1 :=
  first [ apply er_ret | apply er_fail | apply er_lift | assumption | match goal with H : _ |- Erases _ _ => apply H end
        | apply er_vec | apply er_sized | apply er_grow
        | apply er_bind; [|intros ?]
        | match goal with
          | |- Erases (if ?c then _ else _) _ => destruct c
          | |- Erases (let '(_, _) := ?p in _) _ => destruct p
          | |- Erases (match ?x with _ => _ end) _ => destruct x
          end ].
Ltac er := repeat er1.

Lemma er_txin : Erases idec_txin dec_txin.
Proof. unfold idec_txin, dec_txin. er. Qed.
Lemma er_prefix sz : Erases (idec_prefix sz) (dec_prefix sz).
Proof. pose proof er_txin. unfold idec_prefix, dec_prefix, dec_bytes_vec. er. Qed.
Lemma er_bulletproof : Erases idec_bulletproof dec_bulletproof.
Proof. unfold idec_bulletproof, dec_bulletproof. er. Qed.
Lemma er_bpplus : Erases idec_bpplus dec_bpplus.
Proof. unfold idec_bpplus, dec_bpplus. er. Qed.
Lemma er_rct_base gs n_in n_out : Erases (idec_rct_base gs n_in n_out) (dec_rct_base n_in n_out).
Proof. unfold idec_rct_base, dec_rct_base. er. Qed.
Lemma er_clsag mixin : Erases (idec_clsag mixin) (dec_clsag mixin).
Proof. unfold idec_clsag, dec_clsag. er. Qed.
Lemma er_mgsig gs mixin cols : Erases (idec_mgsig gs mixin cols) (dec_mgsig mixin cols).
Proof. unfold idec_mgsig, dec_mgsig. er. Qed.
Lemma er_rct_prunable sz gs t n_in n_out mixin :
  Erases (idec_rct_prunable sz gs t n_in n_out mixin) (dec_rct_prunable sz t n_in n_out mixin).
Proof.
  pose proof er_bulletproof. pose proof er_bpplus. pose proof (er_clsag mixin).
  pose proof (fun c => er_mgsig gs mixin c).
  unfold idec_rct_prunable, dec_rct_prunable. destruct t; cbn [is_rct_bp is_rct_bp_plus uses_clsag is_simple_or_bp has_p_pseudo]; er.
Qed.
Lemma er_v1_sigs gs ins : forall i, Erases (idec_v1_sigs gs ins i) (dec_v1_sigs ins).
Proof.
  induction ins as [|[h|a ko ki] t IH]; intros i; cbn [idec_v1_sigs dec_v1_sigs]; [apply er_ret|apply IH|].
  apply er_bind; [apply er_grow, er_lift|]. intros row s m. unfold ibind at 1.
  pose proof (er_push (g_row gs) i s m) as E. destruct (ipush (g_row gs) i s m) as [[rs r] m']. cbn [fst] in E. inversion E; subst.
  exact (er_bind _ _ _ _ (IH (S i)) (fun rest => er_ret (row :: rest)) _ _).
Qed.
Lemma er_tx sz gs : Erases (idec_tx sz gs) (dec_tx sz).
Proof.
  pose proof (er_prefix sz). pose proof (er_v1_sigs gs). pose proof (er_rct_base gs). pose proof (er_rct_prunable sz gs).
  unfold idec_tx, dec_tx. er.
Qed.
Lemma er_block sz gs : Erases (idec_block sz gs) (dec_block sz).
Proof. pose proof (er_tx sz gs). unfold idec_block, dec_block. er. Qed.

(* ---- 3. the accounting invariant ------------------------------------------------------------------------------------------- *)
Definition CAP : N := MAX_VEC_MEM_ALLOC_SIZE.
Definition consumesN {A} (d : dec A) (k : N) : Prop := forall s a r, d s = (Ok a, r) -> lenN r + k <= lenN s.
Lemma consN {A} (d : dec A) k : consumes d k -> consumesN d (N.of_nat k).
Proof. intros H s a r E. apply H in E. unfold lenN. lia. Qed.

Fixpoint lsum {A} (f : A -> N) (l : list A) : N := match l with [] => 0 | a :: t => f a + lsum f t end.
Definition zero {A} (_ : A) : N := 0.

Lemma gcap_bounds i : N.of_nat i <= gcap i /\ gcap i <= 4 * N.of_nat i.
Proof.
  induction i as [|i [IH1 IH2]]; [cbn; lia|]. cbn [gcap]. rewrite Nat2N.inj_succ.
  destruct (N.of_nat i <? gcap i) eqn:E; [apply N.ltb_lt in E|apply N.ltb_ge in E]; lia.
Qed.

(* credit stored in a growing vector after i pushes: 4 * esize was paid per element, the buffer holds gcap i <= 4 * i slots *)
Definition slk (i : nat) : N := 4 * N.of_nat i - gcap i.

Section Acc.
  Variable rho : N.

  Definition PK {A} (i : idec A) (C K : N) (cred : A -> N) : Prop :=
    forall s L P,
      snd (snd (i s (L, P))) <= N.max P (L + C + K + rho * lenN s) /\
      (forall a, fst (fst (i s (L, P))) = Ok a ->
                 fst (snd (i s (L, P))) + cred a + rho * lenN (snd (fst (i s (L, P)))) <= L + C + rho * lenN s).

  Lemma pk_weaken {A} (i : idec A) C0 K0 c0 C K c :
    PK i C0 K0 c0 -> C0 <= C -> K0 <= K -> (forall a, c a + C0 <= c0 a + C) -> PK i C K c.
  Proof.
    intros H HC HK Hc s L P. destruct (H s L P) as [H1 H2]. split; [lia|].
    intros a E. specialize (H2 a E). specialize (Hc a). lia.
  Qed.
  Lemma pk_K {A} (i : idec A) C K0 K c : PK i C K0 c -> K0 <= K -> PK i C K c.
  Proof. intros H HK. apply (pk_weaken i C K0 c); auto; intros; lia. Qed.
  Lemma pk_cred {A} (i : idec A) C K c0 c : PK i C K c0 -> (forall a, c a <= c0 a) -> PK i C K c.
  Proof. intros H Hc. apply (pk_weaken i C K c0); auto; try lia. intros a. specialize (Hc a). lia. Qed.

  Lemma pk_ret {A} (x : A) C K cred : cred x <= C -> PK (iret x) C K cred.
  Proof. intros H s L P. unfold iret. cbn [fst snd]. split; [lia|]. intros a E. inversion E; subst. lia. Qed.
  Lemma pk_fail {A} e C K (cred : A -> N) : PK (ifail e) C K cred.
  Proof. intros s L P. unfold ifail. cbn [fst snd]. split; [lia|]. intros a E. discriminate E. Qed.
  Lemma pk_lift {A} (d : dec A) k C : consumesN d k -> PK (ilift d) C 0 (fun _ => C + rho * k).
  Proof.
    intros H s L P. unfold ilift. cbn [fst snd]. split; [lia|]. intros a E.
    destruct (d s) as [rs r] eqn:Ed. cbn [fst snd] in *. subst rs. apply H in Ed.
    assert (rho * (lenN r + k) <= rho * lenN s) by (apply N.mul_le_mono_l; exact Ed). lia.
  Qed.

  Lemma pk_bind {A B} (d : idec A) (k : A -> idec B) C K c1 c2 :
    PK d C K c1 -> (forall a, PK (k a) (c1 a) K c2) -> PK (ibind d k) C K c2.
  Proof.
    intros H1 H2 s L P. unfold ibind. destruct (H1 s L P) as [A1 A2].
    destruct (d s (L, P)) as [[[a|e|] r] [L1 P1]]; cbn [fst snd] in *.
    - specialize (A2 a eq_refl). destruct (H2 a r L1 P1) as [B1 B2].
      destruct (k a r (L1, P1)) as [[rs r2] [L2 P2]]; cbn [fst snd] in *. split; [lia|].
      intros b E. specialize (B2 b E). lia.
    - split; [lia|]. intros b E. discriminate E.
    - split; [lia|]. intros b E. discriminate E.
  Qed.

  (* n iterations: every element pays x and hands on ce a *)
  Lemma pk_repn {A} (d : idec A) K x ce :
    (forall C', PK d C' K (fun a => C' + x + ce a)) ->
    forall n C, PK (irepn n d) C K (fun l => C + x * N.of_nat n + lsum ce l).
  Proof.
    intros H. induction n as [|n IH]; intros C; cbn [irepn].
    - apply pk_ret. cbn [lsum]. lia.
    - eapply pk_bind; [apply H|]. intros a. eapply pk_bind; [apply IH|]. intros t. apply pk_ret.
      cbn [lsum]. rewrite Nat2N.inj_succ. lia.
  Qed.

  (* the reservation size * n is made BEFORE anything is read: it is covered by K (<= CAP), and paid by the elements at the end *)
  Lemma pk_reserve {A} (d : idec A) K size y ce n C :
    size * n <= CAP ->
    (forall C', PK d C' K (fun a => C' + (size + y) + ce a)) ->
    PK (_ <~ ialloc (size * n) ;; irepn (N.to_nat n) d) C (CAP + K) (fun l => C + y * n + lsum ce l).
  Proof.
    intros Hq H s L P. unfold ibind, ialloc. cbn [fst snd].
    destruct (pk_repn d K (size + y) ce H (N.to_nat n) C s (L + size * n) (N.max P (L + size * n))) as [H1 H2].
    destruct (irepn (N.to_nat n) d s (L + size * n, N.max P (L + size * n))) as [[rs r] [L' P']]; cbn [fst snd] in *.
    rewrite N2Nat.id in H2. split; [lia|]. intros l E. specialize (H2 l E). lia.
  Qed.

  Lemma pk_sized {A} (d : idec A) K size y ce n C :
    (forall C', PK d C' K (fun a => C' + (size + y) + ce a)) ->
    PK (isized size n d) C (CAP + K) (fun l => C + y * n + lsum ce l).
  Proof.
    intros H. unfold isized. destruct (over_cap size n) eqn:E; [apply pk_fail|].
    apply cap_bounds_len in E. now apply pk_reserve.
  Qed.

  Lemma cN_varint : consumesN dec_varint 1.
  Proof. exact (consN _ _ consumes_varint). Qed.

  Lemma pk_vec {A} (d : idec A) K size ce C :
    (forall C', PK d C' K (fun a => C' + size + ce a)) ->
    PK (ivec size d) C (CAP + K) (fun l => C + rho + lsum ce l).
  Proof.
    intros H. unfold ivec. eapply pk_bind; [eapply pk_K; [apply (pk_lift dec_len 1 C cN_varint)|lia]|].
    intros n. cbv beta. destruct (over_cap size n) eqn:E; [apply pk_fail|]. apply cap_bounds_len in E.
    eapply pk_cred; [apply (pk_reserve d K size 0 ce n (C + rho * 1) E)|].
    - intros C'. eapply pk_cred; [apply H|]. intros a. cbv beta. lia.
    - intros l. cbv beta. lia.
  Qed.

  (* a push into a growing vector: 4 * esize of credit per element pays for the doubling, the transient old + new buffer
     is covered by what the earlier elements paid plus 4 * esize *)
  Lemma pk_push esize i C :
    PK (ipush esize i) (C + 4 * esize + esize * slk i) (4 * esize) (fun _ => C + esize * slk (S i)).
  Proof.
    unfold slk.
    destruct (gcap_bounds i) as [G1 G2]. destruct (gcap_bounds (S i)) as [G3 G4].
    unfold ipush. cbn [gcap] in *. rewrite Nat2N.inj_succ in *.
    destruct (N.of_nat i <? gcap i) eqn:E; [apply N.ltb_lt in E|apply N.ltb_ge in E].
    - apply pk_ret.
      replace (4 * N.succ (N.of_nat i) - gcap i) with (4 + (4 * N.of_nat i - gcap i)) by lia. lia.
    - intros s L P. unfold ibind, ialloc, ifree. cbn [fst snd].
      assert (Ei : gcap i = N.of_nat i) by lia. rewrite Ei in *.
      set (g := N.max 4 (2 * N.of_nat i)) in *. set (n := N.of_nat i) in *.
      assert (Hg : g <= 4 + 2 * n) by (subst g; lia). assert (Hg' : n <= g) by (subst g; lia).
      replace (4 * n - n) with (3 * n) by lia.
      assert (E1 : esize * g <= esize * (4 + 2 * n)) by (apply N.mul_le_mono_l; exact Hg).
      assert (E2 : esize * n <= esize * g) by (apply N.mul_le_mono_l; exact Hg').
      assert (E3 : esize * (4 * N.succ n - g) + esize * g = esize * (4 * N.succ n))
        by (rewrite <- N.mul_add_distr_l; f_equal; lia).
      assert (E4 : esize * (4 * N.succ n) = 4 * esize + 4 * (esize * n)) by lia.
      assert (E5 : esize * (4 + 2 * n) = 4 * esize + 2 * (esize * n)) by lia.
      assert (E6 : esize * (3 * n) = 3 * (esize * n)) by lia.
      split; [lia|]. intros a _. lia.
  Qed.

  Lemma pk_grown {A} (d : idec A) K esize ce :
    (forall C', PK d C' K (fun a => C' + 4 * esize + ce a)) ->
    forall n i C, PK (igrown esize i n d) (C + esize * slk i) (K + 4 * esize) (fun l => C + lsum ce l).
  Proof.
    intros H. induction n as [|n IH]; intros i C; cbn [igrown].
    - apply pk_ret. cbn [lsum]. generalize (esize * slk i). intros. lia.
    - eapply pk_bind; [eapply pk_K; [apply H|lia]|]. intros a. cbv beta.
      eapply pk_bind.
      + apply (pk_weaken _ _ _ _ _ _ (fun _ => C + ce a + esize * slk (S i)) (pk_push esize i (C + ce a))); [lia|lia|].
        intros u. lia.
      + intros u. cbv beta. eapply pk_bind; [apply (IH (S i) (C + ce a))|]. intros t. apply pk_ret. cbn [lsum]. lia.
  Qed.

  Lemma pk_grow {A} (d : idec A) K esize ce n C :
    (forall C', PK d C' K (fun a => C' + 4 * esize + ce a)) ->
    PK (igrow esize n d) C (K + 4 * esize) (fun l => C + lsum ce l).
  Proof.
    intros H. unfold igrow. eapply pk_weaken; [apply (pk_grown d K esize ce H (N.to_nat n) 0%nat C)| | |]; unfold slk; cbn [gcap N.of_nat]; try lia.
  Qed.
End Acc.

(* ---- 4. the grammar ----------------------------------------------------------------------------------------------------------- *)
Lemma cN_u8 : consumesN dec_u8 1.  Proof. exact (consN _ _ consumes_u8). Qed.
Lemma cN_read_u8 : consumesN read_u8 1.  Proof. exact (consN _ _ consumes_read_u8). Qed.
Lemma cN_hash : consumesN dec_hash 32.  Proof. exact (consN _ _ consumes_hash). Qed.
Lemma cN_txout : consumesN dec_txout 34.  Proof. exact (consN _ _ consumes_txout). Qed.
Lemma cN_signature : consumesN dec_signature 64.  Proof. exact (consN _ _ consumes_signature). Qed.
Lemma cN_ecdh t : consumesN (dec_ecdh t) 8.  Proof. exact (consN _ _ (consumes_ecdh t)). Qed.
Lemma cN_rangesig : consumesN dec_rangesig 6176.  Proof. exact (consN _ _ consumes_rangesig). Qed.
Lemma cN_header : consumesN dec_header 39.  Proof. exact (consN _ _ consumes_header). Qed.
Lemma cN_u32 : consumesN dec_u32 4.
Proof. intros s a r H. apply dmap_ok in H. destruct H as (b & H & _). apply (consumes_read_n 4) in H. unfold lenN. lia. Qed.
Lemma cN_rct_type : consumesN dec_rct_type 1.
Proof. intros s a r H. unfold dec_rct_type in H. apply bind_ok in H. destruct H as (t & r1 & H & H').
  apply cN_u8 in H. repeat (destruct (_ =? _) in H'; [apply ret_ok in H'; destruct H'; subst; exact H|]). discriminate H'. Qed.
Create HintDb cons.
#[global] Hint Resolve cN_varint cN_u8 cN_read_u8 cN_hash cN_txout cN_signature cN_ecdh cN_rangesig cN_header cN_u32 cN_rct_type : cons.

(* rho = budget bytes per input byte.  It has to cover, for every vector of the grammar, element size / minimal wire size
   (x 4 for growing vectors: capacity 4 after the first push, and old + new buffer during a re-allocation) *)
Definition rho_ok (sz : sizes) (gs : gsizes) (rho : N) : Prop :=
  8 <= rho /\                                           (* Vec<VarInt> key offsets: 8 bytes per 1-byte varint *)
  sz_txin sz <= 2 * rho /\                              (* TxIn::Gen: tag + height *)
  sz_txin sz + 4 * g_row gs <= 35 * rho /\              (* TxIn::ToKey: tag, amount, count, key image (+ its v1 signature row) *)
  sz_txout sz <= 34 * rho /\ sz_bulletproof sz <= 290 * rho /\ sz_bpplus sz <= 194 * rho /\ sz_rangesig sz <= 6176 * rho /\
  4 * g_ecdh gs <= 8 * rho /\                           (* ecdh_info: vec![] + push, 8 wire bytes each *)
  4 * g_clsag gs <= 64 * rho /\ 4 * g_mgsig gs <= 32 * rho /\
  4 * g_row gs + 32 <= 32 * rho.                        (* MgSig.ss row: >= 1 column of 32 bytes, Vec<Key> header + the keys *)

(* fixed part of the bound beyond the two nested 32 MiB reservations: first allocations of the growing vectors *)
Definition AG (gs : gsizes) : N := 4 * (g_ecdh gs + g_row gs + g_clsag gs + g_mgsig gs) + 384.
Definition KTX (gs : gsizes) : N := 2 * CAP + AG gs.

Create HintDb pkdb.
#[global] Hint Extern 1 (_ <= _) => lia : pkdb.

Lemma pk_ret0 rho {A} (x : A) C : PK rho (iret x) C 0 (fun _ => C).
Proof. apply pk_ret. lia. Qed.
Ltac pk_inst := first [ eapply pk_lift; solve [eauto with cons] | apply pk_ret0 | solve [eauto with pkdb] ].
Ltac pk_chain Kside :=
  repeat lazymatch goal with
         | |- PK _ (ibind (ibind _ _) _) ?C _ _ => eapply (pk_bind _ _ _ C _ (fun _ => C)); [|intros ?; cbv beta]
         | |- PK _ (ibind _ _) _ _ _ => eapply pk_bind; [eapply pk_K; [pk_inst|Kside]|intros ?; cbv beta]
         | |- PK _ (if ?c then _ else _) _ _ _ => destruct c eqn:?
         | |- PK _ (match ?x with _ => _ end) _ _ _ => destruct x
         | |- PK _ (ifail _) _ _ _ => apply pk_fail
         end.
Ltac kside := unfold KTX, AG; lia.

Definition ce_txin (gs : gsizes) (i : txin) : N := match i with Gen _ => 0 | ToKey _ _ _ => 4 * g_row gs end.

Section Grammar.
  Variables (sz : sizes) (gs : gsizes) (rho : N).
  Hypothesis Hr : rho_ok sz gs rho.
  Ltac hr := pose proof Hr as Hr'; unfold rho_ok in Hr'.

  Lemma pkv_varint C : PK rho (ivec 8 (ilift dec_varint)) C CAP (fun _ => C + rho).
  Proof.
    hr. eapply pk_weaken; [apply (pk_vec rho (ilift dec_varint) 0 8 zero C)| | |]; try lia.
    - intros C'. eapply pk_cred; [eapply pk_lift; eauto with cons|]. intros a. unfold zero. lia.
    - intros l. generalize (lsum zero l). intros. lia.
  Qed.
  Lemma pkv_hash C : PK rho (ivec 32 (ilift dec_hash)) C CAP (fun _ => C + rho).
  Proof.
    hr. eapply pk_weaken; [apply (pk_vec rho (ilift dec_hash) 0 32 zero C)| | |]; try lia.
    - intros C'. eapply pk_cred; [eapply pk_lift; eauto with cons|]. intros a. unfold zero. lia.
    - intros l. generalize (lsum zero l). intros. lia.
  Qed.
  Lemma pkv_u8 C : PK rho (ivec 1 (ilift read_u8)) C CAP (fun _ => C + rho).
  Proof.
    hr. eapply pk_weaken; [apply (pk_vec rho (ilift read_u8) 0 1 zero C)| | |]; try lia.
    - intros C'. eapply pk_cred; [eapply pk_lift; eauto with cons|]. intros a. unfold zero. lia.
    - intros l. generalize (lsum zero l). intros. lia.
  Qed.
  (* a sized vector of keys leaves (32 rho - 32) per key *)
  Lemma pks_hash n C : PK rho (isized 32 n (ilift dec_hash)) C CAP (fun _ => C + (32 * rho - 32) * n).
  Proof.
    hr. eapply pk_weaken; [apply (pk_sized rho (ilift dec_hash) 0 32 (32 * rho - 32) zero n C)| | |]; try lia.
    - intros C'. eapply pk_cred; [eapply pk_lift; eauto with cons|]. intros a. unfold zero. lia.
    - intros l. generalize (lsum zero l). intros. lia.
  Qed.
  Lemma pks_hash0 n C : PK rho (isized 32 n (ilift dec_hash)) C CAP (fun _ => C).
  Proof. eapply pk_cred; [apply pks_hash|]. intros l. cbv beta. generalize ((32 * rho - 32) * n). intros. lia. Qed.
  Hint Resolve pkv_varint pkv_hash pkv_u8 pks_hash0 : pkdb.

  Lemma pk_txin C : PK rho idec_txin C CAP (fun a => C + sz_txin sz + ce_txin gs a).
  Proof.
    hr. unfold idec_txin. pk_chain lia; apply pk_ret; cbn [ce_txin]; lia.
  Qed.
  Lemma pkv_txin C : PK rho (ivec (sz_txin sz) idec_txin) C (CAP + CAP) (fun l => C + rho + lsum (ce_txin gs) l).
  Proof. apply pk_vec. intros C'. apply pk_txin. Qed.
  Lemma pkv_txout C : PK rho (ivec (sz_txout sz) (ilift dec_txout)) C CAP (fun _ => C + rho).
  Proof.
    hr. eapply pk_weaken; [apply (pk_vec rho (ilift dec_txout) 0 (sz_txout sz) zero C)| | |]; try lia.
    - intros C'. eapply pk_cred; [eapply pk_lift; eauto with cons|]. intros a. unfold zero. lia.
    - intros l. generalize (lsum zero l). intros. lia.
  Qed.
  Hint Resolve pkv_txin pkv_txout : pkdb.

  Lemma pk_prefix C : PK rho (idec_prefix sz) C (CAP + CAP) (fun p => C + lsum (ce_txin gs) (inputs p)).
  Proof. hr. unfold idec_prefix. pk_chain lia. apply pk_ret. cbn [inputs]. lia. Qed.

  Lemma pk_bulletproof C : PK rho idec_bulletproof C CAP (fun _ => C + sz_bulletproof sz + 0).
  Proof. hr. unfold idec_bulletproof. pk_chain lia. apply pk_ret. lia. Qed.
  Lemma pk_bpplus C : PK rho idec_bpplus C CAP (fun _ => C + sz_bpplus sz + 0).
  Proof. hr. unfold idec_bpplus. pk_chain lia. apply pk_ret. lia. Qed.
  Lemma pkv_bp C : PK rho (ivec (sz_bulletproof sz) idec_bulletproof) C (CAP + CAP) (fun _ => C).
  Proof.
    eapply pk_cred; [apply (pk_vec rho idec_bulletproof CAP (sz_bulletproof sz) zero C)|].
    - intros C'. apply pk_bulletproof.
    - intros l. cbv beta. generalize (lsum zero l). intros. lia.
  Qed.
  Lemma pks_bp n C : PK rho (isized (sz_bulletproof sz) n idec_bulletproof) C (CAP + CAP) (fun _ => C).
  Proof.
    eapply pk_cred; [apply (pk_sized rho idec_bulletproof CAP (sz_bulletproof sz) 0 zero n C)|].
    - intros C'. eapply pk_cred; [apply pk_bulletproof|]. intros a. unfold zero. lia.
    - intros l. cbv beta. generalize (lsum zero l). intros. lia.
  Qed.
  Lemma pkv_bpp C : PK rho (ivec (sz_bpplus sz) idec_bpplus) C (CAP + CAP) (fun _ => C).
  Proof.
    eapply pk_cred; [apply (pk_vec rho idec_bpplus CAP (sz_bpplus sz) zero C)|].
    - intros C'. apply pk_bpplus.
    - intros l. cbv beta. generalize (lsum zero l). intros. lia.
  Qed.
  Lemma pks_rangesig n C : PK rho (isized (sz_rangesig sz) n (ilift dec_rangesig)) C CAP (fun _ => C).
  Proof.
    hr. eapply pk_weaken; [apply (pk_sized rho (ilift dec_rangesig) 0 (sz_rangesig sz) 0 zero n C)| | |]; try lia.
    - intros C'. eapply pk_cred; [eapply pk_lift; eauto with cons|]. intros a. unfold zero. lia.
    - intros l. generalize (lsum zero l). intros. lia.
  Qed.
  Hint Resolve pkv_bp pks_bp pkv_bpp pks_rangesig : pkdb.

  (* growing vectors *)
  Lemma pkg_ecdh t n C : PK rho (igrow (g_ecdh gs) n (ilift (dec_ecdh t))) C (4 * g_ecdh gs) (fun _ => C).
  Proof.
    hr. eapply pk_weaken; [apply (pk_grow rho (ilift (dec_ecdh t)) 0 (g_ecdh gs) zero n C)| | |]; try lia.
    - intros C'. eapply pk_cred; [eapply pk_lift; eauto with cons|]. intros a. unfold zero. lia.
    - intros l. generalize (lsum zero l). intros. lia.
  Qed.
  Lemma pkg_keys n C : PK rho (igrow 32 n (ilift dec_hash)) C 128 (fun _ => C).
  Proof.
    hr. eapply pk_weaken; [apply (pk_grow rho (ilift dec_hash) 0 32 zero n C)| | |]; try lia.
    - intros C'. eapply pk_cred; [eapply pk_lift; eauto with cons|]. intros a. unfold zero. lia.
    - intros l. generalize (lsum zero l). intros. lia.
  Qed.
  Lemma pkg_sigs n C : PK rho (igrow 64 n (ilift dec_signature)) C 256 (fun _ => C).
  Proof.
    hr. eapply pk_weaken; [apply (pk_grow rho (ilift dec_signature) 0 64 zero n C)| | |]; try lia.
    - intros C'. eapply pk_cred; [eapply pk_lift; eauto with cons|]. intros a. unfold zero. lia.
    - intros l. generalize (lsum zero l). intros. lia.
  Qed.
  Hint Resolve pkg_ecdh pkg_keys pkg_sigs : pkdb.

  Lemma pk_rct_base n_in n_out C : PK rho (idec_rct_base gs n_in n_out) C (CAP + 4 * g_ecdh gs) (fun _ => C).
  Proof.
    hr. unfold idec_rct_base. eapply pk_bind; [eapply pk_K; [pk_inst|lia]|]. intros t. cbv beta.
    destruct t; cbn [rct_type_eqb]; pk_chain lia; apply pk_ret; lia.
  Qed.

  Lemma pk_clsag m C : PK rho (idec_clsag m) C 128 (fun _ => C + 4 * g_clsag gs + 0).
  Proof. hr. unfold idec_clsag. pk_chain lia. apply pk_ret. lia. Qed.
  Lemma pkg_clsags m n C : PK rho (igrow (g_clsag gs) n (idec_clsag m)) C (128 + 4 * g_clsag gs) (fun _ => C).
  Proof.
    eapply pk_cred; [apply (pk_grow rho (idec_clsag m) 128 (g_clsag gs) zero n C)|].
    - intros C'. apply pk_clsag.
    - intros l. cbv beta. generalize (lsum zero l). intros. lia.
  Qed.

  (* a row of MgSig.ss: `cols` keys, cols >= 1 (2 or 1 + inputs in dec_rct_prunable) *)
  Lemma pk_row cols C : 1 <= cols -> PK rho (isized 32 cols (ilift dec_hash)) C CAP (fun _ => C + 4 * g_row gs + 0).
  Proof.
    intros Hc. hr. eapply pk_cred; [apply pks_hash|]. intros l. cbv beta.
    assert ((32 * rho - 32) * 1 <= (32 * rho - 32) * cols) by (apply N.mul_le_mono_l; exact Hc). lia.
  Qed.
  Lemma pk_mgsig m cols C : 1 <= cols -> PK rho (idec_mgsig gs m cols) C (CAP + 4 * g_row gs) (fun _ => C + 4 * g_mgsig gs + 0).
  Proof.
    intros Hc. hr. unfold idec_mgsig. eapply pk_bind.
    - apply (pk_grow rho (isized 32 cols (ilift dec_hash)) CAP (g_row gs) zero (m + 1) C). intros C'. now apply pk_row.
    - intros ss. cbv beta. pk_chain lia. apply pk_ret. generalize (lsum zero ss). intros. lia.
  Qed.
  Lemma pkg_mgsigs m cols n C : 1 <= cols ->
    PK rho (igrow (g_mgsig gs) n (idec_mgsig gs m cols)) C (CAP + 4 * g_row gs + 4 * g_mgsig gs) (fun _ => C).
  Proof.
    intros Hc. eapply pk_cred; [apply (pk_grow rho (idec_mgsig gs m cols) (CAP + 4 * g_row gs) (g_mgsig gs) zero n C)|].
    - intros C'. now apply pk_mgsig.
    - intros l. cbv beta. generalize (lsum zero l). intros. lia.
  Qed.
  Hint Resolve pkg_clsags pkg_mgsigs : pkdb.

  Lemma pk_rct_prunable t n_in n_out mixin C :
    PK rho (idec_rct_prunable sz gs t n_in n_out mixin) C (KTX gs) (fun _ => C).
  Proof.
    hr. unfold idec_rct_prunable.
    destruct t; cbn [is_rct_bp is_rct_bp_plus uses_clsag is_simple_or_bp has_p_pseudo];
      pk_chain kside; apply pk_ret; lia.
  Qed.

  (* v1 signatures: the outer vector (one Vec<Signature> header per ToKey input) is paid by the credit 4 * g_row that every
     ToKey input left behind when the prefix was read *)
  Lemma pk_v1_sigs ins : forall i C,
    PK rho (idec_v1_sigs gs ins i) (C + lsum (ce_txin gs) ins + g_row gs * slk i) (256 + 4 * g_row gs) (fun _ => C).
  Proof.
    hr. induction ins as [|[h|a ko ki] t IH]; intros i C; cbn [idec_v1_sigs lsum ce_txin].
    - apply pk_ret. generalize (g_row gs * slk i). intros. lia.
    - eapply pk_weaken; [apply (IH i C)|lia|lia|]. intros l. lia.
    - eapply pk_bind; [eapply pk_K; [apply pkg_sigs|lia]|]. intros row. cbv beta.
      eapply pk_bind.
      + apply (pk_weaken _ _ _ _ _ _ _ (fun _ => C + lsum (ce_txin gs) t + g_row gs * slk (S i))
                 (pk_push rho (g_row gs) i (C + lsum (ce_txin gs) t))); [lia|lia|]. intros u. lia.
      + intros u. cbv beta. eapply pk_bind; [eapply pk_K; [apply (IH (S i) C)|lia]|]. intros rest. apply pk_ret. lia.
  Qed.

  Lemma pk_tx C : PK rho (idec_tx sz gs) C (KTX gs) (fun _ => C).
  Proof.
    hr. unfold idec_tx. eapply pk_bind; [eapply pk_K; [apply pk_prefix|kside]|]. intros p. cbv beta zeta.
    destruct (version p =? 1).
    - eapply pk_bind; [|intros sigs; apply pk_ret; apply N.le_refl].
      eapply pk_weaken; [apply (pk_v1_sigs (inputs p) 0%nat C)| | |]; unfold slk; cbn [gcap N.of_nat]; try kside.
    - destruct (lenN (inputs p) =? 0); [apply pk_ret; generalize (lsum (ce_txin gs) (inputs p)); intros; lia|].
      eapply pk_bind; [eapply pk_K; [apply pk_rct_base|kside]|]. intros sig. cbv beta.
      assert (G : forall mixin t, PK rho (pr <~ idec_rct_prunable sz gs t (lenN (inputs p)) (lenN (outputs p)) mixin ;;
                                           iret (mk_tx p [] (mk_rct (Some sig) (Some pr))))
                                    (C + lsum (ce_txin gs) (inputs p)) (KTX gs) (fun _ => C)).
      { intros mixin t. eapply pk_bind; [apply pk_rct_prunable|]. intros pr. apply pk_ret.
        generalize (lsum (ce_txin gs) (inputs p)). intros. lia. }
      destruct (rb_type sig); [apply pk_ret; generalize (lsum (ce_txin gs) (inputs p)); intros; lia|..];
        (destruct (inputs p) as [|[h|a ko ki] tl]; [apply G|apply G|destruct (lenN ko =? 0); [apply pk_fail|apply G]]).
  Qed.

  Lemma pk_block C : PK rho (idec_block sz gs) C (KTX gs) (fun _ => C).
  Proof.
    hr. unfold idec_block. pose proof pk_tx as Htx.
    eapply pk_bind; [eapply pk_K; [pk_inst|kside]|]. intros h. cbv beta.
    eapply pk_bind; [apply Htx|]. intros m. cbv beta.
    eapply pk_bind; [eapply pk_K; [apply pkv_hash|kside]|]. intros hs. apply pk_ret. lia.
  Qed.
End Grammar.

(* ---- 5. the bound -------------------------------------------------------------------------------------------------------------- *)
Lemma pk_peak rho {A} (i : idec A) K c s : PK rho i 0 K c -> peak_of i s <= K + rho * lenN s.
Proof. intros H. unfold peak_of. destruct (H s 0 0) as [H1 _]. lia. Qed.

Theorem peak_tx sz gs rho s : rho_ok sz gs rho -> peak_of (idec_tx sz gs) s <= 2 * CAP + AG gs + rho * lenN s.
Proof. intros Hr. exact (pk_peak rho _ _ _ s (pk_tx sz gs rho Hr 0)). Qed.
Theorem peak_block sz gs rho s : rho_ok sz gs rho -> peak_of (idec_block sz gs) s <= 2 * CAP + AG gs + rho * lenN s.
Proof. intros Hr. exact (pk_peak rho _ _ _ s (pk_block sz gs rho Hr 0)). Qed.
Theorem peak_prefix sz gs rho s : rho_ok sz gs rho -> peak_of (idec_prefix sz) s <= 2 * CAP + rho * lenN s.
Proof. intros Hr. pose proof (pk_peak rho _ _ _ s (pk_prefix sz gs rho Hr 0)). lia. Qed.

(* ---- a rho for every pair of tables -------------------------------------------------------------------------------------------- *)
Definition cdiv (a b : N) : N := (a + b - 1) / b.
Lemma cdiv_le a b r : 0 < b -> cdiv a b <= r -> a <= b * r.
Proof.
  intros Hb Hr. unfold cdiv in Hr. pose proof (N.div_mod' (a + b - 1) b) as E. pose proof (N.mod_lt (a + b - 1) b ltac:(lia)) as M.
  assert (b * ((a + b - 1) / b) <= b * r) by (apply N.mul_le_mono_l; exact Hr). lia.
Qed.
Definition rho_of (sz : sizes) (gs : gsizes) : N :=
  fold_right N.max 8
    [ cdiv (sz_txin sz) 2; cdiv (sz_txin sz + 4 * g_row gs) 35; cdiv (sz_txout sz) 34; cdiv (sz_bulletproof sz) 290;
      cdiv (sz_bpplus sz) 194; cdiv (sz_rangesig sz) 6176; cdiv (4 * g_ecdh gs) 8; cdiv (4 * g_clsag gs) 64;
      cdiv (4 * g_mgsig gs) 32; cdiv (4 * g_row gs + 32) 32 ].
Lemma rho_of_ok sz gs : rho_ok sz gs (rho_of sz gs).
Proof.
  unfold rho_ok, rho_of. cbn [fold_right].
  repeat match goal with |- _ /\ _ => split end; try (apply cdiv_le; lia). lia.
Qed.

Theorem peak_tx_all sz gs s : peak_of (idec_tx sz gs) s <= 2 * CAP + AG gs + rho_of sz gs * lenN s.
Proof. apply peak_tx, rho_of_ok. Qed.
Theorem peak_block_all sz gs s : peak_of (idec_block sz gs) s <= 2 * CAP + AG gs + rho_of sz gs * lenN s.
Proof. apply peak_block, rho_of_ok. Qed.

Lemma rho_default : rho_of default_sizes default_gsizes = 33 /\ AG default_gsizes = 1316.
Proof. split; vm_compute; reflexivity. Qed.
(* 32 is not enough for the real tables: EcdhInfo is 65 bytes for 8 wire bytes and a Vec grown by push holds 4 slots after the
   first push *)
Lemma rho_32_not_ok : ~ rho_ok default_sizes default_gsizes 32.
Proof. unfold rho_ok. cbn. lia. Qed.

(* ---- the bound is reached up to the additive constant: two nested reservations of 32 MiB each on a 13-byte input ------------ *)
(* version 2, unlock 0, 2^19 inputs declared (64 bytes each = 32 MiB), first input ToKey, amount 0, 2^22 key offsets declared
   (8 bytes each = 32 MiB), then end of input *)
Definition two_level_input : bytes := [x02; x00; x80; x80; x20; x02; x00; x80; x80; x80; x02].
Lemma two_level_peak :
  fst (idec_tx default_sizes default_gsizes two_level_input (0, 0)) = (Err EEof, []) /\
  peak_of (idec_tx default_sizes default_gsizes) two_level_input = 2 * CAP.
Proof. split; vm_compute; reflexivity. Qed.
