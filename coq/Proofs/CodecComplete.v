(* CodecComplete.v — C02: a well-formed value serialises to bytes that parse back to it, consuming
   exactly the bytes produced.  Well-formedness predicates + one `Complete` instance per type. *)
From MRS Require Export Proofs.CodecExact.
Open Scope N_scope.

(* ---- well-formedness ------------------------------------------------------------------------------ *)
Definition wf_u64 (n : N) : Prop := n < 2 ^ 64.
Definition wf_u8 (n : N) : Prop := n < 256.
Definition wf_u32 (n : N) : Prop := n < 2 ^ 32.
Definition wf_arr (k : nat) (b : bytes) : Prop := length b = k.
Definition wf_key := wf_arr 32.

(* a vector that Vec<T>::consensus_decode accepts back: length fits u64 and the allocation cap *)
Definition wf_vec {A} (size : N) (wf : A -> Prop) (l : list A) : Prop :=
  Forall wf l /\ lenN l < 2 ^ 64 /\ over_cap size (lenN l) = false.
Definition wf_sized {A} (size n : N) (wf : A -> Prop) (l : list A) : Prop :=
  Forall wf l /\ lenN l = n /\ over_cap size n = false.

Definition wf_txin (i : txin) : Prop :=
  match i with
  | Gen h => wf_u64 h
  | ToKey a ko ki => wf_u64 a /\ wf_vec 8 wf_u64 ko /\ wf_key ki
  end.
Definition wf_target (t : target) : Prop :=
  match t with TKey k => wf_key k | TTagged k v => wf_key k /\ wf_u8 v end.
Definition wf_txout (o : txout) : Prop := wf_u64 (o_amount o) /\ wf_target (o_target o).
Definition wf_prefix (sz : sizes) (p : txprefix) : Prop :=
  wf_u64 (version p) /\ wf_u64 (unlock_time p) /\
  wf_vec (sz_txin sz) wf_txin (inputs p) /\ wf_vec (sz_txout sz) wf_txout (outputs p) /\
  wf_vec 1 (fun _ => True) (extra p).
Definition wf_signature (s : signature) : Prop := wf_key (sig_c s) /\ wf_key (sig_r s).
Definition wf_ecdh (t : rct_type) (e : ecdh) : Prop :=
  match t, e with
  | (RFull | RSimple | RBulletproof | RNull), EStandard m a => wf_key m /\ wf_key a
  | (RBulletproof2 | RClsag | RBulletproofPlus), EBulletproof a => wf_arr 8 a
  | _, _ => False
  end.
Definition wf_borosig (b : borosig) : Prop :=
  wf_arr 2048 (bs_s0 b) /\ wf_arr 2048 (bs_s1 b) /\ wf_key (bs_ee b).
Definition wf_rangesig (r : rangesig) : Prop := wf_borosig (rs_asig r) /\ wf_arr 2048 (rs_Ci r).
Definition wf_bulletproof (p : bulletproof) : Prop :=
  wf_key (bp_A p) /\ wf_key (bp_S p) /\ wf_key (bp_T1 p) /\ wf_key (bp_T2 p) /\ wf_key (bp_taux p) /\
  wf_key (bp_mu p) /\ wf_vec 32 wf_key (bp_L p) /\ wf_vec 32 wf_key (bp_R p) /\
  wf_key (bp_a p) /\ wf_key (bp_b p) /\ wf_key (bp_t p).
Definition wf_bpplus (p : bpplus) : Prop :=
  wf_key (bpp_A p) /\ wf_key (bpp_A1 p) /\ wf_key (bpp_B p) /\ wf_key (bpp_r1 p) /\ wf_key (bpp_s1 p) /\
  wf_key (bpp_d1 p) /\ wf_vec 32 wf_key (bpp_L p) /\ wf_vec 32 wf_key (bpp_R p).
Definition wf_clsag (mixin : N) (c : clsag) : Prop :=
  Forall wf_key (cl_s c) /\ lenN (cl_s c) = mixin + 1 /\ wf_key (cl_c1 c) /\ wf_key (cl_D c).
Definition wf_mgsig (mixin cols : N) (m : mgsig) : Prop :=
  Forall (wf_sized 32 cols wf_key) (mg_ss m) /\ lenN (mg_ss m) = mixin + 1 /\ wf_key (mg_cc m).
Definition wf_header (h : header) : Prop :=
  wf_u64 (major_version h) /\ wf_u64 (minor_version h) /\ wf_u64 (timestamp h) /\ wf_key (prev_id h) /\
  wf_u32 (nonce h).

(* RctSigBase for a transaction with n_in inputs and n_out outputs *)
Definition wf_rct_base (n_in n_out : N) (b : rct_base) : Prop :=
  match rb_type b with
  | RNull => rb_fee b = 0 /\ rb_pseudo_outs b = [] /\ rb_ecdh b = [] /\ rb_out_pk b = []
  | t =>
      wf_u64 (rb_fee b) /\
      (if rct_type_eqb t RSimple then wf_sized 32 n_in wf_key (rb_pseudo_outs b) else rb_pseudo_outs b = []) /\
      Forall (wf_ecdh t) (rb_ecdh b) /\ lenN (rb_ecdh b) = n_out /\
      wf_sized 32 n_out wf_key (rb_out_pk b)
  end.

(* RctSigPrunable for a non-Null type *)
Definition wf_rct_prunable (sz : sizes) (t : rct_type) (n_in n_out mixin : N) (p : rct_prunable) : Prop :=
  (* range proofs *)
  (if is_rct_bp t then
     rp_range_sigs p = [] /\ rp_bulletproofplus p = [] /\
     match t with
     | RBulletproof2 | RClsag => wf_vec (sz_bulletproof sz) wf_bulletproof (rp_bulletproofs p)
     | _ => wf_sized (sz_bulletproof sz) (lenN (rp_bulletproofs p)) wf_bulletproof (rp_bulletproofs p) /\
            lenN (rp_bulletproofs p) < 2 ^ 32
     end
   else if is_rct_bp_plus t then
     rp_range_sigs p = [] /\ rp_bulletproofs p = [] /\ wf_vec (sz_bpplus sz) wf_bpplus (rp_bulletproofplus p)
   else
     rp_bulletproofs p = [] /\ rp_bulletproofplus p = [] /\
     wf_sized (sz_rangesig sz) n_out wf_rangesig (rp_range_sigs p)) /\
  (* ring signatures *)
  (if uses_clsag t then
     rp_MGs p = [] /\ Forall (wf_clsag mixin) (rp_Clsags p) /\ lenN (rp_Clsags p) = n_in
   else
     rp_Clsags p = [] /\
     Forall (wf_mgsig mixin (if is_simple_or_bp t then 2 else 1 + n_in)) (rp_MGs p) /\
     lenN (rp_MGs p) = (if is_simple_or_bp t then n_in else 1)) /\
  (if has_p_pseudo t then wf_sized 32 n_in wf_key (rp_pseudo_outs p) else rp_pseudo_outs p = []).

(* the rows of version-1 signatures follow the ToKey inputs *)
Fixpoint wf_v1_sigs (ins : list txin) (rows : list (list signature)) : Prop :=
  match ins, rows with
  | [], [] => True
  | Gen _ :: t, _ => wf_v1_sigs t rows
  | ToKey _ ko _ :: t, row :: rest => Forall wf_signature row /\ lenN row = lenN ko /\ wf_v1_sigs t rest
  | _, _ => False
  end.

Definition mixin_of (ins : list txin) : option N :=
  match ins with
  | ToKey _ ko _ :: _ => if lenN ko =? 0 then None else Some (lenN ko - 1)
  | _ => Some 0
  end.

Definition wf_tx (sz : sizes) (t : tx) : Prop :=
  let p := tx_prefix t in
  wf_prefix sz p /\
  if version p =? 1 then
    wf_v1_sigs (inputs p) (tx_signatures t) /\ tx_rct t = mk_rct None None
  else
    tx_signatures t = [] /\
    if lenN (inputs p) =? 0 then tx_rct t = mk_rct None None
    else match rct_base_of (tx_rct t) with
         | None => False
         | Some b =>
             wf_rct_base (lenN (inputs p)) (lenN (outputs p)) b /\
             match rb_type b with
             | RNull => rct_p (tx_rct t) = None
             | ty => exists mixin pr, mixin_of (inputs p) = Some mixin /\ rct_p (tx_rct t) = Some pr /\
                       wf_rct_prunable sz ty (lenN (inputs p)) (lenN (outputs p)) mixin pr
             end
         end.

Definition wf_block (sz : sizes) (b : block) : Prop :=
  wf_header (blk_header b) /\ wf_tx sz (miner_tx b) /\ wf_vec 32 wf_key (tx_hashes b).

(* ---- primitives ---------------------------------------------------------------------------------------- *)
Global Instance complete_varint : Complete dec_varint enc_varint wf_u64.
Proof. intros a r H. now apply dec_enc_varint. Qed.

Lemma arr_complete k b r : length b = k -> dec_arr k (b ++ r) = (Ok b, r).
Proof. intros <-. apply read_n_complete. Qed.

Global Instance complete_arr k : Complete (dec_arr k) enc_arr (wf_arr k).
Proof. intros a r H. now apply arr_complete. Qed.
Global Instance complete_hash : Complete dec_hash enc_arr wf_key.
Proof. intros a r H. now apply arr_complete. Qed.

Global Instance complete_u8 : Complete dec_u8 enc_u8 wf_u8.
Proof.
  intros a r H. unfold dec_u8, dmap, enc_u8. cbn [app]. unfold bind. cbn [read_u8]. unfold ret.
  now rewrite b2n_n2b_small.
Qed.

Global Instance complete_uint k : Complete (dec_uint k) (enc_uint k) (fun n => n < 256 ^ N.of_nat k).
Proof.
  intros a r H. unfold dec_uint, dmap, enc_uint, bind.
  rewrite <- (n2le_length k a) at 1. rewrite read_n_complete. unfold ret. now rewrite le2n_n2le.
Qed.

Global Instance complete_rep {A} (d : dec A) e wf `{Complete A d e wf} n :
  Complete (rep n d) (enc_list e) (fun l => Forall wf l /\ lenN l = n).
Proof. intros l r [Hf <-]. now apply rep_complete with (wf := wf). Qed.

Global Instance complete_vec {A} (d : dec A) e wf `{Complete A d e wf} size :
  Complete (dec_vec size d) (enc_vec e) (wf_vec size wf).
Proof.
  intros l r (Hf & Hl & Hc). unfold dec_vec, dec_len, enc_vec. rewrite <- app_assoc.
  unfold bind. rewrite dec_enc_varint by exact Hl. rewrite Hc.
  now apply rep_complete with (wf := wf).
Qed.

Global Instance complete_sized {A} (d : dec A) e wf `{Complete A d e wf} size n :
  Complete (dec_sized size n d) (enc_list e) (wf_sized size n wf).
Proof.
  intros l r (Hf & Hl & Hc). unfold dec_sized. rewrite Hc. subst n.
  now apply rep_complete with (wf := wf).
Qed.

Global Instance complete_bytes_vec : Complete dec_bytes_vec enc_bytes_vec (wf_vec 1 (fun _ => True)).
Proof.
  intros l r (_ & Hl & Hc). unfold dec_bytes_vec, dec_vec, dec_len, enc_bytes_vec. rewrite <- app_assoc.
  unfold bind. rewrite dec_enc_varint by exact Hl. rewrite Hc. rewrite rep_repn. unfold lenN. rewrite Nat2N.id.
  clear. revert r. induction l as [|b t IH]; intros r; [reflexivity|].
  cbn [length repn app]. unfold bind. cbn [read_u8]. rewrite IH. reflexivity.
Qed.

(* ---- stepping tactic ------------------------------------------------------------------------------------- *)
Lemma bind_complete {A B} (d : dec A) (k : A -> dec B) e wf `{Complete A d e wf} a r :
  wf a -> bind d k (e a ++ r) = k a r.
Proof. intros Hw. unfold bind. now rewrite complete_pf. Qed.

Lemma bind_arr {B} n (k : bytes -> dec B) b r : length b = n -> bind (dec_arr n) k (b ++ r) = k b r.
Proof. intros Hl. unfold bind. now rewrite arr_complete. Qed.

Ltac wf_solve := first [assumption | exact I | (unfold wf_u8; lia) | (unfold wf_key, wf_arr in *; assumption) | tauto | eauto].

Ltac cstep :=
  first
    [ rewrite bind_arr by wf_solve
    | match goal with
      | |- bind ?d ?k (?x ++ ?r) = _ => erewrite (bind_complete d k) by wf_solve
      end ].

Ltac cnorm := repeat rewrite <- app_assoc.
Ltac csteps := cnorm; repeat cstep; unfold ret; try reflexivity.
