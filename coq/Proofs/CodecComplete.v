(* CodecComplete.v — C02: a well-formed value serialises to bytes that parse back to it, consuming
   exactly the bytes produced.  Well-formedness predicates + one `Complete` instance per type. *)
From MRS Require Export Proofs.CodecExact.
Open Scope N_scope.

(* ---- well-formedness ------------------------------------------------------------------------------ *)
Definition wf_u64 (n : N) : Prop := n < 2 ^ 64.
Definition wf_u8 (n : N) : Prop := n < 256.
Definition wf_u32 (n : N) : Prop := n < 2 ^ 32.
Definition wf_arr (k : nat) (b : bytes) : Prop := length b = k.
Definition wf_key := wf_arr 32.

(* a vector that Vec<T>::consensus_decode accepts back: length fits u64 and the allocation cap *)
Definition wf_vec {A} (size : N) (wf : A -> Prop) (l : list A) : Prop :=
  Forall wf l /\ lenN l < 2 ^ 64 /\ over_cap size (lenN l) = false.
Definition wf_sized {A} (size n : N) (wf : A -> Prop) (l : list A) : Prop :=
  Forall wf l /\ lenN l = n /\ over_cap size n = false.

Definition wf_txin (i : txin) : Prop :=
  match i with
  | Gen h => wf_u64 h
  | ToKey a ko ki => wf_u64 a /\ wf_vec 8 wf_u64 ko /\ wf_key ki
  end.
Definition wf_target (t : target) : Prop :=
  match t with TKey k => wf_key k | TTagged k v => wf_key k /\ wf_u8 v end.
Definition wf_txout (o : txout) : Prop := wf_u64 (o_amount o) /\ wf_target (o_target o).
Definition wf_prefix (sz : sizes) (p : txprefix) : Prop :=
  wf_u64 (version p) /\ wf_u64 (unlock_time p) /\
  wf_vec (sz_txin sz) wf_txin (inputs p) /\ wf_vec (sz_txout sz) wf_txout (outputs p) /\
  wf_vec 1 (fun _ => True) (extra p).
Definition wf_signature (s : signature) : Prop := wf_key (sig_c s) /\ wf_key (sig_r s).
Definition wf_ecdh (t : rct_type) (e : ecdh) : Prop :=
  match t, e with
  | (RFull | RSimple | RBulletproof | RNull), EStandard m a => wf_key m /\ wf_key a
  | (RBulletproof2 | RClsag | RBulletproofPlus), EBulletproof a => wf_arr 8 a
  | _, _ => False
  end.
Definition wf_borosig (b : borosig) : Prop :=
  wf_arr 2048 (bs_s0 b) /\ wf_arr 2048 (bs_s1 b) /\ wf_key (bs_ee b).
Definition wf_rangesig (r : rangesig) : Prop := wf_borosig (rs_asig r) /\ wf_arr 2048 (rs_Ci r).
Definition wf_bulletproof (p : bulletproof) : Prop :=
  wf_key (bp_A p) /\ wf_key (bp_S p) /\ wf_key (bp_T1 p) /\ wf_key (bp_T2 p) /\ wf_key (bp_taux p) /\
  wf_key (bp_mu p) /\ wf_vec 32 wf_key (bp_L p) /\ wf_vec 32 wf_key (bp_R p) /\
  wf_key (bp_a p) /\ wf_key (bp_b p) /\ wf_key (bp_t p).
Definition wf_bpplus (p : bpplus) : Prop :=
  wf_key (bpp_A p) /\ wf_key (bpp_A1 p) /\ wf_key (bpp_B p) /\ wf_key (bpp_r1 p) /\ wf_key (bpp_s1 p) /\
  wf_key (bpp_d1 p) /\ wf_vec 32 wf_key (bpp_L p) /\ wf_vec 32 wf_key (bpp_R p).
Definition wf_clsag (mixin : N) (c : clsag) : Prop :=
  Forall wf_key (cl_s c) /\ lenN (cl_s c) = mixin + 1 /\ wf_key (cl_c1 c) /\ wf_key (cl_D c).
Definition wf_mgsig (mixin cols : N) (m : mgsig) : Prop :=
  Forall (wf_sized 32 cols wf_key) (mg_ss m) /\ lenN (mg_ss m) = mixin + 1 /\ wf_key (mg_cc m).
Definition wf_header (h : header) : Prop :=
  wf_u64 (major_version h) /\ wf_u64 (minor_version h) /\ wf_u64 (timestamp h) /\ wf_key (prev_id h) /\
  wf_u32 (nonce h).

(* RctSigBase for a transaction with n_in inputs and n_out outputs *)
Definition wf_rct_base (n_in n_out : N) (b : rct_base) : Prop :=
  match rb_type b with
  | RNull => rb_fee b = 0 /\ rb_pseudo_outs b = [] /\ rb_ecdh b = [] /\ rb_out_pk b = []
  | t =>
      wf_u64 (rb_fee b) /\
      (if rct_type_eqb t RSimple then wf_sized 32 n_in wf_key (rb_pseudo_outs b) else rb_pseudo_outs b = []) /\
      Forall (wf_ecdh t) (rb_ecdh b) /\ lenN (rb_ecdh b) = n_out /\
      wf_sized 32 n_out wf_key (rb_out_pk b)
  end.

(* RctSigPrunable for a non-Null type *)
Definition wf_rct_prunable (sz : sizes) (t : rct_type) (n_in n_out mixin : N) (p : rct_prunable) : Prop :=
  (* range proofs *)
  (if is_rct_bp t then
     rp_range_sigs p = [] /\ rp_bulletproofplus p = [] /\
     match t with
     | RBulletproof2 | RClsag => wf_vec (sz_bulletproof sz) wf_bulletproof (rp_bulletproofs p)
     | _ => wf_sized (sz_bulletproof sz) (lenN (rp_bulletproofs p)) wf_bulletproof (rp_bulletproofs p) /\
            lenN (rp_bulletproofs p) < 2 ^ 32
     end
   else if is_rct_bp_plus t then
     rp_range_sigs p = [] /\ rp_bulletproofs p = [] /\ wf_vec (sz_bpplus sz) wf_bpplus (rp_bulletproofplus p)
   else
     rp_bulletproofs p = [] /\ rp_bulletproofplus p = [] /\
     wf_sized (sz_rangesig sz) n_out wf_rangesig (rp_range_sigs p)) /\
  (* ring signatures *)
  (if uses_clsag t then
     rp_MGs p = [] /\ Forall (wf_clsag mixin) (rp_Clsags p) /\ lenN (rp_Clsags p) = n_in
   else
     rp_Clsags p = [] /\
     Forall (wf_mgsig mixin (if is_simple_or_bp t then 2 else 1 + n_in)) (rp_MGs p) /\
     lenN (rp_MGs p) = (if is_simple_or_bp t then n_in else 1)) /\
  (if has_p_pseudo t then wf_sized 32 n_in wf_key (rp_pseudo_outs p) else rp_pseudo_outs p = []).

(* the rows of version-1 signatures follow the ToKey inputs *)
Fixpoint wf_v1_sigs (ins : list txin) (rows : list (list signature)) : Prop :=
  match ins, rows with
  | [], [] => True
  | Gen _ :: t, _ => wf_v1_sigs t rows
  | ToKey _ ko _ :: t, row :: rest => Forall wf_signature row /\ lenN row = lenN ko /\ wf_v1_sigs t rest
  | _, _ => False
  end.

Definition mixin_of (ins : list txin) : option N :=
  match ins with
  | ToKey _ ko _ :: _ => if lenN ko =? 0 then None else Some (lenN ko - 1)
  | _ => Some 0
  end.

Definition wf_tx (sz : sizes) (t : tx) : Prop :=
  let p := tx_prefix t in
  wf_prefix sz p /\
  if version p =? 1 then
    wf_v1_sigs (inputs p) (tx_signatures t) /\ tx_rct t = mk_rct None None
  else
    tx_signatures t = [] /\
    if lenN (inputs p) =? 0 then tx_rct t = mk_rct None None
    else match rct_base_of (tx_rct t) with
         | None => False
         | Some b =>
             wf_rct_base (lenN (inputs p)) (lenN (outputs p)) b /\
             match rb_type b with
             | RNull => rct_p (tx_rct t) = None
             | ty => exists mixin pr, mixin_of (inputs p) = Some mixin /\ rct_p (tx_rct t) = Some pr /\
                       wf_rct_prunable sz ty (lenN (inputs p)) (lenN (outputs p)) mixin pr
             end
         end.

Definition wf_block (sz : sizes) (b : block) : Prop :=
  wf_header (blk_header b) /\ wf_tx sz (miner_tx b) /\ wf_vec 32 wf_key (tx_hashes b).

(* ---- primitives ---------------------------------------------------------------------------------------- *)
Global Instance complete_varint : Complete dec_varint enc_varint wf_u64.
Proof. intros a r H. now apply dec_enc_varint. Qed.

Lemma arr_complete k b r : length b = k -> dec_arr k (b ++ r) = (Ok b, r).
Proof. intros <-. apply read_n_complete. Qed.

Global Instance complete_arr k : Complete (dec_arr k) enc_arr (wf_arr k).
Proof. intros a r H. now apply arr_complete. Qed.
Global Instance complete_hash : Complete dec_hash enc_arr wf_key.
Proof. intros a r H. now apply arr_complete. Qed.

Global Instance complete_u8 : Complete dec_u8 enc_u8 wf_u8.
Proof.
  intros a r H. unfold dec_u8, dmap, enc_u8. cbn [app]. unfold bind. cbn [read_u8]. unfold ret.
  now rewrite b2n_n2b_small.
Qed.

Global Instance complete_uint k : Complete (dec_uint k) (enc_uint k) (fun n => n < 256 ^ N.of_nat k).
Proof.
  intros a r H. unfold dec_uint, dmap, enc_uint, bind.
  rewrite <- (n2le_length k a) at 1. rewrite read_n_complete. unfold ret. now rewrite le2n_n2le.
Qed.

Global Instance complete_rep {A} (d : dec A) e wf `{Complete A d e wf} n :
  Complete (rep n d) (enc_list e) (fun l => Forall wf l /\ lenN l = n).
Proof. intros l r [Hf <-]. now apply rep_complete with (wf := wf). Qed.

Global Instance complete_vec {A} (d : dec A) e wf `{Complete A d e wf} size :
  Complete (dec_vec size d) (enc_vec e) (wf_vec size wf).
Proof.
  intros l r (Hf & Hl & Hc). unfold dec_vec, dec_len, enc_vec. rewrite <- app_assoc.
  unfold bind. rewrite dec_enc_varint by exact Hl. rewrite Hc.
  now apply rep_complete with (wf := wf).
Qed.

Global Instance complete_sized {A} (d : dec A) e wf `{Complete A d e wf} size n :
  Complete (dec_sized size n d) (enc_list e) (wf_sized size n wf).
Proof.
  intros l r (Hf & Hl & Hc). unfold dec_sized. rewrite Hc. subst n.
  now apply rep_complete with (wf := wf).
Qed.

Global Instance complete_bytes_vec : Complete dec_bytes_vec enc_bytes_vec (wf_vec 1 (fun _ => True)).
Proof.
  intros l r (_ & Hl & Hc). unfold dec_bytes_vec, dec_vec, dec_len, enc_bytes_vec. rewrite <- app_assoc.
  unfold bind. rewrite dec_enc_varint by exact Hl. rewrite Hc. rewrite rep_repn. unfold lenN. rewrite Nat2N.id.
  clear. revert r. induction l as [|b t IH]; intros r; [reflexivity|].
  cbn [length repn app]. unfold bind. cbn [read_u8]. rewrite IH. reflexivity.
Qed.

(* ---- stepping tactic ------------------------------------------------------------------------------------- *)
Lemma bind_complete {A B} (d : dec A) (k : A -> dec B) e wf `{Complete A d e wf} a r :
  wf a -> bind d k (e a ++ r) = k a r.
Proof. intros Hw. unfold bind. now rewrite complete_pf. Qed.

Lemma bind_arr {B} n (k : bytes -> dec B) b r : length b = n -> bind (dec_arr n) k (b ++ r) = k b r.
Proof. intros Hl. unfold bind. now rewrite arr_complete. Qed.

Ltac wf_solve := first [assumption | exact I | (unfold wf_u8; lia) | (unfold wf_key, wf_arr in *; assumption) | tauto | eauto].

Lemma bind_ret {A B} (v : A) (k : A -> dec B) s : bind (ret v) k s = k v s.
Proof. reflexivity. Qed.

Lemma bind_assoc {A B C} (d : dec A) (k1 : A -> dec B) (k2 : B -> dec C) s :
  bind (bind d k1) k2 s = bind d (fun a => bind (k1 a) k2) s.
Proof. unfold bind. destruct (d s) as [[a|e|] r]; reflexivity. Qed.

Ltac cstep :=
  first
    [ rewrite bind_ret
    | rewrite bind_assoc
    | progress cbn [app]
    | rewrite bind_arr by wf_solve
    | match goal with
      | |- bind ?d ?k (?x ++ ?r) = _ =>
          let H := fresh "HC" in
          eassert (H : Complete d _ _) by typeclasses eauto;
          rewrite (@bind_complete _ _ d k _ _ H) by wf_solve; clear H
      end ].

Ltac cnorm := repeat rewrite <- app_assoc.
Ltac csteps := cnorm; repeat cstep; unfold ret; try reflexivity.

(* ---- component types ----------------------------------------------------------------------------------------- *)
Lemma bind_u8_tag {B} (k : N -> dec B) t r : t < 256 -> bind dec_u8 k (enc_u8 t ++ r) = k t r.
Proof. intros Ht. unfold bind. now rewrite (complete_pf (d := dec_u8)) by exact Ht. Qed.

Global Instance complete_txin : Complete dec_txin enc_txin wf_txin.
Proof.
  intros a r H. unfold dec_txin, enc_txin. destruct a as [h|am ko ki]; cbn [wf_txin] in H.
  - cnorm. rewrite bind_u8_tag by lia. cbn [N.eqb Pos.eqb]. change (255 =? 255) with true. cbv iota. csteps.
  - destruct H as (Ha & Hko & Hki). cnorm. rewrite bind_u8_tag by lia.
    change (2 =? 255) with false. change ((2 =? 0) || (2 =? 1)) with false. change (2 =? 2) with true. cbv iota.
    csteps.
Qed.

Global Instance complete_target : Complete dec_target enc_target wf_target.
Proof.
  intros a r H. unfold dec_target, enc_target. destruct a as [k|k v]; cbn [wf_target] in H.
  - cnorm. rewrite bind_u8_tag by lia. change (2 =? 2) with true. cbv iota. csteps.
  - destruct H as [Hk Hv]. cnorm. rewrite bind_u8_tag by lia.
    change (3 =? 2) with false. change (3 =? 3) with true. cbv iota. csteps.
Qed.

Global Instance complete_txout : Complete dec_txout enc_txout wf_txout.
Proof.
  intros a r [Ha Ht]. unfold dec_txout, enc_txout. destruct a as [am t]. cbn [o_amount o_target] in *. csteps.
Qed.

Global Instance complete_prefix sz : Complete (dec_prefix sz) enc_prefix (wf_prefix sz).
Proof.
  intros a r (Hv & Hu & Hi & Ho & He). unfold dec_prefix, enc_prefix. destruct a as [v u i o e].
  cbn [version unlock_time inputs outputs extra] in *. csteps.
Qed.

Global Instance complete_signature : Complete dec_signature enc_signature wf_signature.
Proof.
  intros a r [Hc Hr]. unfold dec_signature, enc_signature, dec_hash. destruct a as [c r0].
  cbn [sig_c sig_r] in *. csteps.
Qed.

Global Instance complete_rct_type : Complete dec_rct_type enc_rct_type (fun _ => True).
Proof.
  intros a r _. unfold dec_rct_type, enc_rct_type. rewrite bind_u8_tag by (destruct a; cbn; lia).
  destruct a; reflexivity.
Qed.

Global Instance complete_ecdh t : Complete (dec_ecdh t) enc_ecdh (wf_ecdh t).
Proof.
  intros a r H. unfold dec_ecdh, enc_ecdh, dec_hash, dec_hash8.
  destruct t, a as [m am|am]; cbn [wf_ecdh] in H; try contradiction; try destruct H as [Hm Ha]; csteps.
Qed.

Global Instance complete_borosig : Complete dec_borosig enc_borosig wf_borosig.
Proof.
  intros a r (H0 & H1 & He). unfold dec_borosig, enc_borosig, dec_key64, dec_hash. destruct a as [s0 s1 ee].
  cbn [bs_s0 bs_s1 bs_ee] in *. csteps.
Qed.

Global Instance complete_rangesig : Complete dec_rangesig enc_rangesig wf_rangesig.
Proof.
  intros a r (Ha & Hc). unfold dec_rangesig, enc_rangesig, dec_key64. destruct a as [asig ci].
  cbn [rs_asig rs_Ci] in *. csteps.
Qed.

Global Instance complete_bulletproof : Complete dec_bulletproof enc_bulletproof wf_bulletproof.
Proof.
  intros a r H. unfold wf_bulletproof in H. decompose [and] H. clear H.
  unfold dec_bulletproof, enc_bulletproof, dec_hash. csteps. now destruct a.
Qed.

Global Instance complete_bpplus : Complete dec_bpplus enc_bpplus wf_bpplus.
Proof.
  intros a r H. unfold wf_bpplus in H. decompose [and] H. clear H.
  unfold dec_bpplus, enc_bpplus, dec_hash. csteps. now destruct a.
Qed.

Global Instance complete_header : Complete dec_header enc_header wf_header.
Proof.
  intros a r (H1 & H2 & H3 & H4 & H5). unfold dec_header, enc_header, dec_hash, dec_u32.
  assert (nonce a < 256 ^ N.of_nat 4) by exact H5. csteps. now destruct a.
Qed.

Global Instance complete_clsag mixin : Complete (dec_clsag mixin) enc_clsag (wf_clsag mixin).
Proof.
  intros a r (Hs & Hl & Hc & Hd). unfold dec_clsag, enc_clsag, dec_hash. destruct a as [s c1 D].
  cbn [cl_s cl_c1 cl_D] in *. csteps.
Qed.

Global Instance complete_mgsig mixin cols : Complete (dec_mgsig mixin cols) enc_mgsig (wf_mgsig mixin cols).
Proof.
  intros a r (Hs & Hl & Hc). unfold dec_mgsig, enc_mgsig, dec_hash. destruct a as [ss cc].
  cbn [mg_ss mg_cc] in *. csteps.
Qed.

(* ---- RingCT base / prunable ------------------------------------------------------------------------------------ *)
Lemma bind_rct_type {B} (k : rct_type -> dec B) t r : bind dec_rct_type k (enc_rct_type t ++ r) = k t r.
Proof. unfold bind. now rewrite (complete_pf (d := dec_rct_type)). Qed.

Global Instance complete_rct_base n_in n_out : Complete (dec_rct_base n_in n_out) enc_rct_base (wf_rct_base n_in n_out).
Proof.
  intros a r H. unfold dec_rct_base, enc_rct_base, wf_rct_base in *. destruct a as [t fee po ecdh opk].
  cbn [rb_type rb_fee rb_pseudo_outs rb_ecdh rb_out_pk] in *. cnorm. rewrite bind_rct_type.
  destruct t; cbn [rct_type_eqb] in *;
    [ destruct H as (-> & -> & -> & ->); reflexivity | .. ];
    destruct H as (Hf & Hp & He & Hl & Ho); try subst po; unfold dec_hash; csteps.
Qed.

Lemma complete_rct_prunable sz t n_in n_out mixin p r :
  t <> RNull -> wf_rct_prunable sz t n_in n_out mixin p ->
  dec_rct_prunable sz t n_in n_out mixin (enc_rct_prunable p t ++ r) = (Ok p, r).
Proof.
  intros Ht H. unfold dec_rct_prunable, enc_rct_prunable, wf_rct_prunable in *.
  destruct p as [rs bps bpp mgs cls po].
  cbn [rp_range_sigs rp_bulletproofs rp_bulletproofplus rp_MGs rp_Clsags rp_pseudo_outs] in *.
  destruct t; try congruence;
    cbn [is_rct_bp is_rct_bp_plus uses_clsag has_p_pseudo is_simple_or_bp] in *;
    destruct H as (Hp & Hs & Hq); decompose [and] Hp; decompose [and] Hs; subst; unfold dec_hash, dec_u32;
    try match goal with Hb : lenN ?l < 2 ^ 32 |- _ =>
          rewrite (N.mod_small (lenN l) (2 ^ 32)) by exact Hb;
          assert (lenN l < 256 ^ N.of_nat 4) by exact Hb end;
    csteps.
Qed.

(* ---- Transaction / Block ------------------------------------------------------------------------------------------ *)
Lemma complete_v1_sigs ins : forall rows r,
  wf_v1_sigs ins rows -> dec_v1_sigs ins (enc_list (enc_list enc_signature) rows ++ r) = (Ok rows, r).
Proof.
  induction ins as [|i t IH]; intros rows r H.
  - destruct rows; [reflexivity|contradiction].
  - destruct i as [h|am ko ki]; cbn [dec_v1_sigs wf_v1_sigs] in *.
    + now apply IH.
    + destruct rows as [|row rest]; [contradiction|]. destruct H as (Hrow & Hl & Hrest).
      change (enc_list (enc_list enc_signature) (row :: rest))
        with (enc_list enc_signature row ++ enc_list (enc_list enc_signature) rest).
      rewrite <- Hl. csteps. unfold bind. now rewrite IH.
Qed.

Global Instance complete_tx sz : Complete (dec_tx sz) enc_tx (wf_tx sz).
Proof.
  intros a r H. unfold wf_tx in H. destruct a as [p sigs rct]. cbn [tx_prefix tx_signatures tx_rct] in H.
  destruct H as [Hp H]. unfold dec_tx, enc_tx. cbn [tx_prefix tx_signatures tx_rct]. cnorm.
  rewrite (bind_complete (dec_prefix sz) _ enc_prefix (wf_prefix sz)) by exact Hp.
  destruct (version p =? 1) eqn:Ev.
  - destruct H as [Hs ->]. unfold bind. rewrite complete_v1_sigs by exact Hs. reflexivity.
  - destruct H as [-> H]. destruct (lenN (inputs p) =? 0) eqn:Ei.
    + subst rct. reflexivity.
    + destruct rct as [[b|] pr]; cbn [rct_base_of rct_p] in *; [|contradiction].
      destruct H as [Hb H]. cnorm.
      rewrite (bind_complete (dec_rct_base (lenN (inputs p)) (lenN (outputs p))) _ enc_rct_base
                 (wf_rct_base (lenN (inputs p)) (lenN (outputs p)))) by exact Hb.
      destruct (rb_type b) eqn:Et; [subst pr; reflexivity|..];
        destruct H as (mixin & q & Hm & -> & Hq); unfold mixin_of in Hm; rewrite Hm;
        unfold bind; rewrite complete_rct_prunable by (congruence || exact Hq); reflexivity.
Qed.

Global Instance complete_block sz : Complete (dec_block sz) enc_block (wf_block sz).
Proof.
  intros a r (Hh & Ht & Hx). unfold dec_block, enc_block, dec_hash. csteps. now destruct a.
Qed.

(* strict parsing of a serialisation succeeds; any non-empty trailer makes it fail;
   partial parsing reports exactly the number of bytes produced *)
Lemma strict_complete {A} (d : dec A) e wf `{Complete A d e wf} a :
  wf a -> deserialize d (e a) = Ok a.
Proof.
  intros Hw. unfold deserialize, deserialize_partial. rewrite <- (app_nil_r (e a)) at 1.
  rewrite complete_pf by exact Hw. unfold lenN. cbn [length].
  replace (N.of_nat (length (e a)) - N.of_nat 0 =? N.of_nat (length (e a))) with true; [reflexivity|].
  symmetry. apply N.eqb_eq. lia.
Qed.

Lemma strict_rejects_trailing {A} (d : dec A) e wf `{Complete A d e wf} a t :
  wf a -> t <> [] -> deserialize d (e a ++ t) = Err EBad.
Proof.
  intros Hw Ht. unfold deserialize, deserialize_partial. rewrite complete_pf by exact Hw.
  unfold lenN. rewrite app_length.
  replace (N.of_nat (length (e a) + length t) - N.of_nat (length t) =? N.of_nat (length (e a) + length t)) with false;
    [reflexivity|].
  symmetry. apply N.eqb_neq. destruct t; [congruence|]. cbn [length]. lia.
Qed.

Lemma partial_consumed {A} (d : dec A) e wf `{Complete A d e wf} a t :
  wf a -> deserialize_partial d (e a ++ t) = Ok (a, lenN (e a)).
Proof.
  intros Hw. unfold deserialize_partial. rewrite complete_pf by exact Hw. unfold lenN. rewrite app_length.
  f_equal. f_equal. lia.
Qed.

(* ---- String and multisig records --------------------------------------------------------------------------------- *)
Definition wf_string (b : bytes) : Prop := is_utf8 b = true /\ wf_vec 1 (fun _ => True) b.
Global Instance complete_string : Complete dec_string enc_string wf_string.
Proof.
  intros a r [Hu Hv]. unfold dec_string, enc_string. unfold bind.
  rewrite (complete_pf (d := dec_bytes_vec)) by exact Hv. now rewrite Hu.
Qed.
Lemma dec_string_rejects_invalid b r : is_utf8 b = false -> wf_vec 1 (fun _ => True) b ->
  fst (dec_string (enc_string b ++ r)) = Err EBad.
Proof.
  intros Hu Hv. unfold dec_string, enc_string, bind. rewrite (complete_pf (d := dec_bytes_vec)) by exact Hv. now rewrite Hu.
Qed.

Definition wf_klrki (m : multisig_klrki) : Prop := wf_key (mk_K m) /\ wf_key (mk_L m) /\ wf_key (mk_R m) /\ wf_key (mk_ki m).
Global Instance complete_klrki : Complete dec_klrki enc_klrki wf_klrki.
Proof. intros a r (H1 & H2 & H3 & H4). unfold dec_klrki, enc_klrki, dec_hash. csteps. now destruct a. Qed.
Global Instance complete_multisig_out : Complete dec_multisig_out enc_multisig_out (wf_vec 32 wf_key).
Proof. intros a r H. unfold dec_multisig_out, enc_multisig_out. exact (complete_pf (d := dec_vec 32 dec_hash) a r H). Qed.
