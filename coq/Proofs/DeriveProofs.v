(* DeriveProofs.v — proofs about Model/Derive.v (C10), for every instance of EdLaws and every hash-to-scalar. *)
From MRS Require Export Proofs.KeysProofs Model.Derive.
Open Scope Z_scope.

Section DeriveProofs.
Context {E : EdOps} {LW : EdLaws E}.
Variable Hs : hs_fun.

Lemma key_derive_compress a B : valid B -> key_derive a (compress B) = Ok (compress (smul 8 (smul a B))).
Proof.
  intros HB. unfold key_derive. rewrite sk_mul_pk_compress by exact HB. cbn [bindr].
  now rewrite sk_mul_pk_compress by auto with ed.
Qed.

Lemma smul8_smul a B : valid B -> smul 8 (smul a B) = smul (8 * a) B.
Proof. intros HB. now rewrite smul_mul. Qed.

Lemma derivation_spec a B : valid B ->
  key_derive a (compress B) = Ok (compress (smul 8 (smul a B))) /\ smul 8 (smul a B) = smul (8 * a) B.
Proof. intros HB. split; [now apply key_derive_compress|now apply smul8_smul]. Qed.

(* every accepted key is the encoding of a valid point, and the derivation is 8*(a*that point) *)
Lemma derivation_accepted a k : pk_from_slice k = Ok k ->
  exists B, valid B /\ compress B = k /\ key_derive a k = Ok (compress (smul 8 (smul a B))).
Proof.
  intros H. apply pk_from_slice_iff in H. destruct H as (B & HB & <-).
  exists B. repeat split; auto. now apply key_derive_compress.
Qed.

(* the small-order component is cleared *)
Lemma smul8a_torsion a T : valid T -> smul 8 T = pzero -> smul (8 * a) T = pzero.
Proof. intros HT H8. rewrite Z.mul_comm, smul_mul, H8 by exact HT. apply smul_zero_pt. Qed.

Lemma derivation_clears_torsion a B' T : valid B' -> valid T -> smul 8 T = pzero ->
  smul 8 (smul a (padd B' T)) = smul (8 * a) B'.
Proof.
  intros HB HT H8. rewrite smul8_smul by auto with ed. rewrite smul_padd by auto.
  rewrite (smul8a_torsion a T HT H8). apply padd_zero_r. auto with ed.
Qed.

Lemma derivation_torsion a B' T : valid B' -> valid T -> smul ell B' = pzero -> smul 8 T = pzero ->
  key_derive a (compress (padd B' T)) = Ok (compress (smul (8 * a) B')) /\
  smul (8 * a) B' = smul ((8 * a) mod ell) B' /\
  key_derive a (compress (padd B' T)) = key_derive a (compress B').
Proof.
  intros HB HT Hl H8. rewrite !key_derive_compress by auto with ed.
  rewrite derivation_clears_torsion by auto. split; [reflexivity|]. split.
  - symmetry. now apply smul_mod_order.
  - now rewrite smul8_smul.
Qed.

Lemma derivation_tors a B' i : valid B' ->
  key_derive a (compress (padd B' (tors i))) = Ok (compress (smul (8 * a) B')).
Proof.
  intros HB. rewrite key_derive_compress by auto with ed.
  now rewrite derivation_clears_torsion by (auto with ed; apply tors_8).
Qed.

Lemma derivation_pure_torsion a i : key_derive a (compress (tors i)) = Ok (compress pzero).
Proof.
  rewrite key_derive_compress by auto with ed. rewrite smul8_smul by auto with ed.
  now rewrite smul8a_torsion by (auto with ed; apply tors_8).
Qed.

(* sender and receiver *)
Lemma sender_receiver r v : key_derive r (pk_from_priv v) = key_derive v (pk_from_priv r).
Proof.
  unfold pk_from_priv. rewrite !key_derive_compress by auto with ed.
  now rewrite (smul_comm r v) by auto with ed.
Qed.

Lemma sender_receiver_value r v :
  key_derive r (pk_from_priv v) = Ok (compress (smul (8 * r * v) G)) /\
  key_derive v (pk_from_priv r) = Ok (compress (smul (8 * r * v) G)).
Proof.
  assert (H : key_derive r (pk_from_priv v) = Ok (compress (smul (8 * r * v) G))).
  { unfold pk_from_priv. rewrite key_derive_compress by auto with ed.
    rewrite <- !smul_mul by auto with ed. now rewrite ?Z.mul_assoc. }
  split; [exact H|]. rewrite <- sender_receiver. exact H.
Qed.

Lemma generators_agree r v S :
  exists D, from_random (pk_from_priv v) S r = Ok (S, D) /\ from_key v S (pk_from_priv r) = Ok (S, D) /\
            D = compress (smul 8 (smul r (smul v G))).
Proof.
  exists (compress (smul 8 (smul r (smul v G)))). unfold from_random, from_key.
  unfold pk_from_priv. rewrite !key_derive_compress by auto with ed.
  cbn [bindr]. rewrite (smul_comm v r) by auto with ed. auto.
Qed.

(* one-time keys *)
Lemma psub_add_l A B : valid A -> valid B -> psub (padd A B) A = B.
Proof. intros HA HB. rewrite padd_comm by auto. now apply psub_add. Qed.

Lemma one_time_key_spec S rv i : valid S ->
  one_time_key Hs (compress S, rv) i = Ok (compress (padd (smul (Hs (rvn_preimage rv i)) G) S)).
Proof.
  intros HS. unfold one_time_key, get_rvn_scalar. cbn [fst snd]. unfold pk_from_priv.
  now rewrite pk_add_compress by auto with ed.
Qed.

(* P - Hs(D || i) G = S: the key the receiver looks up is the spend key the sender used *)
Lemma candidate_of_one_time_key g i P : pk_from_slice (fst g) = Ok (fst g) ->
  one_time_key Hs g i = Ok P ->
  candidate_spend Hs g i P = Ok (fst g) /\ otk_check Hs g i P = Ok true /\ pk_from_slice P = Ok P.
Proof.
  destruct g as [S rv]. cbn [fst]. intros HS HP. apply pk_from_slice_iff in HS. destruct HS as (Sp & HSp & <-).
  rewrite one_time_key_spec in HP by exact HSp. injection HP as <-.
  split; [|split].
  - unfold candidate_spend, get_rvn_scalar. cbn [snd]. unfold pk_from_priv.
    rewrite pk_sub_compress by auto with ed. now rewrite psub_add_l by auto with ed.
  - unfold otk_check. rewrite one_time_key_spec by exact HSp. cbn [bindr]. unfold pk_eqb. now rewrite bytes_eqb_refl.
  - apply pk_from_slice_compress. auto with ed.
Qed.

Lemma otk_check_iff g i key P : one_time_key Hs g i = Ok P -> (otk_check Hs g i key = Ok true <-> key = P).
Proof.
  intros HP. unfold otk_check. rewrite HP. cbn [bindr]. unfold pk_eqb. split.
  - intros H. injection H as H. now apply bytes_eqb_eq.
  - intros ->. now rewrite bytes_eqb_refl.
Qed.

Lemma one_time_key_recognised r v S i : pk_from_slice S = Ok S ->
  exists g1 g2 P,
    from_random (pk_from_priv v) S r = Ok g1 /\ one_time_key Hs g1 i = Ok P /\
    from_key v S (pk_from_priv r) = Ok g2 /\ otk_check Hs g2 i P = Ok true /\
    candidate_spend Hs g2 i P = Ok S /\ pk_from_slice P = Ok P.
Proof.
  intros HS. destruct (generators_agree r v S) as (D & H1 & H2 & _).
  pose proof HS as HS'. apply pk_from_slice_iff in HS'. destruct HS' as (Sp & HSp & HSc).
  exists (S, D), (S, D), (compress (padd (smul (Hs (rvn_preimage D i)) G) Sp)).
  assert (HP : one_time_key Hs (S, D) i = Ok (compress (padd (smul (Hs (rvn_preimage D i)) G) Sp))).
  { rewrite <- HSc. now apply one_time_key_spec. }
  destruct (candidate_of_one_time_key (S, D) i _ HS HP) as (Hc & Hk & Hacc).
  repeat split; auto.
Qed.

Lemma rvn_preimage_spec rv i : rvn_preimage rv i = rv ++ enc_varint (i mod 2 ^ 64)%N.
Proof. reflexivity. Qed.

End DeriveProofs.
