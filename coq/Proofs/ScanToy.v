(* ScanToy.v — a concrete scan on the toy instance of EdLaws (Proofs/EdToy.v: the cyclic group Z/l) with toy hashes, used by
   the non-vacuity Examples of Props/C07.v and C09.v: the hypotheses "the scan returns Ok l and w is in l" are satisfiable,
   and the sender of Spec/Sender.v produces outputs that the model reports.  Says nothing about Ed25519. *)
From MRS Require Export Proofs.EdToy Proofs.ScanProofs.
Open Scope Z_scope.

Definition toyHs : hs_fun := fun m => fold_left (fun acc b => (acc * 257 + Z.of_N (b2n b)) mod ell) m 1.
Definition toyHb : bytes -> bytes := fun m => rev m.

Definition toy_v : Z := 3.
Definition toy_s : Z := 5.
Definition toy_Sp : @point toy_ops := @smul toy_ops toy_s (@G toy_ops).
Definition toy_Sb : bytes := @compress toy_ops toy_Sp.

(* two outputs: position 0 to subaddress (0,1) under an additional key, untagged; position 1 to the primary address under
   the main key r*G, tagged *)
Definition toy_r : Z := 11.
Definition toy_r0 : Z := 13.
Definition toy_d0 := @wallet_address toy_ops toyHs toy_v toy_Sp 0 1.
Definition toy_d1 := @wallet_address toy_ops toyHs toy_v toy_Sp 0 0.
Definition toy_s0 := @send toy_ops toyHs toyHb toy_r0 toy_d0 0.
Definition toy_s1 := @send toy_ops toyHs toyHb toy_r toy_d1 1.
Definition toy_main : bytes := @compress toy_ops (sn_key toy_s1).
Definition toy_add0 : bytes := @compress toy_ops (sn_key toy_s0).
Definition toy_P0 : bytes := @compress toy_ops (sn_onetime toy_s0).
Definition toy_P1 : bytes := @compress toy_ops (sn_onetime toy_s1).
Definition toy_prefix : txprefix :=
  mk_prefix 1 0 []
    [mk_txout 7 (TKey toy_P0); mk_txout 0 (TTagged toy_P1 (b2n (sn_tag toy_s1))); mk_txout 9 (TKey toy_P1)]
    (enc_fields [TxPublicKey toy_main; AdditionalPublicKey [toy_add0]]).

Definition toy_scan := @prefix_check_outputs toy_ops toyHs toyHb toy_v toy_Sb 0 1 0 2 toy_prefix None.
Definition toy_w0 := mk_owned (E := toy_ops) 0 (mk_txout 7 (TKey toy_P0)) (0%N, 1%N) toy_add0 None.
Definition toy_w1 := mk_owned (E := toy_ops) 1 (mk_txout 0 (TTagged toy_P1 (b2n (sn_tag toy_s1)))) (0%N, 0%N) toy_main None.

(* observable part of a scan result (positions, indices, matched keys, one-time keys) *)
Definition toy_view (r : sres (list (@owned toy_ops))) : option (list (N * index * bytes * bytes)) :=
  match r with
  | SOk l => Some (map (fun w => (ow_pos w, ow_index w, ow_key w, target_key (o_target (ow_out w)))) l)
  | _ => None
  end.
Definition toy_recovered (w : @owned toy_ops) : option bytes :=
  match @owned_recover_key toy_ops toyHs toy_v toy_s w with Ok x => Some (@pk_from_priv toy_ops x) | _ => None end.
