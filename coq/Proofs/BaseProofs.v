(* BaseProofs.v — facts about Base.v *)
From MRS Require Export Model.Base.
From Coq Require Export Lia ZifyBool ZifyN ZifyNat.
Open Scope N_scope.
Arguments N.add : simpl never. Arguments N.mul : simpl never. Arguments N.div : simpl never.
Arguments N.modulo : simpl never. Arguments N.pow : simpl never. Arguments N.ltb : simpl never.
Arguments N.eqb : simpl never. Arguments N.leb : simpl never. Arguments N.sub : simpl never.
Arguments N.land : simpl never. Arguments N.lor : simpl never. Arguments N.shiftl : simpl never.
Arguments N.shiftr : simpl never.

Lemma b2n_lt b : b2n b < 256.
Proof. unfold b2n. pose proof (Byte.to_N_bounded b). lia. Qed.

Lemma n2b_b2n b : n2b (b2n b) = b.
Proof.
  unfold n2b, b2n. rewrite N.mod_small by (pose proof (Byte.to_N_bounded b); lia).
  now rewrite Byte.of_to_N.
Qed.

Lemma b2n_n2b n : b2n (n2b n) = n mod 256.
Proof.
  unfold n2b, b2n. destruct (Byte.of_N (n mod 256)) eqn:E.
  - now apply Byte.to_of_N.
  - apply Byte.of_N_None_iff in E. pose proof (N.mod_lt n 256). lia.
Qed.

Lemma b2n_n2b_small n : n < 256 -> b2n (n2b n) = n.
Proof. intros. rewrite b2n_n2b. now apply N.mod_small. Qed.

Lemma b2n_inj a b : b2n a = b2n b -> a = b.
Proof. intros H. rewrite <- (n2b_b2n a), <- (n2b_b2n b). now rewrite H. Qed.

Lemma n2b_inj_small a b : a < 256 -> b < 256 -> n2b a = n2b b -> a = b.
Proof. intros Ha Hb H. rewrite <- (b2n_n2b_small a), <- (b2n_n2b_small b) by assumption. now rewrite H. Qed.

(* ---- bit facts used by the varint proofs -------------------------------- *)
Lemma land127 n : N.land n 127 = n mod 128.
Proof. change 127 with (N.ones 7). now rewrite N.land_ones. Qed.

Lemma shiftr7 n : N.shiftr n 7 = n / 128.
Proof. now rewrite N.shiftr_div_pow2. Qed.

Lemma shiftl7 n : N.shiftl n 7 = n * 128.
Proof. now rewrite N.shiftl_mul_pow2. Qed.

Lemma land_mul128_small k g : g < 128 -> N.land (k * 128) g = 0.
Proof.
  intros Hg. apply N.bits_inj. intros i. rewrite N.land_spec, N.bits_0.
  destruct (N.lt_ge_cases i 7) as [Hi|Hi].
  - change 128 with (2 ^ 7). rewrite N.mul_pow2_bits_low by assumption. reflexivity.
  - destruct (N.eq_dec g 0) as [->|Hg0]; [now rewrite N.bits_0, andb_false_r|].
    rewrite (N.bits_above_log2 g i); [now rewrite andb_false_r|].
    apply N.log2_lt_pow2; [lia|]. apply N.lt_le_trans with (2 ^ 7); [exact Hg|].
    apply N.pow_le_mono_r; lia.
Qed.

Lemma lor_mul128_add k g : g < 128 -> N.lor (k * 128) g = k * 128 + g.
Proof.
  intros Hg. rewrite <- N.lxor_lor by (now apply land_mul128_small).
  symmetry. apply N.add_nocarry_lxor. now apply land_mul128_small.
Qed.

Lemma lor_128_add g : g < 128 -> N.lor g 128 = g + 128.
Proof.
  intros Hg. rewrite N.lor_comm. change 128 with (1 * 128) at 1. rewrite lor_mul128_add by assumption. lia.
Qed.

Lemma land128_byte n : n < 256 -> (N.land n 128 =? 0) = (n <? 128).
Proof.
  intros Hn.
  destruct (N.ltb_spec n 128) as [H|H].
  - apply N.eqb_eq. rewrite N.land_comm. change 128 with (1 * 128). now apply land_mul128_small.
  - apply N.eqb_neq. intros E.
    assert (Hd : n = 1 * 128 + (n - 128)) by lia.
    rewrite Hd in E. rewrite <- lor_mul128_add in E by lia.
    rewrite N.land_lor_distr_l in E. apply N.lor_eq_0_iff in E. destruct E as [E _].
    vm_compute in E. discriminate.
Qed.
