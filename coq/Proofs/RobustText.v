(* RobustText.v — C04 (d): the never-panics / totality theorems of the text and byte parsers, collected
   (C12 addresses and base58, C13 keys, C14 varint, C15 amounts, C16 extra, C20 address type), plus the three small
   ones that were missing: hex decoding, the FromStr forms of the two key types, amounts with a denomination suffix. *)
From MRS Require Import Proofs.Base58Proofs Proofs.AddressProofs Proofs.NetworkProofs Proofs.AmountProofs
  Proofs.ExtraProofs Proofs.KeysProofs Proofs.VarintProofs.

Lemma hex_decode_pairs_no_panic s : hex_decode_pairs s <> Panic.
Proof.
  assert (G : forall n s, (length s <= n)%nat -> hex_decode_pairs s <> Panic).
  { induction n as [|n IH]; intros t Hn.
    - destruct t; [discriminate|cbn in Hn; lia].
    - destruct t as [|a [|b t]]; cbn [hex_decode_pairs]; try discriminate.
      destruct (hex_val a); [|discriminate]. destruct (hex_val b); [|discriminate].
      assert (Ht : hex_decode_pairs t <> Panic) by (apply IH; cbn in Hn; lia).
      destruct (hex_decode_pairs t); [discriminate|discriminate|congruence]. }
  apply (G (length s)). lia.
Qed.

Lemma hex_decode_no_panic s : hex_decode s <> Panic.
Proof. unfold hex_decode. destruct (Nat.odd _); [discriminate|apply hex_decode_pairs_no_panic]. Qed.

Lemma sk_from_slice_no_panic k : sk_from_slice k <> Panic.
Proof. destruct (sk_from_slice_total k) as [H|H]; rewrite H; discriminate. Qed.

Lemma sk_from_str_no_panic t : sk_from_str t <> Panic.
Proof.
  unfold sk_from_str, bindr. pose proof (hex_decode_no_panic t) as Hh.
  destruct (hex_decode t) as [b|e|]; [apply sk_from_slice_no_panic|discriminate|congruence].
Qed.

Lemma pk_from_slice_no_panic {E : EdOps} k : pk_from_slice k <> Panic.
Proof. destruct (pk_from_slice_total k) as [H|H]; rewrite H; discriminate. Qed.

Lemma pk_from_str_no_panic {E : EdOps} t : pk_from_str t <> Panic.
Proof.
  unfold pk_from_str, bindr. pose proof (hex_decode_no_panic t) as Hh.
  destruct (hex_decode t) as [b|e|]; [apply pk_from_slice_no_panic|discriminate|congruence].
Qed.

Lemma dec_pk_no_panic {E : EdOps} b r : dec_pk b <> (Panic, r).
Proof.
  unfold dec_pk, bind. destruct (read_n 32 b) as [[k|e|] r1] eqn:Er.
  - unfold lift_res. intros H. inversion H as [[H1 H2]]. now apply pk_from_slice_no_panic in H1.
  - discriminate.
  - exfalso. revert Er. generalize 32%nat as n. intros n. revert b r1.
    induction n as [|n IH]; intros b r1; cbn [read_n]; [discriminate|].
    unfold bind at 1. destruct b as [|x b]; cbn [read_u8]; [discriminate|].
    unfold bind. destruct (read_n n b) as [[t|e|] r2] eqn:En; try discriminate.
    intros _. now apply (IH b r2).
Qed.

Lemma with_suffix_no_panic s : amount_from_str s <> APanic /\ signed_from_str s <> APanic.
Proof.
  unfold amount_from_str, signed_from_str, from_str_with_denomination.
  destruct (split_space s) as [amt rest]. destruct rest as [r|]; [|split; discriminate].
  destruct (split_space r) as [dn third]. destruct third; [split; discriminate|].
  destruct (denom_from_str dn) as [d|]; [|split; discriminate].
  apply from_str_in_no_panic.
Qed.

Theorem text_parsers_total :
  forall (H : bytes -> bytes) (valid_pk : bytes -> bool) (E : EdOps),
  (forall m, length (H m) = 32%nat) -> (forall k, valid_pk k = true -> length k = 32%nat) ->
  (* Address::from_bytes / FromStr / from_hex / consensus_decode, base58 in both directions *)
  ((forall b, addr_from_bytes H valid_pk b <> Panic) /\ (forall s, addr_from_str H valid_pk s <> Panic) /\
   (forall s, addr_from_hex H valid_pk s <> Panic) /\ (forall b, addr_deserialize H valid_pk b <> Panic) /\
   (forall s, b58_decode s <> Panic) /\ (forall b, exists s, b58_encode b = Ok s)) /\
  (* AddressType::from_slice, VarInt *)
  ((forall bs n, atype_from_slice bs n <> Panic) /\ (forall b r, dec_varint b <> (Panic, r))) /\
  (* PrivateKey / PublicKey: from_slice, FromStr, consensus_decode *)
  ((forall k, sk_from_slice k <> Panic) /\ (forall t, sk_from_str t <> Panic) /\ (forall b r, dec_sk b <> (Panic, r)) /\
   (forall k, pk_from_slice k <> Panic) /\ (forall t, pk_from_str t <> Panic) /\ (forall b r, dec_pk b <> (Panic, r))) /\
  (* Amount / SignedAmount: from_str_in for every denomination, FromStr with a denomination suffix *)
  ((forall d s, amount_from_str_in s d <> APanic /\ signed_from_str_in s d <> APanic) /\
   (forall s, amount_from_str s <> APanic /\ signed_from_str s <> APanic)) /\
  (* ExtraField::try_parse (no panic, no fuel exhaustion: always a value) and the sub-field decoder *)
  ((forall e, exists ok fs, try_parse valid_pk e = Ok (ok, fs)) /\ (forall s r, dec_subfield valid_pk s <> (Panic, r))).
Proof.
  intros H valid_pk E Hl Hv. repeat split.
  - exact (from_bytes_never_panics H valid_pk Hl Hv).
  - exact (from_str_never_panics H valid_pk Hl Hv).
  - exact (from_hex_never_panics H valid_pk Hl Hv).
  - exact (deserialize_never_panics H valid_pk Hl Hv).
  - exact b58_decode_never_panics.
  - exact b58_encode_never_fails.
  - exact atype_never_panics.
  - exact dec_varint_never_panics.
  - exact sk_from_slice_no_panic.
  - exact sk_from_str_no_panic.
  - exact dec_sk_never_panics.
  - exact pk_from_slice_no_panic.
  - exact pk_from_str_no_panic.
  - exact dec_pk_no_panic.
  - apply from_str_in_no_panic.
  - apply from_str_in_no_panic.
  - apply with_suffix_no_panic.
  - apply with_suffix_no_panic.
  - exact (try_parse_total valid_pk).
  - exact (dec_sf_never_panics valid_pk).
Qed.
