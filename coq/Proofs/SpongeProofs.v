(* SpongeProofs.v — keccak256 of Model/Keccak.v, read as a function on bit strings, is the FIPS 202 sponge
   SPONGE[Keccak-p[1600,24], pad10*1, 1088](M, 256) of Spec/Sponge.v (no domain-separation suffix). *)
From MRS Require Export Proofs.KeccakFRefine Spec.Sponge.
Open Scope N_scope.

(* ---- generic list facts missing from the 8.16 standard library --------------------------------------------- *)
Lemma nth_skipn_gen {A} m : forall (l : list A) k d, nth k (skipn m l) d = nth (m + k) l d.
Proof.
  induction m as [|m IH]; intros l k d; [reflexivity|].
  destruct l as [|a l]; [cbn [skipn Nat.add nth]; now destruct k|]. cbn [skipn Nat.add nth]. apply IH.
Qed.

Lemma nth_firstn_lt {A} n : forall (l : list A) k d, (k < n)%nat -> nth k (firstn n l) d = nth k l d.
Proof.
  induction n as [|n IH]; intros l k d Hk; [lia|].
  destruct l as [|a l]; [reflexivity|]. destruct k as [|k]; [reflexivity|]. cbn [firstn nth]. apply IH. lia.
Qed.

Lemma firstn_exact_gen {A} (L G : list A) n : n = length L -> firstn n (L ++ G) = L.
Proof. intros ->. rewrite firstn_app, firstn_all, Nat.sub_diag. cbn [firstn]. apply app_nil_r. Qed.

(* ---- bytes and bits ---------------------------------------------------------------------------------------------- *)
Lemma nth_bits_of_byte b i : (i < 8)%nat -> nth i (bits_of_byte b) false = N.testbit (b2n b) (N.of_nat i).
Proof. intros Hi. unfold bits_of_byte. rewrite nth_map_seq by exact Hi. reflexivity. Qed.

Lemma b2n_high b z : 8 <= z -> N.testbit (b2n b) z = false.
Proof.
  intros Hz. pose proof (b2n_lt b) as Hb. destruct (N.eq_dec (b2n b) 0) as [->|Hn]; [apply N.bits_0|].
  apply N.bits_above_log2. apply N.lt_le_trans with 8; [|exact Hz]. apply N.log2_lt_pow2; [lia|exact Hb].
Qed.

Lemma add_mul256 b r : b2n b + 256 * r = N.lor (b2n b) (N.shiftl r 8).
Proof.
  assert (Z : N.land (b2n b) (N.shiftl r 8) = 0).
  { apply N.bits_inj. intros i. rewrite N.land_spec, N.bits_0.
    destruct (N.lt_ge_cases i 8) as [L|G].
    - rewrite N.shiftl_spec_low by exact L. apply andb_false_r.
    - now rewrite b2n_high. }
  rewrite <- N.lxor_lor by exact Z. rewrite <- N.add_nocarry_lxor by exact Z.
  rewrite N.shiftl_mul_pow2. change (2 ^ 8) with 256. lia.
Qed.

Lemma le2n_testbit bs : forall z, N.testbit (le2n bs) z = nth (N.to_nat z) (bits_of_bytes bs) false.
Proof.
  induction bs as [|b t IH]; intros z.
  - cbn [le2n]. rewrite N.bits_0. now destruct (N.to_nat z).
  - cbn [le2n]. rewrite add_mul256, N.lor_spec.
    change (bits_of_bytes (b :: t)) with (bits_of_byte b ++ bits_of_bytes t).
    destruct (N.lt_ge_cases z 8) as [L|G].
    + rewrite N.shiftl_spec_low by exact L. rewrite orb_false_r.
      rewrite app_nth1 by (rewrite bits_of_byte_length; lia).
      rewrite nth_bits_of_byte by lia. now rewrite N2Nat.id.
    + rewrite b2n_high by exact G. rewrite N.shiftl_spec_high' by exact G. cbn [orb].
      rewrite app_nth2 by (rewrite bits_of_byte_length; lia). rewrite bits_of_byte_length.
      rewrite IH. f_equal. lia.
Qed.

Lemma bits_firstn k : forall bs, bits_of_bytes (firstn k bs) = firstn (8 * k) (bits_of_bytes bs).
Proof.
  induction k as [|k IH]; intros bs; [reflexivity|].
  destruct bs as [|b t]; [now rewrite firstn_nil|].
  cbn [firstn]. change (bits_of_bytes (b :: firstn k t)) with (bits_of_byte b ++ bits_of_bytes (firstn k t)).
  change (bits_of_bytes (b :: t)) with (bits_of_byte b ++ bits_of_bytes t).
  replace (8 * S k)%nat with (length (bits_of_byte b) + 8 * k)%nat by (rewrite bits_of_byte_length; lia).
  rewrite firstn_app_2. now rewrite IH.
Qed.

Lemma bits_skipn k : forall bs, bits_of_bytes (skipn k bs) = skipn (8 * k) (bits_of_bytes bs).
Proof.
  induction k as [|k IH]; intros bs; [reflexivity|].
  destruct bs as [|b t]; [now rewrite skipn_nil|].
  cbn [skipn]. change (bits_of_bytes (b :: t)) with (bits_of_byte b ++ bits_of_bytes t).
  rewrite skipn_app, bits_of_byte_length.
  rewrite (@skipn_all2 _ (8 * S k)%nat (bits_of_byte b)) by (rewrite bits_of_byte_length; lia).
  replace (8 * S k - 8)%nat with (8 * k)%nat by lia. cbn [app]. apply IH.
Qed.

(* ---- one block into the state ------------------------------------------------------------------------------------- *)
Lemma lanes_nth_bits fuel : forall blk i z, (i < fuel)%nat -> (8 * (i + 1) <= length blk)%nat -> z < 64 ->
  N.testbit (nth i (lanes_of_bytes fuel blk) 0) z = nth (64 * i + N.to_nat z) (bits_of_bytes blk) false.
Proof.
  induction fuel as [|f IH]; intros blk i z Hi Hl Hz; [lia|].
  destruct blk as [|b t]; [cbn [length] in Hl; lia|]. cbn [lanes_of_bytes].
  destruct i as [|i].
  - cbn [nth]. rewrite le2n_testbit, (bits_firstn 8). rewrite nth_firstn_lt by lia. f_equal.
  - cbn [nth]. rewrite IH; [|lia|rewrite skipn_length; lia|exact Hz].
    rewrite (bits_skipn 8), nth_skipn_gen. f_equal. lia.
Qed.

Lemma xor_lanes_length st : forall blk, length (xor_lanes st blk) = length st.
Proof. induction st as [|s st IH]; intros [|b blk]; cbn [xor_lanes length]; try reflexivity. now rewrite IH. Qed.

Lemma xor_lanes_nth st : forall blk i, (i < length st)%nat ->
  nth i (xor_lanes st blk) 0 = if (i <? length blk)%nat then N.lxor (nth i st 0) (nth i blk 0) else nth i st 0.
Proof.
  induction st as [|s st IH]; intros blk i Hi; [cbn [length] in Hi; lia|].
  destruct blk as [|b blk]; [reflexivity|].
  destruct i as [|i]; [reflexivity|]. cbn [xor_lanes nth length]. rewrite IH by (cbn [length] in Hi; lia). reflexivity.
Qed.

Lemma wf_xor_block st blk : wf st -> wf (xor_lanes st (lanes_of_bytes 17 blk)).
Proof.
  intros [Hl Hs]. split; [now rewrite xor_lanes_length|]. apply hc_xor_lanes; [exact Hs|apply hc_lanes_of_bytes].
Qed.

Lemma xor_block_refines st blk : wf st -> length blk = 136%nat ->
  eqdom (bitsof (xor_lanes st (lanes_of_bytes 17 blk))) (s_xor_block (bitsof st) (bits_of_bytes blk)).
Proof.
  intros [Hl Hs] Hb x y z [Hx [Hy Hz]]. unfold w in Hz.
  destruct (idx_facts x y Hx Hy) as [I1 [_ [_ I4]]].
  destruct (lanes_of_block blk Hb) as [L17 _].
  unfold bitsof, s_xor_block, lane. rewrite xor_lanes_nth by lia. rewrite L17.
  assert (Hbits : length (bits_of_bytes blk) = 1088%nat) by (rewrite bits_of_bytes_length, Hb; reflexivity).
  unfold bit_index. rewrite I4 in *.
  destruct (Nat.ltb_spec (x + 5 * y) 17) as [Lt|Ge].
  - rewrite N.lxor_spec. f_equal. rewrite lanes_nth_bits; [|exact Lt|lia|exact Hz]. f_equal. lia.
  - rewrite (nth_overflow (bits_of_bytes blk)) by lia. now rewrite xorb_false_r.
Qed.

(* ---- congruences -------------------------------------------------------------------------------------------------------- *)
Lemma s_xor_block_cong A B P : eqdom A B -> eqdom (s_xor_block A P) (s_xor_block B P).
Proof. intros H x y z D. unfold s_xor_block. now rewrite H. Qed.

Lemma s_rounds_cong irs : forall A B, eqdom A B ->
  eqdom (fold_left (fun A ir => s_round ir A) irs A) (fold_left (fun A ir => s_round ir A) irs B).
Proof. induction irs as [|ir irs IH]; intros A B H; [exact H|]. cbn [fold_left]. now apply IH, s_round_cong. Qed.

Lemma s_keccak_f_cong A B : eqdom A B -> eqdom (s_keccak_f A) (s_keccak_f B).
Proof. apply s_rounds_cong. Qed.

(* ---- absorbing ------------------------------------------------------------------------------------------------------------- *)
Lemma absorb_refines k : forall st p A, wf st -> length p = (136 * k)%nat -> eqdom (bitsof st) A ->
  wf (fold_left absorb_block (blocks k p) st) /\
  eqdom (bitsof (fold_left absorb_block (blocks k p) st)) (s_absorb s_keccak_f k (bits_of_bytes p) A).
Proof.
  induction k as [|k IH]; intros st p A Hs Hp HA; [split; assumption|].
  cbn [blocks fold_left s_absorb]. unfold rate_bits.
  change 1088%nat with (8 * 136)%nat. rewrite <- bits_skipn, <- bits_firstn.
  assert (Hf : length (firstn 136 p) = 136%nat) by (rewrite firstn_length; lia).
  apply IH.
  - unfold absorb_block. apply keccak_f_refines. now apply wf_xor_block.
  - rewrite skipn_length. lia.
  - unfold absorb_block. eapply eqdom_trans; [apply keccak_f_refines; now apply wf_xor_block|].
    apply s_keccak_f_cong. eapply eqdom_trans; [now apply xor_block_refines|]. now apply s_xor_block_cong.
Qed.

(* ---- squeezing -------------------------------------------------------------------------------------------------------------- *)
Lemma n2le8_bits v : v < 2 ^ 64 ->
  bits_of_bytes (n2le 8 v) = map (fun z => N.testbit v (N.of_nat z)) (seq 0 64).
Proof.
  intros Hv. apply (nth_ext _ _ false false).
  - rewrite bits_of_bytes_length, n2le_length, map_length, seq_length. reflexivity.
  - intros i Hi. rewrite bits_of_bytes_length, n2le_length in Hi.
    rewrite nth_map_seq by exact Hi.
    rewrite <- (Nat2N.id i) at 1. rewrite <- le2n_testbit. now rewrite le2n_n2le.
Qed.

Lemma s_lane_cong A B x y : (x < 5)%nat -> (y < 5)%nat -> eqdom A B -> s_lane A x y = s_lane B x y.
Proof.
  intros Hx Hy H. unfold s_lane. apply map_ext_in. intros z Hz. apply in_seq in Hz. apply H.
  unfold in_dom, w. repeat split; lia.
Qed.

Lemma s_string_cong A B : eqdom A B -> s_string A = s_string B.
Proof.
  intros H. unfold s_string, s_plane. cbn [seq flat_map].
  repeat (rewrite (s_lane_cong A B) by (try exact H; lia)). reflexivity.
Qed.

Lemma squeeze_refines st : wf st ->
  bits_of_bytes (flat_map (n2le 8) (firstn 4 st)) = firstn 256 (s_string (bitsof st)).
Proof.
  intros [Hl Hs].
  destruct st as [|v0 [|v1 [|v2 [|v3 rest]]]]; try discriminate Hl.
  inversion Hs as [|? ? H0 Hs1]; subst. inversion Hs1 as [|? ? H1 Hs2]; subst.
  inversion Hs2 as [|? ? H2 Hs3]; subst. inversion Hs3 as [|? ? H3 _]; subst.
  change (firstn 4 (v0 :: v1 :: v2 :: v3 :: rest)) with [v0; v1; v2; v3].
  unfold s_string, s_plane. cbn [seq flat_map]. rewrite <- !app_assoc.
  set (l0 := s_lane _ 0%nat 0%nat). set (l1 := s_lane _ 1%nat 0%nat). set (l2 := s_lane _ 2%nat 0%nat). set (l3 := s_lane _ 3%nat 0%nat).
  assert (X : forall (a b c d t : list bit), a ++ b ++ c ++ d ++ t = (a ++ b ++ c ++ d) ++ t)
    by (intros; now rewrite <- !app_assoc).
  rewrite (X l0 l1 l2 l3).
  rewrite firstn_exact_gen by (unfold l0, l1, l2, l3, s_lane; rewrite !app_length, !map_length, !seq_length; reflexivity).
  rewrite app_nil_r, !bits_of_bytes_app.
  rewrite !n2le8_bits by (now apply hi_clear_lt).
  reflexivity.
Qed.

(* ---- the whole hash ----------------------------------------------------------------------------------------------------------- *)
Lemma wf_zero : wf (repeat 0 25) /\ eqdom (bitsof (repeat 0 25)) s_zero.
Proof.
  split; [split; [apply repeat_length|apply hc_repeat0]|].
  intros x y z [Hx [Hy _]]. unfold bitsof, s_zero. small x; small y; apply N.bits_0.
Qed.

Theorem keccak256_is_sponge m : bits_of_bytes (keccak256 m) = keccak256_bits (bits_of_bytes m).
Proof.
  destruct (keccak256_blocks m) as [Hd [_ [_ [_ [E _]]]]].
  set (k := (length m / 136 + 1)%nat) in *.
  destruct wf_zero as [W0 Z0].
  destruct (absorb_refines k (repeat 0 25) (pad m) s_zero W0) as [Wf Ef]; [apply pad_length|exact Z0|].
  rewrite E, squeeze_refines by exact Wf.
  unfold keccak256_bits, sponge256. rewrite <- pad_is_pad10star1.
  assert (Hk : (length (bits_of_bytes (pad m)) / rate_bits = k)%nat).
  { rewrite bits_of_bytes_length, pad_length. fold k. unfold rate_bits.
    replace (8 * (136 * k))%nat with (k * 1088)%nat by lia. apply Nat.div_mul. discriminate. }
  rewrite Hk. f_equal. now apply s_string_cong.
Qed.
