(* NoPanic.v — C04 (a): no consensus decoder of Model/Codec.v can return `Panic`, and none can return `Err EFuel`
   (the codec has no fuel at all: `rep` is binary recursion on its count, `read_n` / `dec_v1_sigs` / `collect` are
   structural).  One `NoPanic` instance per decoder, for every size table and every value of the context
   parameters (input / output counts, mixin, RingCT type). *)
From MRS Require Export Proofs.CodecBase.
Open Scope N_scope.

(* the two results a total, fuel-free decoder never produces *)
Definition clean {A} (x : res A * bytes) : Prop := fst x <> Panic /\ fst x <> Err EFuel.

Class NoPanic {A} (d : dec A) := no_panic_pf : forall s, clean (d s).

Lemma clean_iff {A} (x : res A * bytes) : clean x <-> (forall r, x <> (Panic, r)) /\ (forall r, x <> (Err EFuel, r)).
Proof.
  unfold clean. destruct x as [[a|e|] r0]; cbn [fst]; split.
  - intros _. split; intros r H; discriminate.
  - intros _. split; discriminate.
  - intros [_ H]. split; intros r E; [discriminate|]. inversion E; subst. congruence.
  - intros [_ H]. split; [discriminate|]. intros E. apply (H r0). congruence.
  - intros [H _]. congruence.
  - intros [H _]. exfalso. now apply (H r0).
Qed.

Lemma no_panic {A} (d : dec A) `{NoPanic A d} s r : d s <> (Panic, r).
Proof. pose proof (no_panic_pf s) as Hc. apply clean_iff in Hc. apply Hc. Qed.
Lemma no_fuel {A} (d : dec A) `{NoPanic A d} s r : d s <> (Err EFuel, r).
Proof. pose proof (no_panic_pf s) as Hc. apply clean_iff in Hc. apply Hc. Qed.

(* ---- the monad ----------------------------------------------------------------------------------------- *)
Global Instance np_ret {A} (a : A) : NoPanic (ret a).
Proof. intros s. split; discriminate. Qed.
Lemma np_fail_bad {A} : NoPanic (@fail A EBad).
Proof. intros s. split; discriminate. Qed.
Lemma np_fail_eof {A} : NoPanic (@fail A EEof).
Proof. intros s. split; discriminate. Qed.
Global Existing Instance np_fail_bad.
Global Existing Instance np_fail_eof.

Global Instance np_bind {A B} (d : dec A) (k : A -> dec B) :
  NoPanic d -> (forall a, NoPanic (k a)) -> NoPanic (bind d k).
Proof.
  intros Hd Hk s. unfold bind. pose proof (Hd s) as Hc. destruct (d s) as [[a|e|] r1].
  - apply Hk.
  - destruct Hc as [_ Hf]. cbn [fst] in Hf. split; cbn [fst]; [discriminate|]. intros E. apply Hf. congruence.
  - destruct Hc as [Hp _]. cbn [fst] in Hp. congruence.
Qed.

Global Instance np_dmap {A B} (f : A -> B) (d : dec A) : NoPanic d -> NoPanic (dmap f d).
Proof. intros Hd. unfold dmap. apply np_bind; [exact Hd|intros a; apply np_ret]. Qed.

(* ---- primitives ---------------------------------------------------------------------------------------- *)
Global Instance np_read_u8 : NoPanic read_u8.
Proof. intros [|b s]; split; discriminate. Qed.

Global Instance np_read_n n : NoPanic (read_n n).
Proof.
  induction n as [|n IH]; cbn [read_n]; [apply np_ret|].
  apply np_bind; [apply np_read_u8|intros b]. apply np_bind; [exact IH|intros t; apply np_ret].
Qed.

Lemma collect_no_fuel s : forall first r, collect s first <> (Err EFuel, r).
Proof.
  induction s as [|x s IH]; intros first r; cbn [collect]; [discriminate|].
  destruct (_ && _); [discriminate|]. destruct (_ =? _); [discriminate|].
  destruct (collect s false) as [[gs|e|] r'] eqn:E; try discriminate.
  intros H. inversion H; subst. now apply (IH false r).
Qed.

Lemma accum_no_fuel l : forall acc, accum l acc <> Err EFuel.
Proof.
  induction l as [|g t IH]; intros acc; cbn [accum]; [discriminate|].
  destruct t as [|h t]; [discriminate|]. destruct (_ <? _); [apply IH|discriminate].
Qed.

Global Instance np_varint : NoPanic dec_varint.
Proof.
  intros s. apply clean_iff. split; intros r.
  - apply dec_varint_never_panics.
  - unfold dec_varint. destruct (collect s true) as [[gs|e|] r'] eqn:E.
    + intros H. inversion H as [[H1 H2]]. now apply accum_no_fuel in H1.
    + intros H. inversion H; subst. now apply collect_no_fuel in E.
    + discriminate.
Qed.

Global Instance np_u8 : NoPanic dec_u8.
Proof. unfold dec_u8. apply np_dmap, np_read_u8. Qed.
Global Instance np_uint k : NoPanic (dec_uint k).
Proof. unfold dec_uint. apply np_dmap, np_read_n. Qed.
Global Instance np_u16 : NoPanic dec_u16.
Proof. exact (np_uint 2). Qed.
Global Instance np_u32 : NoPanic dec_u32.
Proof. exact (np_uint 4). Qed.
Global Instance np_u64 : NoPanic dec_u64.
Proof. exact (np_uint 8). Qed.
Global Instance np_bool : NoPanic dec_bool.
Proof. unfold dec_bool. apply np_dmap, np_u8. Qed.
Global Instance np_arr k : NoPanic (dec_arr k).
Proof. exact (np_read_n k). Qed.
Global Instance np_hash : NoPanic dec_hash.
Proof. exact (np_read_n 32). Qed.
Global Instance np_hash8 : NoPanic dec_hash8.
Proof. exact (np_read_n 8). Qed.
Global Instance np_key64 : NoPanic dec_key64.
Proof. exact (np_read_n 2048). Qed.
Global Instance np_len : NoPanic dec_len.
Proof. exact np_varint. Qed.

(* instance search never looks inside the primitives (dec_key64 = read_n 2048 would be unfolded 2048 times) *)
Global Typeclasses Opaque read_n read_u8 dec_varint dec_len dec_u8 dec_uint dec_u16 dec_u32 dec_u64 dec_bool
  dec_arr dec_hash dec_hash8 dec_key64 rep rep_pos.

(* ---- repetition: binary recursion, no fuel ------------------------------------------------------------------ *)
Global Instance np_rep_pos {A} (d : dec A) p : NoPanic d -> NoPanic (rep_pos p d).
Proof.
  intros Hd. induction p as [p IH|p IH|]; cbn [rep_pos].
  - apply np_bind; [exact Hd|intros a]. apply np_bind; [exact IH|intros l1].
    apply np_bind; [exact IH|intros l2; apply np_ret].
  - apply np_bind; [exact IH|intros l1]. apply np_bind; [exact IH|intros l2; apply np_ret].
  - apply np_bind; [exact Hd|intros a; apply np_ret].
Qed.

Global Instance np_rep {A} (d : dec A) n : NoPanic d -> NoPanic (rep n d).
Proof. intros Hd. destruct n as [|p]; cbn [rep]; [apply np_ret|now apply np_rep_pos]. Qed.

Global Instance np_sized {A} (d : dec A) size n : NoPanic d -> NoPanic (dec_sized size n d).
Proof. intros Hd. unfold dec_sized. destruct (over_cap size n); [apply np_fail_bad|now apply np_rep]. Qed.

Global Instance np_vec {A} (d : dec A) size : NoPanic d -> NoPanic (dec_vec size d).
Proof.
  intros Hd. unfold dec_vec. apply np_bind; [exact np_len|intros n].
  destruct (over_cap size n); [apply np_fail_bad|now apply np_rep].
Qed.

Global Instance np_bytes_vec : NoPanic dec_bytes_vec.
Proof. unfold dec_bytes_vec. apply np_vec, np_read_u8. Qed.
Global Typeclasses Opaque dec_vec dec_sized dec_bytes_vec.

(* ---- the tactic: peel binds, split conditionals and matches, close leaves by instance search ----------------- *)
Ltac np1 :=
  match goal with
  | |- NoPanic (bind _ _) => apply np_bind; [|intros ?]
  | |- NoPanic (if ?c then _ else _) => destruct c
  | |- NoPanic (let '(_, _) := ?p in _) => destruct p
  | |- NoPanic (match ?x with _ => _ end) => destruct x
  | |- NoPanic _ => solve [exact _]
  end.
Ltac np := repeat np1.

(* ---- one instance per type of Codec.v -------------------------------------------------------------------------- *)
Global Instance np_txin : NoPanic dec_txin.
Proof. unfold dec_txin. np. Qed.
Global Instance np_target : NoPanic dec_target.
Proof. unfold dec_target. np. Qed.
Global Instance np_txout : NoPanic dec_txout.
Proof. unfold dec_txout. np. Qed.
Global Instance np_prefix sz : NoPanic (dec_prefix sz).
Proof. unfold dec_prefix. np. Qed.
Global Instance np_rct_type : NoPanic dec_rct_type.
Proof. unfold dec_rct_type. np. Qed.
Global Instance np_signature : NoPanic dec_signature.
Proof. unfold dec_signature. np. Qed.
Global Instance np_ecdh t : NoPanic (dec_ecdh t).
Proof. unfold dec_ecdh. np. Qed.
Global Instance np_borosig : NoPanic dec_borosig.
Proof. unfold dec_borosig. np. Qed.
Global Instance np_rangesig : NoPanic dec_rangesig.
Proof. unfold dec_rangesig. np. Qed.
Global Instance np_bulletproof : NoPanic dec_bulletproof.
Proof. unfold dec_bulletproof. np. Qed.
Global Instance np_bpplus : NoPanic dec_bpplus.
Proof. unfold dec_bpplus. np. Qed.
Global Instance np_clsag mixin : NoPanic (dec_clsag mixin).
Proof. unfold dec_clsag. np. Qed.
Global Instance np_mgsig mixin cols : NoPanic (dec_mgsig mixin cols).
Proof. unfold dec_mgsig. np. Qed.
Global Instance np_rct_base n_in n_out : NoPanic (dec_rct_base n_in n_out).
Proof. unfold dec_rct_base. np. Qed.
Global Instance np_rct_prunable sz t n_in n_out mixin : NoPanic (dec_rct_prunable sz t n_in n_out mixin).
Proof. unfold dec_rct_prunable. np. Qed.

Global Instance np_v1_sigs ins : NoPanic (dec_v1_sigs ins).
Proof.
  induction ins as [|i t IH]; cbn [dec_v1_sigs]; [exact _|].
  destruct i as [h|a ko ki]; [exact IH|]. np.
Qed.

Global Instance np_tx sz : NoPanic (dec_tx sz).
Proof. unfold dec_tx. np. Qed.
Global Instance np_header : NoPanic dec_header.
Proof. unfold dec_header. np. Qed.
Global Instance np_block sz : NoPanic (dec_block sz).
Proof. unfold dec_block. np. Qed.

(* ---- the entry points ------------------------------------------------------------------------------------------- *)
Lemma deserialize_partial_clean {A} (d : dec A) `{NoPanic A d} s :
  deserialize_partial d s <> Panic /\ deserialize_partial d s <> Err EFuel.
Proof.
  unfold deserialize_partial. pose proof (no_panic_pf s) as [H1 H2]. destruct (d s) as [[a|e|] r]; cbn [fst] in *.
  - split; discriminate.
  - split; [discriminate|]. congruence.
  - congruence.
Qed.

Lemma deserialize_clean {A} (d : dec A) `{NoPanic A d} s :
  deserialize d s <> Panic /\ deserialize d s <> Err EFuel.
Proof.
  unfold deserialize. pose proof (deserialize_partial_clean d s) as [H1 H2].
  destruct (deserialize_partial d s) as [[a n]|e|].
  - destruct (n =? lenN s); split; discriminate.
  - split; [discriminate|]. congruence.
  - congruence.
Qed.

(* ---- the class in plain words (what Props/C04.v states) ------------------------------------------------------------ *)
Definition total {A} (d : dec A) : Prop := forall s r, d s <> (Panic, r) /\ d s <> (Err EFuel, r).

Lemma total_of {A} (d : dec A) `{NoPanic A d} : total d.
Proof. intros s r. split; [now apply no_panic|now apply no_fuel]. Qed.

Lemma np_of_total {A} (d : dec A) : total d -> NoPanic d.
Proof. intros Ht s. apply clean_iff. split; intros r; apply (Ht s r). Qed.

Lemma rep_total {A} (d : dec A) n : total d -> total (rep n d).
Proof. intros Ht. apply total_of. apply np_rep. now apply np_of_total. Qed.
Lemma vec_total {A} (d : dec A) size : total d -> total (dec_vec size d).
Proof. intros Ht. apply total_of. apply np_vec. now apply np_of_total. Qed.
Lemma sized_total {A} (d : dec A) size n : total d -> total (dec_sized size n d).
Proof. intros Ht. apply total_of. apply np_sized. now apply np_of_total. Qed.
