(* ExtraProofs.v — C16: the transaction extra.  Sub-field decoder/encoder, the best-effort loop, accessors.
   Everything is proved for an arbitrary key-validity predicate `valid_pk` (PublicKey::from_slice acceptance). *)
From MRS Require Export Model.Extra Proofs.CodecBase Proofs.CodecExact.
Open Scope N_scope.

(* ---- "good" decoders: never Panic, and the cursor only moves forward --------------------------------- *)
Definition good {A} (d : dec A) : Prop :=
  forall s, fst (d s) <> Panic /\ (length (snd (d s)) <= length s)%nat.

Lemma good_ret {A} (a : A) : good (ret a).
Proof. intros s. cbn. split; [discriminate|lia]. Qed.
Lemma good_fail {A} e : good (@fail A e).
Proof. intros s. cbn. split; [discriminate|lia]. Qed.
Lemma good_bind {A B} (d : dec A) (k : A -> dec B) : good d -> (forall a, good (k a)) -> good (bind d k).
Proof.
  intros Hd Hk s. unfold bind. destruct (Hd s) as [Hp Hl]. destruct (d s) as [[a|e|] r]; cbn [fst snd] in *.
  - destruct (Hk a r) as [Hp' Hl']. split; [assumption|lia].
  - split; [discriminate|assumption].
  - congruence.
Qed.
Lemma good_dmap {A B} (f : A -> B) d : good d -> good (dmap f d).
Proof. intros H. apply good_bind; [assumption|intros a; apply good_ret]. Qed.
Lemma good_if {A} (c : bool) (d1 d2 : dec A) : good d1 -> good d2 -> good (if c then d1 else d2).
Proof. destruct c; auto. Qed.
Lemma good_read_u8 : good read_u8.
Proof. intros [|b s]; cbn; (split; [discriminate|lia]). Qed.
Lemma good_read_n n : good (read_n n).
Proof.
  induction n as [|n IH]; cbn [read_n]; [apply good_ret|].
  apply good_bind; [apply good_read_u8|intros b]. apply good_bind; [assumption|intros t; apply good_ret].
Qed.
Lemma collect_len s : forall first, (length (snd (collect s first)) <= length s)%nat.
Proof.
  induction s as [|b s IH]; intros first; cbn [collect]; [cbn; lia|].
  destruct (_ && _); [cbn; lia|]. destruct (_ =? _); [cbn; lia|].
  specialize (IH false). destruct (collect s false) as [[gs|e|] r']; cbn [snd length] in *; lia.
Qed.
Lemma good_varint : good dec_varint.
Proof.
  intros s. split.
  - destruct (dec_varint s) as [[n|e|] r] eqn:E; cbn; try discriminate.
    exfalso. exact (dec_varint_never_panics _ _ E).
  - unfold dec_varint. pose proof (collect_len s true) as H.
    destruct (collect s true) as [[gs|e|] r']; cbn [snd] in *; assumption.
Qed.
Lemma good_repn {A} (d : dec A) : good d -> forall n, good (repn n d).
Proof.
  intros Hd. induction n as [|n IH]; cbn [repn]; [apply good_ret|].
  apply good_bind; [assumption|intros a]. apply good_bind; [assumption|intros t; apply good_ret].
Qed.
Lemma good_rep {A} (d : dec A) n : good d -> good (rep n d).
Proof. intros Hd s. rewrite rep_repn. now apply good_repn. Qed.
Lemma good_vec {A} (d : dec A) size : good d -> good (dec_vec size d).
Proof.
  intros Hd. unfold dec_vec, dec_len. apply good_bind; [apply good_varint|intros n].
  apply good_if; [apply good_fail|now apply good_rep].
Qed.
Lemma good_bytes_vec : good dec_bytes_vec.
Proof. apply good_vec, good_read_u8. Qed.

(* ---- vectors: serialise then parse ------------------------------------------------------------------- *)
Lemma dec_vec_complete {A} (d : dec A) e wf `{Complete A d e wf} size l r :
  Forall wf l -> lenN l < 2 ^ 64 -> over_cap size (lenN l) = false ->
  dec_vec size d (enc_vec e l ++ r) = (Ok l, r).
Proof.
  intros Hf Hl Hc. unfold dec_vec, dec_len, enc_vec. rewrite <- app_assoc.
  unfold bind at 1. rewrite dec_enc_varint by assumption. rewrite Hc.
  now apply rep_complete with (wf := wf).
Qed.

Lemma enc_list_bytes l : enc_list (fun b : byte => [b]) l = l.
Proof. unfold enc_list. induction l as [|b t IH]; [reflexivity|]. cbn. now rewrite IH. Qed.

Lemma cap_lt64 size n : over_cap size n = false -> 1 <= size -> n < 2 ^ 64.
Proof.
  unfold over_cap, MAX_VEC_MEM_ALLOC_SIZE. intros H Hs.
  destruct (N.ltb_spec (32 * 1024 * 1024) (size * n)) as [L|L]; [discriminate|].
  assert (n <= size * n) by nia. change (2 ^ 64) with 18446744073709551616. lia.
Qed.

Lemma dec_bytes_vec_complete b r :
  lenN b <= MAX_VEC_MEM_ALLOC_SIZE -> dec_bytes_vec (enc_bytes_vec b ++ r) = (Ok b, r).
Proof.
  intros Hb. unfold dec_bytes_vec.
  assert (Hc : over_cap 1 (lenN b) = false).
  { unfold over_cap. destruct (N.ltb_spec MAX_VEC_MEM_ALLOC_SIZE (1 * lenN b)); [lia|reflexivity]. }
  assert (Cm : Complete read_u8 (fun x : byte => [x]) (fun _ => True)) by (intros a r' _; reflexivity).
  pose proof (dec_vec_complete read_u8 (fun x : byte => [x]) (fun _ => True) 1 b r) as H.
  unfold enc_vec in H. rewrite enc_list_bytes in H. unfold enc_bytes_vec. apply H.
  - apply Forall_forall. auto.
  - apply (cap_lt64 1); [assumption|lia].
  - assumption.
Qed.

(* ---- merge-mining size byte: the u8 arithmetic never overflows ---------------------------------------- *)
Lemma mm_size_ok d : d < 2 ^ 64 ->
  mm_size_overflows d = false /\ mm_size d = 32 + lenN (enc_varint d) /\ 33 <= mm_size d <= 42.
Proof.
  intros Hd. unfold mm_size_overflows, mm_size, mm_size_cast. rewrite enc_varint_len_reported.
  pose proof (enc_varint_len_bounds d Hd) as Hb. unfold lenN.
  assert (Hl : N.of_nat (length (enc_varint d)) < 256) by lia.
  rewrite (N.mod_small _ 256 Hl). rewrite (N.mod_small (32 + _) 256) by lia.
  split; [|lia]. destruct (N.ltb_spec 255 (32 + N.of_nat (length (enc_varint d)))); [lia|reflexivity].
Qed.

Section Extra.
Variable valid_pk : bytes -> bool.
Notation dec_sf := (dec_subfield valid_pk).
Notation dec_pk := (dec_pubkey valid_pk).

(* ---- well-formedness = what the Rust types and the allocation cap allow -------------------------------- *)
Definition wf_key (k : bytes) : Prop := length k = 32%nat /\ valid_pk k = true.
Definition wf_subfield (f : subfield) : Prop :=
  match f with
  | TxPublicKey k => wf_key k
  | Nonce b | MysteriousMinerGate b => lenN b <= MAX_VEC_MEM_ALLOC_SIZE
  | Padding n => n <= 255
  | MergeMining d h => d < 2 ^ 64 /\ length h = 32%nat
  | AdditionalPublicKey ks => Forall wf_key ks /\ 32 * lenN ks <= MAX_VEC_MEM_ALLOC_SIZE
  end.
(* padding of fewer than 255 bytes must be the last thing in the buffer *)
Definition pad_ok (f : subfield) (rest : bytes) : Prop :=
  match f with Padding n => n = 255 \/ rest = [] | _ => True end.
Fixpoint pad_rule (fs : list subfield) : Prop :=
  match fs with
  | [] => True
  | f :: t => (match f with Padding n => n = 255 \/ t = [] | _ => True end) /\ pad_rule t
  end.
Definition wf_extra (fs : list subfield) : Prop :=
  Forall wf_subfield fs /\ pad_rule fs /\ lenN (enc_fields fs) <= MAX_VEC_MEM_ALLOC_SIZE.

(* ---- public keys ------------------------------------------------------------------------------------------ *)
Lemma good_pubkey : good dec_pk.
Proof.
  unfold dec_pubkey, dec_arr. apply good_bind; [apply good_read_n|intros k].
  apply good_if; [apply good_ret|apply good_fail].
Qed.
Lemma dec_pubkey_ok s k r : dec_pk s = (Ok k, r) -> s = k ++ r /\ wf_key k.
Proof.
  unfold dec_pubkey, dec_arr. intros H. apply bind_ok in H. destruct H as (a & r1 & H1 & H2).
  apply read_n_ok in H1. destruct H1 as [-> Hl]. destruct (valid_pk a) eqn:Ev; [|discriminate].
  apply ret_ok in H2. destruct H2; subst. repeat split; assumption.
Qed.
Lemma dec_pubkey_complete k r : wf_key k -> dec_pk (k ++ r) = (Ok k, r).
Proof.
  intros [Hl Hv]. unfold dec_pubkey, dec_arr, bind. rewrite <- Hl, read_n_complete, Hv. reflexivity.
Qed.
Instance exact_pubkey : Exact dec_pk enc_arr.
Proof. intros s a r H. apply dec_pubkey_ok in H. unfold enc_arr. tauto. Qed.
Instance complete_pubkey : Complete dec_pk enc_arr wf_key.
Proof. intros a r H. now apply dec_pubkey_complete. Qed.

(* ---- the padding loop ------------------------------------------------------------------------------------- *)
Lemma good_pad_loop k : forall i, i + N.of_nat k <= 255 -> good (pad_loop k i).
Proof.
  induction k as [|k IH]; intros i Hi; cbn [pad_loop]; [apply good_ret|].
  intros [|b s]; cbn [read_u8]; [cbn; split; [discriminate|lia]|].
  destruct (b2n b =? 0); [|cbn; split; [discriminate|lia]].
  destruct (N.eqb_spec i 255) as [E|E]; [lia|].
  destruct (IH (i + 1) ltac:(lia) s) as [Hp Hl]. split; [assumption|cbn [length]; lia].
Qed.

(* what the loop accepts: m zero bytes, and it stops either after k of them or at the end of the input *)
Lemma pad_loop_ok k : forall i s n r, i + N.of_nat k <= 255 ->
  pad_loop k i s = (Ok n, r) ->
  exists m, (m <= k)%nat /\ n = i + N.of_nat m /\ s = repeat x00 m ++ r /\ (m = k \/ r = []).
Proof.
  induction k as [|k IH]; intros i s n r Hi H; cbn [pad_loop] in H.
  - apply ret_ok in H. destruct H; subst. exists 0%nat. cbn. repeat split; lia.
  - destruct s as [|b s]; cbn [read_u8] in H.
    + inversion H; subst. exists 0%nat. cbn. repeat split; try lia; now right.
    + destruct (N.eqb_spec (b2n b) 0) as [Eb|Eb]; [|discriminate].
      destruct (N.eqb_spec i 255) as [E|E]; [lia|].
      apply IH in H; [|lia]. destruct H as (m & Hm & -> & -> & Hor).
      exists (S m). assert (b = x00) as -> by (apply b2n_inj; rewrite Eb; reflexivity).
      cbn [repeat app]. repeat split; try lia. destruct Hor as [Hor|Hor]; [left; lia|now right].
Qed.

Lemma pad_loop_full k : forall i r, i + N.of_nat k <= 255 ->
  pad_loop k i (repeat x00 k ++ r) = (Ok (i + N.of_nat k), r).
Proof.
  induction k as [|k IH]; intros i r Hi; cbn [pad_loop repeat app].
  - unfold ret. f_equal. f_equal. lia.
  - cbn [read_u8]. change (b2n x00 =? 0) with true. cbv iota.
    destruct (N.eqb_spec i 255) as [E|E]; [lia|]. rewrite IH by lia. f_equal. f_equal. lia.
Qed.
Lemma pad_loop_eof m : forall k i, (m <= k)%nat -> i + N.of_nat k <= 255 ->
  pad_loop k i (repeat x00 m) = (Ok (i + N.of_nat m), []).
Proof.
  induction m as [|m IH]; intros k i Hm Hi.
  - replace (i + N.of_nat 0) with i by lia. destruct k; reflexivity.
  - destruct k as [|k]; [lia|]. cbn [pad_loop repeat read_u8]. change (b2n x00 =? 0) with true. cbv iota.
    destruct (N.eqb_spec i 255) as [E|E]; [lia|]. rewrite IH by lia. f_equal. f_equal. lia.
Qed.

(* ---- the sub-field decoder: never panics, always consumes the tag ------------------------------------------ *)
Lemma good_mm_body :
  good (fun s => match dec_u8 s with
                 | (Ok _size, r) => (d <- dec_varint ;; h <- dec_hash ;; ret (MergeMining d h)) r
                 | (Err _, r) => (Err EBad, r)
                 | (Panic, r) => (Panic, r)
                 end).
Proof.
  assert (G : good (d <- dec_varint ;; h <- dec_hash ;; ret (MergeMining d h))).
  { apply good_bind; [apply good_varint|intros d]. apply good_bind; [apply good_read_n|intros h; apply good_ret]. }
  intros [|b s].
  - cbn. split; [discriminate|lia].
  - change (dec_u8 (b :: s)) with (Ok (b2n b), s). cbv iota beta. destruct (G s) as [Hp Hl].
    split; [assumption|cbn [length]; lia].
Qed.

Lemma sf_good_progress s :
  fst (dec_sf s) <> Panic /\ (s <> [] -> (length (snd (dec_sf s)) < length s)%nat).
Proof.
  unfold dec_subfield.
  match goal with |- context [bind dec_u8 ?K0] => set (K := K0) end.
  assert (HK : forall t, good (K t)).
  { intros t. subst K. cbv beta.
    repeat (apply good_if; [|]);
      try (apply good_bind; [|intros ?; apply good_ret]);
      try apply good_fail; try apply good_mm_body; try apply good_bytes_vec; try apply good_pubkey.
    - apply good_pad_loop. change (N.of_nat 255) with 255. lia.
    - apply good_vec, good_pubkey. }
  destruct s as [|b s].
  - cbn. split; [discriminate|congruence].
  - change (bind dec_u8 K (b :: s)) with (K (b2n b) s).
    destruct (HK (b2n b) s) as [Hp Hl]. split; [assumption|intros _; cbn [length]; lia].
Qed.

Lemma dec_sf_never_panics s r : dec_sf s <> (Panic, r).
Proof. intros H. destruct (sf_good_progress s) as [Hp _]. rewrite H in Hp. now apply Hp. Qed.

(* ---- what the sub-field decoder accepts --------------------------------------------------------------------- *)
Lemma dec_bytes_vec_ok s b r :
  dec_bytes_vec s = (Ok b, r) -> s = enc_bytes_vec b ++ r /\ lenN b <= MAX_VEC_MEM_ALLOC_SIZE.
Proof.
  intros H. split; [now apply (exact_pf (d := dec_bytes_vec))|].
  unfold dec_bytes_vec in H.
  assert (Ex : Exact read_u8 (fun b => [b])).
  { intros s' a r' H'. apply read_u8_ok in H'. subst. reflexivity. }
  eapply (dec_vec_ok read_u8 (fun b => [b])) in H. destruct H as (_ & _ & Hc).
  unfold over_cap in Hc. destruct (N.ltb_spec MAX_VEC_MEM_ALLOC_SIZE (1 * lenN b)); [discriminate|lia].
Qed.

Lemma repn_forall {A} (d : dec A) (P : A -> Prop) :
  (forall s a r, d s = (Ok a, r) -> P a) ->
  forall n s l r, repn n d s = (Ok l, r) -> Forall P l.
Proof.
  intros HP. induction n as [|n IH]; intros s l r H; cbn [repn] in H.
  - apply ret_ok in H. destruct H; subst. constructor.
  - apply bind_ok in H. destruct H as (a & r1 & H1 & H2). apply bind_ok in H2. destruct H2 as (t & r2 & H2 & H3).
    apply ret_ok in H3. destruct H3; subst. constructor; [eapply HP; eassumption|eapply IH; eassumption].
Qed.

Lemma dec_keys_ok s ks r :
  dec_vec 32 dec_pk s = (Ok ks, r) ->
  s = enc_vec enc_arr ks ++ r /\ Forall wf_key ks /\ 32 * lenN ks <= MAX_VEC_MEM_ALLOC_SIZE.
Proof.
  intros H. pose proof H as H0. eapply (dec_vec_ok dec_pk enc_arr) in H. destruct H as (-> & _ & Hc).
  split; [reflexivity|]. split.
  - unfold dec_vec, dec_len in H0. apply bind_ok in H0. destruct H0 as (n & r1 & _ & H0).
    destruct (over_cap 32 n); [discriminate|]. rewrite rep_repn in H0.
    eapply repn_forall in H0; [exact H0|]. intros s a r' Ha. now apply dec_pubkey_ok in Ha.
  - unfold over_cap in Hc. destruct (N.ltb_spec MAX_VEC_MEM_ALLOC_SIZE (32 * lenN ks)); [discriminate|lia].
Qed.

(* the consumed bytes are the re-encoding, except that the size byte of a merge-mining tag is not preserved *)
Definition eq_upto_mm_size (f : subfield) (c : bytes) : Prop :=
  match f with
  | MergeMining d h => exists sz : byte, c = enc_u8 3 ++ [sz] ++ enc_varint d ++ h
  | _ => c = enc_subfield f
  end.

Lemma zeros_of_nat m : zeros (N.of_nat m) = repeat x00 m.
Proof. unfold zeros. now rewrite Nat2N.id. Qed.

Lemma dec_subfield_ok s f r :
  dec_sf s = (Ok f, r) ->
  exists c, s = c ++ r /\ eq_upto_mm_size f c /\ wf_subfield f /\ pad_ok f r.
Proof.
  unfold dec_subfield. intros H. apply bind_ok in H. destruct H as (t & r1 & Ht & H).
  apply (exact_pf (d := dec_u8)) in Ht. subst s.
  destruct (N.eqb_spec t 0) as [E|_]; [subst t|].
  { apply bind_ok in H. destruct H as (n & r2 & Hn & H). apply ret_ok in H. destruct H; subst.
    apply pad_loop_ok in Hn; [|change (N.of_nat 255) with 255; lia].
    destruct Hn as (m & Hm & -> & -> & Hor). exists (enc_u8 0 ++ zeros (0 + N.of_nat m)).
    replace (0 + N.of_nat m) with (N.of_nat m) by lia. rewrite zeros_of_nat. cbn [eq_upto_mm_size enc_subfield wf_subfield pad_ok].
    rewrite zeros_of_nat. split; [now rewrite <- app_assoc|]. split; [reflexivity|]. split; [lia|].
    destruct Hor as [-> | ->]; [left; reflexivity|now right]. }
  destruct (N.eqb_spec t 1) as [E|_]; [subst t|].
  { apply bind_ok in H. destruct H as (k & r2 & Hk & H). apply ret_ok in H. destruct H; subst.
    apply dec_pubkey_ok in Hk. destruct Hk as [-> Hw]. exists (enc_u8 1 ++ enc_arr k).
    cbn [eq_upto_mm_size enc_subfield wf_subfield pad_ok]. unfold enc_arr. rewrite <- app_assoc. auto. }
  destruct (N.eqb_spec t 2) as [E|_]; [subst t|].
  { apply bind_ok in H. destruct H as (b & r2 & Hb & H). apply ret_ok in H. destruct H; subst.
    apply dec_bytes_vec_ok in Hb. destruct Hb as [-> Hw]. exists (enc_u8 2 ++ enc_bytes_vec b).
    cbn [eq_upto_mm_size enc_subfield wf_subfield pad_ok]. rewrite <- app_assoc. auto. }
  destruct (N.eqb_spec t 3) as [E|_]; [subst t|].
  { destruct (dec_u8 r1) as [[sz|e|] r2] eqn:Es; try discriminate.
    apply dmap_ok in Es. destruct Es as (bz & Es & ->). apply read_u8_ok in Es. subst r1.
    apply bind_ok in H. destruct H as (d & r3 & Hd & H). apply bind_ok in H. destruct H as (h & r4 & Hh & H).
    apply ret_ok in H. destruct H; subst. apply dec_varint_sound in Hd. destruct Hd as [Hd ->].
    apply read_n_ok in Hh. destruct Hh as [-> Hl].
    exists (enc_u8 3 ++ [bz] ++ enc_varint d ++ h). cbn [eq_upto_mm_size wf_subfield pad_ok]. repeat split; eauto.
    repeat rewrite <- app_assoc. reflexivity. }
  destruct (N.eqb_spec t 4) as [E|_]; [subst t|].
  { apply bind_ok in H. destruct H as (ks & r2 & Hk & H). apply ret_ok in H. destruct H; subst.
    apply dec_keys_ok in Hk. destruct Hk as (-> & Hf & Hc). exists (enc_u8 4 ++ enc_vec enc_arr ks).
    cbn [eq_upto_mm_size enc_subfield wf_subfield pad_ok]. rewrite <- app_assoc. auto. }
  destruct (N.eqb_spec t 222) as [E|_]; [subst t|discriminate].
  { apply bind_ok in H. destruct H as (b & r2 & Hb & H). apply ret_ok in H. destruct H; subst.
    apply dec_bytes_vec_ok in Hb. destruct Hb as [-> Hw]. exists (enc_u8 222 ++ enc_bytes_vec b).
    cbn [eq_upto_mm_size enc_subfield wf_subfield pad_ok]. rewrite <- app_assoc. auto. }
Qed.

(* ---- serialise one sub-field, parse it back ---------------------------------------------------------------------- *)
Lemma dec_u8_enc t r : t < 256 -> dec_u8 (enc_u8 t ++ r) = (Ok t, r).
Proof. intros Ht. unfold dec_u8, enc_u8, dmap, bind, ret. cbn [app read_u8]. now rewrite b2n_n2b_small. Qed.

Lemma bind_dec_u8_enc {B} t r (K : N -> dec B) : t < 256 -> bind dec_u8 K (enc_u8 t ++ r) = K t r.
Proof. intros Ht. unfold bind. now rewrite dec_u8_enc. Qed.

Ltac eval_eqb :=
  repeat match goal with
         | |- context [?a =? ?b] => let v := eval vm_compute in (a =? b) in change (a =? b) with v
         end; cbv iota.

Lemma dec_subfield_complete f r :
  wf_subfield f -> pad_ok f r -> dec_sf (enc_subfield f ++ r) = (Ok f, r).
Proof.
  intros Hw Hp. unfold dec_subfield.
  destruct f as [k|b|n|d h|ks|b]; cbn [enc_subfield wf_subfield pad_ok] in *; rewrite <- app_assoc;
    rewrite bind_dec_u8_enc by lia; eval_eqb.
  - unfold enc_arr. unfold bind. now rewrite dec_pubkey_complete.
  - unfold bind. now rewrite dec_bytes_vec_complete.
  - unfold bind. destruct Hp as [-> | ->].
    + unfold zeros. change (N.to_nat 255) with 255%nat. rewrite pad_loop_full by (change (N.of_nat 255) with 255; lia).
      reflexivity.
    + rewrite app_nil_r. unfold zeros. rewrite pad_loop_eof; [|lia|change (N.of_nat 255) with 255; lia].
      unfold ret. rewrite N2Nat.id. reflexivity.
  - destruct Hw as [Hd Hl]. destruct (mm_size_ok d Hd) as (_ & _ & Hs). rewrite <- app_assoc.
    rewrite dec_u8_enc by lia. rewrite <- app_assoc. unfold bind. rewrite dec_enc_varint by assumption.
    unfold dec_hash, dec_arr, enc_arr. rewrite <- Hl, read_n_complete. reflexivity.
  - destruct Hw as [Hf Hc]. unfold bind. rewrite (dec_vec_complete dec_pk enc_arr wf_key); [reflexivity|assumption| |].
    + unfold MAX_VEC_MEM_ALLOC_SIZE in Hc. change (2 ^ 64) with 18446744073709551616. lia.
    + unfold over_cap. destruct (N.ltb_spec MAX_VEC_MEM_ALLOC_SIZE (32 * lenN ks)); [lia|reflexivity].
  - unfold bind. now rewrite dec_bytes_vec_complete.
Qed.

Lemma enc_subfield_nonempty f : exists t rest, enc_subfield f = t :: rest.
Proof. destruct f; cbn [enc_subfield]; unfold enc_u8; cbn [app]; eauto. Qed.

(* strict parse (`deserialize`) of one sub-field alone *)
Lemma deserialize_subfield f : wf_subfield f -> deserialize dec_sf (enc_subfield f) = Ok f.
Proof.
  intros Hw. unfold deserialize, deserialize_partial.
  pose proof (dec_subfield_complete f [] Hw) as H. rewrite app_nil_r in H. rewrite H.
  - change (lenN (@nil byte)) with 0. rewrite N.sub_0_r. now rewrite N.eqb_refl.
  - destruct f; cbn; auto.
Qed.

End Extra.
