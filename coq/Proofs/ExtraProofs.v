(* ExtraProofs.v — C16: the transaction extra.  Sub-field decoder/encoder, the best-effort loop, accessors.
   Everything is proved for an arbitrary key-validity predicate `valid_pk` (PublicKey::from_slice acceptance). *)
From MRS Require Export Model.Extra Proofs.CodecBase Proofs.CodecExact.
Open Scope N_scope.

(* ---- "good" decoders: never Panic, and the cursor only moves forward --------------------------------- *)
Definition good {A} (d : dec A) : Prop :=
  forall s, fst (d s) <> Panic /\ (length (snd (d s)) <= length s)%nat.

Lemma good_ret {A} (a : A) : good (ret a).
Proof. intros s. cbn. split; [discriminate|lia]. Qed.
Lemma good_fail {A} e : good (@fail A e).
Proof. intros s. cbn. split; [discriminate|lia]. Qed.
Lemma good_bind {A B} (d : dec A) (k : A -> dec B) : good d -> (forall a, good (k a)) -> good (bind d k).
Proof.
  intros Hd Hk s. unfold bind. destruct (Hd s) as [Hp Hl]. destruct (d s) as [[a|e|] r]; cbn [fst snd] in *.
  - destruct (Hk a r) as [Hp' Hl']. split; [assumption|lia].
  - split; [discriminate|assumption].
  - congruence.
Qed.
Lemma good_dmap {A B} (f : A -> B) d : good d -> good (dmap f d).
Proof. intros H. apply good_bind; [assumption|intros a; apply good_ret]. Qed.
Lemma good_if {A} (c : bool) (d1 d2 : dec A) : good d1 -> good d2 -> good (if c then d1 else d2).
Proof. destruct c; auto. Qed.
Lemma good_read_u8 : good read_u8.
Proof. intros [|b s]; cbn; (split; [discriminate|lia]). Qed.
Lemma good_read_n n : good (read_n n).
Proof.
  induction n as [|n IH]; cbn [read_n]; [apply good_ret|].
  apply good_bind; [apply good_read_u8|intros b]. apply good_bind; [assumption|intros t; apply good_ret].
Qed.
Lemma collect_len s : forall first, (length (snd (collect s first)) <= length s)%nat.
Proof.
  induction s as [|b s IH]; intros first; cbn [collect]; [cbn; lia|].
  destruct (_ && _); [cbn; lia|]. destruct (_ =? _); [cbn; lia|].
  specialize (IH false). destruct (collect s false) as [[gs|e|] r']; cbn [snd length] in *; lia.
Qed.
Lemma good_varint : good dec_varint.
Proof.
  intros s. split.
  - destruct (dec_varint s) as [[n|e|] r] eqn:E; cbn; try discriminate.
    exfalso. exact (dec_varint_never_panics _ _ E).
  - unfold dec_varint. pose proof (collect_len s true) as H.
    destruct (collect s true) as [[gs|e|] r']; cbn [snd] in *; assumption.
Qed.
Lemma good_repn {A} (d : dec A) : good d -> forall n, good (repn n d).
Proof.
  intros Hd. induction n as [|n IH]; cbn [repn]; [apply good_ret|].
  apply good_bind; [assumption|intros a]. apply good_bind; [assumption|intros t; apply good_ret].
Qed.
Lemma good_rep {A} (d : dec A) n : good d -> good (rep n d).
Proof. intros Hd s. rewrite rep_repn. now apply good_repn. Qed.
Lemma good_vec {A} (d : dec A) size : good d -> good (dec_vec size d).
Proof.
  intros Hd. unfold dec_vec, dec_len. apply good_bind; [apply good_varint|intros n].
  apply good_if; [apply good_fail|now apply good_rep].
Qed.
Lemma good_bytes_vec : good dec_bytes_vec.
Proof. apply good_vec, good_read_u8. Qed.

(* ---- vectors: serialise then parse ------------------------------------------------------------------- *)
Lemma dec_vec_complete {A} (d : dec A) e wf `{Complete A d e wf} size l r :
  Forall wf l -> lenN l < 2 ^ 64 -> over_cap size (lenN l) = false ->
  dec_vec size d (enc_vec e l ++ r) = (Ok l, r).
Proof.
  intros Hf Hl Hc. unfold dec_vec, dec_len, enc_vec. rewrite <- app_assoc.
  unfold bind at 1. rewrite dec_enc_varint by assumption. rewrite Hc.
  now apply rep_complete with (wf := wf).
Qed.

Lemma enc_list_bytes l : enc_list (fun b : byte => [b]) l = l.
Proof. unfold enc_list. induction l as [|b t IH]; [reflexivity|]. cbn. now rewrite IH. Qed.

Lemma cap_lt64 size n : over_cap size n = false -> 1 <= size -> n < 2 ^ 64.
Proof.
  unfold over_cap, MAX_VEC_MEM_ALLOC_SIZE. intros H Hs.
  destruct (N.ltb_spec (32 * 1024 * 1024) (size * n)) as [L|L]; [discriminate|].
  assert (n <= size * n) by nia. change (2 ^ 64) with 18446744073709551616. lia.
Qed.

Lemma dec_bytes_vec_complete b r :
  lenN b <= MAX_VEC_MEM_ALLOC_SIZE -> dec_bytes_vec (enc_bytes_vec b ++ r) = (Ok b, r).
Proof.
  intros Hb. unfold dec_bytes_vec.
  assert (Hc : over_cap 1 (lenN b) = false).
  { unfold over_cap. destruct (N.ltb_spec MAX_VEC_MEM_ALLOC_SIZE (1 * lenN b)); [lia|reflexivity]. }
  assert (Cm : Complete read_u8 (fun x : byte => [x]) (fun _ => True)) by (intros a r' _; reflexivity).
  pose proof (dec_vec_complete read_u8 (fun x : byte => [x]) (fun _ => True) 1 b r) as H.
  unfold enc_vec in H. rewrite enc_list_bytes in H. unfold enc_bytes_vec. apply H.
  - apply Forall_forall. auto.
  - apply (cap_lt64 1); [assumption|lia].
  - assumption.
Qed.

(* ---- merge-mining size byte: the u8 arithmetic never overflows ---------------------------------------- *)
Lemma mm_size_ok d : d < 2 ^ 64 ->
  mm_size_overflows d = false /\ mm_size d = 32 + lenN (enc_varint d) /\ 33 <= mm_size d <= 42.
Proof.
  intros Hd. unfold mm_size_overflows, mm_size, mm_size_cast. rewrite enc_varint_len_reported.
  pose proof (enc_varint_len_bounds d Hd) as Hb. unfold lenN.
  assert (Hl : N.of_nat (length (enc_varint d)) < 256) by lia.
  rewrite (N.mod_small _ 256 Hl). rewrite (N.mod_small (32 + _) 256) by lia.
  split; [|lia]. destruct (N.ltb_spec 255 (32 + N.of_nat (length (enc_varint d)))); [lia|reflexivity].
Qed.

Section Extra.
Variable valid_pk : bytes -> bool.
Notation dec_sf := (dec_subfield valid_pk).
Notation dec_pk := (dec_pubkey valid_pk).

(* ---- well-formedness = what the Rust types and the allocation cap allow -------------------------------- *)
Definition wf_key (k : bytes) : Prop := length k = 32%nat /\ valid_pk k = true.
Definition wf_subfield (f : subfield) : Prop :=
  match f with
  | TxPublicKey k => wf_key k
  | Nonce b | MysteriousMinerGate b => lenN b <= MAX_VEC_MEM_ALLOC_SIZE
  | Padding n => n <= 255
  | MergeMining d h => d < 2 ^ 64 /\ length h = 32%nat
  | AdditionalPublicKey ks => Forall wf_key ks /\ 32 * lenN ks <= MAX_VEC_MEM_ALLOC_SIZE
  end.
(* padding of fewer than 255 bytes must be the last thing in the buffer *)
Definition pad_ok (f : subfield) (rest : bytes) : Prop :=
  match f with Padding n => n = 255 \/ rest = [] | _ => True end.
Fixpoint pad_rule (fs : list subfield) : Prop :=
  match fs with
  | [] => True
  | f :: t => (match f with Padding n => n = 255 \/ t = [] | _ => True end) /\ pad_rule t
  end.
Definition wf_extra (fs : list subfield) : Prop :=
  Forall wf_subfield fs /\ pad_rule fs /\ lenN (enc_fields fs) <= MAX_VEC_MEM_ALLOC_SIZE.

(* ---- public keys ------------------------------------------------------------------------------------------ *)
Lemma good_pubkey : good dec_pk.
Proof.
  unfold dec_pubkey, dec_arr. apply good_bind; [apply good_read_n|intros k].
  apply good_if; [apply good_ret|apply good_fail].
Qed.
Lemma dec_pubkey_ok s k r : dec_pk s = (Ok k, r) -> s = k ++ r /\ wf_key k.
Proof.
  unfold dec_pubkey, dec_arr. intros H. apply bind_ok in H. destruct H as (a & r1 & H1 & H2).
  apply read_n_ok in H1. destruct H1 as [-> Hl]. destruct (valid_pk a) eqn:Ev; [|discriminate].
  apply ret_ok in H2. destruct H2; subst. repeat split; assumption.
Qed.
Lemma dec_pubkey_complete k r : wf_key k -> dec_pk (k ++ r) = (Ok k, r).
Proof.
  intros [Hl Hv]. unfold dec_pubkey, dec_arr, bind. rewrite <- Hl, read_n_complete, Hv. reflexivity.
Qed.
Instance exact_pubkey : Exact dec_pk enc_arr.
Proof. intros s a r H. apply dec_pubkey_ok in H. unfold enc_arr. tauto. Qed.
Instance complete_pubkey : Complete dec_pk enc_arr wf_key.
Proof. intros a r H. now apply dec_pubkey_complete. Qed.

(* ---- the padding loop ------------------------------------------------------------------------------------- *)
Lemma good_pad_loop k : forall i, i + N.of_nat k <= 255 -> good (pad_loop k i).
Proof.
  induction k as [|k IH]; intros i Hi; cbn [pad_loop]; [apply good_ret|].
  intros [|b s]; cbn [read_u8]; [cbn; split; [discriminate|lia]|].
  destruct (b2n b =? 0); [|cbn; split; [discriminate|lia]].
  destruct (N.eqb_spec i 255) as [E|E]; [lia|].
  destruct (IH (i + 1) ltac:(lia) s) as [Hp Hl]. split; [assumption|cbn [length]; lia].
Qed.

(* what the loop accepts: m zero bytes, and it stops either after k of them or at the end of the input *)
Lemma pad_loop_ok k : forall i s n r, i + N.of_nat k <= 255 ->
  pad_loop k i s = (Ok n, r) ->
  exists m, (m <= k)%nat /\ n = i + N.of_nat m /\ s = repeat x00 m ++ r /\ (m = k \/ r = []).
Proof.
  induction k as [|k IH]; intros i s n r Hi H; cbn [pad_loop] in H.
  - apply ret_ok in H. destruct H; subst. exists 0%nat. cbn. repeat split; lia.
  - destruct s as [|b s]; cbn [read_u8] in H.
    + inversion H; subst. exists 0%nat. cbn. repeat split; try lia; now right.
    + destruct (N.eqb_spec (b2n b) 0) as [Eb|Eb]; [|discriminate].
      destruct (N.eqb_spec i 255) as [E|E]; [lia|].
      apply IH in H; [|lia]. destruct H as (m & Hm & -> & -> & Hor).
      exists (S m). assert (b = x00) as -> by (apply b2n_inj; rewrite Eb; reflexivity).
      cbn [repeat app]. repeat split; try lia. destruct Hor as [Hor|Hor]; [left; lia|now right].
Qed.

Lemma pad_loop_full k : forall i r, i + N.of_nat k <= 255 ->
  pad_loop k i (repeat x00 k ++ r) = (Ok (i + N.of_nat k), r).
Proof.
  induction k as [|k IH]; intros i r Hi; cbn [pad_loop repeat app].
  - unfold ret. f_equal. f_equal. lia.
  - cbn [read_u8]. change (b2n x00 =? 0) with true. cbv iota.
    destruct (N.eqb_spec i 255) as [E|E]; [lia|]. rewrite IH by lia. f_equal. f_equal. lia.
Qed.
Lemma pad_loop_eof m : forall k i, (m <= k)%nat -> i + N.of_nat k <= 255 ->
  pad_loop k i (repeat x00 m) = (Ok (i + N.of_nat m), []).
Proof.
  induction m as [|m IH]; intros k i Hm Hi.
  - replace (i + N.of_nat 0) with i by lia. destruct k; reflexivity.
  - destruct k as [|k]; [lia|]. cbn [pad_loop repeat read_u8]. change (b2n x00 =? 0) with true. cbv iota.
    destruct (N.eqb_spec i 255) as [E|E]; [lia|]. rewrite IH by lia. f_equal. f_equal. lia.
Qed.

(* ---- the sub-field decoder: never panics, always consumes the tag ------------------------------------------ *)
Lemma good_mm_body :
  good (fun s => match dec_u8 s with
                 | (Ok _size, r) => (d <- dec_varint ;; h <- dec_hash ;; ret (MergeMining d h)) r
                 | (Err _, r) => (Err EBad, r)
                 | (Panic, r) => (Panic, r)
                 end).
Proof.
  assert (G : good (d <- dec_varint ;; h <- dec_hash ;; ret (MergeMining d h))).
  { apply good_bind; [apply good_varint|intros d]. apply good_bind; [apply good_read_n|intros h; apply good_ret]. }
  intros [|b s].
  - cbn. split; [discriminate|lia].
  - change (dec_u8 (b :: s)) with (Ok (b2n b), s). cbv iota beta. destruct (G s) as [Hp Hl].
    split; [assumption|cbn [length]; lia].
Qed.

Lemma sf_good_progress s :
  fst (dec_sf s) <> Panic /\ (s <> [] -> (length (snd (dec_sf s)) < length s)%nat).
Proof.
  unfold dec_subfield.
  match goal with |- context [bind dec_u8 ?K0] => set (K := K0) end.
  assert (HK : forall t, good (K t)).
  { intros t. subst K. cbv beta.
    repeat (apply good_if; [|]);
      try (apply good_bind; [|intros ?; apply good_ret]);
      try apply good_fail; try apply good_mm_body; try apply good_bytes_vec; try apply good_pubkey.
    - apply good_pad_loop. change (N.of_nat 255) with 255. lia.
    - apply good_vec, good_pubkey. }
  destruct s as [|b s].
  - cbn. split; [discriminate|congruence].
  - change (bind dec_u8 K (b :: s)) with (K (b2n b) s).
    destruct (HK (b2n b) s) as [Hp Hl]. split; [assumption|intros _; cbn [length]; lia].
Qed.

Lemma dec_sf_never_panics s r : dec_sf s <> (Panic, r).
Proof. intros H. destruct (sf_good_progress s) as [Hp _]. rewrite H in Hp. now apply Hp. Qed.

(* ---- what the sub-field decoder accepts --------------------------------------------------------------------- *)
Lemma dec_bytes_vec_ok s b r :
  dec_bytes_vec s = (Ok b, r) -> s = enc_bytes_vec b ++ r /\ lenN b <= MAX_VEC_MEM_ALLOC_SIZE.
Proof.
  intros H. split; [now apply (exact_pf (d := dec_bytes_vec))|].
  unfold dec_bytes_vec in H.
  assert (Ex : Exact read_u8 (fun b => [b])).
  { intros s' a r' H'. apply read_u8_ok in H'. subst. reflexivity. }
  eapply (dec_vec_ok read_u8 (fun b => [b])) in H. destruct H as (_ & _ & Hc).
  unfold over_cap in Hc. destruct (N.ltb_spec MAX_VEC_MEM_ALLOC_SIZE (1 * lenN b)); [discriminate|lia].
Qed.

Lemma repn_forall {A} (d : dec A) (P : A -> Prop) :
  (forall s a r, d s = (Ok a, r) -> P a) ->
  forall n s l r, repn n d s = (Ok l, r) -> Forall P l.
Proof.
  intros HP. induction n as [|n IH]; intros s l r H; cbn [repn] in H.
  - apply ret_ok in H. destruct H; subst. constructor.
  - apply bind_ok in H. destruct H as (a & r1 & H1 & H2). apply bind_ok in H2. destruct H2 as (t & r2 & H2 & H3).
    apply ret_ok in H3. destruct H3; subst. constructor; [eapply HP; eassumption|eapply IH; eassumption].
Qed.

Lemma dec_keys_ok s ks r :
  dec_vec 32 dec_pk s = (Ok ks, r) ->
  s = enc_vec enc_arr ks ++ r /\ Forall wf_key ks /\ 32 * lenN ks <= MAX_VEC_MEM_ALLOC_SIZE.
Proof.
  intros H. pose proof H as H0. eapply (dec_vec_ok dec_pk enc_arr) in H. destruct H as (-> & _ & Hc).
  split; [reflexivity|]. split.
  - unfold dec_vec, dec_len in H0. apply bind_ok in H0. destruct H0 as (n & r1 & _ & H0).
    destruct (over_cap 32 n); [discriminate|]. rewrite rep_repn in H0.
    eapply repn_forall in H0; [exact H0|]. intros s a r' Ha. now apply dec_pubkey_ok in Ha.
  - unfold over_cap in Hc. destruct (N.ltb_spec MAX_VEC_MEM_ALLOC_SIZE (32 * lenN ks)); [discriminate|lia].
Qed.

(* the consumed bytes are the re-encoding, except that the size byte of a merge-mining tag is not preserved *)
Definition eq_upto_mm_size (f : subfield) (c : bytes) : Prop :=
  match f with
  | MergeMining d h => exists sz : byte, c = enc_u8 3 ++ [sz] ++ enc_varint d ++ h
  | _ => c = enc_subfield f
  end.

Lemma zeros_of_nat m : zeros (N.of_nat m) = repeat x00 m.
Proof. unfold zeros. now rewrite Nat2N.id. Qed.

Lemma dec_subfield_ok s f r :
  dec_sf s = (Ok f, r) ->
  exists c, s = c ++ r /\ eq_upto_mm_size f c /\ wf_subfield f /\ pad_ok f r.
Proof.
  unfold dec_subfield. intros H. apply bind_ok in H. destruct H as (t & r1 & Ht & H).
  apply (exact_pf (d := dec_u8)) in Ht. subst s.
  destruct (N.eqb_spec t 0) as [E|_]; [subst t|].
  { apply bind_ok in H. destruct H as (n & r2 & Hn & H). apply ret_ok in H. destruct H; subst.
    apply pad_loop_ok in Hn; [|change (N.of_nat 255) with 255; lia].
    destruct Hn as (m & Hm & -> & -> & Hor). exists (enc_u8 0 ++ zeros (0 + N.of_nat m)).
    replace (0 + N.of_nat m) with (N.of_nat m) by lia. rewrite zeros_of_nat. cbn [eq_upto_mm_size enc_subfield wf_subfield pad_ok].
    rewrite zeros_of_nat. split; [now rewrite <- app_assoc|]. split; [reflexivity|]. split; [lia|].
    destruct Hor as [-> | ->]; [left; reflexivity|now right]. }
  destruct (N.eqb_spec t 1) as [E|_]; [subst t|].
  { apply bind_ok in H. destruct H as (k & r2 & Hk & H). apply ret_ok in H. destruct H; subst.
    apply dec_pubkey_ok in Hk. destruct Hk as [-> Hw]. exists (enc_u8 1 ++ enc_arr k).
    cbn [eq_upto_mm_size enc_subfield wf_subfield pad_ok]. unfold enc_arr. rewrite <- app_assoc. auto. }
  destruct (N.eqb_spec t 2) as [E|_]; [subst t|].
  { apply bind_ok in H. destruct H as (b & r2 & Hb & H). apply ret_ok in H. destruct H; subst.
    apply dec_bytes_vec_ok in Hb. destruct Hb as [-> Hw]. exists (enc_u8 2 ++ enc_bytes_vec b).
    cbn [eq_upto_mm_size enc_subfield wf_subfield pad_ok]. rewrite <- app_assoc. auto. }
  destruct (N.eqb_spec t 3) as [E|_]; [subst t|].
  { destruct (dec_u8 r1) as [[sz|e|] r2] eqn:Es; try discriminate.
    apply dmap_ok in Es. destruct Es as (bz & Es & ->). apply read_u8_ok in Es. subst r1.
    apply bind_ok in H. destruct H as (d & r3 & Hd & H). apply bind_ok in H. destruct H as (h & r4 & Hh & H).
    apply ret_ok in H. destruct H; subst. apply dec_varint_sound in Hd. destruct Hd as [Hd ->].
    apply read_n_ok in Hh. destruct Hh as [-> Hl].
    exists (enc_u8 3 ++ [bz] ++ enc_varint d ++ h). cbn [eq_upto_mm_size wf_subfield pad_ok]. repeat split; eauto.
    repeat rewrite <- app_assoc. reflexivity. }
  destruct (N.eqb_spec t 4) as [E|_]; [subst t|].
  { apply bind_ok in H. destruct H as (ks & r2 & Hk & H). apply ret_ok in H. destruct H; subst.
    apply dec_keys_ok in Hk. destruct Hk as (-> & Hf & Hc). exists (enc_u8 4 ++ enc_vec enc_arr ks).
    cbn [eq_upto_mm_size enc_subfield wf_subfield pad_ok]. rewrite <- app_assoc. auto. }
  destruct (N.eqb_spec t 222) as [E|_]; [subst t|discriminate].
  { apply bind_ok in H. destruct H as (b & r2 & Hb & H). apply ret_ok in H. destruct H; subst.
    apply dec_bytes_vec_ok in Hb. destruct Hb as [-> Hw]. exists (enc_u8 222 ++ enc_bytes_vec b).
    cbn [eq_upto_mm_size enc_subfield wf_subfield pad_ok]. rewrite <- app_assoc. auto. }
Qed.

(* ---- serialise one sub-field, parse it back ---------------------------------------------------------------------- *)
Lemma dec_u8_enc t r : t < 256 -> dec_u8 (enc_u8 t ++ r) = (Ok t, r).
Proof. intros Ht. unfold dec_u8, enc_u8, dmap, bind, ret. cbn [app read_u8]. now rewrite b2n_n2b_small. Qed.

Lemma bind_dec_u8_enc {B} t r (K : N -> dec B) : t < 256 -> bind dec_u8 K (enc_u8 t ++ r) = K t r.
Proof. intros Ht. unfold bind. now rewrite dec_u8_enc. Qed.

Ltac eval_eqb :=
  repeat match goal with
         | |- context [?a =? ?b] => let v := eval vm_compute in (a =? b) in change (a =? b) with v
         end; cbv iota.

Lemma dec_subfield_complete f r :
  wf_subfield f -> pad_ok f r -> dec_sf (enc_subfield f ++ r) = (Ok f, r).
Proof.
  intros Hw Hp. unfold dec_subfield.
  destruct f as [k|b|n|d h|ks|b]; cbn [enc_subfield wf_subfield pad_ok] in *; rewrite <- app_assoc;
    rewrite bind_dec_u8_enc by lia; eval_eqb.
  - unfold enc_arr. unfold bind. now rewrite dec_pubkey_complete.
  - unfold bind. now rewrite dec_bytes_vec_complete.
  - unfold bind. destruct Hp as [-> | ->].
    + unfold zeros. change (N.to_nat 255) with 255%nat. rewrite pad_loop_full by (change (N.of_nat 255) with 255; lia).
      reflexivity.
    + rewrite app_nil_r. unfold zeros. rewrite pad_loop_eof; [|lia|change (N.of_nat 255) with 255; lia].
      unfold ret. rewrite N2Nat.id. reflexivity.
  - destruct Hw as [Hd Hl]. destruct (mm_size_ok d Hd) as (_ & _ & Hs). rewrite <- app_assoc.
    rewrite dec_u8_enc by lia. rewrite <- app_assoc. unfold bind. rewrite dec_enc_varint by assumption.
    unfold dec_hash, dec_arr, enc_arr. rewrite <- Hl, read_n_complete. reflexivity.
  - destruct Hw as [Hf Hc]. unfold bind. rewrite (dec_vec_complete dec_pk enc_arr wf_key); [reflexivity|assumption| |].
    + unfold MAX_VEC_MEM_ALLOC_SIZE in Hc. change (2 ^ 64) with 18446744073709551616. lia.
    + unfold over_cap. destruct (N.ltb_spec MAX_VEC_MEM_ALLOC_SIZE (32 * lenN ks)); [lia|reflexivity].
  - unfold bind. now rewrite dec_bytes_vec_complete.
Qed.

Lemma enc_subfield_nonempty f : exists t rest, enc_subfield f = t :: rest.
Proof. destruct f; cbn [enc_subfield]; unfold enc_u8; cbn [app]; eauto. Qed.

(* strict parse (`deserialize`) of one sub-field alone *)
Lemma deserialize_subfield f : wf_subfield f -> deserialize dec_sf (enc_subfield f) = Ok f.
Proof.
  intros Hw. unfold deserialize, deserialize_partial.
  pose proof (dec_subfield_complete f [] Hw) as H. rewrite app_nil_r in H. rewrite H.
  - change (lenN (@nil byte)) with 0. rewrite N.sub_0_r. now rewrite N.eqb_refl.
  - destruct f; cbn; auto.
Qed.

(* ---- the best-effort loop ------------------------------------------------------------------------------------------ *)
Notation ploop := (parse_loop valid_pk).
Notation tparse := (try_parse valid_pk).

(* the result does not depend on the fuel once it exceeds the length of the input *)
Lemma parse_loop_fuel f1 : forall s f2, (length s < f1)%nat -> (length s < f2)%nat -> ploop f1 s = ploop f2 s.
Proof.
  induction f1 as [|f1 IH]; intros s f2 H1 H2; [lia|].
  destruct s as [|b s]; [destruct f2; reflexivity|]. destruct f2 as [|f2]; [lia|]. cbn [parse_loop].
  destruct (sf_good_progress (b :: s)) as [_ Hl]. specialize (Hl ltac:(discriminate)).
  destruct (dec_sf (b :: s)) as [[x|e|] r]; cbn [snd length] in Hl.
  - rewrite (IH r f2) by (cbn [length] in *; lia). reflexivity.
  - rewrite (IH r f2) by (cbn [length] in *; lia). reflexivity.
  - reflexivity.
Qed.

Lemma try_parse_nil : tparse [] = Ok (true, []).
Proof. reflexivity. Qed.

Lemma try_parse_step s : s <> [] ->
  tparse s = match dec_sf s with
             | (Ok x, r) => match tparse r with Ok (ok, l) => Ok (ok, x :: l) | other => other end
             | (Err _, r) => match tparse r with Ok (_, l) => Ok (false, l) | other => other end
             | (Panic, _) => Panic
             end.
Proof.
  intros Hs. unfold try_parse. destruct s as [|b s]; [congruence|]. cbn [parse_loop].
  destruct (sf_good_progress (b :: s)) as [_ Hl]. specialize (Hl ltac:(discriminate)).
  destruct (dec_sf (b :: s)) as [[x|e|] r]; cbn [snd] in Hl; try reflexivity;
    rewrite (parse_loop_fuel (length (b :: s)) r (S (length r))) by lia; reflexivity.
Qed.

(* totality: the fuel S (length raw) is never exhausted and the loop never panics *)
Lemma parse_loop_total fuel : forall s, (length s < fuel)%nat -> exists ok fs, ploop fuel s = Ok (ok, fs).
Proof.
  induction fuel as [|fuel IH]; intros s Hs; [lia|].
  destruct s as [|b s]; [cbn; eauto|]. cbn [parse_loop].
  destruct (sf_good_progress (b :: s)) as [Hp Hl]. specialize (Hl ltac:(discriminate)).
  destruct (dec_sf (b :: s)) as [[x|e|] r]; cbn [fst snd] in Hp, Hl.
  - destruct (IH r) as (ok & fs & ->); [cbn [length] in *; lia|]. eauto.
  - destruct (IH r) as (ok & fs & ->); [cbn [length] in *; lia|]. eauto.
  - congruence.
Qed.

Lemma try_parse_total raw : exists ok fs, tparse raw = Ok (ok, fs).
Proof. unfold try_parse. apply parse_loop_total. lia. Qed.

(* every returned sub-field is well-formed, whatever the input *)
Lemma parse_loop_wf fuel : forall s ok fs, ploop fuel s = Ok (ok, fs) -> Forall wf_subfield fs.
Proof.
  induction fuel as [|fuel IH]; intros s ok fs H.
  - destruct s; cbn in H; [inversion H; constructor|discriminate].
  - destruct s as [|b s]; [cbn in H; inversion H; constructor|]. cbn [parse_loop] in H.
    destruct (dec_sf (b :: s)) as [[x|e|] r] eqn:E; [| |discriminate].
    + destruct (ploop fuel r) as [[ok' l]|e'|] eqn:E2; try discriminate. inversion H; subst.
      constructor; [|eapply IH; eassumption]. apply dec_subfield_ok in E. destruct E as (c & _ & _ & Hw & _). exact Hw.
    + destruct (ploop fuel r) as [[ok' l]|e'|] eqn:E2; try discriminate. inversion H; subst. eapply IH; eassumption.
Qed.

(* "no resynchronisation": the input is a sequence of sub-fields, each decoded where the previous one ended *)
Inductive strict_seq : bytes -> list subfield -> Prop :=
| ss_nil : strict_seq [] []
| ss_cons s f r fs : s <> [] -> dec_sf s = (Ok f, r) -> strict_seq r fs -> strict_seq s (f :: fs).

Lemma parse_loop_ok_strict fuel : forall s fs, ploop fuel s = Ok (true, fs) -> strict_seq s fs.
Proof.
  induction fuel as [|fuel IH]; intros s fs H.
  - destruct s; cbn in H; [inversion H; constructor|discriminate].
  - destruct s as [|b s]; [cbn in H; inversion H; constructor|]. cbn [parse_loop] in H.
    destruct (dec_sf (b :: s)) as [[x|e|] r] eqn:E; [| |discriminate].
    + destruct (ploop fuel r) as [[ok' l]|e'|] eqn:E2; try discriminate. inversion H; subst.
      econstructor; [discriminate|eassumption|now apply IH].
    + destruct (ploop fuel r) as [[ok' l]|e'|] eqn:E2; discriminate.
Qed.

Lemma strict_try_parse s fs : strict_seq s fs -> tparse s = Ok (true, fs).
Proof.
  induction 1 as [|s f r fs Hs Hd _ IH]; [reflexivity|].
  rewrite try_parse_step by assumption. rewrite Hd, IH. reflexivity.
Qed.

Lemma try_parse_ok_iff s fs : tparse s = Ok (true, fs) <-> strict_seq s fs.
Proof. split; [apply parse_loop_ok_strict|apply strict_try_parse]. Qed.

(* ---- well-formed sequences round-trip ------------------------------------------------------------------------------- *)
Lemma enc_fields_cons f t : enc_fields (f :: t) = enc_subfield f ++ enc_fields t.
Proof. reflexivity. Qed.

Lemma wf_strict fs : Forall wf_subfield fs -> pad_rule fs -> strict_seq (enc_fields fs) fs.
Proof.
  induction fs as [|f t IH]; intros Hw Hp; [constructor|].
  inversion Hw as [|? ? Hf Ht]; subst. destruct Hp as [Hp1 Hp2]. rewrite enc_fields_cons.
  apply ss_cons with (r := enc_fields t).
  - destruct (enc_subfield_nonempty f) as (x & rest & ->). discriminate.
  - apply dec_subfield_complete; [assumption|]. destruct f; cbn [pad_ok]; auto.
    destruct Hp1 as [->| ->]; [now left|now right].
  - now apply IH.
Qed.

Lemma roundtrip_fields fs : Forall wf_subfield fs -> pad_rule fs -> tparse (enc_fields fs) = Ok (true, fs).
Proof. intros Hw Hp. apply strict_try_parse. now apply wf_strict. Qed.

(* ---- ExtraField -> RawExtraField (serialize, then deserialize(..).unwrap()) --------------------------------------- *)
Lemma wf_no_overflow fs : Forall wf_subfield fs -> existsb subfield_overflows fs = false.
Proof.
  induction 1 as [|f t Hf _ IH]; [reflexivity|]. cbn [existsb]. rewrite IH, orb_false_r.
  destruct f; try reflexivity. destruct Hf as [Hd _]. cbn [subfield_overflows]. now destruct (mm_size_ok depth Hd).
Qed.

Lemma deserialize_complete {A} (d : dec A) s a : d s = (Ok a, []) -> deserialize d s = Ok a.
Proof.
  intros H. unfold deserialize, deserialize_partial. rewrite H. change (lenN (@nil byte)) with 0.
  rewrite N.sub_0_r. now rewrite N.eqb_refl.
Qed.

Lemma raw_of_extra_ok fs :
  existsb subfield_overflows fs = false -> lenN (enc_fields fs) <= MAX_VEC_MEM_ALLOC_SIZE ->
  raw_of_extra fs = Ok (enc_fields fs).
Proof.
  intros Ho Hl. unfold raw_of_extra, enc_extra_chk, enc_extra. rewrite Ho.
  rewrite (deserialize_complete dec_bytes_vec _ (enc_fields fs)); [reflexivity|].
  rewrite <- (app_nil_r (enc_bytes_vec _)). now apply dec_bytes_vec_complete.
Qed.

(* beyond the allocation cap the conversion panics (the unwrap meets ParseFailed) *)
Lemma raw_of_extra_panics fs :
  MAX_VEC_MEM_ALLOC_SIZE < lenN (enc_fields fs) -> lenN (enc_fields fs) < 2 ^ 64 -> raw_of_extra fs = Panic.
Proof.
  intros Hl Hu. unfold raw_of_extra, enc_extra_chk. destruct (existsb subfield_overflows fs); [reflexivity|].
  unfold enc_extra, deserialize, deserialize_partial, dec_bytes_vec, dec_vec, dec_len, enc_bytes_vec, bind.
  rewrite dec_enc_varint by assumption. unfold over_cap.
  destruct (N.ltb_spec MAX_VEC_MEM_ALLOC_SIZE (1 * lenN (enc_fields fs))); [reflexivity|lia].
Qed.

Lemma roundtrip_extra fs :
  wf_extra fs -> raw_of_extra fs = Ok (enc_fields fs) /\ tparse (enc_fields fs) = Ok (true, fs).
Proof.
  intros (Hw & Hp & Hl). split; [apply raw_of_extra_ok; [now apply wf_no_overflow|assumption]|now apply roundtrip_fields].
Qed.

(* ---- a fully parsable input determines its sub-fields' re-encoding, up to merge-mining size bytes ----------------- *)
Lemma eq_upto_len f c : eq_upto_mm_size f c -> length c = length (enc_subfield f).
Proof.
  destruct f; cbn [eq_upto_mm_size]; try (now intros ->). intros (sz & ->). cbn [enc_subfield].
  unfold enc_u8. cbn [app length]. reflexivity.
Qed.

Lemma strict_seq_nil fs : strict_seq [] fs -> fs = [].
Proof. inversion 1; [reflexivity|congruence]. Qed.

Lemma strict_inv s fs : strict_seq s fs ->
  exists cs, s = concat cs /\ Forall2 eq_upto_mm_size fs cs /\ Forall wf_subfield fs /\ pad_rule fs.
Proof.
  induction 1 as [|s f r fs Hs Hd Hss IH].
  - exists []. repeat split; constructor.
  - destruct IH as (cs & -> & H2 & Hw & Hp). apply dec_subfield_ok in Hd.
    destruct Hd as (c & -> & He & Hwf & Hpo). exists (c :: cs). cbn [concat]. repeat split.
    + now constructor.
    + now constructor.
    + destruct f; cbn [pad_ok] in Hpo; auto. destruct Hpo as [->|Hr]; [now left|right].
      rewrite Hr in Hss. now apply strict_seq_nil in Hss.
    + assumption.
Qed.

Lemma concat_len_fields fs : forall cs, Forall2 eq_upto_mm_size fs cs -> length (concat cs) = length (enc_fields fs).
Proof.
  induction 1 as [|f c fs cs He _ IH]; [reflexivity|].
  rewrite enc_fields_cons. cbn [concat]. rewrite !app_length, IH. f_equal. now apply eq_upto_len.
Qed.

Lemma ok_idempotent e fs :
  tparse e = Ok (true, fs) ->
  tparse (enc_fields fs) = Ok (true, fs) /\ length (enc_fields fs) = length e.
Proof.
  intros H. apply try_parse_ok_iff in H. apply strict_inv in H. destruct H as (cs & -> & H2 & Hw & Hp).
  split; [now apply roundtrip_fields|]. symmetry. now apply concat_len_fields.
Qed.

(* for inputs without merge-mining tags the bytes themselves are reproduced *)
Definition no_mm (f : subfield) : Prop := match f with MergeMining _ _ => False | _ => True end.
Lemma ok_bytes_equal e fs : tparse e = Ok (true, fs) -> Forall no_mm fs -> enc_fields fs = e.
Proof.
  intros H Hn. apply try_parse_ok_iff in H. apply strict_inv in H. destruct H as (cs & -> & H2 & _ & _).
  induction H2 as [|f c fs cs He _ IH]; [reflexivity|]. inversion Hn; subst. rewrite enc_fields_cons. cbn [concat].
  rewrite IH by assumption. f_equal. destruct f; cbn [eq_upto_mm_size no_mm] in *; try (now symmetry); tauto.
Qed.

(* ---- accessors return the first match --------------------------------------------------------------------------------- *)
Lemma tx_pubkey_first pre k post :
  Forall (fun f => forall k', f <> TxPublicKey k') pre -> tx_pubkey (pre ++ TxPublicKey k :: post) = Some k.
Proof.
  induction 1 as [|f t Hf _ IH]; [reflexivity|]. cbn [app tx_pubkey]. destruct f; try assumption.
  exfalso. now apply (Hf key).
Qed.
Lemma tx_pubkey_none fs : tx_pubkey fs = None <-> Forall (fun f => forall k', f <> TxPublicKey k') fs.
Proof.
  induction fs as [|f t IH]; [split; [constructor|reflexivity]|]. split.
  - intros H. destruct f; cbn [tx_pubkey] in H; try discriminate; (constructor; [discriminate|now apply IH]).
  - intros H. inversion H as [|? ? Hf Ht]; subst. destruct f; cbn [tx_pubkey]; try (now apply IH).
    exfalso. now apply (Hf key).
Qed.
Lemma tx_additional_first pre ks post :
  Forall (fun f => forall k', f <> AdditionalPublicKey k') pre ->
  tx_additional_pubkeys (pre ++ AdditionalPublicKey ks :: post) = Some ks.
Proof.
  induction 1 as [|f t Hf _ IH]; [reflexivity|]. cbn [app tx_additional_pubkeys]. destruct f; try assumption.
  exfalso. now apply (Hf keys).
Qed.
Lemma tx_additional_none fs :
  tx_additional_pubkeys fs = None <-> Forall (fun f => forall k', f <> AdditionalPublicKey k') fs.
Proof.
  induction fs as [|f t IH]; [split; [constructor|reflexivity]|]. split.
  - intros H. destruct f; cbn [tx_additional_pubkeys] in H; try discriminate; (constructor; [discriminate|now apply IH]).
  - intros H. inversion H as [|? ? Hf Ht]; subst. destruct f; cbn [tx_additional_pubkeys]; try (now apply IH).
    exfalso. now apply (Hf keys).
Qed.

End Extra.

(* ---- consequences stated for the closed section ---------------------------------------------------------------------- *)
Lemma try_parse_partial valid_pk e fs :
  try_parse valid_pk e = Ok (false, fs) -> forall fs', ~ strict_seq valid_pk e fs'.
Proof. intros H fs' Hs. apply strict_try_parse in Hs. congruence. Qed.

Lemma enc_subfield_chk_ok valid_pk f : wf_subfield valid_pk f -> enc_subfield_chk f = Ok (enc_subfield f).
Proof.
  intros Hw. unfold enc_subfield_chk. destruct f; try reflexivity. destruct Hw as [Hd _].
  cbn [subfield_overflows]. now destruct (mm_size_ok depth Hd) as (-> & _).
Qed.

(* a sequence of well-formed sub-fields obeying the padding rule whose conversion to RawExtraField panics:
   131073 paddings of 255 bytes serialise to 256 * 131073 = 32 MiB + 256 bytes *)
Definition big_extra : list subfield := repeat (Padding 255) (N.to_nat 131073).

Lemma enc_fields_repeat_pad k : lenN (enc_fields (repeat (Padding 255) k)) = 256 * N.of_nat k.
Proof.
  induction k as [|k IH]; [reflexivity|]. cbn [repeat]. rewrite enc_fields_cons. unfold lenN in *.
  rewrite app_length. change (length (enc_subfield (Padding 255))) with 256%nat. lia.
Qed.

Lemma big_extra_panics valid_pk :
  Forall (wf_subfield valid_pk) big_extra /\ pad_rule big_extra /\ raw_of_extra big_extra = Panic.
Proof.
  unfold big_extra. split; [|split].
  - apply Forall_forall. intros f Hf. apply repeat_spec in Hf. subst. cbn. lia.
  - generalize (N.to_nat 131073). induction n as [|n IH]; cbn [repeat pad_rule]; auto.
  - apply raw_of_extra_panics; rewrite enc_fields_repeat_pad, N2Nat.id; unfold MAX_VEC_MEM_ALLOC_SIZE.
    + lia.
    + change (2 ^ 64) with 18446744073709551616. lia.
Qed.

(* the conversion's outcome is a function of the serialised length *)
Lemma from_outcome fs :
  existsb subfield_overflows fs = false -> lenN (enc_fields fs) < 2 ^ 64 ->
  match raw_of_extra fs with
  | Ok raw => raw = enc_fields fs /\ raw_of_extra_outcome (lenN (enc_fields fs)) = Ok (lenN raw)
  | Err _ => False
  | Panic => raw_of_extra_outcome (lenN (enc_fields fs)) = Panic
  end.
Proof.
  intros Ho Hu. unfold raw_of_extra_outcome, over_cap.
  destruct (N.ltb_spec MAX_VEC_MEM_ALLOC_SIZE (1 * lenN (enc_fields fs))) as [L|L].
  - rewrite raw_of_extra_panics by lia. reflexivity.
  - rewrite raw_of_extra_ok by (assumption || lia). auto.
Qed.
Lemma nonce_field_len_ok b : lenN (enc_fields [Nonce b]) = nonce_field_len (lenN b).
Proof.
  unfold enc_fields, nonce_field_len. cbn [flat_map enc_subfield]. rewrite app_nil_r.
  unfold enc_u8, enc_bytes_vec, lenN. cbn [app length]. rewrite app_length. lia.
Qed.
