(* AuditC12.v — lemmas added by the model-mutation audit (notes/MODEL_MUTANTS_B.md) for C12.
   C12_only_canonical_hex is stated through the model's hex decoder (the `hex` crate: "case- and prefix-insensitive by design"),
   which was characterised only by decode (encode b) = b.  Here: the decoder returns b ONLY for a case variant of the
   canonical lower-case text of b, so an accepted hex text is, after the optional "0x" and up to the case of a-f, Address::as_hex. *)
From MRS Require Export Proofs.AddressProofs.
Open Scope N_scope.

(* ASCII upper-case letters to lower case, every other byte unchanged *)
Definition hex_lower (c : byte) : byte :=
  let n := b2n c in if (65 <=? n) && (n <=? 90) then n2b (n + 32) else c.

Lemma hex_val_lower12 c x : hex_val c = Some x -> x < 16 /\ hex_char x = hex_lower c.
Proof.
  destruct c; intros H; vm_compute in H; try discriminate; injection H as <-; (split; [reflexivity|vm_compute; reflexivity]).
Qed.

Lemma hex_decode_lower12_n : forall n t b, (List.length t <= n)%nat ->
  hex_decode t = Some b -> map hex_lower t = hex_encode b.
Proof.
  induction n as [|n IH]; intros [|a [|c t]] b Hn H; try (cbn [List.length] in Hn; lia).
  - injection H as <-. reflexivity.
  - injection H as <-. reflexivity.
  - discriminate.
  - cbn [hex_decode] in H.
    destruct (hex_val a) as [x|] eqn:Ha; [|discriminate]. destruct (hex_val c) as [y|] eqn:Hc; [|discriminate].
    destruct (hex_decode t) as [r|] eqn:Ht; [|discriminate]. injection H as <-.
    destruct (hex_val_lower12 _ _ Ha) as [Hx Hxa]. destruct (hex_val_lower12 _ _ Hc) as [Hy Hyc].
    cbn [map hex_encode]. rewrite (IH t r) by (cbn [List.length] in Hn; lia || exact Ht).
    rewrite b2n_n2b_small by lia.
    replace ((16 * x + y) / 16) with x by (apply (N.div_unique (16 * x + y) 16 x y); lia).
    replace ((16 * x + y) mod 16) with y by (apply (N.mod_unique (16 * x + y) 16 x y); lia).
    now rewrite Hxa, Hyc.
Qed.

Lemma hex_decode_lower12 t b : hex_decode t = Some b -> map hex_lower t = hex_encode b.
Proof. apply (hex_decode_lower12_n (List.length t)). lia. Qed.

(* ... and every case variant is accepted *)
Lemma hex_val_of_lower12 c x : hex_val (hex_lower c) = Some x -> hex_val c = Some x.
Proof. destruct c; intros H; vm_compute in H; try discriminate; injection H as <-; vm_compute; reflexivity. Qed.

Lemma hex_decode_of_lower12 : forall b t, map hex_lower t = hex_encode b -> hex_decode t = Some b.
Proof.
  induction b as [|b0 r IH]; intros t H.
  - destruct t; [reflexivity|discriminate].
  - cbn [hex_encode] in H. destruct t as [|a [|c t]]; try discriminate. cbn [map] in H.
    injection H as Ha Hc Ht.
    assert (Hq : b2n b0 / 16 < 16) by (apply N.div_lt_upper_bound; [lia|]; pose proof (b2n_lt b0); lia).
    assert (Hm : b2n b0 mod 16 < 16) by (apply N.mod_lt; lia).
    pose proof (hex_val_char _ Hq) as H1. pose proof (hex_val_char _ Hm) as H2.
    rewrite <- Ha in H1. rewrite <- Hc in H2. apply hex_val_of_lower12 in H1. apply hex_val_of_lower12 in H2.
    cbn [hex_decode]. rewrite H1, H2, (IH t Ht).
    f_equal. f_equal. rewrite <- (n2b_b2n b0) at 3. f_equal. pose proof (N.div_mod' (b2n b0) 16). lia.
Qed.

Lemma hex_decode_iff12 t b : hex_decode t = Some b <-> map hex_lower t = hex_encode b.
Proof. split; [apply hex_decode_lower12|apply hex_decode_of_lower12]. Qed.

Section AuditC12.
  Variable H : bytes -> bytes.
  Variable valid_pk : bytes -> bool.
  Hypothesis H_len : forall m, List.length (H m) = 32%nat.
  Hypothesis valid_len : forall k, valid_pk k = true -> List.length k = 32%nat.

  Lemma from_hex_text_canonical s a : addr_from_hex H valid_pk s = Ok a ->
    map hex_lower (strip_0x s) = addr_as_hex H a.
  Proof.
    intros Ha. destruct (from_hex_canonical H valid_pk H_len valid_len s a Ha) as [Hd _].
    unfold addr_as_hex. now apply hex_decode_lower12.
  Qed.
End AuditC12.
