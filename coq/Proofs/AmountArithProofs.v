(* AmountArithProofs.v — C18: Amount / SignedAmount arithmetic is exact or refuses. *)
From MRS Require Export Model.Amount Spec.Decimal Proofs.BaseProofs.
From Coq Require Export ZifyBool.
Open Scope list_scope.
Open Scope Z_scope.

Lemma pow64 : 2 ^ 64 = 18446744073709551616. Proof. reflexivity. Qed.
Lemma pow63 : 2 ^ 63 = 9223372036854775808. Proof. reflexivity. Qed.

Ltac bd :=
  repeat match goal with
  | |- context [Z.leb ?x ?y] => destruct (Z.leb_spec x y)
  | |- context [Z.ltb ?x ?y] => destruct (Z.ltb_spec x y)
  | |- context [Z.gtb ?x ?y] => destruct (Z.gtb_spec x y)
  | |- context [Z.eqb ?x ?y] => destruct (Z.eqb_spec x y)
  end; cbn [andb orb negb]; try reflexivity; try lia.
Ltac unf := unfold u64, i64, u64b, i64b, in_u64, in_i64, U64MAX, I64MAX, I64MIN in *; rewrite ?pow64, ?pow63 in *.

(* ---- unsigned --------------------------------------------------------------------------------- *)
Lemma amount_checked_exact o a b :
  u64 a -> u64 b -> amount_checked o a b = AOk (exact_or_refuse u64b o a b).
Proof.
  intros Ha Hb. unfold amount_checked, exact_or_refuse. f_equal.
  destruct o; cbn [needs_divisor exact andb].
  - unfold u64_checked_add. unf. bd.
  - unfold u64_checked_sub. unf. bd.
  - unfold u64_checked_mul. unf. bd; nia.
  - unfold u64_checked_div. destruct (Z.eqb_spec b 0) as [E|E]; [reflexivity|].
    unf. rewrite Z.quot_div_nonneg by lia.
    assert (H1 : 0 <= a / b) by (apply Z.div_pos; lia).
    assert (H2 : a / b <= a) by (apply Z.div_le_upper_bound; nia).
    bd.
  - unfold u64_checked_rem. destruct (Z.eqb_spec b 0) as [E|E]; [reflexivity|].
    unf. rewrite Z.rem_mod_nonneg by lia.
    pose proof (Z.mod_pos_bound a b ltac:(lia)) as H1.
    bd.
Qed.

(* ---- signed ----------------------------------------------------------------------------------- *)
Lemma quot_range a b : i64 a -> i64 b -> b <> 0 -> ~ (a = - 2 ^ 63 /\ b = -1) -> i64 (Z.quot a b).
Proof.
  intros Ha Hb Hb0 Hmin. unf.
  destruct (Z.eq_dec b 1) as [->|N1]; [rewrite Z.quot_1_r; lia|].
  destruct (Z.eq_dec b (-1)) as [->|N2].
  { change (-1) with (- (1)). rewrite Z.quot_opp_r, Z.quot_1_r by lia. lia. }
  assert (Habs : Z.abs (Z.quot a b) <= 4611686018427387904).
  { rewrite <- Z.quot_abs by lia. rewrite Z.quot_div_nonneg by lia.
    apply Z.le_trans with (Z.abs a / 2).
    - apply Z.div_le_compat_l; lia.
    - apply Z.div_le_upper_bound; lia. }
  lia.
Qed.

Lemma rem_range a b : i64 a -> i64 b -> b <> 0 -> i64 (Z.rem a b).
Proof.
  intros Ha Hb Hb0. pose proof (Z.rem_bound_abs a b Hb0). unf. lia.
Qed.

Lemma signed_checked_exact o a b :
  i64 a -> i64 b -> signed_checked o a b = AOk (exact_or_refuse i64b o a b).
Proof.
  intros Ha Hb. unfold signed_checked, exact_or_refuse.
  destruct o; cbn [needs_divisor exact andb].
  - reflexivity.
  - reflexivity.
  - reflexivity.
  - f_equal. unfold i64_checked_div. destruct (Z.eqb_spec b 0) as [E|E]; [reflexivity|]. cbn [orb].
    destruct (Z.eqb_spec a I64MIN) as [Ea|Ea]; cbn [andb].
    + destruct (Z.eqb_spec b (-1)) as [Eb|Eb].
      * subst. reflexivity.
      * assert (R : i64 (Z.quot a b)) by (apply quot_range; unf; lia).
        unf. destruct R. bd.
    + assert (R : i64 (Z.quot a b)) by (apply quot_range; unf; lia).
      unf. destruct R. bd.
  - unfold signed_checked_rem. destruct (Z.eqb_spec b 0) as [E|E]; [reflexivity|].
    unfold i64_wrapping_rem. destruct (Z.eqb_spec b 0) as [E'|_]; [contradiction|].
    assert (R : i64 (Z.rem a b)) by (apply rem_range; assumption).
    assert (Rb : i64b (Z.rem a b) = true).
    { unf. destruct R. bd. }
    rewrite Rb. destruct (Z.eqb_spec b (-1)) as [Eb|Eb]; cbn [abind]; [|reflexivity].
    subst b. change (-1) with (- (1)). rewrite Z.rem_opp_r, Z.rem_1_r by lia. reflexivity.
Qed.

(* the result of a checked operation is never out of range, and is the exact integer *)
Lemma exact_or_refuse_some rep o a b r :
  exact_or_refuse rep o a b = Some r <-> ((needs_divisor o = true -> b <> 0) /\ r = exact o a b /\ rep r = true).
Proof.
  unfold exact_or_refuse. destruct (needs_divisor o); cbn [andb].
  - destruct (Z.eqb_spec b 0) as [E|E].
    + split; [discriminate|]. intros [H _]. exfalso. now apply H.
    + destruct (rep (exact o a b)) eqn:R.
      * split; [intros [= <-]; auto|]. intros (_ & -> & _). reflexivity.
      * split; [discriminate|]. intros (_ & -> & R'). congruence.
  - destruct (rep (exact o a b)) eqn:R.
    + split; [intros [= <-]; split; [discriminate|auto]|]. intros (_ & -> & _). reflexivity.
    + split; [discriminate|]. intros (_ & -> & R'). congruence.
Qed.

(* ---- operators -------------------------------------------------------------------------------- *)
Lemma amount_operator_spec o a b :
  u64 a -> u64 b ->
  amount_operator o a b = match exact_or_refuse u64b o a b with Some r => AOk r | None => APanic end
  /\ amount_assign o a b = amount_operator o a b.
Proof.
  intros Ha Hb. split; [|reflexivity]. unfold amount_operator. rewrite amount_checked_exact by assumption. reflexivity.
Qed.

Lemma signed_operator_spec o a b :
  i64 a -> i64 b ->
  signed_operator o a b = match exact_or_refuse i64b o a b with Some r => AOk r | None => APanic end
  /\ signed_assign o a b = signed_operator o a b.
Proof.
  intros Ha Hb. split; [|reflexivity]. unfold signed_operator. rewrite signed_checked_exact by assumption. reflexivity.
Qed.

Lemma amount_operator_panics o a b :
  u64 a -> u64 b -> (amount_operator o a b = APanic <-> amount_checked o a b = AOk None).
Proof.
  intros Ha Hb. destruct (amount_operator_spec o a b Ha Hb) as [-> _]. rewrite amount_checked_exact by assumption.
  destruct (exact_or_refuse u64b o a b); split; intros H; try discriminate; try reflexivity.
Qed.

Lemma signed_operator_panics o a b :
  i64 a -> i64 b -> (signed_operator o a b = APanic <-> signed_checked o a b = AOk None).
Proof.
  intros Ha Hb. destruct (signed_operator_spec o a b Ha Hb) as [-> _]. rewrite signed_checked_exact by assumption.
  destruct (exact_or_refuse i64b o a b); split; intros H; try discriminate; try reflexivity.
Qed.

(* ---- conversions ------------------------------------------------------------------------------ *)
Lemma amount_to_signed_spec a :
  u64 a -> amount_to_signed a = if a <=? 2 ^ 63 - 1 then AOk a else AErr ETooBig.
Proof.
  intros Ha. unfold amount_to_signed, as_u64, as_i64. unf.
  change ((9223372036854775808 - 1) mod 18446744073709551616) with 9223372036854775807.
  change (9223372036854775808 - 1) with 9223372036854775807.
  rewrite (Z.mod_small a) by lia. bd.
Qed.

Lemma signed_to_unsigned_spec a :
  i64 a -> signed_to_unsigned a = if 0 <=? a then AOk a else AErr ENegative.
Proof.
  intros Ha. unfold signed_to_unsigned, as_u64. unf.
  destruct (Z.ltb_spec a 0), (Z.leb_spec 0 a); try lia; [reflexivity|].
  rewrite Z.mod_small by lia. reflexivity.
Qed.

Lemma signed_positive_sub_spec a b :
  i64 a -> i64 b ->
  signed_positive_sub a b = if (0 <=? b) && (b <=? a) then Some (a - b) else None.
Proof.
  intros Ha Hb. unfold signed_positive_sub, i64_checked_sub. unf. bd.
Qed.

Lemma signed_checked_abs_spec a :
  i64 a -> signed_checked_abs a = if i64b (Z.abs a) then Some (Z.abs a) else None.
Proof.
  intros Ha. unfold signed_checked_abs, i64_checked_abs. unf. bd.
Qed.

(* the former defect F6 is gone: MIN % -1 is the exact remainder 0, and MIN / -1 still refuses *)
Lemma signed_min_rem_minus1 : signed_checked ORem I64MIN (-1) = AOk (Some 0) /\ signed_checked ODiv I64MIN (-1) = AOk None.
Proof. split; reflexivity. Qed.
