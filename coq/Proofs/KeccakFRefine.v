(* KeccakFRefine.v — the 25-lane Keccak-f[1600] of Model/Keccak.v refines the bit-level FIPS 202 definition of
   Spec/KeccakF.v:  bits (keccak_f a) = s_keccak_f (bits a)  for every state of 25 lanes below 2^64. *)
From MRS Require Export Proofs.KeccakBounds Spec.KeccakF.
Open Scope N_scope.

Definition bitsof (a : list N) : sstate := fun x y z => N.testbit (lane a (idx x y)) z.
Definition wf (a : list N) : Prop := length a = 25%nat /\ Forall hi_clear a.

Ltac small x :=
  destruct x as [|x]; [|destruct x as [|x]; [|destruct x as [|x]; [|destruct x as [|x]; [|destruct x as [|x];
  [|exfalso; lia]]]]].

Lemma nth_map_seq {B} (f : nat -> B) n i d : (i < n)%nat -> nth i (map f (seq 0 n)) d = f i.
Proof.
  intros Hi. rewrite (nth_indep _ d (f 0%nat)) by (rewrite map_length, seq_length; exact Hi).
  rewrite map_nth, seq_nth by exact Hi. reflexivity.
Qed.

Lemma idx_facts x y : (x < 5)%nat -> (y < 5)%nat ->
  (idx x y < 25)%nat /\ (idx x y mod 5 = x)%nat /\ (idx x y / 5 = y)%nat /\ idx x y = (x + 5 * y)%nat.
Proof. intros Hx Hy. small x; small y; repeat split; try reflexivity; apply Nat.ltb_lt; reflexivity. Qed.

Lemma rotl64_spec v n z : hi_clear v -> n < 64 -> z < 64 ->
  N.testbit (rotl64 v n) z = N.testbit v ((z + (64 - n)) mod 64).
Proof.
  intros Hv Hn Hz. unfold rotl64. destruct (N.eqb_spec n 0) as [->|Hn0].
  - replace (z + (64 - 0)) with (z + 1 * 64) by lia. rewrite N.mod_add by discriminate. now rewrite N.mod_small.
  - rewrite N.lor_spec, N.land_spec. change mask64 with (N.ones 64). rewrite N.ones_spec_low by exact Hz.
    rewrite andb_true_r, N.shiftr_spec by lia.
    destruct (N.lt_ge_cases z n) as [Lt|Ge].
    + rewrite N.shiftl_spec_low by exact Lt. rewrite N.mod_small by lia. reflexivity.
    + rewrite N.shiftl_spec_high by lia. rewrite (Hv (z + (64 - n))) by lia. rewrite orb_false_r.
      replace (z + (64 - n)) with (z - n + 1 * 64) by lia. rewrite N.mod_add by discriminate.
      now rewrite N.mod_small by lia.
Qed.

(* ---- theta -------------------------------------------------------------------------------------------- *)
Definition column (a : list N) (x : nat) : N := fold_left N.lxor (map (fun y => lane a (idx x y)) range5) 0.

Lemma column_bits a x z :
  N.testbit (column a x) z = fold_left xorb (map (fun y => bitsof a x y z) [0; 1; 2; 3; 4]%nat) false.
Proof.
  unfold column, range5, bitsof. cbn [map fold_left]. rewrite !N.lxor_spec, N.bits_0. reflexivity.
Qed.

Lemma column_hc a x : Forall hi_clear a -> hi_clear (column a x).
Proof.
  intros Ha. unfold column. apply hc_fold_lxor; [apply hc_0|]. apply Forall_map_all. intros y. apply hc_nth, Ha.
Qed.

Lemma theta_lane a i : (i < 25)%nat ->
  lane (theta a) i =
  N.lxor (lane a i) (N.lxor (column a ((i mod 5 + 4) mod 5)) (rotl64 (column a ((i mod 5 + 1) mod 5)) 1)).
Proof.
  intros Hi. unfold theta, lane. change range25 with (seq 0 25). rewrite nth_map_seq by exact Hi.
  f_equal. change range5 with (seq 0 5).
  assert (H5 : (i mod 5 < 5)%nat) by (apply Nat.mod_upper_bound; discriminate).
  rewrite nth_map_seq by exact H5.
  rewrite !nth_map_seq by (apply Nat.mod_upper_bound; discriminate). reflexivity.
Qed.

Lemma theta_refines a : wf a -> eqdom (bitsof (theta a)) (s_theta (bitsof a)).
Proof.
  intros [Hl Ha] x y z [Hx [Hy Hz]]. unfold w in Hz.
  destruct (idx_facts x y Hx Hy) as [I1 [I2 _]].
  unfold bitsof at 1. rewrite theta_lane by exact I1. rewrite I2.
  rewrite !N.lxor_spec. rewrite rotl64_spec by (try apply column_hc; try assumption; lia).
  rewrite !column_bits. unfold s_theta, w. reflexivity.
Qed.

(* ---- rho and pi (fused in the model) ----------------------------------------------------------------------- *)
Lemma rot_table_ok x y : (x < 5)%nat -> (y < 5)%nat ->
  nth (idx x y) rot_offsets 0 = rho_off x y /\ rho_off x y < 64.
Proof. intros Hx Hy. small x; small y; vm_compute; split; reflexivity. Qed.

Lemma rho_pi_refines a : wf a -> eqdom (bitsof (rho_pi a)) (s_pi (s_rho (bitsof a))).
Proof.
  intros [Hl Ha] x y z [Hx [Hy Hz]]. unfold w in Hz.
  destruct (idx_facts x y Hx Hy) as [I1 [I2 [I3 _]]].
  unfold bitsof at 1. unfold rho_pi, lane. change range25 with (seq 0 25). rewrite nth_map_seq by exact I1.
  cbv beta zeta. rewrite I2, I3.
  assert (Hx' : ((x + 3 * y) mod 5 < 5)%nat) by (apply Nat.mod_upper_bound; discriminate).
  destruct (rot_table_ok ((x + 3 * y) mod 5) x Hx' Hx) as [T1 T2].
  rewrite rotl64_spec; [|apply hc_nth, Ha|rewrite T1; exact T2|exact Hz].
  rewrite T1. reflexivity.
Qed.

(* ---- chi ------------------------------------------------------------------------------------------------------- *)
Lemma idx_mod_l x y : idx (x mod 5) y = idx x y.
Proof. unfold idx. now rewrite Nat.mod_mod by discriminate. Qed.

Lemma chi_refines b : wf b -> eqdom (bitsof (chi b)) (s_chi (bitsof b)).
Proof.
  intros [Hl Hb] x y z [Hx [Hy Hz]]. unfold w in Hz.
  destruct (idx_facts x y Hx Hy) as [I1 [I2 [I3 _]]].
  unfold bitsof at 1. unfold chi, lane at 1. change range25 with (seq 0 25). rewrite nth_map_seq by exact I1.
  cbv beta zeta. rewrite I2, I3.
  rewrite N.lxor_spec, N.land_spec. unfold not64. rewrite N.lxor_spec.
  change mask64 with (N.ones 64). rewrite N.ones_spec_low by exact Hz.
  unfold s_chi, bitsof. rewrite !idx_mod_l. reflexivity.
Qed.

(* ---- iota -------------------------------------------------------------------------------------------------------- *)
Lemma rc_table_ok ir z : (ir < 24)%nat -> z < 64 -> N.testbit (nth ir round_constants 0) z = RC_bit ir z.
Proof.
  intros Hir Hz.
  assert (T : forallb (fun ir => forallb (fun z => Bool.eqb (N.testbit (nth ir round_constants 0) (N.of_nat z))
                                                           (RC_bit ir (N.of_nat z))) (seq 0 64)) (seq 0 24) = true)
    by (vm_compute; reflexivity).
  rewrite forallb_forall in T. specialize (T ir). rewrite forallb_forall in T.
  specialize (T ltac:(apply in_seq; lia) (N.to_nat z) ltac:(apply in_seq; lia)).
  rewrite N2Nat.id in T. now apply Bool.eqb_prop in T.
Qed.

Lemma iota_refines ir a : wf a -> (ir < 24)%nat ->
  eqdom (bitsof (iota (nth ir round_constants 0) a)) (s_iota ir (bitsof a)).
Proof.
  intros [Hl Ha] Hir x y z [Hx [Hy Hz]]. unfold w in Hz.
  destruct a as [|h t]; [discriminate Hl|].
  unfold bitsof, s_iota. cbn [iota].
  small x; small y; try reflexivity.
  change (idx 0 0) with 0%nat. cbn [lane nth Nat.eqb andb]. rewrite N.lxor_spec. now rewrite rc_table_ok.
Qed.

(* ---- well-formedness is preserved ------------------------------------------------------------------------------------ *)
Lemma wf_theta a : wf a -> wf (theta a).
Proof. intros [Hl Ha]. split; [unfold theta; now rewrite map_length|now apply hc_theta]. Qed.
Lemma wf_rho_pi a : wf a -> wf (rho_pi a).
Proof. intros [Hl Ha]. split; [unfold rho_pi; now rewrite map_length|now apply hc_rho_pi]. Qed.
Lemma wf_chi a : wf a -> wf (chi a).
Proof. intros [Hl Ha]. split; [unfold chi; now rewrite map_length|now apply hc_chi]. Qed.
Lemma wf_iota ir a : wf a -> (ir < 24)%nat -> wf (iota (nth ir round_constants 0) a).
Proof.
  intros [Hl Ha] Hir. split; [now rewrite iota_length|]. apply hc_iota; [|exact Ha].
  apply hc_nth, hc_round_constants.
Qed.
Lemma wf_round ir a : wf a -> (ir < 24)%nat -> wf (keccak_round a (nth ir round_constants 0)).
Proof. intros Ha Hir. unfold keccak_round. apply wf_iota; [|exact Hir]. now apply wf_chi, wf_rho_pi, wf_theta. Qed.

(* ---- the specification only looks inside the domain --------------------------------------------------------------------- *)
Ltac dom_tac := unfold in_dom, w in *; repeat split; try lia; try (apply Nat.mod_upper_bound; discriminate);
                try (apply N.mod_lt; discriminate).

Lemma eqdom_trans A B C : eqdom A B -> eqdom B C -> eqdom A C.
Proof. intros H1 H2 x y z D. now rewrite H1, H2. Qed.

Lemma s_theta_cong A B : eqdom A B -> eqdom (s_theta A) (s_theta B).
Proof.
  intros H x y z D. unfold s_theta. cbn [map fold_left].
  rewrite !(H _ _ _) by dom_tac. reflexivity.
Qed.
Lemma s_rho_cong A B : eqdom A B -> eqdom (s_rho A) (s_rho B).
Proof. intros H x y z D. unfold s_rho. rewrite H by dom_tac. reflexivity. Qed.
Lemma s_pi_cong A B : eqdom A B -> eqdom (s_pi A) (s_pi B).
Proof. intros H x y z D. unfold s_pi. rewrite H by dom_tac. reflexivity. Qed.
Lemma s_chi_cong A B : eqdom A B -> eqdom (s_chi A) (s_chi B).
Proof. intros H x y z D. unfold s_chi. rewrite !(H _ _ _) by dom_tac. reflexivity. Qed.
Lemma s_iota_cong ir A B : eqdom A B -> eqdom (s_iota ir A) (s_iota ir B).
Proof. intros H x y z D. unfold s_iota. rewrite H by exact D. reflexivity. Qed.
Lemma s_round_cong ir A B : eqdom A B -> eqdom (s_round ir A) (s_round ir B).
Proof. intros H. unfold s_round. now apply s_iota_cong, s_chi_cong, s_pi_cong, s_rho_cong, s_theta_cong. Qed.

(* ---- one round, all rounds ---------------------------------------------------------------------------------------------- *)
Lemma round_refines ir a : wf a -> (ir < 24)%nat ->
  eqdom (bitsof (keccak_round a (nth ir round_constants 0))) (s_round ir (bitsof a)).
Proof.
  intros Ha Hir. unfold keccak_round, s_round.
  eapply eqdom_trans; [apply iota_refines; [now apply wf_chi, wf_rho_pi, wf_theta|exact Hir]|].
  apply s_iota_cong.
  eapply eqdom_trans; [apply chi_refines; now apply wf_rho_pi, wf_theta|].
  apply s_chi_cong.
  eapply eqdom_trans; [apply rho_pi_refines; now apply wf_theta|].
  apply s_pi_cong, s_rho_cong. now apply theta_refines.
Qed.

Lemma rounds_refine irs : forall a A, Forall (fun ir => (ir < 24)%nat) irs -> wf a -> eqdom (bitsof a) A ->
  wf (fold_left keccak_round (map (fun ir => nth ir round_constants 0) irs) a) /\
  eqdom (bitsof (fold_left keccak_round (map (fun ir => nth ir round_constants 0) irs) a))
        (fold_left (fun A ir => s_round ir A) irs A).
Proof.
  induction irs as [|ir irs IH]; intros a A Hirs Ha HA; [split; assumption|].
  inversion Hirs as [|? ? Hir Hrest]; subst. cbn [map fold_left].
  apply IH; [exact Hrest|now apply wf_round|].
  eapply eqdom_trans; [now apply round_refines|]. now apply s_round_cong.
Qed.

Lemma round_constants_by_index : round_constants = map (fun ir => nth ir round_constants 0) (seq 0 24).
Proof. reflexivity. Qed.

Theorem keccak_f_refines a : wf a -> wf (keccak_f a) /\ eqdom (bitsof (keccak_f a)) (s_keccak_f (bitsof a)).
Proof.
  intros Ha. unfold keccak_f, s_keccak_f. rewrite round_constants_by_index at 1 2.
  apply rounds_refine; [|exact Ha|intros x y z _; reflexivity].
  apply Forall_forall. intros ir Hin. apply in_seq in Hin. lia.
Qed.

(* the same without auxiliary definitions *)
Theorem keccak_f_is_fips202 (a : list N) : length a = 25%nat -> Forall (fun v => v < 2 ^ 64) a ->
  length (keccak_f a) = 25%nat /\ Forall (fun v => v < 2 ^ 64) (keccak_f a) /\
  forall x y z, (x < 5)%nat -> (y < 5)%nat -> z < 64 ->
    N.testbit (nth (x + 5 * y) (keccak_f a) 0) z =
    s_keccak_f (fun x y z => N.testbit (nth (x mod 5 + 5 * (y mod 5)) a 0) z) x y z.
Proof.
  intros Hl Hb.
  assert (Ha : wf a).
  { split; [exact Hl|]. eapply Forall_impl; [|exact Hb]. intros v. apply lt_hi_clear. }
  destruct (keccak_f_refines a Ha) as [[Hl' Hc'] E]. split; [exact Hl'|]. split.
  - eapply Forall_impl; [|exact Hc']. intros v. apply hi_clear_lt.
  - intros x y z Hx Hy Hz. specialize (E x y z ltac:(unfold in_dom, w; tauto)).
    unfold bitsof at 1 in E. unfold lane in E. destruct (idx_facts x y Hx Hy) as [_ [_ [_ I4]]]. rewrite I4 in E.
    exact E.
Qed.
