(* EdKAT.v — known-answer tests of the EXECUTABLE instance (Model/EdInst.v) against three of the EdLaws, by kernel
   computation.  These are finite instances only (each scalar multiplication costs 25-40 s under vm_compute); they
   do not prove EdLaws for the instance.  `kat_ell_G` is reused by Proofs/EdInstLaws.v (law smul_ell_G of the instance),
   so this file is in the dependency cone of Props/C13.v. *)
From MRS Require Import Model.EdInst.
Open Scope Z_scope.

(* law smul_ell_G on the instance: l*G = O *)
Example kat_ell_G : @smul ed25519_ops ell G = pzero.
Proof. vm_compute. reflexivity. Qed.

(* law tors_8 on the instance for the generator of the torsion subgroup, which has order exactly 8 *)
Example kat_torsion_order_8 : @smul ed25519_ops 8 (tors 1) = pzero /\ @smul ed25519_ops 4 (tors 1) <> pzero.
Proof. split; vm_compute; [reflexivity|discriminate]. Qed.

(* law decompress_compress on the instance for the base point; its encoding is 0x58 0x66 ... 0x66 *)
Example kat_basepoint : @decompress ed25519_ops (compress G) = Some G /\
  @compress ed25519_ops G = x58 :: repeat x66 31.
Proof. split; vm_compute; reflexivity. Qed.
