(* CodecLen.v — the length every encoder reports equals the number of bytes it writes. *)
From MRS Require Export Model.CodecLen Proofs.CodecBase.
Open Scope N_scope.

Lemma lenN_app {A} (a b : list A) : lenN (a ++ b) = lenN a + lenN b.
Proof. unfold lenN. rewrite app_length. lia. Qed.
Lemma lenN_cons {A} (x : A) l : lenN (x :: l) = 1 + lenN l.
Proof. unfold lenN. cbn [length]. lia. Qed.
Lemma lenN_nil {A} : lenN (@nil A) = 0.
Proof. reflexivity. Qed.

Lemma rl_arr_ok b : rl_arr b = lenN (enc_arr b).
Proof. unfold rl_arr, enc_arr. induction b as [|x t IH]; [reflexivity|]. cbn [rl_sum fold_right]. rewrite lenN_cons. fold (rl_sum (fun _ : byte => 1) t). lia. Qed.

Lemma rl_sum_ok {A} (f : A -> N) e l : (forall a, f a = lenN (e a)) -> rl_sum f l = lenN (enc_list e l).
Proof.
  intros H. unfold enc_list. induction l as [|x t IH]; [reflexivity|].
  cbn [rl_sum fold_right flat_map]. rewrite lenN_app, H. fold (rl_sum f t). lia.
Qed.

Lemma rl_varint_ok n : rl_varint n = lenN (enc_varint n).
Proof. apply enc_varint_len_reported. Qed.

Lemma rl_vec_ok {A} (f : A -> N) e l : (forall a, f a = lenN (e a)) -> rl_vec f l = lenN (enc_vec e l).
Proof. intros H. unfold rl_vec, enc_vec. rewrite lenN_app, rl_varint_ok, (rl_sum_ok f e) by exact H. reflexivity. Qed.

Lemma rl_bytes_vec_ok b : rl_bytes_vec b = lenN (enc_bytes_vec b).
Proof.
  unfold rl_bytes_vec, rl_vec, enc_bytes_vec. rewrite lenN_app, rl_varint_ok. f_equal.
  induction b as [|x t IH]; [reflexivity|]. cbn [rl_sum fold_right]. rewrite lenN_cons.
  fold (rl_sum (fun _ : byte => 1) t). lia.
Qed.

Lemma enc_u8_len n : lenN (enc_u8 n) = 1.
Proof. reflexivity. Qed.
Lemma enc_uint_len k n : lenN (enc_uint k n) = N.of_nat k.
Proof. unfold enc_uint, lenN. now rewrite n2le_length. Qed.

Ltac rl_tac :=
  repeat first
    [ rewrite lenN_app | rewrite lenN_nil | rewrite enc_u8_len | rewrite enc_uint_len
    | rewrite <- rl_arr_ok | rewrite <- rl_varint_ok | rewrite <- rl_bytes_vec_ok ];
  unfold rl_u8, rl_u32, rl_rct_type; try lia.

Lemma rl_txin_ok i : rl_txin i = lenN (enc_txin i).
Proof.
  destruct i; cbn [rl_txin enc_txin]; rl_tac.
  rewrite <- (rl_vec_ok rl_varint enc_varint) by apply rl_varint_ok. lia.
Qed.
Lemma rl_target_ok t : rl_target t = lenN (enc_target t).
Proof. destruct t; cbn [rl_target enc_target]; rl_tac. Qed.
Lemma rl_txout_ok o : rl_txout o = lenN (enc_txout o).
Proof. unfold rl_txout, enc_txout. rl_tac. rewrite rl_target_ok. lia. Qed.
Lemma rl_prefix_ok p : rl_prefix p = lenN (enc_prefix p).
Proof.
  unfold rl_prefix, enc_prefix. rl_tac.
  rewrite <- (rl_vec_ok rl_txin enc_txin) by apply rl_txin_ok.
  rewrite <- (rl_vec_ok rl_txout enc_txout) by apply rl_txout_ok. lia.
Qed.
Lemma rl_signature_ok s : rl_signature s = lenN (enc_signature s).
Proof. unfold rl_signature, enc_signature. rewrite lenN_app, !rl_arr_ok. reflexivity. Qed.
Lemma rl_ecdh_ok e : rl_ecdh e = lenN (enc_ecdh e).
Proof. destruct e; cbn [rl_ecdh enc_ecdh]; rewrite ?lenN_app, !rl_arr_ok; reflexivity. Qed.
Lemma rl_borosig_ok b : rl_borosig b = lenN (enc_borosig b).
Proof. unfold rl_borosig, enc_borosig. rewrite !lenN_app, !rl_arr_ok. unfold enc_arr. lia. Qed.
Lemma rl_rangesig_ok r : rl_rangesig r = lenN (enc_rangesig r).
Proof. unfold rl_rangesig, enc_rangesig. rewrite lenN_app, rl_borosig_ok, rl_arr_ok. reflexivity. Qed.
Lemma rl_mgsig_ok m : rl_mgsig m = lenN (enc_mgsig m).
Proof.
  unfold rl_mgsig, enc_mgsig, rl_list. rewrite lenN_app, rl_arr_ok.
  rewrite (rl_sum_ok _ (enc_list enc_arr)); [reflexivity|]. intros a. apply rl_sum_ok. apply rl_arr_ok.
Qed.
Lemma rl_clsag_ok c : rl_clsag c = lenN (enc_clsag c).
Proof.
  unfold rl_clsag, enc_clsag, rl_list. rewrite !lenN_app, !rl_arr_ok, (rl_sum_ok _ enc_arr) by apply rl_arr_ok.
  unfold enc_arr. lia.
Qed.
Lemma rl_bulletproof_ok p : rl_bulletproof p = lenN (enc_bulletproof p).
Proof.
  unfold rl_bulletproof, enc_bulletproof. rewrite !lenN_app, !rl_arr_ok, !(rl_vec_ok rl_arr enc_arr) by apply rl_arr_ok.
  unfold enc_arr. lia.
Qed.
Lemma rl_bpplus_ok p : rl_bpplus p = lenN (enc_bpplus p).
Proof.
  unfold rl_bpplus, enc_bpplus. rewrite !lenN_app, !rl_arr_ok, !(rl_vec_ok rl_arr enc_arr) by apply rl_arr_ok.
  unfold enc_arr. lia.
Qed.
Lemma rl_rct_base_ok b : rl_rct_base b = lenN (enc_rct_base b).
Proof.
  unfold rl_rct_base, enc_rct_base, rl_list, enc_rct_type, rl_rct_type. rewrite lenN_app, enc_u8_len.
  pose proof (rl_sum_ok rl_arr enc_arr (rb_pseudo_outs b) rl_arr_ok) as Hp.
  pose proof (rl_sum_ok rl_ecdh enc_ecdh (rb_ecdh b) rl_ecdh_ok) as He.
  pose proof (rl_sum_ok rl_arr enc_arr (rb_out_pk b) rl_arr_ok) as Ho.
  pose proof (rl_varint_ok (rb_fee b)) as Hv.
  destruct (rb_type b); cbn [rct_type_eqb]; rewrite ?lenN_app; change (@lenN byte []) with 0; lia.
Qed.
Lemma rl_rct_prunable_ok p t : rl_rct_prunable p t = lenN (enc_rct_prunable p t).
Proof.
  unfold rl_rct_prunable, enc_rct_prunable, rl_list.
  pose proof (rl_sum_ok rl_arr enc_arr (rp_pseudo_outs p) rl_arr_ok) as H1.
  pose proof (rl_sum_ok rl_rangesig enc_rangesig (rp_range_sigs p) rl_rangesig_ok) as H2.
  pose proof (rl_sum_ok rl_mgsig enc_mgsig (rp_MGs p) rl_mgsig_ok) as H3.
  pose proof (rl_sum_ok rl_clsag enc_clsag (rp_Clsags p) rl_clsag_ok) as H4.
  pose proof (rl_sum_ok rl_bulletproof enc_bulletproof (rp_bulletproofs p) rl_bulletproof_ok) as H5.
  pose proof (rl_vec_ok rl_bulletproof enc_bulletproof (rp_bulletproofs p) rl_bulletproof_ok) as H6.
  pose proof (rl_vec_ok rl_bpplus enc_bpplus (rp_bulletproofplus p) rl_bpplus_ok) as H7.
  destruct t; cbn [is_rct_bp is_rct_bp_plus uses_clsag has_p_pseudo]; try reflexivity;
    rewrite ?lenN_app, ?enc_uint_len; change (@lenN byte []) with 0; unfold rl_u32; lia.
Qed.
Lemma rl_tx_ok t : rl_tx t = lenN (enc_tx t).
Proof.
  unfold rl_tx, enc_tx, rl_list. rewrite lenN_app, rl_prefix_ok.
  destruct (version (tx_prefix t) =? 1).
  - f_equal. apply rl_sum_ok. intros a. apply rl_sum_ok. apply rl_signature_ok.
  - destruct (rct_base_of (tx_rct t)) as [sig|]; [|reflexivity].
    rewrite lenN_app, rl_rct_base_ok. destruct (rct_p (tx_rct t)); [now rewrite rl_rct_prunable_ok|reflexivity].
Qed.
Lemma rl_header_ok h : rl_header h = lenN (enc_header h).
Proof.
  unfold rl_header, enc_header. rewrite !lenN_app, enc_uint_len, <- !rl_varint_ok.
  rewrite (rl_arr_ok (prev_id h)). unfold enc_arr, rl_u32. lia.
Qed.
Lemma rl_block_ok b : rl_block b = lenN (enc_block b).
Proof.
  unfold rl_block, enc_block. rewrite !lenN_app, rl_header_ok, rl_tx_ok, (rl_vec_ok rl_arr enc_arr) by apply rl_arr_ok. lia.
Qed.
