(* EcdhProofs.v — proofs about Model/Ecdh.v (C08): every returned opening opens the commitment; the decoder inverts the
   sender of Spec/Sender.v in both encodings. *)
From MRS Require Export Proofs.DeriveProofs Model.Ecdh Spec.Sender.
Open Scope Z_scope.

(* ---- bytes and 64-bit words ------------------------------------------------------------------------------------------ *)
Lemma firstn_n2le k m n : firstn k (n2le (k + m) n) = n2le k n.
Proof.
  revert n. induction k as [|k IH]; intros n; [reflexivity|].
  cbn [Nat.add n2le firstn]. now rewrite IH.
Qed.

Lemma low64_small a : 0 <= a < 2 ^ 64 -> low64 a = Z.to_N a.
Proof.
  intros Ha. unfold low64, Ed25519.z2le. change 32%nat with (8 + 24)%nat. rewrite firstn_n2le, le2n_n2le.
  apply N.mod_small. change (256 ^ N.of_nat 8)%N with (Z.to_N (2 ^ 64)). lia.
Qed.

Lemma firstn_le2n_lt (b : bytes) : (le2n (firstn 8 b) < 2 ^ 64)%N.
Proof.
  pose proof (le2n_lt (firstn 8 b)) as H. pose proof (firstn_le_length 8 b) as Hl.
  eapply N.lt_le_trans; [exact H|]. change (2 ^ 64)%N with (256 ^ 8)%N.
  apply N.pow_le_mono_r; lia.
Qed.

Lemma lxor_lt_pow2 a b n : (a < 2 ^ n)%N -> (b < 2 ^ n)%N -> (N.lxor a b < 2 ^ n)%N.
Proof.
  intros Ha Hb. destruct (N.eq_dec (N.lxor a b) 0) as [->|Hne]; [apply N.neq_0_lt_0, N.pow_nonzero; lia|].
  assert (Hn : (0 < n)%N).
  { destruct (N.eq_dec n 0) as [->|]; [|lia]. change (2 ^ 0)%N with 1%N in *.
    assert (a = 0%N) by lia. assert (b = 0%N) by lia. subst. now cbn in Hne. }
  apply N.log2_lt_pow2; [lia|].
  eapply N.le_lt_trans; [apply N.log2_lxor|].
  apply N.max_lub_lt.
  - destruct (N.eq_dec a 0) as [->|Ha0]; [exact Hn|]. apply N.log2_lt_pow2; lia.
  - destruct (N.eq_dec b 0) as [->|Hb0]; [exact Hn|]. apply N.log2_lt_pow2; lia.
Qed.

Lemma lxor_cancel a k : N.lxor (N.lxor a k) k = a.
Proof. now rewrite N.lxor_assoc, N.lxor_nilpotent, N.lxor_0_r. Qed.

(* scalars as bytes *)
Lemma sc_reduce_bytes s : 0 <= s < ell -> sc_reduce (sk_to_bytes s) = s.
Proof.
  intros Hs. pose proof ell_lt as He. unfold sc_reduce, sk_to_bytes. rewrite le2z_z2le32 by lia.
  apply Z.mod_small. lia.
Qed.

Lemma add_sub_mod y s : 0 <= y < ell -> ((y + s) mod ell - s) mod ell = y.
Proof.
  intros Hy. pose proof ell_lt as He. rewrite Zminus_mod_idemp_l.
  replace (y + s - s) with y by ring. apply Z.mod_small. lia.
Qed.

(* the two developments use the same salts and the same scalar encoding *)
Lemma salts_agree : amount_salt = salt_amount /\ mask_salt = salt_mask.
Proof. split; reflexivity. Qed.

Section EcdhProofs.
Context {E : EdOps}.
Variable Hs : hs_fun.
Variable Hb : bytes -> bytes.

(* ---- soundness: whatever is returned opens the candidate commitment ------------------------------------------------ *)
Lemma open_with_sound e shared cand a y C :
  (forall P Q : point, peqb P Q = true -> P = Q) ->
  open_with Hs Hb e shared cand = Ok (Some (a, y, C)) ->
  exists Hp, decompress Ed25519.H_bytes = Some Hp /\ C = cand /\ C = commit Hp y a /\ (a, y) = ecdh_decode Hs Hb e shared.
Proof.
  intros Heq. unfold open_with. destruct (ecdh_decode Hs Hb e shared) as [a0 y0] eqn:Hd.
  unfold H_pt, pk_point. destruct (decompress Ed25519.H_bytes) as [Hp|]; cbn [bindr]; [|discriminate].
  destruct (peqb (commit Hp y0 a0) cand) eqn:Hq; [|discriminate].
  intros H. injection H as <- <- <-. exists Hp. apply Heq in Hq. repeat split; auto.
Qed.

Lemma open_commitment_sound e v S K i cand a y C :
  (forall P Q : point, peqb P Q = true -> P = Q) ->
  open_commitment Hs Hb e v S K i cand = Ok (Some (a, y, C)) ->
  exists Hp, decompress Ed25519.H_bytes = Some Hp /\ C = cand /\ C = commit Hp y a.
Proof.
  intros Heq. unfold open_commitment. destruct (shared_scalar Hs v S K i) as [sh|e0|]; cbn [bindr]; try discriminate.
  intros H. destruct (open_with_sound _ _ _ _ _ _ Heq H) as (Hp & H1 & H2 & H3 & _). now exists Hp.
Qed.

Lemma open_none_or_valid e shared cand r : open_with Hs Hb e shared cand = Ok r ->
  r = None \/ exists a y C, r = Some (a, y, C).
Proof. destruct r as [[[a y] C]|]; [right; now exists a, y, C|now left]. Qed.

(* the amount returned is a u64 *)
Lemma ecdh_decode_u64 e shared : (fst (ecdh_decode Hs Hb e shared) < 2 ^ 64)%N.
Proof.
  destruct e as [m a|a]; cbn [ecdh_decode fst].
  - unfold low64. apply firstn_le2n_lt.
  - unfold xor_amount. apply N.mod_lt. discriminate.
Qed.

Context {LW : EdLaws E}.

Lemma commit_valid Hp y a : valid Hp -> valid (commit Hp y a).
Proof. intros H. unfold commit. auto with ed. Qed.

Lemma open_with_sound_laws e shared cand a y C : valid cand ->
  open_with Hs Hb e shared cand = Ok (Some (a, y, C)) ->
  exists Hp, decompress Ed25519.H_bytes = Some Hp /\ valid Hp /\ C = cand /\ C = commit Hp y a.
Proof.
  intros Hc. unfold open_with. destruct (ecdh_decode Hs Hb e shared) as [a0 y0] eqn:Hd.
  unfold H_pt, pk_point. destruct (decompress Ed25519.H_bytes) as [Hp|] eqn:HH; cbn [bindr]; [|discriminate].
  pose proof (decompress_valid _ _ HH) as HvH.
  destruct (peqb (commit Hp y0 a0) cand) eqn:Hq; [|discriminate].
  intros H. injection H as <- <- <-. exists Hp.
  apply peqb_eq in Hq; [|now apply commit_valid|exact Hc]. repeat split; auto.
Qed.

Lemma open_commitment_sound_laws e v S K i cand a y C : valid cand ->
  open_commitment Hs Hb e v S K i cand = Ok (Some (a, y, C)) ->
  exists Hp, decompress Ed25519.H_bytes = Some Hp /\ valid Hp /\ C = cand /\ C = commit Hp y a.
Proof.
  intros Hc. unfold open_commitment. destruct (shared_scalar Hs v S K i) as [sh|e0|]; cbn [bindr]; try discriminate.
  now apply open_with_sound_laws.
Qed.

(* ---- exactness: compact encoding ------------------------------------------------------------------------------------- *)
Lemma compact_decode a shared : (a < 2 ^ 64)%N ->
  ecdh_decode Hs Hb (EBulletproof (sender_compact Hb a shared)) shared = (a, gen_commitment_mask Hs shared).
Proof.
  intros Ha. cbn [ecdh_decode]. f_equal. unfold xor_amount, sender_compact, sc32, sk_to_bytes.
  change salt_amount with amount_salt.
  set (k := le2n (firstn 8 (Hb (amount_salt ++ z2le 32 shared)))).
  assert (Hk : (k < 2 ^ 64)%N) by apply firstn_le2n_lt.
  rewrite le2n_n2le. change (256 ^ N.of_nat 8)%N with (2 ^ 64)%N.
  rewrite (N.mod_small (N.lxor a k)) by now apply lxor_lt_pow2.
  rewrite lxor_cancel. now apply N.mod_small.
Qed.

Lemma open_with_commit e shared Hp a y : decompress Ed25519.H_bytes = Some Hp ->
  ecdh_decode Hs Hb e shared = (a, y) ->
  open_with Hs Hb e shared (commit Hp y a) = Ok (Some (a, y, commit Hp y a)).
Proof.
  intros HH Hd. unfold open_with. rewrite Hd. unfold H_pt, pk_point. rewrite HH. cbn [bindr].
  pose proof (decompress_valid _ _ HH) as HvH.
  assert (Hq : peqb (commit Hp y a) (commit Hp y a) = true) by (apply peqb_eq; auto using commit_valid).
  now rewrite Hq.
Qed.

Lemma compact_exact a shared Hp : (a < 2 ^ 64)%N -> decompress Ed25519.H_bytes = Some Hp ->
  open_with Hs Hb (EBulletproof (sender_compact Hb a shared)) shared (pedersen Hp (gen_commitment_mask Hs shared) a)
    = Ok (Some (a, gen_commitment_mask Hs shared, pedersen Hp (gen_commitment_mask Hs shared) a)).
Proof.
  intros Ha HH. change (pedersen Hp (gen_commitment_mask Hs shared) a) with (commit Hp (gen_commitment_mask Hs shared) a).
  apply open_with_commit; [exact HH|now apply compact_decode].
Qed.

(* ---- exactness: legacy encoding ---------------------------------------------------------------------------------------- *)
Lemma legacy_decode a y shared : (forall m, 0 <= Hs m < ell) -> (a < 2 ^ 64)%N -> 0 <= y < ell ->
  ecdh_decode Hs Hb (EStandard (fst (sender_legacy Hs a y shared)) (snd (sender_legacy Hs a y shared))) shared = (a, y).
Proof.
  intros Hr Ha Hy. pose proof ell_lt as He. unfold sender_legacy. cbn [fst snd ecdh_decode].
  unfold sc32. fold (sk_to_bytes shared). fold (sk_to_bytes (Hs (sk_to_bytes shared))).
  set (s1 := Hs (sk_to_bytes shared)). set (s2 := Hs (sk_to_bytes s1)).
  pose proof (Hr (sk_to_bytes shared)) as H1. fold s1 in H1. pose proof (Hr (sk_to_bytes s1)) as H2. fold s2 in H2.
  fold (sk_to_bytes ((y + s1) mod ell)). fold (sk_to_bytes ((Z.of_N a + s2) mod ell)).
  rewrite !sc_reduce_bytes by (try assumption; apply Z.mod_pos_bound; lia).
  assert (Haz : 0 <= Z.of_N a < ell).
  { split; [lia|]. apply Z.lt_trans with (2 ^ 64); [|vm_compute; reflexivity]. change (2 ^ 64) with (Z.of_N (2 ^ 64)%N). lia. }
  unfold sc_sub. rewrite !add_sub_mod by assumption. f_equal.
  rewrite low64_small; [lia|]. change (2 ^ 64) with (Z.of_N (2 ^ 64)%N). lia.
Qed.

Lemma legacy_exact a y shared Hp : (forall m, 0 <= Hs m < ell) -> (a < 2 ^ 64)%N -> 0 <= y < ell ->
  decompress Ed25519.H_bytes = Some Hp ->
  open_with Hs Hb (EStandard (fst (sender_legacy Hs a y shared)) (snd (sender_legacy Hs a y shared))) shared (pedersen Hp y a)
    = Ok (Some (a, y, pedersen Hp y a)).
Proof.
  intros Hr Ha Hy HH. change (pedersen Hp y a) with (commit Hp y a).
  apply open_with_commit; [exact HH|now apply legacy_decode].
Qed.

End EcdhProofs.
