(* AmountProofs.v — C15: amount text parsing / formatting are exact decimal conversions. *)
From MRS Require Export Model.Amount Spec.Decimal Proofs.BaseProofs.
From Coq Require Export ZifyBool.
Open Scope list_scope.
Open Scope Z_scope.
Arguments Z.add : simpl never. Arguments Z.mul : simpl never. Arguments Z.pow : simpl never.
Arguments Z.sub : simpl never. Arguments Z.div : simpl never. Arguments Z.modulo : simpl never.
Arguments Z.leb : simpl never. Arguments Z.ltb : simpl never. Arguments Z.eqb : simpl never.
Arguments Z.gtb : simpl never. Arguments Z.opp : simpl never. Arguments Z.of_nat : simpl never.
Arguments Z.to_nat : simpl never. Arguments Z.abs : simpl never.

(* ---- characters (256-case computations) ------------------------------------------------------- *)
Lemma is_digit_iff c : is_digit c = true <-> digit_of c <> None.
Proof. destruct c; vm_compute; split; congruence. Qed.
Lemma is_digit_val c : is_digit c = true -> bz c - 48 = dig c.
Proof. destruct c; vm_compute; congruence. Qed.
Lemma dig_range c : 0 <= dig c <= 9.
Proof. destruct c; vm_compute; split; congruence. Qed.
Lemma is_dot_iff c : is_dot c = true <-> c = x2e.
Proof. destruct c; vm_compute; split; congruence. Qed.
Lemma is_minus_iff c : is_minus c = true <-> c = x2d.
Proof. destruct c; vm_compute; split; congruence. Qed.
Lemma is_space_iff c : is_space c = true <-> c = x20.
Proof. destruct c; vm_compute; split; congruence. Qed.
Lemma digit_not_special c : is_digit c = true -> is_dot c = false /\ is_minus c = false /\ is_space c = false.
Proof. destruct c; vm_compute; intuition congruence. Qed.

Lemma all_digits_cons c t : all_digits (c :: t) <-> is_digit c = true /\ all_digits t.
Proof.
  unfold all_digits. split.
  - intros H. inversion H; subst. split; [now apply is_digit_iff|assumption].
  - intros [H1 H2]. constructor; [now apply is_digit_iff|assumption].
Qed.
Lemma all_digits_nil : all_digits [].
Proof. constructor. Qed.
Lemma all_digits_app a b : all_digits (a ++ b) <-> all_digits a /\ all_digits b.
Proof. unfold all_digits. apply Forall_app. Qed.

(* ---- positional value ------------------------------------------------------------------------- *)
Lemma pow10_pos n : 1 <= 10 ^ Z.of_nat n.
Proof. pose proof (Z.pow_pos_nonneg 10 (Z.of_nat n)). lia. Qed.
Lemma pow10_S n : 10 ^ Z.of_nat (S n) = 10 * 10 ^ Z.of_nat n.
Proof. rewrite Nat2Z.inj_succ, Z.pow_succ_r by lia. reflexivity. Qed.
Lemma pow10_add a b : 10 ^ Z.of_nat (a + b) = 10 ^ Z.of_nat a * 10 ^ Z.of_nat b.
Proof. rewrite Nat2Z.inj_add, Z.pow_add_r by lia. reflexivity. Qed.

Lemma pow10_split a b : (a <= b)%nat -> 10 ^ Z.of_nat b = 10 ^ Z.of_nat a * 10 ^ Z.of_nat (b - a).
Proof. intros H. rewrite <- pow10_add. f_equal. lia. Qed.

Lemma dval_nil : dval [] = 0. Proof. reflexivity. Qed.
Lemma dval_cons c t : dval (c :: t) = dig c * 10 ^ Z.of_nat (List.length t) + dval t.
Proof. reflexivity. Qed.

Lemma dval_nonneg ds : 0 <= dval ds.
Proof.
  induction ds as [|c t IH]; [rewrite dval_nil; lia|]. rewrite dval_cons.
  pose proof (dig_range c). pose proof (pow10_pos (List.length t)). nia.
Qed.

Lemma dval_lt ds : dval ds < 10 ^ Z.of_nat (List.length ds).
Proof.
  induction ds as [|c t IH]; [rewrite dval_nil; cbn [List.length]; rewrite Z.pow_0_r; lia|].
  rewrite dval_cons. cbn [List.length]. rewrite pow10_S.
  pose proof (dig_range c). pose proof (pow10_pos (List.length t)). nia.
Qed.

Lemma dval_app a b : dval (a ++ b) = dval a * 10 ^ Z.of_nat (List.length b) + dval b.
Proof.
  induction a as [|c t IH]; [cbn [app]; rewrite dval_nil; lia|].
  cbn [app]. rewrite !dval_cons, IH, app_length, pow10_add. ring.
Qed.

(* the running value of the parser after the digits ds, started at v *)
Definition acc (v : Z) (ds : bytes) : Z := v * 10 ^ Z.of_nat (List.length ds) + dval ds.

Lemma acc_nil v : acc v [] = v.
Proof. unfold acc. cbn [List.length]. rewrite dval_nil, Z.pow_0_r. lia. Qed.
Lemma acc_cons v c t : acc v (c :: t) = acc (10 * v + dig c) t.
Proof. unfold acc. cbn [List.length]. rewrite dval_cons, pow10_S. ring. Qed.
(* monotone: an intermediate value never exceeds the final one *)
Lemma acc_ge v ds : 0 <= v -> v <= acc v ds.
Proof.
  intros Hv. unfold acc. pose proof (dval_nonneg ds). pose proof (pow10_pos (List.length ds)). nia.
Qed.
Lemma acc_0 ds : acc 0 ds = dval ds.
Proof. unfold acc. lia. Qed.
(* acc 0 ds and dval ds are even convertible, which confuses `rewrite` in goals *)
Ltac acc0 := repeat match goal with |- context [acc 0 ?x] => change (acc 0 x) with (dval x) end.

(* ---- the digit loop --------------------------------------------------------------------------- *)
Lemma parse_loop_digit maxd c t dec v :
  is_digit c = true -> 0 <= v ->
  parse_loop maxd (c :: t) dec v =
    if 10 * v + dig c <=? U64MAX then
      match dec with
      | None => parse_loop maxd t None (10 * v + dig c)
      | Some d => if d <? maxd then parse_loop maxd t (Some (d + 1)) (10 * v + dig c) else AErr ETooPrecise
      end
    else AErr ETooBig.
Proof.
  intros D Hv. cbn [parse_loop]. rewrite D. unfold u64_checked_mul, u64_checked_add.
  rewrite (is_digit_val c D). pose proof (dig_range c).
  destruct (Z.leb_spec (10 * v) U64MAX), (Z.leb_spec (10 * v + dig c) U64MAX); try reflexivity; lia.
Qed.

Lemma parse_loop_nondigit maxd c t dec v :
  is_digit c = false ->
  parse_loop maxd (c :: t) dec v =
    if is_dot c then match dec with None => parse_loop maxd t (Some 0) v | Some _ => AErr EInvalidFormat end
    else AErr EInvalidCharacter.
Proof. intros D. cbn [parse_loop]. rewrite D. reflexivity. Qed.

(* after the point: only digits, at most maxd of them, exact running value, no overflow anywhere *)
Lemma loop_frac s : forall maxd k v dec v',
  0 <= v <= U64MAX -> 0 <= k <= maxd ->
  (parse_loop maxd s (Some k) v = AOk (dec, v') <->
   all_digits s /\ k + Z.of_nat (List.length s) <= maxd /\ dec = Some (k + Z.of_nat (List.length s)) /\
   v' = acc v s /\ v' <= U64MAX).
Proof.
  induction s as [|c t IH]; intros maxd k v dec v' Hv Hk.
  - cbn [parse_loop List.length]. change (Z.of_nat 0) with 0. rewrite Z.add_0_r, acc_nil. split.
    + intros [= <- <-]. repeat split; try lia. apply all_digits_nil.
    + intros (_ & _ & -> & -> & _). reflexivity.
  - destruct (is_digit c) eqn:D.
    + rewrite parse_loop_digit by (assumption || lia). pose proof (dig_range c) as Hd.
      rewrite all_digits_cons, acc_cons. cbn [List.length]. rewrite Nat2Z.inj_succ.
      destruct (Z.leb_spec (10 * v + dig c) U64MAX) as [L|L].
      * destruct (Z.ltb_spec k maxd) as [K|K].
        -- rewrite IH by lia. split.
           ++ intros (A & B & C & E & F). subst. repeat split; auto; try lia. f_equal. lia.
           ++ intros ((_ & A) & B & C & E & F). subst. repeat split; auto; try lia. f_equal. lia.
        -- split; [discriminate|]. intros (_ & B & _). lia.
      * split; [discriminate|]. intros (_ & _ & _ & E & F).
        pose proof (acc_ge (10 * v + dig c) t ltac:(lia)). lia.
    + rewrite parse_loop_nondigit by assumption. split.
      * destruct (is_dot c); discriminate.
      * intros (A & _). apply all_digits_cons in A. destruct A as [A _]. congruence.
Qed.

(* before the point *)
Lemma loop_int s : forall maxd v dec v',
  0 <= v <= U64MAX -> 0 <= maxd ->
  (parse_loop maxd s None v = AOk (dec, v') <->
   (all_digits s /\ dec = None /\ v' = acc v s /\ v' <= U64MAX) \/
   (exists ip fp, s = ip ++ x2e :: fp /\ all_digits ip /\ all_digits fp /\ Z.of_nat (List.length fp) <= maxd /\
                  dec = Some (Z.of_nat (List.length fp)) /\ v' = acc (acc v ip) fp /\ v' <= U64MAX)).
Proof.
  induction s as [|c t IH]; intros maxd v dec v' Hv Hm.
  - cbn [parse_loop]. rewrite acc_nil. split.
    + intros [= <- <-]. left. repeat split; try lia. apply all_digits_nil.
    + intros [(_ & -> & -> & _)|(ip & fp & E & _)]; [reflexivity|]. destruct ip; discriminate.
  - destruct (is_digit c) eqn:D.
    + rewrite parse_loop_digit by (assumption || lia). pose proof (dig_range c) as Hd.
      destruct (Z.leb_spec (10 * v + dig c) U64MAX) as [L|L].
      * rewrite IH by lia. split.
        -- intros [(A & B & C & E)|(ip & fp & A & B & C & E & F & G & H)].
           ++ left. rewrite all_digits_cons, acc_cons. auto.
           ++ right. exists (c :: ip), fp. rewrite all_digits_cons, acc_cons. subst. repeat split; auto.
        -- intros [(A & B & C & E)|(ip & fp & A & B & C & E & F & G & H)].
           ++ left. rewrite all_digits_cons in A. rewrite acc_cons in C. tauto.
           ++ right. destruct ip as [|c' ip].
              { cbn [app] in A. injection A as -> _. discriminate D. }
              cbn [app] in A. injection A as <- ->. exists ip, fp.
              rewrite all_digits_cons in B. rewrite acc_cons in G. repeat split; tauto.
      * split; [discriminate|].
        intros [(A & B & C & E)|(ip & fp & A & B & C & E & F & G & H)].
        -- rewrite acc_cons in C. pose proof (acc_ge (10 * v + dig c) t ltac:(lia)). lia.
        -- destruct ip as [|c' ip].
           { cbn [app] in A. injection A as -> _. discriminate D. }
           cbn [app] in A. injection A as <- ->. rewrite acc_cons in G.
           pose proof (acc_ge (10 * v + dig c) ip ltac:(lia)).
           pose proof (acc_ge (acc (10 * v + dig c) ip) fp ltac:(lia)). lia.
    + rewrite parse_loop_nondigit by assumption. destruct (is_dot c) eqn:P.
      * apply is_dot_iff in P. subst c. rewrite (loop_frac t maxd 0 v dec v') by lia. rewrite Z.add_0_l. split.
        -- intros (A & B & C & E & F). right. exists [], t. rewrite acc_nil. repeat split; auto. apply all_digits_nil.
        -- intros [(A & _)|(ip & fp & A & B & C & E & F & G & H)].
           ++ apply all_digits_cons in A. destruct A as [A _]. discriminate A.
           ++ destruct ip as [|c' ip].
              ** cbn [app] in A. injection A as ->. rewrite acc_nil in G. tauto.
              ** cbn [app] in A. injection A as <- _. apply all_digits_cons in B. destruct B as [B _]. discriminate B.
      * split; [discriminate|].
        intros [(A & _)|(ip & fp & A & B & _)].
        -- apply all_digits_cons in A. destruct A as [A _]. congruence.
        -- destruct ip as [|c' ip].
           ** cbn [app] in A. injection A as -> _. discriminate P.
           ** cbn [app] in A. injection A as <- _. apply all_digits_cons in B. destruct B as [B _]. congruence.
Qed.

Lemma rescale_spec k : forall v v', 0 <= v <= U64MAX ->
  (rescale k v = AOk v' <-> v' = v * 10 ^ Z.of_nat k /\ v' <= U64MAX).
Proof.
  induction k as [|k IH]; intros v v' Hv.
  - cbn [rescale]. change (Z.of_nat 0) with 0. rewrite Z.pow_0_r, Z.mul_1_r. split.
    + intros [= <-]. lia.
    + intros [-> _]. reflexivity.
  - cbn [rescale]. unfold u64_checked_mul. rewrite pow10_S. pose proof (pow10_pos k).
    destruct (Z.leb_spec (10 * v) U64MAX) as [L|L].
    + rewrite IH by lia. split; intros [-> H1]; split; try lia; ring.
    + split; [discriminate|]. intros [-> H1]. nia.
Qed.

(* nothing in the parser can panic *)
Lemma parse_loop_no_panic s : forall maxd dec v, parse_loop maxd s dec v <> APanic.
Proof.
  induction s as [|c t IH]; intros maxd dec v; cbn [parse_loop]; [discriminate|].
  destruct (is_digit c).
  - destruct (u64_checked_mul 10 v); [|discriminate]. destruct (u64_checked_add z (bz c - 48)); [|discriminate].
    destruct dec; [destruct (z1 <? maxd); [apply IH|discriminate]|apply IH].
  - destruct (is_dot c); [|discriminate]. destruct dec; [discriminate|apply IH].
Qed.
Lemma rescale_no_panic k : forall v, rescale k v <> APanic.
Proof. induction k as [|k IH]; intros v; cbn [rescale]; [discriminate|]. destruct (u64_checked_mul 10 v); [apply IH|discriminate]. Qed.

(* ---- parse_signed_to_piconero ----------------------------------------------------------------- *)
Lemma precision_decimals d : precision d = - Z.of_nat (decimals d).
Proof. destruct d; reflexivity. Qed.

(* value of the text ip.fp scaled by 10^decs *)
Definition scaled (decs : nat) (ip fp : bytes) : Z :=
  dval ip * 10 ^ Z.of_nat decs + dval fp * 10 ^ Z.of_nat (decs - List.length fp).

Definition body_run (decs : nat) (body : bytes) : ares Z :=
  abind (parse_loop (Z.of_nat decs) body None 0)
    (fun '(dec, value) =>
       rescale (Z.to_nat (Z.of_nat decs - match dec with Some d => d | None => 0 end)) value).

Lemma abind_assoc {A B C} (r : ares A) (f : A -> ares B) (g : B -> ares C) :
  abind (abind r f) g = abind r (fun x => abind (f x) g).
Proof. destruct r; reflexivity. Qed.
Lemma abind_ext {A B} (r : ares A) (f g : A -> ares B) : (forall x, f x = g x) -> abind r f = abind r g.
Proof. intros H. destruct r; cbn [abind]; auto. Qed.

Lemma parse_unfold d c0 t0 :
  parse_signed_to_piconero (c0 :: t0) d =
    if Nat.ltb 50 (List.length (c0 :: t0)) then AErr EInputTooLarge
    else if is_minus c0 && Nat.eqb (List.length (c0 :: t0)) 1 then AErr EInvalidFormat
    else abind (body_run (decimals d) (if is_minus c0 then t0 else c0 :: t0)) (fun v => AOk (is_minus c0, v)).
Proof.
  unfold parse_signed_to_piconero, parse_prec, body_run.
  destruct (Nat.ltb 50 (List.length (c0 :: t0))); [reflexivity|].
  destruct (is_minus c0 && Nat.eqb (List.length (c0 :: t0)) 1); [reflexivity|].
  assert (E : (- precision d <? 0) = false) by (destruct d; reflexivity). rewrite E. cbn [abind].
  replace (- precision d) with (Z.of_nat (decimals d)) by (destruct d; reflexivity).
  rewrite abind_assoc. apply abind_ext. intros [dec value]. reflexivity.
Qed.

Lemma u64max_pos : 0 <= 0 <= U64MAX. Proof. unfold U64MAX. lia. Qed.

Lemma body_run_spec decs body v :
  body_run decs body = AOk v <->
  (all_digits body /\ v = scaled decs body [] /\ v <= U64MAX) \/
  (exists ip fp, body = ip ++ x2e :: fp /\ all_digits ip /\ all_digits fp /\ (List.length fp <= decs)%nat /\
                 v = scaled decs ip fp /\ v <= U64MAX).
Proof.
  unfold body_run, scaled. split.
  - destruct (parse_loop (Z.of_nat decs) body None 0) as [[dec vl]| |] eqn:PL; cbn [abind]; try discriminate.
    intros RS. apply (loop_int body (Z.of_nat decs) 0 dec vl u64max_pos ltac:(lia)) in PL.
    destruct PL as [(A & -> & C & E)|(ip & fp & A & B & C & E & -> & G & H)].
    + rewrite acc_0 in C. subst vl. apply rescale_spec in RS; [|pose proof (dval_nonneg body); lia].
      destruct RS as [-> R2]. left. repeat split; auto. rewrite Z.sub_0_r, Nat2Z.id in *. rewrite dval_nil. lia.
    + rewrite acc_0 in G. pose proof (dval_nonneg ip). pose proof (dval_nonneg fp). pose proof (pow10_pos (List.length fp)).
      assert (0 <= vl) by (subst vl; unfold acc; nia).
      apply rescale_spec in RS; [|lia]. destruct RS as [-> R2]. right. exists ip, fp. repeat split; auto; try lia.
      subst vl. unfold acc.
      replace (Z.to_nat (Z.of_nat decs - Z.of_nat (List.length fp))) with (decs - List.length fp)%nat by lia.
      rewrite (pow10_split (List.length fp) decs) by lia. ring.
  - intros [(A & -> & C)|(ip & fp & -> & B & C & E & -> & G)].
    + assert (PL : parse_loop (Z.of_nat decs) body None 0 = AOk (None, dval body)).
      { apply (loop_int body (Z.of_nat decs) 0 None (dval body) u64max_pos ltac:(lia)). left.
        rewrite dval_nil in C.
        pose proof (dval_nonneg body). pose proof (pow10_pos decs). repeat split; auto; try (symmetry; apply acc_0); try nia. }
      rewrite PL. cbn [abind]. apply rescale_spec.
      * rewrite dval_nil in C. pose proof (dval_nonneg body). pose proof (pow10_pos decs). nia.
      * rewrite Z.sub_0_r, Nat2Z.id. rewrite dval_nil in *. split; [lia|]. lia.
    + pose proof (dval_nonneg ip). pose proof (dval_nonneg fp). pose proof (pow10_pos (List.length fp)).
      pose proof (pow10_pos (decs - List.length fp)).
      assert (EQ : dval ip * 10 ^ Z.of_nat decs + dval fp * 10 ^ Z.of_nat (decs - List.length fp)
                   = acc (dval ip) fp * 10 ^ Z.of_nat (decs - List.length fp)).
      { unfold acc. rewrite (pow10_split (List.length fp) decs) by lia. ring. }
      assert (0 <= acc (dval ip) fp) by (unfold acc; nia).
      assert (PL : parse_loop (Z.of_nat decs) (ip ++ x2e :: fp) None 0 = AOk (Some (Z.of_nat (List.length fp)), acc (dval ip) fp)).
      { apply (loop_int (ip ++ x2e :: fp) (Z.of_nat decs) 0 _ _ u64max_pos ltac:(lia)). right.
        exists ip, fp. acc0. repeat split; auto; try lia. nia. }
      rewrite PL. cbn [abind]. apply rescale_spec; [nia|].
      replace (Z.to_nat (Z.of_nat decs - Z.of_nat (List.length fp))) with (decs - List.length fp)%nat by lia.
      split; [exact EQ|exact G].
Qed.

Lemma body_run_no_panic decs body : body_run decs body <> APanic.
Proof.
  unfold body_run. pose proof (parse_loop_no_panic body (Z.of_nat decs) None 0) as H.
  destruct (parse_loop (Z.of_nat decs) body None 0) as [[dec vl]| |]; cbn [abind]; try discriminate; [|congruence].
  apply rescale_no_panic.
Qed.

Lemma is_minus_x2d : is_minus x2d = true. Proof. reflexivity. Qed.
Lemma is_minus_x2e : is_minus x2e = false. Proof. reflexivity. Qed.

(* the head of a digit string or of ip ++ "." ++ fp is not '-' *)
Lemma head_not_minus ip rest c t :
  all_digits ip -> (ip ++ rest = c :: t) -> (ip = [] -> exists r, rest = x2e :: r) -> is_minus c = false.
Proof.
  intros A E H. destruct ip as [|c' ip].
  - destruct (H eq_refl) as [r ->]. cbn [app] in E. injection E as <- _. reflexivity.
  - cbn [app] in E. injection E as <- _. apply all_digits_cons in A. destruct A as [A _].
    now apply digit_not_special in A.
Qed.

Theorem parse_signed_spec d s neg v :
  parse_signed_to_piconero s d = AOk (neg, v) <->
  exists ip fp, decimal_shape s neg ip fp /\ all_digits ip /\ all_digits fp /\
                (List.length s <= 50)%nat /\ (List.length fp <= decimals d)%nat /\
                v = scaled (decimals d) ip fp /\ v <= U64MAX.
Proof.
  split.
  - destruct s as [|c0 t0]; [discriminate|]. rewrite parse_unfold.
    destruct (Nat.ltb_spec 50 (List.length (c0 :: t0))) as [L|L]; [discriminate|].
    destruct (is_minus c0) eqn:M.
    + apply is_minus_iff in M. subst c0. cbn [andb].
      destruct (Nat.eqb_spec (List.length (x2d :: t0)) 1) as [L1|L1]; [discriminate|].
      destruct (body_run (decimals d) t0) as [v0| |] eqn:BR; cbn [abind]; try discriminate.
      intros [= <- <-]. apply body_run_spec in BR.
      destruct BR as [(A & B & C)|(ip & fp & A & B & C & E & F & G)].
      * exists t0, []. repeat split; auto using all_digits_nil; cbn [List.length] in *; try lia.
        apply (shape_int true t0). intros ->. now apply L1.
      * exists ip, fp. subst t0. repeat split; auto. apply (shape_point true ip fp).
    + cbn [andb]. destruct (body_run (decimals d) (c0 :: t0)) as [v0| |] eqn:BR; cbn [abind]; try discriminate.
      intros [= <- <-]. apply body_run_spec in BR.
      destruct BR as [(A & B & C)|(ip & fp & A & B & C & E & F & G)].
      * exists (c0 :: t0), []. repeat split; auto using all_digits_nil; cbn [List.length] in *; try lia.
        apply (shape_int false (c0 :: t0)). discriminate.
      * exists ip, fp. rewrite A. repeat split; auto; [apply (shape_point false ip fp)|]. rewrite <- A. exact L.
  - intros (ip & fp & SH & A & B & L & Lf & -> & R).
    inversion SH as [neg' ip' NE E1 E2 E3 E4|neg' ip' fp' E1 E2 E3 E4]; subst.
    + (* integer text *)
      destruct neg; cbn [sign_str app] in *.
      * rewrite parse_unfold. rewrite is_minus_x2d. cbn [andb].
        destruct (Nat.ltb_spec 50 (List.length (x2d :: ip))) as [L'|_]; [lia|].
        destruct (Nat.eqb_spec (List.length (x2d :: ip)) 1) as [L1|_].
        { destruct ip; [congruence|cbn [List.length] in L1; lia]. }
        assert (BR : body_run (decimals d) ip = AOk (scaled (decimals d) ip [])).
        { apply body_run_spec. left. auto. }
        rewrite BR. reflexivity.
      * destruct ip as [|c t] eqn:Eip; [congruence|]. rewrite <- Eip in *.
        assert (M : is_minus c = false).
        { apply (head_not_minus ip [] c t A); [rewrite app_nil_r; exact Eip|intros ->; discriminate]. }
        rewrite Eip at 1. rewrite parse_unfold, M. cbn [andb]. rewrite <- Eip.
        destruct (Nat.ltb_spec 50 (List.length ip)) as [L'|_]; [lia|].
        assert (BR : body_run (decimals d) ip = AOk (scaled (decimals d) ip [])).
        { apply body_run_spec. left. auto. }
        rewrite BR. reflexivity.
    + (* text with a point *)
      assert (BR : body_run (decimals d) (ip ++ x2e :: fp) = AOk (scaled (decimals d) ip fp)).
      { apply body_run_spec. right. exists ip, fp. repeat split; auto. }
      destruct neg; cbn [sign_str app] in *.
      * rewrite parse_unfold. rewrite is_minus_x2d. cbn [andb].
        destruct (Nat.ltb_spec 50 (List.length (x2d :: ip ++ x2e :: fp))) as [L'|_]; [lia|].
        destruct (Nat.eqb_spec (List.length (x2d :: ip ++ x2e :: fp)) 1) as [L1|_].
        { cbn [List.length] in L1. rewrite app_length in L1. cbn [List.length] in L1. lia. }
        rewrite BR. reflexivity.
      * destruct (ip ++ x2e :: fp) as [|c t] eqn:Eb; [destruct ip; discriminate|].
        assert (M : is_minus c = false).
        { apply (head_not_minus ip (x2e :: fp) c t A Eb). intros _. eauto. }
        rewrite parse_unfold, M. cbn [andb].
        destruct (Nat.ltb_spec 50 (List.length (c :: t))) as [L'|_]; [lia|].
        rewrite BR. reflexivity.
Qed.

(* ---- from_str_in ------------------------------------------------------------------------------ *)
Lemma scaled_nonneg decs ip fp : 0 <= scaled decs ip fp.
Proof.
  unfold scaled. pose proof (dval_nonneg ip). pose proof (dval_nonneg fp).
  pose proof (pow10_pos decs). pose proof (pow10_pos (decs - List.length fp)). nia.
Qed.

Lemma shape_unsigned_no_sign s ip fp : decimal_shape s false ip fp -> all_digits ip -> ~ has_sign s.
Proof.
  intros SH A [t E]. subst s.
  inversion SH as [neg' ip' NE E1 E2 E3 E4|neg' ip' fp' E1 E2 E3 E4]; subst; cbn [sign_str app] in *.
  - assert (M : is_minus x2d = false).
    { apply (head_not_minus ip [] x2d t A); [rewrite app_nil_r; assumption|intros ->; congruence]. }
    discriminate M.
  - assert (M : is_minus x2d = false).
    { apply (head_not_minus ip (x2e :: fp) x2d t A); [assumption|]. intros _. eauto. }
    discriminate M.
Qed.

Lemma shape_signed_has_sign s ip fp : decimal_shape s true ip fp -> has_sign s.
Proof.
  intros SH. inversion SH; subst; cbn [sign_str app]; eexists; reflexivity.
Qed.

Lemma parse_no_panic s d : parse_signed_to_piconero s d <> APanic.
Proof.
  destruct s as [|c0 t0]; [discriminate|]. rewrite parse_unfold.
  destruct (Nat.ltb 50 (List.length (c0 :: t0))); [discriminate|].
  destruct (is_minus c0 && Nat.eqb (List.length (c0 :: t0)) 1); [discriminate|].
  pose proof (body_run_no_panic (decimals d) (if is_minus c0 then t0 else c0 :: t0)) as H.
  destruct (body_run (decimals d) (if is_minus c0 then t0 else c0 :: t0)); cbn [abind]; congruence.
Qed.

Lemma as_i64_small v : 0 <= v <= I64MAX -> as_i64 v = v.
Proof.
  unfold I64MAX, as_i64. intros H. rewrite Z.mod_small by lia.
  destruct (Z.ltb_spec v (2 ^ 63)); lia.
Qed.

Theorem amount_from_str_in_spec d s q :
  amount_from_str_in s d = AOk q <->
  denotes (decimals d) s q /\ ~ has_sign s /\ q <= 2 ^ 63 - 1.
Proof.
  unfold amount_from_str_in. split.
  - destruct (parse_signed_to_piconero s d) as [[neg v]| |] eqn:P; cbn [abind]; try discriminate.
    destruct neg; [discriminate|]. destruct (Z.gtb_spec v I64MAX) as [G|G]; [discriminate|].
    intros [= <-]. apply parse_signed_spec in P. destruct P as (ip & fp & SH & A & B & L & Lf & E & R).
    split; [|split].
    + exists false, ip, fp. repeat split; auto. rewrite E. unfold scaled. lia.
    + eapply shape_unsigned_no_sign; eauto.
    + unfold I64MAX in G. lia.
  - intros ((neg & ip & fp & SH & A & B & L & Lf & E) & NS & R).
    destruct neg; [exfalso; apply NS; eapply shape_signed_has_sign; eauto|].
    assert (P : parse_signed_to_piconero s d = AOk (false, q)).
    { apply parse_signed_spec. exists ip, fp. repeat split; auto.
      - rewrite E. unfold scaled. lia.
      - unfold U64MAX. lia. }
    rewrite P. cbn [abind]. destruct (Z.gtb_spec q I64MAX) as [G|G]; [unfold I64MAX in G; lia|reflexivity].
Qed.

Theorem signed_from_str_in_spec d s q :
  signed_from_str_in s d = AOk q <->
  denotes (decimals d) s q /\ - (2 ^ 63 - 1) <= q <= 2 ^ 63 - 1.
Proof.
  unfold signed_from_str_in. split.
  - destruct (parse_signed_to_piconero s d) as [[neg v]| |] eqn:P; cbn [abind]; try discriminate.
    destruct (Z.gtb_spec v I64MAX) as [G|G]; [discriminate|].
    apply parse_signed_spec in P. destruct P as (ip & fp & SH & A & B & L & Lf & E & R).
    pose proof (scaled_nonneg (decimals d) ip fp) as NN. rewrite <- E in NN.
    rewrite as_i64_small by lia. intros Q.
    assert (Q' : q = (if neg then -1 else 1) * v).
    { destruct neg; [|injection Q as <-; lia]. unfold i64_neg in Q.
      destruct (Z.eqb_spec v I64MIN) as [M|M]; [unfold I64MIN in M; lia|]. injection Q as <-. lia. }
    split.
    + exists neg, ip, fp. repeat split; auto. rewrite Q', E. reflexivity.
    + unfold I64MAX in G. destruct neg; lia.
  - intros ((neg & ip & fp & SH & A & B & L & Lf & E) & R).
    pose proof (scaled_nonneg (decimals d) ip fp) as NN. fold (scaled (decimals d) ip fp) in E.
    assert (P : parse_signed_to_piconero s d = AOk (neg, scaled (decimals d) ip fp)).
    { apply parse_signed_spec. exists ip, fp. repeat split; auto. unfold U64MAX. destruct neg; lia. }
    rewrite P. cbn [abind].
    destruct (Z.gtb_spec (scaled (decimals d) ip fp) I64MAX) as [G|G]; [unfold I64MAX in G; destruct neg; lia|].
    rewrite as_i64_small by lia. destruct neg.
    + unfold i64_neg. destruct (Z.eqb_spec (scaled (decimals d) ip fp) I64MIN) as [M|M]; [unfold I64MIN in M; lia|].
      f_equal. lia.
    + f_equal. lia.
Qed.

Theorem from_str_in_no_panic d s : amount_from_str_in s d <> APanic /\ signed_from_str_in s d <> APanic.
Proof.
  unfold amount_from_str_in, signed_from_str_in. pose proof (parse_no_panic s d) as NP.
  destruct (parse_signed_to_piconero s d) as [[neg v]| |] eqn:P; cbn [abind]; try (split; congruence).
  split.
  - destruct neg; [discriminate|]. destruct (v >? I64MAX); discriminate.
  - destruct (Z.gtb_spec v I64MAX) as [G|G]; [discriminate|].
    apply parse_signed_spec in P. destruct P as (ip & fp & _ & _ & _ & _ & _ & E & _).
    pose proof (scaled_nonneg (decimals d) ip fp) as NN. rewrite <- E in NN.
    rewrite as_i64_small by lia. destruct neg; [|discriminate]. unfold i64_neg.
    destruct (Z.eqb_spec v I64MIN) as [M|M]; [unfold I64MIN in M; lia|discriminate].
Qed.

(* ---- formatting ------------------------------------------------------------------------------- *)
Lemma digit_char_ok n : 0 <= n < 10 ->
  digit_of (digit_char n) <> None /\ dig (digit_char n) = n /\ (digit_char n = x30 -> n = 0).
Proof.
  intros H. assert (C : n = 0 \/ n = 1 \/ n = 2 \/ n = 3 \/ n = 4 \/ n = 5 \/ n = 6 \/ n = 7 \/ n = 8 \/ n = 9) by lia.
  repeat (destruct C as [->|C]); try subst n; vm_compute; repeat split; congruence.
Qed.

Lemma udigits_aux_spec f : forall n acc0,
  0 <= n < 10 ^ Z.of_nat (S f) ->
  exists D, udigits_aux (S f) n acc0 = D ++ acc0 /\ all_digits D /\ dval D = n /\ D <> [] /\
            (List.length D <= S f)%nat /\ (forall t, D = x30 :: t -> t = [] /\ n = 0).
Proof.
  induction f as [|f IH]; intros n acc0 Hn.
  - change (Z.of_nat 1) with 1 in Hn. rewrite Z.pow_1_r in Hn.
    cbn [udigits_aux]. destruct (Z.ltb_spec n 10) as [L|L]; [|lia].
    rewrite Z.mod_small by lia. destruct (digit_char_ok n ltac:(lia)) as (A & B & C).
    exists [digit_char n]. repeat split; auto.
    + repeat constructor. exact A.
    + rewrite dval_cons, dval_nil, B. cbn [List.length]. change (Z.of_nat 0) with 0. rewrite Z.pow_0_r. lia.
    + discriminate.
    + injection H as _ H2. symmetry. exact H2.
    + injection H as H1 _. auto.
  - remember (S f) as f1 eqn:Ef. cbn [udigits_aux]. destruct (Z.ltb_spec n 10) as [L|L].
    + rewrite Z.mod_small by lia. destruct (digit_char_ok n ltac:(lia)) as (A & B & C).
      exists [digit_char n]. repeat split; auto.
      * repeat constructor. exact A.
      * rewrite dval_cons, dval_nil, B. cbn [List.length]. change (Z.of_nat 0) with 0. rewrite Z.pow_0_r. lia.
      * discriminate.
      * cbn [List.length]. lia.
      * injection H as _ H2. symmetry. exact H2.
      * injection H as H1 _. auto.
    + assert (Hq : 0 <= n / 10 < 10 ^ Z.of_nat f1).
      { rewrite pow10_S in Hn. split; [apply Z.div_pos; lia|apply Z.div_lt_upper_bound; lia]. }
      subst f1. destruct (IH (n / 10) (digit_char (n mod 10) :: acc0) Hq) as (D & E & A & V & NE & Len & Lead).
      pose proof (Z.mod_pos_bound n 10 ltac:(lia)) as Hm.
      destruct (digit_char_ok (n mod 10) Hm) as (A1 & B1 & C1).
      exists (D ++ [digit_char (n mod 10)]). repeat split.
      * rewrite E, <- app_assoc. reflexivity.
      * apply all_digits_app. split; [exact A|]. repeat constructor. exact A1.
      * rewrite dval_app, V, dval_cons, dval_nil, B1. cbn [List.length]. change (Z.of_nat 0) with 0.
        change (Z.of_nat 1) with 1. rewrite Z.pow_0_r, Z.pow_1_r. pose proof (Z.div_mod n 10 ltac:(lia)). lia.
      * destruct D; discriminate.
      * rewrite app_length. cbn [List.length]. lia.
      * destruct D as [|c0 D']; [congruence|]. cbn [app] in H. injection H as -> _.
        destruct (Lead D' eq_refl) as [_ Z0]. assert (n / 10 >= 1) by (apply Z.le_ge, Z.div_le_lower_bound; lia). lia.
      * destruct D as [|c0 D']; [congruence|]. cbn [app] in H. injection H as -> _.
        destruct (Lead D' eq_refl) as [_ Z0]. assert (n / 10 >= 1) by (apply Z.le_ge, Z.div_le_lower_bound; lia). lia.
Qed.

Lemma udigits_spec n : 0 <= n <= U64MAX ->
  all_digits (udigits n) /\ dval (udigits n) = n /\ udigits n <> [] /\ (List.length (udigits n) <= 20)%nat /\
  (forall t, udigits n = x30 :: t -> t = [] /\ n = 0).
Proof.
  intros H. unfold udigits.
  assert (Hn : 0 <= n < 10 ^ Z.of_nat 20) by (unfold U64MAX in H; change (10 ^ Z.of_nat 20) with 100000000000000000000; lia).
  destruct (udigits_aux_spec 19 n [] Hn) as (D & E & A & V & NE & Len & Lead).
  rewrite app_nil_r in E. rewrite E. auto.
Qed.

Lemma fmt_unfold_frac p neg d : (0 < decimals d)%nat ->
  fmt_piconero_in p neg d =
    let nb := decimals d in
    let real := zpad nb (udigits p) in
    if Nat.ltb (List.length real) nb then APanic
    else if Nat.eqb (List.length real) nb then AOk (sign_str neg ++ [x30; x2e] ++ skipn (List.length real - nb) real)
    else AOk (sign_str neg ++ firstn (List.length real - nb) real ++ [x2e] ++ skipn (List.length real - nb) real).
Proof. intros H. destruct d; try reflexivity. cbn [decimals] in H. lia. Qed.

Lemma fmt_unfold_pico p neg : fmt_piconero_in p neg Piconero = AOk (sign_str neg ++ udigits p).
Proof. reflexivity. Qed.

Lemma all_digits_zeros k : all_digits (repeat zero_char k).
Proof. induction k; cbn [repeat]; [apply all_digits_nil|]. apply all_digits_cons. split; [reflexivity|assumption]. Qed.
Lemma dval_zeros k ds : dval (repeat zero_char k ++ ds) = dval ds.
Proof.
  induction k as [|k IH]; cbn [repeat app]; [reflexivity|]. rewrite dval_cons, IH.
  change (dig zero_char) with 0. lia.
Qed.

(* what the formatter writes: sign, canonical integer part, and exactly `decimals d` decimals *)
Lemma fmt_spec p neg d : 0 <= p <= U64MAX ->
  exists ip fp,
    fmt_piconero_in p neg d = AOk (sign_str neg ++ ip ++ match decimals d with O => [] | S _ => x2e :: fp end) /\
    canonical_int ip /\ all_digits fp /\ List.length fp = decimals d /\
    dval ip * 10 ^ Z.of_nat (decimals d) + dval fp = p /\ (List.length ip <= 20)%nat.
Proof.
  intros Hp. destruct (udigits_spec p Hp) as (A & V & NE & Len & Lead).
  destruct (decimals d) as [|nb'] eqn:Ed.
  - assert (d = Piconero) by (destruct d; cbn [decimals] in Ed; congruence). subst d.
    exists (udigits p), []. rewrite fmt_unfold_pico, app_nil_r. repeat split; auto using all_digits_nil.
    + intros t E. now apply (Lead t).
    + rewrite dval_nil. change (Z.of_nat 0) with 0. rewrite Z.pow_0_r. lia.
  - rewrite fmt_unfold_frac by lia. rewrite Ed. set (nb := S nb') in *. cbv zeta. unfold zpad.
    destruct (Nat.le_gt_cases (List.length (udigits p)) nb) as [Le|Gt].
    + (* short number: "0." ++ zero-padded digits *)
      set (real := repeat zero_char (nb - List.length (udigits p)) ++ udigits p).
      assert (Lr : List.length real = nb) by (unfold real; rewrite app_length, repeat_length; lia).
      rewrite Lr. rewrite (proj2 (Nat.ltb_ge nb nb)) by lia. rewrite Nat.eqb_refl, Nat.sub_diag. cbn [skipn].
      exists [x30], real. repeat split; auto.
      * repeat constructor. discriminate.
      * discriminate.
      * intros t E. injection E as <-. reflexivity.
      * unfold real. apply all_digits_app. split; [apply all_digits_zeros|exact A].
      * unfold real. rewrite dval_zeros, V. change (dval [x30]) with 0. lia.
      * cbn [List.length]. lia.
    + (* long number: split the digits *)
      replace (nb - List.length (udigits p))%nat with O by lia. cbn [repeat app].
      set (ds := udigits p) in *. set (k := (List.length ds - nb)%nat).
      rewrite (proj2 (Nat.ltb_ge (List.length ds) nb)) by lia.
      rewrite (proj2 (Nat.eqb_neq (List.length ds) nb)) by lia.
      exists (firstn k ds), (skipn k ds).
      assert (Es : ds = firstn k ds ++ skipn k ds) by (symmetry; apply firstn_skipn).
      assert (Lf : List.length (skipn k ds) = nb) by (rewrite skipn_length; unfold k; lia).
      assert (Li : List.length (firstn k ds) = k) by (rewrite firstn_length; unfold k; lia).
      rewrite Es in A. apply all_digits_app in A. destruct A as [A1 A2].
      repeat split; auto.
      * intros E. rewrite E in Li. cbn [List.length] in Li. unfold k in Li. lia.
      * intros t E. rewrite E in Es. cbn [app] in Es. destruct (Lead _ Es) as [Z1 _].
        apply app_eq_nil in Z1. tauto.
      * rewrite <- V. rewrite Es at 3. rewrite dval_app, Lf. reflexivity.
      * rewrite Li. unfold k. lia.
Qed.

Lemma decimals_le_12 d : (decimals d <= 12)%nat.
Proof. destruct d; cbn [decimals]; lia. Qed.

Definition no_space (s : bytes) : Prop := Forall (fun c => is_space c = false) s.
Lemma digits_no_space ds : all_digits ds -> no_space ds.
Proof.
  unfold all_digits, no_space. intros H. eapply Forall_impl; [|exact H]. intros c Hc.
  apply is_digit_iff in Hc. now apply digit_not_special in Hc.
Qed.

(* the text written by the formatter is well-formed and denotes the amount it was given *)
Lemma fmt_denotes p neg d : 0 <= p <= U64MAX ->
  exists s, fmt_piconero_in p neg d = AOk s /\
            denotes (decimals d) s ((if neg then -1 else 1) * p) /\
            (neg = false -> ~ has_sign s) /\ no_space s /\
            expansion (decimals d) ((if neg then -1 else 1) * p) (sign_str ((if neg then -1 else 1) * p <? 0) ++
                                                                   skipn (List.length (sign_str neg)) s).
Proof.
  intros Hp. destruct (fmt_spec p neg d Hp) as (ip & fp & E & (CA & CN & CL) & A & L & V & Li).
  eexists. split; [exact E|].
  assert (SH : decimal_shape (sign_str neg ++ ip ++ match decimals d with O => [] | S _ => x2e :: fp end) neg ip fp).
  { destruct (decimals d) eqn:Ed.
    - destruct fp; [|discriminate L]. rewrite app_nil_r. now apply shape_int.
    - apply shape_point. }
  pose proof (decimals_le_12 d) as D12.
  split; [|split; [|split]].
  - exists neg, ip, fp. repeat split; auto; try lia.
    + rewrite !app_length. destruct neg, (decimals d); cbn [sign_str List.length]; lia.
    + rewrite L, Nat.sub_diag. change (Z.of_nat 0) with 0. rewrite Z.pow_0_r. f_equal. lia.
  - intros ->. eapply shape_unsigned_no_sign; eauto.
  - unfold no_space. rewrite !Forall_app. split; [destruct neg; repeat constructor|].
    split; [now apply digits_no_space|]. destruct (decimals d); [constructor|].
    constructor; [reflexivity|now apply digits_no_space].
  - rewrite skipn_app, skipn_all, Nat.sub_diag. cbn [app skipn].
    exists ip, fp. repeat split; auto. pose proof (Z.abs_spec ((if neg then -1 else 1) * p)). destruct neg; lia.
Qed.

Lemma signed_picos_abs a : I64MIN <= a <= I64MAX -> signed_picos a = AOk (Z.abs a).
Proof.
  intros H. unfold signed_picos, i64_checked_abs. destruct (Z.eqb_spec a I64MIN) as [->|N]; [reflexivity|].
  unfold as_u64. unfold I64MIN, I64MAX in *. rewrite Z.mod_small by lia. reflexivity.
Qed.

(* ---- formatter exactness ---------------------------------------------------------------------- *)
Theorem amount_format_exact a d : 0 <= a <= 2 ^ 64 - 1 ->
  exists s, amount_to_string_in a d = AOk s /\ expansion (decimals d) a s.
Proof.
  intros H. unfold amount_to_string_in.
  destruct (fmt_denotes a false d H) as (s & E & _ & _ & _ & X). exists s. split; [exact E|].
  replace (1 * a) with a in X by lia. destruct (Z.ltb_spec a 0); [lia|]. exact X.
Qed.

Theorem signed_format_exact a d : - 2 ^ 63 <= a <= 2 ^ 63 - 1 ->
  exists s, signed_to_string_in a d = AOk s /\ expansion (decimals d) a s.
Proof.
  intros H. unfold signed_to_string_in. rewrite signed_picos_abs by (unfold I64MIN, I64MAX; lia). cbn [abind].
  assert (Hp : 0 <= Z.abs a <= U64MAX) by (unfold U64MAX; lia).
  destruct (fmt_spec (Z.abs a) (a <? 0) d Hp) as (ip & fp & E & C & A & L & V & Li).
  eexists. split; [exact E|]. exists ip, fp. repeat split; auto; apply C.
Qed.

(* ---- parse (format a) = a --------------------------------------------------------------------- *)
Theorem amount_roundtrip a d : 0 <= a <= 2 ^ 63 - 1 ->
  exists s, amount_to_string_in a d = AOk s /\ amount_from_str_in s d = AOk a.
Proof.
  intros H. unfold amount_to_string_in.
  destruct (fmt_denotes a false d ltac:(unfold U64MAX; lia)) as (s & E & Dn & NS & _ & _). exists s. split; [exact E|].
  apply amount_from_str_in_spec. replace (1 * a) with a in Dn by lia. repeat split; auto. lia.
Qed.

Theorem signed_roundtrip a d : - (2 ^ 63 - 1) <= a <= 2 ^ 63 - 1 ->
  exists s, signed_to_string_in a d = AOk s /\ signed_from_str_in s d = AOk a.
Proof.
  intros H. unfold signed_to_string_in. rewrite signed_picos_abs by (unfold I64MIN, I64MAX; lia). cbn [abind].
  destruct (fmt_denotes (Z.abs a) (a <? 0) d ltac:(unfold U64MAX; lia)) as (s & E & Dn & _ & _ & _).
  exists s. split; [exact E|]. apply signed_from_str_in_spec. split; [|lia].
  assert (Ea : (if a <? 0 then -1 else 1) * Z.abs a = a) by (destruct (Z.ltb_spec a 0); lia).
  rewrite Ea in Dn. exact Dn.
Qed.

(* ---- denomination suffix ---------------------------------------------------------------------- *)
Lemma beq_eq a : forall b, beq a b = true -> a = b.
Proof.
  induction a as [|x a IH]; intros [|y b] H; cbn [beq] in H; try discriminate; [reflexivity|].
  apply andb_true_iff in H. destruct H as [H1 H2]. apply Byte.byte_dec_bl in H1. f_equal; auto.
Qed.

Theorem denom_from_str_spec dn d : denom_from_str dn = Some d <-> In dn (aliases d).
Proof.
  split.
  - unfold denom_from_str.
    repeat match goal with
           | |- context [beq dn ?l] =>
               let E := fresh "E" in destruct (beq dn l) eqn:E;
               [apply beq_eq in E; subst dn; vm_compute; intros [= <-]; tauto|]
           end.
    cbn [orb]. discriminate.
  - destruct d; cbn [aliases map In]; intros H;
      repeat (destruct H as [<-|H]; [reflexivity|]); contradiction.
Qed.

Lemma display_is_alias d : In (denom_display d) (aliases d).
Proof. destruct d; left; reflexivity. Qed.

Lemma split_space_spec s : forall a o, split_space s = (a, o) ->
  no_space a /\ match o with Some r => s = a ++ x20 :: r | None => s = a end.
Proof.
  induction s as [|c t IH]; intros a o H; cbn [split_space] in H.
  - injection H as <- <-. split; [constructor|reflexivity].
  - destruct (is_space c) eqn:S.
    + injection H as <- <-. apply is_space_iff in S. subst c. split; [constructor|reflexivity].
    + destruct (split_space t) as [a' r'] eqn:E. injection H as <- <-.
      destruct (IH a' r' eq_refl) as [N M]. split; [constructor; assumption|].
      destruct r'; cbn [app]; congruence.
Qed.

Lemma split_space_app a r : no_space a -> split_space (a ++ x20 :: r) = (a, Some r).
Proof.
  induction 1 as [|c a Hc Ha IH]; cbn [app split_space]; [reflexivity|]. rewrite Hc, IH. reflexivity.
Qed.
Lemma split_space_none a : no_space a -> split_space a = (a, None).
Proof.
  induction 1 as [|c a Hc Ha IH]; cbn [split_space]; [reflexivity|]. rewrite Hc, IH. reflexivity.
Qed.

(* FromStr: exactly one space, a known denomination name after it, and the amount before it parses *)
Theorem from_str_suffix_spec f s q :
  from_str_with_denomination f s = AOk q <->
  exists a dn d, s = a ++ x20 :: dn /\ no_space a /\ no_space dn /\ In dn (aliases d) /\ f a d = AOk q.
Proof.
  unfold from_str_with_denomination. split.
  - destruct (split_space s) as [a o] eqn:E1. destruct o as [r|]; [|discriminate].
    destruct (split_space r) as [dn third] eqn:E2. destruct third; [discriminate|].
    destruct (denom_from_str dn) as [d|] eqn:E3; [|discriminate]. intros F.
    apply split_space_spec in E1. apply split_space_spec in E2. destruct E1 as [N1 ->], E2 as [N2 ->].
    exists a, dn, d. repeat split; auto. now apply denom_from_str_spec.
  - intros (a & dn & d & -> & N1 & N2 & I & F).
    rewrite (split_space_app a dn N1), (split_space_none dn N2).
    apply denom_from_str_spec in I. rewrite I. exact F.
Qed.

Lemma alias_no_space d al : In al (aliases d) -> no_space al.
Proof.
  destruct d; cbn [aliases map In]; intros H;
    repeat (destruct H as [<-|H]; [repeat constructor|]); contradiction.
Qed.

Theorem amount_roundtrip_suffix a d : 0 <= a <= 2 ^ 63 - 1 ->
  exists s, amount_to_string_in a d = AOk s /\
            amount_to_string_with_denomination a d = AOk (s ++ x20 :: denom_display d) /\
            forall al, In al (aliases d) -> amount_from_str (s ++ x20 :: al) = AOk a.
Proof.
  intros H. unfold amount_to_string_with_denomination, with_suffix, amount_to_string_in.
  destruct (fmt_denotes a false d ltac:(unfold U64MAX; lia)) as (s & E & Dn & NS & SP & _). exists s.
  rewrite E. cbn [abind]. repeat split; auto. intros al I. apply from_str_suffix_spec.
  exists s, al, d. repeat split; auto; [eapply alias_no_space; eauto|].
  apply amount_from_str_in_spec. replace (1 * a) with a in Dn by lia. repeat split; auto. lia.
Qed.

Theorem signed_roundtrip_suffix a d : - (2 ^ 63 - 1) <= a <= 2 ^ 63 - 1 ->
  exists s, signed_to_string_in a d = AOk s /\
            signed_to_string_with_denomination a d = AOk (s ++ x20 :: denom_display d) /\
            forall al, In al (aliases d) -> signed_from_str (s ++ x20 :: al) = AOk a.
Proof.
  intros H. unfold signed_to_string_with_denomination, with_suffix, signed_to_string_in.
  rewrite signed_picos_abs by (unfold I64MIN, I64MAX; lia). cbn [abind].
  destruct (fmt_denotes (Z.abs a) (a <? 0) d ltac:(unfold U64MAX; lia)) as (s & E & Dn & _ & SP & _). exists s.
  rewrite E. cbn [abind]. repeat split; auto. intros al I. apply from_str_suffix_spec.
  exists s, al, d. repeat split; auto; [eapply alias_no_space; eauto|].
  apply signed_from_str_in_spec. split; [|lia].
  assert (Ea : (if a <? 0 then -1 else 1) * Z.abs a = a) by (destruct (Z.ltb_spec a 0); lia).
  rewrite Ea in Dn. exact Dn.
Qed.

(* Display is the Monero-denominated form with suffix *)
Lemma display_is_xmr a : amount_display a = amount_to_string_with_denomination a Monero /\
                          signed_display a = signed_to_string_with_denomination a Monero.
Proof. split; reflexivity. Qed.

(* ---- the specification relations are functional ------------------------------------------------ *)
Lemma x2e_not_digit : is_digit x2e = false. Proof. reflexivity. Qed.

Lemma digits_no_point i rest : all_digits (i ++ x2e :: rest) -> False.
Proof.
  intros H. apply all_digits_app in H. destruct H as [_ H]. apply all_digits_cons in H. destruct H as [H _]. discriminate H.
Qed.

Lemma digits_point_split i1 : forall i2 f1 f2,
  all_digits i1 -> all_digits i2 -> i1 ++ x2e :: f1 = i2 ++ x2e :: f2 -> i1 = i2 /\ f1 = f2.
Proof.
  induction i1 as [|c i1 IH]; intros [|c2 i2] f1 f2 A1 A2 E; cbn [app] in E.
  - injection E as ->. auto.
  - injection E as <- _. apply all_digits_cons in A2. destruct A2 as [A2 _]. discriminate A2.
  - injection E as -> _. apply all_digits_cons in A1. destruct A1 as [A1 _]. discriminate A1.
  - injection E as <- E. apply all_digits_cons in A1. apply all_digits_cons in A2.
    destruct (IH i2 f1 f2 (proj2 A1) (proj2 A2) E) as [-> ->]. auto.
Qed.

Lemma shape_unique s n1 i1 f1 n2 i2 f2 :
  decimal_shape s n1 i1 f1 -> decimal_shape s n2 i2 f2 ->
  all_digits i1 -> all_digits i2 -> n1 = n2 /\ i1 = i2 /\ f1 = f2.
Proof.
  intros S1 S2 A1 A2.
  assert (N : n1 = n2).
  { destruct n1, n2; try reflexivity; exfalso.
    - eapply shape_unsigned_no_sign; eauto. eapply shape_signed_has_sign; eauto.
    - eapply shape_unsigned_no_sign; eauto. eapply shape_signed_has_sign; eauto. }
  subst n2. split; [reflexivity|].
  inversion S1 as [na ia NEa Ea1 Ea2 Ea3 Ea4|na ia fa Ea1 Ea2 Ea3 Ea4];
    inversion S2 as [nb ib NEb Eb1 Eb2 Eb3 Eb4|nb ib fb Eb1 Eb2 Eb3 Eb4]; subst.
  - apply app_inv_head in Eb1. auto.
  - apply app_inv_head in Eb1. subst. exfalso. eapply digits_no_point; eauto.
  - apply app_inv_head in Eb1. subst. exfalso. eapply digits_no_point; eauto.
  - apply app_inv_head in Eb1. symmetry in Eb1. now apply digits_point_split in Eb1.
Qed.

(* a text denotes at most one quantity *)
Theorem denotes_functional decs s q1 q2 : denotes decs s q1 -> denotes decs s q2 -> q1 = q2.
Proof.
  intros (n1 & i1 & f1 & S1 & A1 & B1 & _ & _ & ->) (n2 & i2 & f2 & S2 & A2 & B2 & _ & _ & ->).
  destruct (shape_unique s n1 i1 f1 n2 i2 f2 S1 S2 A1 A2) as (-> & -> & ->). reflexivity.
Qed.

Lemma digit_is_digit_char c : is_digit c = true -> c = digit_char (dig c).
Proof. destruct c; vm_compute; congruence. Qed.
Lemma digit_nonzero c : is_digit c = true -> c <> x30 -> 1 <= dig c.
Proof. destruct c; vm_compute; congruence. Qed.

Lemma dval_inj_fixed x : forall y,
  all_digits x -> all_digits y -> List.length x = List.length y -> dval x = dval y -> x = y.
Proof.
  induction x as [|a x IH]; intros [|b y] A B L V; cbn [List.length] in L; try discriminate; [reflexivity|].
  injection L as L. apply all_digits_cons in A. apply all_digits_cons in B. destruct A as [A1 A2], B as [B1 B2].
  rewrite !dval_cons, L in V.
  pose proof (dval_lt x). pose proof (dval_lt y). pose proof (dval_nonneg x). pose proof (dval_nonneg y).
  rewrite L in *. pose proof (dig_range a). pose proof (dig_range b). pose proof (pow10_pos (List.length y)).
  assert (D : dig a = dig b) by nia.
  assert (V' : dval x = dval y) by nia.
  rewrite (digit_is_digit_char a A1), (digit_is_digit_char b B1), D. f_equal. now apply IH.
Qed.

Lemma canon_lower ip : canonical_int ip -> ip = [x30] \/ 10 ^ Z.of_nat (List.length ip - 1) <= dval ip.
Proof.
  intros (A & NE & Lead). destruct ip as [|c t]; [congruence|].
  destruct (Byte.byte_eq_dec c x30) as [->|N]; [left; now rewrite (Lead t eq_refl)|]. right.
  apply all_digits_cons in A. destruct A as [A _]. pose proof (digit_nonzero c A N).
  rewrite dval_cons. replace (List.length (c :: t) - 1)%nat with (List.length t) by (cbn [List.length]; lia).
  pose proof (dval_nonneg t). pose proof (pow10_pos (List.length t)). nia.
Qed.

Lemma canon_inj x y : canonical_int x -> canonical_int y -> dval x = dval y -> x = y.
Proof.
  intros Cx Cy V. pose proof (canon_lower x Cx) as Lx. pose proof (canon_lower y Cy) as Ly.
  pose proof (dval_lt x) as Ux. pose proof (dval_lt y) as Uy.
  destruct Cx as (Ax & NEx & _), Cy as (Ay & NEy & _).
  assert (P : forall n, 1 <= 10 ^ Z.of_nat n) by apply pow10_pos.
  destruct Lx as [->|Lx], Ly as [->|Ly]; try reflexivity.
  - change (dval [x30]) with 0 in V. pose proof (P (List.length y - 1)%nat). lia.
  - change (dval [x30]) with 0 in V. pose proof (P (List.length x - 1)%nat). lia.
  - apply dval_inj_fixed; auto.
    destruct (Nat.lt_trichotomy (List.length x) (List.length y)) as [L|[L|L]]; [exfalso|exact L|exfalso].
    + assert (10 ^ Z.of_nat (List.length x) <= 10 ^ Z.of_nat (List.length y - 1)) by (apply Z.pow_le_mono_r; lia). lia.
    + assert (10 ^ Z.of_nat (List.length y) <= 10 ^ Z.of_nat (List.length x - 1)) by (apply Z.pow_le_mono_r; lia). lia.
Qed.

(* an amount has exactly one fixed-point expansion *)
Theorem expansion_unique decs a s1 s2 : expansion decs a s1 -> expansion decs a s2 -> s1 = s2.
Proof.
  intros (i1 & f1 & C1 & A1 & L1 & -> & V1) (i2 & f2 & C2 & A2 & L2 & -> & V2).
  pose proof (dval_lt f1) as U1. pose proof (dval_lt f2) as U2. rewrite L1 in U1. rewrite L2 in U2.
  pose proof (dval_nonneg f1). pose proof (dval_nonneg f2). pose proof (pow10_pos decs).
  assert (Vi : dval i1 = dval i2) by nia.
  assert (Vf : dval f1 = dval f2) by nia.
  rewrite (canon_inj i1 i2 C1 C2 Vi), (dval_inj_fixed f1 f2 A1 A2 ltac:(congruence) Vf). reflexivity.
Qed.
