(* EdInstProofs.v — unconditional facts about the EXECUTABLE instance (Model/EdInst.v): what it accepts as a public
   key is in canonical range (y below the field prime; the sign bit is the parity of an x below the prime, so it is
   never set when x = 0).  No EdLaws involved; pure modular arithmetic on the model's `compress`. *)
From MRS Require Export Proofs.KeysProofs Model.EdInst.
Open Scope Z_scope.

Lemma fp_pos : 0 < Ed25519.fp < 2 ^ 255.
Proof. vm_compute. split; reflexivity. Qed.

Lemma fmul_range a b : 0 <= Ed25519.fmul a b < Ed25519.fp.
Proof. unfold Ed25519.fmul. apply Z.mod_pos_bound. apply fp_pos. Qed.

Lemma inst_compress_shape (p : Ed25519.pt) :
  exists x y, 0 <= x < Ed25519.fp /\ 0 <= y < Ed25519.fp /\ Ed25519.compress p = z2le 32 (y + (x mod 2) * 2 ^ 255).
Proof.
  unfold Ed25519.compress, Ed25519.affine.
  exists (Ed25519.fmul (Ed25519.pX p) (Ed25519.finv (Ed25519.pZ p))),
         (Ed25519.fmul (Ed25519.pY p) (Ed25519.finv (Ed25519.pZ p))).
  split; [apply fmul_range|split; [apply fmul_range|reflexivity]].
Qed.

Lemma inst_accepted_canonical k : @pk_from_slice ed25519_ops k = Ok k ->
  exists P, Ed25519.decompress k = Some P /\
    let x := fst (Ed25519.affine P) in let y := snd (Ed25519.affine P) in
    0 <= x < Ed25519.fp /\ 0 <= y < Ed25519.fp /\ le2z k = y + (x mod 2) * 2 ^ 255 /\
    le2z k mod 2 ^ 255 = y /\ (x = 0 -> le2z k < 2 ^ 255).
Proof.
  unfold pk_from_slice. destruct (negb _); [discriminate|].
  cbn [decompress ed25519_ops]. destruct (Ed25519.decompress k) as [P|]; [|discriminate].
  destruct (bytes_eqb _ k) eqn:Hc; [|discriminate]. intros _.
  apply bytes_eqb_eq in Hc. exists P. split; [reflexivity|].
  cbn [compress ed25519_ops] in Hc. unfold Ed25519.compress in Hc. unfold Ed25519.affine in *. cbn [fst snd].
  set (x := Ed25519.fmul (Ed25519.pX P) _) in *. set (y := Ed25519.fmul (Ed25519.pY P) _) in *.
  pose proof (fmul_range (Ed25519.pX P) (Ed25519.finv (Ed25519.pZ P))) as Hx. fold x in Hx.
  pose proof (fmul_range (Ed25519.pY P) (Ed25519.finv (Ed25519.pZ P))) as Hy. fold y in Hy.
  pose proof fp_pos as Hp. pose proof (Z.mod_pos_bound x 2 ltac:(lia)) as Hb.
  assert (Hk : le2z k = y + (x mod 2) * 2 ^ 255).
  { rewrite <- Hc. apply le2z_z2le32. nia. }
  split; [exact Hx|split; [exact Hy|split; [exact Hk|split]]].
  - rewrite Hk, Z.mod_add by lia. apply Z.mod_small. lia.
  - intros ->. rewrite Hk. cbn. lia.
Qed.

(* the Keccak instance of hash-to-scalar returns reduced scalars *)
Lemma hs_keccak_range m : 0 <= hs_keccak m < ell.
Proof.
  unfold hs_keccak, Keccak.hash_to_scalar, Keccak.h2s.
  pose proof (N.mod_lt (le2n (Keccak.keccak256 m)) Keccak.group_order ltac:(discriminate)) as H.
  change ell with (Z.of_N Keccak.group_order). lia.
Qed.

Lemma hs_keccak_spec m : hs_keccak m = Z.of_N (le2n (Keccak.keccak256 m)) mod ell.
Proof.
  unfold hs_keccak, Keccak.hash_to_scalar, Keccak.h2s. rewrite N2Z.inj_mod. reflexivity.
Qed.
