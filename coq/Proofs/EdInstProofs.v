(* EdInstProofs.v — unconditional facts about the EXECUTABLE instance (Model/EdInst.v): what it accepts as a public
   key is in canonical range (y below the field prime; the sign bit is the parity of an x below the prime, so it is
   never set when x = 0).  No EdLaws involved; pure modular arithmetic on the model's `compress`. *)
From MRS Require Export Proofs.KeysProofs Model.EdInst.
Open Scope Z_scope.

Lemma fp_pos : 0 < Ed25519.fp < 2 ^ 255.
Proof. vm_compute. split; reflexivity. Qed.

Lemma fmul_range a b : 0 <= Ed25519.fmul a b < Ed25519.fp.
Proof. unfold Ed25519.fmul. apply Z.mod_pos_bound. apply fp_pos. Qed.

Lemma inst_compress_shape (p : Ed25519.pt) :
  exists x y, 0 <= x < Ed25519.fp /\ 0 <= y < Ed25519.fp /\ Ed25519.compress p = z2le 32 (y + (x mod 2) * 2 ^ 255).
Proof.
  unfold Ed25519.compress, Ed25519.affine.
  exists (Ed25519.fmul (Ed25519.pX p) (Ed25519.finv (Ed25519.pZ p))),
         (Ed25519.fmul (Ed25519.pY p) (Ed25519.finv (Ed25519.pZ p))).
  split; [apply fmul_range|split; [apply fmul_range|reflexivity]].
Qed.

Lemma inst_accepted_canonical k : @pk_from_slice ed25519_ops k = Ok k ->
  exists P, Ed25519.decompress k = Some P /\
    let x := fst (Ed25519.affine P) in let y := snd (Ed25519.affine P) in
    0 <= x < Ed25519.fp /\ 0 <= y < Ed25519.fp /\ le2z k = y + (x mod 2) * 2 ^ 255 /\
    le2z k mod 2 ^ 255 = y /\ (x = 0 -> le2z k < 2 ^ 255).
Proof.
  unfold pk_from_slice. destruct (negb _); [discriminate|].
  cbn [decompress ed25519_ops]. destruct (Ed25519.decompress k) as [P|]; [|discriminate].
  destruct (bytes_eqb _ k) eqn:Hc; [|discriminate]. intros _.
  apply bytes_eqb_eq in Hc. exists P. split; [reflexivity|].
  cbn [compress ed25519_ops] in Hc. unfold Ed25519.compress in Hc. unfold Ed25519.affine in *. cbn [fst snd].
  set (x := Ed25519.fmul (Ed25519.pX P) _) in *. set (y := Ed25519.fmul (Ed25519.pY P) _) in *.
  pose proof (fmul_range (Ed25519.pX P) (Ed25519.finv (Ed25519.pZ P))) as Hx. fold x in Hx.
  pose proof (fmul_range (Ed25519.pY P) (Ed25519.finv (Ed25519.pZ P))) as Hy. fold y in Hy.
  pose proof fp_pos as Hp. pose proof (Z.mod_pos_bound x 2 ltac:(lia)) as Hb.
  assert (Hk : le2z k = y + (x mod 2) * 2 ^ 255).
  { rewrite <- Hc. apply le2z_z2le32. nia. }
  split; [exact Hx|split; [exact Hy|split; [exact Hk|split]]].
  - rewrite Hk, Z.mod_add by lia. apply Z.mod_small. lia.
  - intros ->. rewrite Hk. cbn. lia.
Qed.

(* the Keccak instance of hash-to-scalar returns reduced scalars *)
Lemma hs_keccak_range m : 0 <= hs_keccak m < ell.
Proof.
  unfold hs_keccak, Keccak.hash_to_scalar, Keccak.h2s.
  pose proof (N.mod_lt (le2n (Keccak.keccak256 m)) Keccak.group_order ltac:(discriminate)) as H.
  change ell with (Z.of_N Keccak.group_order). lia.
Qed.

Lemma hs_keccak_spec m : hs_keccak m = Z.of_N (le2n (Keccak.keccak256 m)) mod ell.
Proof.
  unfold hs_keccak, Keccak.hash_to_scalar, Keccak.h2s. rewrite N2Z.inj_mod. reflexivity.
Qed.

(* ---- laws of EdLaws that ARE proved for the executable instance (the cheap, algebraic ones) ------------------------- *)
Lemma inst_compress_len (P : @point ed25519_ops) : List.length (compress P) = 32%nat.
Proof. cbn [compress ed25519_ops]. unfold Ed25519.compress. destruct (Ed25519.affine P). apply z2le_length. Qed.

Lemma fmul_comm a b : Ed25519.fmul a b = Ed25519.fmul b a.
Proof. unfold Ed25519.fmul. now rewrite Z.mul_comm. Qed.

Lemma fadd_comm a b : Ed25519.fadd a b = Ed25519.fadd b a.
Proof. unfold Ed25519.fadd. now rewrite Z.add_comm. Qed.

Lemma fmul3_comm a d b : Ed25519.fmul (Ed25519.fmul a d) b = Ed25519.fmul (Ed25519.fmul b d) a.
Proof.
  unfold Ed25519.fmul. rewrite !Z.mul_mod_idemp_l by (vm_compute; discriminate). f_equal. ring.
Qed.

Lemma pt_add_comm p q : Ed25519.pt_add p q = Ed25519.pt_add q p.
Proof.
  unfold Ed25519.pt_add.
  rewrite (fmul_comm (Ed25519.pX p) (Ed25519.pX q)), (fmul_comm (Ed25519.pY p) (Ed25519.pY q)),
          (fmul_comm (Ed25519.pZ p) (Ed25519.pZ q)), (fmul3_comm (Ed25519.pT p) Ed25519.ed_d (Ed25519.pT q)),
          (fmul_comm (Ed25519.fadd (Ed25519.pX p) (Ed25519.pY p)) (Ed25519.fadd (Ed25519.pX q) (Ed25519.pY q))).
  reflexivity.
Qed.

(* commutativity holds for ALL representatives, valid or not *)
Lemma inst_padd_comm (P Q : @point ed25519_ops) : padd P Q = padd Q P.
Proof. cbn [padd ed25519_ops]. now rewrite pt_add_comm. Qed.

Lemma inst_peqb_eq (P Q : @point ed25519_ops) : valid P -> valid Q -> (peqb P Q = true <-> P = Q).
Proof.
  cbn [valid peqb ed25519_ops]. unfold inst_valid, Ed25519.pt_eqb.
  destruct P as [x1 y1 z1 t1], Q as [x2 y2 z2 t2]. cbn [Ed25519.pX Ed25519.pY Ed25519.pZ Ed25519.pT].
  intros (Hx1 & Hy1 & -> & -> & _) (Hx2 & Hy2 & -> & -> & _).
  unfold Ed25519.fmul at 1 2 3 4. rewrite !Z.mul_1_r, !Z.mod_small by assumption.
  rewrite andb_true_iff, !Z.eqb_eq. split.
  - intros [-> ->]. reflexivity.
  - intros H. injection H as -> ->. now split.
Qed.
