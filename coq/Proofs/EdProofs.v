(* EdProofs.v — consequences of the EdLaws record (valid for every instance). *)
From MRS Require Export Proofs.BaseProofs Model.EdClass.
Open Scope Z_scope.

Section EdProofs.
Context {E : EdOps} {LW : EdLaws E}.

Lemma valid_sub P Q : valid P -> valid Q -> valid (psub P Q).
Proof. intros HP HQ. unfold psub. apply valid_add; [exact HP|apply valid_neg; exact HQ]. Qed.

Hint Resolve valid_zero valid_G valid_add valid_neg valid_smul valid_sub tors_valid : ed.

Lemma compress_inj P Q : valid P -> valid Q -> compress P = compress Q -> P = Q.
Proof.
  intros HP HQ Hc. pose proof (decompress_compress P HP) as H1. pose proof (decompress_compress Q HQ) as H2.
  rewrite Hc in H1. rewrite H1 in H2. now injection H2.
Qed.

Lemma padd_zero_l P : valid P -> padd pzero P = P.
Proof. intros HP. rewrite padd_comm by auto with ed. now apply padd_zero_r. Qed.

Lemma padd_neg_l P : valid P -> padd (pneg P) P = pzero.
Proof. intros HP. rewrite padd_comm by auto with ed. now apply padd_neg_r. Qed.

Lemma padd_cancel_r P Q R : valid P -> valid Q -> valid R -> padd P R = padd Q R -> P = Q.
Proof.
  intros HP HQ HR Heq.
  assert (H : padd (padd P R) (pneg R) = padd (padd Q R) (pneg R)) by now rewrite Heq.
  rewrite <- !padd_assoc in H by auto with ed. rewrite padd_neg_r in H by auto with ed.
  now rewrite !padd_zero_r in H by auto with ed.
Qed.

Lemma padd_cancel_l P Q R : valid P -> valid Q -> valid R -> padd R P = padd R Q -> P = Q.
Proof.
  intros HP HQ HR Heq. apply (padd_cancel_r P Q R); auto.
  now rewrite (padd_comm P R), (padd_comm Q R) by auto with ed.
Qed.

Lemma psub_add P Q : valid P -> valid Q -> psub (padd P Q) Q = P.
Proof.
  intros HP HQ. unfold psub. rewrite <- padd_assoc by auto with ed.
  rewrite padd_neg_r by auto with ed. now apply padd_zero_r.
Qed.

Lemma padd_psub P Q : valid P -> valid Q -> padd (psub P Q) Q = P.
Proof.
  intros HP HQ. unfold psub. rewrite <- padd_assoc by auto with ed.
  rewrite padd_neg_l by auto with ed. now apply padd_zero_r.
Qed.

Lemma pneg_unique P Q : valid P -> valid Q -> padd P Q = pzero -> Q = pneg P.
Proof.
  intros HP HQ H0. apply (padd_cancel_l Q (pneg P) P); auto with ed.
  now rewrite H0, padd_neg_r.
Qed.

Lemma padd_swap_mid A B C D : valid A -> valid B -> valid C -> valid D ->
  padd (padd A B) (padd C D) = padd (padd A C) (padd B D).
Proof.
  intros HA HB HC HD.
  rewrite <- (padd_assoc A B (padd C D)) by auto with ed.
  rewrite (padd_assoc B C D) by auto with ed.
  rewrite (padd_comm B C) by auto with ed.
  rewrite <- (padd_assoc C B D) by auto with ed.
  now rewrite (padd_assoc A C (padd B D)) by auto with ed.
Qed.

Lemma pneg_add P Q : valid P -> valid Q -> pneg (padd P Q) = padd (pneg P) (pneg Q).
Proof.
  intros HP HQ. symmetry. apply pneg_unique; auto with ed.
  rewrite padd_swap_mid by auto with ed.
  rewrite !padd_neg_r by auto with ed. apply padd_zero_r; auto with ed.
Qed.

Lemma pneg_zero : pneg pzero = pzero.
Proof. symmetry. apply pneg_unique; auto with ed. apply padd_zero_r; auto with ed. Qed.

Lemma smul_zero_pt k : smul k pzero = pzero.
Proof.
  rewrite <- (smul_0 pzero) at 1 by auto with ed.
  rewrite <- smul_mul by auto with ed. rewrite Z.mul_0_r. apply smul_0; auto with ed.
Qed.

Lemma smul_succ k P : valid P -> smul (k + 1) P = padd (smul k P) P.
Proof. intros HP. rewrite smul_add by auto. now rewrite smul_1. Qed.

(* the Z-action distributes over point addition (derived from the listed laws by induction) *)
Lemma smul_padd_nonneg k P Q : 0 <= k -> valid P -> valid Q -> smul k (padd P Q) = padd (smul k P) (smul k Q).
Proof.
  intros Hk HP HQ. revert k Hk. apply natlike_ind.
  - rewrite !smul_0 by auto with ed. symmetry. apply padd_zero_r; auto with ed.
  - intros k Hk IH. unfold Z.succ. rewrite !smul_succ by auto with ed. rewrite IH.
    apply padd_swap_mid; auto with ed.
Qed.

Lemma smul_padd k P Q : valid P -> valid Q -> smul k (padd P Q) = padd (smul k P) (smul k Q).
Proof.
  intros HP HQ. destruct (Z_le_gt_dec 0 k) as [Hk|Hk].
  - now apply smul_padd_nonneg.
  - replace k with (- (- k)) by lia. rewrite !(smul_opp (- k)) by auto with ed.
    rewrite smul_padd_nonneg by (auto with ed; lia). apply pneg_add; auto with ed.
Qed.

Lemma smul_comm a b P : valid P -> smul a (smul b P) = smul b (smul a P).
Proof. intros HP. rewrite <- !smul_mul by auto. now rewrite Z.mul_comm. Qed.

(* scalars act on G modulo l *)
Lemma smul_ell_mul_G q : smul (q * ell) G = pzero.
Proof. rewrite smul_mul by auto with ed. rewrite smul_ell_G. apply smul_zero_pt. Qed.

Lemma smul_mod_G k : smul (k mod ell) G = smul k G.
Proof.
  rewrite (Z.div_mod k ell) at 2 by (vm_compute; discriminate).
  rewrite smul_add by auto with ed. rewrite (Z.mul_comm ell), smul_ell_mul_G.
  now rewrite padd_zero_l by auto with ed.
Qed.

(* the same for any point killed by l *)
Lemma smul_mod_order k P : valid P -> smul ell P = pzero -> smul (k mod ell) P = smul k P.
Proof.
  intros HP HO. rewrite (Z.div_mod k ell) at 2 by (vm_compute; discriminate).
  rewrite smul_add by auto. rewrite (Z.mul_comm ell), smul_mul, HO, smul_zero_pt by auto.
  now rewrite padd_zero_l by auto with ed.
Qed.

Lemma G_order_iff a b : smul a G = smul b G <-> a mod ell = b mod ell.
Proof.
  split; [apply G_order|]. intros H. rewrite <- (smul_mod_G a), <- (smul_mod_G b). now rewrite H.
Qed.

Lemma bytes_eqb_refl (b : bytes) : bytes_eqb b b = true.
Proof.
  unfold Ed25519.bytes_eqb. rewrite Nat.eqb_refl. cbn [andb].
  induction b as [|x t IH]; [reflexivity|]. cbn [combine forallb]. rewrite IH, andb_true_r.
  destruct x; reflexivity.
Qed.

Lemma bytes_eqb_eq (a b : bytes) : bytes_eqb a b = true <-> a = b.
Proof.
  split; [|intros ->; apply bytes_eqb_refl].
  unfold Ed25519.bytes_eqb. intros H. apply andb_true_iff in H. destruct H as [Hl Hf].
  apply Nat.eqb_eq in Hl. revert b Hl Hf. induction a as [|x t IH]; intros [|y u] Hl Hf; try discriminate; [reflexivity|].
  cbn [combine forallb] in Hf. apply andb_true_iff in Hf. destruct Hf as [Hxy Hf].
  f_equal; [|apply IH; [now injection Hl|exact Hf]].
  apply Byte.byte_dec_bl in Hxy. exact Hxy.
Qed.

End EdProofs.

#[export] Hint Resolve valid_zero valid_G valid_add valid_neg valid_smul valid_sub tors_valid : ed.
