(* SubaddrProofs.v — proofs about Model/Subaddr.v (C11), for every instance of EdLaws and every hash-to-scalar. *)
From MRS Require Export Proofs.KeysProofs Model.Subaddr.
Open Scope Z_scope.

(* ---- the hash preimage (no curve involved) --------------------------------------------------------------------- *)
Lemma app_eq_len {A} (a a' b b' : list A) : List.length a = List.length a' -> a ++ b = a' ++ b' -> a = a' /\ b = b'.
Proof.
  revert a'. induction a as [|x t IH]; intros [|y u] Hl H; try discriminate; [now split|].
  cbn in H. injection H as -> H. cbn in Hl. destruct (IH u) as [-> ->]; auto.
Qed.

Lemma le32_length n : List.length (le32 n) = 4%nat.
Proof. apply n2le_length. Qed.

Lemma le32_inj a b : (a < 2 ^ 32)%N -> (b < 2 ^ 32)%N -> le32 a = le32 b -> a = b.
Proof. intros Ha Hb. apply n2le_inj; assumption. Qed.

Lemma z2le32_inj a b : 0 <= a < 2 ^ 256 -> 0 <= b < 2 ^ 256 -> z2le 32 a = z2le 32 b -> a = b.
Proof.
  intros Ha Hb H. apply (f_equal le2z) in H. now rewrite !le2z_z2le32 in H by assumption.
Qed.

Lemma subaddr_preimage_layout v i j :
  subaddr_preimage v (i, j) = subaddr_prefix ++ sk_to_bytes v ++ le32 i ++ le32 j /\
  subaddr_prefix = [x53; x75; x62; x41; x64; x64; x72; x00] /\
  List.length (subaddr_preimage v (i, j)) = 48%nat.
Proof.
  split; [reflexivity|split; [reflexivity|]]. unfold subaddr_preimage, enc_sk, sk_to_bytes. cbn [fst snd].
  rewrite !app_length, z2le_length, !le32_length. reflexivity.
Qed.

Lemma subaddr_preimage_inj v v' i j i' j' :
  0 <= v < 2 ^ 256 -> 0 <= v' < 2 ^ 256 ->
  (i < 2 ^ 32)%N -> (j < 2 ^ 32)%N -> (i' < 2 ^ 32)%N -> (j' < 2 ^ 32)%N ->
  subaddr_preimage v (i, j) = subaddr_preimage v' (i', j') -> v = v' /\ i = i' /\ j = j'.
Proof.
  intros Hv Hv' Hi Hj Hi' Hj' H. unfold subaddr_preimage in H. cbn [fst snd] in H.
  apply app_inv_head in H. unfold enc_sk, sk_to_bytes in H.
  apply app_eq_len in H; [|now rewrite !z2le_length]. destruct H as [H1 H].
  apply app_eq_len in H; [|now rewrite !le32_length]. destruct H as [H2 H3].
  repeat split; [now apply z2le32_inj|now apply le32_inj|now apply le32_inj].
Qed.

Lemma subaddr_preimage_distinct v i j i' j' :
  (i < 2 ^ 32)%N -> (j < 2 ^ 32)%N -> (i' < 2 ^ 32)%N -> (j' < 2 ^ 32)%N ->
  (i, j) <> (i', j') -> subaddr_preimage v (i, j) <> subaddr_preimage v (i', j').
Proof.
  intros Hi Hj Hi' Hj' Hne H. apply Hne. unfold subaddr_preimage in H. cbn [fst snd] in H.
  apply app_inv_head in H. apply app_inv_head in H.
  apply app_eq_len in H; [|now rewrite !le32_length]. destruct H as [H2 H3].
  f_equal; now apply le32_inj.
Qed.

Section SubaddrProofs.
Context {E : EdOps}.
Variable Hs : hs_fun.

(* ---- facts that need no group law ---------------------------------------------------------------------------------- *)
Lemma scalar_spec v i j : get_secret_scalar Hs v (i, j) = Hs (subaddr_prefix ++ sk_to_bytes v ++ le32 i ++ le32 j).
Proof. reflexivity. Qed.

Lemma zero_index_paths v s S net :
  get_spend_secret_key Hs v s (0%N, 0%N) = s /\
  get_view_secret_key Hs v s (0%N, 0%N) = v /\
  get_secret_keys Hs v s (0%N, 0%N) = (v, s) /\
  get_spend_public_key Hs v S (0%N, 0%N) = Ok S /\
  get_public_keys Hs v S (0%N, 0%N) = Ok (pk_from_priv v, S) /\
  get_subaddress Hs v S (0%N, 0%N) net =
    Ok (mk_sub_address (match net with Some n => n | None => Mainnet end) SubAddress S (pk_from_priv v)).
Proof. repeat split; reflexivity. Qed.

Lemma is_zero_iff i : is_zero i = true <-> i = (0%N, 0%N).
Proof.
  destruct i as [a b]. unfold is_zero. cbn [fst snd]. rewrite andb_true_iff, !N.eqb_eq. split.
  - intros [-> ->]. reflexivity.
  - intros H. injection H as -> ->. now split.
Qed.

Lemma secret_keys_spec v s i :
  get_secret_keys Hs v s i = (get_view_secret_key Hs v s i, get_spend_secret_key Hs v s i) /\
  (is_zero i = false ->
     get_spend_secret_key Hs v s i = (s + get_secret_scalar Hs v i) mod ell /\
     get_view_secret_key Hs v s i = (v * ((s + get_secret_scalar Hs v i) mod ell)) mod ell).
Proof.
  split; [reflexivity|]. intros Hz. unfold get_view_secret_key, get_spend_secret_key. rewrite Hz. now split.
Qed.

Lemma subaddress_fields v S i net ad : get_subaddress Hs v S i net = Ok ad ->
  sa_type ad = SubAddress /\ sa_network ad = match net with Some n => n | None => Mainnet end /\
  get_public_keys Hs v S i = Ok (sa_view ad, sa_spend ad).
Proof.
  unfold get_subaddress. destruct (get_public_keys Hs v S i) as [[vw sp]|e|]; cbn [bindr]; try discriminate.
  intros H. injection H as <-. cbn. auto.
Qed.

Lemma subaddress_of_public_keys v S i net vw sp : get_public_keys Hs v S i = Ok (vw, sp) ->
  get_subaddress Hs v S i net = Ok (mk_sub_address (match net with Some n => n | None => Mainnet end) SubAddress sp vw).
Proof. intros H. unfold get_subaddress. now rewrite H. Qed.

(* ---- the group-law part ----------------------------------------------------------------------------------------------- *)
Context {LW : EdLaws E}.

Lemma spend_public_spec v S i : valid S -> is_zero i = false ->
  get_spend_public_key Hs v (compress S) i = Ok (compress (padd S (smul (get_secret_scalar Hs v i) G))).
Proof.
  intros HS Hz. unfold get_spend_public_key. rewrite Hz. unfold pk_from_priv.
  now rewrite pk_add_compress by auto with ed.
Qed.

Lemma public_keys_spec v S i : valid S -> is_zero i = false ->
  get_public_keys Hs v (compress S) i =
    Ok (compress (smul v (padd S (smul (get_secret_scalar Hs v i) G))),
        compress (padd S (smul (get_secret_scalar Hs v i) G))).
Proof.
  intros HS Hz. unfold get_public_keys. rewrite Hz. rewrite spend_public_spec by assumption. cbn [bindr].
  now rewrite sk_mul_pk_compress by auto with ed.
Qed.

Lemma public_keys_accepted v S i : pk_from_slice S = Ok S ->
  exists vw sp, get_public_keys Hs v S i = Ok (vw, sp) /\ get_spend_public_key Hs v S i = Ok sp /\
                pk_from_slice vw = Ok vw /\ pk_from_slice sp = Ok sp.
Proof.
  intros HS. destruct (is_zero i) eqn:Hz.
  - exists (pk_from_priv v), S. unfold get_public_keys, get_spend_public_key. rewrite Hz.
    repeat split; auto. apply pk_from_priv_accepted.
  - pose proof HS as HS'. apply pk_from_slice_iff in HS'. destruct HS' as (Sp & HSp & <-).
    eexists _, _. rewrite public_keys_spec, spend_public_spec by assumption.
    repeat split; apply pk_from_slice_compress; auto with ed.
Qed.

(* secret-side keys are the secret keys of the public-side keys (all indices, zero included) *)
Lemma secret_matches_public v s i :
  get_spend_public_key Hs v (pk_from_priv s) i = Ok (pk_from_priv (get_spend_secret_key Hs v s i)) /\
  get_public_keys Hs v (pk_from_priv s) i =
    Ok (pk_from_priv (get_view_secret_key Hs v s i), pk_from_priv (get_spend_secret_key Hs v s i)).
Proof.
  destruct (is_zero i) eqn:Hz.
  - unfold get_spend_public_key, get_public_keys, get_view_secret_key, get_spend_secret_key. rewrite Hz. now split.
  - assert (H1 : get_spend_public_key Hs v (pk_from_priv s) i = Ok (pk_from_priv (get_spend_secret_key Hs v s i))).
    { unfold get_spend_public_key, get_spend_secret_key. rewrite Hz. apply pub_add. }
    split; [exact H1|]. unfold get_public_keys. rewrite Hz, H1. cbn [bindr].
    rewrite pub_mul. cbn [bindr]. unfold get_view_secret_key. now rewrite Hz.
Qed.

(* distinct scalars modulo l give distinct subaddress spend keys (uses: G has order exactly l) *)
Lemma spend_key_distinct S m m' : valid S -> m mod ell <> m' mod ell ->
  compress (padd S (smul m G)) <> compress (padd S (smul m' G)).
Proof.
  intros HS Hne Hc. apply Hne. apply G_order.
  apply compress_inj in Hc; auto with ed. apply padd_cancel_l in Hc; auto with ed.
Qed.

Lemma subaddress_distinct v S i i' : pk_from_slice S = Ok S -> is_zero i = false -> is_zero i' = false ->
  get_secret_scalar Hs v i mod ell <> get_secret_scalar Hs v i' mod ell ->
  get_spend_public_key Hs v S i <> get_spend_public_key Hs v S i'.
Proof.
  intros HS Hz Hz' Hne. apply pk_from_slice_iff in HS. destruct HS as (Sp & HSp & <-).
  rewrite !spend_public_spec by assumption. intros H. injection H as H. revert H. now apply spend_key_distinct.
Qed.

Lemma subaddress_distinct_from_primary v S i : pk_from_slice S = Ok S -> is_zero i = false ->
  get_secret_scalar Hs v i mod ell <> 0 ->
  get_spend_public_key Hs v S i <> Ok S.
Proof.
  intros HS Hz Hne. apply pk_from_slice_iff in HS. destruct HS as (Sp & HSp & <-).
  rewrite spend_public_spec by assumption. intros H. injection H as H.
  apply compress_inj in H; auto with ed.
  rewrite <- (padd_zero_r Sp) in H at 2 by exact HSp. apply padd_cancel_l in H; auto with ed.
  rewrite <- (smul_0 G) in H by auto with ed. apply G_order in H. now rewrite Z.mod_0_l in H by (vm_compute; discriminate).
Qed.

End SubaddrProofs.
