(* VarintProofs.v — the VarInt codec is exactly minimal LEB128 on u64. *)
From MRS Require Export Model.Varint Spec.Leb128 Proofs.BaseProofs.
Open Scope N_scope.

(* value of a list of 7-bit groups, least significant first *)
Fixpoint val (gs : list N) : N :=
  match gs with [] => 0 | g :: t => g + 128 * val t end.

(* canonical group lists: every group < 128, non-empty, and the most significant group is
   non-zero unless it is the only one (and we are at the first byte) *)
Inductive canon : bool -> list N -> Prop :=
| canon_zero : canon true [0]
| canon_one first g : g < 128 -> g <> 0 -> canon first [g]
| canon_cons first g t : g < 128 -> canon false t -> canon first (g :: t).

Lemma canon_nonnil f gs : canon f gs -> gs <> [].
Proof. destruct 1; discriminate. Qed.

Lemma canon_lt f gs : canon f gs -> Forall (fun g => g < 128) gs.
Proof. induction 1; repeat constructor; try lia; assumption. Qed.

Lemma canon_false_true gs : canon false gs -> canon true gs.
Proof. inversion 1; subst; constructor; assumption. Qed.

Lemma canon_val_lower gs : canon false gs -> 128 ^ (lenN gs - 1) <= val gs /\ 0 < val gs.
Proof.
  remember false as f eqn:Hf. induction 1 as [|f g Hg Hg0|f g t Hg Ht IH]; try discriminate.
  - unfold lenN. cbn [length val]. change (N.of_nat 1 - 1) with 0. rewrite N.pow_0_r. lia.
  - specialize (IH eq_refl). destruct IH as [IH1 IH2]. cbn [val].
    assert (Hl : lenN (g :: t) - 1 = N.succ (lenN t - 1)).
    { unfold lenN. cbn [length]. pose proof (canon_nonnil _ _ Ht). destruct t; [congruence|]. cbn [length]. lia. }
    rewrite Hl, N.pow_succ_r'. lia.
Qed.

Lemma mod128_add g v : g < 128 -> (g + 128 * v) mod 128 = g.
Proof. intros. rewrite N.mul_comm, N.mod_add by lia. now apply N.mod_small. Qed.
Lemma div128_add g v : g < 128 -> (g + 128 * v) / 128 = v.
Proof. intros. rewrite N.mul_comm, N.div_add by lia. rewrite (N.div_small g) by lia. lia. Qed.

(* ---- encoder side --------------------------------------------------------- *)
Lemma groups_S f n :
  groups (S f) n = if n <? 128 then [n mod 128] else n mod 128 :: groups f (n / 128).
Proof.
  cbn [groups]. rewrite land127, shiftr7.
  destruct (N.eqb_spec (n / 128) 0) as [E|E], (N.ltb_spec n 128) as [L|L]; try reflexivity.
  - apply N.div_small_iff in E; lia.
  - assert (n / 128 = 0) by (apply N.div_small; lia). lia.
Qed.

Lemma groups_canon fuel : forall n first,
  n < 2 ^ (7 * N.of_nat fuel) -> (0 < fuel)%nat -> (first = true \/ n <> 0) ->
  canon first (groups fuel n) /\ val (groups fuel n) = n.
Proof.
  induction fuel as [|f IH]; intros n first Hn Hf Hz; [lia|].
  rewrite groups_S. destruct (N.ltb_spec n 128) as [L|L].
  - rewrite N.mod_small by lia. split; [|cbn; lia].
    destruct (N.eq_dec n 0) as [->|Hn0].
    + destruct Hz as [->|]; [constructor|congruence].
    + now constructor.
  - assert (Hdiv : n / 128 < 2 ^ (7 * N.of_nat f)).
    { apply N.div_lt_upper_bound; [lia|].
      replace (7 * N.of_nat (S f)) with (7 + 7 * N.of_nat f) in Hn by lia.
      rewrite N.pow_add_r in Hn. exact Hn. }
    assert (Hnz : n / 128 <> 0).
    { intros E. apply N.div_small_iff in E; lia. }
    destruct f as [|f'].
    { cbn in Hdiv. change (2 ^ (7 * 0)) with 1 in Hdiv. lia. }
    destruct (IH (n / 128) false Hdiv ltac:(lia) (or_intror Hnz)) as [IHc IHv].
    split.
    + constructor; [apply N.mod_lt; lia | exact IHc].
    + cbn [val]. rewrite IHv. pose proof (N.div_mod' n 128). lia.
Qed.

Lemma varint_fuel_ok n : n < 2 ^ (7 * N.of_nat (varint_fuel n)) /\ (0 < varint_fuel n)%nat.
Proof.
  unfold varint_fuel. split; [|lia].
  apply N.lt_le_trans with (2 ^ N.size n); [apply N.size_gt|].
  apply N.pow_le_mono_r; lia.
Qed.

Lemma groups_val gs : forall first fuel,
  canon first gs -> (length gs <= fuel)%nat -> groups fuel (val gs) = gs.
Proof.
  induction gs as [|g t IH]; intros first fuel Hc Hl; [inversion Hc|].
  destruct fuel as [|f]; [cbn in Hl; lia|]. rewrite groups_S. cbn [val].
  inversion Hc as [|f0 g0 Hg Hg0|f0 g0 t0 Hg Ht]; subst.
  - reflexivity.
  - cbn [val]. replace (g + 128 * 0) with g by lia.
    destruct (N.ltb_spec g 128); [|lia]. now rewrite N.mod_small.
  - pose proof (canon_val_lower _ Ht) as [_ Hpos].
    destruct (N.ltb_spec (g + 128 * val t) 128); [lia|].
    rewrite mod128_add, div128_add by assumption.
    f_equal. apply (IH false); [assumption|]. cbn in Hl. lia.
Qed.

Lemma canon_len_fuel first gs : canon first gs -> (length gs <= varint_fuel (val gs))%nat.
Proof.
  intros Hc. unfold varint_fuel.
  inversion Hc as [|f0 g0 Hg Hg0|f0 g0 t0 Hg Ht]; subst; cbn [length]; try lia.
  pose proof (canon_val_lower _ Ht) as [Hlow Hpos].
  set (n := g0 + 128 * val t0). assert (Hn : 128 * 128 ^ (lenN t0 - 1) <= n) by (unfold n; lia).
  pose proof (N.size_gt n) as Hs.
  assert (Hp : 2 ^ (7 * (lenN t0 - 1) + 7) <= n).
  { rewrite N.pow_add_r, N.pow_mul_r. change (2 ^ 7) with 128. lia. }
  assert (7 * (lenN t0 - 1) + 7 < N.size n).
  { apply (N.pow_lt_mono_r_iff 2); [lia|]. lia. }
  change (val (g0 :: t0)) with n. clearbody n. clear Hn Hp Hs Hlow.
  unfold lenN in *. pose proof (canon_nonnil _ _ Ht). destruct t0; [congruence|]. cbn [length] in *. lia.
Qed.

(* ---- decoder side --------------------------------------------------------- *)
Lemma byte_split b :
  let n := b2n b in
  (n <? 128 = true -> n2b (N.land n 127) = b /\ N.land n 127 = n) /\
  (n <? 128 = false -> n2b (N.lor (N.land n 127) 128) = b) /\ N.land n 127 < 128.
Proof.
  intros n. pose proof (b2n_lt b) as Hb. fold n in Hb. rewrite land127.
  assert (Hm : n mod 128 < 128) by (apply N.mod_lt; lia).
  split; [intros HH; split|split; [intros HH|assumption]].
  - rewrite N.mod_small by lia. apply n2b_b2n.
  - apply N.mod_small; lia.
  - rewrite lor_128_add by assumption.
    assert (E : n mod 128 + 128 = n).
    { pose proof (N.div_mod' n 128). assert (n / 128 = 1).
      { apply N.le_antisymm; [apply N.lt_succ_r; apply N.div_lt_upper_bound; lia|apply N.div_le_lower_bound; lia]. }
      lia. }
    rewrite E. apply n2b_b2n.
Qed.

Lemma cont_bytes_cons g t : t <> [] -> cont_bytes (g :: t) = n2b (N.lor g 128) :: cont_bytes t.
Proof. destruct t; [congruence|reflexivity]. Qed.

Lemma collect_sound s : forall first gs r,
  collect s first = (Ok gs, r) -> canon first gs /\ s = cont_bytes gs ++ r.
Proof.
  induction s as [|b s IH]; intros first gs r H; cbn [collect] in H; [discriminate|].
  pose proof (byte_split b) as (Hlow & Hhigh & Hlt). cbv zeta in *.
  destruct ((b2n b =? 0) && negb first) eqn:Ez; [discriminate|].
  rewrite land128_byte in H by apply b2n_lt.
  destruct (b2n b <? 128) eqn:E.
  - inversion H; subst. destruct (Hlow eq_refl) as [Hb Hg]. split.
    + rewrite Hg. destruct (N.eq_dec (b2n b) 0) as [E0|E0].
      * rewrite E0 in *. destruct first; [constructor|cbn in Ez; discriminate].
      * constructor; lia.
    + cbn [cont_bytes app]. now rewrite Hb.
  - destruct (collect s false) as [[gs'|e|] r'] eqn:Ec; try discriminate.
    inversion H; subst. destruct (IH _ _ _ Ec) as [Hc Hs]. split.
    + now constructor.
    + rewrite cont_bytes_cons by (eapply canon_nonnil; eassumption).
      cbn [app]. rewrite (Hhigh eq_refl). now f_equal.
Qed.

Lemma collect_complete gs : forall first r,
  canon first gs -> collect (cont_bytes gs ++ r) first = (Ok gs, r).
Proof.
  induction gs as [|g t IH]; intros first r Hc; [inversion Hc|].
  inversion Hc as [|f0 g0 Hg Hg0|f0 g0 t0 Hg Ht]; subst.
  - cbn. reflexivity.
  - cbn [cont_bytes app collect]. rewrite b2n_n2b_small by lia.
    replace ((g =? 0) && negb first) with false by (destruct (N.eqb_spec g 0); [congruence|reflexivity]).
    rewrite land128_byte by lia. destruct (N.ltb_spec g 128); [|lia].
    rewrite land127, N.mod_small by lia. reflexivity.
  - rewrite cont_bytes_cons by (eapply canon_nonnil; eassumption).
    cbn [app collect]. rewrite lor_128_add by assumption. rewrite b2n_n2b_small by lia.
    replace ((g + 128 =? 0) && negb first) with false by (destruct (N.eqb_spec (g + 128) 0); [lia|reflexivity]).
    rewrite land128_byte by lia. destruct (N.ltb_spec (g + 128) 128); [lia|].
    rewrite (IH false r Ht). rewrite land127.
    replace ((g + 128) mod 128) with g; [reflexivity|].
    change 128 with (1 * 128) at 1. rewrite N.mod_add by lia. now rewrite N.mod_small.
Qed.

(* most-significant-first accumulation without the overflow test *)
Fixpoint valm (l : list N) (acc : N) : N :=
  match l with
  | [] => acc
  | [last] => acc + last
  | g :: t => valm t ((acc + g) * 128)
  end.

Lemma valm_cons2 g h t acc : valm (g :: h :: t) acc = valm (h :: t) ((acc + g) * 128).
Proof. reflexivity. Qed.
Lemma accum_cons2 g h t acc :
  accum (g :: h :: t) acc =
  (let int := N.lor acc g in if int <? 2 ^ 57 then accum (h :: t) (N.shiftl int 7) else Err EBad).
Proof. reflexivity. Qed.

Lemma valm_ge l : forall acc, acc <= valm l acc.
Proof.
  induction l as [|g t IH]; intros acc; [cbn; lia|].
  destruct t as [|h t]; [cbn; lia|]. rewrite valm_cons2. specialize (IH ((acc + g) * 128)). lia.
Qed.

Lemma accum_spec l : forall acc,
  l <> [] -> Forall (fun g => g < 128) l -> acc mod 128 = 0 -> acc + 128 <= 2 ^ 64 ->
  accum l acc = if valm l acc <? 2 ^ 64 then Ok (valm l acc) else Err EBad.
Proof.
  induction l as [|g t IH]; intros acc Hn Hf Hm Hb; [congruence|].
  inversion Hf as [|? ? Hg Ht]; subst.
  assert (Hacc : acc = (acc / 128) * 128).
  { pose proof (N.div_mod' acc 128). lia. }
  assert (Hlor : N.lor acc g = acc + g).
  { rewrite Hacc at 1. rewrite lor_mul128_add by assumption. lia. }
  destruct t as [|h t].
  - cbn [accum valm]. rewrite Hlor. destruct (N.ltb_spec (acc + g) (2 ^ 64)); [reflexivity|lia].
  - rewrite accum_cons2, valm_cons2. cbv zeta. rewrite Hlor, shiftl7.
    change (2 ^ 64) with (2 ^ 57 * 128) in *.
    destruct (N.ltb_spec (acc + g) (2 ^ 57)) as [L|L].
    + apply IH; [discriminate|assumption| |lia].
      now rewrite N.mod_mul by lia.
    + pose proof (valm_ge (h :: t) ((acc + g) * 128)).
      destruct (N.ltb_spec (valm (h :: t) ((acc + g) * 128)) (2 ^ 57 * 128)); [lia|reflexivity].
Qed.

Lemma valm_snoc l : forall g acc, l <> [] -> valm (l ++ [g]) acc = valm l acc * 128 + g.
Proof.
  induction l as [|x t IH]; intros g acc Hn; [congruence|].
  destruct t as [|y t].
  - cbn. lia.
  - change ((x :: y :: t) ++ [g]) with (x :: y :: (t ++ [g])). rewrite !valm_cons2.
    change (y :: t ++ [g]) with ((y :: t) ++ [g]). apply IH. discriminate.
Qed.

Lemma valm_rev gs : gs <> [] -> valm (rev gs) 0 = val gs.
Proof.
  induction gs as [|g t IH]; intros Hn; [congruence|].
  destruct t as [|h t]; [cbn; lia|].
  cbn [rev] in *. rewrite valm_snoc.
  - rewrite IH by discriminate. cbn [val]. lia.
  - intros E. apply app_eq_nil in E. destruct E; discriminate.
Qed.

Lemma accum_rev first gs : canon first gs ->
  accum (rev gs) 0 = if val gs <? 2 ^ 64 then Ok (val gs) else Err EBad.
Proof.
  intros Hc. pose proof (canon_nonnil _ _ Hc) as Hn. pose proof (canon_lt _ _ Hc) as Hf.
  rewrite accum_spec.
  - now rewrite valm_rev.
  - intros E. apply (f_equal (@rev N)) in E. rewrite rev_involutive in E. cbn in E. congruence.
  - apply Forall_rev. assumption.
  - reflexivity.
  - cbv. discriminate.
Qed.

(* ---- the four main facts ---------------------------------------------------- *)
Lemma enc_varint_groups n :
  canon true (groups (varint_fuel n) n) /\ val (groups (varint_fuel n) n) = n.
Proof. destruct (varint_fuel_ok n). apply groups_canon; auto. Qed.

Lemma dec_enc_varint n r : n < 2 ^ 64 -> dec_varint (enc_varint n ++ r) = (Ok n, r).
Proof.
  intros Hn. unfold dec_varint, enc_varint. destruct (enc_varint_groups n) as [Hc Hv].
  rewrite (collect_complete _ _ _ Hc). rewrite (accum_rev _ _ Hc), Hv.
  destruct (N.ltb_spec n (2 ^ 64)); [reflexivity|lia].
Qed.

Lemma dec_varint_sound b n r : dec_varint b = (Ok n, r) -> n < 2 ^ 64 /\ b = enc_varint n ++ r.
Proof.
  unfold dec_varint. intros H. destruct (collect b true) as [[gs|e|] r'] eqn:Ec; try discriminate.
  destruct (collect_sound _ _ _ _ Ec) as [Hc Hs]. rewrite (accum_rev _ _ Hc) in H.
  destruct (N.ltb_spec (val gs) (2 ^ 64)) as [L|L]; [|discriminate].
  inversion H; subst. split; [assumption|].
  unfold enc_varint. rewrite (groups_val _ _ _ Hc (canon_len_fuel _ _ Hc)). reflexivity.
Qed.

Lemma dec_varint_never_panics b r : dec_varint b <> (Panic, r).
Proof.
  unfold dec_varint. destruct (collect b true) as [[gs|e|] r'] eqn:Ec; try discriminate.
  - destruct (collect_sound _ _ _ _ Ec) as [Hc _]. rewrite (accum_rev _ _ Hc).
    destruct (_ <? _); discriminate.
  - exfalso. revert Ec. generalize true as f. revert r'.
    induction b as [|x b IH]; intros r' f; cbn [collect]; [discriminate|].
    destruct (_ && _); [discriminate|]. destruct (_ =? _); [discriminate|].
    destruct (collect b false) as [[?|?|] ?] eqn:E; try discriminate. intros H. inversion H; subst.
    eapply IH. eassumption.
Qed.

(* ---- relation to textbook LEB128 --------------------------------------------- *)
Lemma canon_LEB first gs : canon first gs -> LEB (val gs) (cont_bytes gs).
Proof.
  induction 1 as [|f g Hg Hg0|f g t Hg Ht IH].
  - apply (LEB_last 0). lia.
  - cbn [val cont_bytes]. replace (g + 128 * 0) with g by lia. now apply LEB_last.
  - rewrite cont_bytes_cons by (eapply canon_nonnil; eassumption).
    pose proof (canon_val_lower _ Ht) as [_ Hpos]. cbn [val].
    rewrite lor_128_add by assumption.
    rewrite <- (mod128_add g (val t)) at 2 by assumption.
    apply LEB_more; [lia|]. now rewrite div128_add.
Qed.

Lemma enc_varint_LEB n : LEB n (enc_varint n).
Proof.
  destruct (enc_varint_groups n) as [Hc Hv]. unfold enc_varint.
  rewrite <- Hv at 1. eapply canon_LEB; eassumption.
Qed.

Lemma LEB_functional n b1 : LEB n b1 -> forall b2, LEB n b2 -> b1 = b2.
Proof.
  induction 1 as [n Hn|n t Hn Ht IH]; intros b2 H2; inversion H2; subst; try lia; try reflexivity.
  f_equal. now apply IH.
Qed.

Lemma leb_fuel_LEB fuel : forall n, n < 2 ^ (7 * N.of_nat fuel) -> (0 < fuel)%nat -> LEB n (leb_fuel fuel n).
Proof.
  induction fuel as [|f IH]; intros n Hn Hf; [lia|]. cbn [leb_fuel].
  destruct (N.ltb_spec n 128) as [L|L]; [now constructor|].
  assert (Hdiv : n / 128 < 2 ^ (7 * N.of_nat f)).
  { apply N.div_lt_upper_bound; [lia|].
    replace (7 * N.of_nat (S f)) with (7 + 7 * N.of_nat f) in Hn by lia.
    rewrite N.pow_add_r in Hn. exact Hn. }
  constructor; [assumption|]. apply IH; [assumption|].
  destruct f; [|lia]. change (2 ^ (7 * N.of_nat 0)) with 1 in Hdiv.
  assert (n / 128 <> 0) by (intros E; apply N.div_small_iff in E; lia). lia.
Qed.

Lemma leb128_LEB n : LEB n (leb128 n).
Proof. unfold leb128. destruct (varint_fuel_ok n). now apply leb_fuel_LEB. Qed.

Lemma enc_varint_is_leb n : enc_varint n = leb128 n.
Proof. eapply LEB_functional; [apply enc_varint_LEB|apply leb128_LEB]. Qed.

(* ---- length ------------------------------------------------------------------ *)
Lemma LEB_length n b : LEB n b ->
  (n < 128 /\ length b = 1%nat) \/
  (128 <= n /\ 128 ^ (lenN b - 1) <= n < 128 ^ lenN b).
Proof.
  induction 1 as [n Hn|n t Hn Ht IH]; [left; split; [assumption|reflexivity]|right].
  split; [assumption|].
  assert (Hl : lenN (n2b (n mod 128 + 128) :: t) = N.succ (lenN t)) by (unfold lenN; cbn [length]; lia).
  rewrite Hl. replace (N.succ (lenN t) - 1) with (lenN t) by lia.
  rewrite N.pow_succ_r'. pose proof (N.div_mod' n 128). pose proof (N.mod_lt n 128 ltac:(lia)).
  destruct IH as [[IH1 IH2]|[IH1 [IH2 IH3]]].
  - unfold lenN. rewrite IH2. change (128 ^ N.of_nat 1) with 128. lia.
  - assert (lenN t = N.succ (lenN t - 1)).
    { assert (lenN t <> 0). { intros E. rewrite E in IH3. change (128 ^ 0) with 1 in IH3. lia. } lia. }
    rewrite H1 at 1. rewrite N.pow_succ_r'. lia.
Qed.

Lemma enc_varint_len_bounds n : n < 2 ^ 64 -> (1 <= length (enc_varint n) <= 10)%nat.
Proof.
  intros Hn. destruct (LEB_length _ _ (enc_varint_LEB n)) as [[_ H]|[H1 [H2 H3]]]; [lia|].
  split.
  - destruct (enc_varint n); cbn; [|lia]. change (lenN []) with 0 in H3. change (128 ^ 0) with 1 in H3. lia.
  - destruct (Nat.le_gt_cases (length (enc_varint n)) 10) as [L|L]; [assumption|exfalso].
    assert (128 ^ 10 <= 128 ^ (lenN (enc_varint n) - 1)).
    { apply N.pow_le_mono_r; [lia|]. unfold lenN. lia. }
    assert (128 ^ 10 <= n) by lia. vm_compute in H0. 
    change (2 ^ 64) with 18446744073709551616 in Hn. lia.
Qed.

Lemma enc_varint_len_reported n : enc_varint_len n = lenN (enc_varint n).
Proof.
  unfold enc_varint_len, enc_varint. destruct (enc_varint_groups n) as [Hc _].
  destruct (groups (varint_fuel n) n) as [|g t]; [inversion Hc|].
  assert (forall g t, length (cont_bytes (g :: t)) = S (length t)).
  { clear. intros g t. revert g. induction t as [|h t IH]; intros g; [reflexivity|].
    rewrite cont_bytes_cons by discriminate. cbn [length]. now rewrite IH. }
  unfold lenN. rewrite H. lia.
Qed.

(* ---- exact length in terms of the bit size ------------------------------------- *)
Lemma enc_varint_len_exact n : lenN (enc_varint n) = leb_len n.
Proof.
  unfold leb_len.
  destruct (LEB_length _ _ (enc_varint_LEB n)) as [[Hn Hl]|[Hn [Hlo Hhi]]].
  - unfold lenN. rewrite Hl. change (N.of_nat 1) with 1.
    assert (N.size n <= 7).
    { destruct (N.eq_dec n 0) as [->|Hz]; [cbn; lia|]. rewrite N.size_log2 by assumption.
      assert (N.log2 n < 7) by (apply N.log2_lt_pow2; [lia|exact Hn]). lia. }
    assert ((N.size n + 6) / 7 <= 1).
    { apply N.lt_succ_r. apply N.div_lt_upper_bound; lia. }
    lia.
  - set (k := lenN (enc_varint n)) in *.
    assert (Hk : 1 <= k).
    { destruct (N.eq_dec k 0) as [E|E]; [|lia]. rewrite E in Hhi. change (128 ^ 0) with 1 in Hhi. lia. }
    rewrite N.size_log2 by lia.
    assert (H1 : 7 * (k - 1) <= N.log2 n).
    { apply N.log2_le_pow2; [lia|]. rewrite N.pow_mul_r. exact Hlo. }
    assert (H2 : N.log2 n < 7 * k).
    { apply N.log2_lt_pow2; [lia|]. rewrite N.pow_mul_r. exact Hhi. }
    assert ((N.succ (N.log2 n) + 6) / 7 = k).
    { symmetry. apply (N.div_unique _ 7 k (N.succ (N.log2 n) + 6 - 7 * k)); lia. }
    lia.
Qed.

(* ---- LEB128 strings are prefix-free: a decoder can accept at most one split ------ *)
Lemma LEB_prefix_free n b1 : LEB n b1 -> forall m b2 r1 r2,
  LEB m b2 -> b1 ++ r1 = b2 ++ r2 -> n = m /\ b1 = b2 /\ r1 = r2.
Proof.
  induction 1 as [n Hn|n t Hn Ht IH]; intros m b2 r1 r2 H2 E; inversion H2 as [m' Hm|m' t' Hm Ht']; subst;
    cbn [app] in E; injection E as E1 E2.
  - apply n2b_inj_small in E1; try lia. subst. auto.
  - pose proof (N.mod_lt m 128 ltac:(lia)). apply n2b_inj_small in E1; lia.
  - pose proof (N.mod_lt n 128 ltac:(lia)). apply n2b_inj_small in E1; lia.
  - pose proof (N.mod_lt n 128 ltac:(lia)). pose proof (N.mod_lt m 128 ltac:(lia)).
    apply n2b_inj_small in E1; try lia.
    destruct (IH _ _ _ _ Ht' E2) as (Ed & Et & Er). subst.
    pose proof (N.div_mod' n 128). pose proof (N.div_mod' m 128).
    assert (n = m) by lia. subst. auto.
Qed.

Lemma dec_varint_accepts_iff b n :
  (exists r, dec_varint b = (Ok n, r)) <-> (n < 2 ^ 64 /\ exists r, b = enc_varint n ++ r).
Proof.
  split.
  - intros [r H]. apply dec_varint_sound in H. destruct H; eauto.
  - intros [Hn [r ->]]. exists r. now apply dec_enc_varint.
Qed.

(* anything that is the LEB128 string of a number >= 2^64 is rejected, whatever follows *)
Lemma dec_varint_rejects_overflow n b r m r' :
  2 ^ 64 <= n -> LEB n b -> dec_varint (b ++ r) <> (Ok m, r').
Proof.
  intros Hn Hb H. apply dec_varint_sound in H. destruct H as [Hm E].
  destruct (LEB_prefix_free _ _ Hb _ _ _ _ (enc_varint_LEB m) E) as [-> _]. lia.
Qed.

(* a string whose bytes all carry the continuation bit is a truncated varint *)
Lemma collect_truncated b : forall first,
  Forall (fun x => 128 <= b2n x) b -> collect b first = (Err EEof, []).
Proof.
  induction b as [|x b IH]; intros first H; [reflexivity|].
  inversion H as [|? ? Hx Hb]; subst. cbn [collect].
  replace ((b2n x =? 0) && negb first) with false by (destruct (N.eqb_spec (b2n x) 0); [lia|reflexivity]).
  rewrite land128_byte by apply b2n_lt. destruct (N.ltb_spec (b2n x) 128); [lia|].
  now rewrite IH.
Qed.

Lemma dec_varint_truncated b : Forall (fun x => 128 <= b2n x) b -> dec_varint b = (Err EEof, []).
Proof. intros H. unfold dec_varint. now rewrite collect_truncated. Qed.

(* a zero byte after at least one continuation byte (superfluous most-significant group) *)
Lemma dec_varint_rejects_padded gs r m r' :
  gs <> [] -> Forall (fun x => 128 <= b2n x) gs -> dec_varint (gs ++ x00 :: r) <> (Ok m, r').
Proof.
  intros Hn Hf H. unfold dec_varint in H.
  assert (Hc : forall first, first = false \/ gs <> [] -> exists e, collect (gs ++ x00 :: r) first = (Err e, r)).
  { clear H Hn. induction gs as [|x gs IH]; intros first Hfirst.
    - destruct Hfirst as [->|]; [|congruence]. exists EBad. reflexivity.
    - inversion Hf as [|? ? Hx Hg]; subst. cbn [app collect].
      replace ((b2n x =? 0) && negb first) with false by (destruct (N.eqb_spec (b2n x) 0); [lia|reflexivity]).
      rewrite land128_byte by apply b2n_lt. destruct (N.ltb_spec (b2n x) 128); [lia|].
      destruct (IH Hg false (or_introl eq_refl)) as [e ->]. eauto. }
  destruct (Hc true (or_intror Hn)) as [e E]. rewrite E in H. discriminate.
Qed.
