(* TxIdProofs.v — C05: the library's tx hash is Monero's three-hash identifier of the received bytes. *)
From MRS Require Export Model.TxId Spec.TxIdSpec Proofs.CodecExact.
Open Scope N_scope.

Lemma firstn_app_exact {A} (a r : list A) : firstn (length (a ++ r) - length r) (a ++ r) = a.
Proof.
  rewrite app_length. replace (length a + length r - length r)%nat with (length a + 0)%nat by lia.
  rewrite firstn_app_2. cbn [firstn]. apply app_nil_r.
Qed.

Section Proofs.
  Variable H : bytes -> bytes.

  (* what dec_tx returns, decomposed along the format's boundaries *)
  Lemma dec_tx_parts sz b t :
    dec_tx sz b = (Ok t, []) ->
    exists r1, dec_prefix sz b = (Ok (tx_prefix t), r1) /\ b = enc_prefix (tx_prefix t) ++ r1 /\
      ( (version (tx_prefix t) =? 1) = true \/
        ((version (tx_prefix t) =? 1) = false /\ (lenN (inputs (tx_prefix t)) =? 0) = true /\ r1 = [] /\ tx_rct t = mk_rct None None) \/
        ((version (tx_prefix t) =? 1) = false /\ (lenN (inputs (tx_prefix t)) =? 0) = false /\
         exists base r2, dec_rct_base (lenN (inputs (tx_prefix t))) (lenN (outputs (tx_prefix t))) r1 = (Ok base, r2) /\
           r1 = enc_rct_base base ++ r2 /\ rct_base_of (tx_rct t) = Some base /\
           match rb_type base with
           | RNull => r2 = [] /\ rct_p (tx_rct t) = None
           | ty => exists pr, rct_p (tx_rct t) = Some pr /\ r2 = enc_rct_prunable pr ty
           end) ).
  Proof.
    unfold dec_tx. intros Hd. apply bind_ok in Hd. destruct Hd as (p & r1 & Hp & Hk).
    assert (Eb : b = enc_prefix p ++ r1) by (exact (exact_pf (d := dec_prefix sz) _ _ _ Hp)).
    revert Hp Eb. generalize b. clear b. intros b Hp Eb.
    destruct (version p =? 1) eqn:Ev.
    - apply bind_ok in Hk. destruct Hk as (sg & r2 & _ & Hk). apply ret_ok in Hk. destruct Hk as [-> _].
      exists r1. cbn [tx_prefix]. rewrite Ev. auto.
    - destruct (lenN (inputs p) =? 0) eqn:Ei.
      + apply ret_ok in Hk. destruct Hk as [-> <-]. exists []. cbn [tx_prefix tx_rct]. rewrite Ev, Ei.
        split; [exact Hp|]. split; [exact Eb|]. right. left. auto.
      + apply bind_ok in Hk. destruct Hk as (base & r2 & Hb & Hk).
        assert (Er1 : r1 = enc_rct_base base ++ r2) by (exact (exact_pf (d := dec_rct_base _ _) _ _ _ Hb)).
        destruct (rb_type base) eqn:Et;
          [ apply ret_ok in Hk; destruct Hk as [-> <-]; exists r1; cbn [tx_prefix tx_rct rct_base_of rct_p]; rewrite Ev, Ei;
            (split; [exact Hp|]); (split; [exact Eb|]); right; right; (split; [reflexivity|]); (split; [reflexivity|]);
            exists base, []; rewrite Et; auto | ..].
        all: match type of Hk with
               | (match ?m with Some _ => _ | None => _ end) _ = _ => destruct m eqn:Em; [|discriminate Hk]
               end;
            apply bind_ok in Hk; destruct Hk as (pr & r3 & Hpr & Hk);
            apply exact_rct_prunable in Hpr; [|discriminate];
            apply ret_ok in Hk; destruct Hk as [-> <-];
            exists r1; cbn [tx_prefix tx_rct rct_base_of rct_p]; rewrite Ev, Ei;
            (split; [exact Hp|]); (split; [exact Eb|]); right; right;
            (split; [reflexivity|]); (split; [reflexivity|]);
            exists base, r2; rewrite Et;
            (split; [exact Hb|]); (split; [exact Er1|]); (split; [reflexivity|]);
            exists pr; split; [reflexivity|rewrite Hpr; now rewrite app_nil_r].
  Qed.

  Lemma prefix_hash_spec sz b t :
    dec_tx sz b = (Ok t, []) -> spec_prefix_hash H sz b = Some (prefix_hash H (tx_prefix t)).
  Proof.
    intros Hd. destruct (dec_tx_parts sz b t Hd) as (r1 & Hp & Eb & _).
    unfold spec_prefix_hash, prefix_hash. rewrite Hp. rewrite Eb at 1 2. now rewrite firstn_app_exact.
  Qed.

  Lemma tx_hash_spec sz b t :
    dec_tx sz b = (Ok t, []) -> spec_id H sz b = Some (tx_hash H t).
  Proof.
    intros Hd. pose proof (exact_pf (d := dec_tx sz) _ _ _ Hd) as Etx. rewrite app_nil_r in Etx.
    destruct (dec_tx_parts sz b t Hd) as (r1 & Hp & Eb & Hcase).
    unfold spec_id, tx_hash, prefix_hash. rewrite Hp.
    destruct Hcase as [Ev|[(Ev & Ei & -> & Hr)|(Ev & Ei & base & r2 & Hb & Er1 & Hbase & Hty)]]; rewrite Ev.
    - now rewrite Etx.
    - rewrite Ei, Hr. cbn [rct_base_of]. rewrite Eb at 1 2. rewrite firstn_app_exact.
      assert (Hin : inputs (tx_prefix t) = []).
      { apply N.eqb_eq in Ei. unfold lenN in Ei. destruct (inputs (tx_prefix t)); [reflexivity|cbn in Ei; lia]. }
      rewrite Hin. reflexivity.
    - rewrite Ei, Hb, Hbase. rewrite Eb at 1 2. rewrite firstn_app_exact. rewrite Er1 at 1 2. rewrite firstn_app_exact.
      destruct (rb_type base) eqn:Et; [reflexivity|..];
        destruct Hty as (pr & -> & ->); reflexivity.
  Qed.
End Proofs.
