(* WireProofs.v — C03: on well-formed descriptions the model's encoder produces exactly the Monero field-list layout. *)
From MRS Require Export Spec.Wire Proofs.CodecComplete.
Open Scope N_scope.

Lemma render_app a b : render (a ++ b) = render a ++ render b.
Proof. unfold render. apply flat_map_app. Qed.
Lemma render_cons f t : render (f :: t) = render1 f ++ render t.
Proof. reflexivity. Qed.
Lemma render_nil : render [] = [].
Proof. reflexivity. Qed.

Lemma pad_to_exact k b : length b = k -> pad_to k b = b.
Proof. intros <-. unfold pad_to. rewrite firstn_app, Nat.sub_diag, firstn_all. cbn [firstn]. now rewrite app_nil_r. Qed.

Lemma render_key b : wf_key b -> render (key b) = b.
Proof. intros H. unfold key. rewrite render_cons, render_nil, app_nil_r. cbn [render1]. now apply pad_to_exact. Qed.
Lemma render_blob k b : wf_arr k b -> render [FBlob k b] = b.
Proof. intros H. rewrite render_cons, render_nil, app_nil_r. cbn [render1]. now apply pad_to_exact. Qed.
Lemma render_varint n : render [FVarint n] = enc_varint n.
Proof. rewrite render_cons, render_nil, app_nil_r. cbn [render1]. symmetry. apply enc_varint_is_leb. Qed.
Lemma render_byte n : render [FByte n] = enc_u8 n.
Proof. reflexivity. Qed.
Lemma render_u32 n : render [FU32 n] = enc_uint 4 n.
Proof. reflexivity. Qed.

Lemma render_all {A} (f : A -> list field) (e : A -> bytes) (wf : A -> Prop) l :
  (forall a, wf a -> render (f a) = e a) -> Forall wf l -> render (all f l) = enc_list e l.
Proof.
  intros H Hf. unfold all, enc_list. induction Hf as [|a t Ha Ht IH]; [reflexivity|].
  cbn [flat_map]. rewrite render_app, IH, H by assumption. reflexivity.
Qed.

Lemma arr_all {A} n (f : A -> list field) l : lenN l = n -> arr n f l = all f l.
Proof. intros <-. unfold arr, all, lenN. rewrite Nat2N.id, firstn_all. reflexivity. Qed.

Lemma render_arr {A} n (f : A -> list field) e (wf : A -> Prop) l :
  (forall a, wf a -> render (f a) = e a) -> Forall wf l -> lenN l = n -> render (arr n f l) = enc_list e l.
Proof. intros H Hf Hl. rewrite arr_all by exact Hl. now apply render_all with (wf := wf). Qed.

Lemma render_counted {A} (f : A -> list field) e (wf : A -> Prop) l :
  (forall a, wf a -> render (f a) = e a) -> Forall wf l -> render (counted f l) = enc_vec e l.
Proof.
  intros H Hf. unfold counted, enc_vec. rewrite render_cons. cbn [render1]. rewrite <- enc_varint_is_leb. f_equal.
  now apply (render_all f e wf).
Qed.

Lemma enc_list_id l : enc_list enc_arr l = enc_list (fun b : bytes => b) l.
Proof. reflexivity. Qed.

(* ---- prefix -------------------------------------------------------------------------------------------------- *)
Lemma render_txin i : wf_txin i -> render (f_txin i) = enc_txin i.
Proof.
  destruct i as [h|a ko ki]; cbn [wf_txin f_txin enc_txin].
  - intros _. rewrite render_cons. cbn [render1]. now rewrite render_varint.
  - intros (Ha & (Hko & _ & _) & Hki). rewrite !render_app, render_key by exact Hki.
    rewrite (render_counted _ enc_varint wf_u64) by (assumption || (intros; apply render_varint)).
    rewrite render_cons. cbn [render1]. rewrite render_varint. unfold enc_u8, enc_arr. now rewrite <- !app_assoc.
Qed.

Lemma render_target t : wf_target t -> render (f_target t) = enc_target t.
Proof.
  destruct t as [k|k v]; cbn [wf_target f_target enc_target].
  - intros Hk. rewrite render_cons, render_key by exact Hk. reflexivity.
  - intros [Hk Hv]. rewrite render_cons, render_app, render_key by exact Hk. reflexivity.
Qed.

Lemma render_txout o : wf_txout o -> render (f_txout o) = enc_txout o.
Proof.
  intros [Ha Ht]. unfold f_txout, enc_txout. rewrite render_cons, render_target by exact Ht. cbn [render1].
  now rewrite <- enc_varint_is_leb.
Qed.

Lemma render_prefix sz p : wf_prefix sz p -> spec_prefix p = enc_prefix p.
Proof.
  intros (Hv & Hu & (Hi & _) & (Ho & _) & He). unfold spec_prefix, f_prefix, enc_prefix.
  rewrite !render_app.
  rewrite (render_counted _ enc_txin wf_txin) by (assumption || exact render_txin).
  rewrite (render_counted _ enc_txout wf_txout) by (assumption || exact render_txout).
  rewrite !render_cons, render_nil. cbn [render1]. rewrite <- !enc_varint_is_leb.
  rewrite pad_to_exact by reflexivity. unfold enc_bytes_vec, lenN. now rewrite <- !app_assoc, app_nil_r.
Qed.

(* ---- RingCT -------------------------------------------------------------------------------------------------- *)
Lemma render_ecdh t e : wf_ecdh t e -> render (f_ecdh t e) = enc_ecdh e.
Proof.
  destruct t, e as [m a|a]; cbn [wf_ecdh f_ecdh enc_ecdh]; try contradiction;
    try (intros [Hm Ha]; now rewrite render_app, !render_key by assumption);
    intros Ha; now apply render_blob.
Qed.

Lemma render_signature s : wf_signature s -> render (key (sig_c s) ++ key (sig_r s)) = enc_signature s.
Proof. intros [Hc Hr]. now rewrite render_app, !render_key by assumption. Qed.

Lemma render_bulletproof p : wf_bulletproof p -> render (f_bulletproof p) = enc_bulletproof p.
Proof.
  intros H. unfold wf_bulletproof in H. decompose [and] H. clear H. unfold f_bulletproof, enc_bulletproof.
  rewrite !render_app, !render_key by assumption.
  match goal with HL : wf_vec 32 wf_key (bp_L p), HR : wf_vec 32 wf_key (bp_R p) |- _ =>
    destruct HL as (HL & _ & _); destruct HR as (HR & _ & _) end.
  rewrite !(render_counted key enc_arr wf_key) by (assumption || exact render_key). reflexivity.
Qed.

Lemma render_bpplus p : wf_bpplus p -> render (f_bpplus p) = enc_bpplus p.
Proof.
  intros H. unfold wf_bpplus in H. decompose [and] H. clear H. unfold f_bpplus, enc_bpplus.
  rewrite !render_app, !render_key by assumption.
  match goal with HL : wf_vec 32 wf_key (bpp_L p), HR : wf_vec 32 wf_key (bpp_R p) |- _ =>
    destruct HL as (HL & _ & _); destruct HR as (HR & _ & _) end.
  rewrite !(render_counted key enc_arr wf_key) by (assumption || exact render_key). reflexivity.
Qed.

Lemma render_rangesig r : wf_rangesig r -> render (f_rangesig r) = enc_rangesig r.
Proof.
  intros ((H0 & H1 & He) & Hc). unfold f_rangesig, enc_rangesig, enc_borosig.
  rewrite !render_cons, render_nil. cbn [render1]. rewrite !pad_to_exact by assumption.
  now rewrite <- !app_assoc, app_nil_r.
Qed.

Lemma render_clsag mixin c : wf_clsag mixin c -> render (f_clsag (mixin + 1) c) = enc_clsag c.
Proof.
  intros (Hs & Hl & Hc & Hd). unfold f_clsag, enc_clsag. rewrite !render_app, !render_key by assumption.
  rewrite (render_arr _ key enc_arr wf_key) by (assumption || exact render_key). reflexivity.
Qed.

Lemma render_mg mixin cols m : wf_mgsig mixin cols m -> render (f_mg (mixin + 1) cols m) = enc_mgsig m.
Proof.
  intros (Hs & Hl & Hc). unfold f_mg, enc_mgsig. rewrite render_app, render_key by assumption. f_equal.
  apply (render_arr _ _ (enc_list enc_arr) (wf_sized 32 cols wf_key)); [|assumption|assumption].
  intros row (Hr & Hrl & _). now apply (render_arr _ key enc_arr wf_key); [exact render_key| |].
Qed.

Lemma render_rct_base n_in n_out b : wf_rct_base n_in n_out b -> render (f_rct_base n_in n_out b) = enc_rct_base b.
Proof.
  unfold wf_rct_base, f_rct_base, enc_rct_base, enc_rct_type. intros H. rewrite render_cons. cbn [render1].
  change [n2b (rct_type_tag (rb_type b))] with (enc_u8 (rct_type_tag (rb_type b))). f_equal.
  destruct (rb_type b) eqn:Et; cbn [rct_type_eqb] in *; [reflexivity|..];
    destruct H as (Hf & Hp & He & Hel & (Ho & Hol & _));
    rewrite render_cons; cbn [render1]; rewrite <- enc_varint_is_leb; f_equal;
    rewrite !render_app;
    match goal with |- context [arr n_out (f_ecdh ?t) _] =>
      rewrite (render_arr n_out (f_ecdh t) enc_ecdh (wf_ecdh t)) by (assumption || (intros; now apply render_ecdh)) end;
    rewrite (render_arr n_out key enc_arr wf_key) by (assumption || exact render_key);
    try (destruct Hp as (Hp & Hpl & _); rewrite (render_arr n_in key enc_arr wf_key) by (assumption || exact render_key));
    reflexivity.
Qed.

Lemma render_rct_prunable sz t n_in n_out mixin p :
  t <> RNull -> wf_rct_prunable sz t n_in n_out mixin p ->
  render (f_rct_prunable t n_in n_out mixin p) = enc_rct_prunable p t.
Proof.
  intros Ht H. unfold wf_rct_prunable, f_rct_prunable, enc_rct_prunable in *.
  destruct t; try congruence; cbn [is_rct_bp is_rct_bp_plus uses_clsag has_p_pseudo is_simple_or_bp] in *;
    destruct H as (Hp & Hs & Hq); decompose [and] Hp; decompose [and] Hs; rewrite !render_app;
    repeat match goal with
           | Hw : wf_sized _ _ _ _ |- _ => destruct Hw as (? & ? & ?)
           | Hw : wf_vec _ _ _ |- _ => destruct Hw as (? & ? & ?)
           end;
    rewrite ?(render_arr n_out f_rangesig enc_rangesig wf_rangesig) by (assumption || exact render_rangesig);
    rewrite ?(render_counted f_bulletproof enc_bulletproof wf_bulletproof) by (assumption || exact render_bulletproof);
    rewrite ?(render_counted f_bpplus enc_bpplus wf_bpplus) by (assumption || exact render_bpplus);
    rewrite ?(render_arr n_in key enc_arr wf_key) by (assumption || exact render_key);
    rewrite ?(render_arr n_in (f_clsag (mixin + 1)) enc_clsag (wf_clsag mixin)) by (assumption || (intros; now apply render_clsag));
    rewrite ?(render_arr n_in (f_mg (mixin + 1) 2) enc_mgsig (wf_mgsig mixin 2)) by (assumption || (intros; now apply render_mg));
    rewrite ?(render_arr 1 (f_mg (mixin + 1) (n_in + 1)) enc_mgsig (wf_mgsig mixin (1 + n_in)))
      by (assumption || (intros; rewrite (N.add_comm n_in 1); now apply render_mg));
    try reflexivity.
  (* RBulletproof: u32 count *)
  rewrite render_cons. cbn [render1].
  rewrite (render_all f_bulletproof enc_bulletproof wf_bulletproof) by (assumption || exact render_bulletproof).
  match goal with Hb : lenN ?l < 2 ^ 32 |- _ => rewrite (N.mod_small (lenN l) (2 ^ 32)) by exact Hb end.
  reflexivity.
Qed.

(* ---- transaction / block ---------------------------------------------------------------------------------------- *)
Lemma render_v1_sigs ins : forall rows,
  wf_v1_sigs ins rows -> render (f_v1_sigs ins rows) = enc_list (enc_list enc_signature) rows.
Proof.
  induction ins as [|i t IH]; intros rows H.
  - destruct rows; [reflexivity|contradiction].
  - destruct i as [h|a ko ki]; cbn [f_v1_sigs wf_v1_sigs] in *.
    + destruct rows; now apply IH.
    + destruct rows as [|row rest]; [contradiction|]. destruct H as (Hrow & Hl & Hrest).
      rewrite render_app, IH by exact Hrest.
      rewrite (render_arr _ _ enc_signature wf_signature) by (assumption || exact render_signature).
      reflexivity.
Qed.

Lemma spec_mixin_of ins m : mixin_of ins = Some m -> spec_mixin ins = m.
Proof.
  unfold mixin_of, spec_mixin. destruct ins as [|[h|a ko ki] t]; try (intros H; now inversion H).
  destruct (lenN ko =? 0); intros H; now inversion H.
Qed.

Lemma spec_tx_is_enc sz t : wf_tx sz t -> spec_tx t = enc_tx t.
Proof.
  intros H. unfold wf_tx in H. destruct H as [Hp H]. unfold spec_tx, f_tx, enc_tx. rewrite render_app.
  fold (spec_prefix (tx_prefix t)). rewrite (render_prefix sz) by exact Hp. f_equal.
  destruct (version (tx_prefix t) =? 1).
  - destruct H as [Hs _]. now apply render_v1_sigs.
  - destruct H as [_ H]. destruct (inputs (tx_prefix t)) as [|i0 ins] eqn:Ei.
    + cbn in H. rewrite H. reflexivity.
    + replace (lenN (i0 :: ins) =? 0) with false in H by (unfold lenN; cbn [length]; symmetry; apply N.eqb_neq; lia).
      destruct (rct_base_of (tx_rct t)) as [b|]; [|contradiction]. destruct H as [Hb H].
      rewrite render_app, render_rct_base by exact Hb. f_equal.
      destruct (rb_type b) eqn:Et; [rewrite H; reflexivity|..];
        destruct H as (mixin & pr & Hm & -> & Hq); rewrite (spec_mixin_of _ _ Hm);
        apply (render_rct_prunable sz); (congruence || exact Hq).
Qed.

Lemma spec_header_is_enc h : wf_header h -> spec_header h = enc_header h.
Proof.
  intros (H1 & H2 & H3 & H4 & H5). unfold spec_header, f_header, enc_header. rewrite !render_cons, render_nil.
  cbn [render1]. rewrite <- !enc_varint_is_leb, pad_to_exact by exact H4. unfold enc_uint. now rewrite ?app_nil_r, <- ?app_assoc.
Qed.

Lemma spec_block_is_enc sz b : wf_block sz b -> spec_block b = enc_block b.
Proof.
  intros (Hh & Ht & (Hx & _ & _)). unfold spec_block, f_block, enc_block. rewrite !render_app.
  fold (spec_header (blk_header b)). fold (spec_tx (miner_tx b)).
  rewrite spec_header_is_enc, (spec_tx_is_enc sz) by assumption.
  rewrite (render_counted key enc_arr wf_key) by (assumption || exact render_key). reflexivity.
Qed.

(* parsing the specification's bytes yields exactly the described structure *)
Lemma dec_spec_tx sz t r : wf_tx sz t -> dec_tx sz (spec_tx t ++ r) = (Ok t, r).
Proof. intros H. rewrite (spec_tx_is_enc sz) by exact H. now apply (complete_pf (d := dec_tx sz)). Qed.
Lemma dec_spec_block sz b r : wf_block sz b -> dec_block sz (spec_block b ++ r) = (Ok b, r).
Proof. intros H. rewrite (spec_block_is_enc sz) by exact H. now apply (complete_pf (d := dec_block sz)). Qed.
