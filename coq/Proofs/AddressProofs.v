(* AddressProofs.v — the byte, text, hex and consensus forms of an address round-trip, have Monero's layout,
   and nothing but the canonical form is accepted.  Everything is proved for an arbitrary hash H with 32-byte
   output and an arbitrary key-acceptance predicate that implies length 32. *)
From MRS Require Export Model.Address Proofs.Base58Proofs Proofs.NetworkProofs Proofs.VarintProofs.
Open Scope list_scope.
Open Scope N_scope.

(* ------------------------------------------------------------------------------------------------ *)
(* list helpers                                                                                       *)

Lemma firstn_app_exact {A} n (a r : list A) : length a = n -> firstn n (a ++ r) = a.
Proof. intros <-. rewrite firstn_app, Nat.sub_diag, firstn_all. cbn [firstn]. apply app_nil_r. Qed.

Lemma skipn_app_exact {A} n (a r : list A) : length a = n -> skipn n (a ++ r) = r.
Proof. intros <-. rewrite skipn_app, Nat.sub_diag, skipn_all. reflexivity. Qed.

Lemma firstn_plus {A} a k (l : list A) : firstn (a + k) l = firstn a l ++ firstn k (skipn a l).
Proof.
  revert l. induction a as [|a IH]; intros l; [reflexivity|].
  destruct l as [|x l]; [cbn [Nat.add firstn skipn]; now rewrite firstn_nil|].
  cbn [Nat.add firstn skipn app]. now rewrite IH.
Qed.

Lemma skipn_plus {A} a k (l : list A) : skipn (a + k) l = skipn k (skipn a l).
Proof.
  revert l. induction a as [|a IH]; intros l; [reflexivity|].
  destruct l as [|x l]; [cbn [Nat.add skipn]; now rewrite skipn_nil|].
  cbn [Nat.add skipn]. apply IH.
Qed.

Lemma slice_ok {A} (l : list A) a b : (a <= b)%nat -> (b <= length l)%nat ->
  slice l a b = Ok (firstn (b - a) (skipn a l)).
Proof.
  intros H1 H2. unfold slice. apply Nat.leb_le in H1, H2. now rewrite H1, H2.
Qed.

Lemma slice_inv {A} (l : list A) a b x : slice l a b = Ok x ->
  x = firstn (b - a) (skipn a l) /\ (a <= b <= length l)%nat.
Proof.
  unfold slice. destruct (Nat.leb_spec a b) as [L1|L1], (Nat.leb_spec b (length l)) as [L2|L2];
    cbn [andb]; try discriminate.
  intros Hx. injection Hx as <-. split; [reflexivity|lia].
Qed.

Lemma slice_not_err {A} (l : list A) a b e : slice l a b <> Err e.
Proof. unfold slice. destruct (_ && _); discriminate. Qed.

Lemma beqb_eq a b : beqb a b = true <-> a = b.
Proof.
  revert b. induction a as [|x a IH]; intros [|y b]; cbn [beqb]; split; try discriminate; try reflexivity.
  - intros H. apply andb_prop in H. destruct H as [H1 H2]. apply Byte.byte_dec_bl in H1. apply IH in H2. congruence.
  - intros H. injection H as -> ->. rewrite (Byte.byte_dec_lb (eq_refl y)). cbn [andb]. now apply IH.
Qed.

(* ------------------------------------------------------------------------------------------------ *)
(* hex                                                                                                *)

Lemma hex_val_char n : n < 16 -> hex_val (hex_char n) = Some n.
Proof.
  intros H. rewrite <- (N2Nat.id n). assert (Hn : (N.to_nat n < 16)%nat) by lia.
  generalize dependent (N.to_nat n). clear H n. intros n Hn.
  do 16 (destruct n as [|n]; [vm_compute; reflexivity|]). lia.
Qed.

Lemma hex_char_not_x n : n < 16 -> hex_char n <> x78.
Proof.
  intros H. rewrite <- (N2Nat.id n). assert (Hn : (N.to_nat n < 16)%nat) by lia.
  generalize dependent (N.to_nat n). clear H n. intros n Hn.
  do 16 (destruct n as [|n]; [vm_compute; discriminate|]). lia.
Qed.

Lemma hex_decode_encode b : hex_decode (hex_encode b) = Some b.
Proof.
  induction b as [|x b IH]; [reflexivity|].
  cbn [hex_encode hex_decode]. pose proof (b2n_lt x) as Hx.
  rewrite !hex_val_char, IH.
  - f_equal. f_equal. rewrite <- (n2b_b2n x) at 3. f_equal. pose proof (N.div_mod' (b2n x) 16). lia.
  - apply N.mod_lt. lia.
  - apply N.div_lt_upper_bound; lia.
Qed.

Lemma strip_0x_hex_encode b : strip_0x (hex_encode b) = hex_encode b.
Proof.
  destruct b as [|x b]; [reflexivity|]. cbn [hex_encode]. unfold strip_0x.
  pose proof (hex_char_not_x (b2n x mod 16) ltac:(apply N.mod_lt; lia)) as Hn.
  destruct (hex_char (b2n x / 16)); try reflexivity.
  destruct (hex_char (b2n x mod 16)); try reflexivity. congruence.
Qed.

(* ------------------------------------------------------------------------------------------------ *)
(* Vec<u8>: `rep n read_u8` takes exactly n bytes or fails at the end of input                        *)

Definition take (k : nat) (s : bytes) : res bytes * bytes :=
  if Nat.leb k (length s) then (Ok (firstn k s), skipn k s) else (Err EEof, []).

Lemma rep_pos_read_u8 p : forall s, rep_pos p read_u8 s = take (Pos.to_nat p) s.
Proof.
  induction p as [q IH|q IH|]; intros s.
  - (* xI *) rewrite Pos2Nat.inj_xI. cbn [rep_pos]. unfold bind at 1. unfold read_u8 at 1.
    destruct s as [|b t]; [reflexivity|]. unfold bind at 1. rewrite IH. unfold take at 1.
    destruct (Nat.leb_spec (Pos.to_nat q) (length t)) as [L|L].
    + unfold bind at 1. rewrite IH. unfold take at 1. rewrite skipn_length.
      destruct (Nat.leb_spec (Pos.to_nat q) (length t - Pos.to_nat q)) as [L2|L2].
      * unfold ret, take. cbn [length].
        replace (Nat.leb (S (2 * Pos.to_nat q)) (S (length t))) with true by (symmetry; apply Nat.leb_le; lia).
        replace (2 * Pos.to_nat q)%nat with (Pos.to_nat q + Pos.to_nat q)%nat by lia.
        cbn [firstn skipn]. now rewrite firstn_plus, skipn_plus.
      * unfold take. cbn [length].
        replace (Nat.leb (S (2 * Pos.to_nat q)) (S (length t))) with false by (symmetry; apply Nat.leb_gt; lia).
        reflexivity.
    + unfold take. cbn [length].
      replace (Nat.leb (S (2 * Pos.to_nat q)) (S (length t))) with false by (symmetry; apply Nat.leb_gt; lia).
      reflexivity.
  - (* xO *) rewrite Pos2Nat.inj_xO. cbn [rep_pos]. unfold bind at 1. rewrite IH. unfold take at 1.
    destruct (Nat.leb_spec (Pos.to_nat q) (length s)) as [L|L].
    + unfold bind at 1. rewrite IH. unfold take at 1. rewrite skipn_length.
      destruct (Nat.leb_spec (Pos.to_nat q) (length s - Pos.to_nat q)) as [L2|L2].
      * unfold ret, take.
        replace (Nat.leb (2 * Pos.to_nat q) (length s)) with true by (symmetry; apply Nat.leb_le; lia).
        replace (2 * Pos.to_nat q)%nat with (Pos.to_nat q + Pos.to_nat q)%nat by lia.
        now rewrite firstn_plus, skipn_plus.
      * unfold take.
        replace (Nat.leb (2 * Pos.to_nat q) (length s)) with false by (symmetry; apply Nat.leb_gt; lia).
        reflexivity.
    + unfold take.
      replace (Nat.leb (2 * Pos.to_nat q) (length s)) with false by (symmetry; apply Nat.leb_gt; lia).
      reflexivity.
  - (* xH *) cbn [rep_pos]. unfold bind, read_u8, ret, take. destruct s as [|b t]; reflexivity.
Qed.

Lemma rep_read_u8 n s : rep n read_u8 s = take (N.to_nat n) s.
Proof.
  destruct n as [|p]; [unfold rep, ret, take; cbn; reflexivity|].
  cbn [rep N.to_nat]. apply rep_pos_read_u8.
Qed.

Lemma take_app v r : take (length v) (v ++ r) = (Ok v, r).
Proof.
  unfold take. rewrite app_length.
  replace (Nat.leb (length v) (length v + length r)) with true by (symmetry; apply Nat.leb_le; lia).
  now rewrite firstn_app_exact, skipn_app_exact.
Qed.

Lemma take_inv k s v r : take k s = (Ok v, r) -> s = v ++ r /\ length v = k.
Proof.
  unfold take. destruct (Nat.leb_spec k (length s)) as [L|L]; [|discriminate].
  intros H. injection H as <- <-. split; [symmetry; apply firstn_skipn|].
  rewrite firstn_length. lia.
Qed.

(* ------------------------------------------------------------------------------------------------ *)
Section WithHash.
  Variable H : bytes -> bytes.
  Variable valid_pk : bytes -> bool.
  Hypothesis H_len : forall m, length (H m) = 32%nat.
  Hypothesis valid_len : forall k, valid_pk k = true -> length k = 32%nat.

  Definition pid_of (t : addr_type) : bytes := match t with Integrated pid => pid | _ => [] end.

  (* what a caller must respect when building an Address by hand: keys that PublicKey::from_slice accepts and
     (automatic in Rust, PaymentId is [u8; 8]) an 8-byte payment id *)
  Definition wf_addr (a : addr) : Prop :=
    valid_pk (a_spend a) = true /\ valid_pk (a_view a) = true /\
    match a_type a with Integrated pid => length pid = 8%nat | _ => True end.

  Lemma as_bytes_layout a :
    addr_as_bytes H a =
    n2b (net_as_u8 (a_net a) (a_type a)) :: a_spend a ++ a_view a ++ pid_of (a_type a) ++
      firstn 4 (H (n2b (net_as_u8 (a_net a) (a_type a)) :: a_spend a ++ a_view a ++ pid_of (a_type a))).
  Proof.
    unfold addr_as_bytes, payload. fold (pid_of (a_type a)). cbn [app]. now rewrite <- !app_assoc.
  Qed.

  Lemma as_bytes_length a : wf_addr a ->
    length (addr_as_bytes H a) = match a_type a with Integrated _ => 77%nat | _ => 69%nat end.
  Proof.
    intros (HS & HV & HP). rewrite as_bytes_layout. cbn [length]. rewrite !app_length, firstn_length, H_len.
    rewrite (valid_len _ HS), (valid_len _ HV). destruct (a_type a); cbn [pid_of length]; try rewrite HP; reflexivity.
  Qed.

  (* ---- parse (format a) = a ------------------------------------------------------------------- *)
  Lemma from_as_bytes a : wf_addr a -> addr_from_bytes H valid_pk (addr_as_bytes H a) = Ok a.
  Proof.
    intros Hwf. pose proof (as_bytes_length a Hwf) as Hlen. destruct Hwf as (HS & HV & HP).
    pose proof (valid_len _ HS) as LS. pose proof (valid_len _ HV) as LV.
    destruct a as [net ty SK VK]. cbn [a_net a_type a_spend a_view] in *.
    set (P := pid_of ty). set (tag := n2b (net_as_u8 net ty)).
    set (body := tag :: SK ++ VK ++ P).
    assert (LP : length P = match ty with Integrated _ => 8%nat | _ => 0%nat end).
    { unfold P. destruct ty; cbn [pid_of length]; auto. }
    assert (LC : length (firstn 4 (H body)) = 4%nat) by (rewrite firstn_length, H_len; reflexivity).
    assert (Lbody : length body = match ty with Integrated _ => 73%nat | _ => 65%nat end).
    { unfold body. cbn [length]. rewrite !app_length, LS, LV, LP. destruct ty; reflexivity. }
    assert (Eb1 : addr_as_bytes H (mkaddr net ty SK VK) = body ++ firstn 4 (H body)) by reflexivity.
    assert (Eb2 : addr_as_bytes H (mkaddr net ty SK VK) = tag :: SK ++ VK ++ P ++ firstn 4 (H body)).
    { rewrite Eb1. unfold body. cbn [app]. now rewrite <- !app_assoc. }
    set (b := addr_as_bytes H (mkaddr net ty SK VK)) in *.
    assert (K1 : firstn 32 (skipn 1 b) = SK).
    { rewrite Eb2. cbn [skipn]. now apply firstn_app_exact. }
    assert (K2 : firstn 32 (skipn 33 b) = VK).
    { rewrite Eb2. change 33%nat with (S 32). rewrite skipn_cons, skipn_app_exact by assumption.
      now apply firstn_app_exact. }
    assert (K3 : skipn 65 b = P ++ firstn 4 (H body)).
    { rewrite Eb2. change 65%nat with (S (32 + 32)). rewrite skipn_cons, skipn_plus.
      rewrite skipn_app_exact by assumption. now apply skipn_app_exact. }
    assert (K4 : firstn (length b - 4) b = body).
    { rewrite Eb1. apply firstn_app_exact. rewrite app_length, LC. lia. }
    assert (K5 : skipn (length b - 4) b = firstn 4 (H body)).
    { rewrite Eb1. apply skipn_app_exact. rewrite app_length, LC. lia. }
    unfold addr_from_bytes.
    replace (Nat.eqb (length b) 0) with false by (symmetry; apply Nat.eqb_neq; destruct ty; lia).
    replace (Nat.ltb (length b) 65) with false by (symmetry; apply Nat.ltb_ge; destruct ty; lia).
    cbn [orb]. destruct b as [|b0 r] eqn:Eb; [destruct ty; cbn in Hlen; lia|].
    injection Eb2 as -> Er. clear Er.
    unfold tag at 1. rewrite b2n_n2b_small by (destruct net, ty; cbn; lia). rewrite from_as.
    assert (Hty : atype_from_slice (tag :: r) net = Ok ty).
    { unfold tag. apply atype_accepts_own_tag. destruct ty as [|pid|]; auto. split.
      - cbn [length] in Hlen. lia.
      - change 65%nat with (S 64) in K3. rewrite skipn_cons in K3. rewrite K3.
        symmetry. apply firstn_app_exact. exact HP. }
    rewrite Hty. cbn [rbind]. clear Eb. clear b. set (b := tag :: r) in *.
    unfold key_at. rewrite !slice_ok by (destruct ty; lia).
    change (33 - 1)%nat with 32%nat. change (65 - 33)%nat with 32%nat. cbn [rbind].
    rewrite K1, HS. cbn [rbind]. rewrite K2, HV. cbn [rbind].
    set (want := match ty with Integrated _ => 77%nat | _ => 69%nat end) in *.
    replace (Nat.eqb (length b) want) with true by (symmetry; apply Nat.eqb_eq; exact Hlen). cbn [negb].
    rewrite !slice_ok by (rewrite ?H_len; destruct ty; subst want; lia).
    cbn [rbind]. rewrite !Nat.sub_0_r. cbn [skipn].
    replace (want - (want - 4))%nat with 4%nat by (destruct ty; subst want; lia).
    rewrite <- Hlen, K4, K5.
    rewrite (firstn_all2 (n := 4) (firstn 4 (H body))) by (rewrite LC; lia).
    replace (beqb (firstn 4 (H body)) (firstn 4 (H body))) with true by (symmetry; now apply beqb_eq).
    reflexivity.
  Qed.

  (* ---- parse b = a  implies  b = format a ------------------------------------------------------ *)
  Lemma from_bytes_canonical b a : addr_from_bytes H valid_pk b = Ok a -> addr_as_bytes H a = b /\ wf_addr a.
  Proof.
    unfold addr_from_bytes.
    destruct (Nat.eqb_spec (length b) 0) as [L0|L0]; [discriminate|].
    destruct (Nat.ltb_spec (length b) 65) as [L65|L65]; [discriminate|]. cbn [orb].
    destruct b as [|b0 r] eqn:Eb; [discriminate|]. rewrite <- Eb.
    destruct (net_from_u8 (b2n b0)) as [net|] eqn:En; [|discriminate].
    destruct (atype_from_slice b net) as [ty|e|] eqn:Et; cbn [rbind]; try discriminate.
    unfold key_at.
    destruct (slice b 1 33) as [sp|e|] eqn:E1; cbn [rbind]; try discriminate.
    destruct (valid_pk sp) eqn:V1; cbn [rbind]; try discriminate.
    destruct (slice b 33 65) as [vw|e|] eqn:E2; cbn [rbind]; try discriminate.
    destruct (valid_pk vw) eqn:V2; cbn [rbind]; try discriminate.
    set (want := match ty with Integrated _ => 77%nat | _ => 69%nat end).
    destruct (Nat.eqb_spec (length b) want) as [Lw|Lw]; cbn [negb]; [|discriminate].
    destruct (slice b 0 (want - 4)) as [cb|e|] eqn:E3; cbn [rbind]; try discriminate.
    destruct (slice b (want - 4) want) as [ck|e|] eqn:E4; cbn [rbind]; try discriminate.
    destruct (slice (H cb) 0 4) as [vc|e|] eqn:E5; cbn [rbind]; try discriminate.
    destruct (beqb vc ck) eqn:Eq; [|discriminate]. intros Ha. injection Ha as <-.
    apply beqb_eq in Eq. subst vc.
    apply slice_inv in E1, E2, E3, E4, E5.
    destruct E1 as [-> _], E2 as [-> _], E3 as [-> _], E4 as [-> _], E5 as [E5 _].
    change (33 - 1)%nat with 32%nat in *. change (65 - 33)%nat with 32%nat in *.
    rewrite !Nat.sub_0_r in *. cbn [skipn] in E5.
    replace (want - (want - 4))%nat with 4%nat in * by (destruct ty; subst want; lia).
    apply atype_ok_kind in Et. destruct Et as (b0' & r' & Eb' & Htag & Hpid).
    rewrite Eb in Eb'. injection Eb' as <- <-.
    assert (Hpayload : payload (mkaddr net ty (firstn 32 (skipn 1 b)) (firstn 32 (skipn 33 b)))
                       = firstn (want - 4) b).
    { unfold payload. cbn [a_net a_type a_spend a_view]. rewrite <- Htag, n2b_b2n.
      assert (E65 : firstn 65 b = b0 :: firstn 32 (skipn 1 b) ++ firstn 32 (skipn 33 b)).
      { change 65%nat with (1 + (32 + 32))%nat. rewrite (firstn_plus 1), (firstn_plus 32).
        rewrite <- skipn_plus. rewrite Eb at 1. reflexivity. }
      destruct ty as [|pid|]; subst want.
      - change (69 - 4)%nat with 65%nat. rewrite E65, app_nil_r. reflexivity.
      - destruct Hpid as [_ ->]. change (77 - 4)%nat with (65 + 8)%nat.
        rewrite (firstn_plus 65), E65. cbn [app]. now rewrite <- app_assoc.
      - change (69 - 4)%nat with 65%nat. rewrite E65, app_nil_r. reflexivity. }
    split.
    - unfold addr_as_bytes. rewrite Hpayload, <- E5.
      transitivity (firstn (want - 4) b ++ skipn (want - 4) b); [|apply firstn_skipn].
      f_equal. apply firstn_all2. rewrite skipn_length. lia.
    - unfold wf_addr. cbn [a_spend a_view a_type]. repeat split; try assumption.
      destruct ty as [|pid|]; auto. destruct Hpid as [_ ->].
      rewrite firstn_length, skipn_length. subst want. lia.
  Qed.

  Lemma from_bytes_never_panics b : addr_from_bytes H valid_pk b <> Panic.
  Proof.
    unfold addr_from_bytes.
    destruct (Nat.eqb_spec (length b) 0) as [L0|L0]; [discriminate|].
    destruct (Nat.ltb_spec (length b) 65) as [L65|L65]; [discriminate|]. cbn [orb].
    destruct b as [|b0 r] eqn:Eb; [cbn in L0; congruence|]. rewrite <- Eb in *.
    destruct (net_from_u8 (b2n b0)) as [net|]; [|discriminate].
    pose proof (atype_never_panics b net) as Hnp.
    destruct (atype_from_slice b net) as [ty|e|]; cbn [rbind]; [|discriminate|congruence].
    unfold key_at. rewrite !slice_ok by lia. cbn [rbind].
    destruct (valid_pk _); cbn [rbind]; [|discriminate].
    destruct (valid_pk _); cbn [rbind]; [|discriminate].
    set (want := match ty with Integrated _ => 77%nat | _ => 69%nat end).
    destruct (Nat.eqb_spec (length b) want) as [Lw|Lw]; cbn [negb]; [|discriminate].
    rewrite !slice_ok by (destruct ty; subst want; lia). cbn [rbind].
    rewrite slice_ok by (rewrite ?H_len; lia). cbn [rbind].
    destruct (beqb _ _); discriminate.
  Qed.

  (* exact acceptance: a blob is accepted iff it is the canonical blob of a well-formed address *)
  Lemma from_bytes_iff b a : addr_from_bytes H valid_pk b = Ok a <-> (wf_addr a /\ b = addr_as_bytes H a).
  Proof.
    split.
    - intros Hb. apply from_bytes_canonical in Hb. destruct Hb as [<- Hw]. auto.
    - intros [Hw ->]. now apply from_as_bytes.
  Qed.

  (* ---- text ----------------------------------------------------------------------------------- *)
  Lemma to_string_never_panics a : exists s, addr_to_string H a = Ok s /\ b58_encode (addr_as_bytes H a) = Ok s.
  Proof.
    unfold addr_to_string. destruct (b58_encode_never_fails (addr_as_bytes H a)) as [s Hs].
    exists s. now rewrite Hs.
  Qed.

  Lemma from_to_string a : wf_addr a ->
    exists s, addr_to_string H a = Ok s /\ addr_from_str H valid_pk s = Ok a.
  Proof.
    intros Hw. unfold addr_to_string, addr_from_str.
    destruct (b58_decode_encode (addr_as_bytes H a)) as (s & He & Hd).
    exists s. rewrite He, Hd. cbn [rbind]. split; [reflexivity|now apply from_as_bytes].
  Qed.

  Lemma from_str_canonical s a : addr_from_str H valid_pk s = Ok a -> addr_to_string H a = Ok s /\ wf_addr a.
  Proof.
    unfold addr_from_str, addr_to_string.
    destruct (b58_decode s) as [b|e|] eqn:Ed; cbn [rbind]; try discriminate.
    intros Hb. apply from_bytes_canonical in Hb. destruct Hb as [<- Hw].
    apply b58_encode_decode in Ed. now rewrite Ed.
  Qed.

  Lemma from_str_never_panics s : addr_from_str H valid_pk s <> Panic.
  Proof.
    unfold addr_from_str. pose proof (b58_decode_never_panics s).
    destruct (b58_decode s) as [b|e|]; cbn [rbind]; [apply from_bytes_never_panics|discriminate|congruence].
  Qed.

  (* 95 characters, 106 with a payment id *)
  Lemma to_string_length a s : wf_addr a -> addr_to_string H a = Ok s ->
    length s = match a_type a with Integrated _ => 106%nat | _ => 95%nat end.
  Proof.
    intros Hw. unfold addr_to_string. destruct (b58_encode (addr_as_bytes H a)) as [x|e|] eqn:E; try discriminate.
    intros Hs. injection Hs as <-. apply b58_encode_length in E. rewrite E, (as_bytes_length a Hw).
    destruct (a_type a); reflexivity.
  Qed.

  (* ---- hex ------------------------------------------------------------------------------------ *)
  Lemma from_as_hex a : wf_addr a ->
    addr_from_hex H valid_pk (addr_as_hex H a) = Ok a /\
    addr_from_hex H valid_pk (x30 :: x78 :: addr_as_hex H a) = Ok a.
  Proof.
    intros Hw. unfold addr_from_hex, addr_as_hex. split.
    - rewrite strip_0x_hex_encode, hex_decode_encode. now apply from_as_bytes.
    - cbn [strip_0x]. rewrite hex_decode_encode. now apply from_as_bytes.
  Qed.

  Lemma from_hex_canonical s a : addr_from_hex H valid_pk s = Ok a ->
    hex_decode (strip_0x s) = Some (addr_as_bytes H a) /\ wf_addr a.
  Proof.
    unfold addr_from_hex. destruct (hex_decode (strip_0x s)) as [b|]; [|discriminate].
    intros Hb. apply from_bytes_canonical in Hb. destruct Hb as [<- Hw]. auto.
  Qed.

  Lemma from_hex_never_panics s : addr_from_hex H valid_pk s <> Panic.
  Proof.
    unfold addr_from_hex. destruct (hex_decode _); [apply from_bytes_never_panics|discriminate].
  Qed.

  (* ---- consensus ------------------------------------------------------------------------------ *)
  Lemma deserialize_encode a : wf_addr a ->
    addr_deserialize H valid_pk (addr_consensus_encode H a) = Ok a.
  Proof.
    intros Hw. pose proof (as_bytes_length a Hw) as Hl.
    unfold addr_deserialize, addr_consensus_encode, addr_consensus_decode, dec_vec_u8.
    set (b := addr_as_bytes H a) in *.
    assert (Hn : lenN b < 2 ^ 64) by (unfold lenN; rewrite Hl; destruct (a_type a); vm_compute; reflexivity).
    rewrite N.mod_small by exact Hn. rewrite <- (app_nil_r b) at 2.
    unfold bind at 1. unfold bind at 1. rewrite dec_enc_varint by exact Hn.
    replace (33554432 <? lenN b) with false
      by (symmetry; apply N.ltb_ge; unfold lenN; rewrite Hl; destruct (a_type a); vm_compute; discriminate).
    rewrite rep_read_u8. unfold lenN. rewrite Nat2N.id, take_app.
    unfold b. now rewrite from_as_bytes.
  Qed.

  Lemma deserialize_canonical b a : addr_deserialize H valid_pk b = Ok a ->
    addr_consensus_encode H a = b /\ wf_addr a.
  Proof.
    unfold addr_deserialize, addr_consensus_decode, dec_vec_u8. unfold bind at 1. unfold bind at 1.
    destruct (dec_varint b) as [[n|e|] r] eqn:Ev; try discriminate.
    apply dec_varint_sound in Ev. destruct Ev as [Hn ->].
    destruct (N.ltb_spec 33554432 n) as [Lb|Lb]; [discriminate|].
    rewrite rep_read_u8. destruct (take (N.to_nat n) r) as [[v|e|] r'] eqn:Et; try discriminate.
    apply take_inv in Et. destruct Et as [-> Lv].
    destruct (addr_from_bytes H valid_pk v) as [a'|e|] eqn:Ea; try discriminate.
    destruct r' as [|x r']; [|discriminate]. intros Ha. injection Ha as ->.
    apply from_bytes_canonical in Ea. destruct Ea as [<- Hw]. split; [|assumption].
    unfold addr_consensus_encode. rewrite app_nil_r. unfold lenN. rewrite Lv, N2Nat.id.
    now rewrite N.mod_small.
  Qed.

  Lemma deserialize_never_panics b : addr_deserialize H valid_pk b <> Panic.
  Proof.
    unfold addr_deserialize, addr_consensus_decode, dec_vec_u8. unfold bind at 1. unfold bind at 1.
    pose proof (dec_varint_never_panics b) as Hv.
    destruct (dec_varint b) as [[n|e|] r] eqn:Ev; [|discriminate|exfalso; now apply (Hv r)].
    destruct (33554432 <? n); [discriminate|].
    rewrite rep_read_u8. unfold take. destruct (Nat.leb _ _); [|discriminate].
    pose proof (from_bytes_never_panics (firstn (N.to_nat n) r)) as Hp.
    destruct (addr_from_bytes H valid_pk _); [destruct (skipn _ _); discriminate|discriminate|congruence].
  Qed.
  (* ---- corruption: anything accepted is canonical, so a changed blob is refused or is another address ---- *)
  Lemma kind_of_same_length a a' : wf_addr a -> wf_addr a' ->
    hd x00 (addr_as_bytes H a) = hd x00 (addr_as_bytes H a') ->
    length (addr_as_bytes H a) = length (addr_as_bytes H a') /\ a_net a = a_net a'.
  Proof.
    intros Hw Hw' Hh. rewrite !as_bytes_length by assumption. rewrite !as_bytes_layout in Hh. cbn [hd] in Hh.
    apply n2b_inj_small in Hh; try (destruct (a_net a), (a_type a); cbn; lia);
      try (destruct (a_net a'), (a_type a'); cbn; lia).
    apply as_u8_injective in Hh. destruct Hh as [Hn Hk]. split; [|assumption].
    destruct (a_type a), (a_type a'); cbn in Hk; try discriminate; reflexivity.
  Qed.

  Lemma trailing_rejected a x r a' : wf_addr a ->
    addr_from_bytes H valid_pk (addr_as_bytes H a ++ x :: r) <> Ok a'.
  Proof.
    intros Hw Hb. apply from_bytes_canonical in Hb. destruct Hb as [Hb Hw'].
    assert (Hh : hd x00 (addr_as_bytes H a) = hd x00 (addr_as_bytes H a')).
    { rewrite Hb. rewrite (as_bytes_layout a). reflexivity. }
    destruct (kind_of_same_length a a' Hw Hw' Hh) as [Hl _].
    rewrite Hb, app_length in Hl. cbn [length] in Hl. lia.
  Qed.

  Lemma truncation_rejected a k a' : wf_addr a -> (k < length (addr_as_bytes H a))%nat ->
    addr_from_bytes H valid_pk (firstn k (addr_as_bytes H a)) <> Ok a'.
  Proof.
    intros Hw Hk Hb. pose proof Hb as Hb0. apply from_bytes_canonical in Hb. destruct Hb as [Hb Hw'].
    destruct k as [|k]; [cbn in Hb0; discriminate|].
    assert (Hh : hd x00 (addr_as_bytes H a) = hd x00 (addr_as_bytes H a')).
    { rewrite Hb. rewrite (as_bytes_layout a). reflexivity. }
    destruct (kind_of_same_length a a' Hw Hw' Hh) as [Hl _].
    rewrite Hb, firstn_length in Hl. lia.
  Qed.

  Lemma corruption b a a' : wf_addr a -> b <> addr_as_bytes H a ->
    addr_from_bytes H valid_pk b = Ok a' -> a' <> a /\ addr_as_bytes H a' = b /\ wf_addr a'.
  Proof.
    intros Hw Hne Hb. apply from_bytes_canonical in Hb. destruct Hb as [Hb Hw'].
    split; [|split; assumption]. intros ->. congruence.
  Qed.

  Lemma wrong_length_rejected b : length b <> 69%nat -> length b <> 77%nat ->
    exists e, addr_from_bytes H valid_pk b = Err e.
  Proof.
    intros H69 H77. destruct (addr_from_bytes H valid_pk b) as [a|e|] eqn:E.
    - apply from_bytes_canonical in E. destruct E as [<- Hw]. rewrite as_bytes_length in * by assumption.
      destruct (a_type a); congruence.
    - eauto.
    - exfalso. now apply (from_bytes_never_panics b).
  Qed.

  Lemma unknown_tag_rejected b0 r : net_from_u8 (b2n b0) = None ->
    exists e, addr_from_bytes H valid_pk (b0 :: r) = Err e.
  Proof.
    intros Hn. unfold addr_from_bytes. destruct (_ || _); [eauto|]. rewrite Hn. eauto.
  Qed.
End WithHash.

(* ------------------------------------------------------------------------------------------------ *)
(* the two executable instances satisfy the side conditions                                          *)
From MRS Require Import Model.Keccak Model.Ed25519.

Lemma pk_valid_length32 k : pk_valid k = true -> length k = 32%nat.
Proof.
  unfold pk_valid, decompress. destruct (Nat.eqb_spec (length k) 32) as [E|E]; [auto|].
  cbn [negb]. discriminate.
Qed.

Lemma keccak_round_length a rc : length (keccak_round a rc) = 25%nat.
Proof.
  unfold keccak_round, iota, chi. set (f := fun i : nat => _).
  change (map f range25) with (f 0%nat :: map f (seq 1 24)). cbn [length].
  rewrite map_length, seq_length. reflexivity.
Qed.

Lemma fold_rounds_length rcs : forall a, length a = 25%nat -> length (fold_left keccak_round rcs a) = 25%nat.
Proof.
  induction rcs as [|rc t IH]; intros a Ha; [exact Ha|]. cbn [fold_left]. apply IH, keccak_round_length.
Qed.

Lemma keccak_f_length a : length a = 25%nat -> length (keccak_f a) = 25%nat.
Proof. apply fold_rounds_length. Qed.

Lemma xor_lanes_length st : forall blk, length (xor_lanes st blk) = length st.
Proof.
  induction st as [|s st IH]; intros blk; [reflexivity|].
  destruct blk as [|b blk]; [reflexivity|]. cbn [xor_lanes length]. now rewrite IH.
Qed.

Lemma absorb_length fuel : forall st m, length st = 25%nat -> length (absorb fuel st m) = 25%nat.
Proof.
  induction fuel as [|f IH]; intros st m Hst; [exact Hst|].
  cbn [absorb]. destruct m as [|x m]; [exact Hst|].
  apply IH, keccak_f_length. now rewrite xor_lanes_length.
Qed.

Lemma flat_map_n2le8_length l : length (flat_map (n2le 8) l) = (8 * length l)%nat.
Proof.
  induction l as [|x l IH]; [reflexivity|].
  cbn [flat_map]. rewrite app_length, IH, n2le_length. cbn [length]. lia.
Qed.

Lemma keccak256_length32 m : length (keccak256 m) = 32%nat.
Proof.
  unfold keccak256. rewrite flat_map_n2le8_length, firstn_length, absorb_length; [reflexivity|].
  apply repeat_length.
Qed.
