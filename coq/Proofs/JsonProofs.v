(* JsonProofs.v — round trips through the serde / JSON data model of Model/Json.v.
   The well-formedness predicates say no more than "the value inhabits the Rust type": integers in the range of their
   width, byte arrays of their fixed length.  No structural consistency between the parts of a transaction is needed. *)
From MRS Require Export Proofs.BaseProofs Model.Json.
From MRS Require Import Proofs.AmountProofs Proofs.AddressProofs Proofs.Base58Proofs.
From Coq Require Import String Ascii.
Open Scope list_scope.
Open Scope N_scope.

(* ---- member lookup on literal member lists: computed, leaving the member values untouched ------------------- *)
Ltac jfields :=
  repeat match goal with
  | |- context [get_field ?k ?l] =>
      let r := eval cbv beta iota delta [get_field String.eqb Ascii.eqb Bool.eqb andb] in (get_field k l) in
      change (get_field k l) with r
  end.
Ltac jname :=
  repeat match goal with
  | |- context [String.eqb ?a ?b] =>
      let r := eval cbv beta iota delta [String.eqb Ascii.eqb Bool.eqb andb] in (String.eqb a b) in
      change (String.eqb a b) with r
  end.
(* open a struct reader applied to the object written by the struct writer *)
Ltac jopen := cbn [struct_fields variant_of obind]; unfold req, opt_field; jfields; jname; cbv beta iota.

(* ---- generic ---------------------------------------------------------------------------------------------------- *)
Lemma mapM_map {A B} (to : A -> B) (of : B -> option A) (l : list A) :
  Forall (fun x => of (to x) = Some x) l -> mapM of (map to l) = Some l.
Proof.
  induction 1 as [|x l Hx _ IH]; [reflexivity|]. cbn [map mapM]. rewrite Hx. cbn [obind]. rewrite IH. reflexivity.
Qed.

Lemma list_rt {A} (wf : A -> Prop) (to : A -> json) (of : json -> option A) (l : list A) :
  (forall x, wf x -> of (to x) = Some x) -> Forall wf l -> of_json_list of (to_json_list to l) = Some l.
Proof.
  intros Hrt Hl. unfold of_json_list, to_json_list. apply mapM_map. eapply Forall_impl; [|exact Hl]. exact Hrt.
Qed.

Lemma option_rt {A} (wf : A -> Prop) (to : A -> json) (of : json -> option A) (o : option A) :
  (forall x, wf x -> of (to x) = Some x) -> (forall x, to x <> JNull) ->
  match o with Some x => wf x | None => True end ->
  of_json_option of (to_json_option to o) = Some o.
Proof.
  intros Hrt Hnn Ho. destruct o as [x|]; [|reflexivity]. cbn [to_json_option]. unfold of_json_option.
  specialize (Hnn x). destruct (to x) eqn:E; try (rewrite <- E, Hrt by exact Ho; reflexivity). now elim Hnn.
Qed.

(* ---- integers ------------------------------------------------------------------------------------------------------ *)
Lemma uint_rt (bound : Z) (n : N) : (Z.of_N n < bound)%Z -> of_json_uint bound (to_json_N n) = Some n.
Proof.
  intros Hn. unfold of_json_uint, to_json_N.
  destruct (Z.leb_spec 0 (Z.of_N n)) as [_|Hneg]; [|lia].
  destruct (Z.ltb_spec (Z.of_N n) bound) as [_|Hge]; [|lia]. cbn [andb]. now rewrite N2Z.id.
Qed.

Definition u64 (n : N) : Prop := n < 2 ^ 64.
Definition u32 (n : N) : Prop := n < 2 ^ 32.
Definition u8 (n : N) : Prop := n < 2 ^ 8.

Lemma u64_rt n : u64 n -> of_json_u64 (to_json_N n) = Some n.
Proof. unfold u64. intros Hn. apply uint_rt. change (2 ^ 64)%Z with (Z.of_N (2 ^ 64)). lia. Qed.
Lemma u32_rt n : u32 n -> of_json_u32 (to_json_N n) = Some n.
Proof. unfold u32. intros Hn. apply uint_rt. change (2 ^ 32)%Z with (Z.of_N (2 ^ 32)). lia. Qed.
Lemma u8_rt n : u8 n -> of_json_u8 (to_json_N n) = Some n.
Proof. unfold u8. intros Hn. apply uint_rt. change (2 ^ 8)%Z with (Z.of_N (2 ^ 8)). lia. Qed.

(* ---- bytes ---------------------------------------------------------------------------------------------------------- *)
Lemma byte_rt b : of_json_byte (to_json_byte b) = Some b.
Proof.
  unfold of_json_byte, to_json_byte. rewrite u8_rt by (unfold u8; pose proof (b2n_lt b); lia).
  cbn [option_map]. now rewrite n2b_b2n.
Qed.

Lemma bytes_rt b : of_json_bytes (to_json_bytes b) = Some b.
Proof.
  unfold of_json_bytes, to_json_bytes. apply (list_rt (fun _ => True)); [intros x _; apply byte_rt|].
  apply Forall_forall. trivial.
Qed.

Lemma arr_rt n b : List.length b = n -> of_json_arr n (to_json_bytes b) = Some b.
Proof. intros Hl. unfold of_json_arr. rewrite bytes_rt. cbn [obind]. now rewrite Hl, Nat.eqb_refl. Qed.

Definition is_key (k : bytes) : Prop := List.length k = 32%nat.
Definition is_hash8 (k : bytes) : Prop := List.length k = 8%nat.
Definition is_key64 (k : bytes) : Prop := List.length k = 2048%nat.

Lemma hash_rt k : is_key k -> of_json_hash (to_json_hash k) = Some k.
Proof. apply arr_rt. Qed.
Lemma hash8_rt k : is_hash8 k -> of_json_hash8 (to_json_hash k) = Some k.
Proof. apply arr_rt. Qed.

Lemma key_rt k : is_key k -> of_json_key (to_json_key k) = Some k.
Proof. intros Hk. unfold of_json_key, to_json_key. jopen. now apply arr_rt. Qed.

Lemma ctkey_rt k : is_key k -> of_json_ctkey (to_json_ctkey k) = Some k.
Proof. intros Hk. unfold of_json_ctkey, to_json_ctkey. jopen. now apply key_rt. Qed.

Lemma key_image_rt k : is_key k -> of_json_key_image (to_json_key_image k) = Some k.
Proof. intros Hk. unfold of_json_key_image, to_json_key_image. jopen. now apply hash_rt. Qed.

Lemma chunks32_spec n : forall b, List.length b = (32 * n)%nat ->
  List.concat (chunks32 n b) = b /\ Forall is_key (chunks32 n b) /\ List.length (chunks32 n b) = n.
Proof.
  induction n as [|n IH]; intros b Hb.
  - destruct b; [|discriminate Hb]. repeat split. constructor.
  - cbn [chunks32].
    assert (H1 : List.length (firstn 32 b) = 32%nat) by (rewrite firstn_length; lia).
    assert (H2 : List.length (skipn 32 b) = (32 * n)%nat) by (rewrite skipn_length; lia).
    destruct (IH _ H2) as (Ec & Fk & Ln). repeat split.
    + cbn [List.concat]. rewrite Ec. apply firstn_skipn.
    + constructor; [exact H1|exact Fk].
    + cbn [List.length]. now rewrite Ln.
Qed.

Lemma key64_rt k : is_key64 k -> of_json_key64 (to_json_key64 k) = Some k.
Proof.
  intros Hk. unfold of_json_key64, to_json_key64. jopen.
  destruct (chunks32_spec 64 k Hk) as (Ec & Fk & Ln).
  rewrite (list_rt is_key) by (auto using key_rt). cbn [obind]. now rewrite Ln, Ec.
Qed.

(* ---- transaction inputs / outputs ------------------------------------------------------------------------------------ *)
Definition wf_txin (i : txin) : Prop :=
  match i with Gen h => u64 h | ToKey a ko ki => u64 a /\ Forall u64 ko /\ is_key ki end.
Definition wf_target (t : target) : Prop :=
  match t with TKey k => is_key k | TTagged k v => is_key k /\ u8 v end.
Definition wf_txout (o : txout) : Prop := u64 (o_amount o) /\ wf_target (o_target o).
Definition wf_prefix (p : txprefix) : Prop :=
  u64 (version p) /\ u64 (unlock_time p) /\ Forall wf_txin (inputs p) /\ Forall wf_txout (outputs p).

Lemma txin_rt i : wf_txin i -> of_json_txin (to_json_txin i) = Some i.
Proof.
  destruct i as [h|a ko ki]; cbn [wf_txin]; unfold of_json_txin, to_json_txin.
  - intros Hh. jopen. now rewrite u64_rt.
  - intros (Ha & Hko & Hki). jopen. rewrite u64_rt by exact Ha. cbn [obind].
    rewrite (list_rt u64) by (auto using u64_rt). cbn [obind]. now rewrite key_image_rt.
Qed.

Lemma target_rt t : wf_target t -> of_json_target (to_json_target t) = Some t.
Proof.
  destruct t as [k|k v]; cbn [wf_target]; unfold of_json_target, to_json_target.
  - intros Hk. jopen. now rewrite arr_rt.
  - intros (Hk & Hv). jopen. rewrite arr_rt by exact Hk. cbn [obind]. now rewrite u8_rt.
Qed.

Lemma txout_rt o : wf_txout o -> of_json_txout (to_json_txout o) = Some o.
Proof.
  destruct o as [a t]. unfold wf_txout. cbn [o_amount o_target]. intros (Ha & Ht).
  unfold of_json_txout, to_json_txout. cbn [o_amount o_target]. jopen.
  rewrite u64_rt by exact Ha. cbn [obind]. now rewrite target_rt.
Qed.

Lemma prefix_rt p : wf_prefix p -> of_json_prefix (to_json_prefix p) = Some p.
Proof.
  destruct p as [v u i o e]. unfold wf_prefix. cbn [version unlock_time inputs outputs]. intros (Hv & Hu & Hi & Ho).
  unfold of_json_prefix, to_json_prefix. cbn [version unlock_time inputs outputs extra]. jopen.
  rewrite !u64_rt by assumption. cbn [obind].
  rewrite (list_rt wf_txin) by (auto using txin_rt). cbn [obind].
  rewrite (list_rt wf_txout) by (auto using txout_rt). cbn [obind].
  now rewrite bytes_rt.
Qed.

(* ---- RingCT --------------------------------------------------------------------------------------------------------------- *)
Lemma rct_type_rt t : of_json_rct_type (to_json_rct_type t) = Some t.
Proof. destruct t; reflexivity. Qed.

Definition wf_signature (s : signature) : Prop := is_key (sig_c s) /\ is_key (sig_r s).
Definition wf_ecdh (e : ecdh) : Prop :=
  match e with EStandard m a => is_key m /\ is_key a | EBulletproof a => is_hash8 a end.
Definition wf_borosig (b : borosig) : Prop := is_key64 (bs_s0 b) /\ is_key64 (bs_s1 b) /\ is_key (bs_ee b).
Definition wf_rangesig (r : rangesig) : Prop := wf_borosig (rs_asig r) /\ is_key64 (rs_Ci r).
Definition wf_mgsig (m : mgsig) : Prop := Forall (Forall is_key) (mg_ss m) /\ is_key (mg_cc m).
Definition wf_clsag (c : clsag) : Prop := Forall is_key (cl_s c) /\ is_key (cl_c1 c) /\ is_key (cl_D c).
Definition wf_bulletproof (p : bulletproof) : Prop :=
  is_key (bp_A p) /\ is_key (bp_S p) /\ is_key (bp_T1 p) /\ is_key (bp_T2 p) /\ is_key (bp_taux p) /\ is_key (bp_mu p) /\
  Forall is_key (bp_L p) /\ Forall is_key (bp_R p) /\ is_key (bp_a p) /\ is_key (bp_b p) /\ is_key (bp_t p).
Definition wf_bpplus (p : bpplus) : Prop :=
  is_key (bpp_A p) /\ is_key (bpp_A1 p) /\ is_key (bpp_B p) /\ is_key (bpp_r1 p) /\ is_key (bpp_s1 p) /\ is_key (bpp_d1 p) /\
  Forall is_key (bpp_L p) /\ Forall is_key (bpp_R p).
Definition wf_rct_base (b : rct_base) : Prop :=
  u64 (rb_fee b) /\ Forall is_key (rb_pseudo_outs b) /\ Forall wf_ecdh (rb_ecdh b) /\ Forall is_key (rb_out_pk b).
Definition wf_rct_prunable (p : rct_prunable) : Prop :=
  Forall wf_rangesig (rp_range_sigs p) /\ Forall wf_bulletproof (rp_bulletproofs p) /\
  Forall wf_bpplus (rp_bulletproofplus p) /\ Forall wf_mgsig (rp_MGs p) /\ Forall wf_clsag (rp_Clsags p) /\
  Forall is_key (rp_pseudo_outs p).
Definition wf_opt {A} (wf : A -> Prop) (o : option A) : Prop := match o with Some x => wf x | None => True end.
Definition wf_rct_sig (r : rct_sig) : Prop := wf_opt wf_rct_base (rct_base_of r) /\ wf_opt wf_rct_prunable (rct_p r).

Lemma signature_rt s : wf_signature s -> of_json_signature (to_json_signature s) = Some s.
Proof.
  destruct s as [c r]. unfold wf_signature. cbn [sig_c sig_r]. intros (Hc & Hr).
  unfold of_json_signature, to_json_signature. cbn [sig_c sig_r]. jopen. now rewrite !key_rt.
Qed.

Lemma ecdh_rt e : wf_ecdh e -> of_json_ecdh (to_json_ecdh e) = Some e.
Proof.
  destruct e as [m a|a]; cbn [wf_ecdh]; unfold of_json_ecdh, to_json_ecdh.
  - intros (Hm & Ha). jopen. now rewrite !key_rt.
  - intros Ha. jopen. now rewrite hash8_rt.
Qed.

Lemma borosig_rt b : wf_borosig b -> of_json_borosig (to_json_borosig b) = Some b.
Proof.
  destruct b as [s0 s1 ee]. unfold wf_borosig. cbn [bs_s0 bs_s1 bs_ee]. intros (H0 & H1 & He).
  unfold of_json_borosig, to_json_borosig. cbn [bs_s0 bs_s1 bs_ee]. jopen.
  rewrite !key64_rt by assumption. cbn [obind]. now rewrite key_rt.
Qed.

Lemma rangesig_rt r : wf_rangesig r -> of_json_rangesig (to_json_rangesig r) = Some r.
Proof.
  destruct r as [a c]. unfold wf_rangesig. cbn [rs_asig rs_Ci]. intros (Ha & Hc).
  unfold of_json_rangesig, to_json_rangesig. cbn [rs_asig rs_Ci]. jopen.
  rewrite borosig_rt by exact Ha. cbn [obind]. now rewrite key64_rt.
Qed.

Lemma keys_rt l : Forall is_key l -> of_json_list of_json_key (to_json_list to_json_key l) = Some l.
Proof. apply list_rt. exact key_rt. Qed.

Lemma mgsig_rt m : wf_mgsig m -> of_json_mgsig (to_json_mgsig m) = Some m.
Proof.
  destruct m as [ss cc]. unfold wf_mgsig. cbn [mg_ss mg_cc]. intros (Hs & Hc).
  unfold of_json_mgsig, to_json_mgsig. cbn [mg_ss mg_cc]. jopen.
  rewrite (list_rt (Forall is_key)) by (auto using keys_rt). cbn [obind]. now rewrite key_rt.
Qed.

Lemma clsag_rt c : wf_clsag c -> of_json_clsag (to_json_clsag c) = Some c.
Proof.
  destruct c as [s c1 D]. unfold wf_clsag. cbn [cl_s cl_c1 cl_D]. intros (Hs & Hc & HD).
  unfold of_json_clsag, to_json_clsag. cbn [cl_s cl_c1 cl_D]. jopen.
  rewrite keys_rt by exact Hs. cbn [obind]. now rewrite !key_rt.
Qed.

Lemma bulletproof_rt p : wf_bulletproof p -> of_json_bulletproof (to_json_bulletproof p) = Some p.
Proof.
  destruct p as [A S T1 T2 taux mu L R a b t]. unfold wf_bulletproof.
  cbn [bp_A bp_S bp_T1 bp_T2 bp_taux bp_mu bp_L bp_R bp_a bp_b bp_t].
  intros (HA & HS & HT1 & HT2 & Htaux & Hmu & HL & HR & Ha & Hb & Ht).
  unfold of_json_bulletproof, to_json_bulletproof. cbn [bp_A bp_S bp_T1 bp_T2 bp_taux bp_mu bp_L bp_R bp_a bp_b bp_t].
  jopen. rewrite !key_rt by assumption. rewrite !keys_rt by assumption. reflexivity.
Qed.

Lemma bpplus_rt p : wf_bpplus p -> of_json_bpplus (to_json_bpplus p) = Some p.
Proof.
  destruct p as [A A1 B r1 s1 d1 L R]. unfold wf_bpplus. cbn [bpp_A bpp_A1 bpp_B bpp_r1 bpp_s1 bpp_d1 bpp_L bpp_R].
  intros (HA & HA1 & HB & Hr1 & Hs1 & Hd1 & HL & HR).
  unfold of_json_bpplus, to_json_bpplus. cbn [bpp_A bpp_A1 bpp_B bpp_r1 bpp_s1 bpp_d1 bpp_L bpp_R].
  jopen. rewrite !key_rt by assumption. rewrite !keys_rt by assumption. reflexivity.
Qed.

Lemma rct_base_rt b : wf_rct_base b -> of_json_rct_base (to_json_rct_base b) = Some b.
Proof.
  destruct b as [t fee po e o]. unfold wf_rct_base. cbn [rb_type rb_fee rb_pseudo_outs rb_ecdh rb_out_pk].
  intros (Hf & Hpo & He & Ho).
  unfold of_json_rct_base, to_json_rct_base. cbn [rb_type rb_fee rb_pseudo_outs rb_ecdh rb_out_pk]. jopen.
  rewrite rct_type_rt. cbn [obind]. rewrite u64_rt by exact Hf. cbn [obind].
  rewrite keys_rt by exact Hpo. cbn [obind].
  rewrite (list_rt wf_ecdh) by (auto using ecdh_rt). cbn [obind].
  now rewrite (list_rt is_key) by (auto using ctkey_rt).
Qed.

Lemma rct_prunable_rt p : wf_rct_prunable p -> of_json_rct_prunable (to_json_rct_prunable p) = Some p.
Proof.
  destruct p as [rs bp bpp mg cl po]. unfold wf_rct_prunable.
  cbn [rp_range_sigs rp_bulletproofs rp_bulletproofplus rp_MGs rp_Clsags rp_pseudo_outs].
  intros (Hrs & Hbp & Hbpp & Hmg & Hcl & Hpo).
  unfold of_json_rct_prunable, to_json_rct_prunable.
  cbn [rp_range_sigs rp_bulletproofs rp_bulletproofplus rp_MGs rp_Clsags rp_pseudo_outs]. jopen.
  rewrite (list_rt wf_rangesig) by (auto using rangesig_rt). cbn [obind].
  rewrite (list_rt wf_bulletproof) by (auto using bulletproof_rt). cbn [obind].
  rewrite (list_rt wf_bpplus) by (auto using bpplus_rt). cbn [obind].
  rewrite (list_rt wf_mgsig) by (auto using mgsig_rt). cbn [obind].
  rewrite (list_rt wf_clsag) by (auto using clsag_rt). cbn [obind].
  now rewrite keys_rt.
Qed.

Lemma rct_sig_rt r : wf_rct_sig r -> of_json_rct_sig (to_json_rct_sig r) = Some r.
Proof.
  destruct r as [s p]. unfold wf_rct_sig. cbn [rct_base_of rct_p]. intros (Hs & Hp).
  unfold of_json_rct_sig, to_json_rct_sig. cbn [rct_base_of rct_p]. jopen.
  rewrite (option_rt wf_rct_base) by (auto using rct_base_rt; intros x; discriminate). cbn [obind].
  now rewrite (option_rt wf_rct_prunable) by (auto using rct_prunable_rt; intros x; discriminate).
Qed.

(* ---- Transaction, BlockHeader, Block, Index --------------------------------------------------------------------------------- *)
Definition wf_tx (t : tx) : Prop :=
  wf_prefix (tx_prefix t) /\ Forall (Forall wf_signature) (tx_signatures t) /\ wf_rct_sig (tx_rct t).
Definition wf_header (h : header) : Prop :=
  u64 (major_version h) /\ u64 (minor_version h) /\ u64 (timestamp h) /\ is_key (prev_id h) /\ u32 (nonce h).
Definition wf_block (b : block) : Prop :=
  wf_header (blk_header b) /\ wf_tx (miner_tx b) /\ Forall is_key (tx_hashes b).
Definition wf_index (i : sub_index) : Prop := u32 (ix_major i) /\ u32 (ix_minor i).

Lemma tx_rt t : wf_tx t -> of_json_tx (to_json_tx t) = Some t.
Proof.
  destruct t as [p s r]. unfold wf_tx. cbn [tx_prefix tx_signatures tx_rct]. intros (Hp & Hs & Hr).
  unfold of_json_tx, to_json_tx. cbn [tx_prefix tx_signatures tx_rct]. jopen.
  rewrite prefix_rt by exact Hp. cbn [obind].
  rewrite (list_rt (Forall wf_signature)) by (try exact Hs; intros x Hx; apply (list_rt wf_signature); auto using signature_rt).
  cbn [obind]. now rewrite rct_sig_rt.
Qed.

Lemma header_rt h : wf_header h -> of_json_header (to_json_header h) = Some h.
Proof.
  destruct h as [ma mi ts pv no]. unfold wf_header. cbn [major_version minor_version timestamp prev_id nonce].
  intros (Ha & Hb & Hc & Hd & He).
  unfold of_json_header, to_json_header. cbn [major_version minor_version timestamp prev_id nonce]. jopen.
  rewrite !u64_rt by assumption. cbn [obind]. rewrite hash_rt by exact Hd. cbn [obind]. now rewrite u32_rt.
Qed.

Lemma block_rt b : wf_block b -> of_json_block (to_json_block b) = Some b.
Proof.
  destruct b as [h t l]. unfold wf_block. cbn [blk_header miner_tx tx_hashes]. intros (Hh & Ht & Hl).
  unfold of_json_block, to_json_block. cbn [blk_header miner_tx tx_hashes]. jopen.
  rewrite header_rt by exact Hh. cbn [obind]. rewrite tx_rt by exact Ht. cbn [obind].
  now rewrite (list_rt is_key) by (auto using hash_rt).
Qed.

Lemma index_rt i : wf_index i -> of_json_index (to_json_index i) = Some i.
Proof.
  destruct i as [a b]. unfold wf_index. cbn [ix_major ix_minor]. intros (Ha & Hb).
  unfold of_json_index, to_json_index. cbn [ix_major ix_minor]. jopen. now rewrite !u32_rt by assumption.
Qed.

(* ---- Address ------------------------------------------------------------------------------------------------------------------ *)
(* the text of an address needs no escaping: every character is in the base58 alphabet *)
Lemma b58_encode_alphabet : forall b s, b58_encode b = Ok s -> Forall (fun c => In c alphabet) s.
Proof.
  intros b. pattern b. apply (chunk_ind 8); [lia| |].
  - intros t Ht s Hs. destruct t as [|x t']; [injection Hs as <-; constructor|].
    set (t := x :: t') in *. assert (Hl : (0 < List.length t < 8)%nat) by (subst t; cbn [List.length] in *; lia).
    rewrite b58_encode_tail in Hs by lia. injection Hs as <-. apply enc_k_alphabet.
  - intros a r Ha IH s Hs. rewrite b58_encode_full in Hs by assumption.
    destruct (b58_encode r) as [x|e|] eqn:Er; try discriminate.
    assert (Es : s = enc_k 11 (be2n a) ++ x) by congruence. subst s.
    apply Forall_app. split; [apply enc_k_alphabet|now apply IH].
Qed.

Lemma esc_alphabet c acc : In c alphabet -> esc_byte c acc = c :: acc.
Proof.
  intros Hc. vm_compute in Hc.
  repeat (destruct Hc as [<-|Hc]; [reflexivity|]). destruct Hc.
Qed.

Lemma pr_str_plain s acc : Forall (fun c => In c alphabet) s -> pr_str s acc = x22 :: s ++ x22 :: acc.
Proof.
  intros Hs. unfold pr_str. f_equal. induction Hs as [|c s Hc _ IH]; [reflexivity|].
  cbn [fold_right app]. rewrite IH. now apply esc_alphabet.
Qed.

Section Addr.
  Variable H : bytes -> bytes.
  Variable valid_pk : bytes -> bool.
  Hypothesis H_len : forall m, List.length (H m) = 32%nat.
  Hypothesis valid_len : forall k, valid_pk k = true -> List.length k = 32%nat.

  Lemma address_rt a : wf_addr valid_pk a ->
    exists j, to_json_address H a = Ok j /\ of_json_address H valid_pk j = Some a.
  Proof.
    intros W. destruct (from_to_string H valid_pk H_len valid_len a W) as (s & E1 & E2).
    exists (JStr s). unfold to_json_address, of_json_address. now rewrite E1, E2.
  Qed.

  (* the JSON of an address is the string of C12, printed as the text between two quotes *)
  Lemma address_is_text a : wf_addr valid_pk a ->
    exists s, addr_to_string H a = Ok s /\ to_json_address H a = Ok (JStr s) /\
              print_json (JStr s) = x22 :: s ++ [x22].
  Proof.
    intros W. destruct (from_to_string H valid_pk H_len valid_len a W) as (s & E1 & _).
    exists s. split; [exact E1|]. split; [unfold to_json_address; now rewrite E1|].
    unfold print_json. cbn [pr_json]. apply pr_str_plain.
    unfold addr_to_string in E1. destruct (b58_encode (addr_as_bytes H a)) as [x|e|] eqn:E; try discriminate.
    injection E1 as <-. eapply b58_encode_alphabet. exact E.
  Qed.

  (* only a JSON string that from_str accepts is an address; what is accepted is the canonical text *)
  Lemma address_of_json j a : of_json_address H valid_pk j = Some a <->
    exists s, j = JStr s /\ addr_from_str H valid_pk s = Ok a.
  Proof.
    split.
    - destruct j as [| | |s| |]; cbn [of_json_address]; try discriminate.
      destruct (addr_from_str H valid_pk s) as [a'|e|] eqn:E; try discriminate.
      intros [= <-]. now exists s.
    - intros (s & -> & E). cbn [of_json_address]. now rewrite E.
  Qed.

  Lemma address_rejects_invalid s : (forall a, addr_from_str H valid_pk s <> Ok a) ->
    of_json_address H valid_pk (JStr s) = None.
  Proof.
    intros Hn. cbn [of_json_address]. destruct (addr_from_str H valid_pk s) as [a|e|] eqn:E; try reflexivity.
    now elim (Hn a).
  Qed.

  Lemma address_canonical j a : of_json_address H valid_pk j = Some a -> to_json_address H a = Ok j /\ wf_addr valid_pk a.
  Proof.
    intros Hj. apply address_of_json in Hj. destruct Hj as (s & -> & E).
    apply (from_str_canonical H valid_pk H_len valid_len) in E. destruct E as (E & W).
    split; [|exact W]. unfold to_json_address. now rewrite E.
  Qed.
End Addr.

(* ---- amounts -------------------------------------------------------------------------------------------------------------------- *)
Open Scope Z_scope.

Definition amt_ok (sg : bool) (k : amt_kind) (a : Z) : Prop :=
  match k, sg with
  | KPico, false => 0 <= a <= 2 ^ 64 - 1
  | KPico, true => - 2 ^ 63 <= a <= 2 ^ 63 - 1
  | KXmr, false => 0 <= a <= 2 ^ 63 - 1
  | KXmr, true => - (2 ^ 63 - 1) <= a <= 2 ^ 63 - 1
  end.

Lemma amt_ok_spec sg k a : amt_ok sg k a <->
  match k, sg with
  | KPico, false => 0 <= a <= 2 ^ 64 - 1 | KPico, true => - 2 ^ 63 <= a <= 2 ^ 63 - 1
  | KXmr, false => 0 <= a <= 2 ^ 63 - 1 | KXmr, true => - (2 ^ 63 - 1) <= a <= 2 ^ 63 - 1
  end.
Proof. destruct k, sg; reflexivity. Qed.

Lemma amt_rt sg k a : amt_ok sg k a ->
  exists j, to_json_amt sg k a = AOk j /\ of_json_amt sg k j = Some a /\ j <> JNull.
Proof.
  destruct k, sg; cbn [amt_ok to_json_amt of_json_amt]; intros Ha.
  - exists (JNum a). split; [reflexivity|]. split; [|discriminate]. unfold of_json_pico_s, in_i64, I64MIN, I64MAX.
    destruct (Z.leb_spec (- 2 ^ 63) a); [|lia]. destruct (Z.leb_spec a (2 ^ 63 - 1)); [|lia]. reflexivity.
  - exists (JNum a). split; [reflexivity|]. split; [|discriminate]. unfold of_json_pico_u, in_u64, U64MAX.
    destruct (Z.leb_spec 0 a); [|lia]. destruct (Z.leb_spec a (2 ^ 64 - 1)); [|lia]. reflexivity.
  - destruct (signed_roundtrip a Monero Ha) as (s & E1 & E2). exists (JStr s).
    unfold to_json_xmr_s, of_json_xmr_s. rewrite E1, E2. repeat split. discriminate.
  - destruct (amount_roundtrip a Monero Ha) as (s & E1 & E2). exists (JStr s).
    unfold to_json_xmr_u, of_json_xmr_u. rewrite E1, E2. repeat split. discriminate.
Qed.

Lemma amt_opt_rt sg k o : wf_opt (amt_ok sg k) o ->
  exists j, to_json_amt_opt sg k o = AOk j /\ of_json_amt_opt sg k j = Some o.
Proof.
  destruct o as [a|]; cbn [wf_opt]; intros Ha.
  - destruct (amt_rt sg k a Ha) as (j & E1 & E2 & Hn). exists j. split; [exact E1|].
    unfold of_json_amt_opt, of_json_option. destruct j; try (now rewrite E2). now elim Hn.
  - exists JNull. split; reflexivity.
Qed.

Lemma amt_vec_rt sg k l : Forall (amt_ok sg k) l ->
  exists j, to_json_amt_vec sg k l = AOk j /\ of_json_amt_vec sg k j = Some l.
Proof.
  intros Hl. unfold to_json_amt_vec, to_json_vec_ares, of_json_amt_vec, of_json_list.
  assert (Hm : exists js, amapM (to_json_amt sg k) l = AOk js /\ mapM (of_json_amt sg k) js = Some l).
  { induction Hl as [|a l Ha _ (js & E1 & E2)]; [now exists []|].
    destruct (amt_rt sg k a Ha) as (j & F1 & F2 & _). exists (j :: js).
    cbn [amapM mapM]. rewrite F1. cbn [abind]. rewrite E1. cbn [abind]. rewrite F2. cbn [obind]. now rewrite E2. }
  destruct Hm as (js & E1 & E2). exists (JArr js). rewrite E1. cbn [abind]. now split.
Qed.

(* above the limit of C15 the monero string is written (it is exact) but refused on reading *)
Lemma xmr_u_limit a : 2 ^ 63 - 1 < a <= 2 ^ 64 - 1 ->
  exists j, to_json_xmr_u a = AOk j /\ of_json_xmr_u j = None.
Proof.
  intros Ha. destruct (fmt_denotes a false Monero ltac:(unfold U64MAX; lia)) as (s & E & Dn & _).
  exists (JStr s). unfold to_json_xmr_u, amount_to_string_in. rewrite E. split; [reflexivity|].
  unfold of_json_xmr_u. destruct (amount_from_str_in s Monero) as [q|e|] eqn:P; try reflexivity.
  apply amount_from_str_in_spec in P. destruct P as (Dq & _ & Hq).
  pose proof (denotes_functional _ _ _ _ Dn Dq). lia.
Qed.

Lemma xmr_s_limit : exists j, to_json_xmr_s (- 2 ^ 63) = AOk j /\ of_json_xmr_s j = None.
Proof. exists (JStr (bs "-9223372.036854775808"%string)). split; vm_compute; reflexivity. Qed.

(* serialising never panics, over the whole range of the two amount types (also where as_xmr will not read back) *)
Definition amt_in_type (sg : bool) (a : Z) : Prop :=
  if sg then - 2 ^ 63 <= a <= 2 ^ 63 - 1 else 0 <= a <= 2 ^ 64 - 1.

Lemma amt_total sg k a : amt_in_type sg a -> exists j, to_json_amt sg k a = AOk j /\ j <> JNull.
Proof.
  destruct k; cbn [to_json_amt]; [intros _; exists (JNum a); split; [reflexivity|discriminate]|].
  destruct sg; cbn [amt_in_type]; intros Ha.
  - destruct (signed_format_exact a Monero Ha) as (s & E & _). exists (JStr s).
    unfold to_json_xmr_s. rewrite E. split; [reflexivity|discriminate].
  - destruct (amount_format_exact a Monero Ha) as (s & E & _). exists (JStr s).
    unfold to_json_xmr_u. rewrite E. split; [reflexivity|discriminate].
Qed.

Lemma amt_opt_vec_total sg k :
  (forall o, wf_opt (amt_in_type sg) o -> exists j, to_json_amt_opt sg k o = AOk j) /\
  (forall l, Forall (amt_in_type sg) l -> exists j, to_json_amt_vec sg k l = AOk j).
Proof.
  split.
  - intros [a|] Ho; [|now exists JNull]. destruct (amt_total sg k a Ho) as (j & E & _). now exists j.
  - intros l Hl. unfold to_json_amt_vec, to_json_vec_ares.
    assert (Hm : exists js, amapM (to_json_amt sg k) l = AOk js).
    { induction Hl as [|a l Ha _ (js & E)]; [now exists []|].
      destruct (amt_total sg k a Ha) as (j & F & _). exists (j :: js). cbn [amapM]. rewrite F. cbn [abind]. now rewrite E. }
    destruct Hm as (js & E). exists (JArr js). now rewrite E.
Qed.
