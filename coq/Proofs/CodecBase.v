(* CodecBase.v — combinator lemmas: exactness (parse => re-serialises to the consumed bytes) and
   completeness (serialise => parses back), for the monad, primitives, rep, vectors. *)
From MRS Require Export Model.Codec Proofs.BaseProofs Proofs.VarintProofs.
Open Scope N_scope.

Arguments enc_varint : simpl never.
Arguments enc_list {A} e l : simpl never.
Arguments enc_vec {A} e l : simpl never.
Arguments enc_uint : simpl never.
Arguments enc_u8 : simpl never.
Arguments enc_bytes_vec : simpl never.

Class Exact {A} (d : dec A) (e : A -> bytes) :=
  exact_pf : forall s a r, d s = (Ok a, r) -> s = e a ++ r.
Class Complete {A} (d : dec A) (e : A -> bytes) (wf : A -> Prop) :=
  complete_pf : forall a r, wf a -> d (e a ++ r) = (Ok a, r).

(* ---- monad inversion ------------------------------------------------------------------------ *)
Lemma bind_ok {A B} (d : dec A) (k : A -> dec B) s b r :
  bind d k s = (Ok b, r) -> exists a r1, d s = (Ok a, r1) /\ k a r1 = (Ok b, r).
Proof.
  unfold bind. destruct (d s) as [[a|e|] r1] eqn:E; intros H; try discriminate. eauto.
Qed.
Lemma bind_ok_intro {A B} (d : dec A) (k : A -> dec B) s a r1 :
  d s = (Ok a, r1) -> bind d k s = k a r1.
Proof. unfold bind. now intros ->. Qed.
Lemma ret_ok {A} (x a : A) s r : ret x s = (Ok a, r) -> a = x /\ r = s.
Proof. unfold ret. intros H. inversion H. auto. Qed.
Lemma dmap_ok {A B} (f : A -> B) d s b r :
  dmap f d s = (Ok b, r) -> exists a, d s = (Ok a, r) /\ b = f a.
Proof.
  unfold dmap. intros H. apply bind_ok in H. destruct H as (a & r1 & H1 & H2).
  apply ret_ok in H2. destruct H2; subst. eauto.
Qed.
Lemma bind_panic {A B} (d : dec A) (k : A -> dec B) s r :
  bind d k s = (Panic, r) -> d s = (Panic, r) \/ exists a r1, d s = (Ok a, r1) /\ k a r1 = (Panic, r).
Proof.
  unfold bind. destruct (d s) as [[a|e|] r1] eqn:E; intros H; try discriminate; [right; eauto|left].
  inversion H; subst. reflexivity.
Qed.

(* ---- primitives --------------------------------------------------------------------------------- *)
Lemma read_u8_ok s b r : read_u8 s = (Ok b, r) -> s = b :: r.
Proof. destruct s; cbn; intros H; inversion H; reflexivity. Qed.

Lemma read_n_ok n : forall s bs r, read_n n s = (Ok bs, r) -> s = bs ++ r /\ length bs = n.
Proof.
  induction n as [|n IH]; intros s bs r H; cbn [read_n] in H.
  - apply ret_ok in H. destruct H; subst. auto.
  - apply bind_ok in H. destruct H as (b & r1 & H1 & H2). apply read_u8_ok in H1. subst.
    apply bind_ok in H2. destruct H2 as (t & r2 & H2 & H3). apply IH in H2. destruct H2; subst.
    apply ret_ok in H3. destruct H3; subst. cbn. auto.
Qed.

Lemma read_n_complete bs : forall r, read_n (length bs) (bs ++ r) = (Ok bs, r).
Proof.
  induction bs as [|b t IH]; intros r; [reflexivity|].
  cbn [length read_n app]. unfold bind at 1. cbn [read_u8]. unfold bind at 1. rewrite IH. reflexivity.
Qed.

Global Instance exact_read_n n : Exact (read_n n) (fun b => b).
Proof. intros s a r H. apply read_n_ok in H. tauto. Qed.

Global Instance exact_u8 : Exact dec_u8 enc_u8.
Proof.
  intros s a r H. apply dmap_ok in H. destruct H as (b & H & ->). apply read_u8_ok in H. subst.
  unfold enc_u8. now rewrite n2b_b2n.
Qed.

Lemma dec_u8_lt s a r : dec_u8 s = (Ok a, r) -> a < 256.
Proof. intros H. apply dmap_ok in H. destruct H as (b & _ & ->). apply b2n_lt. Qed.

Lemma n2le_le2n bs : n2le (length bs) (le2n bs) = bs.
Proof.
  induction bs as [|b t IH]; [reflexivity|]. cbn [length n2le le2n].
  pose proof (b2n_lt b).
  assert (E1 : n2b (b2n b + 256 * le2n t) = b).
  { rewrite <- (n2b_b2n b) at 2. unfold n2b. rewrite N.mul_comm, N.mod_add by lia.
    now rewrite (N.mod_small (b2n b)) by lia. }
  assert (E2 : (b2n b + 256 * le2n t) / 256 = le2n t).
  { rewrite N.mul_comm, N.div_add by lia. rewrite N.div_small by lia. lia. }
  now rewrite E1, E2, IH.
Qed.

Lemma le2n_bound bs : le2n bs < 256 ^ N.of_nat (length bs).
Proof.
  induction bs as [|b t IH]; [cbn; lia|]. cbn [length le2n]. pose proof (b2n_lt b).
  rewrite Nat2N.inj_succ, N.pow_succ_r'. lia.
Qed.

Lemma le2n_n2le k : forall n, n < 256 ^ N.of_nat k -> le2n (n2le k n) = n.
Proof.
  induction k as [|k IH]; intros n Hn.
  - cbn in *. lia.
  - cbn [n2le le2n]. rewrite Nat2N.inj_succ, N.pow_succ_r' in Hn.
    rewrite b2n_n2b. rewrite IH.
    + pose proof (N.div_mod' n 256). lia.
    + apply N.div_lt_upper_bound; lia.
Qed.

Lemma n2le_length k : forall n, length (n2le k n) = k.
Proof. induction k; intros; cbn [n2le length]; auto. Qed.

Global Instance exact_uint k : Exact (dec_uint k) (enc_uint k).
Proof.
  intros s a r H. apply dmap_ok in H. destruct H as (bs & H & ->). apply read_n_ok in H.
  destruct H as [-> <-]. unfold enc_uint. now rewrite n2le_le2n.
Qed.

Global Instance exact_varint : Exact dec_varint enc_varint.
Proof. intros s a r H. now apply dec_varint_sound in H. Qed.

Lemma dec_varint_lt s a r : dec_varint s = (Ok a, r) -> a < 2 ^ 64.
Proof. intros H. now apply dec_varint_sound in H. Qed.

(* ---- rep: binary iteration equals unary iteration ---------------------------------------------------- *)
Fixpoint repn {A} (n : nat) (d : dec A) : dec (list A) :=
  match n with
  | O => ret []
  | S n' => a <- d ;; t <- repn n' d ;; ret (a :: t)
  end.

Lemma repn_add {A} (d : dec A) a : forall b s,
  repn (a + b) d s = (l1 <- repn a d ;; l2 <- repn b d ;; ret (l1 ++ l2)) s.
Proof.
  induction a as [|a IH]; intros b s.
  - cbn [Nat.add repn]. unfold bind, ret.
    destruct (repn b d s) as [[l|e|] r]; reflexivity.
  - cbn [Nat.add repn]. unfold bind.
    destruct (d s) as [[x|e|] r1]; try reflexivity.
    rewrite IH. unfold bind. destruct (repn a d r1) as [[l1|e|] r2]; try reflexivity.
    unfold ret. destruct (repn b d r2) as [[l2|e|] r3]; reflexivity.
Qed.

Lemma rep_pos_repn {A} (d : dec A) p : forall s, rep_pos p d s = repn (Pos.to_nat p) d s.
Proof.
  induction p as [p IH|p IH|]; intros s.
  - rewrite Pos2Nat.inj_xI. cbn [rep_pos].
    replace (S (2 * Pos.to_nat p)) with (S (Pos.to_nat p + Pos.to_nat p)) by lia.
    cbn [repn]. unfold bind. destruct (d s) as [[x|e|] r1]; try reflexivity.
    rewrite repn_add. unfold bind. rewrite IH.
    destruct (repn (Pos.to_nat p) d r1) as [[l1|e|] r2]; try reflexivity.
    rewrite IH. unfold ret. destruct (repn (Pos.to_nat p) d r2) as [[l2|e|] r3]; reflexivity.
  - rewrite Pos2Nat.inj_xO. cbn [rep_pos].
    replace (2 * Pos.to_nat p)%nat with (Pos.to_nat p + Pos.to_nat p)%nat by lia.
    rewrite repn_add. unfold bind. rewrite IH.
    destruct (repn (Pos.to_nat p) d s) as [[l1|e|] r2]; try reflexivity.
    rewrite IH. reflexivity.
  - change (Pos.to_nat 1) with 1%nat. cbn [rep_pos repn]. unfold bind, ret.
    destruct (d s) as [[x|e|] r1]; reflexivity.
Qed.

Lemma rep_repn {A} (d : dec A) n s : rep n d s = repn (N.to_nat n) d s.
Proof. destruct n as [|p]; [reflexivity|]. cbn [rep N.to_nat]. apply rep_pos_repn. Qed.

Lemma repn_ok {A} (d : dec A) e `{Exact A d e} n : forall s l r,
  repn n d s = (Ok l, r) -> s = enc_list e l ++ r /\ length l = n.
Proof.
  induction n as [|n IH]; intros s l r Hr; cbn [repn] in Hr.
  - apply ret_ok in Hr. destruct Hr; subst. auto.
  - apply bind_ok in Hr. destruct Hr as (a & r1 & H1 & H2). apply exact_pf in H1. subst.
    apply bind_ok in H2. destruct H2 as (t & r2 & H2 & H3). apply IH in H2. destruct H2; subst.
    apply ret_ok in H3. destruct H3; subst. unfold enc_list. cbn [flat_map length].
    rewrite <- app_assoc. auto.
Qed.

Lemma rep_ok {A} (d : dec A) e `{Exact A d e} n s l r :
  rep n d s = (Ok l, r) -> s = enc_list e l ++ r /\ lenN l = n.
Proof.
  rewrite rep_repn. intros Hr. eapply repn_ok in Hr; [|eassumption]. destruct Hr as [-> Hl].
  split; [reflexivity|]. unfold lenN. lia.
Qed.

Lemma repn_complete {A} (d : dec A) e wf `{Complete A d e wf} l : forall r,
  Forall wf l -> repn (length l) d (enc_list e l ++ r) = (Ok l, r).
Proof.
  induction l as [|a t IH]; intros r Hf; [reflexivity|].
  inversion Hf as [|? ? Ha Ht]; subst. unfold enc_list. cbn [length repn flat_map].
  rewrite <- app_assoc. unfold bind at 1. rewrite complete_pf by assumption.
  unfold bind at 1. fold (enc_list e t). rewrite IH by assumption. reflexivity.
Qed.

Lemma rep_complete {A} (d : dec A) e wf `{Complete A d e wf} l r :
  Forall wf l -> rep (lenN l) d (enc_list e l ++ r) = (Ok l, r).
Proof.
  intros Hf. rewrite rep_repn. unfold lenN. rewrite Nat2N.id. now apply repn_complete with (wf := wf).
Qed.

Global Instance exact_rep {A} (d : dec A) e `{Exact A d e} n : Exact (rep n d) (enc_list e).
Proof. intros s l r Hr. eapply rep_ok in Hr; [|eassumption]. tauto. Qed.

(* ---- vectors ----------------------------------------------------------------------------------------- *)
Lemma dec_vec_ok {A} (d : dec A) e `{Exact A d e} size s l r :
  dec_vec size d s = (Ok l, r) -> s = enc_vec e l ++ r /\ lenN l < 2 ^ 64 /\ over_cap size (lenN l) = false.
Proof.
  unfold dec_vec, dec_len. intros Hd. apply bind_ok in Hd. destruct Hd as (n & r1 & H1 & H2).
  pose proof (dec_varint_lt _ _ _ H1) as Hn. apply exact_pf in H1. subst.
  destruct (over_cap size n) eqn:Ec; [discriminate|].
  eapply rep_ok in H2; [|eassumption]. destruct H2 as [-> <-].
  unfold enc_vec. rewrite <- app_assoc. auto.
Qed.

Global Instance exact_vec {A} (d : dec A) e `{Exact A d e} size : Exact (dec_vec size d) (enc_vec e).
Proof. intros s l r Hd. eapply dec_vec_ok in Hd; [|eassumption]. tauto. Qed.

Lemma dec_sized_ok {A} (d : dec A) e `{Exact A d e} size n s l r :
  dec_sized size n d s = (Ok l, r) -> s = enc_list e l ++ r /\ lenN l = n.
Proof.
  unfold dec_sized. destruct (over_cap size n); [discriminate|]. intros Hd.
  eapply rep_ok in Hd; [|eassumption]. exact Hd.
Qed.

Global Instance exact_sized {A} (d : dec A) e `{Exact A d e} size n : Exact (dec_sized size n d) (enc_list e).
Proof. intros s l r Hd. eapply dec_sized_ok in Hd; [|eassumption]. tauto. Qed.

Global Instance exact_bytes_vec : Exact dec_bytes_vec enc_bytes_vec.
Proof.
  intros s l r Hd. unfold dec_bytes_vec in Hd.
  assert (Ex : Exact read_u8 (fun b => [b])).
  { intros s' a r' H'. apply read_u8_ok in H'. subst. reflexivity. }
  eapply (dec_vec_ok read_u8 (fun b => [b])) in Hd. destruct Hd as [-> _].
  unfold enc_vec, enc_bytes_vec, enc_list. f_equal. f_equal.
  clear. induction l as [|b t IH]; [reflexivity|]. cbn. now rewrite IH.
Qed.

(* ---- inversion tactic --------------------------------------------------------------------------------- *)
Ltac dec_inv1 :=
  match goal with
  | H : bind _ _ _ = (Ok _, _) |- _ =>
      let a := fresh "a" in let r := fresh "r" in let H1 := fresh "Hd" in let H2 := fresh "Hk" in
      apply bind_ok in H; destruct H as (a & r & H1 & H2)
  | H : ret _ _ = (Ok _, _) |- _ => apply ret_ok in H; destruct H; subst
  | H : fail _ _ = (Ok _, _) |- _ => discriminate H
  | H : context [rct_type_eqb _ _] |- _ =>
      progress cbn [rct_type_eqb is_rct_bp is_rct_bp_plus uses_clsag has_p_pseudo is_simple_or_bp] in H
  | H : context [is_rct_bp _] |- _ =>
      progress cbn [rct_type_eqb is_rct_bp is_rct_bp_plus uses_clsag has_p_pseudo is_simple_or_bp] in H
  | H : context [uses_clsag _] |- _ =>
      progress cbn [rct_type_eqb is_rct_bp is_rct_bp_plus uses_clsag has_p_pseudo is_simple_or_bp] in H
  | H : context [has_p_pseudo _] |- _ =>
      progress cbn [rct_type_eqb is_rct_bp is_rct_bp_plus uses_clsag has_p_pseudo is_simple_or_bp] in H
  | H : (if ?c then _ else _) _ = (Ok _, _) |- _ => destruct c eqn:?
  | H : (let '(_, _) := ?p in _) _ = (Ok _, _) |- _ => destruct p
  | H : (match ?x with _ => _ end) _ = (Ok _, _) |- _ => destruct x eqn:?
  end.
Ltac dec_inv := repeat dec_inv1.

Ltac use_exact :=
  repeat match goal with
         | H : ?d ?s = (Ok ?a, ?r) |- _ => apply (exact_pf (d := d)) in H; subst
         end.

Lemma dec_uint_lt k s a r : dec_uint k s = (Ok a, r) -> a < 256 ^ N.of_nat k.
Proof.
  intros H. apply dmap_ok in H. destruct H as (bs & H & ->). apply read_n_ok in H. destruct H as [_ <-].
  apply le2n_bound.
Qed.

Lemma dec_sized_len {A} (d : dec A) size n s l r : dec_sized size n d s = (Ok l, r) -> lenN l = n.
Proof.
  unfold dec_sized. destruct (over_cap size n); [discriminate|]. rewrite rep_repn. intros H.
  assert (G : forall k s l r, repn k d s = (Ok l, r) -> length l = k).
  { clear. induction k as [|k IH]; intros s l r H; cbn [repn] in H.
    - apply ret_ok in H. destruct H; subst. reflexivity.
    - apply bind_ok in H. destruct H as (a & r1 & _ & H). apply bind_ok in H. destruct H as (t & r2 & H & H').
      apply IH in H. apply ret_ok in H'. destruct H'; subst. cbn. lia. }
  apply G in H. unfold lenN. lia.
Qed.

Ltac keep_len :=
  repeat match goal with
         | H : dec_sized ?size ?n ?d ?s = (Ok ?l, ?r) |- _ =>
             lazymatch goal with
             | _ : lenN l = n |- _ => fail
             | _ => pose proof (dec_sized_len d size n s l r H)
             end
         | H : dec_uint ?k ?s = (Ok ?a, ?r) |- _ =>
             lazymatch goal with
             | _ : a < 256 ^ N.of_nat k |- _ => fail
             | _ => pose proof (dec_uint_lt k s a r H)
             end
         end.

Ltac app_norm := repeat rewrite <- app_assoc; cbn [app]; try reflexivity.
