(* KeysProofs.v — proofs about Model/Keys.v (C13). *)
From MRS Require Export Proofs.EdProofs Model.Keys.
Open Scope Z_scope.

(* ---- little-endian conversions ------------------------------------------------------------------------ *)
Lemma le2n_lt (bs : bytes) : (le2n bs < 256 ^ N.of_nat (List.length bs))%N.
Proof.
  induction bs as [|b t IH]; [cbn; lia|].
  cbn [le2n List.length]. rewrite Nat2N.inj_succ, N.pow_succ_r'. pose proof (b2n_lt b). lia.
Qed.

Lemma n2le_le2n (bs : bytes) : n2le (List.length bs) (le2n bs) = bs.
Proof.
  induction bs as [|b t IH]; [reflexivity|].
  cbn [le2n List.length n2le]. pose proof (b2n_lt b) as Hb.
  assert (H1 : ((b2n b + 256 * le2n t) / 256 = le2n t)%N).
  { rewrite N.mul_comm, N.div_add by lia. rewrite N.div_small by lia. lia. }
  assert (H2 : n2b (b2n b + 256 * le2n t) = b).
  { rewrite <- (n2b_b2n b) at 2. unfold n2b. rewrite N.mul_comm, N.mod_add by lia. reflexivity. }
  now rewrite H1, H2, IH.
Qed.

Lemma le2n_n2le k n : le2n (n2le k n) = (n mod 256 ^ N.of_nat k)%N.
Proof.
  revert n. induction k as [|k IH]; intros n.
  - cbn [n2le le2n]. now rewrite N.mod_1_r.
  - cbn [n2le le2n]. rewrite IH, b2n_n2b, Nat2N.inj_succ, N.pow_succ_r'.
    rewrite N.mod_mul_r by (try apply N.pow_nonzero; lia). reflexivity.
Qed.

Lemma n2le_length k n : List.length (n2le k n) = k.
Proof. revert n. induction k as [|k IH]; intros n; [reflexivity|]. cbn [n2le List.length]. now rewrite IH. Qed.

Lemma n2le_inj k a b : (a < 256 ^ N.of_nat k)%N -> (b < 256 ^ N.of_nat k)%N -> n2le k a = n2le k b -> a = b.
Proof.
  intros Ha Hb H. apply (f_equal le2n) in H. rewrite !le2n_n2le in H.
  now rewrite !N.mod_small in H by assumption.
Qed.

Lemma z2le_length k z : List.length (z2le k z) = k.
Proof. apply n2le_length. Qed.

Lemma le2z_nonneg k : 0 <= le2z k.
Proof. unfold Ed25519.le2z. lia. Qed.

Lemma le2z_lt32 k : List.length k = 32%nat -> le2z k < 2 ^ 256.
Proof.
  intros H. unfold Ed25519.le2z. pose proof (le2n_lt k) as Hl. rewrite H in Hl.
  change (256 ^ N.of_nat 32)%N with (Z.to_N (2 ^ 256)) in Hl. lia.
Qed.

Lemma z2le_le2z k : z2le (List.length k) (le2z k) = k.
Proof. unfold Ed25519.z2le, Ed25519.le2z. rewrite N2Z.id. apply n2le_le2n. Qed.

Lemma le2z_z2le32 s : 0 <= s < 2 ^ 256 -> le2z (z2le 32 s) = s.
Proof.
  intros Hs. unfold Ed25519.z2le, Ed25519.le2z. rewrite le2n_n2le.
  rewrite N.mod_small; [lia|]. change (256 ^ N.of_nat 32)%N with (Z.to_N (2 ^ 256)). lia.
Qed.

Lemma ell_lt : 0 < ell < 2 ^ 253.
Proof. vm_compute. split; reflexivity. Qed.

(* ---- hex ------------------------------------------------------------------------------------------------ *)
Lemma hex_pair (b : byte) :
  hex_val (hex_digit (b2n b / 16)) = Some (b2n b / 16)%N /\ hex_val (hex_digit (b2n b mod 16)) = Some (b2n b mod 16)%N.
Proof. destruct b; vm_compute; split; reflexivity. Qed.

Lemma hex_decode_pairs_encode (bs : bytes) : hex_decode_pairs (hex_encode bs) = Ok bs.
Proof.
  induction bs as [|b t IH]; [reflexivity|].
  cbn [hex_encode hex_decode_pairs]. destruct (hex_pair b) as [H1 H2]. rewrite H1, H2, IH.
  f_equal. f_equal. rewrite <- (n2b_b2n b) at 3. f_equal. pose proof (N.div_mod' (b2n b) 16). lia.
Qed.

Lemma hex_encode_length (bs : bytes) : List.length (hex_encode bs) = (2 * List.length bs)%nat.
Proof. induction bs as [|b t IH]; [reflexivity|]. cbn [hex_encode List.length]. rewrite IH. lia. Qed.

Lemma hex_decode_encode (bs : bytes) : hex_decode (hex_encode bs) = Ok bs.
Proof.
  unfold hex_decode. rewrite hex_encode_length.
  replace (Nat.odd (2 * List.length bs)) with false.
  - apply hex_decode_pairs_encode.
  - symmetry. rewrite <- Nat.negb_even. rewrite Nat.even_mul. reflexivity.
Qed.

(* ---- the cursor ----------------------------------------------------------------------------------------- *)
Lemma read_n_app (k r : bytes) : read_n (List.length k) (k ++ r) = (Ok k, r).
Proof.
  induction k as [|b t IH]; [reflexivity|].
  cbn [List.length read_n app]. unfold bind at 1. cbn [read_u8]. unfold bind at 1. rewrite IH. reflexivity.
Qed.

Lemma read_n_ok n s k r : read_n n s = (Ok k, r) -> s = k ++ r /\ List.length k = n.
Proof.
  revert s k r. induction n as [|n IH]; intros s k r H.
  - cbn in H. injection H as <- <-. now split.
  - cbn [read_n] in H. unfold bind at 1 in H. destruct s as [|b s]; [discriminate|]. cbn [read_u8] in H.
    unfold bind at 1 in H. destruct (read_n n s) as [[t|e|] r'] eqn:Ht; try discriminate.
    cbn in H. injection H as <- <-. apply IH in Ht. destruct Ht as [-> <-]. now split.
Qed.

Lemma read_n_short n s : (List.length s < n)%nat -> exists e r, read_n n s = (Err e, r).
Proof.
  revert s. induction n as [|n IH]; intros s H; [lia|].
  cbn [read_n]. unfold bind at 1. destruct s as [|b s]; [now exists EEof, []|]. cbn [read_u8].
  cbn [List.length] in H. destruct (IH s) as (e & r & Hr); [lia|]. unfold bind at 1. rewrite Hr. now exists e, r.
Qed.

(* ---- secret keys (unconditional) ------------------------------------------------------------------------- *)
Lemma sk_from_slice_ok k s : sk_from_slice k = Ok s -> List.length k = 32%nat /\ s = le2z k /\ 0 <= s < ell.
Proof.
  unfold sk_from_slice. destruct (Nat.eqb (List.length k) 32) eqn:Hl; cbn [negb]; [|discriminate].
  apply Nat.eqb_eq in Hl. destruct (le2z k <? ell) eqn:Hc; [|discriminate].
  intros H. injection H as <-. apply Z.ltb_lt in Hc. pose proof (le2z_nonneg k). repeat split; auto.
Qed.

Lemma sk_from_slice_iff k : sk_from_slice k = Ok (le2z k) <-> (List.length k = 32%nat /\ le2z k < ell).
Proof.
  split.
  - intros H. apply sk_from_slice_ok in H. tauto.
  - intros [Hl Hc]. unfold sk_from_slice. rewrite Hl. cbn [Nat.eqb negb].
    apply Z.ltb_lt in Hc. now rewrite Hc.
Qed.

Lemma sk_from_slice_rejects k : (List.length k <> 32%nat \/ ell <= le2z k) -> sk_from_slice k = Err EBad.
Proof.
  intros H. unfold sk_from_slice. destruct (Nat.eqb (List.length k) 32) eqn:Hl; cbn [negb]; [|reflexivity].
  apply Nat.eqb_eq in Hl. destruct H as [H|H]; [contradiction|].
  apply Z.ltb_ge in H. now rewrite H.
Qed.

Lemma sk_from_slice_total k : sk_from_slice k = Ok (le2z k) \/ sk_from_slice k = Err EBad.
Proof.
  unfold sk_from_slice. destruct (negb _); [now right|]. destruct (_ <? _); [now left|now right].
Qed.

Lemma sk_bytes_back k s : sk_from_slice k = Ok s -> sk_to_bytes s = k.
Proof.
  intros H. apply sk_from_slice_ok in H. destruct H as (Hl & -> & _).
  unfold sk_to_bytes. rewrite <- Hl. apply z2le_le2z.
Qed.

Lemma sk_from_to_bytes s : 0 <= s < ell -> sk_from_slice (sk_to_bytes s) = Ok s.
Proof.
  intros Hs. pose proof ell_lt as He. unfold sk_from_slice, sk_to_bytes.
  rewrite z2le_length. cbn [Nat.eqb negb]. rewrite le2z_z2le32 by lia.
  destruct (Z.ltb_spec s ell); [reflexivity|lia].
Qed.

Lemma sk_str_back t s : sk_from_str t = Ok s -> hex_decode t = Ok (sk_to_bytes s).
Proof.
  unfold sk_from_str, bindr. destruct (hex_decode t) as [k|e|]; try discriminate.
  intros H. now rewrite (sk_bytes_back _ _ H).
Qed.

Lemma sk_to_from_str s : 0 <= s < ell -> sk_from_str (sk_to_string s) = Ok s.
Proof.
  intros Hs. unfold sk_from_str, sk_to_string. rewrite hex_decode_encode. cbn [bindr]. now apply sk_from_to_bytes.
Qed.

Lemma sk_display_of_accepted k s : sk_from_slice k = Ok s -> sk_to_string s = hex_encode k /\ sk_from_str (hex_encode k) = Ok s.
Proof.
  intros H. unfold sk_to_string. rewrite (sk_bytes_back _ _ H). split; [reflexivity|].
  unfold sk_from_str. rewrite hex_decode_encode. exact H.
Qed.

Lemma dec_sk_app k r : List.length k = 32%nat -> dec_sk (k ++ r) = (sk_from_slice k, r).
Proof.
  intros Hl. unfold dec_sk, bind. rewrite <- Hl at 1. rewrite read_n_app. reflexivity.
Qed.

Lemma dec_sk_ok b s r : dec_sk b = (Ok s, r) -> b = enc_sk s ++ r /\ 0 <= s < ell.
Proof.
  unfold dec_sk, bind. destruct (read_n 32 b) as [[k|e|] r'] eqn:Hr; try discriminate.
  unfold lift_res. intros H. injection H as H <-. apply read_n_ok in Hr. destruct Hr as [-> _].
  unfold enc_sk. rewrite (sk_bytes_back _ _ H). apply sk_from_slice_ok in H. tauto.
Qed.

Lemma dec_enc_sk s r : 0 <= s < ell -> dec_sk (enc_sk s ++ r) = (Ok s, r).
Proof.
  intros Hs. unfold enc_sk. rewrite dec_sk_app by apply z2le_length. now rewrite sk_from_to_bytes.
Qed.

Lemma dec_sk_short b : (List.length b < 32)%nat -> exists e r, dec_sk b = (Err e, r).
Proof.
  intros H. destruct (read_n_short 32 b H) as (e & r & Hr). unfold dec_sk, bind. rewrite Hr. now exists e, r.
Qed.

Lemma dec_sk_never_panics b r : dec_sk b <> (Panic, r).
Proof.
  unfold dec_sk, bind. destruct (read_n 32 b) as [[k|e|] r'] eqn:Hr; try discriminate.
  - unfold lift_res. destruct (sk_from_slice_total k) as [-> | ->]; discriminate.
  - exfalso. clear -Hr. revert Hr. generalize 32%nat. intros n. revert b r'.
    induction n as [|n IH]; intros b r' H; [discriminate|].
    cbn [read_n] in H. unfold bind at 1 in H. destruct b as [|x b]; [discriminate|]. cbn [read_u8] in H.
    unfold bind at 1 in H. destruct (read_n n b) as [[t|e|] r''] eqn:Ht; try discriminate. now apply IH in Ht.
Qed.

Lemma sk_add_range a b : 0 <= sk_add a b < ell.
Proof. unfold sk_add. apply Z.mod_pos_bound. apply ell_lt. Qed.
Lemma sk_mul_range a b : 0 <= sk_mul a b < ell.
Proof. unfold sk_mul. apply Z.mod_pos_bound. apply ell_lt. Qed.

(* ---- public keys (for every instance of the laws) ----------------------------------------------------------- *)
Section KeysProofs.
Context {E : EdOps} {LW : EdLaws E}.

Lemma pk_from_slice_ok k k' : pk_from_slice k = Ok k' ->
  k' = k /\ List.length k = 32%nat /\ exists P, valid P /\ decompress k = Some P /\ compress P = k.
Proof.
  unfold pk_from_slice. destruct (Nat.eqb (List.length k) 32) eqn:Hl; cbn [negb]; [|discriminate].
  apply Nat.eqb_eq in Hl. destruct (decompress k) as [P|] eqn:Hd; [|discriminate].
  destruct (bytes_eqb (compress P) k) eqn:Hc; [|discriminate].
  intros H. injection H as <-. apply bytes_eqb_eq in Hc. repeat split; auto.
  exists P. repeat split; auto. eapply decompress_valid; eauto.
Qed.

Lemma pk_from_slice_compress P : valid P -> pk_from_slice (compress P) = Ok (compress P).
Proof.
  intros HP. unfold pk_from_slice. rewrite compress_len by exact HP. cbn [Nat.eqb negb].
  rewrite decompress_compress by exact HP. now rewrite bytes_eqb_refl.
Qed.

Lemma pk_from_slice_iff k : pk_from_slice k = Ok k <-> exists P, valid P /\ compress P = k.
Proof.
  split.
  - intros H. apply pk_from_slice_ok in H. destruct H as (_ & _ & P & HP & _ & Hc). now exists P.
  - intros (P & HP & <-). now apply pk_from_slice_compress.
Qed.

Lemma pk_from_slice_total k : pk_from_slice k = Ok k \/ pk_from_slice k = Err EBad.
Proof.
  unfold pk_from_slice. destruct (negb _); [now right|]. destruct (decompress k); [|now right].
  destruct (bytes_eqb _ _); [now left|now right].
Qed.

Lemma pk_str_back t k : pk_from_str t = Ok k -> hex_decode t = Ok k.
Proof.
  unfold pk_from_str, bindr. destruct (hex_decode t) as [k0|e|]; try discriminate.
  intros H. apply pk_from_slice_ok in H. destruct H as [-> _]. reflexivity.
Qed.

Lemma pk_display_of_accepted k : pk_from_slice k = Ok k -> pk_from_str (pk_to_string k) = Ok k.
Proof. intros H. unfold pk_from_str, pk_to_string. rewrite hex_decode_encode. exact H. Qed.

Lemma dec_pk_app k r : List.length k = 32%nat -> dec_pk (k ++ r) = (pk_from_slice k, r).
Proof. intros Hl. unfold dec_pk, bind. rewrite <- Hl at 1. rewrite read_n_app. reflexivity. Qed.

Lemma dec_pk_ok b k r : dec_pk b = (Ok k, r) -> b = enc_pk k ++ r /\ pk_from_slice k = Ok k.
Proof.
  unfold dec_pk, bind. destruct (read_n 32 b) as [[k0|e|] r'] eqn:Hr; try discriminate.
  unfold lift_res. intros H. injection H as H <-. apply read_n_ok in Hr. destruct Hr as [-> _].
  pose proof (pk_from_slice_ok _ _ H) as [-> _]. split; [reflexivity|exact H].
Qed.

Lemma dec_enc_pk k r : pk_from_slice k = Ok k -> dec_pk (enc_pk k ++ r) = (Ok k, r).
Proof.
  intros H. pose proof (pk_from_slice_ok _ _ H) as (_ & Hl & _). unfold enc_pk. rewrite dec_pk_app by exact Hl.
  now rewrite H.
Qed.

(* operators on encodings of valid points *)
Lemma pk_point_compress P : valid P -> pk_point (compress P) = Ok P.
Proof. intros HP. unfold pk_point. now rewrite decompress_compress. Qed.

Lemma pk_point_accepted k : pk_from_slice k = Ok k -> exists P, valid P /\ pk_point k = Ok P /\ compress P = k.
Proof.
  intros H. apply pk_from_slice_ok in H. destruct H as (_ & _ & P & HP & Hd & Hc).
  exists P. unfold pk_point. rewrite Hd. auto.
Qed.

Lemma pk_add_compress P Q : valid P -> valid Q -> pk_add (compress P) (compress Q) = Ok (compress (padd P Q)).
Proof. intros HP HQ. unfold pk_add. now rewrite !pk_point_compress. Qed.

Lemma pk_sub_compress P Q : valid P -> valid Q -> pk_sub (compress P) (compress Q) = Ok (compress (psub P Q)).
Proof. intros HP HQ. unfold pk_sub. now rewrite !pk_point_compress. Qed.

Lemma sk_mul_pk_compress s P : valid P -> sk_mul_pk s (compress P) = Ok (compress (smul s P)).
Proof. intros HP. unfold sk_mul_pk. now rewrite pk_point_compress. Qed.

Lemma pk_from_priv_accepted s : pk_from_slice (pk_from_priv s) = Ok (pk_from_priv s).
Proof. apply pk_from_slice_compress. auto with ed. Qed.

Lemma pk_from_priv_mod s : pk_from_priv (s mod ell) = pk_from_priv s.
Proof. unfold pk_from_priv. now rewrite smul_mod_G. Qed.

(* accepted operands never panic and give accepted results *)
Lemma pk_add_accepted a b : pk_from_slice a = Ok a -> pk_from_slice b = Ok b ->
  exists c, pk_add a b = Ok c /\ pk_from_slice c = Ok c.
Proof.
  intros Ha Hb. apply pk_from_slice_iff in Ha. apply pk_from_slice_iff in Hb.
  destruct Ha as (P & HP & <-). destruct Hb as (Q & HQ & <-).
  exists (compress (padd P Q)). split; [now apply pk_add_compress|]. apply pk_from_slice_compress. auto with ed.
Qed.

Lemma pk_sub_accepted a b : pk_from_slice a = Ok a -> pk_from_slice b = Ok b ->
  exists c, pk_sub a b = Ok c /\ pk_from_slice c = Ok c.
Proof.
  intros Ha Hb. apply pk_from_slice_iff in Ha. apply pk_from_slice_iff in Hb.
  destruct Ha as (P & HP & <-). destruct Hb as (Q & HQ & <-).
  exists (compress (psub P Q)). split; [now apply pk_sub_compress|]. apply pk_from_slice_compress. auto with ed.
Qed.

Lemma sk_mul_pk_accepted s a : pk_from_slice a = Ok a ->
  exists c, sk_mul_pk s a = Ok c /\ pk_from_slice c = Ok c.
Proof.
  intros Ha. apply pk_from_slice_iff in Ha. destruct Ha as (P & HP & <-).
  exists (compress (smul s P)). split; [now apply sk_mul_pk_compress|]. apply pk_from_slice_compress. auto with ed.
Qed.

(* the operators panic exactly when a stored key does not decompress *)
Lemma pk_add_panics a b : pk_add a b = Panic <-> (decompress a = None \/ decompress b = None).
Proof.
  unfold pk_add, pk_point, bindr. destruct (decompress a); destruct (decompress b); split; intros H;
    try discriminate; try tauto; destruct H; discriminate.
Qed.

(* ---- arithmetic is the group law ------------------------------------------------------------------------------ *)
Lemma pub_add a b : pk_add (pk_from_priv a) (pk_from_priv b) = Ok (pk_from_priv (sk_add a b)).
Proof.
  unfold pk_from_priv at 1 2. rewrite pk_add_compress by auto with ed.
  unfold sk_add. rewrite pk_from_priv_mod. unfold pk_from_priv. now rewrite smul_add by auto with ed.
Qed.

Lemma pub_mul a b : sk_mul_pk a (pk_from_priv b) = Ok (pk_from_priv (sk_mul a b)).
Proof.
  unfold pk_from_priv at 1. rewrite sk_mul_pk_compress by auto with ed.
  unfold sk_mul. rewrite pk_from_priv_mod. unfold pk_from_priv. now rewrite smul_mul by auto with ed.
Qed.

Lemma pub_is_smul s : pk_from_priv s = compress (smul s G).
Proof. reflexivity. Qed.

Lemma pk_add_sub p q : pk_from_slice p = Ok p -> pk_from_slice q = Ok q ->
  bindr (pk_add p q) (fun r => pk_sub r q) = Ok p.
Proof.
  intros Hp Hq. apply pk_from_slice_iff in Hp. apply pk_from_slice_iff in Hq.
  destruct Hp as (P & HP & <-). destruct Hq as (Q & HQ & <-).
  rewrite pk_add_compress by auto. cbn [bindr]. rewrite pk_sub_compress by auto with ed.
  now rewrite psub_add.
Qed.

Lemma pk_add_is_group_law P Q : valid P -> valid Q ->
  pk_add (compress P) (compress Q) = Ok (compress (padd P Q)) /\
  pk_sub (compress P) (compress Q) = Ok (compress (padd P (pneg Q))) /\
  forall s, sk_mul_pk s (compress P) = Ok (compress (smul s P)).
Proof.
  intros HP HQ. split; [now apply pk_add_compress|]. split; [now apply pk_sub_compress|].
  intros s. now apply sk_mul_pk_compress.
Qed.

Lemma pk_add_comm p q : pk_from_slice p = Ok p -> pk_from_slice q = Ok q -> pk_add p q = pk_add q p.
Proof.
  intros Hp Hq. apply pk_from_slice_iff in Hp. apply pk_from_slice_iff in Hq.
  destruct Hp as (P & HP & <-). destruct Hq as (Q & HQ & <-).
  rewrite !pk_add_compress by auto. now rewrite padd_comm.
Qed.

End KeysProofs.
