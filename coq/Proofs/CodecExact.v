(* CodecExact.v — C01: whatever a decoder accepts re-serialises to exactly the bytes consumed.
   One `Exact` instance per type of Codec.v, for every size table. *)
From MRS Require Export Proofs.CodecBase.
Open Scope N_scope.

Ltac eqb_subst :=
  repeat match goal with
         | H : (_ =? _) = true |- _ => apply N.eqb_eq in H; subst
         | H : (_ || _) = true |- _ => apply orb_true_iff in H
         end.

Ltac exact_tac := intros s a r H; dec_inv; use_exact; eqb_subst; cbn; app_norm.

Global Instance exact_txin : Exact dec_txin enc_txin.
Proof. unfold enc_txin, dec_txin. exact_tac. Qed.

Global Instance exact_target : Exact dec_target enc_target.
Proof. unfold enc_target, dec_target, dec_arr. exact_tac. Qed.

Global Instance exact_txout : Exact dec_txout enc_txout.
Proof. unfold enc_txout, dec_txout. exact_tac. Qed.

Global Instance exact_prefix sz : Exact (dec_prefix sz) enc_prefix.
Proof. unfold enc_prefix, dec_prefix. exact_tac. Qed.

Global Instance exact_rct_type : Exact dec_rct_type enc_rct_type.
Proof. unfold dec_rct_type, enc_rct_type. exact_tac. Qed.

Global Instance exact_signature : Exact dec_signature enc_signature.
Proof. unfold enc_signature, dec_signature, dec_hash, dec_arr. exact_tac. Qed.

Global Instance exact_ecdh t : Exact (dec_ecdh t) enc_ecdh.
Proof. unfold enc_ecdh, dec_ecdh, dec_hash, dec_hash8, dec_arr. destruct t; exact_tac. Qed.

Global Instance exact_borosig : Exact dec_borosig enc_borosig.
Proof. unfold enc_borosig, dec_borosig, dec_key64, dec_hash, dec_arr. exact_tac. Qed.

Global Instance exact_rangesig : Exact dec_rangesig enc_rangesig.
Proof. unfold enc_rangesig, dec_rangesig, dec_key64, dec_arr. exact_tac. Qed.

Global Instance exact_hash : Exact dec_hash enc_arr.
Proof. unfold dec_hash, dec_arr, enc_arr. exact_tac. Qed.

Global Instance exact_bulletproof : Exact dec_bulletproof enc_bulletproof.
Proof. unfold enc_bulletproof, dec_bulletproof. intros s a r H. dec_inv. use_exact. cbn. unfold enc_arr. app_norm. Qed.

Global Instance exact_bpplus : Exact dec_bpplus enc_bpplus.
Proof. unfold enc_bpplus, dec_bpplus. intros s a r H. dec_inv. use_exact. cbn. unfold enc_arr. app_norm. Qed.

Global Instance exact_header : Exact dec_header enc_header.
Proof. unfold enc_header, dec_header, dec_u32. intros s a r H. dec_inv. use_exact. cbn. unfold enc_arr. app_norm. Qed.

Global Instance exact_clsag mixin : Exact (dec_clsag mixin) enc_clsag.
Proof. unfold enc_clsag, dec_clsag. intros s a r H. dec_inv. use_exact. cbn. unfold enc_arr. app_norm. Qed.

Global Instance exact_mgsig mixin cols : Exact (dec_mgsig mixin cols) enc_mgsig.
Proof. unfold enc_mgsig, dec_mgsig. intros s a r H. dec_inv. use_exact. cbn. unfold enc_arr. app_norm. Qed.

Global Instance exact_rct_base n_in n_out : Exact (dec_rct_base n_in n_out) enc_rct_base.
Proof.
  unfold enc_rct_base, dec_rct_base. intros s a r H.
  apply bind_ok in H. destruct H as (t & r1 & Ht & H). apply exact_pf in Ht. subst.
  destruct t; dec_inv; use_exact; cbn; unfold enc_arr; app_norm.
Qed.

Lemma exact_rct_prunable sz t n_in n_out mixin s a r :
  t <> RNull -> dec_rct_prunable sz t n_in n_out mixin s = (Ok a, r) -> s = enc_rct_prunable a t ++ r.
Proof.
  unfold enc_rct_prunable, dec_rct_prunable. intros Ht H.
  destruct t; try congruence; dec_inv; unfold dec_u32 in *; keep_len; use_exact; cbn; unfold enc_arr; app_norm.
  match goal with Hb : lenN ?l < 256 ^ N.of_nat 4 |- _ =>
    rewrite (N.mod_small (lenN l)) by (change (2 ^ 32) with (256 ^ N.of_nat 4); exact Hb) end.
  reflexivity.
Qed.

Lemma exact_v1_sigs ins : Exact (dec_v1_sigs ins) (enc_list (enc_list enc_signature)).
Proof.
  induction ins as [|i t IH]; intros s a r H; cbn [dec_v1_sigs] in H.
  - apply ret_ok in H. destruct H; subst. reflexivity.
  - destruct i as [h|am ko ki].
    + now apply IH in H.
    + dec_inv. apply IH in Hd0. use_exact. subst.
      change (enc_list (enc_list enc_signature) (a0 :: a1))
        with (enc_list enc_signature a0 ++ enc_list (enc_list enc_signature) a1).
      app_norm.
Qed.
Global Existing Instance exact_v1_sigs.

Global Instance exact_tx sz : Exact (dec_tx sz) enc_tx.
Proof.
  unfold dec_tx, enc_tx. intros s a r H.
  apply bind_ok in H. destruct H as (p & r1 & Hp & H). apply exact_pf in Hp. subst.
  destruct (version p =? 1) eqn:Ev.
  - dec_inv. use_exact. cbn. rewrite Ev. app_norm.
  - destruct (lenN (inputs p) =? 0) eqn:Ei.
    + dec_inv. cbn. rewrite Ev. app_norm.
    + apply bind_ok in H. destruct H as (sig & r2 & Hs & H). apply exact_pf in Hs. subst.
      destruct (rb_type sig) eqn:Et; [dec_inv; cbn; rewrite Ev; app_norm|..].
      all: match type of H with
             | (match ?m with Some _ => _ | None => _ end) _ = _ => destruct m eqn:Em; [|discriminate H]
             end;
          apply bind_ok in H; destruct H as (pr & r3 & Hpr & H);
          apply exact_rct_prunable in Hpr; [|discriminate]; subst;
          apply ret_ok in H; destruct H; subst;
          cbn [tx_prefix tx_rct rct_base_of rct_p tx_signatures]; rewrite Ev, Et; app_norm.
Qed.

Global Instance exact_block sz : Exact (dec_block sz) enc_block.
Proof. unfold enc_block, dec_block. intros s a r H. dec_inv. use_exact. cbn. app_norm. Qed.

(* String / multisig records (not reachable from Block, listed for completeness of the codec) *)
Global Instance exact_string : Exact dec_string enc_string.
Proof. unfold dec_string, enc_string. intros s a r H. dec_inv. use_exact. reflexivity. Qed.
Global Instance exact_klrki : Exact dec_klrki enc_klrki.
Proof. unfold dec_klrki, enc_klrki, dec_hash, dec_arr. exact_tac. Qed.
