(* AllocTotal.v — C04: ALL pre-allocations that a successful parse keeps, TOGETHER, are linear in the bytes consumed.
   kept_* sums `size_of T * len` over every `Vec::with_capacity(len)` site of the decoders (dec_vec / dec_sized / Vec<u8>)
   that the decoder reaches for the value's shape.  Bound: kept <= 32 * consumed, for every size table within the ratio 32 of the
   minimal wire sizes (the real table is: TxIn 64 bytes per >= 2 wire bytes is the worst case). *)
From MRS Require Export Proofs.CodecBase Proofs.CodecLen.
Open Scope N_scope.

(* d, on success, consumes at least kmin bytes, and what it keeps allocated is at most 32 * (consumed - kmin) *)
Class KeptC {A} (d : dec A) (kept : A -> N) (kmin : N) :=
  keptc_pf : forall s a r, d s = (Ok a, r) -> lenN r + kmin <= lenN s /\ kept a + 32 * kmin + 32 * lenN r <= 32 * lenN s.

Lemma keptc_weaken {A} (d : dec A) kept k k' : k' <= k -> KeptC d kept k -> KeptC d kept k'.
Proof. intros Hk H s a r Hd. destruct (H s a r Hd). lia. Qed.

Definition nokeep {A} (_ : A) : N := 0.

(* instance search must not unfold decoders while matching them against instance heads *)
#[global] Typeclasses Opaque read_u8 read_n rep dec_u8 dec_uint dec_u16 dec_u32 dec_u64 dec_arr dec_hash dec_hash8 dec_key64
  dec_varint dec_len dec_vec dec_sized dec_bytes_vec dec_txin dec_target dec_txout dec_prefix dec_signature dec_rct_type dec_ecdh
  dec_borosig dec_rangesig dec_clsag dec_mgsig dec_bulletproof dec_bpplus dec_rct_base dec_rct_prunable dec_v1_sigs dec_tx
  dec_header dec_block.

Global Instance keptc_read_u8 : KeptC read_u8 nokeep 1.
Proof. intros s a r H. apply read_u8_ok in H. subst. rewrite lenN_cons. unfold nokeep. lia. Qed.
Global Instance keptc_read_n n : KeptC (read_n n) nokeep (N.of_nat n).
Proof. intros s a r H. apply read_n_ok in H. destruct H as [-> <-]. rewrite lenN_app. unfold nokeep, lenN. lia. Qed.
Global Instance keptc_u8 : KeptC dec_u8 nokeep 1.
Proof. intros s a r H. apply dmap_ok in H. destruct H as (b & H & _). apply (keptc_pf (d := read_u8)) in H. exact H. Qed.
Global Instance keptc_uint k : KeptC (dec_uint k) nokeep (N.of_nat k).
Proof. intros s a r H. apply dmap_ok in H. destruct H as (b & H & _). apply (keptc_pf (d := read_n k)) in H. exact H. Qed.
Global Instance keptc_u32 : KeptC dec_u32 nokeep 4.
Proof. exact (keptc_uint 4). Qed.
Global Instance keptc_arr k : KeptC (dec_arr k) nokeep (N.of_nat k).
Proof. exact (keptc_read_n k). Qed.
Global Instance keptc_hash : KeptC dec_hash nokeep 32.
Proof. exact (keptc_read_n 32). Qed.
Global Instance keptc_hash8 : KeptC dec_hash8 nokeep 8.
Proof. exact (keptc_read_n 8). Qed.
Global Instance keptc_key64 : KeptC dec_key64 nokeep 2048.
Proof. exact (keptc_read_n 2048). Qed.
Global Instance keptc_varint : KeptC dec_varint nokeep 1.
Proof.
  intros s a r H. apply dec_varint_sound in H. destruct H as [Ha ->]. rewrite lenN_app.
  pose proof (enc_varint_len_bounds a Ha). unfold nokeep, lenN. lia.
Qed.

(* ---- repetition and vectors ------------------------------------------------------------------------------------------ *)
Definition kept_list {A} (kept : A -> N) (l : list A) : N := rl_sum kept l.

Lemma keptc_repn {A} (d : dec A) kept kmin `{KeptC A d kept kmin} n : forall s l r,
  repn n d s = (Ok l, r) ->
  length l = n /\ lenN r + kmin * lenN l <= lenN s /\ kept_list kept l + 32 * (kmin * lenN l) + 32 * lenN r <= 32 * lenN s.
Proof.
  induction n as [|n IH]; intros s l r Hr; cbn [repn] in Hr.
  - apply ret_ok in Hr. destruct Hr; subst. cbn. unfold lenN. cbn. lia.
  - apply bind_ok in Hr. destruct Hr as (a & r1 & H1 & H2). apply bind_ok in H2. destruct H2 as (t & r2 & H2 & H3).
    apply ret_ok in H3. destruct H3; subst. apply keptc_pf in H1. apply IH in H2. destruct H1 as [A1 A2]. destruct H2 as (B0 & B1 & B2).
    unfold kept_list in *. cbn [rl_sum fold_right length]. fold (rl_sum kept t). rewrite lenN_cons. split; [lia|]. lia.
Qed.

Lemma keptc_rep {A} (d : dec A) kept kmin `{KeptC A d kept kmin} n s l r :
  rep n d s = (Ok l, r) ->
  lenN l = n /\ lenN r + kmin * lenN l <= lenN s /\ kept_list kept l + 32 * (kmin * lenN l) + 32 * lenN r <= 32 * lenN s.
Proof.
  rewrite rep_repn. intros Hr. apply (keptc_repn d kept kmin) in Hr. destruct Hr as (H0 & H1 & H2).
  split; [unfold lenN; lia|auto].
Qed.

Global Instance keptc_rep_inst {A} (d : dec A) kept kmin `{KeptC A d kept kmin} n : KeptC (rep n d) (kept_list kept) 0.
Proof. intros s l r Hr. apply (keptc_rep d kept kmin) in Hr. destruct Hr as (_ & H1 & H2). lia. Qed.

(* Vec<T>::consensus_decode: Vec::with_capacity(len) of `size`-byte elements, then len elements *)
Definition kept_vec {A} (size : N) (kept : A -> N) (l : list A) : N := size * lenN l + kept_list kept l.

Lemma keptc_vec {A} (d : dec A) kept kmin `{KeptC A d kept kmin} size :
  size <= 32 * kmin -> KeptC (dec_vec size d) (kept_vec size kept) 1.
Proof.
  intros Hs s l r Hd. unfold dec_vec, dec_len in Hd. apply bind_ok in Hd. destruct Hd as (n & r1 & H1 & H2).
  apply (keptc_pf (d := dec_varint)) in H1. destruct (over_cap size n); [discriminate|].
  apply (keptc_rep d kept kmin) in H2. destruct H1 as [A1 A2]. destruct H2 as (B0 & B1 & B2).
  unfold kept_vec. assert (size * lenN l <= 32 * (kmin * lenN l)) by nia. unfold nokeep in *. lia.
Qed.

Lemma keptc_sized {A} (d : dec A) kept kmin `{KeptC A d kept kmin} size n :
  size <= 32 * kmin -> KeptC (dec_sized size n d) (kept_vec size kept) 0.
Proof.
  intros Hs s l r Hd. unfold dec_sized in Hd. destruct (over_cap size n); [discriminate|].
  apply (keptc_rep d kept kmin) in Hd. destruct Hd as (B0 & B1 & B2).
  unfold kept_vec. assert (size * lenN l <= 32 * (kmin * lenN l)) by nia. lia.
Qed.

Global Instance keptc_bytes_vec : KeptC dec_bytes_vec (fun b => lenN b) 1.
Proof.
  intros s l r Hd. unfold dec_bytes_vec in Hd.
  pose proof (keptc_vec read_u8 nokeep 1 1 ltac:(lia) s l r Hd) as [H1 H2].
  unfold kept_vec, kept_list in H2.
  assert (E : rl_sum (@nokeep byte) l = 0).
  { clear. induction l as [|x t IH]; [reflexivity|]. cbn [rl_sum fold_right]. fold (rl_sum (@nokeep byte) t). unfold nokeep at 1. lia. }
  lia.
Qed.

(* ---- inversion helper: turn every primitive parse fact into its consumption / kept inequalities --------------------------- *)
Ltac use_kept :=
  repeat match goal with
         | H : ?d ?s = (Ok ?a, ?r) |- _ => apply (keptc_pf (d := d)) in H
         end.
Ltac kfin := unfold nokeep in *; lia.

(* ---- what each parsed value keeps allocated (Vec::with_capacity sites only) ------------------------------------------------ *)
Definition kept_txin (i : txin) : N :=
  match i with Gen _ => 0 | ToKey _ ko _ => kept_vec 8 nokeep ko end.
Definition kept_bp (p : bulletproof) : N := kept_vec 32 nokeep (bp_L p) + kept_vec 32 nokeep (bp_R p).
Definition kept_bpp (p : bpplus) : N := kept_vec 32 nokeep (bpp_L p) + kept_vec 32 nokeep (bpp_R p).
Definition kept_mg (m : mgsig) : N := kept_list (kept_vec 32 nokeep) (mg_ss m).

Section Sized.
  Variable sz : sizes.
  (* the size table is within the ratio 32 of the minimal wire sizes (TxIn: 2 bytes, TxOut: 34, Bulletproof: 290, Bulletproof+: 194,
     RangeSig: 6176); the real table (64, 48, 6176, 336, 240) is *)
  Hypothesis Hsz : sz_txin sz <= 64 /\ sz_txout sz <= 32 * 34 /\ sz_bulletproof sz <= 32 * 290 /\
                   sz_bpplus sz <= 32 * 194 /\ sz_rangesig sz <= 32 * 6176.

  Definition kept_prefix (p : txprefix) : N :=
    kept_vec (sz_txin sz) kept_txin (inputs p) + kept_vec (sz_txout sz) nokeep (outputs p) + lenN (extra p).
  Definition kept_base (b : rct_base) : N :=
    match rb_type b with
    | RNull => 0
    | t => (if rct_type_eqb t RSimple then kept_vec 32 nokeep (rb_pseudo_outs b) else 0) + kept_vec 32 nokeep (rb_out_pk b)
    end.
  Definition kept_prunable (t : rct_type) (p : rct_prunable) : N :=
    (if is_rct_bp t then kept_vec (sz_bulletproof sz) kept_bp (rp_bulletproofs p)
     else if is_rct_bp_plus t then kept_vec (sz_bpplus sz) kept_bpp (rp_bulletproofplus p)
     else kept_vec (sz_rangesig sz) nokeep (rp_range_sigs p)) +
    (if uses_clsag t then 0 else kept_list kept_mg (rp_MGs p)) +
    (if has_p_pseudo t then kept_vec 32 nokeep (rp_pseudo_outs p) else 0).
  Definition kept_tx (t : tx) : N :=
    kept_prefix (tx_prefix t) +
    match rct_base_of (tx_rct t) with
    | Some b => kept_base b + match rct_p (tx_rct t) with Some p => kept_prunable (rb_type b) p | None => 0 end
    | None => 0
    end.
  Definition kept_block (b : block) : N := kept_tx (miner_tx b) + kept_vec 32 nokeep (tx_hashes b).

  (* vectors *)
  Global Instance k_vec_varint : KeptC (dec_vec 8 dec_varint) (kept_vec 8 nokeep) 1.
  Proof. apply (keptc_vec dec_varint nokeep 1). lia. Qed.
  Global Instance k_vec_hash : KeptC (dec_vec 32 dec_hash) (kept_vec 32 nokeep) 1.
  Proof. apply (keptc_vec dec_hash nokeep 32). lia. Qed.
  Global Instance k_sized_hash n : KeptC (dec_sized 32 n dec_hash) (kept_vec 32 nokeep) 0.
  Proof. apply (keptc_sized dec_hash nokeep 32). lia. Qed.

  Global Instance k_txin : KeptC dec_txin kept_txin 2.
  Proof.
    intros s a r H. unfold dec_txin in H. dec_inv; use_kept; cbn [kept_txin]; kfin.
  Qed.
  Global Instance k_target : KeptC dec_target nokeep 33.
  Proof. intros s a r H. unfold dec_target, dec_arr in H. dec_inv; use_kept; kfin. Qed.
  Global Instance k_txout : KeptC dec_txout nokeep 34.
  Proof. intros s a r H. unfold dec_txout in H. dec_inv; use_kept; kfin. Qed.
  Global Instance k_vec_txin : KeptC (dec_vec (sz_txin sz) dec_txin) (kept_vec (sz_txin sz) kept_txin) 1.
  Proof. apply (keptc_vec dec_txin kept_txin 2). lia. Qed.
  Global Instance k_vec_txout : KeptC (dec_vec (sz_txout sz) dec_txout) (kept_vec (sz_txout sz) nokeep) 1.
  Proof. apply (keptc_vec dec_txout nokeep 34). lia. Qed.

  Global Instance k_prefix : KeptC (dec_prefix sz) kept_prefix 5.
  Proof.
    intros s a r H. unfold dec_prefix in H. dec_inv; use_kept.
    unfold kept_prefix. cbn [inputs outputs extra]. kfin.
  Qed.

  Global Instance k_signature : KeptC dec_signature nokeep 64.
  Proof. intros s a r H. unfold dec_signature in H. dec_inv; use_kept; kfin. Qed.
  Global Instance k_ecdh t : KeptC (dec_ecdh t) nokeep 8.
  Proof. intros s a r H. unfold dec_ecdh in H. destruct t; dec_inv; use_kept; kfin. Qed.
  Global Instance k_rct_type : KeptC dec_rct_type nokeep 1.
  Proof. intros s a r H. unfold dec_rct_type in H. dec_inv; use_kept; kfin. Qed.
  Global Instance k_rangesig : KeptC dec_rangesig nokeep 6176.
  Proof. intros s a r H. unfold dec_rangesig, dec_borosig in H. dec_inv; use_kept; kfin. Qed.
  Global Instance k_bulletproof : KeptC dec_bulletproof kept_bp 290.
  Proof. intros s a r H. unfold dec_bulletproof in H. dec_inv; use_kept. unfold kept_bp. cbn [bp_L bp_R]. kfin. Qed.
  Global Instance k_bpplus : KeptC dec_bpplus kept_bpp 194.
  Proof. intros s a r H. unfold dec_bpplus in H. dec_inv; use_kept. unfold kept_bpp. cbn [bpp_L bpp_R]. kfin. Qed.
  Global Instance k_clsag m : KeptC (dec_clsag m) nokeep 64.
  Proof.
    intros s a r H. unfold dec_clsag in H. dec_inv.
    match goal with H : rep _ dec_hash _ = _ |- _ => apply (keptc_pf (d := rep _ dec_hash)) in H end.
    use_kept. kfin.
  Qed.
  Global Instance k_mgsig m c : KeptC (dec_mgsig m c) kept_mg 32.
  Proof.
    intros s a r H. unfold dec_mgsig in H. dec_inv.
    match goal with H : rep _ (dec_sized 32 c dec_hash) _ = _ |- _ =>
      apply (keptc_pf (d := rep _ (dec_sized 32 c dec_hash))) in H end.
    use_kept. unfold kept_mg. cbn [mg_ss]. kfin.
  Qed.
  Global Instance k_vec_bp : KeptC (dec_vec (sz_bulletproof sz) dec_bulletproof) (kept_vec (sz_bulletproof sz) kept_bp) 1.
  Proof. apply (keptc_vec dec_bulletproof kept_bp 290). lia. Qed.
  Global Instance k_sized_bp n : KeptC (dec_sized (sz_bulletproof sz) n dec_bulletproof) (kept_vec (sz_bulletproof sz) kept_bp) 0.
  Proof. apply (keptc_sized dec_bulletproof kept_bp 290). lia. Qed.
  Global Instance k_vec_bpp : KeptC (dec_vec (sz_bpplus sz) dec_bpplus) (kept_vec (sz_bpplus sz) kept_bpp) 1.
  Proof. apply (keptc_vec dec_bpplus kept_bpp 194). lia. Qed.
  Global Instance k_sized_rs n : KeptC (dec_sized (sz_rangesig sz) n dec_rangesig) (kept_vec (sz_rangesig sz) nokeep) 0.
  Proof. apply (keptc_sized dec_rangesig nokeep 6176). lia. Qed.

  Lemma k_rct_base n_in n_out : KeptC (dec_rct_base n_in n_out) kept_base 1.
  Proof.
    intros s a r H. unfold dec_rct_base in H. apply bind_ok in H. destruct H as (t & r1 & Ht & H).
    apply (keptc_pf (d := dec_rct_type)) in Ht.
    destruct t; dec_inv;
      repeat match goal with
             | H : rep _ (dec_ecdh _) _ = _ |- _ => apply (keptc_pf (d := rep _ (dec_ecdh _))) in H
             end;
      use_kept; unfold kept_base; cbn [rb_type rb_pseudo_outs rb_out_pk rct_type_eqb]; kfin.
  Qed.

  Lemma k_rct_prunable t n_in n_out mixin : t <> RNull ->
    KeptC (dec_rct_prunable sz t n_in n_out mixin) (kept_prunable t) 0.
  Proof.
    intros Ht s a r H. unfold dec_rct_prunable in H.
    destruct t; try congruence; dec_inv;
      repeat match goal with
             | H : rep _ (dec_clsag _) _ = _ |- _ => apply (keptc_pf (d := rep _ (dec_clsag _))) in H
             | H : rep _ (dec_mgsig _ _) _ = _ |- _ => apply (keptc_pf (d := rep _ (dec_mgsig _ _))) in H
             end;
      use_kept; unfold kept_prunable;
      cbn [is_rct_bp is_rct_bp_plus uses_clsag has_p_pseudo rp_range_sigs rp_bulletproofs rp_bulletproofplus rp_MGs rp_Clsags rp_pseudo_outs];
      kfin.
  Qed.

  Lemma k_v1_sigs ins : KeptC (dec_v1_sigs ins) nokeep 0.
  Proof.
    induction ins as [|i t IH]; intros s a r H; cbn [dec_v1_sigs] in H.
    - apply ret_ok in H. destruct H; subst. unfold nokeep. lia.
    - destruct i as [h|am ko ki]; [exact (IH s a r H)|].
      dec_inv. apply IH in Hd0.
      match goal with H : rep _ dec_signature _ = _ |- _ => apply (keptc_pf (d := rep _ dec_signature)) in H end.
      kfin.
  Qed.

  Lemma k_tx : KeptC (dec_tx sz) kept_tx 5.
  Proof.
    intros s a r H. unfold dec_tx in H. apply bind_ok in H. destruct H as (p & r1 & Hp & H).
    apply (keptc_pf (d := dec_prefix sz)) in Hp.
    destruct (version p =? 1).
    - apply bind_ok in H. destruct H as (sg & r2 & Hs & H). apply k_v1_sigs in Hs. apply ret_ok in H. destruct H; subst.
      unfold kept_tx. cbn [tx_prefix tx_rct rct_base_of]. kfin.
    - destruct (lenN (inputs p) =? 0).
      + apply ret_ok in H. destruct H; subst. unfold kept_tx. cbn [tx_prefix tx_rct rct_base_of]. lia.
      + apply bind_ok in H. destruct H as (b & r2 & Hb & H). apply k_rct_base in Hb.
        destruct (rb_type b) eqn:Et;
          [ apply ret_ok in H; destruct H; subst; unfold kept_tx; cbn [tx_prefix tx_rct rct_base_of rct_p]; lia | .. ].
        all: match type of H with
             | (match ?m with Some _ => _ | None => _ end) _ = _ => destruct m; [|discriminate H]
             end;
          apply bind_ok in H; destruct H as (pr & r3 & Hpr & H);
          apply k_rct_prunable in Hpr; [|discriminate];
          apply ret_ok in H; destruct H; subst;
          unfold kept_tx; cbn [tx_prefix tx_rct rct_base_of rct_p]; rewrite Et; lia.
  Qed.

  Lemma k_block : KeptC (dec_block sz) kept_block 5.
  Proof.
    intros s a r H. unfold dec_block, dec_header in H. dec_inv.
    match goal with H : dec_tx sz _ = _ |- _ => apply k_tx in H end.
    use_kept. unfold kept_block. cbn [miner_tx tx_hashes]. kfin.
  Qed.

  (* the statement in terms of consumed bytes *)
  Lemma kept_tx_total s t r : dec_tx sz s = (Ok t, r) -> kept_tx t <= 32 * (lenN s - lenN r).
  Proof. intros H. apply k_tx in H. lia. Qed.
  Lemma kept_block_total s b r : dec_block sz s = (Ok b, r) -> kept_block b <= 32 * (lenN s - lenN r).
  Proof. intros H. apply k_block in H. lia. Qed.
End Sized.
