(* ScanProofs.v — proofs about Model/Scan.v (C07, C08 at scan level, C09), for every instance of EdLaws and every pair of
   hashes.  Part 1: structure of the scan loop (no group law).  Part 2: soundness.  Part 3: completeness w.r.t. Spec/Sender.v. *)
From MRS Require Export Proofs.DeriveProofs Proofs.SubaddrProofs Proofs.VarintProofs Proofs.EcdhProofs Model.Scan Spec.Sender.
From Coq Require Import Sorted.
Open Scope Z_scope.

(* ---- lists ------------------------------------------------------------------------------------------------------------ *)
Lemma uncons_spec {A} (l : list A) : uncons l = (nth_error l 0, tl l).
Proof. destruct l; reflexivity. Qed.

Lemma nth_error_tl {A} (l : list A) k : nth_error (tl l) k = nth_error l (S k).
Proof. destruct l; [now destruct k|reflexivity]. Qed.

Lemma range_list_in lo hi x : In x (range_list lo hi) <-> (lo <= x < hi)%N.
Proof.
  unfold range_list. rewrite in_map_iff. split.
  - intros (k & <- & Hk). apply in_seq in Hk. lia.
  - intros Hx. exists (N.to_nat (x - lo)). split; [lia|]. apply in_seq. lia.
Qed.

Lemma index_grid_in majs mins i : In i (index_grid majs mins) <-> In (fst i) majs /\ In (snd i) mins.
Proof.
  unfold index_grid. rewrite in_flat_map. destruct i as [x y]. cbn [fst snd]. split.
  - intros (m & Hm & Hi). apply in_map_iff in Hi. destruct Hi as (n & Hn & Hi). injection Hn as -> ->. now split.
  - intros [Hx Hy]. exists x. split; [exact Hx|]. apply in_map_iff. now exists y.
Qed.

Section ScanBasics.
Context {E : EdOps}.
Variable Hs : hs_fun.
Variable Hb : bytes -> bytes.

(* the three entry points run the same scan *)
Lemma entry_points_agree v Sb a b c d (t : tx) :
  tx_check_outputs Hs Hb v Sb a b c d t =
    prefix_check_outputs Hs Hb v Sb a b c d (tx_prefix t) (rct_base_of (tx_rct t)) /\
  (forall tb, checker_new Hs v Sb a b c d = Ok tb ->
     tx_check_outputs Hs Hb v Sb a b c d t = tx_check_outputs_with Hs Hb tb v Sb t /\
     tx_check_outputs_with Hs Hb tb v Sb t = check_outputs_with Hs Hb tb v Sb (tx_prefix t) (rct_base_of (tx_rct t))).
Proof.
  split; [reflexivity|]. intros tb Htb. split; [|reflexivity].
  unfold tx_check_outputs, prefix_check_outputs, tx_check_outputs_with. now rewrite Htb.
Qed.

(* ---- the table ---------------------------------------------------------------------------------------------------------- *)
Lemma lookup_some t k i : lookup t k = Some i -> In (k, i) t.
Proof.
  induction t as [|[k' j] r IH]; [discriminate|]. cbn [lookup].
  destruct (lookup r k) as [j'|] eqn:Hl.
  - intros H. injection H as ->. right. now apply IH.
  - destruct (pk_eqb k' k) eqn:Hq; [|discriminate]. intros H. injection H as ->.
    apply bytes_eqb_eq in Hq. subst. now left.
Qed.

Lemma lookup_complete t k i : In (k, i) t -> exists i', lookup t k = Some i' /\ In (k, i') t.
Proof.
  induction t as [|[k' j] r IH]; [contradiction|]. intros [H|H].
  - injection H as -> ->. cbn [lookup]. destruct (lookup r k) as [j'|] eqn:Hl.
    + exists j'. split; [reflexivity|]. right. now apply lookup_some.
    + unfold pk_eqb. rewrite bytes_eqb_refl. exists i. split; [reflexivity|now left].
  - destruct (IH H) as (i' & Hl & Hin). exists i'. cbn [lookup]. rewrite Hl. split; [reflexivity|now right].
Qed.

Lemma lookup_none t k : lookup t k = None -> forall i, ~ In (k, i) t.
Proof. intros Hl i Hin. destruct (lookup_complete _ _ _ Hin) as (i' & H & _). congruence. Qed.

Lemma table_rows_in v Sb idxs t k i : table_rows Hs v Sb idxs = Ok t -> In (k, i) t ->
  In i idxs /\ get_spend_public_key Hs v Sb i = Ok k.
Proof.
  revert t. induction idxs as [|j r IH]; intros t Ht Hin.
  - injection Ht as <-. contradiction.
  - cbn [table_rows] in Ht. destruct (get_spend_public_key Hs v Sb j) as [kj|e|] eqn:Hj; cbn [bindr] in Ht; try discriminate.
    destruct (table_rows Hs v Sb r) as [tr|e|] eqn:Hr; cbn [bindr] in Ht; try discriminate.
    injection Ht as <-. destruct Hin as [H|H].
    + injection H as -> ->. split; [now left|exact Hj].
    + destruct (IH tr eq_refl H) as [H1 H2]. split; [now right|exact H2].
Qed.

Lemma table_rows_complete v Sb idxs t i : table_rows Hs v Sb idxs = Ok t -> In i idxs ->
  exists k, get_spend_public_key Hs v Sb i = Ok k /\ In (k, i) t.
Proof.
  revert t. induction idxs as [|j r IH]; intros t Ht Hin; [contradiction|].
  cbn [table_rows] in Ht. destruct (get_spend_public_key Hs v Sb j) as [kj|e|] eqn:Hj; cbn [bindr] in Ht; try discriminate.
  destruct (table_rows Hs v Sb r) as [tr|e|] eqn:Hr; cbn [bindr] in Ht; try discriminate.
  injection Ht as <-. destruct Hin as [->|H].
  - exists kj. split; [exact Hj|now left].
  - destruct (IH tr eq_refl H) as (k & H1 & H2). exists k. split; [exact H1|now right].
Qed.

Definition in_ranges (a b c d : N) (i : index) : Prop := (a <= fst i < b /\ c <= snd i < d)%N.

Lemma checker_in v Sb a b c d t k i : checker_new Hs v Sb a b c d = Ok t -> In (k, i) t ->
  in_ranges a b c d i /\ get_spend_public_key Hs v Sb i = Ok k.
Proof.
  intros Ht Hin. destruct (table_rows_in _ _ _ _ _ _ Ht Hin) as [H1 H2]. split; [|exact H2].
  apply index_grid_in in H1. destruct H1 as [Hx Hy]. apply range_list_in in Hx. apply range_list_in in Hy. now split.
Qed.

Lemma checker_complete v Sb a b c d t i : checker_new Hs v Sb a b c d = Ok t -> in_ranges a b c d i ->
  exists k, get_spend_public_key Hs v Sb i = Ok k /\ In (k, i) t.
Proof.
  intros Ht [Hx Hy]. apply (table_rows_complete _ _ _ _ _ Ht). apply index_grid_in. split; now apply range_list_in.
Qed.

(* ---- one key, one output --------------------------------------------------------------------------------------------------- *)
Lemma pk_from_slice_id k k' : pk_from_slice k = Ok k' -> k' = k.
Proof.
  unfold pk_from_slice. destruct (negb _); [discriminate|]. destruct (decompress k); [|discriminate].
  destruct (bytes_eqb _ _); [|discriminate]. intros H. now injection H.
Qed.

Lemma as_one_time_key_some tg P : as_one_time_key tg = Some P -> P = target_key tg /\ pk_from_slice P = Ok P.
Proof.
  unfold as_one_time_key. destruct (pk_from_slice (target_key tg)) as [k|e|] eqn:H; try discriminate.
  intros Hk. injection Hk as ->. pose proof (pk_from_slice_id _ _ H) as ->. now split.
Qed.

Lemma check_key_inv t v Sb i o K idx key : check_key Hs Hb t v Sb i o K = Ok (Some (idx, key)) ->
  key = K /\ exists P g c, as_one_time_key (o_target o) = Some P /\ from_key v Sb K = Ok g /\
     check_view_tag Hb (o_target o) (snd g) i = true /\ candidate_spend Hs g i P = Ok c /\ lookup t c = Some idx.
Proof.
  unfold check_key. destruct (as_one_time_key (o_target o)) as [P|] eqn:HP; [|discriminate].
  destruct (from_key v Sb K) as [g|e|] eqn:Hg; cbn [bindr]; try discriminate.
  destruct (check_view_tag Hb (o_target o) (snd g) i) eqn:Htag; cbn [negb]; [|discriminate].
  unfold check_with_key_generator. destruct (candidate_spend Hs g i P) as [c|e|] eqn:Hc; cbn [bindr]; try discriminate.
  destruct (lookup t c) as [j|] eqn:Hl; [|discriminate].
  intros H. injection H as <- <-. split; [reflexivity|]. exists P, g, c. auto.
Qed.

Lemma check_output_cases t v Sb i o main add idx key :
  check_output Hs Hb t v Sb i o main add = Ok (Some (idx, key)) ->
  (check_key Hs Hb t v Sb i o main = Ok (Some (idx, key)) /\ key = main) \/
  (check_key Hs Hb t v Sb i o main = Ok None /\ add = Some key /\ check_key Hs Hb t v Sb i o key = Ok (Some (idx, key))).
Proof.
  unfold check_output. destruct (check_key Hs Hb t v Sb i o main) as [[[j k]|]|e|] eqn:Hm; cbn [bindr]; try discriminate.
  - intros H. injection H as -> ->. left. split; [reflexivity|]. now destruct (check_key_inv _ _ _ _ _ _ _ _ Hm).
  - destruct add as [a|]; [|discriminate]. intros H. right. split; [reflexivity|].
    destruct (check_key_inv _ _ _ _ _ _ _ _ H) as [-> _]. now split.
Qed.

(* ---- the opening step -------------------------------------------------------------------------------------------------------- *)
Definition no_rct (rct : option rct_base) : Prop := rct = None \/ exists bs, rct = Some bs /\ rb_type bs = RNull.

Lemma opening_step_inv rct e c v Sb i key op : opening_step Hs Hb rct e c v Sb i key = SOk op ->
  (op = None /\ no_rct rct) \/
  (exists bs e0 c0 C a y C', rct = Some bs /\ rb_type bs <> RNull /\ e = Some e0 /\ c = Some c0 /\ decompress c0 = Some C /\
       open_commitment Hs Hb e0 v Sb key i C = Ok (Some (a, y, C')) /\ op = Some (a, y, C')).
Proof.
  unfold opening_step. destruct rct as [bs|]; [|intros H; injection H as <-; left; split; [reflexivity|now left]].
  destruct (rb_type bs) eqn:Ht;
    try (intros H; injection H as <-; left; split; [reflexivity|right; now exists bs]);
    (destruct e as [e0|]; [|discriminate]; destruct c as [c0|]; [|discriminate];
     destruct (decompress c0) as [C|] eqn:HC; [|discriminate];
     destruct (open_commitment Hs Hb e0 v Sb key i C) as [[[[a y] C']|]|er|] eqn:Ho; try discriminate;
     intros H; injection H as <-; right; exists bs, e0, c0, C, a, y, C'; repeat split; auto; congruence).
Qed.

Lemma opening_step_errors rct e c v Sb i key er : opening_step Hs Hb rct e c v Sb i key = SErr er ->
  er = MissingEcdhInfo /\ e = None \/ er = MissingCommitment /\ c = None \/ er = InvalidCommitment.
Proof.
  unfold opening_step. destruct rct as [bs|]; [|discriminate].
  destruct (rb_type bs); try discriminate;
    (destruct e as [e0|]; [|intros H; injection H as <-; now left]; destruct c as [c0|]; [|intros H; injection H as <-; right; now left];
     destruct (decompress c0) as [C|]; [|intros H; injection H as <-; now right; right];
     destruct (open_commitment Hs Hb e0 v Sb key i C) as [[o|]|er'|]; try discriminate; intros H; injection H as <-; now right; right).
Qed.

(* ---- the loop ------------------------------------------------------------------------------------------------------------------ *)
Lemma scan_outputs_inv t v Sb rct main outs : forall i adds ecdhs outpks l,
  scan_outputs Hs Hb t v Sb rct main i outs adds ecdhs outpks = SOk l ->
  forall w, In w l -> exists k o,
     nth_error outs k = Some o /\ ow_pos w = (i + N.of_nat k)%N /\ ow_out w = o /\
     check_output Hs Hb t v Sb (ow_pos w) o main (nth_error adds k) = Ok (Some (ow_index w, ow_key w)) /\
     opening_step Hs Hb rct (nth_error ecdhs k) (nth_error outpks k) v Sb (ow_pos w) (ow_key w) = SOk (ow_opening w).
Proof.
  induction outs as [|o rest IH]; intros i adds ecdhs outpks l H w Hw.
  - injection H as <-. contradiction.
  - cbn [scan_outputs] in H. rewrite !uncons_spec in H.
    assert (Hrec : forall l', scan_outputs Hs Hb t v Sb rct main (i + 1)%N rest (tl adds) (tl ecdhs) (tl outpks) = SOk l' ->
                   In w l' -> exists k o0, nth_error (o :: rest) k = Some o0 /\ ow_pos w = (i + N.of_nat k)%N /\ ow_out w = o0 /\
                     check_output Hs Hb t v Sb (ow_pos w) o0 main (nth_error adds k) = Ok (Some (ow_index w, ow_key w)) /\
                     opening_step Hs Hb rct (nth_error ecdhs k) (nth_error outpks k) v Sb (ow_pos w) (ow_key w) = SOk (ow_opening w)).
    { intros l' Hl' Hin. destruct (IH _ _ _ _ _ Hl' w Hin) as (k & o0 & H1 & H2 & H3 & H4 & H5).
      exists (S k), o0. rewrite !nth_error_tl in *. repeat split; auto. rewrite H2. lia. }
    destruct (check_output Hs Hb t v Sb i o main (nth_error adds 0)) as [[[idx key]|]|e|] eqn:Hc; try discriminate.
    + destruct (opening_step Hs Hb rct (nth_error ecdhs 0) (nth_error outpks 0) v Sb i key) as [op|e|] eqn:Ho; try discriminate.
      destruct (scan_outputs Hs Hb t v Sb rct main (i + 1)%N rest (tl adds) (tl ecdhs) (tl outpks)) as [l'|e|] eqn:Hl; try discriminate.
      injection H as <-. destruct Hw as [<-|Hw]; [|now apply (Hrec l')].
      exists 0%nat, o. cbn [ow_pos ow_out ow_index ow_key ow_opening nth_error]. repeat split; auto. lia.
    + now apply (Hrec l).
Qed.

Lemma scan_outputs_complete t v Sb rct main outs : forall i adds ecdhs outpks l,
  scan_outputs Hs Hb t v Sb rct main i outs adds ecdhs outpks = SOk l ->
  forall k o idx key, nth_error outs k = Some o ->
    check_output Hs Hb t v Sb (i + N.of_nat k)%N o main (nth_error adds k) = Ok (Some (idx, key)) ->
    exists op, In (mk_owned (i + N.of_nat k)%N o idx key op) l.
Proof.
  induction outs as [|o rest IH]; intros i adds ecdhs outpks l H k o' idx key Hk Hc; [now destruct k|].
  cbn [scan_outputs] in H. rewrite !uncons_spec in H. destruct k as [|k].
  - cbn [nth_error] in Hk. injection Hk as <-. replace (i + N.of_nat 0)%N with i in * by lia. rewrite Hc in H.
    destruct (opening_step Hs Hb rct (nth_error ecdhs 0) (nth_error outpks 0) v Sb i key) as [op|e|]; try discriminate.
    destruct (scan_outputs Hs Hb t v Sb rct main (i + 1)%N rest (tl adds) (tl ecdhs) (tl outpks)) as [l'|e|]; try discriminate.
    injection H as <-. exists op. now left.
  - cbn [nth_error] in Hk. replace (i + N.of_nat (S k))%N with (i + 1 + N.of_nat k)%N in * by lia.
    rewrite <- nth_error_tl in Hc.
    destruct (check_output Hs Hb t v Sb i o main (nth_error adds 0)) as [[[idx0 key0]|]|e|]; try discriminate.
    + destruct (opening_step Hs Hb rct (nth_error ecdhs 0) (nth_error outpks 0) v Sb i key0) as [op|e|]; try discriminate.
      destruct (scan_outputs Hs Hb t v Sb rct main (i + 1)%N rest (tl adds) (tl ecdhs) (tl outpks)) as [l'|e|] eqn:Hl; try discriminate.
      injection H as <-. destruct (IH _ _ _ _ _ Hl k o' idx key Hk Hc) as (op' & Hin). exists op'. now right.
    + exact (IH _ _ _ _ _ H k o' idx key Hk Hc).
Qed.

Lemma scan_outputs_none t v Sb rct main outs i adds ecdhs outpks l k o :
  scan_outputs Hs Hb t v Sb rct main i outs adds ecdhs outpks = SOk l ->
  nth_error outs k = Some o ->
  check_output Hs Hb t v Sb (i + N.of_nat k)%N o main (nth_error adds k) = Ok None ->
  forall w, In w l -> ow_pos w <> (i + N.of_nat k)%N.
Proof.
  intros H Hk Hc w Hw Hpos. destruct (scan_outputs_inv _ _ _ _ _ _ _ _ _ _ _ H w Hw) as (k' & o' & H1 & H2 & H3 & H4 & _).
  assert (k' = k) by lia. subst k'. rewrite Hk in H1. injection H1 as <-. rewrite Hpos in H4. congruence.
Qed.

(* positions are reported in increasing order, each at most once *)
Lemma scan_outputs_sorted t v Sb rct main outs : forall i adds ecdhs outpks l,
  scan_outputs Hs Hb t v Sb rct main i outs adds ecdhs outpks = SOk l ->
  StronglySorted N.lt (map ow_pos l).
Proof.
  induction outs as [|o rest IH]; intros i adds ecdhs outpks l H.
  - injection H as <-. constructor.
  - cbn [scan_outputs] in H. rewrite !uncons_spec in H.
    destruct (check_output Hs Hb t v Sb i o main (nth_error adds 0)) as [[[idx key]|]|e|]; try discriminate.
    + destruct (opening_step Hs Hb rct (nth_error ecdhs 0) (nth_error outpks 0) v Sb i key) as [op|e|]; try discriminate.
      destruct (scan_outputs Hs Hb t v Sb rct main (i + 1)%N rest (tl adds) (tl ecdhs) (tl outpks)) as [l'|e|] eqn:Hl; try discriminate.
      injection H as <-. cbn [map ow_pos]. constructor; [now apply (IH _ _ _ _ _ Hl)|].
      apply Forall_forall. intros p Hp. apply in_map_iff in Hp. destruct Hp as (w & <- & Hw).
      destruct (scan_outputs_inv _ _ _ _ _ _ _ _ _ _ _ Hl w Hw) as (k & _ & _ & H2 & _). lia.
    + now apply (IH _ _ _ _ _ H).
Qed.

(* ---- check_outputs_with unfolded ---------------------------------------------------------------------------------------------- *)
Definition adds_of (fields : list subfield) : list bytes :=
  match tx_additional_pubkeys fields with Some ks => ks | None => [] end.
Definition ecdhs_of (rct : option rct_base) : list ecdh := match rct with Some b => rb_ecdh b | None => [] end.
Definition outpks_of (rct : option rct_base) : list bytes := match rct with Some b => rb_out_pk b | None => [] end.

Lemma prefix_scan_inv v Sb a b c d p rct l : prefix_check_outputs Hs Hb v Sb a b c d p rct = SOk l ->
  exists t fields main,
    checker_new Hs v Sb a b c d = Ok t /\ raw_try_parse valid_pk_b (extra p) = Ok fields /\ tx_pubkey fields = Some main /\
    scan_outputs Hs Hb t v Sb rct main 0%N (outputs p) (adds_of fields) (ecdhs_of rct) (outpks_of rct) = SOk l.
Proof.
  unfold prefix_check_outputs. destruct (checker_new Hs v Sb a b c d) as [t|e|]; try discriminate.
  unfold check_outputs_with. destruct (raw_try_parse valid_pk_b (extra p)) as [fields|e|]; try discriminate.
  destruct (tx_pubkey fields) as [main|] eqn:Hm; [|discriminate]. intros H. now exists t, fields, main.
Qed.

Lemma prefix_scan_no_key v Sb a b c d p rct t fields : checker_new Hs v Sb a b c d = Ok t ->
  raw_try_parse valid_pk_b (extra p) = Ok fields -> tx_pubkey fields = None ->
  prefix_check_outputs Hs Hb v Sb a b c d p rct = SErr NoTxPublicKey.
Proof. intros Ht Hf Hm. unfold prefix_check_outputs, check_outputs_with. now rewrite Ht, Hf, Hm. Qed.

End ScanBasics.

(* ================================================================================================================================ *)
(* Part 2: soundness, for every instance of the laws                                                                                  *)
Section ScanSound.
Context {E : EdOps} {LW : EdLaws E}.
Variable Hs : hs_fun.
Variable Hb : bytes -> bytes.

Lemma padd_psub_l A B : valid A -> valid B -> padd A (psub B A) = B.
Proof. intros HA HB. rewrite padd_comm by auto with ed. now apply padd_psub. Qed.

(* the looked-up key c = P - Hs(rv||i)G turns P into the one-time key of the generator (c, rv) *)
Lemma candidate_to_one_time g i P c : pk_from_slice P = Ok P -> candidate_spend Hs g i P = Ok c ->
  one_time_key Hs (c, snd g) i = Ok P /\ pk_from_slice c = Ok c.
Proof.
  intros HP Hc. apply pk_from_slice_iff in HP. destruct HP as (Pp & HPp & <-).
  unfold candidate_spend, get_rvn_scalar, pk_from_priv in Hc. rewrite pk_sub_compress in Hc by auto with ed.
  injection Hc as <-. split.
  - unfold one_time_key, get_rvn_scalar, pk_from_priv. cbn [fst snd].
    rewrite pk_add_compress by auto with ed. now rewrite padd_psub_l by auto with ed.
  - apply pk_from_slice_compress. auto with ed.
Qed.

(* what a successful check of one key means *)
Lemma check_key_sound v Sb a b c d t i o K idx key :
  checker_new Hs v Sb a b c d = Ok t ->
  check_key Hs Hb t v Sb i o K = Ok (Some (idx, key)) ->
  key = K /\ in_ranges a b c d idx /\
  exists g P Sidx,
    from_key v Sb K = Ok g /\ as_one_time_key (o_target o) = Some P /\
    check_view_tag Hb (o_target o) (snd g) i = true /\
    get_spend_public_key Hs v Sb idx = Ok Sidx /\
    one_time_key Hs (Sidx, snd g) i = Ok P.
Proof.
  intros Ht Hc. destruct (check_key_inv _ _ _ _ _ _ _ _ _ _ Hc) as (-> & P & g & cd & HP & Hg & Htag & Hcand & Hl).
  apply lookup_some in Hl. destruct (checker_in _ _ _ _ _ _ _ _ _ _ Ht Hl) as [Hr Hk].
  split; [reflexivity|]. split; [exact Hr|]. exists g, P, cd.
  destruct (as_one_time_key_some _ _ HP) as [_ HPv].
  destruct (candidate_to_one_time _ _ _ _ HPv Hcand) as [Hot _]. auto.
Qed.

(* C07 soundness *)
Lemma scan_sound v Sb a b c d p rct l w :
  prefix_check_outputs Hs Hb v Sb a b c d p rct = SOk l -> In w l ->
  exists t fields main o,
    checker_new Hs v Sb a b c d = Ok t /\
    raw_try_parse valid_pk_b (extra p) = Ok fields /\ tx_pubkey fields = Some main /\
    nth_error (outputs p) (N.to_nat (ow_pos w)) = Some o /\ ow_out w = o /\
    in_ranges a b c d (ow_index w) /\
    (ow_key w = main \/
       (check_key Hs Hb t v Sb (ow_pos w) o main = Ok None /\
        exists adds, tx_additional_pubkeys fields = Some adds /\ nth_error adds (N.to_nat (ow_pos w)) = Some (ow_key w))) /\
    exists g P Sidx,
       from_key v Sb (ow_key w) = Ok g /\ as_one_time_key (o_target o) = Some P /\
       check_view_tag Hb (o_target o) (snd g) (ow_pos w) = true /\
       get_spend_public_key Hs v Sb (ow_index w) = Ok Sidx /\
       one_time_key Hs (Sidx, snd g) (ow_pos w) = Ok P.
Proof.
  intros H Hw. destruct (prefix_scan_inv _ _ _ _ _ _ _ _ _ _ _ H) as (t & fields & main & Ht & Hf & Hm & Hscan).
  destruct (scan_outputs_inv _ _ _ _ _ _ _ _ _ _ _ _ _ Hscan w Hw) as (k & o & Hk & Hpos & Ho & Hc & _).
  exists t, fields, main, o. replace (N.to_nat (ow_pos w)) with k by lia.
  repeat (split; [assumption|]).
  destruct (check_output_cases _ _ _ _ _ _ _ _ _ _ _ Hc) as [[Hc1 Hkey]|(Hnone & Hadd & Hc2)].
  - destruct (check_key_sound _ _ _ _ _ _ _ _ _ _ _ _ Ht Hc1) as (_ & Hr & g & P & Sidx & H1 & H2 & H3 & H4 & H5).
    split; [exact Hr|]. split; [now left|]. exists g, P, Sidx. rewrite Hkey. auto.
  - destruct (check_key_sound _ _ _ _ _ _ _ _ _ _ _ _ Ht Hc2) as (_ & Hr & g & P & Sidx & H1 & H2 & H3 & H4 & H5).
    split; [exact Hr|]. split.
    + right. split; [exact Hnone|]. unfold adds_of in Hadd. destruct (tx_additional_pubkeys fields) as [adds|].
      * now exists adds.
      * now destruct k.
    + exists g, P, Sidx. auto.
Qed.

(* the additional key is used only when the main key does not match: the reported key is the main key whenever that matches *)
Lemma scan_prefers_main v Sb a b c d p rct l w t fields main o idx :
  prefix_check_outputs Hs Hb v Sb a b c d p rct = SOk l -> In w l ->
  checker_new Hs v Sb a b c d = Ok t -> raw_try_parse valid_pk_b (extra p) = Ok fields -> tx_pubkey fields = Some main ->
  nth_error (outputs p) (N.to_nat (ow_pos w)) = Some o ->
  check_key Hs Hb t v Sb (ow_pos w) o main = Ok (Some (idx, main)) -> ow_key w = main /\ ow_index w = idx.
Proof.
  intros H Hw Ht Hf Hm Ho Hc. destruct (scan_sound _ _ _ _ _ _ _ _ _ _ H Hw) as (t' & f' & m' & o' & Ht' & Hf' & Hm' & Ho' & _ & _ & Hk & _).
  rewrite Ht in Ht'. injection Ht' as <-. rewrite Hf in Hf'. injection Hf' as <-. rewrite Hm in Hm'. injection Hm' as <-.
  rewrite Ho in Ho'. injection Ho' as <-.
  destruct (prefix_scan_inv _ _ _ _ _ _ _ _ _ _ _ H) as (t2 & f2 & m2 & Ht2 & Hf2 & Hm2 & Hscan).
  rewrite Ht in Ht2. injection Ht2 as <-. rewrite Hf in Hf2. injection Hf2 as <-. rewrite Hm in Hm2. injection Hm2 as <-.
  destruct (scan_outputs_inv _ _ _ _ _ _ _ _ _ _ _ _ _ Hscan w Hw) as (k & o2 & Hk2 & Hpos & _ & Hco & _).
  replace (N.to_nat (ow_pos w)) with k in Ho by lia. rewrite Ho in Hk2. injection Hk2 as <-.
  unfold check_output in Hco. rewrite Hc in Hco. cbn [bindr] in Hco. injection Hco as <- <-. now split.
Qed.

(* ---- C08 at scan level ----------------------------------------------------------------------------------------------------------- *)
Lemma scan_opening v Sb a b c d p rct l w :
  prefix_check_outputs Hs Hb v Sb a b c d p rct = SOk l -> In w l ->
  (no_rct rct /\ ow_opening w = None) \/
  (exists bs e0 c0 C am y Hp,
     rct = Some bs /\ rb_type bs <> RNull /\
     nth_error (rb_ecdh bs) (N.to_nat (ow_pos w)) = Some e0 /\ nth_error (rb_out_pk bs) (N.to_nat (ow_pos w)) = Some c0 /\
     decompress c0 = Some C /\ decompress Ed25519.H_bytes = Some Hp /\
     ow_opening w = Some (am, y, C) /\ C = commit Hp y am /\ (am < 2 ^ 64)%N /\
     owned_amount w = Some am /\ owned_blinding_factor w = Some y /\ owned_commitment w = Some C).
Proof.
  intros H Hw. destruct (prefix_scan_inv _ _ _ _ _ _ _ _ _ _ _ H) as (t & fields & main & Ht & Hf & Hm & Hscan).
  destruct (scan_outputs_inv _ _ _ _ _ _ _ _ _ _ _ _ _ Hscan w Hw) as (k & o & Hk & Hpos & Ho & _ & Hop).
  replace (N.to_nat (ow_pos w)) with k by lia.
  destruct (opening_step_inv _ _ _ _ _ _ _ _ _ _ Hop) as [[Hn Hr]|(bs & e0 & c0 & C & am & y & C' & Hr & Hty & He & Hc & HC & Hopen & Hopv)].
  - left. now split.
  - right. pose proof (decompress_valid _ _ HC) as HvC.
    pose proof Hopen as Hopen'. unfold open_commitment in Hopen'.
    destruct (shared_scalar Hs v Sb (ow_key w) (ow_pos w)) as [sh|e|]; cbn [bindr] in Hopen'; try discriminate.
    pose proof (ecdh_decode_u64 Hs Hb e0 sh) as Hu.
    destruct (open_with_sound_laws _ _ _ _ _ _ _ _ HvC Hopen') as (Hp & HH & _ & -> & HCeq).
    assert (Hdec : (am, y) = ecdh_decode Hs Hb e0 sh).
    { unfold open_with in Hopen'. destruct (ecdh_decode Hs Hb e0 sh) as [a0 y0]. unfold H_pt, pk_point in Hopen'. rewrite HH in Hopen'.
      cbn [bindr] in Hopen'. destruct (peqb _ _); [|discriminate]. now injection Hopen' as <- <- _. }
    rewrite <- Hdec in Hu. cbn [fst] in Hu.
    exists bs, e0, c0, C, am, y, Hp. subst rct. cbn [ecdhs_of outpks_of] in He, Hc.
    unfold owned_amount, owned_blinding_factor, owned_commitment. rewrite Hopv. repeat split; auto.
Qed.

Lemma owned_amount_clear w : ow_opening w = None ->
  owned_amount w = (if (o_amount (ow_out w) =? 0)%N then None else Some (o_amount (ow_out w))) /\
  owned_blinding_factor w = None /\ owned_commitment w = None.
Proof. intros H. unfold owned_amount, owned_blinding_factor, owned_commitment. now rewrite H. Qed.

(* ---- C09 ---------------------------------------------------------------------------------------------------------------------------- *)
Lemma recover_spec v s g i idx :
  recover Hs v s g i idx = (Hs (rvn_preimage (snd g) i) + get_spend_secret_key Hs v s idx) mod ell.
Proof. reflexivity. Qed.

Lemma recover_public v s g i idx P Sidx :
  get_spend_public_key Hs v (pk_from_priv s) idx = Ok Sidx ->
  one_time_key Hs (Sidx, snd g) i = Ok P ->
  pk_from_priv (recover Hs v s g i idx) = P.
Proof.
  intros HS HP. destruct (secret_matches_public Hs v s idx) as [Hm _]. rewrite Hm in HS. injection HS as <-.
  unfold one_time_key in HP. cbn [fst] in HP. rewrite pub_add in HP. injection HP as <-. reflexivity.
Qed.

Lemma owned_recover v s a b c d p rct l w :
  prefix_check_outputs Hs Hb v (pk_from_priv s) a b c d p rct = SOk l -> In w l ->
  exists g x,
    from_key v (pk_from_priv s) (ow_key w) = Ok g /\
    owned_recover_key Hs v s w = Ok x /\
    x = (Hs (snd g ++ enc_varint (ow_pos w mod 2 ^ 64)%N) + get_spend_secret_key Hs v s (ow_index w)) mod ell /\
    as_one_time_key (o_target (ow_out w)) = Some (pk_from_priv x).
Proof.
  intros H Hw. destruct (scan_sound _ _ _ _ _ _ _ _ _ _ H Hw) as (t & f & m & o & _ & _ & _ & _ & Ho & _ & _ & g & P & Sidx & Hg & HP & _ & HS & Hot).
  exists g, (recover Hs v s g (ow_pos w) (ow_index w)). split; [exact Hg|]. split.
  - unfold owned_recover_key, recoverer_new. now rewrite Hg.
  - split; [reflexivity|]. rewrite Ho, HP. f_equal. symmetry. eapply recover_public; eauto.
Qed.

End ScanSound.

(* ================================================================================================================================ *)
(* Part 3: completeness with respect to the sender of Spec/Sender.v                                                                   *)
Section ScanComplete.
Context {E : EdOps} {LW : EdLaws E}.
Variable Hs : hs_fun.
Variable Hb : bytes -> bytes.

(* the algebraic match condition of one output / one key / one index (the conclusion of check_key_sound) *)
Definition matches (v : Z) (Sb : bytes) (i : N) (o : txout) (K : bytes) (idx : index) : Prop :=
  exists g P Sidx,
    from_key v Sb K = Ok g /\ as_one_time_key (o_target o) = Some P /\
    check_view_tag Hb (o_target o) (snd g) i = true /\
    get_spend_public_key Hs v Sb idx = Ok Sidx /\
    one_time_key Hs (Sidx, snd g) i = Ok P.

(* nothing is reported at a position where neither key matches any in-range index *)
Lemma scan_not_reported v Sb a b c d p rct l fields main k o :
  prefix_check_outputs Hs Hb v Sb a b c d p rct = SOk l ->
  raw_try_parse valid_pk_b (extra p) = Ok fields -> tx_pubkey fields = Some main ->
  nth_error (outputs p) k = Some o ->
  (forall idx, in_ranges a b c d idx -> ~ matches v Sb (N.of_nat k) o main idx) ->
  (forall K idx, nth_error (adds_of fields) k = Some K -> in_ranges a b c d idx -> ~ matches v Sb (N.of_nat k) o K idx) ->
  forall w, In w l -> ow_pos w <> N.of_nat k.
Proof.
  intros H Hf Hm Ho Hmain Hadd w Hw Hpos.
  destruct (scan_sound Hs Hb _ _ _ _ _ _ _ _ _ _ H Hw) as (t & f' & m' & o' & Ht & Hf' & Hm' & Ho' & _ & Hr & Hk & g & P & Sidx & H1 & H2 & H3 & H4 & H5).
  rewrite Hf in Hf'. injection Hf' as <-. rewrite Hm in Hm'. injection Hm' as <-.
  rewrite Hpos, Nat2N.id, Ho in Ho'. injection Ho' as <-. rewrite Hpos in *.
  assert (Hmt : matches v Sb (N.of_nat k) o (ow_key w) (ow_index w)) by (exists g, P, Sidx; auto).
  destruct Hk as [Hk|(_ & adds & Ha & Hn)].
  - rewrite Hk in Hmt. exact (Hmain _ Hr Hmt).
  - rewrite Nat2N.id in Hn. apply (Hadd (ow_key w) (ow_index w)); auto. unfold adds_of. now rewrite Ha.
Qed.

(* ---- the spec's addresses are the model's subaddress keys ------------------------------------------------------------------------ *)
Lemma wallet_address_valid v Sp maj min : valid Sp ->
  valid (a_spend (wallet_address Hs v Sp maj min)) /\ valid (a_view (wallet_address Hs v Sp maj min)).
Proof.
  intros HS. unfold wallet_address, primary_of, subaddress_of. destruct (_ && _); cbn [a_spend a_view]; split; auto with ed.
Qed.

Lemma wallet_address_spend v Sp maj min : valid Sp ->
  get_spend_public_key Hs v (compress Sp) (maj, min) = Ok (compress (a_spend (wallet_address Hs v Sp maj min))).
Proof.
  intros HS. unfold wallet_address. destruct ((maj =? 0)%N && (min =? 0)%N) eqn:Hz.
  - unfold get_spend_public_key, is_zero. cbn [fst snd]. now rewrite Hz.
  - rewrite spend_public_spec by (try assumption; unfold is_zero; cbn [fst snd]; exact Hz). reflexivity.
Qed.

(* receiver's derivation from the published key = sender's derivation *)
Lemma sender_derivation v Sp maj min r : valid Sp ->
  let d := wallet_address Hs v Sp maj min in
  valid (tx_public_key r d) /\
  key_derive v (compress (tx_public_key r d)) = Ok (compress (derivation r d)).
Proof.
  intros HS d. destruct (wallet_address_valid v Sp maj min HS) as [HvS HvV]. fold d in HvS, HvV.
  assert (HK : valid (tx_public_key r d)) by (unfold tx_public_key; destruct (a_is_sub d); auto with ed).
  split; [exact HK|]. rewrite key_derive_compress by exact HK.
  assert (Heq : smul v (tx_public_key r d) = smul r (a_view d)).
  { unfold d, wallet_address, primary_of, subaddress_of, tx_public_key. destruct (_ && _); cbn [a_spend a_view a_is_sub];
      apply smul_comm; auto with ed. }
  unfold derivation. now rewrite Heq.
Qed.

Lemma leb_pos i : (i < 2 ^ 64)%N -> enc_varint (i mod 2 ^ 64)%N = leb128 i.
Proof. intros Hi. rewrite N.mod_small by exact Hi. apply enc_varint_is_leb. Qed.

(* an output built by the sender for an in-range address is recognised under the key the sender published for it *)
Lemma sender_check_key v Sp a b c d t maj min r i o :
  valid Sp -> checker_new Hs v (compress Sp) a b c d = Ok t -> in_ranges a b c d (maj, min) -> (i < 2 ^ 64)%N ->
  let dst := wallet_address Hs v Sp maj min in
  let snt := send Hs Hb r dst i in
  (o_target o = TKey (compress (sn_onetime snt)) \/
   o_target o = TTagged (compress (sn_onetime snt)) (b2n (sn_tag snt))) ->
  exists idx', check_key Hs Hb t v (compress Sp) i o (compress (sn_key snt)) = Ok (Some (idx', compress (sn_key snt))) /\
               In (compress (a_spend dst), idx') t.
Proof.
  intros HS Ht Hr Hi dst snt Htg.
  destruct (wallet_address_valid v Sp maj min HS) as [HvS HvV]. fold dst in HvS, HvV.
  destruct (sender_derivation v Sp maj min r HS) as [HvK Hder]. fold dst in HvK, Hder.
  set (D := derivation r dst) in *. set (h := derivation_to_scalar Hs D i).
  assert (HvP : valid (one_time_public_key Hs D i dst)) by (unfold one_time_public_key; auto with ed).
  assert (Hkey : target_key (o_target o) = compress (one_time_public_key Hs D i dst)) by (destruct Htg as [-> | ->]; reflexivity).
  assert (Hh : get_rvn_scalar Hs (compress Sp, compress D) i = h).
  { unfold get_rvn_scalar, rvn_preimage, enc_pk, h, derivation_to_scalar. cbn [snd]. now rewrite leb_pos. }
  (* the table *)
  destruct (checker_complete Hs _ _ _ _ _ _ _ _ Ht Hr) as (k & Hk & Hin).
  rewrite wallet_address_spend in Hk by exact HS. injection Hk as <-. fold dst in Hin.
  destruct (lookup_complete _ _ _ Hin) as (idx' & Hl & Hin').
  exists idx'. split; [|exact Hin'].
  unfold check_key, as_one_time_key. rewrite Hkey, pk_from_slice_compress by exact HvP.
  unfold snt, send. cbn [sn_key sn_onetime sn_tag]. fold D.
  unfold from_key. rewrite Hder. cbn [bindr snd].
  assert (Htag : check_view_tag Hb (o_target o) (compress D) i = true).
  { destruct Htg as [-> | ->]; [reflexivity|]. cbn [check_view_tag]. unfold snt, send. cbn [sn_tag]. fold D.
    unfold view_tag_of, view_tag. rewrite leb_pos by exact Hi. apply N.eqb_refl. }
  rewrite Htag. cbn [negb]. unfold check_with_key_generator, candidate_spend. rewrite Hh. unfold pk_from_priv.
  unfold one_time_public_key. fold h. rewrite pk_sub_compress by auto with ed. cbn [bindr].
  rewrite psub_add_l by auto with ed. now rewrite Hl.
Qed.

(* every output position is examined without error when the scan succeeds *)
Lemma scan_outputs_checked t v Sb rct main outs : forall i adds ecdhs outpks l,
  scan_outputs Hs Hb t v Sb rct main i outs adds ecdhs outpks = SOk l ->
  forall k o, nth_error outs k = Some o ->
  exists r, check_output Hs Hb t v Sb (i + N.of_nat k)%N o main (nth_error adds k) = Ok r.
Proof.
  induction outs as [|o rest IH]; intros i adds ecdhs outpks l H k o' Hk; [now destruct k|].
  cbn [scan_outputs] in H. rewrite !uncons_spec in H. destruct k as [|k].
  - cbn [nth_error] in Hk. injection Hk as <-. replace (i + N.of_nat 0)%N with i by lia.
    destruct (check_output Hs Hb t v Sb i o main (nth_error adds 0)) as [r|e|]; try discriminate. now exists r.
  - cbn [nth_error] in Hk. replace (i + N.of_nat (S k))%N with (i + 1 + N.of_nat k)%N by lia. rewrite <- nth_error_tl.
    destruct (check_output Hs Hb t v Sb i o main (nth_error adds 0)) as [[[idx0 key0]|]|e|]; try discriminate.
    + destruct (opening_step Hs Hb rct (nth_error ecdhs 0) (nth_error outpks 0) v Sb i key0) as [op|e|]; try discriminate.
      destruct (scan_outputs Hs Hb t v Sb rct main (i + 1)%N rest (tl adds) (tl ecdhs) (tl outpks)) as [l'|e|] eqn:Hl; try discriminate.
      exact (IH _ _ _ _ _ Hl k o' Hk).
    + exact (IH _ _ _ _ _ H k o' Hk).
Qed.

(* C07 completeness *)
Lemma scan_complete v Sp a b c d p rct l fields main k o maj min r :
  valid Sp ->
  prefix_check_outputs Hs Hb v (compress Sp) a b c d p rct = SOk l ->
  raw_try_parse valid_pk_b (extra p) = Ok fields -> tx_pubkey fields = Some main ->
  nth_error (outputs p) k = Some o -> (N.of_nat k < 2 ^ 64)%N ->
  in_ranges a b c d (maj, min) ->
  let dst := wallet_address Hs v Sp maj min in
  let snt := send Hs Hb r dst (N.of_nat k) in
  let K := compress (sn_key snt) in
  (o_target o = TKey (compress (sn_onetime snt)) \/ o_target o = TTagged (compress (sn_onetime snt)) (b2n (sn_tag snt))) ->
  (K = main \/ nth_error (adds_of fields) k = Some K) ->
  exists w t, In w l /\ ow_pos w = N.of_nat k /\ ow_out w = o /\ checker_new Hs v (compress Sp) a b c d = Ok t /\
    ((K = main \/ check_key Hs Hb t v (compress Sp) (N.of_nat k) o main = Ok None) ->
       ow_key w = K /\ get_spend_public_key Hs v (compress Sp) (ow_index w) = Ok (compress (a_spend dst)) /\
       ((forall idx2, in_ranges a b c d idx2 -> get_spend_public_key Hs v (compress Sp) idx2 = Ok (compress (a_spend dst)) ->
           idx2 = (maj, min)) -> ow_index w = (maj, min))).
Proof.
  intros HS H Hf Hm Ho Hk64 Hr dst snt K Htg HK.
  destruct (prefix_scan_inv Hs Hb _ _ _ _ _ _ _ _ _ H) as (t & f' & m' & Ht & Hf' & Hm' & Hscan).
  rewrite Hf in Hf'. injection Hf' as <-. rewrite Hm in Hm'. injection Hm' as <-.
  destruct (sender_check_key v Sp a b c d t maj min r (N.of_nat k) o HS Ht Hr Hk64 Htg) as (idx' & Hck & Hin').
  fold dst snt K in Hck, Hin'.
  destruct (checker_in Hs _ _ _ _ _ _ _ _ _ Ht Hin') as [Hr' Hsp'].
  destruct (scan_outputs_checked _ _ _ _ _ _ _ _ _ _ _ Hscan k o Ho) as (res & Hres). cbn [N.add] in Hres.
  replace (0 + N.of_nat k)%N with (N.of_nat k) in Hres by lia.
  (* what check_output returns *)
  assert (Hsome : exists idx1 key1, res = Some (idx1, key1) /\
            ((K = main \/ check_key Hs Hb t v (compress Sp) (N.of_nat k) o main = Ok None) -> key1 = K /\ idx1 = idx')).
  { unfold check_output in Hres. destruct HK as [HKm|HKa].
    - rewrite <- HKm, Hck in Hres. cbn [bindr] in Hres. injection Hres as <-. exists idx', K. split; [reflexivity|]. now intros _.
    - destruct (check_key Hs Hb t v (compress Sp) (N.of_nat k) o main) as [[[i1 k1]|]|e|] eqn:Hmain; cbn [bindr] in Hres; try discriminate.
      + injection Hres as <-. exists i1, k1. split; [reflexivity|]. intros [HKm|Hno]; [|discriminate].
        rewrite <- HKm, Hck in Hmain. injection Hmain as <- <-. now split.
      + rewrite HKa, Hck in Hres. injection Hres as <-. exists idx', K. split; [reflexivity|]. now intros _. }
  destruct Hsome as (idx1 & key1 & -> & Hexact).
  destruct (scan_outputs_complete _ _ _ _ _ _ _ _ _ _ _ _ _ Hscan k o idx1 key1 Ho) as (op & Hin).
  { replace (0 + N.of_nat k)%N with (N.of_nat k) by lia. exact Hres. }
  replace (0 + N.of_nat k)%N with (N.of_nat k) in Hin by lia.
  exists (mk_owned (N.of_nat k) o idx1 key1 op), t. cbn [ow_pos ow_out ow_key ow_index].
  repeat split; auto.
  - now destruct (Hexact H0).
  - destruct (Hexact H0) as [_ ->]. exact Hsp'.
  - destruct (Hexact H0) as [_ ->]. intros Huniq. now apply Huniq.
Qed.

End ScanComplete.
