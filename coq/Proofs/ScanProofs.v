(* ScanProofs.v — proofs about Model/Scan.v (C07, C09), for every instance of EdLaws and every pair of hashes. *)
From MRS Require Export Proofs.DeriveProofs Proofs.SubaddrProofs Proofs.VarintProofs Model.Scan Spec.Sender.
Open Scope Z_scope.

Section ScanBasics.
Context {E : EdOps}.
Variable Hs : hs_fun.
Variable Hb : bytes -> bytes.

(* the three entry points run the same scan *)
Lemma entry_points_agree v S a b c d (t : tx) :
  tx_check_outputs Hs Hb v S a b c d t =
    prefix_check_outputs Hs Hb v S a b c d (tx_prefix t) (rct_base_of (tx_rct t)) /\
  (forall tb, checker_new Hs v S a b c d = Ok tb ->
     tx_check_outputs Hs Hb v S a b c d t = tx_check_outputs_with Hs Hb tb v S t /\
     tx_check_outputs_with Hs Hb tb v S t = check_outputs_with Hs Hb tb v S (tx_prefix t) (rct_base_of (tx_rct t))).
Proof.
  split; [reflexivity|]. intros tb Htb. split; [|reflexivity].
  unfold tx_check_outputs, prefix_check_outputs, tx_check_outputs_with. now rewrite Htb.
Qed.

End ScanBasics.
