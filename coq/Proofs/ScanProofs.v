(* ScanProofs.v — proofs about Model/Scan.v (C07, C08 at scan level, C09), for every instance of EdLaws and every pair of
   hashes.  Part 1: structure of the scan loop (no group law).  Part 2: soundness.  Part 3: completeness w.r.t. Spec/Sender.v. *)
From MRS Require Export Proofs.DeriveProofs Proofs.SubaddrProofs Proofs.VarintProofs Proofs.EcdhProofs Model.Scan Spec.Sender.
From Coq Require Import Sorted.
Open Scope Z_scope.

(* ---- lists ------------------------------------------------------------------------------------------------------------ *)
Lemma uncons_spec {A} (l : list A) : uncons l = (nth_error l 0, tl l).
Proof. destruct l; reflexivity. Qed.

Lemma nth_error_tl {A} (l : list A) k : nth_error (tl l) k = nth_error l (S k).
Proof. destruct l; [now destruct k|reflexivity]. Qed.

Lemma range_list_in lo hi x : In x (range_list lo hi) <-> (lo <= x < hi)%N.
Proof.
  unfold range_list. rewrite in_map_iff. split.
  - intros (k & <- & Hk). apply in_seq in Hk. lia.
  - intros Hx. exists (N.to_nat (x - lo)). split; [lia|]. apply in_seq. lia.
Qed.

Lemma index_grid_in majs mins i : In i (index_grid majs mins) <-> In (fst i) majs /\ In (snd i) mins.
Proof.
  unfold index_grid. rewrite in_flat_map. destruct i as [x y]. cbn [fst snd]. split.
  - intros (m & Hm & Hi). apply in_map_iff in Hi. destruct Hi as (n & Hn & Hi). injection Hn as -> ->. now split.
  - intros [Hx Hy]. exists x. split; [exact Hx|]. apply in_map_iff. now exists y.
Qed.

Section ScanBasics.
Context {E : EdOps}.
Variable Hs : hs_fun.
Variable Hb : bytes -> bytes.

(* the three entry points run the same scan *)
Lemma entry_points_agree v Sb a b c d (t : tx) :
  tx_check_outputs Hs Hb v Sb a b c d t =
    prefix_check_outputs Hs Hb v Sb a b c d (tx_prefix t) (rct_base_of (tx_rct t)) /\
  (forall tb, checker_new Hs v Sb a b c d = Ok tb ->
     tx_check_outputs Hs Hb v Sb a b c d t = tx_check_outputs_with Hs Hb tb v Sb t /\
     tx_check_outputs_with Hs Hb tb v Sb t = check_outputs_with Hs Hb tb v Sb (tx_prefix t) (rct_base_of (tx_rct t))).
Proof.
  split; [reflexivity|]. intros tb Htb. split; [|reflexivity].
  unfold tx_check_outputs, prefix_check_outputs, tx_check_outputs_with. now rewrite Htb.
Qed.

(* ---- the table ---------------------------------------------------------------------------------------------------------- *)
Lemma lookup_some t k i : lookup t k = Some i -> In (k, i) t.
Proof.
  induction t as [|[k' j] r IH]; [discriminate|]. cbn [lookup].
  destruct (lookup r k) as [j'|] eqn:Hl.
  - intros H. injection H as ->. right. now apply IH.
  - destruct (pk_eqb k' k) eqn:Hq; [|discriminate]. intros H. injection H as ->.
    apply bytes_eqb_eq in Hq. subst. now left.
Qed.

Lemma lookup_complete t k i : In (k, i) t -> exists i', lookup t k = Some i' /\ In (k, i') t.
Proof.
  induction t as [|[k' j] r IH]; [contradiction|]. intros [H|H].
  - injection H as -> ->. cbn [lookup]. destruct (lookup r k) as [j'|] eqn:Hl.
    + exists j'. split; [reflexivity|]. right. now apply lookup_some.
    + unfold pk_eqb. rewrite bytes_eqb_refl. exists i. split; [reflexivity|now left].
  - destruct (IH H) as (i' & Hl & Hin). exists i'. cbn [lookup]. rewrite Hl. split; [reflexivity|now right].
Qed.

Lemma lookup_none t k : lookup t k = None -> forall i, ~ In (k, i) t.
Proof. intros Hl i Hin. destruct (lookup_complete _ _ _ Hin) as (i' & H & _). congruence. Qed.

Lemma table_rows_in v Sb idxs t k i : table_rows Hs v Sb idxs = Ok t -> In (k, i) t ->
  In i idxs /\ get_spend_public_key Hs v Sb i = Ok k.
Proof.
  revert t. induction idxs as [|j r IH]; intros t Ht Hin.
  - injection Ht as <-. contradiction.
  - cbn [table_rows] in Ht. destruct (get_spend_public_key Hs v Sb j) as [kj|e|] eqn:Hj; cbn [bindr] in Ht; try discriminate.
    destruct (table_rows Hs v Sb r) as [tr|e|] eqn:Hr; cbn [bindr] in Ht; try discriminate.
    injection Ht as <-. destruct Hin as [H|H].
    + injection H as -> ->. split; [now left|exact Hj].
    + destruct (IH tr eq_refl H) as [H1 H2]. split; [now right|exact H2].
Qed.

Lemma table_rows_complete v Sb idxs t i : table_rows Hs v Sb idxs = Ok t -> In i idxs ->
  exists k, get_spend_public_key Hs v Sb i = Ok k /\ In (k, i) t.
Proof.
  revert t. induction idxs as [|j r IH]; intros t Ht Hin; [contradiction|].
  cbn [table_rows] in Ht. destruct (get_spend_public_key Hs v Sb j) as [kj|e|] eqn:Hj; cbn [bindr] in Ht; try discriminate.
  destruct (table_rows Hs v Sb r) as [tr|e|] eqn:Hr; cbn [bindr] in Ht; try discriminate.
  injection Ht as <-. destruct Hin as [->|H].
  - exists kj. split; [exact Hj|now left].
  - destruct (IH tr eq_refl H) as (k & H1 & H2). exists k. split; [exact H1|now right].
Qed.

Definition in_ranges (a b c d : N) (i : index) : Prop := (a <= fst i < b /\ c <= snd i < d)%N.

Lemma checker_in v Sb a b c d t k i : checker_new Hs v Sb a b c d = Ok t -> In (k, i) t ->
  in_ranges a b c d i /\ get_spend_public_key Hs v Sb i = Ok k.
Proof.
  intros Ht Hin. destruct (table_rows_in _ _ _ _ _ _ Ht Hin) as [H1 H2]. split; [|exact H2].
  apply index_grid_in in H1. destruct H1 as [Hx Hy]. apply range_list_in in Hx. apply range_list_in in Hy. now split.
Qed.

Lemma checker_complete v Sb a b c d t i : checker_new Hs v Sb a b c d = Ok t -> in_ranges a b c d i ->
  exists k, get_spend_public_key Hs v Sb i = Ok k /\ In (k, i) t.
Proof.
  intros Ht [Hx Hy]. apply (table_rows_complete _ _ _ _ _ Ht). apply index_grid_in. split; now apply range_list_in.
Qed.

(* ---- one key, one output --------------------------------------------------------------------------------------------------- *)
Lemma pk_from_slice_id k k' : pk_from_slice k = Ok k' -> k' = k.
Proof.
  unfold pk_from_slice. destruct (negb _); [discriminate|]. destruct (decompress k); [|discriminate].
  destruct (bytes_eqb _ _); [|discriminate]. intros H. now injection H.
Qed.

Lemma as_one_time_key_some tg P : as_one_time_key tg = Some P -> P = target_key tg /\ pk_from_slice P = Ok P.
Proof.
  unfold as_one_time_key. destruct (pk_from_slice (target_key tg)) as [k|e|] eqn:H; try discriminate.
  intros Hk. injection Hk as ->. pose proof (pk_from_slice_id _ _ H) as ->. now split.
Qed.

Lemma check_key_inv t v Sb i o K idx key : check_key Hs Hb t v Sb i o K = Ok (Some (idx, key)) ->
  key = K /\ exists P g c, as_one_time_key (o_target o) = Some P /\ from_key v Sb K = Ok g /\
     check_view_tag Hb (o_target o) (snd g) i = true /\ candidate_spend Hs g i P = Ok c /\ lookup t c = Some idx.
Proof.
  unfold check_key. destruct (as_one_time_key (o_target o)) as [P|] eqn:HP; [|discriminate].
  destruct (from_key v Sb K) as [g|e|] eqn:Hg; cbn [bindr]; try discriminate.
  destruct (check_view_tag Hb (o_target o) (snd g) i) eqn:Htag; cbn [negb]; [|discriminate].
  unfold check_with_key_generator. destruct (candidate_spend Hs g i P) as [c|e|] eqn:Hc; cbn [bindr]; try discriminate.
  destruct (lookup t c) as [j|] eqn:Hl; [|discriminate].
  intros H. injection H as <- <-. split; [reflexivity|]. exists P, g, c. auto.
Qed.

Lemma check_output_cases t v Sb i o main add idx key :
  check_output Hs Hb t v Sb i o main add = Ok (Some (idx, key)) ->
  (check_key Hs Hb t v Sb i o main = Ok (Some (idx, key)) /\ key = main) \/
  (check_key Hs Hb t v Sb i o main = Ok None /\ add = Some key /\ check_key Hs Hb t v Sb i o key = Ok (Some (idx, key))).
Proof.
  unfold check_output. destruct (check_key Hs Hb t v Sb i o main) as [[[j k]|]|e|] eqn:Hm; cbn [bindr]; try discriminate.
  - intros H. injection H as -> ->. left. split; [reflexivity|]. now destruct (check_key_inv _ _ _ _ _ _ _ _ Hm).
  - destruct add as [a|]; [|discriminate]. intros H. right. split; [reflexivity|].
    destruct (check_key_inv _ _ _ _ _ _ _ _ H) as [-> _]. now split.
Qed.

(* ---- the opening step -------------------------------------------------------------------------------------------------------- *)
Definition no_rct (rct : option rct_base) : Prop := rct = None \/ exists bs, rct = Some bs /\ rb_type bs = RNull.

Lemma opening_step_inv rct e c v Sb i key op : opening_step Hs Hb rct e c v Sb i key = SOk op ->
  (op = None /\ no_rct rct) \/
  (exists bs e0 c0 C a y C', rct = Some bs /\ rb_type bs <> RNull /\ e = Some e0 /\ c = Some c0 /\ decompress c0 = Some C /\
       open_commitment Hs Hb e0 v Sb key i C = Ok (Some (a, y, C')) /\ op = Some (a, y, C')).
Proof.
  unfold opening_step. destruct rct as [bs|]; [|intros H; injection H as <-; left; split; [reflexivity|now left]].
  destruct (rb_type bs) eqn:Ht;
    try (intros H; injection H as <-; left; split; [reflexivity|right; now exists bs]);
    (destruct e as [e0|]; [|discriminate]; destruct c as [c0|]; [|discriminate];
     destruct (decompress c0) as [C|] eqn:HC; [|discriminate];
     destruct (open_commitment Hs Hb e0 v Sb key i C) as [[[[a y] C']|]|er|] eqn:Ho; try discriminate;
     intros H; injection H as <-; right; exists bs, e0, c0, C, a, y, C'; repeat split; auto; congruence).
Qed.

Lemma opening_step_errors rct e c v Sb i key er : opening_step Hs Hb rct e c v Sb i key = SErr er ->
  er = MissingEcdhInfo /\ e = None \/ er = MissingCommitment /\ c = None \/ er = InvalidCommitment.
Proof.
  unfold opening_step. destruct rct as [bs|]; [|discriminate].
  destruct (rb_type bs); try discriminate;
    (destruct e as [e0|]; [|intros H; injection H as <-; now left]; destruct c as [c0|]; [|intros H; injection H as <-; right; now left];
     destruct (decompress c0) as [C|]; [|intros H; injection H as <-; now right; right];
     destruct (open_commitment Hs Hb e0 v Sb key i C) as [[o|]|er'|]; try discriminate; intros H; injection H as <-; now right; right).
Qed.

(* ---- the loop ------------------------------------------------------------------------------------------------------------------ *)
Lemma scan_outputs_inv t v Sb rct main outs : forall i adds ecdhs outpks l,
  scan_outputs Hs Hb t v Sb rct main i outs adds ecdhs outpks = SOk l ->
  forall w, In w l -> exists k o,
     nth_error outs k = Some o /\ ow_pos w = (i + N.of_nat k)%N /\ ow_out w = o /\
     check_output Hs Hb t v Sb (ow_pos w) o main (nth_error adds k) = Ok (Some (ow_index w, ow_key w)) /\
     opening_step Hs Hb rct (nth_error ecdhs k) (nth_error outpks k) v Sb (ow_pos w) (ow_key w) = SOk (ow_opening w).
Proof.
  induction outs as [|o rest IH]; intros i adds ecdhs outpks l H w Hw.
  - injection H as <-. contradiction.
  - cbn [scan_outputs] in H. rewrite !uncons_spec in H.
    assert (Hrec : forall l', scan_outputs Hs Hb t v Sb rct main (i + 1)%N rest (tl adds) (tl ecdhs) (tl outpks) = SOk l' ->
                   In w l' -> exists k o0, nth_error (o :: rest) k = Some o0 /\ ow_pos w = (i + N.of_nat k)%N /\ ow_out w = o0 /\
                     check_output Hs Hb t v Sb (ow_pos w) o0 main (nth_error adds k) = Ok (Some (ow_index w, ow_key w)) /\
                     opening_step Hs Hb rct (nth_error ecdhs k) (nth_error outpks k) v Sb (ow_pos w) (ow_key w) = SOk (ow_opening w)).
    { intros l' Hl' Hin. destruct (IH _ _ _ _ _ Hl' w Hin) as (k & o0 & H1 & H2 & H3 & H4 & H5).
      exists (S k), o0. rewrite !nth_error_tl in *. repeat split; auto. rewrite H2. lia. }
    destruct (check_output Hs Hb t v Sb i o main (nth_error adds 0)) as [[[idx key]|]|e|] eqn:Hc; try discriminate.
    + destruct (opening_step Hs Hb rct (nth_error ecdhs 0) (nth_error outpks 0) v Sb i key) as [op|e|] eqn:Ho; try discriminate.
      destruct (scan_outputs Hs Hb t v Sb rct main (i + 1)%N rest (tl adds) (tl ecdhs) (tl outpks)) as [l'|e|] eqn:Hl; try discriminate.
      injection H as <-. destruct Hw as [<-|Hw]; [|now apply (Hrec l')].
      exists 0%nat, o. cbn [ow_pos ow_out ow_index ow_key ow_opening nth_error]. repeat split; auto. lia.
    + now apply (Hrec l).
Qed.

Lemma scan_outputs_complete t v Sb rct main outs : forall i adds ecdhs outpks l,
  scan_outputs Hs Hb t v Sb rct main i outs adds ecdhs outpks = SOk l ->
  forall k o idx key, nth_error outs k = Some o ->
    check_output Hs Hb t v Sb (i + N.of_nat k)%N o main (nth_error adds k) = Ok (Some (idx, key)) ->
    exists op, In (mk_owned (i + N.of_nat k)%N o idx key op) l.
Proof.
  induction outs as [|o rest IH]; intros i adds ecdhs outpks l H k o' idx key Hk Hc; [now destruct k|].
  cbn [scan_outputs] in H. rewrite !uncons_spec in H. destruct k as [|k].
  - cbn [nth_error] in Hk. injection Hk as <-. replace (i + N.of_nat 0)%N with i in * by lia. rewrite Hc in H.
    destruct (opening_step Hs Hb rct (nth_error ecdhs 0) (nth_error outpks 0) v Sb i key) as [op|e|]; try discriminate.
    destruct (scan_outputs Hs Hb t v Sb rct main (i + 1)%N rest (tl adds) (tl ecdhs) (tl outpks)) as [l'|e|]; try discriminate.
    injection H as <-. exists op. now left.
  - cbn [nth_error] in Hk. replace (i + N.of_nat (S k))%N with (i + 1 + N.of_nat k)%N in * by lia.
    rewrite <- nth_error_tl in Hc.
    destruct (check_output Hs Hb t v Sb i o main (nth_error adds 0)) as [[[idx0 key0]|]|e|]; try discriminate.
    + destruct (opening_step Hs Hb rct (nth_error ecdhs 0) (nth_error outpks 0) v Sb i key0) as [op|e|]; try discriminate.
      destruct (scan_outputs Hs Hb t v Sb rct main (i + 1)%N rest (tl adds) (tl ecdhs) (tl outpks)) as [l'|e|] eqn:Hl; try discriminate.
      injection H as <-. destruct (IH _ _ _ _ _ Hl k o' idx key Hk Hc) as (op' & Hin). exists op'. now right.
    + exact (IH _ _ _ _ _ H k o' idx key Hk Hc).
Qed.

Lemma scan_outputs_none t v Sb rct main outs i adds ecdhs outpks l k o :
  scan_outputs Hs Hb t v Sb rct main i outs adds ecdhs outpks = SOk l ->
  nth_error outs k = Some o ->
  check_output Hs Hb t v Sb (i + N.of_nat k)%N o main (nth_error adds k) = Ok None ->
  forall w, In w l -> ow_pos w <> (i + N.of_nat k)%N.
Proof.
  intros H Hk Hc w Hw Hpos. destruct (scan_outputs_inv _ _ _ _ _ _ _ _ _ _ _ H w Hw) as (k' & o' & H1 & H2 & H3 & H4 & _).
  assert (k' = k) by lia. subst k'. rewrite Hk in H1. injection H1 as <-. rewrite Hpos in H4. congruence.
Qed.

(* positions are reported in increasing order, each at most once *)
Lemma scan_outputs_sorted t v Sb rct main outs : forall i adds ecdhs outpks l,
  scan_outputs Hs Hb t v Sb rct main i outs adds ecdhs outpks = SOk l ->
  StronglySorted N.lt (map ow_pos l).
Proof.
  induction outs as [|o rest IH]; intros i adds ecdhs outpks l H.
  - injection H as <-. constructor.
  - cbn [scan_outputs] in H. rewrite !uncons_spec in H.
    destruct (check_output Hs Hb t v Sb i o main (nth_error adds 0)) as [[[idx key]|]|e|]; try discriminate.
    + destruct (opening_step Hs Hb rct (nth_error ecdhs 0) (nth_error outpks 0) v Sb i key) as [op|e|]; try discriminate.
      destruct (scan_outputs Hs Hb t v Sb rct main (i + 1)%N rest (tl adds) (tl ecdhs) (tl outpks)) as [l'|e|] eqn:Hl; try discriminate.
      injection H as <-. cbn [map ow_pos]. constructor; [now apply (IH _ _ _ _ _ Hl)|].
      apply Forall_forall. intros p Hp. apply in_map_iff in Hp. destruct Hp as (w & <- & Hw).
      destruct (scan_outputs_inv _ _ _ _ _ _ _ _ _ _ _ Hl w Hw) as (k & _ & _ & H2 & _). lia.
    + now apply (IH _ _ _ _ _ H).
Qed.

(* ---- check_outputs_with unfolded ---------------------------------------------------------------------------------------------- *)
Definition adds_of (fields : list subfield) : list bytes :=
  match tx_additional_pubkeys fields with Some ks => ks | None => [] end.
Definition ecdhs_of (rct : option rct_base) : list ecdh := match rct with Some b => rb_ecdh b | None => [] end.
Definition outpks_of (rct : option rct_base) : list bytes := match rct with Some b => rb_out_pk b | None => [] end.

Lemma prefix_scan_inv v Sb a b c d p rct l : prefix_check_outputs Hs Hb v Sb a b c d p rct = SOk l ->
  exists t fields main,
    checker_new Hs v Sb a b c d = Ok t /\ raw_try_parse valid_pk_b (extra p) = Ok fields /\ tx_pubkey fields = Some main /\
    scan_outputs Hs Hb t v Sb rct main 0%N (outputs p) (adds_of fields) (ecdhs_of rct) (outpks_of rct) = SOk l.
Proof.
  unfold prefix_check_outputs. destruct (checker_new Hs v Sb a b c d) as [t|e|]; try discriminate.
  unfold check_outputs_with. destruct (raw_try_parse valid_pk_b (extra p)) as [fields|e|]; try discriminate.
  destruct (tx_pubkey fields) as [main|] eqn:Hm; [|discriminate]. intros H. now exists t, fields, main.
Qed.

Lemma prefix_scan_no_key v Sb a b c d p rct t fields : checker_new Hs v Sb a b c d = Ok t ->
  raw_try_parse valid_pk_b (extra p) = Ok fields -> tx_pubkey fields = None ->
  prefix_check_outputs Hs Hb v Sb a b c d p rct = SErr NoTxPublicKey.
Proof. intros Ht Hf Hm. unfold prefix_check_outputs, check_outputs_with. now rewrite Ht, Hf, Hm. Qed.

End ScanBasics.
