(* BlockIdProofs.v — for every block the parser accepts, root / PoW blob / id are total and equal the CryptoNote
   definition over the miner-transaction id (C05) and the listed hashes (C06); no assert or unwrap is reachable (C04). *)
From MRS Require Export Model.BlockId Proofs.Robust Proofs.KeccakProofs Proofs.TxIdProofs Proofs.TreeHashProofs Spec.TreeHash.
Open Scope N_scope.

Lemma tx_hash_keccak_length t : length (tx_hash keccak256 t) = 32%nat.
Proof. unfold tx_hash. destruct (version (tx_prefix t) =? 1); apply keccak256_length. Qed.

Lemma header_short sz s b r : dec_block sz s = (Ok b, r) -> lenN (enc_header (blk_header b)) <= lenN s.
Proof.
  intros Hd. apply (exact_pf (d := dec_block sz)) in Hd. subst s. unfold enc_block.
  unfold lenN. rewrite !app_length. lia.
Qed.

Lemma parsed_block_total sz s b r :
  dec_block sz s = (Ok b, r) -> lenN s < 2 ^ 32 ->
  let mh := tx_hash keccak256 (miner_tx b) in
  let hdr := enc_header (blk_header b) in
  block_tx_root keccak256 b = Ok (root_spec keccak256 (mh :: tx_hashes b)) /\
  block_hashable keccak256 b = Ok (blob_spec keccak256 leb128 hdr (mh :: tx_hashes b)) /\
  block_id_of keccak256 b =
    Ok (id_spec keccak256 leb128 correct_block_id_202612 existing_block_id_202612 hdr (mh :: tx_hashes b)).
Proof.
  intros Hd Hs. cbv zeta. unfold block_tx_root, block_hashable, block_id_of. repeat split.
  - exact (block_root_total keccak256 sz s b r _ Hd).
  - exact (block_blob_total keccak256 sz s b r _ _ Hd).
  - exact (block_id_total sz s b r _ Hd (tx_hash_keccak_length _) Hs).
Qed.
