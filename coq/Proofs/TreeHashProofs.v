(* TreeHashProofs.v — the in-place tree hash of Model/TreeHash.v computes the recursive CryptoNote definition of
   Spec/TreeHash.v, for every two-to-one hash and every number of leaves. *)
From MRS Require Export Proofs.BaseProofs Proofs.VarintProofs Model.TreeHash Spec.TreeHash Spec.Leb128.
Open Scope N_scope.

(* ---- tree_hash_cnt ----------------------------------------------------------------------- *)
(* largest power of two strictly below n (n >= 2) *)
Definition pow2_below (n : N) : N := 2 ^ N.log2 (n - 1).

Lemma pow2_below_spec n : 2 <= n -> pow2_below n < n /\ n <= 2 * pow2_below n.
Proof.
  intros Hn. unfold pow2_below.
  destruct (N.log2_spec (n - 1)) as [Hlo Hhi]; [lia|].
  rewrite N.pow_succ_r' in Hhi. lia.
Qed.

Lemma pow2_below_unique n k : 2 ^ k < n -> n <= 2 * 2 ^ k -> pow2_below n = 2 ^ k.
Proof.
  intros Hlo Hhi. unfold pow2_below. f_equal. apply N.log2_unique; [lia|].
  rewrite N.pow_succ_r'. lia.
Qed.

Lemma cnt_loop_spec fuel : forall j count,
  1 <= j -> 2 ^ (j - 1) < count -> count <= 2 ^ 28 -> 28 < j + N.of_nat fuel ->
  exists k, j <= k /\ k <= 28 /\ cnt_loop fuel (2 ^ j) count = Ok (2 ^ k) /\ 2 ^ (k - 1) < count /\ count <= 2 ^ k.
Proof.
  induction fuel as [|f IH]; intros j count Hj Hlo Hhi Hf.
  - exfalso. assert (2 ^ 28 <= 2 ^ (j - 1)) by (apply N.pow_le_mono_r; lia). lia.
  - assert (Hj28 : j <= 28).
    { destruct (N.le_gt_cases j 28) as [L|G]; [exact L|exfalso].
      assert (2 ^ 28 <= 2 ^ (j - 1)) by (apply N.pow_le_mono_r; lia). lia. }
    cbn [cnt_loop]. destruct (N.ltb_spec (2 ^ j) count) as [Lt|Ge].
    + assert (Hj27 : j < 28).
      { destruct (N.lt_ge_cases j 28) as [L|G]; [exact L|exfalso].
        assert (2 ^ 28 <= 2 ^ j) by (apply N.pow_le_mono_r; lia). lia. }
      assert (E : N.shiftl (2 ^ j) 1 mod 2 ^ 64 = 2 ^ (j + 1)).
      { rewrite N.shiftl_mul_pow2, <- N.pow_add_r. apply N.mod_small. apply N.pow_lt_mono_r; lia. }
      rewrite E. destruct (IH (j + 1) count) as [k [K1 [K2 [K3 K4]]]]; try lia.
      { replace (j + 1 - 1) with j by lia. exact Lt. }
      exists k. repeat split; try tauto; lia.
    + exists j. repeat split; try assumption; lia.
Qed.

Lemma tree_hash_cnt_spec n : 3 <= n -> n <= 2 ^ 28 ->
  tree_hash_cnt n = Ok (pow2_below n) /\ pow2_below n < n /\ n <= 2 * pow2_below n.
Proof.
  intros H3 H28. split; [|apply pow2_below_spec; lia].
  unfold tree_hash_cnt. change 268435456 with (2 ^ 28).
  destruct (N.ltb_spec n 3) as [L|_]; [lia|].
  destruct (N.ltb_spec (2 ^ 28) n) as [L|_]; [lia|].
  destruct (cnt_loop_spec 64 1 n) as [k [K1 [K2 [K3 [K4 K5]]]]]; try lia.
  { change (2 ^ (1 - 1)) with 1. lia. }
  change (2 ^ 1) with 2 in K3. rewrite K3. f_equal.
  rewrite N.shiftr_div_pow2. change (2 ^ 1) with 2.
  assert (E : 2 ^ k = 2 * 2 ^ (k - 1)).
  { rewrite <- N.pow_succ_r'. f_equal. lia. }
  rewrite E. rewrite N.mul_comm, N.div_mul by discriminate.
  symmetry. apply pow2_below_unique; lia.
Qed.

Lemma tree_hash_cnt_panics n : n < 3 \/ 2 ^ 28 < n -> tree_hash_cnt n = Panic.
Proof.
  intros H. unfold tree_hash_cnt. change 268435456 with (2 ^ 28).
  destruct (N.ltb_spec n 3) as [L|G]; [reflexivity|].
  destruct (N.ltb_spec (2 ^ 28) n) as [L'|G']; [reflexivity|lia].
Qed.

(* the loop alone is total on the whole problem space and returns a power of two: never EFuel *)
Lemma tree_hash_cnt_pow2 n : 3 <= n -> n <= 2 ^ 28 -> exists k, 1 <= k <= 27 /\ tree_hash_cnt n = Ok (2 ^ k).
Proof.
  intros H3 H28. destruct (tree_hash_cnt_spec n H3 H28) as [E [Lo Hi]].
  exists (N.log2 (n - 1)). split; [|exact E].
  split.
  - apply (N.log2_le_pow2 (n - 1) 1); [lia|]. change (2 ^ 1) with 2. lia.
  - assert (N.log2 (n - 1) < 28); [|lia]. apply (N.log2_lt_pow2 (n - 1) 28); lia.
Qed.

(* ---- the in-place algorithm ------------------------------------------------------------------ *)
Local Open Scope nat_scope.

Section TreeProofs.
Variable hc : bytes -> bytes -> bytes.
Notation pairs := (pairs hc).
Notation perfect := (perfect hc).
Notation pair_step := (pair_step hc).
Notation first_loop := (first_loop hc).
Notation pass := (pass hc).
Notation halving := (halving hc).

(* both inner loops of tree_hash are this one: rem times { h[j] = hc h[i] h[i+1]; i += 2; j += 1 } *)
Fixpoint pairloop (rem i j : nat) (h : list bytes) : res (list bytes) :=
  match rem with
  | O => Ok h
  | S r => match pair_step h i j with
           | Ok h' => pairloop r (i + 2) (j + 1) h'
           | Err e => Err e
           | Panic => Panic
           end
  end.

Lemma set_nth_app done : forall j x u v, j = length done -> set_nth (done ++ x :: u) j v = Some (done ++ v :: u).
Proof.
  induction done as [|d t IH]; intros j x u v Hj; subst j; [reflexivity|].
  cbn [length app set_nth]. now rewrite (IH (length t) x u v eq_refl).
Qed.

Lemma nth_error_app_off (done u : list bytes) t : nth_error (done ++ u) (length done + t) = nth_error u t.
Proof. rewrite nth_error_app2 by lia. f_equal. lia. Qed.

Lemma pair_step_app done x u t a b :
  nth_error (x :: u) t = Some a -> nth_error (x :: u) (t + 1) = Some b ->
  pair_step (done ++ x :: u) (length done + t) (length done) = Ok (done ++ hc a b :: u).
Proof.
  intros Ha Hb. unfold TreeHash.pair_step.
  rewrite nth_error_app_off, Ha. rewrite <- Nat.add_assoc, nth_error_app_off, Hb.
  now rewrite (set_nth_app done (length done) x u (hc a b) eq_refl).
Qed.

Lemma skipn_two (l : list bytes) : forall t a b,
  nth_error l t = Some a -> nth_error l (t + 1) = Some b -> skipn t l = a :: b :: skipn (t + 2) l.
Proof.
  induction l as [|x l IH]; intros t a b Ha Hb.
  - destruct t; discriminate Ha.
  - destruct t as [|t].
    + cbn [nth_error Nat.add] in Ha, Hb. destruct l as [|y l]; [discriminate Hb|].
      cbn [nth_error] in Hb. inversion Ha; inversion Hb; subst. reflexivity.
    + cbn [nth_error Nat.add] in Ha, Hb. cbn [skipn Nat.add]. apply IH; assumption.
Qed.

Lemma nth_error_lt (l : list bytes) t : t < length l -> exists a, nth_error l t = Some a.
Proof.
  intros Ht. destruct (nth_error l t) eqn:E; [eexists; reflexivity|].
  apply nth_error_None in E. lia.
Qed.

Lemma pairloop_spec rem : forall done u t i j,
  j = length done -> i = j + t -> t + 2 * rem <= length u ->
  pairloop rem i j (done ++ u) = Ok (done ++ pairs (firstn (2 * rem) (skipn t u)) ++ skipn rem u).
Proof.
  induction rem as [|r IH]; intros done u t i j Hj Hi Hlen.
  - rewrite Nat.mul_0_r. reflexivity.
  - destruct u as [|x u]; [cbn [length] in Hlen; lia|].
    destruct (nth_error_lt (x :: u) t) as [a Ha]; [lia|].
    destruct (nth_error_lt (x :: u) (t + 1)) as [b Hb]; [lia|].
    cbn [pairloop]. subst i j. rewrite (pair_step_app done x u t a b Ha Hb).
    change (done ++ hc a b :: u) with (done ++ [hc a b] ++ u). rewrite app_assoc.
    rewrite (IH (done ++ [hc a b]) u (t + 1) (length done + t + 2) (length done + 1)).
    + rewrite (skipn_two (x :: u) t a b Ha Hb).
      replace (2 * S r) with (S (S (2 * r))) by lia.
      replace (t + 2) with (S (t + 1)) by lia.
      cbn [firstn skipn Spec.TreeHash.pairs]. rewrite <- app_assoc. reflexivity.
    + rewrite app_length. cbn [length]. lia.
    + lia.
    + cbn [length] in Hlen. lia.
Qed.

Lemma pass_is_pairloop rem : forall i h, pass rem i h = pairloop rem (2 * i) i h.
Proof.
  induction rem as [|r IH]; intros i h; [reflexivity|].
  cbn [TreeHash.pass pairloop]. destruct (pair_step h (2 * i) i) as [h'| |]; try reflexivity.
  rewrite IH. f_equal; lia.
Qed.

Lemma first_loop_ok fuel : forall h i j cnt h',
  j <= cnt -> cnt - j < fuel -> pairloop (cnt - j) i j h = Ok h' ->
  first_loop fuel h i j cnt = Ok (h', i + 2 * (cnt - j)).
Proof.
  induction fuel as [|f IH]; intros h i j cnt h' Hj Hf Hp; [lia|].
  cbn [TreeHash.first_loop]. destruct (Nat.ltb_spec j cnt) as [Lt|Ge].
  - replace (cnt - j) with (S (cnt - (j + 1))) in Hp by lia. cbn [pairloop] in Hp.
    destruct (pair_step h i j) as [h1| |]; try discriminate Hp.
    rewrite (IH h1 (i + 2) (j + 1) cnt h'); [f_equal; f_equal; lia|lia|lia|exact Hp].
  - replace (cnt - j) with 0 in * by lia. cbn [pairloop] in Hp. inversion Hp. f_equal. f_equal. lia.
Qed.

(* ---- lists of pairs --------------------------------------------------------------------------- *)
Lemma pairs_length m : forall l, length l = 2 * m -> length (pairs l) = m.
Proof.
  induction m as [|m IH]; intros l Hl.
  - destruct l; [reflexivity|cbn [length] in Hl; lia].
  - destruct l as [|a [|b t]]; cbn [length] in Hl; try lia.
    cbn [Spec.TreeHash.pairs length]. rewrite IH; [reflexivity|lia].
Qed.

Lemma pairs_app m : forall A B, length A = 2 * m -> pairs (A ++ B) = pairs A ++ pairs B.
Proof.
  induction m as [|m IH]; intros A B HA.
  - destruct A; [reflexivity|cbn [length] in HA; lia].
  - destruct A as [|a [|b t]]; cbn [length] in HA; try lia.
    cbn [app Spec.TreeHash.pairs]. rewrite IH by lia. reflexivity.
Qed.

(* root of a perfect tree bottom-up: d rounds of pairing *)
Fixpoint reduce (d : nat) (l : list bytes) : bytes :=
  match d with O => hd [] l | S d' => reduce d' (pairs l) end.

Lemma reduce_app d : forall A B, length A = 2 ^ d -> length B = 2 ^ d ->
  reduce (S d) (A ++ B) = hc (reduce d A) (reduce d B).
Proof.
  induction d as [|d IH]; intros A B HA HB.
  - destruct A as [|a [|? ?]]; try discriminate HA. destruct B as [|b [|? ?]]; try discriminate HB. reflexivity.
  - rewrite Nat.pow_succ_r' in HA, HB.
    change (reduce (S (S d)) (A ++ B)) with (reduce (S d) (pairs (A ++ B))).
    rewrite (pairs_app (2 ^ d)) by exact HA.
    rewrite IH by (apply pairs_length; assumption). reflexivity.
Qed.

Lemma reduce_perfect d : forall l, length l = 2 ^ d -> reduce d l = perfect d l.
Proof.
  induction d as [|d IH]; intros l Hl; [reflexivity|].
  rewrite Nat.pow_succ_r' in Hl.
  cbn [Spec.TreeHash.perfect].
  rewrite <- (IH (firstn (2 ^ d) l)) by (rewrite firstn_length; lia).
  rewrite <- (IH (skipn (2 ^ d) l)) by (rewrite skipn_length; lia).
  rewrite <- reduce_app; [now rewrite firstn_skipn|rewrite firstn_length; lia|rewrite skipn_length; lia].
Qed.

(* ---- the halving passes ------------------------------------------------------------------------ *)
Lemma firstn_exact (L G : list bytes) n : n = length L -> firstn n (L ++ G) = L.
Proof. intros ->. rewrite firstn_app, firstn_all, Nat.sub_diag. cbn [firstn]. apply app_nil_r. Qed.

Lemma skipn_app_le (L G : list bytes) c : c <= length L -> skipn c (L ++ G) = skipn c L ++ G.
Proof. intros Hc. rewrite skipn_app. replace (c - length L) with 0 by lia. reflexivity. Qed.

Lemma pow2_pos k : 1 <= 2 ^ k.
Proof. pose proof (Nat.pow_nonzero 2 k). lia. Qed.

(* one pass over a prefix L of even length 2c: the first c cells become pairs L *)
Lemma pass_spec c L G : length L = 2 * c ->
  pass c 0 (L ++ G) = Ok (pairs L ++ (skipn c L ++ G)).
Proof.
  intros HL. rewrite pass_is_pairloop.
  change (L ++ G) with ([] ++ (L ++ G)) at 1.
  rewrite (pairloop_spec c [] (L ++ G) 0 (2 * 0) 0); [|reflexivity|reflexivity|rewrite app_length; lia].
  cbn [app skipn]. rewrite (firstn_exact L G (2 * c)) by lia. rewrite skipn_app_le by lia. reflexivity.
Qed.

Lemma halving_spec k : forall fuel L G, length L = 2 ^ S k -> k < fuel ->
  exists L' G', halving fuel (L ++ G) (2 ^ S k) = Ok (L' ++ G') /\ length L' = 2 /\ reduce (S k) L = reduce 1 L'.
Proof.
  induction k as [|k IH]; intros fuel L G HL Hf.
  - destruct fuel as [|f]; [lia|]. cbn [TreeHash.halving]. change (2 ^ 1) with 2. rewrite Nat.ltb_irrefl.
    exists L, G. split; [reflexivity|]. split; [exact HL|reflexivity].
  - destruct fuel as [|f]; [lia|]. cbn [TreeHash.halving].
    pose proof (pow2_pos k) as Hp.
    assert (E : 2 ^ S (S k) = 2 * 2 ^ S k) by apply Nat.pow_succ_r'.
    assert (E' : 2 ^ S k = 2 * 2 ^ k) by apply Nat.pow_succ_r'.
    destruct (Nat.ltb_spec 2 (2 ^ S (S k))) as [_|Ge]; [|lia].
    assert (Ed : Nat.div2 (2 ^ S (S k)) = 2 ^ S k) by (rewrite E; apply Nat.div2_double).
    rewrite !Ed. rewrite pass_spec by lia.
    destruct (IH f (pairs L) (skipn (2 ^ S k) L ++ G)) as [L' [G' [H1 [H2 H3]]]].
    + apply pairs_length. lia.
    + lia.
    + rewrite H1. exists L', G'. split; [reflexivity|]. split; [exact H2|].
      rewrite <- H3. reflexivity.
Qed.

(* ---- the whole function -------------------------------------------------------------------------- *)
Notation tree_hash := (tree_hash hc).
Notation tree_spec := (tree_spec hc).

Lemma depth_below_facts n : 3 <= n -> (N.of_nat n <= 2 ^ 28)%N ->
  N.to_nat (pow2_below (N.of_nat n)) = 2 ^ depth_below n /\
  1 <= depth_below n < 28 /\ 2 ^ depth_below n < n /\ n <= 2 * 2 ^ depth_below n.
Proof.
  intros H3 H28. unfold depth_below, pow2_below.
  assert (E : N.to_nat (2 ^ N.log2 (N.of_nat n - 1)) = 2 ^ N.to_nat (N.log2 (N.of_nat n - 1))).
  { rewrite N2Nat.inj_pow. reflexivity. }
  destruct (pow2_below_spec (N.of_nat n)) as [Lo Hi]; [lia|]. unfold pow2_below in Lo, Hi.
  split; [exact E|].
  assert (D1 : (1 <= N.log2 (N.of_nat n - 1))%N).
  { apply (N.log2_le_pow2 (N.of_nat n - 1) 1); [lia|]. change (2 ^ 1)%N with 2%N. lia. }
  assert (D2 : (N.log2 (N.of_nat n - 1) < 28)%N).
  { apply (N.log2_lt_pow2 (N.of_nat n - 1) 28); lia. }
  rewrite <- E. lia.
Qed.

Lemma tree_hash_correct root extra : (lenN extra < 2 ^ 28)%N ->
  tree_hash root extra = Ok (tree_spec (root :: extra)).
Proof.
  intros Hlen. destruct extra as [|e1 [|e2 rest]]; [reflexivity|reflexivity|].
  unfold TreeHash.tree_hash, Spec.TreeHash.tree_spec. cbv beta iota.
  remember (e1 :: e2 :: rest) as extra eqn:Hex.
  assert (Hn3 : 3 <= S (length extra)) by (subst extra; cbn [length]; lia).
  set (n := S (length extra)) in *.
  assert (Hc : (lenN extra + 1 = N.of_nat n)%N) by (unfold lenN, n; lia).
  rewrite Hc. unfold lenN in Hlen.
  destruct (tree_hash_cnt_spec (N.of_nat n)) as [Ecnt _]; [lia|lia|]. rewrite Ecnt.
  destruct (depth_below_facts n Hn3) as [Ec [Hd [Hlo Hhi]]]; [lia|]. rewrite Ec.
  set (d := depth_below n) in *. set (c := 2 ^ d) in *.
  destruct (Nat.ltb_spec (2 * c) n) as [Bad|_]; [lia|].
  set (keep := 2 * c - n).
  set (hashes := root :: extra).
  assert (Hlh : length hashes = n) by reflexivity.
  (* the first loop *)
  assert (Hsplit : hashes = firstn keep hashes ++ skipn keep hashes) by (symmetry; apply firstn_skipn).
  assert (Hl1 : length (firstn keep hashes) = keep) by (rewrite firstn_length; lia).
  assert (Hl2 : length (skipn keep hashes) = 2 * (c - keep)) by (rewrite skipn_length; lia).
  assert (Hloop : pairloop (c - keep) keep keep hashes =
                  Ok ((firstn keep hashes ++ pairs (skipn keep hashes)) ++ skipn (c - keep) (skipn keep hashes))).
  { rewrite Hsplit at 1.
    rewrite (pairloop_spec (c - keep) (firstn keep hashes) (skipn keep hashes) 0 keep keep); [|lia|lia|lia].
    rewrite skipn_O. rewrite (@firstn_all2 _ (2 * (c - keep)) (skipn keep hashes)) by lia. now rewrite app_assoc. }
  assert (Hfl := first_loop_ok (S n) hashes keep keep c _ ltac:(lia) ltac:(lia) Hloop).
  rewrite Hfl. cbv beta iota.
  replace (keep + 2 * (c - keep)) with n by lia. rewrite Nat.eqb_refl. cbn [negb].
  change (depth_below (length hashes)) with d. change (2 ^ d) with c. change (2 * c - length hashes) with keep.
  set (L := firstn keep hashes ++ pairs (skipn keep hashes)).
  set (G := skipn (c - keep) (skipn keep hashes)).
  assert (HL : length L = c).
  { unfold L. rewrite app_length, Hl1, (pairs_length (c - keep)) by exact Hl2. lia. }
  clearbody L G. clear Hfl Hloop Hsplit Hl1 Hl2.
  clearbody d. destruct d as [|k]; [lia|].
  destruct (halving_spec k 64 L G HL) as [L' [G' [H1 [H2 H3]]]]; [lia|].
  unfold c. rewrite H1.
  destruct L' as [|a [|b [|x L']]]; try discriminate H2.
  cbn [app nth_error]. f_equal.
  rewrite <- reduce_perfect by exact HL. rewrite H3. reflexivity.
Qed.

(* beyond the sanity limit the function panics, as the assert says *)
Lemma tree_hash_panics root extra : (2 ^ 28 <= lenN extra)%N -> tree_hash root extra = Panic.
Proof.
  intros Hlen. unfold lenN in Hlen.
  destruct extra as [|e1 [|e2 rest]].
  - cbn [length] in Hlen. change (2 ^ 28)%N with 268435456%N in Hlen. lia.
  - cbn [length] in Hlen. change (2 ^ 28)%N with 268435456%N in Hlen. lia.
  - unfold TreeHash.tree_hash. cbv beta iota.
    rewrite tree_hash_cnt_panics; [reflexivity|]. right. unfold lenN. lia.
Qed.

Lemma tree_hash_list_correct l : (1 <= lenN l <= 2 ^ 28)%N -> tree_hash_list hc l = Ok (tree_spec l).
Proof.
  intros Hl. destruct l as [|a r]; [cbn in Hl; lia|].
  unfold tree_hash_list. apply tree_hash_correct. unfold lenN in *. cbn [length] in Hl. lia.
Qed.

(* the special cases of the definition agree with the general formula (so the case split is only presentation) *)
Lemma tree_spec_small a b :
  tree_spec [a] = perfect (depth_below 1) (firstn (2 * 2 ^ depth_below 1 - 1) [a] ++ pairs (skipn (2 * 2 ^ depth_below 1 - 1) [a])) /\
  tree_spec [a; b] = perfect (depth_below 2) (firstn (2 * 2 ^ depth_below 2 - 2) [a; b] ++ pairs (skipn (2 * 2 ^ depth_below 2 - 2) [a; b])).
Proof. split; reflexivity. Qed.
End TreeProofs.

(* ---- blocks: PoW blob and identifier ----------------------------------------------------------------- *)
Lemma bytes_eqb_eq a : forall b, bytes_eqb a b = true <-> a = b.
Proof.
  induction a as [|x a IH]; intros [|y b]; cbn [bytes_eqb]; try (split; [discriminate|discriminate]); [tauto|].
  rewrite andb_true_iff, IH. split.
  - intros [E1 E2]. apply Byte.byte_dec_bl in E1. now subst.
  - intros E. inversion E; subst. split; [now apply Byte.byte_dec_lb|reflexivity].
Qed.

Section BlockProofs.
Variable H : bytes -> bytes.
Local Open Scope N_scope.

Lemma tx_root_correct mh txs : lenN txs < 2 ^ 28 -> tx_root H mh txs = Ok (root_spec H (mh :: txs)).
Proof. intros Hl. exact (tree_hash_correct (hash_concat H) mh txs Hl). Qed.

Lemma tx_root_panics mh txs : 2 ^ 28 <= lenN txs -> tx_root H mh txs = Panic.
Proof. intros Hl. exact (tree_hash_panics (hash_concat H) mh txs Hl). Qed.

Lemma lenN_cons {A} (x : A) l : lenN (x :: l) = 1 + lenN l.
Proof. unfold lenN. cbn [length]. lia. Qed.

Lemma hashable_blob_correct hdr mh txs : lenN txs < 2 ^ 28 ->
  hashable_blob H hdr mh txs = Ok (blob_spec H leb128 hdr (mh :: txs)).
Proof.
  intros Hl. unfold hashable_blob. rewrite tx_root_correct by exact Hl.
  assert (Hlt : 1 + lenN txs < 2 ^ 64).
  { assert (2 ^ 28 < 2 ^ 64) by (apply N.pow_lt_mono_r; lia). lia. }
  destruct (N.ltb_spec (1 + lenN txs) (2 ^ 64)) as [_|Ge]; [|lia].
  unfold blob_spec. rewrite lenN_cons, enc_varint_is_leb. reflexivity.
Qed.

Lemma block_id_correct hdr mh txs : lenN txs < 2 ^ 28 ->
  lenN (blob_spec H leb128 hdr (mh :: txs)) < 2 ^ 64 ->
  block_id H hdr mh txs =
  Ok (id_spec H leb128 correct_block_id_202612 existing_block_id_202612 hdr (mh :: txs)).
Proof.
  intros Hl Hb. unfold block_id. rewrite hashable_blob_correct by exact Hl.
  destruct (N.ltb_spec (lenN (blob_spec H leb128 hdr (mh :: txs))) (2 ^ 64)) as [_|Ge]; [|lia].
  unfold id_spec. rewrite enc_varint_is_leb. f_equal.
  destruct (list_eq_dec Byte.byte_eq_dec _ correct_block_id_202612) as [E|NE].
  - rewrite E. rewrite (proj2 (bytes_eqb_eq _ _) eq_refl). reflexivity.
  - destruct (bytes_eqb _ correct_block_id_202612) eqn:Eb; [|reflexivity].
    apply bytes_eqb_eq in Eb. contradiction.
Qed.

(* the substitution in words *)
Lemma block_id_cases hdr mh txs : lenN txs < 2 ^ 28 ->
  lenN (blob_spec H leb128 hdr (mh :: txs)) < 2 ^ 64 ->
  let blob := blob_spec H leb128 hdr (mh :: txs) in
  let h := H (leb128 (lenN blob) ++ blob) in
  (h = correct_block_id_202612 -> block_id H hdr mh txs = Ok existing_block_id_202612) /\
  (h <> correct_block_id_202612 -> block_id H hdr mh txs = Ok h).
Proof.
  intros Hl Hb blob h. rewrite block_id_correct by assumption. unfold id_spec. fold blob. fold h.
  destruct (list_eq_dec Byte.byte_eq_dec h correct_block_id_202612) as [E|NE]; split; intros X; try reflexivity; contradiction.
Qed.
End BlockProofs.

(* ---- the Keccak instance: the blob is short, so the length conversion in Block::id never fails ------------- *)
From MRS Require Import Proofs.KeccakProofs.

Lemma tree_spec_shape hc l : (3 <= length l)%nat -> (N.of_nat (length l) <= 2 ^ 28)%N ->
  exists a b, tree_spec hc l = hc a b.
Proof.
  intros H3 H28. destruct l as [|x [|y [|z t]]]; cbn [length] in H3; try lia.
  unfold tree_spec. cbv beta iota.
  destruct (depth_below_facts (length (x :: y :: z :: t)) H3 H28) as [_ [Hd _]].
  destruct (depth_below (length (x :: y :: z :: t))) as [|d]; [lia|].
  cbn [perfect]. eexists; eexists; reflexivity.
Qed.

Lemma root_spec_keccak_length mh txs : length mh = 32%nat -> (lenN txs < 2 ^ 28)%N ->
  length (root_spec keccak256 (mh :: txs)) = 32%nat.
Proof.
  intros Hm Hl. unfold root_spec. destruct txs as [|a [|b t]].
  - exact Hm.
  - apply keccak256_length.
  - destruct (tree_spec_shape (fun a b => keccak256 (a ++ b)) (mh :: a :: b :: t)) as [u [v E]].
    + cbn [length]. lia.
    + unfold lenN in Hl. cbn [length] in *. unfold bytes in *. lia.
    + rewrite E. apply keccak256_length.
Qed.

Lemma block_id_keccak hdr mh txs :
  length mh = 32%nat -> (lenN txs < 2 ^ 28)%N -> (lenN hdr < 2 ^ 32)%N ->
  block_id keccak256 hdr mh txs =
  Ok (id_spec keccak256 leb128 correct_block_id_202612 existing_block_id_202612 hdr (mh :: txs)).
Proof.
  intros Hm Hl Hh. apply block_id_correct; [exact Hl|].
  unfold blob_spec, lenN. rewrite !app_length, root_spec_keccak_length by assumption.
  rewrite <- enc_varint_is_leb.
  assert (Hv : (1 <= length (enc_varint (lenN (mh :: txs))) <= 10)%nat).
  { apply enc_varint_len_bounds. rewrite lenN_cons.
    assert (2 ^ 28 < 2 ^ 64)%N by (apply N.pow_lt_mono_r; lia). unfold bytes in *. lia. }
  unfold lenN in *. unfold bytes in *. change (2 ^ 32)%N with 4294967296%N in Hh. change (2 ^ 64)%N with 18446744073709551616%N. lia.
Qed.

(* ---- sanity of the specification: on 2^k leaves it is the plain perfect Merkle tree ------------------------------ *)
Lemma depth_below_pow2 k : depth_below (2 ^ S k) = k.
Proof.
  unfold depth_below. rewrite Nat2N.inj_pow. change (N.of_nat 2) with 2%N.
  rewrite <- N.pred_sub, N.log2_pred_pow2 by lia. lia.
Qed.

Lemma tree_spec_pow2 hc k l : length l = (2 ^ k)%nat -> tree_spec hc l = perfect hc k l.
Proof.
  intros Hl. destruct k as [|[|k]].
  - destruct l as [|a [|? ?]]; try discriminate Hl. reflexivity.
  - destruct l as [|a [|b [|? ?]]]; try discriminate Hl. reflexivity.
  - assert (E : (2 ^ S (S k) = 2 * 2 ^ S k)%nat) by apply Nat.pow_succ_r'.
    assert (E' : (2 ^ S k = 2 * 2 ^ k)%nat) by apply Nat.pow_succ_r'.
    pose proof (pow2_pos k) as Hp.
    destruct l as [|x [|y [|z t]]]; cbn [length] in Hl; try lia.
    unfold tree_spec. cbv beta iota. remember (x :: y :: z :: t) as l eqn:Hel.
    assert (Hl' : length l = (2 ^ S (S k))%nat) by (subst l; exact Hl).
    rewrite Hl', depth_below_pow2. rewrite <- E, Nat.sub_diag.
    cbn [firstn skipn app].
    rewrite <- (reduce_perfect hc (S k)) by (apply pairs_length; lia).
    rewrite <- (reduce_perfect hc (S (S k))) by exact Hl'. reflexivity.
Qed.
