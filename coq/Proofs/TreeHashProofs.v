(* TreeHashProofs.v — the in-place tree hash of Model/TreeHash.v computes the recursive CryptoNote definition of
   Spec/TreeHash.v, for every two-to-one hash and every number of leaves. *)
From MRS Require Export Proofs.BaseProofs Proofs.VarintProofs Model.TreeHash Spec.TreeHash Spec.Leb128.
Open Scope N_scope.

(* ---- tree_hash_cnt ----------------------------------------------------------------------- *)
(* largest power of two strictly below n (n >= 2) *)
Definition pow2_below (n : N) : N := 2 ^ N.log2 (n - 1).

Lemma pow2_below_spec n : 2 <= n -> pow2_below n < n /\ n <= 2 * pow2_below n.
Proof.
  intros Hn. unfold pow2_below.
  destruct (N.log2_spec (n - 1)) as [Hlo Hhi]; [lia|].
  rewrite N.pow_succ_r' in Hhi. lia.
Qed.

Lemma pow2_below_unique n k : 2 ^ k < n -> n <= 2 * 2 ^ k -> pow2_below n = 2 ^ k.
Proof.
  intros Hlo Hhi. unfold pow2_below. f_equal. apply N.log2_unique; [lia|].
  rewrite N.pow_succ_r'. lia.
Qed.

Lemma cnt_loop_spec fuel : forall j count,
  1 <= j -> 2 ^ (j - 1) < count -> count <= 2 ^ 28 -> 28 < j + N.of_nat fuel ->
  exists k, j <= k /\ k <= 28 /\ cnt_loop fuel (2 ^ j) count = Ok (2 ^ k) /\ 2 ^ (k - 1) < count /\ count <= 2 ^ k.
Proof.
  induction fuel as [|f IH]; intros j count Hj Hlo Hhi Hf.
  - exfalso. assert (2 ^ 28 <= 2 ^ (j - 1)) by (apply N.pow_le_mono_r; lia). lia.
  - assert (Hj28 : j <= 28).
    { destruct (N.le_gt_cases j 28) as [L|G]; [exact L|exfalso].
      assert (2 ^ 28 <= 2 ^ (j - 1)) by (apply N.pow_le_mono_r; lia). lia. }
    cbn [cnt_loop]. destruct (N.ltb_spec (2 ^ j) count) as [Lt|Ge].
    + assert (Hj27 : j < 28).
      { destruct (N.lt_ge_cases j 28) as [L|G]; [exact L|exfalso].
        assert (2 ^ 28 <= 2 ^ j) by (apply N.pow_le_mono_r; lia). lia. }
      assert (E : N.shiftl (2 ^ j) 1 mod 2 ^ 64 = 2 ^ (j + 1)).
      { rewrite N.shiftl_mul_pow2, <- N.pow_add_r. apply N.mod_small. apply N.pow_lt_mono_r; lia. }
      rewrite E. destruct (IH (j + 1) count) as [k [K1 [K2 [K3 K4]]]]; try lia.
      { replace (j + 1 - 1) with j by lia. exact Lt. }
      exists k. repeat split; try tauto; lia.
    + exists j. repeat split; try assumption; lia.
Qed.

Lemma tree_hash_cnt_spec n : 3 <= n -> n <= 2 ^ 28 ->
  tree_hash_cnt n = Ok (pow2_below n) /\ pow2_below n < n /\ n <= 2 * pow2_below n.
Proof.
  intros H3 H28. split; [|apply pow2_below_spec; lia].
  unfold tree_hash_cnt. change 268435456 with (2 ^ 28).
  destruct (N.ltb_spec n 3) as [L|_]; [lia|].
  destruct (N.ltb_spec (2 ^ 28) n) as [L|_]; [lia|].
  destruct (cnt_loop_spec 64 1 n) as [k [K1 [K2 [K3 [K4 K5]]]]]; try lia.
  { change (2 ^ (1 - 1)) with 1. lia. }
  change (2 ^ 1) with 2 in K3. rewrite K3. f_equal.
  rewrite N.shiftr_div_pow2. change (2 ^ 1) with 2.
  assert (E : 2 ^ k = 2 * 2 ^ (k - 1)).
  { rewrite <- N.pow_succ_r'. f_equal. lia. }
  rewrite E. rewrite N.mul_comm, N.div_mul by discriminate.
  symmetry. apply pow2_below_unique; lia.
Qed.

Lemma tree_hash_cnt_panics n : n < 3 \/ 2 ^ 28 < n -> tree_hash_cnt n = Panic.
Proof.
  intros H. unfold tree_hash_cnt. change 268435456 with (2 ^ 28).
  destruct (N.ltb_spec n 3) as [L|G]; [reflexivity|].
  destruct (N.ltb_spec (2 ^ 28) n) as [L'|G']; [reflexivity|lia].
Qed.

(* the loop alone is total on the whole problem space and returns a power of two: never EFuel *)
Lemma tree_hash_cnt_pow2 n : 3 <= n -> n <= 2 ^ 28 -> exists k, 1 <= k <= 27 /\ tree_hash_cnt n = Ok (2 ^ k).
Proof.
  intros H3 H28. destruct (tree_hash_cnt_spec n H3 H28) as [E [Lo Hi]].
  exists (N.log2 (n - 1)). split; [|exact E].
  split.
  - apply (N.log2_le_pow2 (n - 1) 1); [lia|]. change (2 ^ 1) with 2. lia.
  - assert (N.log2 (n - 1) < 28); [|lia]. apply (N.log2_lt_pow2 (n - 1) 28); lia.
Qed.
