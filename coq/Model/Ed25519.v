(* Ed25519.v — executable twisted Edwards arithmetic -x^2 + y^2 = 1 + d x^2 y^2 over Z/(2^255-19),
   in extended coordinates, with curve25519-dalek's decompression semantics.  Operations only; no proofs. *)
From MRS Require Export Model.Base.
Open Scope Z_scope.

Definition fp : Z := 2 ^ 255 - 19.
Definition ell : Z := 7237005577332262213973186563042994240857116359379907606001950938285454250989.

Definition fadd (a b : Z) : Z := (a + b) mod fp.
Definition fsub (a b : Z) : Z := (a - b) mod fp.
Definition fmul (a b : Z) : Z := (a * b) mod fp.
Definition fneg (a : Z) : Z := (- a) mod fp.

Fixpoint fpow_pos (a : Z) (e : positive) : Z :=
  match e with
  | xH => a mod fp
  | xO q => let h := fpow_pos a q in fmul h h
  | xI q => let h := fpow_pos a q in fmul a (fmul h h)
  end.
Definition fpow (a : Z) (e : Z) : Z :=
  match e with Zpos q => fpow_pos a q | _ => 1 end.
Definition finv (a : Z) : Z := fpow a (fp - 2).

Definition ed_d : Z := fmul (fneg 121665) (finv 121666).
Definition sqrt_m1 : Z := fpow 2 ((fp - 1) / 4).

(* extended coordinates (X : Y : Z : T), x = X/Z, y = Y/Z, T = XY/Z *)
Record pt := mkpt { pX : Z; pY : Z; pZ : Z; pT : Z }.

Definition pt_zero : pt := mkpt 0 1 1 0.

(* unified (complete) addition for a = -1 *)
Definition pt_add (p q : pt) : pt :=
  let A := fmul (pX p) (pX q) in
  let B := fmul (pY p) (pY q) in
  let C := fmul (fmul (pT p) ed_d) (pT q) in
  let D := fmul (pZ p) (pZ q) in
  let E := fsub (fsub (fmul (fadd (pX p) (pY p)) (fadd (pX q) (pY q))) A) B in
  let F := fsub D C in
  let G := fadd D C in
  let H := fadd B A in
  mkpt (fmul E F) (fmul G H) (fmul F G) (fmul E H).

Definition pt_neg (p : pt) : pt := mkpt (fneg (pX p)) (pY p) (pZ p) (fneg (pT p)).
Definition pt_sub (p q : pt) : pt := pt_add p (pt_neg q).
Definition pt_dbl (p : pt) : pt := pt_add p p.

Fixpoint smul_pos (k : positive) (p : pt) : pt :=
  match k with
  | xH => p
  | xO q => pt_dbl (smul_pos q p)
  | xI q => pt_add p (pt_dbl (smul_pos q p))
  end.
(* scalars are non-negative integers (callers reduce modulo l where the Rust code does) *)
Definition smul (k : Z) (p : pt) : pt :=
  match k with Zpos q => smul_pos q p | _ => pt_zero end.

Definition pt_eqb (p q : pt) : bool :=
  (fmul (pX p) (pZ q) =? fmul (pX q) (pZ p)) && (fmul (pY p) (pZ q) =? fmul (pY q) (pZ p)).

(* affine coordinates and compression: 255 bits of y, top bit = parity of x *)
Definition affine (p : pt) : Z * Z :=
  let zi := finv (pZ p) in (fmul (pX p) zi, fmul (pY p) zi).

Definition z2le (k : nat) (z : Z) : bytes := n2le k (Z.to_N z).
Definition le2z (bs : bytes) : Z := Z.of_N (le2n bs).

Definition compress (p : pt) : bytes :=
  let '(x, y) := affine p in z2le 32 (y + (x mod 2) * 2 ^ 255).

(* curve25519-dalek CompressedEdwardsY::decompress: y is taken modulo p (non-canonical y accepted),
   x = sqrt((y^2-1)/(d y^2+1)) chosen even, then negated if the sign bit is set (so "negative zero" is accepted) *)
Definition decompress (bs : bytes) : option pt :=
  if negb (Nat.eqb (length bs) 32) then None else
  let n := le2z bs in
  let sign := n / 2 ^ 255 in
  let y := (n mod 2 ^ 255) mod fp in
  let u := fsub (fmul y y) 1 in
  let v := fadd (fmul ed_d (fmul y y)) 1 in
  let x2 := fmul u (finv v) in
  let r := fpow x2 ((fp + 3) / 8) in
  let r := if fmul r r =? x2 then r else fmul r sqrt_m1 in
  if negb (fmul r r =? x2) then None else
  let r := if r mod 2 =? 0 then r else fneg r in
  let x := if sign =? 1 then fneg r else r in
  Some (mkpt x y 1 (fmul x y)).

(* PublicKey::from_slice: 32 bytes, decompresses, and re-compresses to the same bytes (canonical) *)
Definition bytes_eqb (a b : bytes) : bool :=
  (Nat.eqb (length a) (length b)) && forallb (fun '(x, y) => Byte.eqb x y) (combine a b).
Definition pk_valid (bs : bytes) : bool :=
  match decompress bs with
  | Some p => bytes_eqb (compress p) bs
  | None => false
  end.

Definition base_y : Z := fmul 4 (finv 5).
Definition pt_or_zero (o : option pt) : pt := match o with Some p => p | None => pt_zero end.
Definition basepoint : pt := pt_or_zero (decompress (z2le 32 base_y)).

(* the second generator H used for amounts in Pedersen commitments (src/util/key.rs `H`) *)
Definition H_bytes : bytes :=
  [x8b;x65;x59;x70;x15;x37;x99;xaf;x2a;xea;xdc;x9f;xf1;xad;xd0;xea;
   x6c;x72;x51;xd5;x41;x54;xcf;xa9;x2c;x17;x3a;x0d;xd3;x9c;x1f;x94].
Definition unwrap_pt (o : option pt) : res pt := match o with Some p => Ok p | None => Panic end.
Definition H_point : res pt := unwrap_pt (decompress H_bytes).   (* `.decompress().unwrap()` *)

(* secret keys: Scalar::from_canonical_bytes accepts exactly 32 bytes encoding an integer < l *)
Definition sk_valid (bs : bytes) : bool := Nat.eqb (length bs) 32 && (le2z bs <? ell).
Definition scalar_of_bytes_mod_order (bs : bytes) : Z := le2z bs mod ell.
Definition scalar_to_bytes (s : Z) : bytes := z2le 32 s.

(* the eight points of order dividing 8: multiples of a generator of the torsion subgroup *)
Definition torsion_gen_bytes : bytes :=
  [xc7;x17;x6a;x70;x3d;x4d;xd8;x4f;xba;x3c;x0b;x76;x0d;x10;x67;x0f;
   x2a;x20;x53;xfa;x2c;x39;xcc;xc6;x4e;xc7;xfd;x77;x92;xac;x03;x7a].
Definition torsion_gen : pt := pt_or_zero (decompress torsion_gen_bytes).
Definition torsion (i : Z) : pt := smul (i mod 8) torsion_gen.
