(* Json.v — the serde / serde_json data model of monero-rs (feature `serde`).  NO proofs here.

   What is MODELLED here (none of it is code of /repo; it is serde 1.0.229, serde_derive, serde_json 1.0.151,
   serde-big-array 0.5.1, fixed-hash 0.8 and curve25519-dalek's serde impls, tied by the correspondence check only):

   * `json`        : the JSON values that serde_json can see; numbers are integers (u64 / i64 range is checked by the readers;
                     an integer literal outside [-2^63, 2^64) is an f64 for serde_json and every integer reader refuses it,
                     which is what the range tests below do as well).
   * `print_json`  : serde_json::to_string (CompactFormatter): no white space, object members in the order they were
                     written, integers in decimal (itoa), strings with the escapes of serde_json's ESCAPE table
                     (backslash-escapes for quote, backslash, b, t, n, f, r; \u00xx lower-case for the other bytes < 0x20; 0x7f and bytes >= 0x80 verbatim).
   * derive(Serialize): struct -> object in declaration order; newtype struct / `transparent` -> inner value;
                     [u8; N] -> array of N numbers (serialize_tuple); Vec<T> -> array; Option -> null / value;
                     unit variant -> "Name"; struct variant -> {"Name":{...}}; `with = BigArray` -> array of 64.
   * derive(Deserialize) driven by serde_json::Deserializer:
       - struct: a JSON object (members looked up by name; an unknown member is IGNORED, a duplicated known member is an
         error, a missing member is an error unless its type is Option<_> without `with`, then it is None)
         or a JSON array of exactly as many elements as there are fields (positional);
       - enum: "Name" (unit variants only) or an object with exactly ONE member {"Name": content}; a unit variant
         accepts the content `null`; a struct variant's content is read like a struct;
       - [u8; N] / BigArray: an array of exactly N elements; Vec: any array; uN: an integer in range; String: a string.
   * the hand-written pieces of /repo: Address (Display string / FromStr), amount::serde::{as_pico, as_xmr} and their
     `opt`, `slice`, `vec` variants (to_string_in / from_str_in with Denomination::Monero, no suffix). *)
From MRS Require Export Model.Base Model.Codec Model.Amount Model.Address.
From Coq Require Import String Ascii.
Open Scope string_scope.
Open Scope list_scope.
Open Scope Z_scope.

Inductive json :=
| JNull
| JBool (b : bool)
| JNum (z : Z)
| JStr (s : bytes)
| JArr (l : list json)
| JObj (l : list (string * json)).

(* ---- serde_json::to_string --------------------------------------------------------------------- *)
Definition jhex (n : N) : byte := n2b (if (n <? 10)%N then 48 + n else 87 + n)%N.

(* one byte of a string, after serde_json's ESCAPE table *)
Definition esc_byte (b : byte) (acc : bytes) : bytes :=
  let n := b2n b in
  if (n =? 34)%N then x5c :: x22 :: acc                      (* quote *)
  else if (n =? 92)%N then x5c :: x5c :: acc                 (* backslash *)
  else if (n =? 8)%N then x5c :: x62 :: acc                  (* \b *)
  else if (n =? 9)%N then x5c :: x74 :: acc                  (* \t *)
  else if (n =? 10)%N then x5c :: x6e :: acc                 (* \n *)
  else if (n =? 12)%N then x5c :: x66 :: acc                 (* \f *)
  else if (n =? 13)%N then x5c :: x72 :: acc                 (* \r *)
  else if (n <? 32)%N then x5c :: x75 :: x30 :: x30 :: jhex (n / 16) :: jhex (n mod 16) :: acc
  else b :: acc.

Definition pr_str (s : bytes) (acc : bytes) : bytes := x22 :: fold_right esc_byte (x22 :: acc) s.

Definition pr_lit (s : string) (acc : bytes) : bytes := bytes_of_string s ++ acc.

(* accumulator style: linear in the size of the output *)
Fixpoint pr_json (j : json) (acc : bytes) : bytes :=
  match j with
  | JNull => pr_lit "null" acc
  | JBool true => pr_lit "true" acc
  | JBool false => pr_lit "false" acc
  | JNum z => pr_lit (show_Z z) acc
  | JStr s => pr_str s acc
  | JArr l =>
      x5b :: (fix go (l : list json) (acc : bytes) : bytes :=
                match l with
                | [] => acc
                | [x] => pr_json x acc
                | x :: t => pr_json x (x2c :: go t acc)
                end) l (x5d :: acc)
  | JObj l =>
      x7b :: (fix go (l : list (string * json)) (acc : bytes) : bytes :=
                match l with
                | [] => acc
                | [(k, v)] => pr_str (bytes_of_string k) (x3a :: pr_json v acc)
                | (k, v) :: t => pr_str (bytes_of_string k) (x3a :: pr_json v (x2c :: go t acc))
                end) l (x7d :: acc)
  end.

Definition print_json (j : json) : bytes := pr_json j [].

(* ---- reader combinators ---------------------------------------------------------------------------- *)
Definition obind {A B} (o : option A) (k : A -> option B) : option B :=
  match o with Some a => k a | None => None end.
Notation "x <-? o ;; k" := (obind o (fun x => k)) (at level 61, o at next level, right associativity).

Fixpoint mapM {A B} (f : A -> option B) (l : list A) : option (list B) :=
  match l with
  | [] => Some []
  | x :: t => y <-? f x ;; r <-? mapM f t ;; Some (y :: r)
  end.

(* member lookup as the derived visit_map sees it:
   None = the member occurs twice (duplicate_field), Some None = absent, Some (Some v) = present once *)
Fixpoint get_field (k : string) (l : list (string * json)) : option (option json) :=
  match l with
  | [] => Some None
  | (k', v) :: t =>
      if String.eqb k k' then match get_field k t with Some None => Some (Some v) | _ => None end
      else get_field k t
  end.

(* deserialize_struct: an object, or an array with one element per field *)
Definition struct_fields (names : list string) (j : json) : option (list (string * json)) :=
  match j with
  | JObj l => Some l
  | JArr vs => if Nat.eqb (List.length vs) (List.length names) then Some (combine names vs) else None
  | _ => None
  end.

(* a member that must be there *)
Definition req {A} (k : string) (l : list (string * json)) (of : json -> option A) : option A :=
  match get_field k l with Some (Some v) => of v | _ => None end.

(* Option<T>: null / value *)
Definition to_json_option {A} (to : A -> json) (o : option A) : json :=
  match o with None => JNull | Some a => to a end.
Definition of_json_option {A} (of : json -> option A) (j : json) : option (option A) :=
  match j with JNull => Some None | _ => option_map Some (of j) end.

(* a member of type Option<T>: absent means None *)
Definition opt_field {A} (k : string) (l : list (string * json)) (of : json -> option A) : option (option A) :=
  match get_field k l with
  | Some (Some v) => of_json_option of v
  | Some None => Some None
  | None => None
  end.

(* deserialize_enum: "Name" or {"Name": content} *)
Definition variant_of (j : json) : option (string * option json) :=
  match j with
  | JStr s => Some (string_of_bytes s, None)
  | JObj [(k, v)] => Some (k, Some v)
  | _ => None
  end.
(* VariantAccess::unit_variant *)
Definition unit_content (c : option json) : bool :=
  match c with None => true | Some JNull => true | _ => false end.

Definition to_json_list {A} (to : A -> json) (l : list A) : json := JArr (map to l).
Definition of_json_list {A} (of : json -> option A) (j : json) : option (list A) :=
  match j with JArr l => mapM of l | _ => None end.

(* ---- integers ---------------------------------------------------------------------------------------- *)
Definition to_json_N (n : N) : json := JNum (Z.of_N n).
Definition of_json_uint (bound : Z) (j : json) : option N :=
  match j with
  | JNum z => if (0 <=? z) && (z <? bound) then Some (Z.to_N z) else None
  | _ => None
  end.
Definition of_json_u8 := of_json_uint (2 ^ 8).
Definition of_json_u32 := of_json_uint (2 ^ 32).
Definition of_json_u64 := of_json_uint (2 ^ 64).          (* VarInt(u64): newtype struct -> inner value *)

(* ---- byte arrays --------------------------------------------------------------------------------------- *)
Definition to_json_byte (b : byte) : json := to_json_N (b2n b).
Definition of_json_byte (j : json) : option byte := option_map n2b (of_json_u8 j).

(* Vec<u8> (RawExtraField is `transparent`) *)
Definition to_json_bytes (b : bytes) : json := to_json_list to_json_byte b.
Definition of_json_bytes (j : json) : option bytes := of_json_list of_json_byte j.

(* [u8; n], also Hash / Hash8 (newtype structs around [u8; n]) *)
Definition of_json_arr (n : nat) (j : json) : option bytes :=
  b <-? of_json_bytes j ;; if Nat.eqb (List.length b) n then Some b else None.

Definition to_json_hash := to_json_bytes.
Definition of_json_hash := of_json_arr 32.
Definition of_json_hash8 := of_json_arr 8.

(* ringct::Key { key: [u8; 32] } *)
Definition to_json_key (k : bytes) : json := JObj [("key", to_json_bytes k)].
Definition of_json_key (j : json) : option bytes :=
  f <-? struct_fields ["key"] j ;; req "key" f (of_json_arr 32).

(* ringct::Key64 { #[serde(with = "BigArray")] keys: [Key; 64] }; the model keeps the 2048 bytes *)
Fixpoint chunks32 (n : nat) (b : bytes) : list bytes :=
  match n with O => [] | S n' => firstn 32 b :: chunks32 n' (skipn 32 b) end.
Definition to_json_key64 (b : bytes) : json := JObj [("keys", to_json_list to_json_key (chunks32 64 b))].
Definition of_json_key64 (j : json) : option bytes :=
  f <-? struct_fields ["keys"] j ;;
  ks <-? req "keys" f (of_json_list of_json_key) ;;
  if Nat.eqb (List.length ks) 64 then Some (List.concat ks) else None.

(* ringct::CtKey { mask: Key } *)
Definition to_json_ctkey (k : bytes) : json := JObj [("mask", to_json_key k)].
Definition of_json_ctkey (j : json) : option bytes :=
  f <-? struct_fields ["mask"] j ;; req "mask" f of_json_key.

(* ---- transaction inputs / outputs ------------------------------------------------------------------------ *)
(* KeyImage { image: Hash } *)
Definition to_json_key_image (k : bytes) : json := JObj [("image", to_json_hash k)].
Definition of_json_key_image (j : json) : option bytes :=
  f <-? struct_fields ["image"] j ;; req "image" f of_json_hash.

Definition to_json_txin (i : txin) : json :=
  match i with
  | Gen h => JObj [("Gen", JObj [("height", to_json_N h)])]
  | ToKey a ko ki =>
      JObj [("ToKey", JObj [("amount", to_json_N a); ("key_offsets", to_json_list to_json_N ko);
                            ("k_image", to_json_key_image ki)])]
  end.
Definition of_json_txin (j : json) : option txin :=
  v <-? variant_of j ;;
  let '(name, c) := v in
  if String.eqb name "Gen" then
    c <-? c ;; f <-? struct_fields ["height"] c ;;
    h <-? req "height" f of_json_u64 ;; Some (Gen h)
  else if String.eqb name "ToKey" then
    c <-? c ;; f <-? struct_fields ["amount"; "key_offsets"; "k_image"] c ;;
    a <-? req "amount" f of_json_u64 ;;
    ko <-? req "key_offsets" f (of_json_list of_json_u64) ;;
    ki <-? req "k_image" f of_json_key_image ;;
    Some (ToKey a ko ki)
  else None.

Definition to_json_target (t : target) : json :=
  match t with
  | TKey k => JObj [("ToKey", JObj [("key", to_json_bytes k)])]
  | TTagged k v => JObj [("ToTaggedKey", JObj [("key", to_json_bytes k); ("view_tag", to_json_N v)])]
  end.
Definition of_json_target (j : json) : option target :=
  v <-? variant_of j ;;
  let '(name, c) := v in
  if String.eqb name "ToKey" then
    c <-? c ;; f <-? struct_fields ["key"] c ;;
    k <-? req "key" f (of_json_arr 32) ;; Some (TKey k)
  else if String.eqb name "ToTaggedKey" then
    c <-? c ;; f <-? struct_fields ["key"; "view_tag"] c ;;
    k <-? req "key" f (of_json_arr 32) ;;
    t <-? req "view_tag" f of_json_u8 ;; Some (TTagged k t)
  else None.

Definition to_json_txout (o : txout) : json :=
  JObj [("amount", to_json_N (o_amount o)); ("target", to_json_target (o_target o))].
Definition of_json_txout (j : json) : option txout :=
  f <-? struct_fields ["amount"; "target"] j ;;
  a <-? req "amount" f of_json_u64 ;;
  t <-? req "target" f of_json_target ;;
  Some (mk_txout a t).

Definition to_json_prefix (p : txprefix) : json :=
  JObj [("version", to_json_N (version p)); ("unlock_time", to_json_N (unlock_time p));
        ("inputs", to_json_list to_json_txin (inputs p)); ("outputs", to_json_list to_json_txout (outputs p));
        ("extra", to_json_bytes (extra p))].
Definition of_json_prefix (j : json) : option txprefix :=
  f <-? struct_fields ["version"; "unlock_time"; "inputs"; "outputs"; "extra"] j ;;
  v <-? req "version" f of_json_u64 ;;
  u <-? req "unlock_time" f of_json_u64 ;;
  i <-? req "inputs" f (of_json_list of_json_txin) ;;
  o <-? req "outputs" f (of_json_list of_json_txout) ;;
  e <-? req "extra" f of_json_bytes ;;
  Some (mk_prefix v u i o e).

(* ---- RingCT ------------------------------------------------------------------------------------------------ *)
Definition rct_type_name (t : rct_type) : string :=
  match t with
  | RNull => "Null" | RFull => "Full" | RSimple => "Simple" | RBulletproof => "Bulletproof"
  | RBulletproof2 => "Bulletproof2" | RClsag => "Clsag" | RBulletproofPlus => "BulletproofPlus"
  end.
Definition to_json_rct_type (t : rct_type) : json := JStr (bytes_of_string (rct_type_name t)).
Definition of_json_rct_type (j : json) : option rct_type :=
  v <-? variant_of j ;;
  let '(name, c) := v in
  if negb (unit_content c) then None
  else if String.eqb name "Null" then Some RNull
  else if String.eqb name "Full" then Some RFull
  else if String.eqb name "Simple" then Some RSimple
  else if String.eqb name "Bulletproof" then Some RBulletproof
  else if String.eqb name "Bulletproof2" then Some RBulletproof2
  else if String.eqb name "Clsag" then Some RClsag
  else if String.eqb name "BulletproofPlus" then Some RBulletproofPlus
  else None.

Definition to_json_signature (s : signature) : json :=
  JObj [("c", to_json_key (sig_c s)); ("r", to_json_key (sig_r s))].
Definition of_json_signature (j : json) : option signature :=
  f <-? struct_fields ["c"; "r"] j ;;
  c <-? req "c" f of_json_key ;; r <-? req "r" f of_json_key ;; Some (mk_sig c r).

Definition to_json_ecdh (e : ecdh) : json :=
  match e with
  | EStandard m a => JObj [("Standard", JObj [("mask", to_json_key m); ("amount", to_json_key a)])]
  | EBulletproof a => JObj [("Bulletproof", JObj [("amount", to_json_hash a)])]
  end.
Definition of_json_ecdh (j : json) : option ecdh :=
  v <-? variant_of j ;;
  let '(name, c) := v in
  if String.eqb name "Standard" then
    c <-? c ;; f <-? struct_fields ["mask"; "amount"] c ;;
    m <-? req "mask" f of_json_key ;; a <-? req "amount" f of_json_key ;; Some (EStandard m a)
  else if String.eqb name "Bulletproof" then
    c <-? c ;; f <-? struct_fields ["amount"] c ;;
    a <-? req "amount" f of_json_hash8 ;; Some (EBulletproof a)
  else None.

Definition to_json_borosig (b : borosig) : json :=
  JObj [("s0", to_json_key64 (bs_s0 b)); ("s1", to_json_key64 (bs_s1 b)); ("ee", to_json_key (bs_ee b))].
Definition of_json_borosig (j : json) : option borosig :=
  f <-? struct_fields ["s0"; "s1"; "ee"] j ;;
  s0 <-? req "s0" f of_json_key64 ;; s1 <-? req "s1" f of_json_key64 ;; ee <-? req "ee" f of_json_key ;;
  Some (mk_boro s0 s1 ee).

Definition to_json_rangesig (r : rangesig) : json :=
  JObj [("asig", to_json_borosig (rs_asig r)); ("Ci", to_json_key64 (rs_Ci r))].
Definition of_json_rangesig (j : json) : option rangesig :=
  f <-? struct_fields ["asig"; "Ci"] j ;;
  a <-? req "asig" f of_json_borosig ;; c <-? req "Ci" f of_json_key64 ;; Some (mk_rangesig a c).

Definition to_json_mgsig (m : mgsig) : json :=
  JObj [("ss", to_json_list (to_json_list to_json_key) (mg_ss m)); ("cc", to_json_key (mg_cc m))].
Definition of_json_mgsig (j : json) : option mgsig :=
  f <-? struct_fields ["ss"; "cc"] j ;;
  ss <-? req "ss" f (of_json_list (of_json_list of_json_key)) ;; cc <-? req "cc" f of_json_key ;;
  Some (mk_mg ss cc).

Definition to_json_clsag (c : clsag) : json :=
  JObj [("s", to_json_list to_json_key (cl_s c)); ("c1", to_json_key (cl_c1 c)); ("D", to_json_key (cl_D c))].
Definition of_json_clsag (j : json) : option clsag :=
  f <-? struct_fields ["s"; "c1"; "D"] j ;;
  s <-? req "s" f (of_json_list of_json_key) ;; c1 <-? req "c1" f of_json_key ;; D <-? req "D" f of_json_key ;;
  Some (mk_clsag s c1 D).

Definition to_json_bulletproof (p : bulletproof) : json :=
  JObj [("A", to_json_key (bp_A p)); ("S", to_json_key (bp_S p)); ("T1", to_json_key (bp_T1 p));
        ("T2", to_json_key (bp_T2 p)); ("taux", to_json_key (bp_taux p)); ("mu", to_json_key (bp_mu p));
        ("L", to_json_list to_json_key (bp_L p)); ("R", to_json_list to_json_key (bp_R p));
        ("a", to_json_key (bp_a p)); ("b", to_json_key (bp_b p)); ("t", to_json_key (bp_t p))].
Definition of_json_bulletproof (j : json) : option bulletproof :=
  f <-? struct_fields ["A"; "S"; "T1"; "T2"; "taux"; "mu"; "L"; "R"; "a"; "b"; "t"] j ;;
  A <-? req "A" f of_json_key ;; S <-? req "S" f of_json_key ;; T1 <-? req "T1" f of_json_key ;;
  T2 <-? req "T2" f of_json_key ;; taux <-? req "taux" f of_json_key ;; mu <-? req "mu" f of_json_key ;;
  L <-? req "L" f (of_json_list of_json_key) ;; R <-? req "R" f (of_json_list of_json_key) ;;
  a <-? req "a" f of_json_key ;; b <-? req "b" f of_json_key ;; t <-? req "t" f of_json_key ;;
  Some (mk_bp A S T1 T2 taux mu L R a b t).

Definition to_json_bpplus (p : bpplus) : json :=
  JObj [("A", to_json_key (bpp_A p)); ("A1", to_json_key (bpp_A1 p)); ("B", to_json_key (bpp_B p));
        ("r1", to_json_key (bpp_r1 p)); ("s1", to_json_key (bpp_s1 p)); ("d1", to_json_key (bpp_d1 p));
        ("L", to_json_list to_json_key (bpp_L p)); ("R", to_json_list to_json_key (bpp_R p))].
Definition of_json_bpplus (j : json) : option bpplus :=
  f <-? struct_fields ["A"; "A1"; "B"; "r1"; "s1"; "d1"; "L"; "R"] j ;;
  A <-? req "A" f of_json_key ;; A1 <-? req "A1" f of_json_key ;; B <-? req "B" f of_json_key ;;
  r1 <-? req "r1" f of_json_key ;; s1 <-? req "s1" f of_json_key ;; d1 <-? req "d1" f of_json_key ;;
  L <-? req "L" f (of_json_list of_json_key) ;; R <-? req "R" f (of_json_list of_json_key) ;;
  Some (mk_bpp A A1 B r1 s1 d1 L R).

(* RctSigBase: `txn_fee` through amount::serde::as_pico (u64 number; a missing member is an error) *)
Definition to_json_rct_base (b : rct_base) : json :=
  JObj [("rct_type", to_json_rct_type (rb_type b)); ("txn_fee", to_json_N (rb_fee b));
        ("pseudo_outs", to_json_list to_json_key (rb_pseudo_outs b));
        ("ecdh_info", to_json_list to_json_ecdh (rb_ecdh b));
        ("out_pk", to_json_list to_json_ctkey (rb_out_pk b))].
Definition of_json_rct_base (j : json) : option rct_base :=
  f <-? struct_fields ["rct_type"; "txn_fee"; "pseudo_outs"; "ecdh_info"; "out_pk"] j ;;
  t <-? req "rct_type" f of_json_rct_type ;;
  fee <-? req "txn_fee" f of_json_u64 ;;
  po <-? req "pseudo_outs" f (of_json_list of_json_key) ;;
  e <-? req "ecdh_info" f (of_json_list of_json_ecdh) ;;
  o <-? req "out_pk" f (of_json_list of_json_ctkey) ;;
  Some (mk_base t fee po e o).

Definition to_json_rct_prunable (p : rct_prunable) : json :=
  JObj [("range_sigs", to_json_list to_json_rangesig (rp_range_sigs p));
        ("bulletproofs", to_json_list to_json_bulletproof (rp_bulletproofs p));
        ("bulletproofplus", to_json_list to_json_bpplus (rp_bulletproofplus p));
        ("MGs", to_json_list to_json_mgsig (rp_MGs p));
        ("Clsags", to_json_list to_json_clsag (rp_Clsags p));
        ("pseudo_outs", to_json_list to_json_key (rp_pseudo_outs p))].
Definition of_json_rct_prunable (j : json) : option rct_prunable :=
  f <-? struct_fields ["range_sigs"; "bulletproofs"; "bulletproofplus"; "MGs"; "Clsags"; "pseudo_outs"] j ;;
  rs <-? req "range_sigs" f (of_json_list of_json_rangesig) ;;
  bp <-? req "bulletproofs" f (of_json_list of_json_bulletproof) ;;
  bpp <-? req "bulletproofplus" f (of_json_list of_json_bpplus) ;;
  mg <-? req "MGs" f (of_json_list of_json_mgsig) ;;
  cl <-? req "Clsags" f (of_json_list of_json_clsag) ;;
  po <-? req "pseudo_outs" f (of_json_list of_json_key) ;;
  Some (mk_prunable rs bp bpp mg cl po).

(* RctSig { sig: Option<RctSigBase>, p: Option<RctSigPrunable> } *)
Definition to_json_rct_sig (r : rct_sig) : json :=
  JObj [("sig", to_json_option to_json_rct_base (rct_base_of r)); ("p", to_json_option to_json_rct_prunable (rct_p r))].
Definition of_json_rct_sig (j : json) : option rct_sig :=
  f <-? struct_fields ["sig"; "p"] j ;;
  s <-? opt_field "sig" f of_json_rct_base ;;
  p <-? opt_field "p" f of_json_rct_prunable ;;
  Some (mk_rct s p).

(* ---- Transaction, BlockHeader, Block ---------------------------------------------------------------------------- *)
Definition to_json_tx (t : tx) : json :=
  JObj [("prefix", to_json_prefix (tx_prefix t));
        ("signatures", to_json_list (to_json_list to_json_signature) (tx_signatures t));
        ("rct_signatures", to_json_rct_sig (tx_rct t))].
Definition of_json_tx (j : json) : option tx :=
  f <-? struct_fields ["prefix"; "signatures"; "rct_signatures"] j ;;
  p <-? req "prefix" f of_json_prefix ;;
  s <-? req "signatures" f (of_json_list (of_json_list of_json_signature)) ;;
  r <-? req "rct_signatures" f of_json_rct_sig ;;
  Some (mk_tx p s r).

Definition to_json_header (h : header) : json :=
  JObj [("major_version", to_json_N (major_version h)); ("minor_version", to_json_N (minor_version h));
        ("timestamp", to_json_N (timestamp h)); ("prev_id", to_json_hash (prev_id h)); ("nonce", to_json_N (nonce h))].
Definition of_json_header (j : json) : option header :=
  f <-? struct_fields ["major_version"; "minor_version"; "timestamp"; "prev_id"; "nonce"] j ;;
  a <-? req "major_version" f of_json_u64 ;;
  b <-? req "minor_version" f of_json_u64 ;;
  c <-? req "timestamp" f of_json_u64 ;;
  d <-? req "prev_id" f of_json_hash ;;
  e <-? req "nonce" f of_json_u32 ;;
  Some (mk_header a b c d e).

Definition to_json_block (b : block) : json :=
  JObj [("header", to_json_header (blk_header b)); ("miner_tx", to_json_tx (miner_tx b));
        ("tx_hashes", to_json_list to_json_hash (tx_hashes b))].
Definition of_json_block (j : json) : option block :=
  f <-? struct_fields ["header"; "miner_tx"; "tx_hashes"] j ;;
  h <-? req "header" f of_json_header ;;
  t <-? req "miner_tx" f of_json_tx ;;
  l <-? req "tx_hashes" f (of_json_list of_json_hash) ;;
  Some (mk_block h t l).

(* ---- subaddress::Index { major: u32, minor: u32 } ------------------------------------------------------------------ *)
Record sub_index := mk_index { ix_major : N; ix_minor : N }.
Definition to_json_index (i : sub_index) : json :=
  JObj [("major", to_json_N (ix_major i)); ("minor", to_json_N (ix_minor i))].
Definition of_json_index (j : json) : option sub_index :=
  f <-? struct_fields ["major"; "minor"] j ;;
  a <-? req "major" f of_json_u32 ;; b <-? req "minor" f of_json_u32 ;; Some (mk_index a b).

(* ---- Address: serialize_str(&self.to_string()) / String::deserialize + Address::from_str ---------------------------- *)
Section WithHash.
  Variable H : bytes -> bytes.
  Variable valid_pk : bytes -> bool.

  (* to_string() panics if Display fails (it never does: C12_b58_never_panics) *)
  Definition to_json_address (a : addr) : res json :=
    match addr_to_string H a with Ok s => Ok (JStr s) | Err e => Err e | Panic => Panic end.
  Definition of_json_address (j : json) : option addr :=
    match j with
    | JStr s => match addr_from_str H valid_pk s with Ok a => Some a | _ => None end
    | _ => None
    end.
End WithHash.

(* ---- amount::serde ------------------------------------------------------------------------------------------------------ *)
(* as_pico: u64::serialize(&a.as_pico()) / i64::serialize; from_pico(u64::deserialize) *)
Definition to_json_pico (a : Z) : json := JNum a.
Definition of_json_pico_u (j : json) : option Z :=
  match j with JNum z => if in_u64 z then Some z else None | _ => None end.
Definition of_json_pico_s (j : json) : option Z :=
  match j with JNum z => if in_i64 z then Some z else None | _ => None end.

(* as_xmr: String::serialize(&a.to_string_in(Denomination::Monero)) / from_str_in(&String::deserialize(d)?, Monero) *)
Definition to_json_xmr_u (a : Z) : ares json := abind (amount_to_string_in a Monero) (fun s => AOk (JStr s)).
Definition to_json_xmr_s (a : Z) : ares json := abind (signed_to_string_in a Monero) (fun s => AOk (JStr s)).
Definition of_json_xmr_u (j : json) : option Z :=
  match j with JStr s => match amount_from_str_in s Monero with AOk a => Some a | _ => None end | _ => None end.
Definition of_json_xmr_s (j : json) : option Z :=
  match j with JStr s => match signed_from_str_in s Monero with AOk a => Some a | _ => None end | _ => None end.

(* ::opt — serialize_some / serialize_none; deserialize_option: null -> None, anything else through the plain reader *)
Definition to_json_opt_ares {A} (to : A -> ares json) (o : option A) : ares json :=
  match o with None => AOk JNull | Some a => to a end.

(* ::slice::serialize / ::vec::deserialize_* — a sequence, element-wise *)
Fixpoint amapM {A B} (f : A -> ares B) (l : list A) : ares (list B) :=
  match l with
  | [] => AOk []
  | x :: t => abind (f x) (fun y => abind (amapM f t) (fun r => AOk (y :: r)))
  end.
Definition to_json_vec_ares {A} (to : A -> ares json) (l : list A) : ares json :=
  abind (amapM to l) (fun js => AOk (JArr js)).

(* the six helper modules, for Amount (u) and SignedAmount (s) *)
Inductive amt_kind := KPico | KXmr.
Definition to_json_amt (signed : bool) (k : amt_kind) (a : Z) : ares json :=
  match k with
  | KPico => AOk (to_json_pico a)
  | KXmr => if signed then to_json_xmr_s a else to_json_xmr_u a
  end.
Definition of_json_amt (signed : bool) (k : amt_kind) (j : json) : option Z :=
  match k, signed with
  | KPico, false => of_json_pico_u j | KPico, true => of_json_pico_s j
  | KXmr, false => of_json_xmr_u j | KXmr, true => of_json_xmr_s j
  end.
Definition to_json_amt_opt signed k := to_json_opt_ares (to_json_amt signed k).
Definition of_json_amt_opt signed k := of_json_option (of_json_amt signed k).
Definition to_json_amt_vec signed k := to_json_vec_ares (to_json_amt signed k).
Definition of_json_amt_vec signed k := of_json_list (of_json_amt signed k).
