(* Subaddr.v — model of src/cryptonote/subaddress.rs: Index, get_secret_scalar, get_spend_secret_key,
   get_view_secret_key, get_secret_keys, get_spend_public_key, get_public_keys, get_subaddress.
   Definitions only; no proofs here. *)
From MRS Require Export Model.Keys Model.Network.
Open Scope Z_scope.

(* Index { major: u32, minor: u32 } *)
Definition index := (N * N)%type.
Definition is_zero (i : index) : bool := (fst i =? 0)%N && (snd i =? 0)%N.
(* u32::consensus_encode: 4 bytes little-endian *)
Definition le32 (n : N) : bytes := n2le 4 n.
(* b"SubAddr\x00" *)
Definition subaddr_prefix : bytes := [x53; x75; x62; x41; x64; x64; x72; x00].

(* the fields of util::address::Address that get_subaddress fills in (its text form is C12's business) *)
Record sub_address := mk_sub_address {
  sa_network : network; sa_type : addr_type; sa_spend : bytes; sa_view : bytes }.

Section Subaddr.
Context {E : EdOps}.
Variable Hs : hs_fun.

(* m = Hs("SubAddr\0" || v || major || minor) *)
Definition subaddr_preimage (view : Z) (i : index) : bytes :=
  subaddr_prefix ++ (enc_sk view ++ le32 (fst i) ++ le32 (snd i)).
Definition get_secret_scalar (view : Z) (i : index) : Z := Hs (subaddr_preimage view i).

(* KeyPair = (view, spend) secret scalars *)
Definition get_spend_secret_key (view spend : Z) (i : index) : Z :=
  if is_zero i then spend else sk_add spend (get_secret_scalar view i).
Definition get_view_secret_key (view spend : Z) (i : index) : Z :=
  if is_zero i then view else sk_mul view (get_spend_secret_key view spend i).
Definition get_secret_keys (view spend : Z) (i : index) : Z * Z :=
  (get_view_secret_key view spend i, get_spend_secret_key view spend i).

(* ViewPair = (view secret scalar, spend public key bytes) *)
Definition get_spend_public_key (view : Z) (spend : bytes) (i : index) : res bytes :=
  if is_zero i then Ok spend
  else pk_add spend (pk_from_priv (get_secret_scalar view i)).
(* returns (view', spend') *)
Definition get_public_keys (view : Z) (spend : bytes) (i : index) : res (bytes * bytes) :=
  if is_zero i then Ok (pk_from_priv view, spend)
  else bindr (get_spend_public_key view spend i) (fun sp =>
       bindr (sk_mul_pk view sp) (fun vw => Ok (vw, sp))).
Definition get_subaddress (view : Z) (spend : bytes) (i : index) (net : option network) : res sub_address :=
  let n := match net with Some n => n | None => Mainnet end in
  bindr (get_public_keys view spend i) (fun '(vw, sp) => Ok (mk_sub_address n SubAddress sp vw)).

End Subaddr.
