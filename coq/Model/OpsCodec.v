(* OpsCodec.v — protocol ops for the consensus codec: dec / decs / enc / rt over a table of types. *)
From MRS Require Import Model.Base Model.Varint Model.Codec Model.CodecLen Model.Show Spec.Wire.
From Coq Require Import String Ascii.
Open Scope string_scope.

Inductive anyty :=
| AnyTy {A} (d : sizes -> dec A) (e : A -> bytes) (sh : A -> toks) (p : ptok A) (rl : A -> N).

Definition sh_bytes1 (b : bytes) : toks := [show_hex b].

Definition lookup_ty (T : string) : option anyty :=
  let is s := String.eqb T s in
  if is "varint" then Some (AnyTy (fun _ => dec_varint) enc_varint sh_N p_N rl_varint)
  else if is "u8" then Some (AnyTy (fun _ => dec_u8) enc_u8 sh_N p_N rl_u8)
  else if is "u32" then Some (AnyTy (fun _ => dec_u32) (enc_uint 4) sh_N p_N rl_u32)
  else if is "u16" then Some (AnyTy (fun _ => dec_u16) (enc_uint 2) sh_N p_N (fun _ => 2))
  else if is "u64" then Some (AnyTy (fun _ => dec_u64) (enc_uint 8) sh_N p_N (fun _ => 8))
  else if is "i8" then Some (AnyTy (fun _ => dec_u8) enc_u8 sh_N p_N (fun _ => 1))
  else if is "i16" then Some (AnyTy (fun _ => dec_u16) (enc_uint 2) sh_N p_N (fun _ => 2))
  else if is "i32" then Some (AnyTy (fun _ => dec_u32) (enc_uint 4) sh_N p_N (fun _ => 4))
  else if is "i64" then Some (AnyTy (fun _ => dec_u64) (enc_uint 8) sh_N p_N (fun _ => 8))
  else if is "bool" then Some (AnyTy (fun _ => dec_bool) enc_bool (fun b => [if b then "1" else "0"])
                                      (fun t => match t with
                                                | w :: r => if String.eqb w "1" then Some (true, r)
                                                            else if String.eqb w "0" then Some (false, r) else None
                                                | [] => None end) (fun _ => 1))
  else if is "string" then Some (AnyTy (fun _ => dec_string) enc_string sh_b p_b rl_bytes_vec)
  else if is "klrki" then Some (AnyTy (fun _ => dec_klrki) enc_klrki
                                       (fun m => sh_b (mk_K m) ++ sh_b (mk_L m) ++ sh_b (mk_R m) ++ sh_b (mk_ki m))%list
                                       (a <~ p_b ;; b <~ p_b ;; c <~ p_b ;; d <~ p_b ;; pret (mk_klrki a b c d))
                                       (fun m => rl_arr (mk_K m) + rl_arr (mk_L m) + rl_arr (mk_R m) + rl_arr (mk_ki m))%N)
  else if is "multisigout" then Some (AnyTy (fun _ => dec_multisig_out) enc_multisig_out (sh_list sh_b) (p_list p_b)
                                             (rl_vec rl_arr))
  else if is "hash" then Some (AnyTy (fun _ => dec_hash) enc_arr sh_b p_b rl_arr)
  else if is "hash8" then Some (AnyTy (fun _ => dec_hash8) enc_arr sh_b p_b rl_arr)
  else if is "key64" then Some (AnyTy (fun _ => dec_key64) enc_arr sh_b p_b rl_arr)
  else if is "bytesvec" then Some (AnyTy (fun _ => dec_bytes_vec) enc_bytes_vec sh_b p_b rl_bytes_vec)
  else if is "txin" then Some (AnyTy (fun _ => dec_txin) enc_txin sh_txin p_txin rl_txin)
  else if is "target" then Some (AnyTy (fun _ => dec_target) enc_target sh_target p_target rl_target)
  else if is "txout" then Some (AnyTy (fun _ => dec_txout) enc_txout sh_txout p_txout rl_txout)
  else if is "prefix" then Some (AnyTy dec_prefix enc_prefix sh_prefix p_prefix rl_prefix)
  else if is "signature" then Some (AnyTy (fun _ => dec_signature) enc_signature sh_signature p_signature rl_signature)
  else if is "rcttype" then Some (AnyTy (fun _ => dec_rct_type) enc_rct_type
                                        (fun t => sh_N (rct_type_tag t)) p_rct_type rl_rct_type)
  else if is "borosig" then Some (AnyTy (fun _ => dec_borosig) enc_borosig sh_borosig p_borosig rl_borosig)
  else if is "rangesig" then Some (AnyTy (fun _ => dec_rangesig) enc_rangesig sh_rangesig p_rangesig rl_rangesig)
  else if is "bulletproof" then Some (AnyTy (fun _ => dec_bulletproof) enc_bulletproof sh_bulletproof p_bulletproof rl_bulletproof)
  else if is "bpplus" then Some (AnyTy (fun _ => dec_bpplus) enc_bpplus sh_bpplus p_bpplus rl_bpplus)
  else if is "tx" then Some (AnyTy dec_tx enc_tx sh_tx p_tx rl_tx)
  else if is "header" then Some (AnyTy (fun _ => dec_header) enc_header sh_header p_header rl_header)
  else if is "block" then Some (AnyTy dec_block enc_block sh_block p_block rl_block)
  else if is "box_u8" then Some (AnyTy (fun _ => dec_bytes_vec) enc_bytes_vec sh_b p_b rl_bytes_vec)     (* Box<[u8]> = Vec<u8> codec *)
  else if is "box_hash" then Some (AnyTy (fun _ => dec_vec 32 dec_hash) (enc_vec enc_arr) (sh_list sh_b) (p_list p_b) (rl_vec rl_arr))
  else if is "box_varint" then Some (AnyTy (fun _ => dec_vec 8 dec_varint) (enc_vec enc_varint) (sh_list sh_N) (p_list p_N) (rl_vec rl_varint))
  else if is "vec_txin" then Some (AnyTy (fun sz => dec_vec (sz_txin sz) dec_txin) (enc_vec enc_txin)
                                         (sh_list sh_txin) (p_list p_txin) (rl_vec rl_txin))
  else if is "vec_txout" then Some (AnyTy (fun sz => dec_vec (sz_txout sz) dec_txout) (enc_vec enc_txout)
                                          (sh_list sh_txout) (p_list p_txout) (rl_vec rl_txout))
  else if is "vec_varint" then Some (AnyTy (fun _ => dec_vec 8 dec_varint) (enc_vec enc_varint)
                                           (sh_list sh_N) (p_list p_N) (rl_vec rl_varint))
  else if is "vec_hash" then Some (AnyTy (fun _ => dec_vec 32 dec_hash) (enc_vec enc_arr)
                                         (sh_list sh_b) (p_list p_b) (rl_vec rl_arr))
  else if is "vec_bulletproof" then Some (AnyTy (fun sz => dec_vec (sz_bulletproof sz) dec_bulletproof)
                                                (enc_vec enc_bulletproof) (sh_list sh_bulletproof) (p_list p_bulletproof) (rl_vec rl_bulletproof))
  else None.

(* optional leading "@a,b,c,d,e" = the size_of table reported by the harness *)
Fixpoint split_comma (s : string) (cur : string -> string) : list string :=
  match s with
  | EmptyString => [cur EmptyString]
  | String c t => if Ascii.eqb c "," then cur EmptyString :: split_comma t (fun x => x)
                  else split_comma t (fun x => cur (String c x))
  end.
Definition parse_sizes (s : string) : option sizes :=
  match s with
  | String "@" rest =>
      match map parse_N (split_comma rest (fun x => x)) with
      | [Some a; Some b; Some c; Some d; Some e] => Some (mk_sizes a b c d e)
      | _ => None
      end
  | _ => None
  end.
Definition take_sizes (args : list string) : sizes * list string :=
  match args with
  | a :: rest => match parse_sizes a with Some sz => (sz, rest) | None => (default_sizes, args) end
  | [] => (default_sizes, args)
  end.

Definition toks_eqb (a b : toks) : bool := String.eqb (join_sp a) (join_sp b).

Definition bit (b : bool) : string := if b then "1" else "0".

Definition ops_codec (op : string) (args0 : list string) : option string :=
  let '(sz, args) := take_sizes args0 in
  if String.eqb op "dec" then
    match args with
    | [T; h] =>
        match lookup_ty T, parse_hex h with
        | Some (AnyTy d e sh p rl), Some b =>
            Some (match d sz b with
                  | (Ok a, r) => join_sp ("OK" :: show_N (lenN b - lenN r) :: sh a)
                  | (Err _, _) => "ERR" | (Panic, _) => "PANIC" end)
        | _, _ => None end
    | _ => None end
  else if String.eqb op "reser" then
    (* parse, then serialise the parsed value: C01 demands the consumed prefix of the input *)
    match args with
    | [T; h] =>
        match lookup_ty T, parse_hex h with
        | Some (AnyTy d e sh p rl), Some b =>
            Some (match d sz b with
                  | (Ok a, r) => join_sp ["OK"; show_N (lenN b - lenN r); show_hex (e a)]
                  | (Err _, _) => "ERR" | (Panic, _) => "PANIC" end)
        | _, _ => None end
    | _ => None end
  else if String.eqb op "decs" then
    match args with
    | [T; h] =>
        match lookup_ty T, parse_hex h with
        | Some (AnyTy d e sh p rl), Some b =>
            Some (match deserialize (d sz) b with
                  | Ok a => join_sp ("OK" :: sh a) | Err _ => "ERR" | Panic => "PANIC" end)
        | _, _ => None end
    | _ => None end
  else if String.eqb op "enc" then
    match args with
    | T :: ts =>
        match lookup_ty T with
        | Some (AnyTy d e sh p rl) =>
            match p_all p ts with
            | Some a => Some ("OK " ++ show_hex (e a) ++ " " ++ show_N (rl a))
            | None => None end
        | None => None end
    | _ => None end
  else if String.eqb op "dec_rctbase" then
    (* RctSigBase::consensus_decode(r, inputs, outputs), a public function with caller-supplied counts *)
    match args with
    | [i; o; h] =>
        match parse_N i, parse_N o, parse_hex h with
        | Some i, Some o, Some b =>
            Some (match dec_rct_base i o b with
                  | (Ok a, r) => join_sp ("OK" :: show_N (lenN b - lenN r) :: show_hex (enc_rct_base a) :: sh_rct_base a)
                  | (Err _, _) => "ERR" | (Panic, _) => "PANIC" end)
        | _, _, _ => None end
    | _ => None end
  else if String.eqb op "dec_rctprunable" then
    (* RctSigPrunable::consensus_decode(r, rct_type, inputs, outputs, mixin); Null returns None without reading *)
    match args with
    | [t; i; o; m; h] =>
        match parse_N t, parse_N i, parse_N o, parse_N m, parse_hex h with
        | Some t, Some i, Some o, Some m, Some b =>
            match rct_type_of_tag t with
            | Some RNull => Some "OK 0 - none"
            | Some ty =>
                Some (match dec_rct_prunable sz ty i o m b with
                      | (Ok a, r) => join_sp ("OK" :: show_N (lenN b - lenN r) :: show_hex (enc_rct_prunable a ty) :: sh_rct_prunable a)
                      | (Err _, _) => "ERR" | (Panic, _) => "PANIC" end)
            | None => None end
        | _, _, _, _, _ => None end
    | _ => None end
  else if String.eqb op "spec" then
    (* MODEL-ONLY: the Monero field-list layout of Spec/Wire.v for a description (oracle of C03) *)
    match args with
    | T :: ts =>
        if String.eqb T "tx" then
          match p_all p_tx ts with Some a => Some ("OK " ++ show_hex (spec_tx a)) | None => None end
        else if String.eqb T "block" then
          match p_all p_block ts with Some a => Some ("OK " ++ show_hex (spec_block a)) | None => None end
        else if String.eqb T "prefix" then
          match p_all p_prefix ts with Some a => Some ("OK " ++ show_hex (spec_prefix a)) | None => None end
        else if String.eqb T "header" then
          match p_all p_header ts with Some a => Some ("OK " ++ show_hex (spec_header a)) | None => None end
        else None
    | _ => None end
  else if String.eqb op "encshort" then
    (* encode into a writer that takes only n bytes: Ok with the bytes iff they fit, otherwise the writer's error; no state *)
    match args with
    | T :: n :: ts =>
        match parse_N n, lookup_ty T with
        | Some n, Some (AnyTy d e sh p rl) =>
            match p_all p ts with
            | Some a => Some (if N.leb (lenN (e a)) n then "OK " ++ show_hex (e a) else "ERR")
            | None => None end
        | _, _ => None end
    | _ => None end
  else if String.eqb op "rt" then
    (* serialise, parse back (partial), compare, strict parse, strict parse with one trailing byte *)
    match args with
    | T :: ts =>
        match lookup_ty T with
        | Some (AnyTy d e sh p rl) =>
            match p_all p ts with
            | Some a =>
                let bs := e a in
                let back := match d sz bs with
                            | (Ok a', r) => bit (toks_eqb (sh a') (sh a)) ++ " " ++ show_N (lenN bs - lenN r)
                            | (Err _, _) => "ERR" | (Panic, _) => "PANIC" end in
                let strict := match deserialize (d sz) bs with
                              | Ok a' => bit (toks_eqb (sh a') (sh a)) | Err _ => "ERR" | Panic => "PANIC" end in
                let trailing := match deserialize (d sz) (List.app bs [x00]) with
                                | Ok _ => "ACCEPTED" | Err _ => "ERR" | Panic => "PANIC" end in
                Some (join_sp ["OK"; show_hex bs; show_N (rl a); back; strict; trailing])
            | None => None end
        | None => None end
    | _ => None end
  else None.
