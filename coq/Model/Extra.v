(* Extra.v — model of the transaction extra field of monero-rs (src/blockdata/transaction.rs):
     `impl Decodable for SubField`, `impl Encodable for SubField`, `impl Encodable for ExtraField`,
     `ExtraField::try_parse`, `RawExtraField::try_parse`, `impl From<ExtraField> for RawExtraField`,
     `ExtraField::{tx_pubkey, tx_additional_pubkeys}`, and `impl Decodable for PublicKey` (src/util/key.rs).
   One function per Rust function, mirroring the control flow.  NO proofs here. *)
From MRS Require Export Model.Base Model.Varint Model.Codec.
Open Scope N_scope.

(* SubField.  Rust types: TxPublicKey(PublicKey), Nonce(Vec<u8>), Padding(u8), MergeMining(VarInt, Hash),
   AdditionalPublickKey(Vec<PublicKey>), MysteriousMinerGate(Vec<u8>).  A PublicKey is carried as its 32 bytes. *)
Inductive subfield :=
| TxPublicKey (key : bytes)
| Nonce (b : bytes)
| Padding (n : N)
| MergeMining (depth : N) (root : bytes)
| AdditionalPublicKey (keys : list bytes)
| MysteriousMinerGate (b : bytes).

Section WithKeyCheck.
(* PublicKey::from_slice acceptance on 32 bytes; the executable instance is Ed25519.pk_valid *)
Variable valid_pk : bytes -> bool.

(* impl Decodable for PublicKey: [u8; 32] element-wise, then from_slice *)
Definition dec_pubkey : dec bytes :=
  k <- dec_arr 32 ;; if valid_pk k then ret k else fail EBad.

(* the padding loop:   let mut i = 0 /* u8 */;  for _ in 1..=u8::MAX { match u8::decode(r) {
                          Ok(0) => i += 1, Ok(_) => return Err(..), Err(_) => break } }  Ok(Padding(i))
   k = iterations left; `i += 1` on a u8 panics in a checked build when i = 255 *)
Fixpoint pad_loop (k : nat) (i : N) : dec N :=
  match k with
  | O => ret i
  | S k' => fun s =>
      match read_u8 s with
      | (Ok b, r) =>
          if b2n b =? 0 then (if i =? 255 then (Panic, r) else pad_loop k' (i + 1) r)
          else (Err EBad, r)                      (* "Invalid padding byte": the byte has been consumed *)
      | (Err _, r) => (Ok i, r)                   (* break *)
      | (Panic, r) => (Panic, r)
      end
  end.

Definition dec_subfield : dec subfield :=
  t <- dec_u8 ;;
  if t =? 0 then n <- pad_loop 255 0 ;; ret (Padding n)
  else if t =? 1 then k <- dec_pubkey ;; ret (TxPublicKey k)
  else if t =? 2 then b <- dec_bytes_vec ;; ret (Nonce b)
  else if t =? 3 then
    (fun s => match dec_u8 s with
              | (Ok _size, r) => (d <- dec_varint ;; h <- dec_hash ;; ret (MergeMining d h)) r
              | (Err _, r) => (Err EBad, r)        (* "Merge mining field size not found" *)
              | (Panic, r) => (Panic, r)
              end)
  else if t =? 4 then ks <- dec_vec 32 dec_pubkey ;; ret (AdditionalPublicKey ks)   (* size_of::<PublicKey>() = 32 *)
  else if t =? 222 then b <- dec_bytes_vec ;; ret (MysteriousMinerGate b)
  else fail EBad.                                   (* "Invalid sub-field type" *)

(* ExtraField::try_parse: while decoder.position() < bytes.len() { decode a SubField; Ok => push, Err => err = true }.
   The cursor after a failed decode is wherever the decoder left it (Base.dec convention).
   Result: (true, fields) for Ok(ExtraField(fields)), (false, fields) for Err(ExtraField(fields)). *)
Fixpoint parse_loop (fuel : nat) (s : bytes) : res (bool * list subfield) :=
  match s with
  | [] => Ok (true, [])
  | _ :: _ =>
      match fuel with
      | O => Err EFuel
      | S f =>
          match dec_subfield s with
          | (Ok x, r) => match parse_loop f r with Ok (ok, l) => Ok (ok, x :: l) | other => other end
          | (Err _, r) => match parse_loop f r with Ok (_, l) => Ok (false, l) | other => other end
          | (Panic, _) => Panic
          end
      end
  end.
Definition try_parse (raw : bytes) : res (bool * list subfield) := parse_loop (S (length raw)) raw.

(* RawExtraField::try_parse: the fields either way (`extra.unwrap()` is on the Ok branch only) *)
Definition raw_try_parse (raw : bytes) : res (list subfield) :=
  match try_parse raw with Ok (_, l) => Ok l | Err e => Err e | Panic => Panic end.

End WithKeyCheck.

(* ---- encoders ---------------------------------------------------------------------------------------- *)
(* merge-mining data size: `32 + depth_var_int_size as u8` on u8.  The cast truncates; the addition wraps in a
   release build and panics in a checked build when it exceeds 255. *)
Definition mm_size_cast (depth : N) : N := enc_varint_len depth mod 256.
Definition mm_size_overflows (depth : N) : bool := 255 <? 32 + mm_size_cast depth.
Definition mm_size (depth : N) : N := (32 + mm_size_cast depth) mod 256.

Definition zeros (n : N) : bytes := repeat x00 (N.to_nat n).     (* n is a u8 *)

(* impl Encodable for SubField, the bytes written (wrapping arithmetic) *)
Definition enc_subfield (f : subfield) : bytes :=
  match f with
  | Padding n => enc_u8 0 ++ zeros n
  | TxPublicKey k => enc_u8 1 ++ enc_arr k
  | Nonce b => enc_u8 2 ++ enc_bytes_vec b
  | MergeMining d h => enc_u8 3 ++ enc_u8 (mm_size d) ++ enc_varint d ++ enc_arr h
  | AdditionalPublicKey ks => enc_u8 4 ++ enc_vec enc_arr ks
  | MysteriousMinerGate b => enc_u8 222 ++ enc_bytes_vec b
  end.
(* ... and with the checked-build panic made explicit *)
Definition subfield_overflows (f : subfield) : bool :=
  match f with MergeMining d _ => mm_size_overflows d | _ => false end.
Definition enc_subfield_chk (f : subfield) : res bytes :=
  if subfield_overflows f then Panic else Ok (enc_subfield f).

(* impl Encodable for ExtraField: all sub-fields into a buffer, then the buffer as Vec<u8> *)
Definition enc_fields (fs : list subfield) : bytes := flat_map enc_subfield fs.
Definition enc_extra (fs : list subfield) : bytes := enc_bytes_vec (enc_fields fs).
Definition enc_extra_chk (fs : list subfield) : res bytes :=
  if existsb subfield_overflows fs then Panic else Ok (enc_extra fs).

(* impl From<ExtraField> for RawExtraField:  deserialize(&serialize(&extra)).unwrap() *)
Definition raw_of_extra (fs : list subfield) : res bytes :=
  match enc_extra_chk fs with
  | Ok ser => match deserialize dec_bytes_vec ser with
              | Ok raw => Ok raw
              | Err _ => Panic                              (* unwrap on Err *)
              | Panic => Panic
              end
  | Err e => Err e
  | Panic => Panic
  end.

(* the outcome of the conversion as a function of the serialised length of the sub-fields alone (theorem
   C16_from_outcome): used to probe the allocation-cap boundary without materialising 32 MiB in the model *)
Definition raw_of_extra_outcome (total : N) : res N := if over_cap 1 total then Panic else Ok total.
Definition nonce_field_len (n : N) : N := 1 + lenN (enc_varint n) + n.

(* ---- accessors: find_map, i.e. the first match -------------------------------------------------------- *)
Fixpoint tx_pubkey (fs : list subfield) : option bytes :=
  match fs with
  | [] => None
  | TxPublicKey k :: _ => Some k
  | _ :: t => tx_pubkey t
  end.
Fixpoint tx_additional_pubkeys (fs : list subfield) : option (list bytes) :=
  match fs with
  | [] => None
  | AdditionalPublicKey ks :: _ => Some ks
  | _ :: t => tx_additional_pubkeys t
  end.
