(* Scan.v — model of output scanning and key recovery:
     src/blockdata/transaction.rs: TxOutTarget::{as_one_time_key, check_view_tag}, TransactionPrefix::{check_outputs,
       check_outputs_with}, Transaction::{check_outputs, check_outputs_with}, OwnedTxOut::{amount, recover_key};
     src/cryptonote/onetime_key.rs: SubKeyChecker::{new, check, check_with_key_generator}, KeyRecoverer::{new, recover}.
   Over the abstract group (EdOps), an abstract hash-to-scalar `Hs` and an abstract raw hash `Hb`; runnable with the
   Ed25519 / Keccak instance.  Modelled std behaviour: HashMap<PublicKey, Index> is an association list in insertion
   order (row-major: major outer, minor inner) looked up with LAST-insert-wins (HashMap::insert replaces the value of an
   equal key; keys compare by their 32 stored bytes); `iter.map(..).collect::<Result<Vec<_>,_>>()` stops at the first Err;
   the iterator chain is lazy, so the opening step of an owned output runs before the next output is examined.
   Definitions only; no proofs here. *)
From MRS Require Export Model.Keys Model.Derive Model.Subaddr Model.Codec Model.Extra Model.Ecdh.
Open Scope Z_scope.

(* transaction::Error kinds that scanning can return *)
Inductive scan_err := NoTxPublicKey | MissingEcdhInfo | MissingCommitment | InvalidCommitment.
Inductive sres (A : Type) := SOk (a : A) | SErr (e : scan_err) | SPanic.
Arguments SOk {A} a. Arguments SErr {A} e. Arguments SPanic {A}.

(* b"view_tag" = [118, 105, 101, 119, 95, 116, 97, 103] *)
Definition view_tag_salt : bytes := [x76; x69; x65; x77; x5f; x74; x61; x67].

(* Range<u32> as the list lo, lo+1, .., hi-1 (empty when hi <= lo) *)
Definition range_list (lo hi : N) : list N := map (fun k => (lo + N.of_nat k)%N) (seq 0 (N.to_nat (hi - lo))).

Section Scan.
Context {E : EdOps}.
Variable Hs : hs_fun.              (* Hash::hash_to_scalar *)
Variable Hb : bytes -> bytes.      (* Hash::new: Keccak-256, 32 bytes *)

(* PublicKey::from_slice acceptance, as used by the extra-field decoder *)
Definition valid_pk_b (k : bytes) : bool := match pk_from_slice k with Ok _ => true | _ => false end.

(* ---- SubKeyChecker ------------------------------------------------------------------------------------------------ *)
Definition table := list (bytes * index).

(* the insertions of SubKeyChecker::new, in order *)
Fixpoint table_rows (view : Z) (spend : bytes) (idxs : list index) : res table :=
  match idxs with
  | [] => Ok []
  | i :: t => bindr (get_spend_public_key Hs view spend i) (fun k =>
              bindr (table_rows view spend t) (fun r => Ok ((k, i) :: r)))
  end.
Definition index_grid (major minor : list N) : list index :=
  flat_map (fun maj => map (fun min => (maj, min)) minor) major.
Definition checker_new (view : Z) (spend : bytes) (maj_lo maj_hi min_lo min_hi : N) : res table :=
  table_rows view spend (index_grid (range_list maj_lo maj_hi) (range_list min_lo min_hi)).

(* HashMap::get after those insertions: the LAST inserted entry with an equal key *)
Fixpoint lookup (t : table) (k : bytes) : option index :=
  match t with
  | [] => None
  | (k', i) :: r => match lookup r k with
                    | Some j => Some j
                    | None => if pk_eqb k' k then Some i else None
                    end
  end.

(* check_with_key_generator(keygen, index, key): table.get(&(key - from_private_key(rvn_scalar(index)))) *)
Definition check_with_key_generator (t : table) (g : bytes * bytes) (i : N) (key : bytes) : res (option index) :=
  bindr (candidate_spend Hs g i key) (fun c => Ok (lookup t c)).
(* check(index, key, tx_pubkey) *)
Definition checker_check (t : table) (view : Z) (spend : bytes) (i : N) (key txpub : bytes) : res (option index) :=
  bindr (from_key view spend txpub) (fun g => check_with_key_generator t g i key).

(* ---- TxOutTarget ---------------------------------------------------------------------------------------------------- *)
Definition target_key (t : target) : bytes := match t with TKey k => k | TTagged k _ => k end.
Definition as_one_time_key (t : target) : option bytes :=
  match pk_from_slice (target_key t) with Ok k => Some k | _ => None end.

(* Keccak("view_tag" || rv || varint(index as u64))[0] *)
Definition view_tag_of (rv : bytes) (i : N) : N :=
  b2n (hd x00 (Hb (view_tag_salt ++ rv ++ enc_varint (i mod 2 ^ 64)%N))).
Definition check_view_tag (t : target) (rv : bytes) (i : N) : bool :=
  match t with
  | TTagged _ tag => (tag =? view_tag_of rv i)%N
  | TKey _ => true
  end.

(* ---- check_outputs_with ----------------------------------------------------------------------------------------------- *)
(* the closure `check_key`: None = not ours under this key *)
Definition check_key (t : table) (view : Z) (spend : bytes) (i : N) (o : txout) (pub_key : bytes)
  : res (option (index * bytes)) :=
  match as_one_time_key (o_target o) with
  | None => Ok None
  | Some key =>
      bindr (from_key view spend pub_key) (fun g =>
        if negb (check_view_tag (o_target o) (snd g) i) then Ok None
        else bindr (check_with_key_generator t g i key) (fun r =>
               match r with Some idx => Ok (Some (idx, pub_key)) | None => Ok None end))
  end.

(* check_key(tx_pubkey).or_else(|| check_key(additional_key?)) *)
Definition check_output (t : table) (view : Z) (spend : bytes) (i : N) (o : txout) (main : bytes) (add : option bytes)
  : res (option (index * bytes)) :=
  bindr (check_key t view spend i o main) (fun r =>
    match r with
    | Some x => Ok (Some x)
    | None => match add with Some a => check_key t view spend i o a | None => Ok None end
    end).

(* the opening step; `ecdh_i` / `outpk_i` are rct_sig_base.ecdh_info.get(i) / out_pk.get(i) *)
Definition opening_step (rct : option rct_base) (ecdh_i : option ecdh) (outpk_i : option bytes)
                        (view : Z) (spend : bytes) (i : N) (key : bytes) : sres (option opening) :=
  match rct with
  | None => SOk None
  | Some b =>
      match rb_type b with
      | RNull => SOk None
      | _ =>
          match ecdh_i with
          | None => SErr MissingEcdhInfo
          | Some e =>
              match outpk_i with
              | None => SErr MissingCommitment
              | Some c =>
                  match decompress c with
                  | None => SErr InvalidCommitment
                  | Some C =>
                      match open_commitment Hs Hb e view spend key i C with
                      | Ok (Some op) => SOk (Some op)
                      | Ok None => SErr InvalidCommitment
                      | Err _ => SPanic
                      | Panic => SPanic
                      end
                  end
              end
          end
      end
  end.

(* OwnedTxOut { index, out, sub_index, tx_pubkey, opening } *)
Record owned := mk_owned {
  ow_pos : N; ow_out : txout; ow_index : index; ow_key : bytes; ow_opening : option opening }.

Definition uncons {A} (l : list A) : option A * list A :=
  match l with [] => (None, []) | a :: t => (Some a, t) end.

(* the loop over outputs.iter().enumerate().zip(additional keys ++ None, None, ..); the additional keys and the
   vectors of the RingCT base advance in step with the outputs, so that their heads are the entries at position i *)
Fixpoint scan_outputs (t : table) (view : Z) (spend : bytes) (rct : option rct_base) (main : bytes)
                      (i : N) (outs : list txout) (adds : list bytes) (ecdhs : list ecdh) (outpks : list bytes)
  : sres (list owned) :=
  match outs with
  | [] => SOk []
  | o :: rest =>
      let '(add, adds') := uncons adds in
      let '(ecdh_i, ecdhs') := uncons ecdhs in
      let '(outpk_i, outpks') := uncons outpks in
      match check_output t view spend i o main add with
      | Panic => SPanic
      | Err _ => SPanic
      | Ok None => scan_outputs t view spend rct main (i + 1)%N rest adds' ecdhs' outpks'
      | Ok (Some (idx, key)) =>
          match opening_step rct ecdh_i outpk_i view spend i key with
          | SErr e => SErr e
          | SPanic => SPanic
          | SOk op =>
              match scan_outputs t view spend rct main (i + 1)%N rest adds' ecdhs' outpks' with
              | SOk l => SOk (mk_owned i o idx key op :: l)
              | other => other
              end
          end
      end
  end.

(* TransactionPrefix::check_outputs_with(&checker, rct_sig_base).  ExtraField::try_parse never fails (C16_total); its
   impossible outcomes are mapped to SPanic *)
Definition check_outputs_with (t : table) (view : Z) (spend : bytes) (p : txprefix) (rct : option rct_base)
  : sres (list owned) :=
  match raw_try_parse valid_pk_b (extra p) with
  | Ok fields =>
      match tx_pubkey fields with
      | None => SErr NoTxPublicKey
      | Some main =>
          let adds := match tx_additional_pubkeys fields with Some ks => ks | None => [] end in
          scan_outputs t view spend rct main 0%N (outputs p) adds
            (match rct with Some b => rb_ecdh b | None => [] end)
            (match rct with Some b => rb_out_pk b | None => [] end)
      end
  | _ => SPanic
  end.

(* TransactionPrefix::check_outputs(pair, major, minor, rct_sig_base) *)
Definition prefix_check_outputs (view : Z) (spend : bytes) (maj_lo maj_hi min_lo min_hi : N)
                                (p : txprefix) (rct : option rct_base) : sres (list owned) :=
  match checker_new view spend maj_lo maj_hi min_lo min_hi with
  | Ok t => check_outputs_with t view spend p rct
  | _ => SPanic
  end.
(* Transaction::check_outputs / check_outputs_with: pass self.rct_signatures.sig.as_ref() *)
Definition tx_check_outputs (view : Z) (spend : bytes) (maj_lo maj_hi min_lo min_hi : N) (t : tx) : sres (list owned) :=
  prefix_check_outputs view spend maj_lo maj_hi min_lo min_hi (tx_prefix t) (rct_base_of (tx_rct t)).
Definition tx_check_outputs_with (tb : table) (view : Z) (spend : bytes) (t : tx) : sres (list owned) :=
  check_outputs_with tb view spend (tx_prefix t) (rct_base_of (tx_rct t)).

(* ---- OwnedTxOut getters ------------------------------------------------------------------------------------------------ *)
(* amount(): the opening's amount, else the clear amount with VarInt(0) => None *)
Definition owned_amount (w : owned) : option N :=
  match ow_opening w with
  | Some (a, _, _) => Some a
  | None => if (o_amount (ow_out w) =? 0)%N then None else Some (o_amount (ow_out w))
  end.
Definition owned_blinding_factor (w : owned) : option Z :=
  match ow_opening w with Some (_, y, _) => Some y | None => None end.
Definition owned_commitment (w : owned) : option point :=
  match ow_opening w with Some (_, _, C) => Some C | None => None end.

(* ---- KeyRecoverer ------------------------------------------------------------------------------------------------------ *)
(* KeyRecoverer::new(keys, tx_pubkey): checker = KeyGenerator::from_key(&ViewPair::from(keys), tx_pubkey) *)
Definition recoverer_new (view spend : Z) (txpub : bytes) : res (bytes * bytes) :=
  from_key view (pk_from_priv spend) txpub.
(* recover(oindex, aindex) = get_rvn_scalar(oindex) + get_spend_secret_key(keys, aindex) *)
Definition recover (view spend : Z) (g : bytes * bytes) (oindex : N) (aindex : index) : Z :=
  sk_add (get_rvn_scalar Hs g oindex) (get_spend_secret_key Hs view spend aindex).
(* OwnedTxOut::recover_key(keys) *)
Definition owned_recover_key (view spend : Z) (w : owned) : res Z :=
  bindr (recoverer_new view spend (ow_key w)) (fun g => Ok (recover view spend g (ow_pos w) (ow_index w))).

End Scan.
