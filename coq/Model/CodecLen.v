(* CodecLen.v — the `usize` each Rust encoder RETURNS (Ok(len)), computed the way the Rust code computes it:
   size_of for integers, 1 per u8 array element, `vi_len + …` for length-prefixed data, sums for records. *)
From MRS Require Export Model.Codec.
Open Scope N_scope.

Definition rl_sum {A} (f : A -> N) (l : list A) : N := fold_right (fun a acc => f a + acc) 0 l.

Definition rl_u8 (n : N) : N := 1.                       (* mem::size_of::<u8>() *)
Definition rl_u32 (n : N) : N := 4.
Definition rl_varint (n : N) : N := enc_varint_len n.
Definition rl_arr (b : bytes) : N := rl_sum (fun _ => 1) b.     (* for i in self.iter() { len += i.consensus_encode(w)? } *)
Definition rl_list {A} (f : A -> N) (l : list A) : N := rl_sum f l.            (* encode_sized_vec! *)
Definition rl_vec {A} (f : A -> N) (l : list A) : N := rl_varint (lenN l) + rl_sum f l.
Definition rl_bytes_vec (b : bytes) : N := rl_vec (fun _ : byte => 1) b.

Definition rl_txin (i : txin) : N :=
  match i with
  | Gen h => rl_u8 255 + rl_varint h
  | ToKey a ko ki => rl_u8 2 + rl_varint a + rl_vec rl_varint ko + rl_arr ki
  end.
Definition rl_target (t : target) : N :=
  match t with TKey k => rl_u8 2 + rl_arr k | TTagged k v => rl_u8 3 + rl_arr k + rl_u8 v end.
Definition rl_txout (o : txout) : N := rl_varint (o_amount o) + rl_target (o_target o).
Definition rl_prefix (p : txprefix) : N :=
  rl_varint (version p) + rl_varint (unlock_time p) + rl_vec rl_txin (inputs p) + rl_vec rl_txout (outputs p)
  + rl_bytes_vec (extra p).
Definition rl_signature (s : signature) : N := rl_arr (sig_c s) + rl_arr (sig_r s).
Definition rl_rct_type (t : rct_type) : N := 1.
Definition rl_ecdh (e : ecdh) : N :=
  match e with EStandard m a => rl_arr m + rl_arr a | EBulletproof a => rl_arr a end.
Definition rl_borosig (b : borosig) : N := rl_arr (bs_s0 b) + rl_arr (bs_s1 b) + rl_arr (bs_ee b).
Definition rl_rangesig (r : rangesig) : N := rl_borosig (rs_asig r) + rl_arr (rs_Ci r).
Definition rl_mgsig (m : mgsig) : N := rl_list (rl_list rl_arr) (mg_ss m) + rl_arr (mg_cc m).
Definition rl_clsag (c : clsag) : N := rl_list rl_arr (cl_s c) + rl_arr (cl_c1 c) + rl_arr (cl_D c).
Definition rl_bulletproof (p : bulletproof) : N :=
  rl_arr (bp_A p) + rl_arr (bp_S p) + rl_arr (bp_T1 p) + rl_arr (bp_T2 p) + rl_arr (bp_taux p) + rl_arr (bp_mu p)
  + rl_vec rl_arr (bp_L p) + rl_vec rl_arr (bp_R p) + rl_arr (bp_a p) + rl_arr (bp_b p) + rl_arr (bp_t p).
Definition rl_bpplus (p : bpplus) : N :=
  rl_arr (bpp_A p) + rl_arr (bpp_A1 p) + rl_arr (bpp_B p) + rl_arr (bpp_r1 p) + rl_arr (bpp_s1 p) + rl_arr (bpp_d1 p)
  + rl_vec rl_arr (bpp_L p) + rl_vec rl_arr (bpp_R p).
Definition rl_rct_base (b : rct_base) : N :=
  rl_rct_type (rb_type b) +
  match rb_type b with
  | RNull => 0
  | _ => rl_varint (rb_fee b) +
         (if rct_type_eqb (rb_type b) RSimple then rl_list rl_arr (rb_pseudo_outs b) else 0) +
         rl_list rl_ecdh (rb_ecdh b) + rl_list rl_arr (rb_out_pk b)
  end.
Definition rl_rct_prunable (p : rct_prunable) (t : rct_type) : N :=
  match t with
  | RNull => 0
  | _ =>
      (if is_rct_bp t then
         match t with
         | RBulletproof2 | RClsag => rl_vec rl_bulletproof (rp_bulletproofs p)
         | _ => rl_u32 0 + rl_list rl_bulletproof (rp_bulletproofs p)
         end
       else if is_rct_bp_plus t then rl_vec rl_bpplus (rp_bulletproofplus p)
       else rl_list rl_rangesig (rp_range_sigs p)) +
      (if uses_clsag t then rl_list rl_clsag (rp_Clsags p) else rl_list rl_mgsig (rp_MGs p)) +
      (if has_p_pseudo t then rl_list rl_arr (rp_pseudo_outs p) else 0)
  end.
Definition rl_tx (t : tx) : N :=
  rl_prefix (tx_prefix t) +
  (if version (tx_prefix t) =? 1 then rl_list (rl_list rl_signature) (tx_signatures t)
   else match rct_base_of (tx_rct t) with
        | Some sig => rl_rct_base sig +
                      match rct_p (tx_rct t) with Some p => rl_rct_prunable p (rb_type sig) | None => 0 end
        | None => 0
        end).
Definition rl_header (h : header) : N :=
  rl_varint (major_version h) + rl_varint (minor_version h) + rl_varint (timestamp h) + rl_arr (prev_id h) + rl_u32 (nonce h).
Definition rl_block (b : block) : N :=
  rl_header (blk_header b) + rl_tx (miner_tx b) + rl_vec rl_arr (tx_hashes b).
