(* TxId.v — model of `impl Hashable for TransactionPrefix / Transaction / RctSigBase` (src/blockdata/transaction.rs,
   src/util/ringct.rs) over an abstract hash H (instance: keccak256). *)
From MRS Require Export Model.Codec.
Open Scope N_scope.

Definition zero32 : bytes := repeat x00 32.

(* Keccak-256 of the empty string, the constant hard-coded in Transaction::hash for a missing prunable part
   (as written in the source: 70a4855d...d2c5) *)
Definition empty_hash_const : bytes :=
  [x70;xa4;x85;x5d;x04;xd8;xfa;x7b;x3b;x27;x82;xca;x53;xb6;x00;xe5;
   xc0;x03;xc7;xdc;xb2;x7d;x7e;x92;x3c;x23;xf7;x86;x01;x46;xd2;xc5].

Section TxId.
  Variable H : bytes -> bytes.

  Definition prefix_hash (p : txprefix) : bytes := H (enc_prefix p).

  Definition tx_hash (t : tx) : bytes :=
    if version (tx_prefix t) =? 1 then H (enc_tx t)
    else
      let h0 := prefix_hash (tx_prefix t) in
      let rest :=
        match rct_base_of (tx_rct t) with
        | Some base =>
            H (enc_rct_base base) ++
            match rb_type base with
            | RNull => zero32
            | ty => match rct_p (tx_rct t) with
                    | Some p => H (enc_rct_prunable p ty)
                    | None => empty_hash_const
                    end
            end
        | None =>
            match inputs (tx_prefix t) with
            | [] => H (enc_rct_type RNull) ++ zero32       (* no inputs: hashed as RCTTypeNull *)
            | _ => []
            end
        end in
      H (h0 ++ rest).
End TxId.
