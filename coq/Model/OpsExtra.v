(* OpsExtra.v — protocol ops for the transaction extra (C16):
     extra_parse <rawhex>            ExtraField::try_parse + accessors + RawExtraField::try_parse
     extra_enc <n> <subfield>*       RawExtraField::from(ExtraField(..)) and serialize(&ExtraField)
     extra_rt <n> <subfield>*        From, then try_parse of the raw bytes
     subfield_dec / subfield_decs <hex>   deserialize_partial / deserialize ::<SubField>
     subfield_rt <subfield>          serialize one sub-field, parse it back (partial and strict)
     extra_from_len <len>            outcome of From for [Nonce(vec![0; len])] (allocation-cap boundary)
   Token form of a sub-field:  pk <hex32> | nonce <hex> | pad <n> | mm <depth> <hex32> | add <n> <hex32>* | mg <hex> *)
From MRS Require Import Model.Base Model.Varint Model.Codec Model.Show Model.Ed25519 Model.Extra.
From Coq Require Import String Ascii.
Open Scope string_scope.
Open Scope list_scope.
Open Scope N_scope.

Definition sh_subfield (f : subfield) : toks :=
  match f with
  | TxPublicKey k => "pk" :: sh_b k
  | Nonce b => "nonce" :: sh_b b
  | Padding n => "pad" :: sh_N n
  | MergeMining d h => "mm" :: sh_N d ++ sh_b h
  | AdditionalPublicKey ks => "add" :: sh_list sh_b ks
  | MysteriousMinerGate b => "mg" :: sh_b b
  end.

Definition p_subfield : ptok subfield :=
  w <~ p_word ;;
  if String.eqb w "pk" then k <~ p_b ;; pret (TxPublicKey k)
  else if String.eqb w "nonce" then b <~ p_b ;; pret (Nonce b)
  else if String.eqb w "pad" then n <~ p_N ;; pret (Padding n)
  else if String.eqb w "mm" then d <~ p_N ;; h <~ p_b ;; pret (MergeMining d h)
  else if String.eqb w "add" then ks <~ p_list p_b ;; pret (AdditionalPublicKey ks)
  else if String.eqb w "mg" then b <~ p_b ;; pret (MysteriousMinerGate b)
  else fun _ => None.

(* can the Rust value be constructed from the description?  PublicKey::from_slice must accept every key,
   Padding carries a u8, the depth a u64, the root a [u8; 32] *)
Definition is32 (b : bytes) : bool := Nat.eqb (List.length b) 32.
Definition key_ok (k : bytes) : bool := is32 k && pk_valid k.
Definition buildable (f : subfield) : bool :=
  match f with
  | TxPublicKey k => key_ok k
  | Nonce _ => true
  | Padding n => n <=? 255
  | MergeMining d h => (d <? 2 ^ 64) && is32 h
  | AdditionalPublicKey ks => forallb key_ok ks
  | MysteriousMinerGate _ => true
  end.

Definition sh_opt_key (o : option bytes) : toks := match o with Some k => sh_b k | None => ["none"] end.
Definition sh_opt_keys (o : option (list bytes)) : toks :=
  match o with Some ks => sh_list sh_b ks | None => ["none"] end.

Definition show_fields (status : string) (fs : list subfield) : toks :=
  status :: sh_list sh_subfield fs ++ "pk" :: sh_opt_key (tx_pubkey fs) ++ "add" :: sh_opt_keys (tx_additional_pubkeys fs).

Definition bit (b : bool) : string := if b then "1" else "0".
Definition teq (a b : toks) : bool := String.eqb (join_sp a) (join_sp b).

Definition show_parse (raw : bytes) : toks :=
  match try_parse pk_valid raw with
  | Ok (ok, fs) =>
      show_fields (if ok then "OK" else "PARTIAL") fs ++
      [match raw_try_parse pk_valid raw with
       | Ok fs' => if teq (sh_list sh_subfield fs') (sh_list sh_subfield fs) then "raw=1" else "raw=0"
       | Err _ => "raw=FUEL" | Panic => "raw=PANIC" end]
  | Err _ => ["FUEL"]
  | Panic => ["PANIC"]
  end.

Definition ops_extra (op : string) (args : list string) : option string :=
  if String.eqb op "extra_parse" then
    match args with
    | [h] => match parse_hex h with Some raw => Some (join_sp (show_parse raw)) | None => None end
    | _ => None end
  else if String.eqb op "extra_enc" then
    match p_all (p_list p_subfield) args with
    | Some fs =>
        if negb (forallb buildable fs) then Some "ERR-BUILD" else
        Some (match raw_of_extra fs with
              | Ok raw => join_sp ["OK"; show_hex raw; show_N (lenN (enc_extra fs))]
              | Err _ => "ERR" | Panic => "PANIC" end)
    | None => None end
  else if String.eqb op "extra_rt" then
    match p_all (p_list p_subfield) args with
    | Some fs =>
        if negb (forallb buildable fs) then Some "ERR-BUILD" else
        Some (match raw_of_extra fs with
              | Ok raw => join_sp ("OK" :: show_hex raw :: show_parse raw)
              | Err _ => "ERR" | Panic => "PANIC" end)
    | None => None end
  else if String.eqb op "extra_from_len" then
    (* RawExtraField::from(ExtraField(vec![SubField::Nonce(vec![0; n])])): OK <raw length> or PANIC *)
    match args with
    | [n] => match parse_N n with
             | Some n => Some (match raw_of_extra_outcome (nonce_field_len n) with
                               | Ok l => join_sp ["OK"; show_N l] | Err _ => "ERR" | Panic => "PANIC" end)
             | None => None end
    | _ => None end
  else if String.eqb op "subfield_dec" then
    match args with
    | [h] => match parse_hex h with
             | Some b => Some (match deserialize_partial (dec_subfield pk_valid) b with
                               | Ok (f, n) => join_sp ("OK" :: show_N n :: sh_subfield f)
                               | Err _ => "ERR" | Panic => "PANIC" end)
             | None => None end
    | _ => None end
  else if String.eqb op "subfield_decs" then
    match args with
    | [h] => match parse_hex h with
             | Some b => Some (match deserialize (dec_subfield pk_valid) b with
                               | Ok f => join_sp ("OK" :: sh_subfield f)
                               | Err _ => "ERR" | Panic => "PANIC" end)
             | None => None end
    | _ => None end
  else if String.eqb op "subfield_rt" then
    match p_all p_subfield args with
    | Some f =>
        if negb (buildable f) then Some "ERR-BUILD" else
        Some (match enc_subfield_chk f with
              | Ok bs =>
                  let back := match deserialize_partial (dec_subfield pk_valid) bs with
                              | Ok (f', n) => join_sp [bit (teq (sh_subfield f') (sh_subfield f)); show_N n]
                              | Err _ => "ERR" | Panic => "PANIC" end in
                  let strict := match deserialize (dec_subfield pk_valid) bs with
                                | Ok f' => bit (teq (sh_subfield f') (sh_subfield f))
                                | Err _ => "ERR" | Panic => "PANIC" end in
                  join_sp ["OK"; show_hex bs; show_N (lenN bs); back; strict]
              | Err _ => "ERR" | Panic => "PANIC" end)
    | None => None end
  else None.
