(* Base.v — bytes, results, the cursor monad, text helpers.  NO proofs here. *)
From Coq Require Export List NArith ZArith Bool.
From Coq Require Export Strings.Byte.
From Coq Require Import String Ascii.
Export ListNotations.
Open Scope N_scope.

Definition bytes := list byte.

(* ---- byte <-> N ------------------------------------------------------- *)
Definition b2n (b : byte) : N := Byte.to_N b.
Definition n2b (n : N) : byte :=
  match Byte.of_N (n mod 256) with Some b => b | None => x00 end.

(* little-endian integer of a byte string, and back (fixed width k bytes) *)
Fixpoint le2n (bs : bytes) : N :=
  match bs with [] => 0 | b :: t => b2n b + 256 * le2n t end.
Fixpoint n2le (k : nat) (n : N) : bytes :=
  match k with O => [] | S k' => n2b n :: n2le k' (n / 256) end.

(* ---- results and the cursor monad ------------------------------------- *)
Inductive err := EEof | EBad | EFuel.
Inductive res (A : Type) := Ok (a : A) | Err (e : err) | Panic.
Arguments Ok {A} a. Arguments Err {A} e. Arguments Panic {A}.

(* A decoder returns its result AND the cursor after the call (also on error):
   std::io::Cursor::read_exact moves the position to the end on a short read. *)
Definition dec (A : Type) := bytes -> res A * bytes.

Definition ret {A} (a : A) : dec A := fun s => (Ok a, s).
Definition fail {A} (e : err) : dec A := fun s => (Err e, s).
Definition bind {A B} (d : dec A) (k : A -> dec B) : dec B :=
  fun s => match d s with
           | (Ok a, r) => k a r
           | (Err e, r) => (Err e, r)
           | (Panic, r) => (Panic, r)
           end.
Definition dmap {A B} (f : A -> B) (d : dec A) : dec B := bind d (fun a => ret (f a)).

Notation "x <- d ;; k" := (bind d (fun x => k))
  (at level 61, d at next level, right associativity).

Definition read_u8 : dec byte :=
  fun s => match s with [] => (Err EEof, []) | b :: r => (Ok b, r) end.

(* n successive read_u8 (arrays decode element-wise through u8) *)
Fixpoint read_n (n : nat) : dec bytes :=
  match n with
  | O => ret []
  | S n' => b <- read_u8 ;; t <- read_n n' ;; ret (b :: t)
  end.

(* run a decoder n times, n a binary number: no fuel, terminates for every n,
   stops at the first error *)
Fixpoint rep_pos {A} (p : positive) (d : dec A) : dec (list A) :=
  match p with
  | xH => a <- d ;; ret [a]
  | xO q => l1 <- rep_pos q d ;; l2 <- rep_pos q d ;; ret (l1 ++ l2)
  | xI q => a <- d ;; l1 <- rep_pos q d ;; l2 <- rep_pos q d ;; ret (a :: l1 ++ l2)
  end.
Definition rep {A} (n : N) (d : dec A) : dec (list A) :=
  match n with N0 => ret [] | Npos p => rep_pos p d end.

Definition lenN {A} (l : list A) : N := N.of_nat (List.length l).

(* ---- text helpers for the case protocol -------------------------------- *)
Open Scope string_scope.
Open Scope N_scope.

Definition hexdigit (n : N) : ascii :=
  ascii_of_N (if n <? 10 then 48 + n else 87 + n).
Definition unhexdigit (c : ascii) : option N :=
  let n := N_of_ascii c in
  if (48 <=? n) && (n <=? 57) then Some (n - 48)
  else if (97 <=? n) && (n <=? 102) then Some (n - 87)
  else None.

Fixpoint hex_of_bytes (bs : bytes) : string :=
  match bs with
  | [] => EmptyString
  | b :: t => String (hexdigit (b2n b / 16)) (String (hexdigit (b2n b mod 16)) (hex_of_bytes t))
  end.
Definition show_hex (bs : bytes) : string :=
  match bs with [] => "-" | _ => hex_of_bytes bs end.

Fixpoint bytes_of_hex (s : string) : option bytes :=
  match s with
  | EmptyString => Some []
  | String a (String b t) =>
      match unhexdigit a, unhexdigit b, bytes_of_hex t with
      | Some x, Some y, Some r => Some (n2b (16 * x + y) :: r)
      | _, _, _ => None
      end
  | _ => None
  end.
Definition parse_hex (s : string) : option bytes :=
  if String.eqb s "-" then Some [] else bytes_of_hex s.

(* decimal *)
Fixpoint dec_digits (fuel : nat) (n : N) (acc : string) : string :=
  match fuel with
  | O => acc
  | S f =>
      let acc' := String (ascii_of_N (48 + n mod 10)) acc in
      if n <? 10 then acc' else dec_digits f (n / 10) acc'
  end.
Definition show_N (n : N) : string := dec_digits 100 n EmptyString.
Definition show_Z (z : Z) : string :=
  match z with
  | Z0 => "0"
  | Zpos p => show_N (Npos p)
  | Zneg p => String "-" (show_N (Npos p))
  end.

Fixpoint parse_N_acc (s : string) (acc : N) : option N :=
  match s with
  | EmptyString => Some acc
  | String c t =>
      let n := N_of_ascii c in
      if (48 <=? n) && (n <=? 57) then parse_N_acc t (10 * acc + (n - 48)) else None
  end.
Definition parse_N (s : string) : option N :=
  match s with EmptyString => None | _ => parse_N_acc s 0 end.
Definition parse_Z (s : string) : option Z :=
  match s with
  | String "-" t => option_map (fun n => Z.opp (Z.of_N n)) (parse_N t)
  | _ => option_map Z.of_N (parse_N s)
  end.

(* split on single spaces *)
Fixpoint split_sp (s : string) (cur : string -> string) : list string :=
  match s with
  | EmptyString => [cur EmptyString]
  | String c t =>
      if Ascii.eqb c " " then cur EmptyString :: split_sp t (fun x => x)
      else split_sp t (fun x => cur (String c x))
  end.
Definition words (s : string) : list string := split_sp s (fun x => x).

Fixpoint join_sp (l : list string) : string :=
  match l with
  | [] => ""
  | [x] => x
  | x :: t => x ++ " " ++ join_sp t
  end.

Definition bytes_of_string (s : string) : bytes := list_byte_of_string s.
Definition string_of_bytes (b : bytes) : string := string_of_list_byte b.
