(* OpsAmount.v — case-protocol entry points for amount text (C15) and amount arithmetic (C18).
     amt_parse u|s <denomination>|with_suffix <utf8-hex>          -> OK <piconero> | ERR | PANIC
     amt_fmt   u|s <denomination> plain|suffix|display <value>    -> OK <utf8-hex> | PANIC
     amt_op    u|s <op> <form> <a> <b>                            -> OK <value> | NONE | ERR | PANIC
       op in add sub mul div rem with form checked|operator|assign;
       op in to_signed to_unsigned positive_sub checked_abs signum is_negative is_positive with form fn
       (unary ops ignore b).  Operands outside the type's range are not a case (None). *)
From MRS Require Import Model.Base Model.Amount.
From Coq Require Import String Ascii.
Open Scope string_scope.

Definition show_ares {A} (show : A -> string) (r : ares A) : string :=
  match r with AOk a => "OK " ++ show a | AErr _ => "ERR" | APanic => "PANIC" end.

Definition denom_of_name (s : string) : option denom :=
  if String.eqb s "xmr" then Some Monero else if String.eqb s "millinero" then Some Millinero
  else if String.eqb s "micronero" then Some Micronero else if String.eqb s "nanonero" then Some Nanonero
  else if String.eqb s "piconero" then Some Piconero else None.

Definition aop_of_name (s : string) : option aop :=
  if String.eqb s "add" then Some OAdd else if String.eqb s "sub" then Some OSub
  else if String.eqb s "mul" then Some OMul else if String.eqb s "div" then Some ODiv
  else if String.eqb s "rem" then Some ORem else None.

Definition parse_operand (signed : bool) (s : string) : option Z :=
  match parse_Z s with
  | Some z => if (if signed then in_i64 z else in_u64 z) then Some z else None
  | None => None
  end.

Definition signed_flag (s : string) : option bool :=
  if String.eqb s "u" then Some false else if String.eqb s "s" then Some true else None.

Definition show_opt (r : ares (option Z)) : string :=
  match r with AOk (Some z) => "OK " ++ show_Z z | AOk None => "NONE" | AErr _ => "ERR" | APanic => "PANIC" end.
Definition show_bool (b : bool) : string := if b then "OK true" else "OK false".

Definition amt_op (sg : bool) (op form : string) (a b : Z) : option string :=
  match aop_of_name op with
  | Some o =>
      if String.eqb form "checked" then Some (show_opt (if sg then signed_checked o a b else amount_checked o a b))
      else if String.eqb form "operator" then
        Some (show_ares show_Z (if sg then signed_operator o a b else amount_operator o a b))
      else if String.eqb form "assign" then
        Some (show_ares show_Z (if sg then signed_assign o a b else amount_assign o a b))
      else None
  | None =>
      if negb (String.eqb form "fn") then None
      else if String.eqb op "to_signed" then (if sg then None else Some (show_ares show_Z (amount_to_signed a)))
      else if negb sg then None
      else if String.eqb op "to_unsigned" then Some (show_ares show_Z (signed_to_unsigned a))
      else if String.eqb op "positive_sub" then Some (show_opt (AOk (signed_positive_sub a b)))
      else if String.eqb op "checked_abs" then Some (show_opt (AOk (signed_checked_abs a)))
      else if String.eqb op "signum" then Some ("OK " ++ show_Z (signed_signum a))
      else if String.eqb op "is_negative" then Some (show_bool (signed_is_negative a))
      else if String.eqb op "is_positive" then Some (show_bool (signed_is_positive a))
      else None
  end.

Definition ops_amount (op : string) (args : list string) : option string :=
  if String.eqb op "amt_parse" then
    match args with
    | [t; d; h] =>
        match signed_flag t, parse_hex h with
        | Some sg, Some s =>
            if String.eqb d "with_suffix" then
              Some (show_ares show_Z (if sg then signed_from_str s else amount_from_str s))
            else match denom_of_name d with
                 | Some d => Some (show_ares show_Z (if sg then signed_from_str_in s d else amount_from_str_in s d))
                 | None => None
                 end
        | _, _ => None
        end
    | _ => None
    end
  else if String.eqb op "amt_fmt" then
    match args with
    | [t; d; mode; v] =>
        match signed_flag t, denom_of_name d with
        | Some sg, Some d =>
            match parse_operand sg v with
            | Some a =>
                if String.eqb mode "plain" then
                  Some (show_ares show_hex (if sg then signed_to_string_in a d else amount_to_string_in a d))
                else if String.eqb mode "suffix" then
                  Some (show_ares show_hex (if sg then signed_to_string_with_denomination a d
                                            else amount_to_string_with_denomination a d))
                else if String.eqb mode "display" then
                  Some (show_ares show_hex (if sg then signed_display a else amount_display a))
                else None
            | None => None
            end
        | _, _ => None
        end
    | _ => None
    end
  else if String.eqb op "amt_op" then
    match args with
    | [t; o; form; a; b] =>
        match signed_flag t with
        | Some sg => match parse_operand sg a, parse_operand sg b with
                     | Some a, Some b => amt_op sg o form a b
                     | _, _ => None
                     end
        | None => None
        end
    | _ => None
    end
  else None.
