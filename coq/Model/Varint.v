(* Varint.v — model of `impl Encodable/Decodable for VarInt` (src/consensus/encode.rs). *)
From MRS Require Export Model.Base.
Open Scope N_scope.

(* ---- encoder: push (n & 0x7f); n >>= 7; until n == 0 ------------------- *)
Fixpoint groups (fuel : nat) (n : N) : list N :=
  match fuel with
  | O => []
  | S f =>
      let g := N.land n 127 in
      let n' := N.shiftr n 7 in
      if n' =? 0 then [g] else g :: groups f n'
  end.

(* res.split_last(): all but the last get the continuation bit *)
Fixpoint cont_bytes (gs : list N) : bytes :=
  match gs with
  | [] => [x00]                       (* the `None` arm of split_last *)
  | [g] => [n2b g]
  | g :: t => n2b (N.lor g 128) :: cont_bytes t
  end.

(* every iteration shifts by 7 >= 1 bits, so size(n)+1 iterations always suffice *)
Definition varint_fuel (n : N) : nat := S (N.to_nat (N.size n)).

Definition enc_varint (n : N) : bytes := cont_bytes (groups (varint_fuel n) n).

(* the usize the Rust encoder returns: arr.len() + 1 (or 1 in the None arm) *)
Definition enc_varint_len (n : N) : N :=
  match groups (varint_fuel n) n with
  | [] => 1
  | _ :: t => lenN t + 1
  end.

(* ---- decoder ------------------------------------------------------------ *)
(* the read loop; `first` = res.is_empty() *)
Fixpoint collect (s : bytes) (first : bool) : res (list N) * bytes :=
  match s with
  | [] => (Err EEof, [])
  | b :: r =>
      let n := b2n b in
      if (n =? 0) && negb first then (Err EBad, r)
      else
        let g := N.land n 127 in
        if N.land n 128 =? 0 then (Ok [g], r)
        else match collect r false with
             | (Ok gs, r') => (Ok (g :: gs), r')
             | other => other
             end
  end.

(* after res.reverse(): most significant group first; the last is or-ed in without a shift.
   `int.leading_zeros() >= 7` on a u64 is `int < 2^57`. *)
Fixpoint accum (l : list N) (int : N) : res N :=
  match l with
  | [] => Panic                              (* split_last().unwrap() on an empty vector *)
  | [last] => Ok (N.lor int last)
  | g :: t =>
      let int := N.lor int g in
      if int <? 2 ^ 57 then accum t (N.shiftl int 7) else Err EBad
  end.

Definition dec_varint : dec N :=
  fun s => match collect s true with
           | (Ok gs, r) => (accum (rev gs) 0, r)
           | (Err e, r) => (Err e, r)
           | (Panic, r) => (Panic, r)
           end.
