(* OpsHash.v — case-protocol entry points for hashing (C17) and tree hash / block id (C06). *)
From MRS Require Import Model.Base Model.Keccak.
From Coq Require Import String Ascii.
Open Scope string_scope.
Open Scope N_scope.

Definition ops_hash (op : string) (args : list string) : option string :=
  if String.eqb op "keccak" then
    (* keccak <msg hex>  ->  OK <digest hex> <hash-to-scalar decimal> *)
    match args with
    | [h] => match parse_hex h with
             | Some m => let d := keccak256 m in
                         Some ("OK " ++ show_hex d ++ " " ++ show_N (h2s d))
             | None => None end
    | _ => None end
  else if String.eqb op "h2s" then
    (* h2s <32-byte digest hex>  ->  OK <scalar decimal> <32-byte LE hex of the scalar> *)
    match args with
    | [h] => match parse_hex h with
             | Some d => if Nat.eqb (List.length d) 32
                         then Some ("OK " ++ show_N (h2s d) ++ " " ++ show_hex (scalar_bytes (h2s d)))
                         else None
             | None => None end
    | _ => None end
  else None.
