(* OpsHash.v — case-protocol entry points for hashing (C17) and tree hash / block id (C06). *)
From MRS Require Import Model.Base Model.Keccak Model.TreeHash Spec.TreeHash Spec.Leb128.
From Coq Require Import String Ascii.
Open Scope string_scope.
Open Scope N_scope.

(* a concatenation of 32-byte hashes -> the list of hashes (None if the length is not a multiple of 32) *)
Fixpoint chunks32 (fuel : nat) (b : bytes) : list bytes :=
  match fuel with
  | O => []
  | S f => match b with [] => [] | _ => firstn 32 b :: chunks32 f (skipn 32 b) end
  end.
Definition hashes_of (b : bytes) : option (list bytes) :=
  if lenN b mod 32 =? 0 then Some (chunks32 (List.length b) b) else None.

Definition show_res_bytes (r : res bytes) : string :=
  match r with Ok b => "OK " ++ show_hex b | Err _ => "ERR" | Panic => "PANIC" end.

Definition ops_hash (op : string) (args : list string) : option string :=
  if String.eqb op "keccak" then
    (* keccak <msg hex>  ->  OK <digest hex> <hash-to-scalar decimal> *)
    match args with
    | [h] => match parse_hex h with
             | Some m => let d := keccak256 m in
                         Some ("OK " ++ show_hex d ++ " " ++ show_N (h2s d))
             | None => None end
    | _ => None end
  else if String.eqb op "h2s" then
    (* h2s <32-byte digest hex>  ->  OK <scalar decimal> <32-byte LE hex of the scalar> *)
    match args with
    | [h] => match parse_hex h with
             | Some d => if Nat.eqb (List.length d) 32
                         then Some ("OK " ++ show_N (h2s d) ++ " " ++ show_hex (scalar_bytes (h2s d)))
                         else None
             | None => None end
    | _ => None end
  else if String.eqb op "tree" then
    (* tree <concatenated 32-byte leaves>  ->  OK <root>     (tree_hash(leaf0, &leaves[1..])) *)
    match args with
    | [h] => match parse_hex h with
             | Some b => match hashes_of b with
                         | Some (a :: r) => Some (show_res_bytes (tree_hash keccak_hc a r))
                         | _ => None end
             | None => None end
    | _ => None end
  else if String.eqb op "tree_spec" then
    (* model only: the recursive definition of Spec/TreeHash.v *)
    match args with
    | [h] => match parse_hex h with
             | Some b => match hashes_of b with
                         | Some (a :: r) => Some ("OK " ++ show_hex (tree_spec keccak_hc (a :: r)))
                         | _ => None end
             | None => None end
    | _ => None end
  else if String.eqb op "blockparts" then
    (* blockparts <serialised header> <serialised miner tx (implementation only)> <miner tx hash> <tx hashes>
       ->  OK <miner tx hash> <tx_root> <hashable blob> <id> *)
    match args with
    | [hdr; _; mh; txs] =>
        match parse_hex hdr, parse_hex mh, parse_hex txs with
        | Some hdr, Some mh, Some txs =>
            match hashes_of txs with
            | Some txs =>
                if Nat.eqb (List.length mh) 32 then
                  Some (match tx_root keccak256 mh txs, hashable_blob keccak256 hdr mh txs, block_id keccak256 hdr mh txs with
                        | Ok root, Ok blob, Ok id =>
                            "OK " ++ show_hex mh ++ " " ++ show_hex root ++ " " ++ show_hex blob ++ " " ++ show_hex id
                        | Panic, _, _ | _, Panic, _ | _, _, Panic => "PANIC"
                        | _, _, _ => "ERR" end)
                else None
            | None => None end
        | _, _, _ => None end
    | _ => None end
  else if String.eqb op "block_spec" then
    (* model only: blob and id by Spec/TreeHash.v with textbook LEB128; args <header> <leaves, miner tx hash first> *)
    match args with
    | [hdr; ls] =>
        match parse_hex hdr, parse_hex ls with
        | Some hdr, Some ls =>
            match hashes_of ls with
            | Some (a :: r) =>
                Some ("OK " ++ show_hex (root_spec keccak256 (a :: r)) ++ " "
                      ++ show_hex (blob_spec keccak256 leb128 hdr (a :: r)) ++ " "
                      ++ show_hex (id_spec keccak256 leb128 correct_block_id_202612 existing_block_id_202612 hdr (a :: r)))
            | _ => None end
        | _, _ => None end
    | _ => None end
  else None.
