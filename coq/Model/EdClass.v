(* EdClass.v — the abstract interface to the Ed25519 group used by the key / derivation / subaddress models.
   `EdOps`  : the OPERATIONS the crate uses from curve25519-dalek (an ordinary record, no axioms);
   `EdLaws` : the LAWS the proofs use (DESIGN Appendix A.6), a second record indexed by the operations.
   Every theorem of C13/C10/C11 is proved for EVERY instance of `EdLaws` (inside a Section) and is closed under
   the global context after the Section.  The executable instance of the operations is in Model/EdInst.v;
   it is NOT proved to satisfy `EdLaws` (DESIGN §8) — hence the suffix `_partial` on those theorems.
   Definitions only; no proofs here. *)
From MRS Require Export Model.Base.
From MRS Require Model.Ed25519.
Open Scope Z_scope.

(* concrete constants and byte<->integer conversions shared with the executable instance *)
Notation ell := Ed25519.ell.          (* the prime group order l *)
Notation le2z := Ed25519.le2z.
Notation z2le := Ed25519.z2le.
Notation bytes_eqb := Ed25519.bytes_eqb.

Class EdOps := {
  point : Type;
  pzero : point;                          (* neutral element O *)
  padd : point -> point -> point;         (* EdwardsPoint + EdwardsPoint *)
  pneg : point -> point;                  (* -EdwardsPoint *)
  smul : Z -> point -> point;             (* Scalar * EdwardsPoint; scalars are integers *)
  G : point;                              (* ED25519_BASEPOINT *)
  compress : point -> bytes;              (* EdwardsPoint::compress().to_bytes() *)
  decompress : bytes -> option point;     (* CompressedEdwardsY::decompress (accepts non-canonical encodings) *)
  peqb : point -> point -> bool;          (* EdwardsPoint == EdwardsPoint *)
  valid : point -> Prop;                  (* "is a point of the curve" (well-formed representative) *)
  tors : Z -> point                       (* the eight points of order dividing 8: tors 0 .. tors 7 *)
}.

Definition psub {E : EdOps} (P Q : point) : point := padd P (pneg Q).

Class EdLaws (E : EdOps) := {
  (* closure *)
  valid_zero : valid pzero;
  valid_G : valid G;
  valid_add : forall P Q, valid P -> valid Q -> valid (padd P Q);
  valid_neg : forall P, valid P -> valid (pneg P);
  valid_smul : forall k P, valid P -> valid (smul k P);
  (* abelian group *)
  padd_assoc : forall P Q R, valid P -> valid Q -> valid R -> padd P (padd Q R) = padd (padd P Q) R;
  padd_comm : forall P Q, valid P -> valid Q -> padd P Q = padd Q P;
  padd_zero_r : forall P, valid P -> padd P pzero = P;
  padd_neg_r : forall P, valid P -> padd P (pneg P) = pzero;
  (* smul is the Z-action *)
  smul_0 : forall P, valid P -> smul 0 P = pzero;
  smul_1 : forall P, valid P -> smul 1 P = P;
  smul_add : forall a b P, valid P -> smul (a + b) P = padd (smul a P) (smul b P);
  smul_mul : forall a b P, valid P -> smul (a * b) P = smul a (smul b P);
  smul_opp : forall a P, valid P -> smul (- a) P = pneg (smul a P);
  (* G has order exactly l *)
  smul_ell_G : smul ell G = pzero;
  G_order : forall a b, smul a G = smul b G -> a mod ell = b mod ell;
  (* encoding *)
  compress_len : forall P, valid P -> List.length (compress P) = 32%nat;
  decompress_compress : forall P, valid P -> decompress (compress P) = Some P;
  decompress_valid : forall b P, decompress b = Some P -> valid P;
  (* point equality test *)
  peqb_eq : forall P Q, valid P -> valid Q -> (peqb P Q = true <-> P = Q);
  (* the small-order points *)
  tors_valid : forall i, valid (tors i);
  tors_8 : forall i, smul 8 (tors i) = pzero
}.

(* results outside the cursor monad *)
Definition bindr {A B} (r : res A) (k : A -> res B) : res B :=
  match r with Ok a => k a | Err e => Err e | Panic => Panic end.

(* abstract hash-to-scalar: any function from byte strings to integers (instance: Keccak-256 mod l) *)
Definition hs_fun := bytes -> Z.
