(* Dispatch.v — one Gallina entry point for both evaluators: a protocol line in, a result line out. *)
From MRS Require Import Model.Base Model.OpsAddress Model.OpsAmount Model.OpsBasic Model.OpsCodec Model.OpsCurve Model.OpsExtra Model.OpsHash Model.OpsJson Model.OpsRobust Model.OpsScan Model.OpsTxId.
From Coq Require Import String Ascii.
Open Scope string_scope.

Definition first_some (fs : list (string -> list string -> option string)) (op : string) (args : list string)
  : option string :=
  fold_left (fun acc f => match acc with Some r => Some r | None => f op args end) fs None.

Definition all_ops : list (string -> list string -> option string) :=
  [ ops_address;
    ops_amount;
    ops_basic;
    ops_codec;
    ops_curve;
    ops_extra;
    ops_hash;
    ops_json;
    ops_robust;
    ops_scan;
    ops_txid ].

Definition run_line (line : string) : string :=
  match words line with
  | op :: args => match first_some all_ops op args with Some r => r | None => "BADCASE" end
  | [] => "BADCASE"
  end.

(* evaluator A: indices (from 0) of the cases whose model result differs from `expected` *)
Fixpoint mismatches (i : N) (cases : list (string * string)) : list N :=
  match cases with
  | [] => []
  | (line, expected) :: t =>
      if String.eqb (run_line line) expected then mismatches (N.succ i) t
      else i :: mismatches (N.succ i) t
  end.
