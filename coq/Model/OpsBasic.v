(* OpsBasic.v — case-protocol entry points for varint (C14) and tags (C20). *)
From MRS Require Import Model.Base Model.Varint Model.Network Spec.Leb128.
From Coq Require Import String Ascii.
Open Scope string_scope.

Definition show_res {A} (show : A -> string) (r : res A) : string :=
  match r with Ok a => "OK " ++ show a | Err _ => "ERR" | Panic => "PANIC" end.

Definition consumed (input rest : bytes) : N := lenN input - lenN rest.

Definition net_of_string (s : string) : option network :=
  if String.eqb s "main" then Some Mainnet else if String.eqb s "test" then Some Testnet
  else if String.eqb s "stage" then Some Stagenet else None.
Definition string_of_net (n : network) : string :=
  match n with Mainnet => "main" | Testnet => "test" | Stagenet => "stage" end.
Definition atype_of_string (s : string) : option addr_type :=
  if String.eqb s "std" then Some Standard else if String.eqb s "sub" then Some SubAddress
  else if String.eqb s "int" then Some (Integrated (repeat x00 8)) else None.
Definition string_of_atype (t : addr_type) : string :=
  match t with Standard => "std" | SubAddress => "sub" | Integrated p => "int:" ++ show_hex p end.

Definition ops_basic (op : string) (args : list string) : option string :=
  if String.eqb op "varint_dec" then
    match args with
    | [h] => match parse_hex h with
             | Some b => let '(r, rest) := dec_varint b in
                         Some (show_res (fun n => show_N n ++ " " ++ show_N (consumed b rest)) r)
             | None => None end
    | _ => None end
  else if String.eqb op "varint_enc" then
    match args with
    | [n] => match parse_N n with
             | Some n => Some ("OK " ++ show_hex (enc_varint n) ++ " " ++ show_N (enc_varint_len n))
             | None => None end
    | _ => None end
  else if String.eqb op "varint_rt" then
    match args with
    | [n] => match parse_N n with
             | Some n => let e := enc_varint n in
                         let '(r, rest) := dec_varint e in
                         Some (match r, rest with
                               | Ok m, [] => "OK " ++ show_N m
                               | Ok m, _ => "OK " ++ show_N m ++ " leftover"
                               | Err _, _ => "ERR" | Panic, _ => "PANIC" end)
             | None => None end
    | _ => None end
  else if String.eqb op "varint_sweep" then
    (* exhaustive sweep: decode prefix ++ [b1; b2] for all 65536 (b1, b2); report the number accepted, the sum of the values,
       the sum of the consumed lengths and a rolling hash of every individual outcome (order: b1 major, b2 minor) *)
    match args with
    | [h] =>
        match parse_hex h with
        | Some pre =>
            let bytes256 := map N.of_nat (seq 0 256) in
            let step (b1 : N) (acc : N * N * N * N) (b2 : N) :=
              let '(nok, sv, sc, hh) := acc in
              let s := (pre ++ [n2b b1; n2b b2])%list in
              match dec_varint s with
              | (Ok v, rest) =>
                  let c := consumed s rest in
                  (nok + 1, sv + v, sc + c, (hh * 1000003 + (v * 16 + c)) mod 2305843009213693951)
              | _ => (nok, sv, sc, (hh * 1000003 + 1) mod 2305843009213693951)
              end in
            let '(nok, sv, sc, hh) :=
              fold_left (fun acc b1 => fold_left (step b1) bytes256 acc) bytes256 (0, 0, 0, 7) in
            Some ("OK " ++ show_N nok ++ " " ++ show_N sv ++ " " ++ show_N sc ++ " " ++ show_N hh)
        | None => None end
    | _ => None end
  else if String.eqb op "leb128" then
    match args with
    | [n] => match parse_N n with Some n => Some ("OK " ++ show_hex (leb128 n)) | None => None end
    | _ => None end
  else if String.eqb op "net_as" then
    match args with
    | [n; t] => match net_of_string n, atype_of_string t with
                | Some n, Some t => Some ("OK " ++ show_N (net_as_u8 n t))
                | _, _ => None end
    | _ => None end
  else if String.eqb op "net_from" then
    match args with
    | [b] => match parse_N b with
             | Some b => Some (match net_from_u8 b with Some n => "OK " ++ string_of_net n | None => "ERR" end)
             | None => None end
    | _ => None end
  else if String.eqb op "atype" then
    match args with
    | [n; h] => match net_of_string n, parse_hex h with
                | Some n, Some b => Some (show_res string_of_atype (atype_from_slice b n))
                | _, _ => None end
    | _ => None end
  else None.
