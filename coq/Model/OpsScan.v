(* OpsScan.v — protocol ops for output scanning (C07), amount recovery (C08) and key recovery (C09), run on the
   executable Ed25519 / Keccak instance:
     scan <entry: tx|prefix|checker|pchecker> <v> <S> <maj_lo> <maj_hi> <min_lo> <min_hi> <tx hex> [<keep_ecdh> <keep_outpk>]
          -> OK <n> (<pos> <maj> <min> <matched key> <amount|-> <mask|-> <commitment|->)* | ERR <kind> | ERR deser | ERR key
          (the optional last two arguments truncate rct_signatures.sig.{ecdh_info,out_pk} through the public fields)
     scan_recover <v> <s> <maj_lo> <maj_hi> <min_lo> <min_hi> <tx hex>
          -> OK <n> (<pos> <maj> <min> <matched key> <x> <x*G>)*          OwnedTxOut::recover_key on every owned output
     recover <v> <s> <tx key> <pos> <maj> <min>  -> OK <x> <x*G>         KeyRecoverer::new(..).recover(..)
     open <v> <S> <tx key> <pos> (es <mask32> <amount32> | eb <amount8>) <commitment>
          -> OK <amount> <mask> | NONE | NOPOINT                         EcdhInfo::open_commitment
     subkey_check <v> <S> <maj_lo> <maj_hi> <min_lo> <min_hi> <pos> <P> <tx key> -> OK <maj> <min> | NONE   SubKeyChecker::check
     txout_key <txout hex> -> OK <key|-> | ERR                          TxOut::get_one_time_key
     viewtag <target hex> <rv> <position> -> OK 0|1 | ERR | ERR key       TxOutTarget::check_view_tag
     build_scan <scenario> (MODEL ONLY)  runs Spec/Sender.v and assembles a transaction; see `p_scenario` below. *)
From MRS Require Import Model.Base Model.EdInst Model.Keys Model.Derive Model.Subaddr Model.Codec Model.Show Model.Extra
                        Model.Ecdh Model.Scan Model.OpsBasic Model.OpsCurve.
From MRS Require Spec.Sender Model.Keccak Model.Ed25519.
From Coq Require Import String Ascii.
Open Scope string_scope.
Open Scope list_scope.
Open Scope N_scope.

Definition Hbk : bytes -> bytes := Keccak.keccak256.

Definition err_name (e : scan_err) : string :=
  match e with
  | NoTxPublicKey => "NoTxPublicKey" | MissingEcdhInfo => "MissingEcdhInfo"
  | MissingCommitment => "MissingCommitment" | InvalidCommitment => "InvalidCommitment"
  end.
Definition opt_tok {A} (f : A -> string) (o : option A) : string := match o with Some a => f a | None => "-" end.

Definition show_owned (w : owned) : list string :=
  [show_N (ow_pos w); show_N (fst (ow_index w)); show_N (snd (ow_index w)); hx (ow_key w);
   opt_tok show_N (owned_amount w); opt_tok skx (owned_blinding_factor w);
   opt_tok (fun C => hx (compress C)) (owned_commitment w)].

Definition show_scan (r : sres (list owned)) : string :=
  match r with
  | SOk l => join_sp ("OK" :: show_N (lenN l) :: flat_map show_owned l)
  | SErr e => ("ERR " ++ err_name e)%string
  | SPanic => "PANIC"
  end.

(* truncation of the two vectors of the RingCT base through the public fields *)
Definition firstnN {A} (n : N) (l : list A) : list A := firstn (N.to_nat (N.min n (lenN l))) l.
Definition trunc_rct (k1 k2 : N) (t : tx) : tx :=
  match rct_base_of (tx_rct t) with
  | Some b => mk_tx (tx_prefix t) (tx_signatures t)
                (mk_rct (Some (mk_base (rb_type b) (rb_fee b) (rb_pseudo_outs b) (firstnN k1 (rb_ecdh b)) (firstnN k2 (rb_out_pk b))))
                        (rct_p (tx_rct t)))
  | None => t
  end.

Definition run_scan (entry : string) (v : Z) (Sp : bytes) (a b c d : N) (t : tx) : option (sres (list owned)) :=
  if String.eqb entry "tx" then Some (tx_check_outputs Hk Hbk v Sp a b c d t)
  else if String.eqb entry "prefix" then
    Some (prefix_check_outputs Hk Hbk v Sp a b c d (tx_prefix t) (rct_base_of (tx_rct t)))
  else if String.eqb entry "checker" then
    Some (match checker_new Hk v Sp a b c d with Ok tb => tx_check_outputs_with Hk Hbk tb v Sp t | _ => SPanic end)
  else if String.eqb entry "pchecker" then
    Some (match checker_new Hk v Sp a b c d with
          | Ok tb => check_outputs_with Hk Hbk tb v Sp (tx_prefix t) (rct_base_of (tx_rct t)) | _ => SPanic end)
  else None.

Definition op_scan (entry v Sp a b c d h : string) (trunc : option (string * string)) : option string :=
  with_hex v (fun v => with_hex Sp (fun Sp => with_u32 a (fun a => with_u32 b (fun b => with_u32 c (fun c =>
  with_u32 d (fun d => with_hex h (fun h =>
    match (match trunc with
           | None => Some None
           | Some (k1, k2) => match parse_N k1, parse_N k2 with
                              | Some k1, Some k2 => Some (Some (k1, k2)) | _, _ => None end
           end) with
    | None => None
    | Some tr =>
        match SK v, PK Sp with
        | Ok v, Ok Sp =>
            match deserialize (dec_tx default_sizes) h with
            | Ok t =>
                let t := match tr with Some (k1, k2) => trunc_rct k1 k2 t | None => t end in
                option_map show_scan (run_scan entry v Sp a b c d t)
            | Err _ => if String.eqb entry "tx" || String.eqb entry "prefix" || String.eqb entry "checker"
                          || String.eqb entry "pchecker" then Some "ERR deser" else None
            | Panic => Some "PANIC"
            end
        | Panic, _ | _, Panic => Some "PANIC"
        | _, _ => Some "ERR key"
        end
    end))))))).

(* x and x*G *)
Definition show_secret (x : Z) : list string := [skx x; hx (pk_from_priv x)].

Definition show_recovered (v s : Z) (w : owned) : res (list string) :=
  bindr (owned_recover_key Hk v s w) (fun x =>
    Ok ([show_N (ow_pos w); show_N (fst (ow_index w)); show_N (snd (ow_index w)); hx (ow_key w)] ++ show_secret x)).
Fixpoint map_res {A B} (f : A -> res B) (l : list A) : res (list B) :=
  match l with
  | [] => Ok []
  | a :: t => bindr (f a) (fun b => bindr (map_res f t) (fun r => Ok (b :: r)))
  end.

Definition op_scan_recover (v s a b c d h : string) : option string :=
  with_hex v (fun v => with_hex s (fun s => with_u32 a (fun a => with_u32 b (fun b => with_u32 c (fun c =>
  with_u32 d (fun d => with_hex h (fun h =>
    match SK v, SK s with
    | Ok v, Ok s =>
        match deserialize (dec_tx default_sizes) h with
        | Ok t =>
            Some (match tx_check_outputs Hk Hbk v (pk_from_priv s) a b c d t with
                  | SOk l => match map_res (show_recovered v s) l with
                             | Ok rows => join_sp ("OK" :: show_N (lenN l) :: List.concat rows)
                             | Err _ => "ERR" | Panic => "PANIC" end
                  | SErr e => ("ERR " ++ err_name e)%string
                  | SPanic => "PANIC"
                  end)
        | Err _ => Some "ERR deser"
        | Panic => Some "PANIC"
        end
    | Panic, _ | _, Panic => Some "PANIC"
    | _, _ => Some "ERR key"
    end))))))).

Definition op_recover (v s k pos maj min : string) : option string :=
  with_hex v (fun v => with_hex s (fun s => with_hex k (fun k => with_u64 pos (fun pos =>
  with_u32 maj (fun maj => with_u32 min (fun min =>
    Some (show_fields (bindr (SK v) (fun v => bindr (SK s) (fun s => bindr (PK k) (fun k =>
          bindr (recoverer_new v s k) (fun g => Ok (show_secret (recover Hk v s g pos (maj, min))))))))))))))).

Definition is_len (n : nat) (b : bytes) : bool := Nat.eqb (List.length b) n.

Definition op_open (v Sp k pos : string) (e : option ecdh) (c : string) : option string :=
  match e with
  | None => None
  | Some e =>
      with_hex v (fun v => with_hex Sp (fun Sp => with_hex k (fun k => with_u64 pos (fun pos => with_hex c (fun c =>
        if negb (is_len 32 c) then None else
        match SK v, PK Sp, PK k with
        | Ok v, Ok Sp, Ok k =>
            match decompress c with
            | None => Some "NOPOINT"
            | Some C =>
                Some (match open_commitment Hk Hbk e v Sp k pos C with
                      | Ok (Some (a, y, _)) => join_sp ["OK"; show_N a; skx y]
                      | Ok None => "NONE"
                      | Err _ => "ERR" | Panic => "PANIC" end)
            end
        | Panic, _, _ | _, Panic, _ | _, _, Panic => Some "PANIC"
        | _, _, _ => Some "ERR key"
        end)))))
  end.

Definition op_subkey_check (v Sp a b c d pos P k : string) : option string :=
  with_hex v (fun v => with_hex Sp (fun Sp => with_u32 a (fun a => with_u32 b (fun b => with_u32 c (fun c =>
  with_u32 d (fun d => with_u64 pos (fun pos => with_hex P (fun P => with_hex k (fun k =>
    match SK v, PK Sp, PK P, PK k with
    | Ok v, Ok Sp, Ok P, Ok k =>
        Some (match bindr (checker_new Hk v Sp a b c d) (fun tb => checker_check Hk tb v Sp pos P k) with
              | Ok (Some i) => join_sp ["OK"; show_N (fst i); show_N (snd i)]
              | Ok None => "NONE" | Err _ => "ERR" | Panic => "PANIC" end)
    | _, _, _, _ => Some "ERR key"
    end))))))))).

(* ---- build_scan: the sender of Spec/Sender.v on the executable instance ------------------------------------------------
   build_scan <v> <s> <r> <mb_sub 0|1> <mb_maj> <mb_min> <xstyle 0|1|2> <decoy 0|1> <nonce hex|-> <nadd none|k> <n> <out>^n <tx template>
     <out> ::= w <fv> <fs> <maj> <min> <usemain 0|1> <ri> <tag n|y|x> <clear amount> <amount> <mask> <ecdh xor hex|-> <commitment override hex|->
             | raw <key32> <tag n|0..255> <clear amount> <ri>
   (v, s): the wallet that will scan; r: the secret transaction key; the published main key is r*G (mb_sub = 0) or
   r*S_(mb_maj,mb_min) of that wallet (mb_sub = 1).  Output `w`: addressed to address (maj,min) of the wallet with secrets (fv, fs)
   (the scanning wallet or a foreign one), derived with r (usemain = 1) or with the per-output key ri (usemain = 0), target untagged /
   correctly tagged / wrongly tagged (tag + 1), hidden amount and mask.  The additional key published at a position is the key
   the output used (usemain = 0) or ri*G.  nadd: no AdditionalPublicKey field, or only the first k keys.  xstyle: 0 = tx key first,
   1 = nonce and additional keys before the tx key, 2 = no tx key at all.  The template (token form of Show.v) supplies version, inputs,
   RingCT type and the signature parts; its outputs, extra, ecdh_info and out_pk are replaced.
   Result: OK <tx hex> <main key> <n> (<P> <key used|-> <tag> <shared scalar|-> <ecdh bytes|-> <commitment|->)^n *)
Inductive sc_out :=
| OWallet (fv fs : Z) (maj min : N) (usemain : bool) (ri : Z) (tag : string) (clear amount : N) (mask : Z) (exor cov : bytes)
| ORaw (key : bytes) (tag : option N) (clear : N) (ri : Z).

Definition p_sc : ptok Z := b <~ p_b ;; pret (le2z b).
Definition p_bit : ptok bool := n <~ p_N ;; pret (negb (n =? 0)).
Definition p_fail {A} : ptok A := fun _ => None.
Definition p_out : ptok sc_out :=
  w <~ p_word ;;
  if String.eqb w "w" then
    fv <~ p_sc ;; fs <~ p_sc ;; maj <~ p_N ;; min <~ p_N ;; um <~ p_bit ;; ri <~ p_sc ;; tag <~ p_word ;;
    clear <~ p_N ;; amount <~ p_N ;; mask <~ p_sc ;; exor <~ p_b ;; cov <~ p_b ;;
    pret (OWallet fv fs maj min um ri tag clear amount mask exor cov)
  else if String.eqb w "raw" then
    key <~ p_b ;; tag <~ p_word ;; clear <~ p_N ;; ri <~ p_sc ;;
    (if String.eqb tag "n" then pret (ORaw key None clear ri)
     else match parse_N tag with Some t => pret (ORaw key (Some t) clear ri) | None => p_fail end)
  else p_fail.

Definition Gp : @point ed25519_ops := G.
Definition Hp : @point ed25519_ops := Ed25519.pt_or_zero (Ed25519.decompress Ed25519.H_bytes).
Definition pubG (s : Z) : bytes := compress (smul s Gp).

Fixpoint xor_bytes (a m : bytes) : bytes :=
  match a, m with
  | x :: a', y :: m' => n2b (N.lxor (b2n x) (b2n y)) :: xor_bytes a' m'
  | _, _ => a
  end.

(* one built output: target key, tag byte, key used, shared scalar, (ecdh, commitment), additional key published *)
Record built := mk_built {
  bl_out : txout; bl_P : bytes; bl_key : option bytes; bl_tag : N; bl_shared : option Z;
  bl_ecdh : option ecdh; bl_commit : option bytes; bl_add : bytes }.

(* enc: 0 = no RingCT data, 1 = legacy, 2 = compact *)
Definition build_out (enc : N) (r : Z) (i : N) (o : sc_out) : built :=
  match o with
  | ORaw key tag clear ri =>
      let tgt := match tag with None => TKey key | Some t => TTagged key t end in
      mk_built (mk_txout clear tgt) key None (match tag with Some t => t | None => 0 end) None
               (if enc =? 1 then Some (EStandard (repeat x00 32) (repeat x00 32))
                else if enc =? 2 then Some (EBulletproof (repeat x00 8)) else None)
               (if enc =? 0 then None else Some (compress Gp)) (pubG ri)
  | OWallet fv fs maj min usemain ri tag clear amount mask exor cov =>
      let d := Sender.wallet_address Hk fv (smul fs Gp) maj min in
      let rr := if usemain then r else ri in
      let snt := Sender.send Hk Hbk rr d i in
      let K := compress (Sender.sn_key snt) in
      let P := compress (Sender.sn_onetime snt) in
      let tb := b2n (Sender.sn_tag snt) in
      let tgt := if String.eqb tag "n" then TKey P
                 else if String.eqb tag "y" then TTagged P tb else TTagged P ((tb + 1) mod 256) in
      let sh := Sender.sn_shared snt in
      let ec :=
        if enc =? 1 then
          let '(m', a') := Sender.sender_legacy Hk amount mask sh in
          let x := xor_bytes (List.app m' a') exor in
          Some (EStandard (firstn 32 x) (skipn 32 x), compress (Sender.pedersen Hp mask amount))
        else if enc =? 2 then
          Some (EBulletproof (xor_bytes (Sender.sender_compact Hbk amount sh) exor),
                compress (Sender.pedersen Hp (Sender.gen_commitment_mask Hk sh) amount))
        else None in
      mk_built (mk_txout clear tgt) P (Some K) tb (Some sh)
               (option_map fst ec)
               (option_map (fun x => match cov with [] => snd x | _ => cov end) ec)
               (if usemain then pubG ri else K)
  end.

Fixpoint build_outs (enc : N) (r : Z) (i : N) (os : list sc_out) : list built :=
  match os with [] => [] | o :: t => build_out enc r i o :: build_outs enc r (i + 1) t end.

Definition enc_of_rct (rct : option rct_base) : N :=
  match rct with
  | None => 0
  | Some b => match rb_type b with
              | RNull => 0 | RFull | RSimple | RBulletproof => 1 | _ => 2 end
  end.

Definition ecdh_bytes (e : ecdh) : bytes := enc_ecdh e.

Definition show_built (b : built) : list string :=
  [hx (bl_P b); opt_tok hx (bl_key b); show_N (bl_tag b); opt_tok skx (bl_shared b);
   opt_tok (fun e => hx (ecdh_bytes e)) (bl_ecdh b); opt_tok hx (bl_commit b)].

Definition cat_some {A} (l : list (option A)) : list A :=
  flat_map (fun o => match o with Some a => [a] | None => [] end) l.

Definition p_scenario : ptok string :=
  v <~ p_sc ;; s <~ p_sc ;; r <~ p_sc ;; mb_sub <~ p_bit ;; mb_maj <~ p_N ;; mb_min <~ p_N ;;
  xstyle <~ p_N ;; decoy <~ p_bit ;; nonce <~ p_b ;; nadd <~ p_word ;;
  outs <~ p_list p_out ;; tpl <~ p_tx ;;
  match (if String.eqb nadd "none" then Some None else option_map Some (parse_N nadd)) with
  | None => p_fail
  | Some nadd =>
      let main :=
        if mb_sub then compress (Sender.tx_public_key r (Sender.wallet_address Hk v (smul s Gp) mb_maj mb_min))
        else pubG r in
      let rct := rct_base_of (tx_rct tpl) in
      let enc := enc_of_rct rct in
      let bs := build_outs enc r 0 outs in
      let f_pk := TxPublicKey main :: (if decoy then [TxPublicKey (pubG (r + 1))] else []) in
      let f_nonce := match nonce with [] => [] | _ => [Nonce nonce] end in
      let f_add := match nadd with None => [] | Some k => [AdditionalPublicKey (firstnN k (map bl_add bs))] end in
      let fields := if xstyle =? 0 then f_pk ++ f_nonce ++ f_add
                    else if xstyle =? 1 then f_nonce ++ f_add ++ f_pk
                    else f_nonce ++ f_add in
      let p := tx_prefix tpl in
      let p' := mk_prefix (version p) (unlock_time p) (inputs p) (map bl_out bs) (enc_fields fields) in
      let rct' := match rct with
                  | Some b => if enc =? 0 then Some b
                              else Some (mk_base (rb_type b) (rb_fee b) (rb_pseudo_outs b)
                                                 (cat_some (map bl_ecdh bs)) (cat_some (map bl_commit bs)))
                  | None => None
                  end in
      let t := mk_tx p' (tx_signatures tpl) (mk_rct rct' (rct_p (tx_rct tpl))) in
      pret (join_sp ("OK" :: hx (enc_tx t) :: hx main :: show_N (lenN bs) :: flat_map show_built bs))
  end.

Definition ops_scan (op : string) (args : list string) : option string :=
  if String.eqb op "scan" then
    match args with
    | [entry; v; Sp; a; b; c; d; h] => op_scan entry v Sp a b c d h None
    | [entry; v; Sp; a; b; c; d; h; k1; k2] => op_scan entry v Sp a b c d h (Some (k1, k2))
    | _ => None end
  else if String.eqb op "scan_recover" then
    match args with
    | [v; s; a; b; c; d; h] => op_scan_recover v s a b c d h
    | _ => None end
  else if String.eqb op "recover" then
    match args with
    | [v; s; k; pos; maj; min] => op_recover v s k pos maj min
    | _ => None end
  else if String.eqb op "open" then
    match args with
    | [v; Sp; k; pos; tag; m; a; c] =>
        if String.eqb tag "es" then
          op_open v Sp k pos (match parse_hex m, parse_hex a with
                             | Some m, Some a => if is_len 32 m && is_len 32 a then Some (EStandard m a) else None
                             | _, _ => None end) c
        else None
    | [v; Sp; k; pos; tag; a; c] =>
        if String.eqb tag "eb" then
          op_open v Sp k pos (match parse_hex a with
                             | Some a => if is_len 8 a then Some (EBulletproof a) else None
                             | None => None end) c
        else None
    | _ => None end
  else if String.eqb op "subkey_check" then
    match args with
    | [v; Sp; a; b; c; d; pos; P; k] => op_subkey_check v Sp a b c d pos P k
    | _ => None end
  else if String.eqb op "txout_key" then
    (* deserialize::<TxOut>(bytes), then TxOut::get_one_time_key: the target key when PublicKey::from_slice accepts it *)
    match args with
    | [h] => with_hex h (fun b =>
        Some (match deserialize dec_txout b with
              | Ok o => join_sp ["OK"; opt_tok hx (as_one_time_key (o_target o))]
              | Err _ => "ERR" | Panic => "PANIC" end))
    | _ => None end
  else if String.eqb op "viewtag" then
    (* TxOutTarget::check_view_tag called directly: deserialize::<TxOutTarget>(bytes), a derivation (any valid public key) and ANY
       position up to u64::MAX (the scanner only ever passes positions of real outputs) *)
    match args with
    | [h; rv; i] => with_hex h (fun b => with_hex rv (fun rv => with_u64 i (fun i =>
        Some (match deserialize dec_target b, PK rv with
              | Ok t, Ok rv => if check_view_tag Hbk t rv i then "OK 1" else "OK 0"
              | Panic, _ | _, Panic => "PANIC"
              | Err _, _ => "ERR"
              | _, Err _ => "ERR key" end))))
    | _ => None end
  else if String.eqb op "build_scan" then
    p_all p_scenario args
  else None.
