(* Amount.v — model of src/util/amount.rs (Denomination, parse_signed_to_piconero, Amount, SignedAmount).
   u64 / i64 values are unbounded Z with the width written out where Rust has one.  NO proofs here.

   Modelled std behaviour (validated by the correspondence check):
   * `str::len`, `starts_with('-')`, `&s[1..]`, `splitn(3, ' ')`, `chars()` are taken on the UTF-8 BYTES of the string.
     For a valid UTF-8 string this is the same as the char-level behaviour of the Rust code, because every character the
     code distinguishes ('-', '.', ' ', '0'..'9') is ASCII and every byte of a non-ASCII character is >= 0x80: the first
     byte of such a character is rejected exactly where the character would be (`InvalidCharacter`).
   * integer `Display` is `udigits` (no sign, no leading zero, "0" for 0); `{:0width$}` left-pads with '0' to `width`.
   * `u64/i64::checked_*` return None exactly on overflow / zero divisor / (MIN, -1) for the signed division;
     `i64::wrapping_rem` is the truncated remainder except (MIN, -1) -> 0, and panics for a zero divisor. *)
From MRS Require Export Model.Base.
From Coq Require Import String.
Open Scope list_scope.
Open Scope Z_scope.

(* ---- results ---------------------------------------------------------------------------------- *)
Inductive perr := ENegative | ETooBig | ETooPrecise | EInvalidFormat | EInputTooLarge | EInvalidCharacter
                | EUnknownDenomination.
Inductive ares (A : Type) := AOk (a : A) | AErr (e : perr) | APanic.
Arguments AOk {A} a. Arguments AErr {A} e. Arguments APanic {A}.

Definition abind {A B} (r : ares A) (k : A -> ares B) : ares B :=
  match r with AOk a => k a | AErr e => AErr e | APanic => APanic end.

(* Option::expect *)
Definition expect {A} (o : option A) : ares A := match o with Some a => AOk a | None => APanic end.

(* ---- fixed-width integers --------------------------------------------------------------------- *)
Definition U64MAX : Z := 2 ^ 64 - 1.
Definition I64MAX : Z := 2 ^ 63 - 1.
Definition I64MIN : Z := - 2 ^ 63.
Definition in_u64 (z : Z) : bool := (0 <=? z) && (z <=? U64MAX).
Definition in_i64 (z : Z) : bool := (I64MIN <=? z) && (z <=? I64MAX).

Definition u64_checked_add (a b : Z) : option Z := let r := a + b in if r <=? U64MAX then Some r else None.
Definition u64_checked_sub (a b : Z) : option Z := if b <=? a then Some (a - b) else None.
Definition u64_checked_mul (a b : Z) : option Z := let r := a * b in if r <=? U64MAX then Some r else None.
Definition u64_checked_div (a b : Z) : option Z := if b =? 0 then None else Some (a / b).
Definition u64_checked_rem (a b : Z) : option Z := if b =? 0 then None else Some (a mod b).

Definition i64_checked_add (a b : Z) : option Z := let r := a + b in if in_i64 r then Some r else None.
Definition i64_checked_sub (a b : Z) : option Z := let r := a - b in if in_i64 r then Some r else None.
Definition i64_checked_mul (a b : Z) : option Z := let r := a * b in if in_i64 r then Some r else None.
(* std: `if rhs == 0 || (self == MIN && rhs == -1) { None } else { Some(self / rhs) }`, `/` truncates *)
Definition i64_checked_div (a b : Z) : option Z :=
  if (b =? 0) || ((a =? I64MIN) && (b =? -1)) then None else Some (Z.quot a b).
(* std: `if rhs == -1 { 0 } else { self % rhs }`, panics for rhs == 0 *)
Definition i64_wrapping_rem (a b : Z) : ares Z :=
  if b =? 0 then APanic else if b =? -1 then AOk 0 else AOk (Z.rem a b).
Definition i64_checked_abs (a : Z) : option Z := if a =? I64MIN then None else Some (Z.abs a).
(* `as` casts between u64 and i64 *)
Definition as_i64 (a : Z) : Z := let m := a mod 2 ^ 64 in if m <? 2 ^ 63 then m else m - 2 ^ 64.
Definition as_u64 (a : Z) : Z := a mod 2 ^ 64.
(* unary minus / binary + - on a fixed-width type in expression position: overflow panics (dev) or wraps (release);
   every use below is on operands for which neither happens, and that is proved, not assumed *)
Definition i64_neg (a : Z) : ares Z := if a =? I64MIN then APanic else AOk (- a).
Definition u64_sub (a b : Z) : ares Z := expect (u64_checked_sub a b).
Definition u64_add (a b : Z) : ares Z := expect (u64_checked_add a b).

(* ---- Denomination ----------------------------------------------------------------------------- *)
Inductive denom := Monero | Millinero | Micronero | Nanonero | Piconero.

Definition precision (d : denom) : Z :=
  match d with Monero => -12 | Millinero => -9 | Micronero => -6 | Nanonero => -3 | Piconero => 0 end.

Definition bs (s : string) : bytes := bytes_of_string s.

Definition denom_display (d : denom) : bytes :=
  match d with
  | Monero => bs "xmr" | Millinero => bs "millinero" | Micronero => bs "micronero"
  | Nanonero => bs "nanonero" | Piconero => bs "piconero"
  end.

Fixpoint beq (a b : bytes) : bool :=
  match a, b with
  | [], [] => true
  | x :: a', y :: b' => Byte.eqb x y && beq a' b'
  | _, _ => false
  end.

(* "µXMR" is the five bytes c2 b5 58 4d 52 *)
Definition micro_xmr : bytes := [xc2; xb5; x58; x4d; x52].

Definition denom_from_str (s : bytes) : option denom :=
  if beq s (bs "xmr") || beq s (bs "XMR") || beq s (bs "monero") then Some Monero
  else if beq s (bs "millinero") || beq s (bs "mXMR") then Some Millinero
  else if beq s (bs "micronero") || beq s micro_xmr || beq s (bs "mcXMR") then Some Micronero
  else if beq s (bs "nanonero") || beq s (bs "nXMR") then Some Nanonero
  else if beq s (bs "piconero") || beq s (bs "pXMR") then Some Piconero
  else None.

(* ---- characters ------------------------------------------------------------------------------- *)
Definition bz (b : byte) : Z := Z.of_N (b2n b).
Definition is_digit (b : byte) : bool := (48 <=? bz b) && (bz b <=? 57).
Definition is_dot (b : byte) : bool := bz b =? 46.
Definition is_minus (b : byte) : bool := bz b =? 45.
Definition is_space (b : byte) : bool := bz b =? 32.
Definition is_zero_char (b : byte) : bool := bz b =? 48.

(* ---- parse_signed_to_piconero ----------------------------------------------------------------- *)
(* fn is_too_precise(s, precision): contains('.') || precision >= s.len() || last `precision` chars any != '0'
   (only called from the `precision_diff < 0` branch, which no denomination reaches) *)
Definition is_too_precise (s : bytes) (n : nat) : bool :=
  existsb is_dot s || Nat.leb (List.length s) n
  || existsb (fun b => negb (is_zero_char b)) (skipn (List.length s - n) s).

(* the `for c in s.chars()` loop; `decimals : Option<i32>`, `value : u64` *)
Fixpoint parse_loop (max_decimals : Z) (s : bytes) (decimals : option Z) (value : Z) : ares (option Z * Z) :=
  match s with
  | [] => AOk (decimals, value)
  | c :: t =>
      if is_digit c then
        match u64_checked_mul 10 value with
        | None => AErr ETooBig
        | Some v =>
            match u64_checked_add v (bz c - 48) with
            | None => AErr ETooBig
            | Some v' =>
                match decimals with
                | None => parse_loop max_decimals t None v'
                | Some d => if d <? max_decimals then parse_loop max_decimals t (Some (d + 1)) v'
                            else AErr ETooPrecise
                end
            end
        end
      else if is_dot c then
        match decimals with
        | None => parse_loop max_decimals t (Some 0) value
        | Some _ => AErr EInvalidFormat
        end
      else AErr EInvalidCharacter
  end.

(* `for _ in 0..scale_factor { value = 10.checked_mul(value)? }` *)
Fixpoint rescale (k : nat) (value : Z) : ares Z :=
  match k with
  | O => AOk value
  | S k' => match u64_checked_mul 10 value with Some v => rescale k' v | None => AErr ETooBig end
  end.

Definition parse_prec (prec : Z) (s0 : bytes) : ares (bool * Z) :=
  match s0 with
  | [] => AErr EInvalidFormat
  | c0 :: t0 =>
      if Nat.ltb 50 (List.length s0) then AErr EInputTooLarge
      else
        let is_negative := is_minus c0 in
        if is_negative && Nat.eqb (List.length s0) 1 then AErr EInvalidFormat
        else
          let s := if is_negative then t0 else s0 in
          let precision_diff := - prec in
          abind (if precision_diff <? 0 then
                   let last_n := Z.to_nat (Z.abs precision_diff) in
                   if is_too_precise s last_n then AErr ETooPrecise
                   else AOk (firstn (List.length s - last_n) s, 0)
                 else AOk (s, precision_diff))
            (fun '(s, max_decimals) =>
               abind (parse_loop max_decimals s None 0)
                 (fun '(decimals, value) =>
                    let scale_factor := max_decimals - match decimals with Some d => d | None => 0 end in
                    abind (rescale (Z.to_nat scale_factor) value) (fun v => AOk (is_negative, v))))
  end.

Definition parse_signed_to_piconero (s : bytes) (d : denom) : ares (bool * Z) := parse_prec (precision d) s.

(* Amount::from_str_in *)
Definition amount_from_str_in (s : bytes) (d : denom) : ares Z :=
  abind (parse_signed_to_piconero s d)
    (fun '(negative, piconero) =>
       if negative then AErr ENegative
       else if piconero >? I64MAX then AErr ETooBig
       else AOk piconero).

(* SignedAmount::from_str_in: `-(piconero as i64)` / `piconero as i64` *)
Definition signed_from_str_in (s : bytes) (d : denom) : ares Z :=
  abind (parse_signed_to_piconero s d)
    (fun '(negative, piconero) =>
       if piconero >? I64MAX then AErr ETooBig
       else if negative then i64_neg (as_i64 piconero) else AOk (as_i64 piconero)).

(* s.splitn(3, ' '): first piece, second piece, and whether a third exists *)
Fixpoint split_space (s : bytes) : bytes * option bytes :=
  match s with
  | [] => ([], None)
  | c :: t => if is_space c then ([], Some t)
              else let '(a, r) := split_space t in (c :: a, r)
  end.

Definition from_str_with_denomination (from_str_in : bytes -> denom -> ares Z) (s : bytes) : ares Z :=
  let '(amt_str, rest) := split_space s in
  match rest with
  | None => AErr EInvalidFormat
  | Some r =>
      let '(denom_str, third) := split_space r in
      match third with
      | Some _ => AErr EInvalidFormat
      | None => match denom_from_str denom_str with
                | None => AErr EUnknownDenomination
                | Some d => from_str_in amt_str d
                end
      end
  end.

Definition amount_from_str : bytes -> ares Z := from_str_with_denomination amount_from_str_in.
Definition signed_from_str : bytes -> ares Z := from_str_with_denomination signed_from_str_in.

(* ---- formatting ------------------------------------------------------------------------------- *)
Definition digit_char (d : Z) : byte := n2b (Z.to_N (48 + d)).

(* u64 Display: at most 20 digits, so 20 rounds always suffice *)
Fixpoint udigits_aux (fuel : nat) (n : Z) (acc : bytes) : bytes :=
  match fuel with
  | O => acc
  | S f => let acc' := digit_char (n mod 10) :: acc in
           if n <? 10 then acc' else udigits_aux f (n / 10) acc'
  end.
Definition udigits (n : Z) : bytes := udigits_aux 20 n [].

Definition zero_char : byte := x30.
Definition dot_char : byte := x2e.
Definition minus_char : byte := x2d.
Definition space_char : byte := x20.

(* `{:0width$}` *)
Definition zpad (width : nat) (ds : bytes) : bytes := repeat zero_char (width - List.length ds) ++ ds.

Definition fmt_piconero_in (piconero : Z) (negative : bool) (d : denom) : ares bytes :=
  let sign := if negative then [minus_char] else [] in
  let prec := precision d in
  if 0 <? prec then                                  (* Ordering::Greater: no denomination reaches it *)
    AOk (sign ++ udigits piconero ++ zpad (Z.to_nat prec) (udigits 0))
  else if prec <? 0 then
    let nb := Z.to_nat (Z.abs prec) in
    let real := zpad nb (udigits piconero) in
    if Nat.ltb (List.length real) nb then APanic      (* real.len() - nb_decimals *)
    else if Nat.eqb (List.length real) nb then
      AOk (sign ++ [zero_char; dot_char] ++ skipn (List.length real - nb) real)
    else
      AOk (sign ++ firstn (List.length real - nb) real ++ [dot_char] ++ skipn (List.length real - nb) real)
  else AOk (sign ++ udigits piconero).

Definition amount_to_string_in (a : Z) (d : denom) : ares bytes := fmt_piconero_in a false d.

(* SignedAmount::fmt_value_in *)
Definition signed_picos (a : Z) : ares Z :=
  match i64_checked_abs a with
  | Some x => AOk (as_u64 x)
  | None => abind (u64_sub U64MAX (as_u64 a)) (fun t => u64_add t 1)
  end.
Definition signed_to_string_in (a : Z) (d : denom) : ares bytes :=
  abind (signed_picos a) (fun p => fmt_piconero_in p (a <? 0) d).

Definition with_suffix (r : ares bytes) (d : denom) : ares bytes :=
  abind r (fun s => AOk (s ++ [space_char] ++ denom_display d)).

Definition amount_to_string_with_denomination (a : Z) (d : denom) := with_suffix (amount_to_string_in a d) d.
Definition signed_to_string_with_denomination (a : Z) (d : denom) := with_suffix (signed_to_string_in a d) d.
Definition amount_display (a : Z) := amount_to_string_with_denomination a Monero.
Definition signed_display (a : Z) := signed_to_string_with_denomination a Monero.

(* ---- arithmetic (C18) ------------------------------------------------------------------------- *)
Inductive aop := OAdd | OSub | OMul | ODiv | ORem.

(* Amount::checked_* *)
Definition amount_checked (o : aop) (a b : Z) : ares (option Z) :=
  AOk (match o with
       | OAdd => u64_checked_add a b | OSub => u64_checked_sub a b | OMul => u64_checked_mul a b
       | ODiv => u64_checked_div a b | ORem => u64_checked_rem a b
       end).

(* SignedAmount::checked_*; checked_rem is hand-written: zero test, then wrapping_rem *)
Definition signed_checked_rem (a b : Z) : ares (option Z) :=
  if b =? 0 then AOk None else abind (i64_wrapping_rem a b) (fun r => AOk (Some r)).
Definition signed_checked (o : aop) (a b : Z) : ares (option Z) :=
  match o with
  | OAdd => AOk (i64_checked_add a b) | OSub => AOk (i64_checked_sub a b) | OMul => AOk (i64_checked_mul a b)
  | ODiv => AOk (i64_checked_div a b) | ORem => signed_checked_rem a b
  end.

(* impl ops::{Add,Sub,Mul,Div,Rem}: `self.checked_x(rhs).expect(..)`; the assigning forms are `*self = *self op rhs` *)
Definition amount_operator (o : aop) (a b : Z) : ares Z := abind (amount_checked o a b) expect.
Definition amount_assign (o : aop) (a b : Z) : ares Z := amount_operator o a b.
Definition signed_operator (o : aop) (a b : Z) : ares Z := abind (signed_checked o a b) expect.
Definition signed_assign (o : aop) (a b : Z) : ares Z := signed_operator o a b.

(* Amount::to_signed *)
Definition amount_to_signed (a : Z) : ares Z := if a >? as_u64 I64MAX then AErr ETooBig else AOk (as_i64 a).
(* SignedAmount::to_unsigned *)
Definition signed_to_unsigned (a : Z) : ares Z := if a <? 0 then AErr ENegative else AOk (as_u64 a).
(* SignedAmount::positive_sub *)
Definition signed_positive_sub (a b : Z) : option Z :=
  if (a <? 0) || (b <? 0) || (b >? a) then None else i64_checked_sub a b.
Definition signed_checked_abs (a : Z) : option Z := i64_checked_abs a.
Definition signed_signum (a : Z) : Z := Z.sgn a.
Definition signed_is_positive (a : Z) : bool := 0 <? a.
Definition signed_is_negative (a : Z) : bool := a <? 0.
