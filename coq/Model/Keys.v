(* Keys.v — model of src/util/key.rs: PrivateKey / PublicKey acceptance, operators, hex and consensus forms.
   A PrivateKey is its scalar (an integer in [0,l)); a PublicKey is its 32 stored bytes (CompressedEdwardsY) —
   the struct has a public field, so the stored bytes need not decompress: `PublicKey::point()` then panics.
   Definitions only; no proofs here. *)
From MRS Require Export Model.EdClass.
Open Scope Z_scope.

(* ---- secret keys (concrete arithmetic, independent of the curve class) ---------------------------------- *)
(* PrivateKey::from_slice: length test, then Scalar::from_canonical_bytes (accepts iff the LE integer is < l) *)
Definition sk_from_slice (k : bytes) : res Z :=
  if negb (Nat.eqb (List.length k) 32) then Err EBad
  else if le2z k <? ell then Ok (le2z k) else Err EBad.
(* to_bytes / as_bytes *)
Definition sk_to_bytes (s : Z) : bytes := z2le 32 s.
(* Scalar + Scalar, Scalar * Scalar (always reduced), PrivateKey * u8 *)
Definition sk_add (a b : Z) : Z := (a + b) mod ell.
Definition sk_mul (a b : Z) : Z := (a * b) mod ell.
Definition sk_mul_u8 (a : Z) (n : N) : Z := (a * Z.of_N (n mod 256)) mod ell.

(* ---- hex (the `hex` crate: decode accepts both cases, rejects odd length; encode is lowercase) ------------- *)
Open Scope N_scope.
Definition hex_val (c : byte) : option N :=
  let n := b2n c in
  if (48 <=? n) && (n <=? 57) then Some (n - 48)
  else if (97 <=? n) && (n <=? 102) then Some (n - 87)
  else if (65 <=? n) && (n <=? 70) then Some (n - 55)
  else None.
Fixpoint hex_decode_pairs (s : bytes) : res bytes :=
  match s with
  | [] => Ok []
  | a :: b :: t =>
      match hex_val a, hex_val b with
      | Some x, Some y => match hex_decode_pairs t with
                          | Ok r => Ok (n2b (16 * x + y) :: r)
                          | other => other end
      | _, _ => Err EBad
      end
  | _ => Err EBad
  end.
Definition hex_decode (s : bytes) : res bytes :=
  if Nat.odd (List.length s) then Err EBad else hex_decode_pairs s.
Definition hex_digit (n : N) : byte := n2b (if n <? 10 then 48 + n else 87 + n).
Fixpoint hex_encode (bs : bytes) : bytes :=
  match bs with
  | [] => []
  | b :: t => hex_digit (b2n b / 16) :: hex_digit (b2n b mod 16) :: hex_encode t
  end.
Open Scope Z_scope.

(* Display / FromStr / consensus codec of PrivateKey *)
Definition sk_to_string (s : Z) : bytes := hex_encode (sk_to_bytes s).
Definition sk_from_str (s : bytes) : res Z := bindr (hex_decode s) sk_from_slice.
Definition lift_res {A} (r : res A) : dec A := fun s => (r, s).
Definition dec_sk : dec Z := k <- read_n 32 ;; lift_res (sk_from_slice k).
Definition enc_sk (s : Z) : bytes := sk_to_bytes s.

Section Keys.
Context {E : EdOps}.

(* ---- public keys ---------------------------------------------------------------------------------------- *)
(* PublicKey::from_slice: 32 bytes, decompresses, and the recompressed point gives back the same bytes *)
Definition pk_from_slice (k : bytes) : res bytes :=
  if negb (Nat.eqb (List.length k) 32) then Err EBad
  else match decompress k with
       | Some P => if bytes_eqb (compress P) k then Ok k else Err EBad
       | None => Err EBad
       end.
(* PublicKey::point(): `.decompress().expect(..)` *)
Definition pk_point (k : bytes) : res point :=
  match decompress k with Some P => Ok P | None => Panic end.
(* PublicKey::from_private_key *)
Definition pk_from_priv (s : Z) : bytes := compress (smul s G).
(* Add / Sub for PublicKey (all four reference combinations are the same code) *)
Definition pk_add (a b : bytes) : res bytes :=
  bindr (pk_point a) (fun P => bindr (pk_point b) (fun Q => Ok (compress (padd P Q)))).
Definition pk_sub (a b : bytes) : res bytes :=
  bindr (pk_point a) (fun P => bindr (pk_point b) (fun Q => Ok (compress (psub P Q)))).
(* PrivateKey * &PublicKey, &PrivateKey * &PublicKey, PublicKey * &PrivateKey *)
Definition sk_mul_pk (s : Z) (a : bytes) : res bytes :=
  bindr (pk_point a) (fun P => Ok (compress (smul s P))).
(* == on PublicKey compares the stored bytes *)
Definition pk_eqb (a b : bytes) : bool := bytes_eqb a b.

(* Display / FromStr / consensus codec of PublicKey *)
Definition pk_to_string (k : bytes) : bytes := hex_encode k.
Definition pk_from_str (s : bytes) : res bytes := bindr (hex_decode s) pk_from_slice.
Definition dec_pk : dec bytes := k <- read_n 32 ;; lift_res (pk_from_slice k).
Definition enc_pk (k : bytes) : bytes := k.

End Keys.
