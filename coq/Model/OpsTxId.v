(* OpsTxId.v — protocol ops for C05. *)
From MRS Require Import Model.Base Model.Codec Model.Ed25519 Model.Keccak Model.TxId Model.BlockId Spec.TxIdSpec Model.OpsCodec Model.Show.
From Coq Require Import String Ascii.
Open Scope string_scope.

Definition ops_txid (op : string) (args0 : list string) : option string :=
  let '(sz, args) := take_sizes args0 in
  if String.eqb op "txid" then
    (* id and prefix hash of the PARSED transaction, as the library computes them *)
    match args with
    | [h] => match parse_hex h with
             | Some b => Some (match deserialize (dec_tx sz) b with
                               | Ok t => "OK " ++ show_hex (tx_hash keccak256 t) ++ " " ++ show_hex (prefix_hash keccak256 (tx_prefix t))
                               | Err _ => "ERR" | Panic => "PANIC" end)
             | None => None end
    | _ => None end
  else if String.eqb op "txid_spec" then
    (* MODEL-ONLY: Monero's identifier computed from the bytes (Spec/TxIdSpec.v) *)
    match args with
    | [h] => match parse_hex h with
             | Some b => Some (match spec_id keccak256 sz b, spec_prefix_hash keccak256 sz b with
                               | Some i, Some p => "OK " ++ show_hex i ++ " " ++ show_hex p
                               | _, _ => "ERR" end)
             | None => None end
    | _ => None end
  else if String.eqb op "txhash_desc" then
    (* Hashable::hash of a transaction VALUE given in token form (also values no byte string parses to, e.g. a non-Null
       RingCT type without its prunable part): Transaction::hash and TransactionPrefix::hash are total *)
    match p_all p_tx args with
    | Some t => Some ("OK " ++ show_hex (tx_hash keccak256 t) ++ " " ++ show_hex (prefix_hash keccak256 (tx_prefix t)))
    | None => None end
  else if String.eqb op "trait_h2s" then
    (* the trait default method Hashable::hash_to_scalar = int_le(self.hash()) mod l, for PublicKey / Transaction / TransactionPrefix *)
    match args with
    | [T; h] =>
        match parse_hex h with
        | Some b =>
            if String.eqb T "pk" then
              Some (if Ed25519.pk_valid b then "OK " ++ show_hex (scalar_bytes (h2s (keccak256 b))) else "ERR")
            else if String.eqb T "tx" then
              Some (match deserialize (dec_tx sz) b with
                    | Ok t => "OK " ++ show_hex (scalar_bytes (h2s (tx_hash keccak256 t)))
                    | Err _ => "ERR" | Panic => "PANIC" end)
            else if String.eqb T "prefix" then
              Some (match deserialize (dec_prefix sz) b with
                    | Ok t => "OK " ++ show_hex (scalar_bytes (h2s (prefix_hash keccak256 t)))
                    | Err _ => "ERR" | Panic => "PANIC" end)
            else None
        | None => None end
    | _ => None end
  else if String.eqb op "blockfull" then
    (* a complete block from its bytes: Block::tx_root, serialize_hashable, id of the PARSED block *)
    match args with
    | [h] => match parse_hex h with
             | Some b => Some (match deserialize (dec_block sz) b with
                               | Ok blk =>
                                   match block_tx_root keccak256 blk, block_hashable keccak256 blk, block_id_of keccak256 blk with
                                   | Ok root, Ok blob, Ok id => "OK " ++ show_hex root ++ " " ++ show_hex blob ++ " " ++ show_hex id
                                   | Panic, _, _ | _, Panic, _ | _, _, Panic => "PANIC"
                                   | _, _, _ => "ERR" end
                               | Err _ => "ERR" | Panic => "PANIC" end)
             | None => None end
    | _ => None end
  else None.
