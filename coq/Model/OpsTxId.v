(* OpsTxId.v — protocol ops for C05. *)
From MRS Require Import Model.Base Model.Codec Model.Keccak Model.TxId Spec.TxIdSpec Model.OpsCodec.
From Coq Require Import String Ascii.
Open Scope string_scope.

Definition ops_txid (op : string) (args0 : list string) : option string :=
  let '(sz, args) := take_sizes args0 in
  if String.eqb op "txid" then
    (* id and prefix hash of the PARSED transaction, as the library computes them *)
    match args with
    | [h] => match parse_hex h with
             | Some b => Some (match deserialize (dec_tx sz) b with
                               | Ok t => "OK " ++ show_hex (tx_hash keccak256 t) ++ " " ++ show_hex (prefix_hash keccak256 (tx_prefix t))
                               | Err _ => "ERR" | Panic => "PANIC" end)
             | None => None end
    | _ => None end
  else if String.eqb op "txid_spec" then
    (* MODEL-ONLY: Monero's identifier computed from the bytes (Spec/TxIdSpec.v) *)
    match args with
    | [h] => match parse_hex h with
             | Some b => Some (match spec_id keccak256 sz b, spec_prefix_hash keccak256 sz b with
                               | Some i, Some p => "OK " ++ show_hex i ++ " " ++ show_hex p
                               | _, _ => "ERR" end)
             | None => None end
    | _ => None end
  else None.
