(* Base58.v — model of base58-monero 2.1.0, src/base58.rs: `encode`, `decode`, `encode_block`, `decode_block`.
   Text is modelled as the list of its UTF-8 bytes (`decode` works on `data.as_bytes()`).  NO proofs here. *)
From Coq Require Import String.
From MRS Require Export Model.Base.
Open Scope list_scope.
Open Scope N_scope.

(* BASE58_CHARS *)
Definition alphabet : bytes :=
  bytes_of_string "123456789ABCDEFGHJKLMNPQRSTUVWXYZabcdefghijkmnopqrstuvwxyz"%string.
(* ENCODED_BLOCK_SIZES; FULL_BLOCK_SIZE = 8; FULL_ENCODED_BLOCK_SIZE = 11 *)
Definition enc_sizes : list nat := [0; 2; 3; 5; 6; 7; 9; 10; 11]%nat.

(* BASE58_CHARS[remainder] with remainder = num % 58: the index is below the table length by construction *)
Definition b58_char (d : N) : byte := nth (N.to_nat d) alphabet x00.

(* alpha.iter().position(|&x| x == c) *)
Fixpoint index_of (c : byte) (l : bytes) : option N :=
  match l with
  | [] => None
  | x :: t => if Byte.eqb x c then Some 0 else option_map N.succ (index_of c t)
  end.

(* ENCODED_BLOCK_SIZES.iter().position(|&x| x == n) *)
Fixpoint position_nat (n : nat) (l : list nat) : option nat :=
  match l with
  | [] => None
  | x :: t => if Nat.eqb x n then Some O else option_map S (position_nat n t)
  end.

(* u8be_to_u64: res = res << 8 | b  on u64 (the shift drops the high byte; no overflow check on `<<`) *)
Definition u8be_to_u64 (data : bytes) : N :=
  fold_left (fun res b => N.lor (N.shiftl res 8 mod 2 ^ 64) (b2n b)) data 0.

(* the `while i > 0` loop of encode_block: digits are written from position i-1 down to 0 *)
Fixpoint enc_loop (i : nat) (num : N) (acc : bytes) : bytes :=
  match i with
  | O => acc
  | S i' => enc_loop i' (num / 58) (b58_char (num mod 58) :: acc)
  end.

(* encode_block: an 11-character array pre-filled with '1' *)
Definition encode_block (data : bytes) : res bytes :=
  let n := List.length data in
  if Nat.eqb n 0 || Nat.ltb 8 n then Err EBad            (* InvalidBlockSize *)
  else
    let k := nth n enc_sizes 0%nat in
    Ok (enc_loop k (u8be_to_u64 data) [] ++ repeat x31 (11 - k)).

(* slice::chunks(n): fuel = length of the input (every chunk takes at least one element when n >= 1) *)
Fixpoint chunks_f {A} (fuel n : nat) (l : list A) : list (list A) :=
  match fuel with
  | O => []
  | S f => match l with
           | [] => []
           | _ => firstn n l :: chunks_f f n (skipn n l)
           end
  end.
Definition chunks {A} (n : nat) (l : list A) : list (list A) := chunks_f (List.length l) n l.

(* `.map(f).collect::<Result<Vec<_>>>()`: the first failure wins *)
Fixpoint collect {A} (l : list (res A)) : res (list A) :=
  match l with
  | [] => Ok []
  | Ok a :: t => match collect t with Ok r => Ok (a :: r) | Err e => Err e | Panic => Panic end
  | Err e :: _ => Err e
  | Panic :: _ => Panic
  end.

(* the for_each of `encode`: block number `full_block_count` (if it exists) is cut to last_block_size *)
Fixpoint emit (i full last : nat) (vs : list bytes) : bytes :=
  match vs with
  | [] => []
  | v :: t => (if Nat.eqb i full then firstn last v else v) ++ emit (S i) full last t
  end.

Definition b58_encode (data : bytes) : res bytes :=
  let len := List.length data in
  let last := nth (len mod 8)%nat enc_sizes 0%nat in
  let full := (len / 8)%nat in
  match collect (map encode_block (chunks 8 data)) with
  | Ok vs => Ok (emit 0 full last vs)
  | Err e => Err e
  | Panic => Panic
  end.

(* the try_for_each of decode_block over data.iter().rev(): res: u128 (never exceeds 58^11), order: Wrapping<u128> *)
Fixpoint dec_loop (rdata : bytes) (order res : N) : option N :=
  match rdata with
  | [] => Some res
  | c :: t => match index_of c alphabet with
              | Some digit => dec_loop t ((order * 58) mod 2 ^ 128) (res + order * digit)
              | None => None                               (* InvalidSymbol *)
              end
  end.

Definition n2be (k : nat) (n : N) : bytes := rev (n2le k n).

(* decode_block: (data: [u8; 8] big endian, size) *)
Definition decode_block (data : bytes) : res (bytes * nat) :=
  let n := List.length data in
  if Nat.ltb 11 n then Err EBad                            (* InvalidBlockSize *)
  else match position_nat n enc_sizes with
       | None => Err EBad                                  (* InvalidBlockSize *)
       | Some size =>
           match dec_loop (rev data) 1 0 with
           | None => Err EBad                              (* InvalidSymbol *)
           | Some r =>
               let max : res N :=
                 if Nat.eqb size 8 then Ok (2 ^ 64)
                 else if Nat.leb size 7 then Ok (N.shiftl 1 (N.of_nat (size * 8)))
                 else Panic                                (* unreachable!() *) in
               match max with
               | Ok m => if r <? m then Ok (n2be 8 (r mod 2 ^ 64), size) else Err EBad   (* Overflow *)
               | Err e => Err e
               | Panic => Panic
               end
           end
       end.

(* decode: &c.data[FULL_BLOCK_SIZE - c.size..] of every block, concatenated *)
Definition b58_decode (s : bytes) : res bytes :=
  match collect (map decode_block (chunks 11 s)) with
  | Ok bl => Ok (flat_map (fun c => skipn (8 - snd c) (fst c)) bl)
  | Err e => Err e
  | Panic => Panic
  end.
