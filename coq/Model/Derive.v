(* Derive.v — model of src/cryptonote/onetime_key.rs: KeyGenerator (from_key, from_random, get_rvn_scalar,
   one_time_key, check) and the candidate spend key of SubKeyChecker::check.
   As the source is NOW: rv = Scalar(8) * (a * B), two PrivateKey * &PublicKey products, i.e. the inner product is
   compressed and decompressed again before the multiplication by 8 (the cofactor is applied to the point).
   Definitions only; no proofs here. *)
From MRS Require Export Model.Keys Model.Varint.
Open Scope Z_scope.

Section Derive.
Context {E : EdOps}.
Variable Hs : hs_fun.      (* Hash::hash_to_scalar: bytes -> scalar *)

(* MONERO_MUL_FACTOR = 8;  PrivateKey::from_scalar(Scalar::from(8u8)) * &(a * &B) *)
Definition key_derive (a : Z) (B : bytes) : res bytes :=
  bindr (sk_mul_pk a B) (fun t => sk_mul_pk 8 t).

(* a KeyGenerator is (spend, rv) *)
Definition from_random (view spend : bytes) (random : Z) : res (bytes * bytes) :=
  bindr (key_derive random view) (fun rv => Ok (spend, rv)).
Definition from_key (view : Z) (spend : bytes) (random : bytes) : res (bytes * bytes) :=
  bindr (key_derive view random) (fun rv => Ok (spend, rv)).

(* get_rvn_scalar: Hs (rv ++ varint (index as u64)); usize is 64 bits *)
Definition rvn_preimage (rv : bytes) (index : N) : bytes := enc_pk rv ++ enc_varint (index mod 2 ^ 64)%N.
Definition get_rvn_scalar (g : bytes * bytes) (index : N) : Z := Hs (rvn_preimage (snd g) index).

(* one_time_key: from_private_key(Hs(..)) + spend *)
Definition one_time_key (g : bytes * bytes) (index : N) : res bytes :=
  pk_add (pk_from_priv (get_rvn_scalar g index)) (fst g).

(* check: key == one_time_key(index) *)
Definition otk_check (g : bytes * bytes) (index : N) (key : bytes) : res bool :=
  bindr (one_time_key g index) (fun k => Ok (pk_eqb key k)).

(* the key looked up by SubKeyChecker::check: P - Hs(rv ++ n) * G *)
Definition candidate_spend (g : bytes * bytes) (index : N) (key : bytes) : res bytes :=
  pk_sub key (pk_from_priv (get_rvn_scalar g index)).

End Derive.
