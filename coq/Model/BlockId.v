(* BlockId.v — Block::tx_root / serialize_hashable / id of a PARSED block (src/blockdata/block.rs), composed from the
   transaction hash (Model/TxId.v) and the tree hash (Model/TreeHash.v). *)
From MRS Require Export Model.Codec Model.TxId Model.TreeHash Model.Keccak.
Open Scope N_scope.

Section BlockId.
  Variable H : bytes -> bytes.
  Definition block_tx_root (b : block) : res bytes :=
    tx_root H (tx_hash H (miner_tx b)) (tx_hashes b).
  Definition block_hashable (b : block) : res bytes :=
    hashable_blob H (enc_header (blk_header b)) (tx_hash H (miner_tx b)) (tx_hashes b).
  Definition block_id_of (b : block) : res bytes :=
    block_id H (enc_header (blk_header b)) (tx_hash H (miner_tx b)) (tx_hashes b).
End BlockId.
