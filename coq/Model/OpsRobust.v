(* OpsRobust.v — protocol ops for C04 (robustness):
     parsed_ops [@sizes] <tx|block|prefix|header> <hex>
         implementation: deserialize_partial::<T>, then every public operation on the parsed value;
         model: OK / ERR from the decoder alone (the operations on parsed values are total: Props/C04.v)
     psyn [@sizes] <T> <prefix hex> <unit hex> <count> <suffix hex>
         the same on  prefix ++ unit^count ++ suffix;  the model evaluates inputs up to 2 MiB and answers SKIP above
         (the python oracle carries the expected outcome of those few cases)
     parsed_scan [@sizes] <tx|block|prefix> <hex> <maj_lo> <maj_hi> <min_lo> <min_hi>
         implementation: output scanning of whatever parses with those sub-address index ranges (u32, table <= 4096 entries);
         model: OK / ERR from the decoder alone
     hexparse <hash|hash8|pid> <text as hex>    Hash / Hash8 / PaymentId :: from_hex  (hex crate: both cases, optional 0x)
     denom <text as hex>                        Denomination::from_str *)
From MRS Require Import Model.Base Model.Varint Model.Codec Model.OpsCodec.
From Coq Require Import String Ascii.
Open Scope string_scope.
Open Scope list_scope.
Open Scope N_scope.

Definition robust_ty (T : string) : bool :=
  String.eqb T "tx" || String.eqb T "block" || String.eqb T "prefix" || String.eqb T "header".

Definition accept_reject (sz : sizes) (T : string) (b : bytes) : option string :=
  if robust_ty T then
    match lookup_ty T with
    | Some (AnyTy d _ _ _ _) =>
        Some (match d sz b with (Ok _, _) => "OK" | (Err _, _) => "ERR" | (Panic, _) => "PANIC" end)
    | None => None
    end
  else None.

(* unit^count *)
Fixpoint repeat_app (n : nat) (u : bytes) (tail : bytes) : bytes :=
  match n with O => tail | S k => u ++ repeat_app k u tail end.

Definition PSYN_MODEL_MAX : N := 2 * 1024 * 1024.

(* ---- hex crate: <[u8; k]>::from_hex after stripping one leading "0x" --------------------------- *)
Definition hexval (b : byte) : option N :=
  let n := b2n b in
  if (48 <=? n) && (n <=? 57) then Some (n - 48)
  else if (97 <=? n) && (n <=? 102) then Some (n - 87)
  else if (65 <=? n) && (n <=? 70) then Some (n - 55)
  else None.
Fixpoint unhex_text (t : bytes) : option bytes :=
  match t with
  | [] => Some []
  | a :: b :: r =>
      match hexval a, hexval b, unhex_text r with
      | Some x, Some y, Some l => Some (n2b (16 * x + y) :: l)
      | _, _, _ => None
      end
  | _ => None
  end.
Definition strip_0x (t : bytes) : bytes :=
  match t with x30 :: x78 :: r => r | _ => t end.
Definition fixed_from_hex (k : nat) (t : bytes) : option bytes :=
  match unhex_text (strip_0x t) with
  | Some b => if Nat.eqb (List.length b) k then Some b else None
  | None => None
  end.

(* ---- Denomination::from_str ---------------------------------------------------------------------- *)
Fixpoint beq (a b : bytes) : bool :=
  match a, b with
  | [], [] => true
  | x :: a', y :: b' => Byte.eqb x y && beq a' b'
  | _, _ => false
  end.
Definition denom_names : list (bytes * string) :=
  [ (bytes_of_string "xmr", "xmr"); (bytes_of_string "XMR", "xmr"); (bytes_of_string "monero", "xmr");
    (bytes_of_string "millinero", "millinero"); (bytes_of_string "mXMR", "millinero");
    (bytes_of_string "micronero", "micronero"); (xc2 :: xb5 :: bytes_of_string "XMR", "micronero");
    (bytes_of_string "mcXMR", "micronero");
    (bytes_of_string "nanonero", "nanonero"); (bytes_of_string "nXMR", "nanonero");
    (bytes_of_string "piconero", "piconero"); (bytes_of_string "pXMR", "piconero") ].
Definition denom_from_str (t : bytes) : option string :=
  match find (fun p => beq (fst p) t) denom_names with Some p => Some (snd p) | None => None end.

Definition ops_robust (op : string) (args0 : list string) : option string :=
  if String.eqb op "parsed_ops" then
    let '(sz, args) := take_sizes args0 in
    match args with
    | [T; h] => match parse_hex h with Some b => accept_reject sz T b | None => None end
    | _ => None end
  else if String.eqb op "parsed_scan" then
    let '(sz, args) := take_sizes args0 in
    match args with
    | [T; h; a; b; c; d] =>
        match parse_hex h, parse_N a, parse_N b, parse_N c, parse_N d with
        | Some bs, Some a, Some b, Some c, Some d =>
            if (a <? 2 ^ 32) && (b <? 2 ^ 32) && (c <? 2 ^ 32) && (d <? 2 ^ 32) && (b - a <=? 4096) && (d - c <=? 4096) && ((b - a) * (d - c) <=? 4096)
               && negb (String.eqb T "header")
            then accept_reject sz T bs else None
        | _, _, _, _, _ => None end
    | _ => None end
  else if String.eqb op "psyn" then
    let '(sz, args) := take_sizes args0 in
    match args with
    | [T; p; u; c; s] =>
        match parse_hex p, parse_hex u, parse_N c, parse_hex s with
        | Some p, Some u, Some c, Some s =>
            if PSYN_MODEL_MAX <? lenN p + lenN u * c + lenN s then
              (if robust_ty T then Some "SKIP" else None)
            else accept_reject sz T (p ++ repeat_app (N.to_nat c) u s)
        | _, _, _, _ => None end
    | _ => None end
  else if String.eqb op "hexparse" then
    match args0 with
    | [T; h] =>
        match parse_hex h with
        | Some t =>
            let k := if String.eqb T "hash" then Some 32%nat
                     else if String.eqb T "hash8" then Some 8%nat
                     else if String.eqb T "pid" then Some 8%nat else None in
            match k with
            | Some k => Some (match fixed_from_hex k t with Some b => String.append "OK " (show_hex b) | None => "ERR" end)
            | None => None end
        | None => None end
    | _ => None end
  else if String.eqb op "denom" then
    match args0 with
    | [h] => match parse_hex h with
             | Some t => Some (match denom_from_str t with Some n => String.append "OK " n | None => "ERR" end)
             | None => None end
    | _ => None end
  else None.
