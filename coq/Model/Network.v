(* Network.v — model of src/network.rs and AddressType::from_slice (src/util/address.rs). *)
From MRS Require Export Model.Base.
Open Scope N_scope.

Inductive network := Mainnet | Stagenet | Testnet.
Inductive addr_type := Standard | Integrated (pid : bytes) | SubAddress.

(* Network::as_u8 *)
Definition net_as_u8 (n : network) (t : addr_type) : N :=
  match n with
  | Mainnet => match t with Standard => 18 | Integrated _ => 19 | SubAddress => 42 end
  | Testnet => match t with Standard => 53 | Integrated _ => 54 | SubAddress => 63 end
  | Stagenet => match t with Standard => 24 | Integrated _ => 25 | SubAddress => 36 end
  end.

(* Network::from_u8 *)
Definition net_from_u8 (b : N) : option network :=
  if (b =? 18) || (b =? 19) || (b =? 42) then Some Mainnet
  else if (b =? 53) || (b =? 54) || (b =? 63) then Some Testnet
  else if (b =? 24) || (b =? 25) || (b =? 36) then Some Stagenet
  else None.

(* AddressType::from_slice.  Errors: Encoding (too short) / InvalidMagicByte are both `Err`;
   the slice `bytes[65..73]` is guarded by the explicit length test, so no Panic arm is reachable —
   it is nevertheless modelled (slice out of range = Panic) and proved unreachable. *)
Definition slice {A} (l : list A) (a b : nat) : res (list A) :=
  if Nat.leb a b && Nat.leb b (List.length l) then Ok (firstn (b - a) (skipn a l)) else Panic.

Definition integrated_of (bs : bytes) : res addr_type :=
  if Nat.ltb (List.length bs) 73 then Err EBad
  else match slice bs 65 73 with
       | Ok pid => Ok (Integrated pid)
       | Err e => Err e
       | Panic => Panic
       end.

Definition atype_from_slice (bs : bytes) (n : network) : res addr_type :=
  match bs with
  | [] => Err EBad
  | b0 :: _ =>
      let byte := b2n b0 in
      match n with
      | Mainnet =>
          if byte =? 18 then Ok Standard else if byte =? 19 then integrated_of bs
          else if byte =? 42 then Ok SubAddress else Err EBad
      | Testnet =>
          if byte =? 53 then Ok Standard else if byte =? 54 then integrated_of bs
          else if byte =? 63 then Ok SubAddress else Err EBad
      | Stagenet =>
          if byte =? 24 then Ok Standard else if byte =? 25 then integrated_of bs
          else if byte =? 36 then Ok SubAddress else Err EBad
      end
  end.
