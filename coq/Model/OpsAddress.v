(* OpsAddress.v — case-protocol entry points for base58 and Address (C12).
   Instances: H := Keccak.keccak256, valid_pk := Ed25519.pk_valid. *)
From MRS Require Import Model.Base Model.Network Model.Base58 Model.Address Model.Keccak Model.Ed25519 Model.OpsBasic.
From MRS Require Model.EdInst Model.Keys.
From Coq Require Import String Ascii.
Open Scope string_scope.
Open Scope N_scope.

Definition kaddr_as_bytes := addr_as_bytes keccak256.
Definition kaddr_from_bytes := addr_from_bytes keccak256 pk_valid.
Definition kaddr_to_string := addr_to_string keccak256.
Definition kaddr_from_str := addr_from_str keccak256 pk_valid.
Definition kaddr_as_hex := addr_as_hex keccak256.
Definition kaddr_from_hex := addr_from_hex keccak256 pk_valid.
Definition kaddr_consensus_encode := addr_consensus_encode keccak256.
Definition kaddr_deserialize := addr_deserialize keccak256 pk_valid.

(* "std" | "sub" | "int:<8 bytes hex>" *)
Definition atype_of_desc (s : string) : option addr_type :=
  if String.eqb s "std" then Some Standard
  else if String.eqb s "sub" then Some SubAddress
  else match s with
       | String "i" (String "n" (String "t" (String ":" h))) =>
           match parse_hex h with
           | Some p => if Nat.eqb (List.length p) 8 then Some (Integrated p) else None
           | None => None
           end
       | _ => None
       end.

(* hex::ToHex::encode_hex_upper: the digits a..f of the lower-case form in upper case *)
Definition upper_hex_byte (c : byte) : byte :=
  let n := b2n c in if (97 <=? n) && (n <=? 102) then n2b (n - 32) else c.
(* Display for AddressType *)
Definition atype_display (t : addr_type) : bytes :=
  bytes_of_string (match t with
                   | Standard => "Standard address"
                   | Integrated _ => "Integrated address"
                   | SubAddress => "Subaddress"
                   end).
(* PublicKey::from_private_key on the executable Ed25519 instance *)
Definition pub_of (s : Z) : bytes := @Keys.pk_from_priv EdInst.ed25519_ops s.

Definition show_addr (r : res addr) : string :=
  match r with
  | Ok a =>
      match kaddr_to_string a with
      | Ok text =>
          "OK " ++ string_of_net (a_net a) ++ " " ++ string_of_atype (a_type a) ++ " " ++
          show_hex (a_spend a) ++ " " ++ show_hex (a_view a) ++ " " ++
          show_hex (kaddr_as_bytes a) ++ " " ++ show_hex text
      | _ => "PANIC"
      end
  | Err _ => "ERR"
  | Panic => "PANIC"
  end.

Definition with_hex (args : list string) (f : bytes -> string) : option string :=
  match args with
  | [h] => match parse_hex h with Some b => Some (f b) | None => None end
  | _ => None
  end.

Definition ops_address (op : string) (args : list string) : option string :=
  if String.eqb op "b58_enc" then
    with_hex args (fun b => show_res show_hex (b58_encode b))
  else if String.eqb op "b58_dec" then
    with_hex args (fun s => show_res show_hex (b58_decode s))
  else if String.eqb op "addr_from_bytes" then
    with_hex args (fun b => show_addr (kaddr_from_bytes b))
  else if String.eqb op "addr_from_str" then
    with_hex args (fun s => show_addr (kaddr_from_str s))
  else if String.eqb op "addr_from_hex" then
    with_hex args (fun s => show_addr (kaddr_from_hex s))
  else if String.eqb op "addr_dec" then
    with_hex args (fun b => show_addr (kaddr_deserialize b))
  else if String.eqb op "addr_fmt" then
    match args with
    | [n; t; s; v] =>
        match net_of_string n, atype_of_desc t, parse_hex s, parse_hex v with
        | Some n, Some t, Some s, Some v =>
            if Nat.eqb (List.length s) 32 && Nat.eqb (List.length v) 32 then
              let a := mkaddr n t s v in
              Some (match kaddr_to_string a with
                    | Ok text => "OK " ++ show_hex (kaddr_as_bytes a) ++ " " ++ show_hex text ++ " " ++
                                 show_hex (kaddr_as_hex a) ++ " " ++ show_hex (kaddr_consensus_encode a) ++ " " ++
                                 (* ToHex::encode_hex, ToHex::encode_hex_upper, Display for AddressType *)
                                 show_hex (kaddr_as_hex a) ++ " " ++ show_hex (map upper_hex_byte (kaddr_as_hex a)) ++ " " ++
                                 show_hex (atype_display t)
                    | _ => "PANIC"
                    end)
            else None
        | _, _, _, _ => None
        end
    | _ => None
    end
  else if String.eqb op "addr_of_keys" then
    (* Address::from_keypair(net, &KeyPair{view, spend}) and Address::from_viewpair(net, &ViewPair{view, spend: pub(spend)}):
       the standard address of (spend*G, view*G); both texts *)
    match args with
    | [n; v; s] =>
        match net_of_string n, parse_hex v, parse_hex s with
        | Some n, Some v, Some s =>
            Some (match Keys.sk_from_slice v, Keys.sk_from_slice s with
                  | Ok v, Ok s =>
                      match kaddr_to_string (mkaddr n Standard (pub_of s) (pub_of v)) with
                      | Ok text => "OK " ++ show_hex text ++ " " ++ show_hex text
                      | _ => "PANIC"
                      end
                  | _, _ => "ERR"
                  end)
        | _, _, _ => None
        end
    | _ => None
    end
  else None.
