(* OpsCurve.v — case-protocol entry points for keys (C13), key derivation (C10) and subaddresses (C11),
   run on the executable Ed25519 / Keccak instance (Model/EdInst.v). *)
From MRS Require Import Model.Base Model.EdInst Model.Keys Model.Derive Model.Subaddr Model.OpsBasic.
From MRS Require Model.Keccak.
From Coq Require Import String Ascii.
Open Scope string_scope.
Open Scope N_scope.

Definition with_hex (h : string) (k : bytes -> option string) : option string :=
  match parse_hex h with Some b => k b | None => None end.
Definition with_N (h : string) (k : N -> option string) : option string :=
  match parse_N h with Some b => k b | None => None end.
Definition with_u32 (h : string) (k : N -> option string) : option string :=
  match parse_N h with Some b => if b <? 2 ^ 32 then k b else None | None => None end.
Definition with_u64 (h : string) (k : N -> option string) : option string :=
  match parse_N h with Some b => if b <? 2 ^ 64 then k b else None | None => None end.

Definition show_bool (b : bool) : string := if b then "1" else "0".
Definition show_fields (r : res (list string)) : string := show_res join_sp r.
Definition net_opt_of_string (s : string) : option (option network) :=
  if String.eqb s "none" then Some None
  else match net_of_string s with Some n => Some (Some n) | None => None end.

(* keys as the harness obtains them: through from_slice *)
Definition SK (b : bytes) : res Z := sk_from_slice b.
Definition PK (b : bytes) : res bytes := pk_from_slice b.
Definition Hk := hs_keccak.
Definition hx (b : bytes) : string := show_hex b.
Definition skx (s : Z) : string := show_hex (sk_to_bytes s).

Definition op_key_forms (r : res bytes) (to_s : bytes -> bytes) : string :=
  show_fields (bindr r (fun k => Ok [hx k; string_of_bytes (to_s k); hx k])).

Definition ops_keys (op : string) (args : list string) : option string :=
  if String.eqb op "sk" then
    match args with
    | [h] => with_hex h (fun b => Some (show_fields (bindr (SK b) (fun s =>
               (* bytes, Display, consensus bytes, bytes via TryFrom<&[u8]>, via TryFrom<[u8;32]>, to_string() *)
               Ok [skx s; string_of_bytes (sk_to_string s); hx (enc_sk s); skx s; skx s;
                   string_of_bytes (sk_to_string s)]))))
    | _ => None end
  else if String.eqb op "sk_str" then
    match args with
    | [h] => with_hex h (fun b => Some (show_fields (bindr (sk_from_str b) (fun s => Ok [skx s]))))
    | _ => None end
  else if String.eqb op "sk_dec" then
    match args with
    | [h] => with_hex h (fun b => let '(r, rest) := dec_sk b in
               Some (show_fields (bindr r (fun s => Ok [skx s; show_N (consumed b rest)]))))
    | _ => None end
  else if String.eqb op "pk" then
    match args with
    | [h] => with_hex h (fun b => Some (show_fields (bindr (PK b) (fun k =>
               (* bytes, Display, consensus bytes, bytes via TryFrom<&[u8]>, via TryFrom<[u8;32]>, to_string(), Debug *)
               Ok [hx k; string_of_bytes (pk_to_string k); hx (enc_pk k); hx k; hx k;
                   string_of_bytes (pk_to_string k); string_of_bytes (pk_to_string k)]))))
    | _ => None end
  else if String.eqb op "pk_hash" then
    (* Hashable::hash(&PublicKey) = Keccak-256 of the 32 key bytes *)
    match args with
    | [h] => with_hex h (fun b => Some (show_fields (bindr (PK b) (fun k => Ok [hx (Keccak.keccak256 k)]))))
    | _ => None end
  else if String.eqb op "viewpair" then
    (* ViewPair::from(KeyPair{view,spend}) and ViewPair::from(&KeyPair{..}): view, spend; then from_private_key(&spend) *)
    match args with
    | [v; s] => with_hex v (fun v => with_hex s (fun s =>
        Some (show_fields (bindr (SK v) (fun v => bindr (SK s) (fun s =>
          let S := pk_from_priv s in Ok [skx v; hx S; skx v; hx S; hx S]))))))
    | _ => None end
  else if String.eqb op "pk_str" then
    match args with
    | [h] => with_hex h (fun b => Some (show_fields (bindr (pk_from_str b) (fun k => Ok [hx k]))))
    | _ => None end
  else if String.eqb op "pk_dec" then
    match args with
    | [h] => with_hex h (fun b => let '(r, rest) := dec_pk b in
               Some (show_fields (bindr r (fun k => Ok [hx k; show_N (consumed b rest)]))))
    | _ => None end
  else if String.eqb op "pkop" then
    match args with
    | [o; x; y] =>
        with_hex x (fun x => with_hex y (fun y =>
          if String.eqb o "add" then
            Some (show_fields (bindr (PK x) (fun p => bindr (PK y) (fun q => bindr (pk_add p q) (fun r => Ok [hx r])))))
          else if String.eqb o "sub" then
            Some (show_fields (bindr (PK x) (fun p => bindr (PK y) (fun q => bindr (pk_sub p q) (fun r => Ok [hx r])))))
          else if String.eqb o "mul" then
            (* PrivateKey * &PublicKey and PublicKey * &PrivateKey *)
            Some (show_fields (bindr (SK x) (fun s => bindr (PK y) (fun q => bindr (sk_mul_pk s q) (fun r =>
                                Ok [hx r; hx r])))))
          else None))
    | [o; x] =>
        if String.eqb o "frompriv" then
          with_hex x (fun x => Some (show_fields (bindr (SK x) (fun s => Ok [hx (pk_from_priv s)]))))
        else None
    | _ => None end
  else if String.eqb op "pkraw" then
    (* PublicKey { point: CompressedEdwardsY(bytes) } built through the public field, no validation *)
    match args with
    | [o; x; y] =>
        with_hex x (fun x => with_hex y (fun y =>
          if negb (Nat.eqb (List.length y) 32) then None
          else if String.eqb o "add" then
            if negb (Nat.eqb (List.length x) 32) then None else
            Some (show_fields (bindr (pk_add x y) (fun r => Ok [hx r])))
          else if String.eqb o "sub" then
            if negb (Nat.eqb (List.length x) 32) then None else
            Some (show_fields (bindr (pk_sub x y) (fun r => Ok [hx r])))
          else if String.eqb o "mul" then
            Some (show_fields (bindr (SK x) (fun s => bindr (sk_mul_pk s y) (fun r => Ok [hx r]))))
          else None))
    | _ => None end
  else if String.eqb op "skop" then
    match args with
    | [o; x; y] =>
        if String.eqb o "add" then
          with_hex x (fun x => with_hex y (fun y =>
            Some (show_fields (bindr (SK x) (fun a => bindr (SK y) (fun b => Ok [skx (sk_add a b)]))))))
        else if String.eqb o "mul" then
          with_hex x (fun x => with_hex y (fun y =>
            Some (show_fields (bindr (SK x) (fun a => bindr (SK y) (fun b => Ok [skx (sk_mul a b)]))))))
        else if String.eqb o "mulu8" then
          with_hex x (fun x => with_N y (fun n => if n <? 256 then
            Some (show_fields (bindr (SK x) (fun a => Ok [skx (sk_mul_u8 a n)]))) else None))
        else None
    | _ => None end
  else if String.eqb op "ident" then
    (* pub(a+b), pub a + pub b, a*(b*G), pub(ab), (A+B)-B, A *)
    match args with
    | [x; y] => with_hex x (fun x => with_hex y (fun y =>
        Some (show_fields (bindr (SK x) (fun a => bindr (SK y) (fun b =>
          let A := pk_from_priv a in let B := pk_from_priv b in
          bindr (pk_add A B) (fun AB =>
          bindr (sk_mul_pk a B) (fun aB =>
          bindr (pk_sub AB B) (fun back =>
          Ok [hx (pk_from_priv (sk_add a b)); hx AB; hx aB; hx (pk_from_priv (sk_mul a b)); hx back; hx A])))))))))
    | _ => None end
  else if String.eqb op "torsion" then
    match args with
    | [i] => with_N i (fun i => if i <? 8 then Some ("OK " ++ hx (compress (tors (Z.of_N i)))) else None)
    | _ => None end
  else None.

Definition ops_derive (op : string) (args : list string) : option string :=
  if String.eqb op "derive" then
    (* KeyGenerator::from_key(..).rv and KeyGenerator::from_random(..).rv, spend key = basepoint *)
    match args with
    | [a; b] => with_hex a (fun a => with_hex b (fun b =>
        let dummy := pk_from_priv 1%Z in
        Some (show_fields (bindr (SK a) (fun a => bindr (PK b) (fun b =>
              bindr (from_key a dummy b) (fun g1 => bindr (from_random b dummy a) (fun g2 =>
              Ok [hx (snd g1); hx (snd g2)]))))))))
    | _ => None end
  else if String.eqb op "onetime" then
    (* from_key((a, S), B): one_time_key(i), get_rvn_scalar(i), check(i, P), P - Hs(..)G *)
    match args with
    | [s; a; b; i] => with_hex s (fun s => with_hex a (fun a => with_hex b (fun b => with_u64 i (fun i =>
        Some (show_fields (bindr (PK s) (fun s => bindr (SK a) (fun a => bindr (PK b) (fun b =>
              bindr (from_key a s b) (fun g =>
              bindr (one_time_key Hk g i) (fun p =>
              bindr (otk_check Hk g i p) (fun c =>
              bindr (candidate_spend Hk g i p) (fun cand =>
              Ok [hx p; skx (get_rvn_scalar Hk g i); show_bool c; hx cand])))))))))))))
    | _ => None end
  else if String.eqb op "sendrecv" then
    (* sender: from_random(vG, S, r).one_time_key(i); receiver: from_key((v, S), rG).check(i, P) and P - Hs(..)G *)
    match args with
    | [r; v; s; i] => with_hex r (fun r => with_hex v (fun v => with_hex s (fun s => with_u64 i (fun i =>
        Some (show_fields (bindr (SK r) (fun r => bindr (SK v) (fun v => bindr (PK s) (fun s =>
              let R := pk_from_priv r in let V := pk_from_priv v in
              bindr (from_random V s r) (fun g1 =>
              bindr (one_time_key Hk g1 i) (fun p =>
              bindr (from_key v s R) (fun g2 =>
              bindr (otk_check Hk g2 i p) (fun c =>
              bindr (candidate_spend Hk g2 i p) (fun cand =>
              Ok [hx R; hx p; show_bool c; hx cand]))))))))))))))
    | _ => None end
  else None.

Definition ops_subaddr (op : string) (args : list string) : option string :=
  if String.eqb op "subaddr" then
    (* all seven derivation functions for wallet (v, s), S = sG *)
    match args with
    | [v; s; i; j; n] => with_hex v (fun v => with_hex s (fun s => with_u32 i (fun i => with_u32 j (fun j =>
        match net_opt_of_string n with
        | None => None
        | Some net =>
          Some (show_fields (bindr (SK v) (fun v => bindr (SK s) (fun s =>
            let idx := (i, j) in
            let S := pk_from_priv s in
            let '(v2, s2) := get_secret_keys Hk v s idx in
            bindr (get_spend_public_key Hk v S idx) (fun Sp =>
            bindr (get_public_keys Hk v S idx) (fun '(Vp, Sp2) =>
            bindr (get_subaddress Hk v S idx net) (fun ad =>
            Ok [skx (get_secret_scalar Hk v idx); skx (get_spend_secret_key Hk v s idx);
                skx (get_view_secret_key Hk v s idx); skx v2; skx s2;
                hx Sp; hx Vp; hx Sp2;
                string_of_net (sa_network ad); string_of_atype (sa_type ad); hx (sa_spend ad); hx (sa_view ad)])))))))
        end))))
    | _ => None end
  else None.

Definition ops_curve (op : string) (args : list string) : option string :=
  match ops_keys op args with
  | Some r => Some r
  | None => match ops_derive op args with
            | Some r => Some r
            | None => ops_subaddr op args
            end
  end.
