(* Codec.v — model of the consensus codec of monero-rs:
     src/consensus/encode.rs (primitives, arrays, Vec<T>, Box<[T]>, sized vectors, allocation cap),
     src/blockdata/transaction.rs (TxIn, TxOutTarget, TxOut, TransactionPrefix, Transaction),
     src/util/ringct.rs (Key, Key64, CtKey, EcdhInfo, BoroSig, RangeSig, MgSig, Clsag, Bulletproof,
                         BulletproofPlus, RctSigBase, RctSigPrunable, RctType, Signature),
     src/blockdata/block.rs (BlockHeader, Block), src/cryptonote/hash.rs (Hash, Hash8).
   One decoder and one encoder per type, mirroring the Rust control flow.  NO proofs here. *)
From MRS Require Export Model.Base Model.Varint.
Open Scope N_scope.

(* ---- layout constants entering the allocation cap ------------------------------------------ *)
(* mem::size_of::<T>() of the vector element types whose size is a matter of struct layout.
   The decoders take the table as a parameter; all codec theorems hold for every table. *)
Record sizes := mk_sizes {
  sz_txin : N; sz_txout : N; sz_rangesig : N; sz_bulletproof : N; sz_bpplus : N }.
Definition default_sizes : sizes := mk_sizes 64 48 6176 336 240.

Definition MAX_VEC_MEM_ALLOC_SIZE : N := 32 * 1024 * 1024.

(* `mem::size_of::<T>().saturating_mul(len) > MAX`; on N the product cannot wrap, and the comparison
   with 32 MiB is the same with or without saturation at 2^64-1 *)
Definition over_cap (size len : N) : bool := MAX_VEC_MEM_ALLOC_SIZE <? size * len.

(* ---- primitives -------------------------------------------------------------------------------- *)
Definition dec_u8 : dec N := dmap b2n read_u8.
Definition enc_u8 (n : N) : bytes := [n2b n].

Definition dec_uint (k : nat) : dec N := dmap le2n (read_n k).     (* read_exact of k bytes, LE *)
Definition enc_uint (k : nat) (n : N) : bytes := n2le k n.
Definition dec_u16 := dec_uint 2.  Definition dec_u32 := dec_uint 4.  Definition dec_u64 := dec_uint 8.

(* signed integers travel as their two's-complement bit pattern (the model keeps the unsigned pattern);
   bool: read_i8 != 0 on input, `v as u8` on output *)
Definition dec_bool : dec bool := dmap (fun n => negb (n =? 0)) dec_u8.
Definition enc_bool (b : bool) : bytes := enc_u8 (if b then 1 else 0).

(* fixed arrays of bytes: [u8; N] decodes element-wise through u8 *)
Definition dec_arr (k : nat) : dec bytes := read_n k.
Definition enc_arr (b : bytes) : bytes := b.

Definition dec_hash := dec_arr 32.     (* Hash, Key, KeyImage, CtKey: newtypes around [u8;32] *)
Definition dec_hash8 := dec_arr 8.
Definition dec_key64 := dec_arr 2048.  (* Key64 = 64 consecutive Keys *)

(* VarInt -> usize (usize is 64 bits: try_from never fails) *)
Definition dec_len : dec N := dec_varint.

(* Vec<T> / Box<[T]>: varint length, allocation cap, then `len` elements *)
Definition dec_vec {A} (size : N) (d : dec A) : dec (list A) :=
  n <- dec_len ;; if over_cap size n then fail EBad else rep n d.
Definition enc_list {A} (e : A -> bytes) (l : list A) : bytes := flat_map e l.
Definition enc_vec {A} (e : A -> bytes) (l : list A) : bytes := enc_varint (lenN l) ++ enc_list e l.

(* consensus_decode_sized_vec *)
Definition dec_sized {A} (size : N) (n : N) (d : dec A) : dec (list A) :=
  if over_cap size n then fail EBad else rep n d.

Definition dec_bytes_vec : dec bytes := dec_vec 1 read_u8.           (* Vec<u8> *)
Definition enc_bytes_vec (b : bytes) : bytes := enc_varint (lenN b) ++ b.

(* ---- String: Vec<u8> then String::from_utf8 (well-formed UTF-8 per RFC 3629 / Unicode table 3-7:
   no overlong forms, no surrogates U+D800..U+DFFF, nothing above U+10FFFF) ---------------------------- *)
Fixpoint utf8_valid (fuel : nat) (s : list N) : bool :=
  match fuel with
  | O => match s with [] => true | _ => false end
  | S f =>
      let cont b := (128 <=? b) && (b <=? 191) in
      match s with
      | [] => true
      | b0 :: r =>
          if b0 <=? 127 then utf8_valid f r
          else if (194 <=? b0) && (b0 <=? 223) then
            match r with b1 :: r' => cont b1 && utf8_valid f r' | _ => false end
          else if b0 =? 224 then
            match r with b1 :: b2 :: r' => (160 <=? b1) && (b1 <=? 191) && cont b2 && utf8_valid f r' | _ => false end
          else if ((225 <=? b0) && (b0 <=? 236)) || (b0 =? 238) || (b0 =? 239) then
            match r with b1 :: b2 :: r' => cont b1 && cont b2 && utf8_valid f r' | _ => false end
          else if b0 =? 237 then
            match r with b1 :: b2 :: r' => (128 <=? b1) && (b1 <=? 159) && cont b2 && utf8_valid f r' | _ => false end
          else if b0 =? 240 then
            match r with b1 :: b2 :: b3 :: r' => (144 <=? b1) && (b1 <=? 191) && cont b2 && cont b3 && utf8_valid f r' | _ => false end
          else if (241 <=? b0) && (b0 <=? 243) then
            match r with b1 :: b2 :: b3 :: r' => cont b1 && cont b2 && cont b3 && utf8_valid f r' | _ => false end
          else if b0 =? 244 then
            match r with b1 :: b2 :: b3 :: r' => (128 <=? b1) && (b1 <=? 143) && cont b2 && cont b3 && utf8_valid f r' | _ => false end
          else false
      end
  end.
Definition is_utf8 (b : bytes) : bool := utf8_valid (S (List.length b)) (map b2n b).
Definition dec_string : dec bytes :=
  b <- dec_bytes_vec ;; if is_utf8 b then ret b else fail EBad.
Definition enc_string (b : bytes) : bytes := enc_bytes_vec b.

(* MultisigKlrki { K, L, R, ki } and MultisigOut { c: Vec<Key> } (impl_consensus_encoding!) *)
Record multisig_klrki := mk_klrki { mk_K : bytes; mk_L : bytes; mk_R : bytes; mk_ki : bytes }.
Definition dec_klrki : dec multisig_klrki :=
  K <- dec_hash ;; L <- dec_hash ;; R <- dec_hash ;; ki <- dec_hash ;; ret (mk_klrki K L R ki).
Definition enc_klrki (m : multisig_klrki) : bytes := mk_K m ++ mk_L m ++ mk_R m ++ mk_ki m.
Definition dec_multisig_out : dec (list bytes) := dec_vec 32 dec_hash.
Definition enc_multisig_out (c : list bytes) : bytes := enc_vec enc_arr c.

(* ---- transaction inputs / outputs ---------------------------------------------------------------- *)
Inductive txin :=
| Gen (height : N)
| ToKey (amount : N) (key_offsets : list N) (k_image : bytes).

Definition dec_txin : dec txin :=
  t <- dec_u8 ;;
  if t =? 255 then h <- dec_varint ;; ret (Gen h)
  else if (t =? 0) || (t =? 1) then fail EBad                      (* ScriptNotSupported *)
  else if t =? 2 then
    a <- dec_varint ;; ko <- dec_vec 8 dec_varint ;; ki <- dec_hash ;; ret (ToKey a ko ki)
  else fail EBad.
Definition enc_txin (i : txin) : bytes :=
  match i with
  | Gen h => enc_u8 255 ++ enc_varint h
  | ToKey a ko ki => enc_u8 2 ++ enc_varint a ++ enc_vec enc_varint ko ++ enc_arr ki
  end.

Inductive target :=
| TKey (key : bytes)
| TTagged (key : bytes) (view_tag : N).

Definition dec_target : dec target :=
  t <- dec_u8 ;;
  if t =? 2 then k <- dec_arr 32 ;; ret (TKey k)
  else if t =? 3 then k <- dec_arr 32 ;; v <- dec_u8 ;; ret (TTagged k v)
  else fail EBad.
Definition enc_target (t : target) : bytes :=
  match t with
  | TKey k => enc_u8 2 ++ enc_arr k
  | TTagged k v => enc_u8 3 ++ enc_arr k ++ enc_u8 v
  end.

Record txout := mk_txout { o_amount : N; o_target : target }.
Definition dec_txout : dec txout :=
  a <- dec_varint ;; t <- dec_target ;; ret (mk_txout a t).
Definition enc_txout (o : txout) : bytes := enc_varint (o_amount o) ++ enc_target (o_target o).

Record txprefix := mk_prefix {
  version : N; unlock_time : N; inputs : list txin; outputs : list txout; extra : bytes }.

Definition dec_prefix (sz : sizes) : dec txprefix :=
  v <- dec_varint ;; u <- dec_varint ;;
  i <- dec_vec (sz_txin sz) dec_txin ;;
  o <- dec_vec (sz_txout sz) dec_txout ;;
  e <- dec_bytes_vec ;;
  ret (mk_prefix v u i o e).
Definition enc_prefix (p : txprefix) : bytes :=
  enc_varint (version p) ++ enc_varint (unlock_time p) ++
  enc_vec enc_txin (inputs p) ++ enc_vec enc_txout (outputs p) ++ enc_bytes_vec (extra p).

(* ---- RingCT ------------------------------------------------------------------------------------------ *)
Inductive rct_type := RNull | RFull | RSimple | RBulletproof | RBulletproof2 | RClsag | RBulletproofPlus.

Definition rct_type_tag (t : rct_type) : N :=
  match t with RNull => 0 | RFull => 1 | RSimple => 2 | RBulletproof => 3
             | RBulletproof2 => 4 | RClsag => 5 | RBulletproofPlus => 6 end.
Definition dec_rct_type : dec rct_type :=
  t <- dec_u8 ;;
  if t =? 0 then ret RNull else if t =? 1 then ret RFull else if t =? 2 then ret RSimple
  else if t =? 3 then ret RBulletproof else if t =? 4 then ret RBulletproof2
  else if t =? 5 then ret RClsag else if t =? 6 then ret RBulletproofPlus else fail EBad.
Definition enc_rct_type (t : rct_type) : bytes := enc_u8 (rct_type_tag t).

Definition is_rct_bp (t : rct_type) : bool :=
  match t with RBulletproof | RBulletproof2 | RClsag => true | _ => false end.
Definition is_rct_bp_plus (t : rct_type) : bool :=
  match t with RBulletproofPlus => true | _ => false end.
Definition rct_type_eqb (a b : rct_type) : bool :=
  match a, b with
  | RNull, RNull | RFull, RFull | RSimple, RSimple | RBulletproof, RBulletproof
  | RBulletproof2, RBulletproof2 | RClsag, RClsag | RBulletproofPlus, RBulletproofPlus => true
  | _, _ => false
  end.

Record signature := mk_sig { sig_c : bytes; sig_r : bytes }.
Definition dec_signature : dec signature := c <- dec_hash ;; r <- dec_hash ;; ret (mk_sig c r).
Definition enc_signature (s : signature) : bytes := sig_c s ++ sig_r s.

Inductive ecdh :=
| EStandard (mask amount : bytes)
| EBulletproof (amount : bytes).

Definition dec_ecdh (t : rct_type) : dec ecdh :=
  match t with
  | RFull | RSimple | RBulletproof | RNull => m <- dec_hash ;; a <- dec_hash ;; ret (EStandard m a)
  | RBulletproof2 | RClsag | RBulletproofPlus => a <- dec_hash8 ;; ret (EBulletproof a)
  end.
Definition enc_ecdh (e : ecdh) : bytes :=
  match e with EStandard m a => m ++ a | EBulletproof a => a end.

Record borosig := mk_boro { bs_s0 : bytes; bs_s1 : bytes; bs_ee : bytes }.
Definition dec_borosig : dec borosig :=
  s0 <- dec_key64 ;; s1 <- dec_key64 ;; ee <- dec_hash ;; ret (mk_boro s0 s1 ee).
Definition enc_borosig (b : borosig) : bytes := bs_s0 b ++ bs_s1 b ++ bs_ee b.

Record rangesig := mk_rangesig { rs_asig : borosig; rs_Ci : bytes }.
Definition dec_rangesig : dec rangesig :=
  a <- dec_borosig ;; c <- dec_key64 ;; ret (mk_rangesig a c).
Definition enc_rangesig (r : rangesig) : bytes := enc_borosig (rs_asig r) ++ rs_Ci r.

Record mgsig := mk_mg { mg_ss : list (list bytes); mg_cc : bytes }.
Definition enc_mgsig (m : mgsig) : bytes := enc_list (enc_list enc_arr) (mg_ss m) ++ mg_cc m.

Record clsag := mk_clsag { cl_s : list bytes; cl_c1 : bytes; cl_D : bytes }.
Definition enc_clsag (c : clsag) : bytes := enc_list enc_arr (cl_s c) ++ cl_c1 c ++ cl_D c.

Record bulletproof := mk_bp {
  bp_A : bytes; bp_S : bytes; bp_T1 : bytes; bp_T2 : bytes; bp_taux : bytes; bp_mu : bytes;
  bp_L : list bytes; bp_R : list bytes; bp_a : bytes; bp_b : bytes; bp_t : bytes }.
Definition dec_bulletproof : dec bulletproof :=
  A <- dec_hash ;; S <- dec_hash ;; T1 <- dec_hash ;; T2 <- dec_hash ;; taux <- dec_hash ;; mu <- dec_hash ;;
  L <- dec_vec 32 dec_hash ;; R <- dec_vec 32 dec_hash ;;
  a <- dec_hash ;; b <- dec_hash ;; t <- dec_hash ;;
  ret (mk_bp A S T1 T2 taux mu L R a b t).
Definition enc_bulletproof (p : bulletproof) : bytes :=
  bp_A p ++ bp_S p ++ bp_T1 p ++ bp_T2 p ++ bp_taux p ++ bp_mu p ++
  enc_vec enc_arr (bp_L p) ++ enc_vec enc_arr (bp_R p) ++ bp_a p ++ bp_b p ++ bp_t p.

Record bpplus := mk_bpp {
  bpp_A : bytes; bpp_A1 : bytes; bpp_B : bytes; bpp_r1 : bytes; bpp_s1 : bytes; bpp_d1 : bytes;
  bpp_L : list bytes; bpp_R : list bytes }.
Definition dec_bpplus : dec bpplus :=
  A <- dec_hash ;; A1 <- dec_hash ;; B <- dec_hash ;; r1 <- dec_hash ;; s1 <- dec_hash ;; d1 <- dec_hash ;;
  L <- dec_vec 32 dec_hash ;; R <- dec_vec 32 dec_hash ;;
  ret (mk_bpp A A1 B r1 s1 d1 L R).
Definition enc_bpplus (p : bpplus) : bytes :=
  bpp_A p ++ bpp_A1 p ++ bpp_B p ++ bpp_r1 p ++ bpp_s1 p ++ bpp_d1 p ++
  enc_vec enc_arr (bpp_L p) ++ enc_vec enc_arr (bpp_R p).

Record rct_base := mk_base {
  rb_type : rct_type; rb_fee : N; rb_pseudo_outs : list bytes; rb_ecdh : list ecdh; rb_out_pk : list bytes }.

(* RctSigBase::consensus_decode(r, inputs, outputs); the Rust function returns Option but is always Some *)
Definition dec_rct_base (inputs outputs : N) : dec rct_base :=
  t <- dec_rct_type ;;
  match t with
  | RNull => ret (mk_base RNull 0 [] [] [])
  | _ =>
      fee <- dec_varint ;;
      po <- (if rct_type_eqb t RSimple then dec_sized 32 inputs dec_hash else ret []) ;;
      ecdh <- rep outputs (dec_ecdh t) ;;                (* plain `for _ in 0..outputs`, no cap *)
      opk <- dec_sized 32 outputs dec_hash ;;
      ret (mk_base t fee po ecdh opk)
  end.
Definition enc_rct_base (b : rct_base) : bytes :=
  enc_rct_type (rb_type b) ++
  match rb_type b with
  | RNull => []
  | _ =>
      enc_varint (rb_fee b) ++
      (if rct_type_eqb (rb_type b) RSimple then enc_list enc_arr (rb_pseudo_outs b) else []) ++
      enc_list enc_ecdh (rb_ecdh b) ++ enc_list enc_arr (rb_out_pk b)
  end.

Record rct_prunable := mk_prunable {
  rp_range_sigs : list rangesig; rp_bulletproofs : list bulletproof; rp_bulletproofplus : list bpplus;
  rp_MGs : list mgsig; rp_Clsags : list clsag; rp_pseudo_outs : list bytes }.

Definition is_simple_or_bp (t : rct_type) : bool :=
  match t with RSimple | RBulletproof | RBulletproof2 => true | _ => false end.
Definition has_p_pseudo (t : rct_type) : bool :=
  match t with RBulletproof | RBulletproof2 | RClsag | RBulletproofPlus => true | _ => false end.
Definition uses_clsag (t : rct_type) : bool :=
  match t with RClsag | RBulletproofPlus => true | _ => false end.

(* the bodies of the two signature loops of RctSigPrunable::consensus_decode *)
Definition dec_clsag (mixin : N) : dec clsag :=
  s <- rep (mixin + 1) dec_hash ;; c1 <- dec_hash ;; D <- dec_hash ;; ret (mk_clsag s c1 D).
Definition dec_mgsig (mixin cols : N) : dec mgsig :=
  ss <- rep (mixin + 1) (dec_sized 32 cols dec_hash) ;; cc <- dec_hash ;; ret (mk_mg ss cc).

(* RctSigPrunable::consensus_decode(r, rct_type, inputs, outputs, mixin) for a non-Null type *)
Definition dec_rct_prunable (sz : sizes) (t : rct_type) (inputs outputs mixin : N) : dec rct_prunable :=
  proofs <-
    (if is_rct_bp t then
       match t with
       | RBulletproof2 | RClsag =>
           bps <- dec_vec (sz_bulletproof sz) dec_bulletproof ;; ret ([], bps, [])
       | _ =>
           n <- dec_u32 ;; bps <- dec_sized (sz_bulletproof sz) n dec_bulletproof ;; ret ([], bps, [])
       end
     else if is_rct_bp_plus t then
       bpp <- dec_vec (sz_bpplus sz) dec_bpplus ;; ret ([], [], bpp)
     else
       rs <- dec_sized (sz_rangesig sz) outputs dec_rangesig ;; ret (rs, [], [])) ;;
  let '(rs, bps, bpp) := proofs in
  sigs <-
    (if uses_clsag t then
       cl <- rep inputs (dec_clsag mixin) ;;
       ret ([], cl)
     else
       let mg_elements := if is_simple_or_bp t then inputs else 1 in
       let cols := if is_simple_or_bp t then 2 else 1 + inputs in
       mgs <- rep mg_elements (dec_mgsig mixin cols) ;;
       ret (mgs, [])) ;;
  let '(mgs, cl) := sigs in
  po <- (if has_p_pseudo t then dec_sized 32 inputs dec_hash else ret []) ;;
  ret (mk_prunable rs bps bpp mgs cl po).

(* RctSigPrunable::consensus_encode(w, rct_type) *)
Definition enc_rct_prunable (p : rct_prunable) (t : rct_type) : bytes :=
  match t with
  | RNull => []
  | _ =>
      (if is_rct_bp t then
         match t with
         | RBulletproof2 | RClsag => enc_vec enc_bulletproof (rp_bulletproofs p)
         | _ => enc_uint 4 (lenN (rp_bulletproofs p) mod 2 ^ 32) ++ enc_list enc_bulletproof (rp_bulletproofs p)
         end
       else if is_rct_bp_plus t then enc_vec enc_bpplus (rp_bulletproofplus p)
       else enc_list enc_rangesig (rp_range_sigs p)) ++
      (if uses_clsag t then enc_list enc_clsag (rp_Clsags p) else enc_list enc_mgsig (rp_MGs p)) ++
      (if has_p_pseudo t then enc_list enc_arr (rp_pseudo_outs p) else [])
  end.

Record rct_sig := mk_rct { rct_base_of : option rct_base; rct_p : option rct_prunable }.

(* ---- Transaction ---------------------------------------------------------------------------------------- *)
Record tx := mk_tx { tx_prefix : txprefix; tx_signatures : list (list signature); tx_rct : rct_sig }.

(* version 1: one row of signatures per ToKey input, one signature per ring member; Gen inputs have none *)
Fixpoint dec_v1_sigs (ins : list txin) : dec (list (list signature)) :=
  match ins with
  | [] => ret []
  | Gen _ :: t => dec_v1_sigs t
  | ToKey _ ko _ :: t =>
      row <- rep (lenN ko) dec_signature ;; rest <- dec_v1_sigs t ;; ret (row :: rest)
  end.

Definition dec_tx (sz : sizes) : dec tx :=
  p <- dec_prefix sz ;;
  let n_in := lenN (inputs p) in
  let n_out := lenN (outputs p) in
  if version p =? 1 then
    sigs <- dec_v1_sigs (inputs p) ;;
    ret (mk_tx p sigs (mk_rct None None))
  else if n_in =? 0 then ret (mk_tx p [] (mk_rct None None))
  else
    sig <- dec_rct_base n_in n_out ;;
    match rb_type sig with
    | RNull => ret (mk_tx p [] (mk_rct (Some sig) None))
    | t =>
        match (match inputs p with
               | ToKey _ ko _ :: _ => if lenN ko =? 0 then None else Some (lenN ko - 1)   (* checked_sub(1) *)
               | _ => Some 0
               end) with
        | None => fail EBad                                     (* "Input has no ring members" *)
        | Some mixin =>
            pr <- dec_rct_prunable sz t n_in n_out mixin ;;
            ret (mk_tx p [] (mk_rct (Some sig) (Some pr)))
        end
    end.

Definition enc_tx (t : tx) : bytes :=
  enc_prefix (tx_prefix t) ++
  (if version (tx_prefix t) =? 1 then enc_list (enc_list enc_signature) (tx_signatures t)
   else match rct_base_of (tx_rct t) with
        | Some sig =>
            enc_rct_base sig ++
            match rct_p (tx_rct t) with
            | Some p => enc_rct_prunable p (rb_type sig)
            | None => []
            end
        | None => []
        end).

(* ---- Block ------------------------------------------------------------------------------------------------- *)
Record header := mk_header { major_version : N; minor_version : N; timestamp : N; prev_id : bytes; nonce : N }.
Definition dec_header : dec header :=
  ma <- dec_varint ;; mi <- dec_varint ;; ts <- dec_varint ;; pv <- dec_hash ;; no <- dec_u32 ;;
  ret (mk_header ma mi ts pv no).
Definition enc_header (h : header) : bytes :=
  enc_varint (major_version h) ++ enc_varint (minor_version h) ++ enc_varint (timestamp h) ++
  prev_id h ++ enc_uint 4 (nonce h).

Record block := mk_block { blk_header : header; miner_tx : tx; tx_hashes : list bytes }.
Definition dec_block (sz : sizes) : dec block :=
  h <- dec_header ;; m <- dec_tx sz ;; hs <- dec_vec 32 dec_hash ;; ret (mk_block h m hs).
Definition enc_block (b : block) : bytes :=
  enc_header (blk_header b) ++ enc_tx (miner_tx b) ++ enc_vec enc_arr (tx_hashes b).

(* ---- entry points: deserialize_partial / deserialize ------------------------------------------------------ *)
(* deserialize_partial returns the value and the number of bytes consumed *)
Definition deserialize_partial {A} (d : dec A) (s : bytes) : res (A * N) :=
  match d s with
  | (Ok a, r) => Ok (a, lenN s - lenN r)
  | (Err e, _) => Err e
  | (Panic, _) => Panic
  end.
(* deserialize fails unless everything was consumed *)
Definition deserialize {A} (d : dec A) (s : bytes) : res A :=
  match deserialize_partial d s with
  | Ok (a, n) => if n =? lenN s then Ok a else Err EBad
  | Err e => Err e
  | Panic => Panic
  end.
