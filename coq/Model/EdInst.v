(* EdInst.v — the executable instance of the OPERATIONS of EdClass, from Model/Ed25519.v, and the Keccak instance
   of hash-to-scalar.  Points are kept in normalised affine form (Z = 1, T = XY) after every operation, so that
   Leibniz equality on `valid` points is point equality.  This instance is NOT proved to satisfy `EdLaws`
   (Edwards group law, square roots, primality: DESIGN §8); it is validated by known-answer tests
   (Proofs/EdKAT.v) and by the correspondence check against curve25519-dalek.  Definitions only. *)
From MRS Require Export Model.EdClass.
From MRS Require Model.Ed25519 Model.Keccak.
Open Scope Z_scope.



Definition norm (p : Ed25519.pt) : Ed25519.pt :=
  let '(x, y) := Ed25519.affine p in Ed25519.mkpt x y 1 (Ed25519.fmul x y).

Definition inst_smul (k : Z) (p : Ed25519.pt) : Ed25519.pt :=
  if k <? 0 then Ed25519.pt_neg (norm (Ed25519.smul (- k) p)) else norm (Ed25519.smul k p).

(* normalised affine representative of a curve point: -x^2 + y^2 = 1 + d x^2 y^2 *)
Definition inst_valid (p : Ed25519.pt) : Prop :=
  let x := Ed25519.pX p in let y := Ed25519.pY p in
  0 <= x < Ed25519.fp /\ 0 <= y < Ed25519.fp /\ Ed25519.pZ p = 1 /\ Ed25519.pT p = Ed25519.fmul x y /\
  Ed25519.fsub (Ed25519.fmul y y) (Ed25519.fmul x x) = Ed25519.fadd 1 (Ed25519.fmul Ed25519.ed_d (Ed25519.fmul (Ed25519.fmul x x) (Ed25519.fmul y y))).

Global Instance ed25519_ops : EdOps := {|
  point := Ed25519.pt;
  pzero := Ed25519.pt_zero;
  padd := fun p q => norm (Ed25519.pt_add p q);
  pneg := Ed25519.pt_neg;
  smul := inst_smul;
  G := Ed25519.basepoint;
  compress := Ed25519.compress;
  decompress := Ed25519.decompress;
  peqb := Ed25519.pt_eqb;
  valid := inst_valid;
  tors := fun i => norm (Ed25519.torsion i)
|}.

(* Hash::hash_to_scalar = Scalar::from_bytes_mod_order (Keccak-256 m) *)
Definition hs_keccak : hs_fun := fun m => Z.of_N (Keccak.hash_to_scalar m).
