(* Show.v — canonical token form of codec values (both dump of decoders and description for encoders).
   Prefix notation with explicit counts, so that printing and parsing need no nesting.  See DESIGN §2.8. *)
From MRS Require Import Model.Base Model.Codec.
From Coq Require Import String Ascii.
Open Scope string_scope.
Open Scope list_scope.
Open Scope N_scope.

Definition toks := list string.

Definition sh_N (n : N) : toks := [show_N n].
Definition sh_b (b : bytes) : toks := [show_hex b].
Definition sh_list {A} (sh : A -> toks) (l : list A) : toks := show_N (lenN l) :: flat_map sh l.

Definition sh_txin (i : txin) : toks :=
  match i with
  | Gen h => "gen" :: sh_N h
  | ToKey a ko ki => "key" :: sh_N a ++ sh_list sh_N ko ++ sh_b ki
  end.
Definition sh_target (t : target) : toks :=
  match t with
  | TKey k => "tk" :: sh_b k
  | TTagged k v => "tt" :: sh_b k ++ sh_N v
  end.
Definition sh_txout (o : txout) : toks := sh_N (o_amount o) ++ sh_target (o_target o).
Definition sh_prefix (p : txprefix) : toks :=
  sh_N (version p) ++ sh_N (unlock_time p) ++ sh_list sh_txin (inputs p) ++ sh_list sh_txout (outputs p)
  ++ sh_b (extra p).
Definition sh_signature (s : signature) : toks := sh_b (sig_c s) ++ sh_b (sig_r s).
Definition sh_ecdh (e : ecdh) : toks :=
  match e with EStandard m a => "es" :: sh_b m ++ sh_b a | EBulletproof a => "eb" :: sh_b a end.
Definition sh_borosig (b : borosig) : toks := sh_b (bs_s0 b) ++ sh_b (bs_s1 b) ++ sh_b (bs_ee b).
Definition sh_rangesig (r : rangesig) : toks := sh_borosig (rs_asig r) ++ sh_b (rs_Ci r).
Definition sh_mgsig (m : mgsig) : toks := sh_list (sh_list sh_b) (mg_ss m) ++ sh_b (mg_cc m).
Definition sh_clsag (c : clsag) : toks := sh_list sh_b (cl_s c) ++ sh_b (cl_c1 c) ++ sh_b (cl_D c).
Definition sh_bulletproof (p : bulletproof) : toks :=
  sh_b (bp_A p) ++ sh_b (bp_S p) ++ sh_b (bp_T1 p) ++ sh_b (bp_T2 p) ++ sh_b (bp_taux p) ++ sh_b (bp_mu p) ++
  sh_list sh_b (bp_L p) ++ sh_list sh_b (bp_R p) ++ sh_b (bp_a p) ++ sh_b (bp_b p) ++ sh_b (bp_t p).
Definition sh_bpplus (p : bpplus) : toks :=
  sh_b (bpp_A p) ++ sh_b (bpp_A1 p) ++ sh_b (bpp_B p) ++ sh_b (bpp_r1 p) ++ sh_b (bpp_s1 p) ++ sh_b (bpp_d1 p) ++
  sh_list sh_b (bpp_L p) ++ sh_list sh_b (bpp_R p).
Definition sh_rct_base (b : rct_base) : toks :=
  sh_N (rct_type_tag (rb_type b)) ++ sh_N (rb_fee b) ++ sh_list sh_b (rb_pseudo_outs b) ++
  sh_list sh_ecdh (rb_ecdh b) ++ sh_list sh_b (rb_out_pk b).
Definition sh_rct_prunable (p : rct_prunable) : toks :=
  sh_list sh_rangesig (rp_range_sigs p) ++ sh_list sh_bulletproof (rp_bulletproofs p) ++
  sh_list sh_bpplus (rp_bulletproofplus p) ++ sh_list sh_mgsig (rp_MGs p) ++ sh_list sh_clsag (rp_Clsags p) ++
  sh_list sh_b (rp_pseudo_outs p).
Definition sh_rct (r : rct_sig) : toks :=
  match rct_base_of r with
  | None => ["none"]
  | Some b => "base" :: sh_rct_base b ++
              match rct_p r with None => ["pnone"] | Some p => "p" :: sh_rct_prunable p end
  end.
Definition sh_tx (t : tx) : toks :=
  sh_prefix (tx_prefix t) ++ sh_list (sh_list sh_signature) (tx_signatures t) ++ sh_rct (tx_rct t).
Definition sh_header (h : header) : toks :=
  sh_N (major_version h) ++ sh_N (minor_version h) ++ sh_N (timestamp h) ++ sh_b (prev_id h) ++ sh_N (nonce h).
Definition sh_block (b : block) : toks :=
  sh_header (blk_header b) ++ sh_tx (miner_tx b) ++ sh_list sh_b (tx_hashes b).

(* ---- parsing tokens back (descriptions) ---------------------------------------------------- *)
Definition ptok (A : Type) := toks -> option (A * toks).
Definition pret {A} (a : A) : ptok A := fun t => Some (a, t).
Definition pbind {A B} (p : ptok A) (k : A -> ptok B) : ptok B :=
  fun t => match p t with Some (a, t') => k a t' | None => None end.
Notation "x <~ p ;; k" := (pbind p (fun x => k)) (at level 61, p at next level, right associativity).

Definition p_N : ptok N := fun t => match t with s :: r => option_map (fun n => (n, r)) (parse_N s) | [] => None end.
Definition p_b : ptok bytes :=
  fun t => match t with s :: r => option_map (fun b => (b, r)) (parse_hex s) | [] => None end.
Definition p_word : ptok string := fun t => match t with s :: r => Some (s, r) | [] => None end.

Fixpoint p_rep {A} (n : nat) (p : ptok A) : ptok (list A) :=
  match n with O => pret [] | S n' => a <~ p ;; l <~ p_rep n' p ;; pret (a :: l) end.
(* counts in descriptions are small (bounded by the description length) *)
Definition p_list {A} (p : ptok A) : ptok (list A) := n <~ p_N ;; p_rep (N.to_nat n) p.

Definition p_txin : ptok txin :=
  w <~ p_word ;;
  if String.eqb w "gen" then h <~ p_N ;; pret (Gen h)
  else if String.eqb w "key" then a <~ p_N ;; ko <~ p_list p_N ;; ki <~ p_b ;; pret (ToKey a ko ki)
  else fun _ => None.
Definition p_target : ptok target :=
  w <~ p_word ;;
  if String.eqb w "tk" then k <~ p_b ;; pret (TKey k)
  else if String.eqb w "tt" then k <~ p_b ;; v <~ p_N ;; pret (TTagged k v)
  else fun _ => None.
Definition p_txout : ptok txout := a <~ p_N ;; t <~ p_target ;; pret (mk_txout a t).
Definition p_prefix : ptok txprefix :=
  v <~ p_N ;; u <~ p_N ;; i <~ p_list p_txin ;; o <~ p_list p_txout ;; e <~ p_b ;; pret (mk_prefix v u i o e).
Definition p_signature : ptok signature := c <~ p_b ;; r <~ p_b ;; pret (mk_sig c r).
Definition p_ecdh : ptok ecdh :=
  w <~ p_word ;;
  if String.eqb w "es" then m <~ p_b ;; a <~ p_b ;; pret (EStandard m a)
  else if String.eqb w "eb" then a <~ p_b ;; pret (EBulletproof a)
  else fun _ => None.
Definition p_borosig : ptok borosig := a <~ p_b ;; b <~ p_b ;; c <~ p_b ;; pret (mk_boro a b c).
Definition p_rangesig : ptok rangesig := a <~ p_borosig ;; c <~ p_b ;; pret (mk_rangesig a c).
Definition p_mgsig : ptok mgsig := ss <~ p_list (p_list p_b) ;; cc <~ p_b ;; pret (mk_mg ss cc).
Definition p_clsag : ptok clsag := s <~ p_list p_b ;; c1 <~ p_b ;; D <~ p_b ;; pret (mk_clsag s c1 D).
Definition p_bulletproof : ptok bulletproof :=
  A <~ p_b ;; S <~ p_b ;; T1 <~ p_b ;; T2 <~ p_b ;; taux <~ p_b ;; mu <~ p_b ;;
  L <~ p_list p_b ;; R <~ p_list p_b ;; a <~ p_b ;; b <~ p_b ;; t <~ p_b ;;
  pret (mk_bp A S T1 T2 taux mu L R a b t).
Definition p_bpplus : ptok bpplus :=
  A <~ p_b ;; A1 <~ p_b ;; B <~ p_b ;; r1 <~ p_b ;; s1 <~ p_b ;; d1 <~ p_b ;;
  L <~ p_list p_b ;; R <~ p_list p_b ;; pret (mk_bpp A A1 B r1 s1 d1 L R).
Definition rct_type_of_tag (n : N) : option rct_type :=
  if n =? 0 then Some RNull else if n =? 1 then Some RFull else if n =? 2 then Some RSimple
  else if n =? 3 then Some RBulletproof else if n =? 4 then Some RBulletproof2
  else if n =? 5 then Some RClsag else if n =? 6 then Some RBulletproofPlus else None.
Definition p_rct_type : ptok rct_type :=
  n <~ p_N ;; match rct_type_of_tag n with Some t => pret t | None => fun _ => None end.
Definition p_rct_base : ptok rct_base :=
  t <~ p_rct_type ;; fee <~ p_N ;; po <~ p_list p_b ;; e <~ p_list p_ecdh ;; o <~ p_list p_b ;;
  pret (mk_base t fee po e o).
Definition p_rct_prunable : ptok rct_prunable :=
  rs <~ p_list p_rangesig ;; bp <~ p_list p_bulletproof ;; bpp <~ p_list p_bpplus ;;
  mg <~ p_list p_mgsig ;; cl <~ p_list p_clsag ;; po <~ p_list p_b ;;
  pret (mk_prunable rs bp bpp mg cl po).
Definition p_rct : ptok rct_sig :=
  w <~ p_word ;;
  if String.eqb w "none" then pret (mk_rct None None)
  else if String.eqb w "base" then
    b <~ p_rct_base ;; w2 <~ p_word ;;
    if String.eqb w2 "pnone" then pret (mk_rct (Some b) None)
    else if String.eqb w2 "p" then p <~ p_rct_prunable ;; pret (mk_rct (Some b) (Some p))
    else fun _ => None
  else fun _ => None.
Definition p_tx : ptok tx :=
  p <~ p_prefix ;; s <~ p_list (p_list p_signature) ;; r <~ p_rct ;; pret (mk_tx p s r).
Definition p_header : ptok header :=
  a <~ p_N ;; b <~ p_N ;; c <~ p_N ;; d <~ p_b ;; e <~ p_N ;; pret (mk_header a b c d e).
Definition p_block : ptok block := h <~ p_header ;; t <~ p_tx ;; l <~ p_list p_b ;; pret (mk_block h t l).

Definition p_all {A} (p : ptok A) (t : toks) : option A :=
  match p t with Some (a, []) => Some a | _ => None end.
