(* Address.v — model of src/util/address.rs: Address::{from_bytes, as_bytes, as_hex}, Display, FromStr,
   hex::FromHex, consensus Encodable/Decodable of Address.  Text = list of UTF-8 bytes.  NO proofs here.
   The hash and the public-key acceptance test are parameters (instances: Keccak.keccak256, Ed25519.pk_valid). *)
From MRS Require Export Model.Base Model.Network Model.Varint Model.Base58.
Open Scope list_scope.
Open Scope N_scope.

(* public fields of `Address`; keys are the 32 bytes of the CompressedEdwardsY inside PublicKey *)
Record addr := mkaddr { a_net : network; a_type : addr_type; a_spend : bytes; a_view : bytes }.

Definition rbind {A B} (r : res A) (k : A -> res B) : res B :=
  match r with Ok a => k a | Err e => Err e | Panic => Panic end.
Notation "x <-r r ;; k" := (rbind r (fun x => k)) (at level 61, r at next level, right associativity).

Fixpoint beqb (a b : bytes) : bool :=
  match a, b with
  | [], [] => true
  | x :: a', y :: b' => Byte.eqb x y && beqb a' b'
  | _, _ => false
  end.

(* ---- hex crate 0.4.3: encode (lower case), decode (both cases, even length) ----------------------- *)
Definition hex_char (n : N) : byte := n2b (if n <? 10 then 48 + n else 87 + n).
Fixpoint hex_encode (bs : bytes) : bytes :=
  match bs with
  | [] => []
  | b :: t => hex_char (b2n b / 16) :: hex_char (b2n b mod 16) :: hex_encode t
  end.
Definition hex_val (c : byte) : option N :=
  let n := b2n c in
  if (65 <=? n) && (n <=? 70) then Some (n - 55)
  else if (97 <=? n) && (n <=? 102) then Some (n - 87)
  else if (48 <=? n) && (n <=? 57) then Some (n - 48)
  else None.
Fixpoint hex_decode (s : bytes) : option bytes :=
  match s with
  | [] => Some []
  | a :: b :: t =>
      match hex_val a, hex_val b, hex_decode t with
      | Some x, Some y, Some r => Some (n2b (16 * x + y) :: r)
      | _, _, _ => None
      end
  | [_] => None                                              (* OddLength *)
  end.
(* hex.strip_prefix("0x".as_bytes()).unwrap_or(hex) *)
Definition strip_0x (s : bytes) : bytes :=
  match s with x30 :: x78 :: t => t | _ => s end.

Section WithHash.
  Variable H : bytes -> bytes.            (* keccak_256 *)
  Variable valid_pk : bytes -> bool.      (* PublicKey::from_slice(..).is_ok() *)

  Definition payload (a : addr) : bytes :=
    n2b (net_as_u8 (a_net a) (a_type a)) :: a_spend a ++ a_view a ++
      match a_type a with Integrated pid => pid | _ => [] end.

  (* Address::as_bytes *)
  Definition addr_as_bytes (a : addr) : bytes :=
    let bytes := payload a in
    bytes ++ firstn 4 (H bytes).

  (* PublicKey::from_slice(&bytes[a..b]).map_err(|_| InvalidFormat) *)
  Definition key_at (bs : bytes) (a b : nat) : res bytes :=
    k <-r slice bs a b ;; if valid_pk k then Ok k else Err EBad.

  (* Address::from_bytes *)
  Definition addr_from_bytes (bs : bytes) : res addr :=
    if Nat.eqb (List.length bs) 0 || Nat.ltb (List.length bs) 65 then Err EBad
    else match bs with
         | [] => Panic                                                   (* bytes[0] *)
         | b0 :: _ =>
             match net_from_u8 (b2n b0) with
             | None => Err EBad
             | Some net =>
                 ty <-r atype_from_slice bs net ;;
                 sp <-r key_at bs 1 33 ;;
                 vw <-r key_at bs 33 65 ;;
                 let want := match ty with Integrated _ => 77%nat | _ => 69%nat end in
                 if negb (Nat.eqb (List.length bs) want) then Err EBad
                 else
                   cb <-r slice bs 0 (want - 4) ;;
                   ck <-r slice bs (want - 4) want ;;
                   vc <-r slice (H cb) 0 4 ;;                            (* &verify_checksum[0..4] *)
                   if beqb vc ck then Ok (mkaddr net ty sp vw) else Err EBad
             end
         end.

  (* Display: base58::encode(as_bytes).map_err(|_| fmt::Error)?  — to_string() panics on a fmt::Error *)
  Definition addr_to_string (a : addr) : res bytes :=
    match b58_encode (addr_as_bytes a) with
    | Ok s => Ok s
    | _ => Panic
    end.

  (* FromStr: from_bytes(&base58::decode(s)?) *)
  Definition addr_from_str (s : bytes) : res addr :=
    b <-r b58_decode s ;; addr_from_bytes b.

  (* as_hex / FromHex *)
  Definition addr_as_hex (a : addr) : bytes := hex_encode (addr_as_bytes a).
  Definition addr_from_hex (s : bytes) : res addr :=
    match hex_decode (strip_0x s) with
    | Some b => addr_from_bytes b
    | None => Err EBad
    end.

  (* consensus codec: the address is the Vec<u8> of its bytes *)
  Definition addr_consensus_encode (a : addr) : bytes :=
    let b := addr_as_bytes a in enc_varint (lenN b mod 2 ^ 64) ++ b.

  (* Decodable for Vec<u8>: size_of::<u8>() * len > 32 MiB is refused, then len single-byte reads *)
  Definition dec_vec_u8 : dec bytes :=
    n <- dec_varint ;;
    if 33554432 <? n then fail EBad else rep n read_u8.

  Definition addr_consensus_decode : dec addr :=
    v <- dec_vec_u8 ;; (fun s => (addr_from_bytes v, s)).

  (* consensus::deserialize::<Address>: everything must be consumed *)
  Definition addr_deserialize (b : bytes) : res addr :=
    match addr_consensus_decode b with
    | (Ok a, []) => Ok a
    | (Ok _, _ :: _) => Err EBad
    | (Err e, _) => Err e
    | (Panic, _) => Panic
    end.
End WithHash.
