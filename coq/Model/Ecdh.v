(* Ecdh.v — model of src/util/ringct.rs: EcdhInfo::open_commitment, xor_amount, mask, the Pedersen commitment
   y*G + a*H, and the Opening it returns.  As the source is NOW (after the commit "fix: legacy ecdh amount key is
   Hs(Hs(shared))"): legacy  shared_sec1 = Hs(shared).to_bytes(), shared_sec2 = Hs(shared_sec1).to_bytes().
   Over the abstract group (EdOps), an abstract hash-to-scalar `Hs` (Hash::hash_to_scalar) and an abstract raw hash
   `Hb` (Hash::new, 32 bytes); the evaluators run it with Ed25519 / Keccak-256 (Model/EdInst.v).
   Modelled dependency behaviour: Scalar::from_bytes_mod_order = LE integer mod l; Scalar - Scalar = difference mod l;
   Scalar::to_bytes = 32 LE bytes; Scalar::from(u64); EdwardsPoint ==; CompressedEdwardsY::decompress (lenient).
   Definitions only; no proofs here. *)
From MRS Require Export Model.Keys Model.Derive Model.Codec.
Open Scope Z_scope.

(* b"amount", b"commitment_mask" *)
Definition amount_salt : bytes := [x61; x6d; x6f; x75; x6e; x74].
Definition mask_salt : bytes := [x63; x6f; x6d; x6d; x69; x74; x6d; x65; x6e; x74; x5f; x6d; x61; x73; x6b].

(* Scalar::from_bytes_mod_order on 32 bytes *)
Definition sc_reduce (b : bytes) : Z := le2z b mod ell.
(* Scalar - Scalar *)
Definition sc_sub (a b : Z) : Z := (a - b) mod ell.
(* u64::from_le_bytes(scalar.to_bytes()[0..8]) *)
Definition low64 (s : Z) : N := le2n (firstn 8 (z2le 32 s)).

Section Ecdh.
Context {E : EdOps}.
Variable Hs : hs_fun.              (* Hash::hash_to_scalar *)
Variable Hb : bytes -> bytes.      (* Hash::new(..).to_fixed_bytes(): Keccak-256 *)

(* xor_amount(amount, shared_key.scalar) then u64::from_le_bytes: both operands are 8 bytes *)
Definition xor_amount (amount8 : bytes) (shared : Z) : N :=
  (N.lxor (le2n amount8) (le2n (firstn 8 (Hb (amount_salt ++ sk_to_bytes shared)))) mod 2 ^ 64)%N.
(* mask(shared_key.scalar) *)
Definition commitment_mask (shared : Z) : Z := Hs (mask_salt ++ sk_to_bytes shared).

(* the `match self` of open_commitment: (amount : u64, blinding_factor : Scalar) *)
Definition ecdh_decode (e : ecdh) (shared : Z) : N * Z :=
  match e with
  | EStandard mask amount =>
      let sec1 := sk_to_bytes (Hs (sk_to_bytes shared)) in       (* hash_to_scalar(shared_key.as_bytes()).to_bytes() *)
      let sec2 := sk_to_bytes (Hs sec1) in                       (* hash_to_scalar(shared_sec1).to_bytes() *)
      let mask_scalar := sc_sub (sc_reduce mask) (sc_reduce sec1) in
      let amount_scalar := sc_sub (sc_reduce amount) (sc_reduce sec2) in
      (low64 amount_scalar, mask_scalar)
  | EBulletproof amount => (xor_amount amount shared, commitment_mask shared)
  end.

(* H.point.decompress().unwrap() *)
Definition H_pt : res point := pk_point Ed25519.H_bytes.
(* ED25519_BASEPOINT_POINT * blinding_factor + H * Scalar::from(amount) *)
Definition commit (Hp : point) (y : Z) (a : N) : point := padd (smul y G) (smul (Z.of_N a) Hp).

(* shared_key = KeyGenerator::from_key(view_pair, *tx_pubkey).get_rvn_scalar(index) *)
Definition shared_scalar (view : Z) (spend txpub : bytes) (index : N) : res Z :=
  bindr (from_key view spend txpub) (fun g => Ok (get_rvn_scalar Hs g index)).

(* Opening { amount, blinding_factor, commitment } *)
Definition opening := (N * Z * point)%type.

Definition open_with (e : ecdh) (shared : Z) (candidate : point) : res (option opening) :=
  let '(a, y) := ecdh_decode e shared in
  bindr H_pt (fun Hp =>
    let expected := commit Hp y a in
    if peqb expected candidate then Ok (Some (a, y, expected)) else Ok None).

Definition open_commitment (e : ecdh) (view : Z) (spend txpub : bytes) (index : N) (candidate : point)
  : res (option opening) :=
  bindr (shared_scalar view spend txpub index) (fun shared => open_with e shared candidate).

End Ecdh.
