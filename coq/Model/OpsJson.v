(* OpsJson.v — protocol ops for the serde / JSON representations (C19).
     json      T <value tokens>                  -> OK <hex of the JSON text>                         (PANIC if to_string panics)
     json_rt   T <value tokens>                  -> OK 1 | OK 0 | ERR        of_json (to_json x) compared with x by token dump
     json_de   T <json tokens>                   -> OK <value tokens> | ERR  of_json on an arbitrary JSON value
     json_amt  u|s pico|xmr <a>                  -> OK <hex of {"v":..}> <a' | ERR>
     json_amt  u|s pico_opt|xmr_opt none|<a>     -> OK <hex> <none | a' | ERR>
     json_amt  u|s pico_vec|xmr_vec <a>*         -> OK <hex> <n a'1 .. a'n | ERR>
     json_addr_bad <utf8 hex>                    -> ERR | OK <address tokens>   Address from the JSON string with that content
     json_str  <utf8 hex>                        -> OK <hex of the JSON text of that string>   (the escape table of the printer)
   T: the type names of OpsCodec plus key ctkey ecdh mgsig clsag rct_base rct_prunable rct_sig index address.
   Value tokens: Show.v; index = `major minor`; address = `net type spend view` as in addr_fmt.
   JSON tokens (prefix form): n | t | f | i<decimal> | s<hex of the bytes or -> | a<count> elems.. | o<count> (s<hex key> value).. *)
From MRS Require Import Model.Base Model.Codec Model.Show Model.Amount Model.Network Model.Address Model.Json
     Model.Keccak Model.Ed25519 Model.OpsBasic Model.OpsAddress Model.OpsAmount Model.OpsCodec.
From Coq Require Import String Ascii.
Open Scope string_scope.
Open Scope N_scope.

Inductive jty :=
| JTy {A} (p : ptok A) (sh : A -> toks) (to : A -> json) (of : json -> option A).

Definition p_index : ptok sub_index := a <~ p_N ;; b <~ p_N ;; pret (mk_index a b).
Definition sh_index (i : sub_index) : toks := List.app (sh_N (ix_major i)) (sh_N (ix_minor i)).
Definition sh_rct_type (t : rct_type) : toks := sh_N (rct_type_tag t).

Definition lookup_jty (T : string) : option jty :=
  let is s := String.eqb T s in
  if is "varint" then Some (JTy p_N sh_N to_json_N of_json_u64)
  else if is "u8" then Some (JTy p_N sh_N to_json_N of_json_u8)
  else if is "u32" then Some (JTy p_N sh_N to_json_N of_json_u32)
  else if is "hash" then Some (JTy p_b sh_b to_json_hash of_json_hash)
  else if is "hash8" then Some (JTy p_b sh_b to_json_hash of_json_hash8)
  else if is "key" then Some (JTy p_b sh_b to_json_key of_json_key)
  else if is "ctkey" then Some (JTy p_b sh_b to_json_ctkey of_json_ctkey)
  else if is "key64" then Some (JTy p_b sh_b to_json_key64 of_json_key64)
  else if is "bytesvec" then Some (JTy p_b sh_b to_json_bytes of_json_bytes)
  else if is "txin" then Some (JTy p_txin sh_txin to_json_txin of_json_txin)
  else if is "target" then Some (JTy p_target sh_target to_json_target of_json_target)
  else if is "txout" then Some (JTy p_txout sh_txout to_json_txout of_json_txout)
  else if is "prefix" then Some (JTy p_prefix sh_prefix to_json_prefix of_json_prefix)
  else if is "signature" then Some (JTy p_signature sh_signature to_json_signature of_json_signature)
  else if is "rcttype" then Some (JTy p_rct_type sh_rct_type to_json_rct_type of_json_rct_type)
  else if is "ecdh" then Some (JTy p_ecdh sh_ecdh to_json_ecdh of_json_ecdh)
  else if is "borosig" then Some (JTy p_borosig sh_borosig to_json_borosig of_json_borosig)
  else if is "rangesig" then Some (JTy p_rangesig sh_rangesig to_json_rangesig of_json_rangesig)
  else if is "mgsig" then Some (JTy p_mgsig sh_mgsig to_json_mgsig of_json_mgsig)
  else if is "clsag" then Some (JTy p_clsag sh_clsag to_json_clsag of_json_clsag)
  else if is "bulletproof" then Some (JTy p_bulletproof sh_bulletproof to_json_bulletproof of_json_bulletproof)
  else if is "bpplus" then Some (JTy p_bpplus sh_bpplus to_json_bpplus of_json_bpplus)
  else if is "rct_base" then Some (JTy p_rct_base sh_rct_base to_json_rct_base of_json_rct_base)
  else if is "rct_prunable" then Some (JTy p_rct_prunable sh_rct_prunable to_json_rct_prunable of_json_rct_prunable)
  else if is "rct_sig" then Some (JTy p_rct sh_rct to_json_rct_sig of_json_rct_sig)
  else if is "tx" then Some (JTy p_tx sh_tx to_json_tx of_json_tx)
  else if is "header" then Some (JTy p_header sh_header to_json_header of_json_header)
  else if is "block" then Some (JTy p_block sh_block to_json_block of_json_block)
  else if is "index" then Some (JTy p_index sh_index to_json_index of_json_index)
  else None.

(* ---- addresses (Keccak-256, Ed25519 key test) ---------------------------------------------------------- *)
Definition kto_json_address := to_json_address keccak256.
Definition kof_json_address := of_json_address keccak256 pk_valid.

Definition p_addr (ts : toks) : option addr :=
  match ts with
  | [n; t; s; v] =>
      match net_of_string n, atype_of_desc t, parse_hex s, parse_hex v with
      | Some n, Some t, Some s, Some v =>
          if Nat.eqb (List.length s) 32 && Nat.eqb (List.length v) 32 then Some (mkaddr n t s v) else None
      | _, _, _, _ => None
      end
  | _ => None
  end.
Definition sh_addr (a : addr) : toks :=
  [string_of_net (a_net a); string_of_atype (a_type a); show_hex (a_spend a); show_hex (a_view a)].

(* ---- JSON values in token form --------------------------------------------------------------------------- *)
(* fuel = number of tokens: every value consumes at least one *)
Fixpoint p_json (fuel : nat) : ptok json :=
  match fuel with
  | O => fun _ => None
  | S fuel' =>
      w <~ p_word ;;
      match w with
      | "n" => pret JNull
      | "t" => pret (JBool true)
      | "f" => pret (JBool false)
      | String "i" d => match parse_Z d with Some z => pret (JNum z) | None => fun _ => None end
      | String "s" h => match parse_hex h with Some b => pret (JStr b) | None => fun _ => None end
      | String "a" c =>
          match parse_N c with
          | Some n => l <~ p_rep (N.to_nat n) (p_json fuel') ;; pret (JArr l)
          | None => fun _ => None
          end
      | String "o" c =>
          match parse_N c with
          | Some n =>
              l <~ p_rep (N.to_nat n)
                     (k <~ p_word ;;
                      match k with
                      | String "s" h =>
                          match parse_hex h with
                          | Some b => v <~ p_json fuel' ;; pret (string_of_bytes b, v)
                          | None => fun _ => None
                          end
                      | _ => fun _ => None
                      end) ;;
              pret (JObj l)
          | None => fun _ => None
          end
      | _ => fun _ => None
      end
  end.

(* ---- amounts ------------------------------------------------------------------------------------------------ *)
Definition wrap_v (j : json) : json := JObj [("v", j)].
Definition unwrap_v {A} (of : json -> option A) (j : json) : option A :=
  f <-? struct_fields ["v"] j ;; req "v" f of.

Definition show_json_text (j : json) : string := show_hex (print_json j).

Fixpoint parse_operands (sg : bool) (l : list string) : option (list Z) :=
  match l with
  | [] => Some []
  | s :: t => match parse_operand sg s, parse_operands sg t with
              | Some z, Some r => Some (z :: r)
              | _, _ => None
              end
  end.

Definition amt_result {A} (r : ares json) (back : json -> option A) (show : A -> string) : string :=
  match r with
  | AOk j => "OK " ++ show_json_text (wrap_v j) ++ " " ++
             match unwrap_v back (wrap_v j) with Some a => show a | None => "ERR" end
  | AErr _ => "ERR"
  | APanic => "PANIC"
  end.

Definition json_amt (sg : bool) (kind : string) (args : list string) : option string :=
  let one (k : amt_kind) :=
    match args with
    | [a] => match parse_operand sg a with
             | Some a => Some (amt_result (to_json_amt sg k a) (of_json_amt sg k) show_Z)
             | None => None
             end
    | _ => None
    end in
  let opt (k : amt_kind) :=
    match args with
    | [a] =>
        let show o := match o with Some z => show_Z z | None => "none" end in
        if String.eqb a "none" then Some (amt_result (to_json_amt_opt sg k None) (of_json_amt_opt sg k) show)
        else match parse_operand sg a with
             | Some a => Some (amt_result (to_json_amt_opt sg k (Some a)) (of_json_amt_opt sg k) show)
             | None => None
             end
    | _ => None
    end in
  let vec (k : amt_kind) :=
    match parse_operands sg args with
    | Some l => Some (amt_result (to_json_amt_vec sg k l) (of_json_amt_vec sg k)
                                 (fun l' => join_sp (show_N (lenN l') :: map show_Z l')))
    | None => None
    end in
  if String.eqb kind "pico" then one KPico
  else if String.eqb kind "xmr" then one KXmr
  else if String.eqb kind "pico_opt" then opt KPico
  else if String.eqb kind "xmr_opt" then opt KXmr
  else if String.eqb kind "pico_vec" then vec KPico
  else if String.eqb kind "xmr_vec" then vec KXmr
  else None.

(* ---- the ops ---------------------------------------------------------------------------------------------------- *)
Definition ops_json (op : string) (args : list string) : option string :=
  if String.eqb op "json" then
    match args with
    | T :: ts =>
        if String.eqb T "address" then
          match p_addr ts with
          | Some a => Some (match kto_json_address a with
                            | Ok j => "OK " ++ show_json_text j | Err _ => "ERR" | Panic => "PANIC" end)
          | None => None
          end
        else
          match lookup_jty T with
          | Some (JTy p sh to of) =>
              match p_all p ts with Some a => Some ("OK " ++ show_json_text (to a)) | None => None end
          | None => None
          end
    | _ => None
    end
  else if String.eqb op "json_rt" then
    match args with
    | T :: ts =>
        if String.eqb T "address" then
          match p_addr ts with
          | Some a => Some (match kto_json_address a with
                            | Ok j => match kof_json_address j with
                                      | Some a' => "OK " ++ bit (toks_eqb (sh_addr a') (sh_addr a))
                                      | None => "ERR"
                                      end
                            | Err _ => "ERR" | Panic => "PANIC" end)
          | None => None
          end
        else
          match lookup_jty T with
          | Some (JTy p sh to of) =>
              match p_all p ts with
              | Some a => Some (match of (to a) with
                                | Some a' => "OK " ++ bit (toks_eqb (sh a') (sh a))
                                | None => "ERR"
                                end)
              | None => None
              end
          | None => None
          end
    | _ => None
    end
  else if String.eqb op "json_de" then
    match args with
    | T :: ts =>
        match p_all (p_json (List.length ts)) ts with
        | Some j =>
            if String.eqb T "address" then
              Some (match kof_json_address j with Some a => join_sp ("OK" :: sh_addr a) | None => "ERR" end)
            else
              match lookup_jty T with
              | Some (JTy p sh to of) =>
                  Some (match of j with Some a => join_sp ("OK" :: sh a) | None => "ERR" end)
              | None => None
              end
        | None => None
        end
    | _ => None
    end
  else if String.eqb op "json_amt" then
    match args with
    | t :: kind :: rest =>
        match signed_flag t with Some sg => json_amt sg kind rest | None => None end
    | _ => None
    end
  else if String.eqb op "json_str" then
    match args with
    | [h] => match parse_hex h with Some s => Some ("OK " ++ show_json_text (JStr s)) | None => None end
    | _ => None
    end
  else if String.eqb op "json_addr_bad" then
    match args with
    | [h] =>
        match parse_hex h with
        | Some s => Some (match kof_json_address (JStr s) with Some a => join_sp ("OK" :: sh_addr a) | None => "ERR" end)
        | None => None
        end
    | _ => None
    end
  else None.
