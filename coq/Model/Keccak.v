(* Keccak.v — executable Keccak-f[1600] and Keccak-256 with the ORIGINAL (pre-SHA-3) padding,
   as used by CryptoNote (tiny_keccak::Keccak::v256).  State = 25 lanes (N < 2^64), index x + 5y. *)
From MRS Require Export Model.Base.
Open Scope N_scope.

Definition mask64 : N := 18446744073709551615.
Definition rotl64 (x n : N) : N :=
  if n =? 0 then x else N.lor (N.land (N.shiftl x n) mask64) (N.shiftr x (64 - n)).
Definition not64 (x : N) : N := N.lxor x mask64.

Definition lane (st : list N) (i : nat) : N := nth i st 0.
Definition idx (x y : nat) : nat := (x mod 5 + 5 * (y mod 5))%nat.

Definition round_constants : list N :=
  [ 0x0000000000000001; 0x0000000000008082; 0x800000000000808a; 0x8000000080008000;
    0x000000000000808b; 0x0000000080000001; 0x8000000080008081; 0x8000000000008009;
    0x000000000000008a; 0x0000000000000088; 0x0000000080008009; 0x000000008000000a;
    0x000000008000808b; 0x800000000000008b; 0x8000000000008089; 0x8000000000008003;
    0x8000000000008002; 0x8000000000000080; 0x000000000000800a; 0x800000008000000a;
    0x8000000080008081; 0x8000000000008080; 0x0000000080000001; 0x8000000080008008 ].

(* rotation offsets r[x + 5y] *)
Definition rot_offsets : list N :=
  [ 0; 1; 62; 28; 27;
    36; 44; 6; 55; 20;
    3; 10; 43; 25; 39;
    41; 45; 15; 21; 8;
    18; 2; 61; 56; 14 ].

Definition range5 : list nat := [0; 1; 2; 3; 4]%nat.
Definition range25 : list nat := seq 0 25.

Definition theta (a : list N) : list N :=
  let c := map (fun x => fold_left N.lxor (map (fun y => lane a (idx x y)) range5) 0) range5 in
  let d := map (fun x => N.lxor (nth ((x + 4) mod 5) c 0) (rotl64 (nth ((x + 1) mod 5) c 0) 1)) range5 in
  map (fun i => N.lxor (lane a i) (nth (i mod 5) d 0)) range25.

(* B[y, 2x+3y] = rotl(A[x,y], r[x,y]); computed by destination: for (X,Y) the source is x = (X + 3Y) mod 5, y = X *)
Definition rho_pi (a : list N) : list N :=
  map (fun i => let X := (i mod 5)%nat in let Y := (i / 5)%nat in
                let x := ((X + 3 * Y) mod 5)%nat in let y := X in
                rotl64 (lane a (idx x y)) (nth (idx x y) rot_offsets 0)) range25.

Definition chi (b : list N) : list N :=
  map (fun i => let x := (i mod 5)%nat in let y := (i / 5)%nat in
                N.lxor (lane b i) (N.land (not64 (lane b (idx (x + 1) y))) (lane b (idx (x + 2) y)))) range25.

Definition iota (rc : N) (a : list N) : list N :=
  match a with [] => [] | h :: t => N.lxor h rc :: t end.

Definition keccak_round (a : list N) (rc : N) : list N := iota rc (chi (rho_pi (theta a))).
Definition keccak_f (a : list N) : list N := fold_left keccak_round round_constants a.

Definition rate : nat := 136.

(* original Keccak multi-rate padding at byte level: 0x01, zeros, 0x80 (0x81 when one byte is missing) *)
Definition pad (m : bytes) : bytes :=
  let q := (rate - (length m mod rate))%nat in
  if Nat.eqb q 1 then m ++ [x81] else m ++ x01 :: repeat x00 (q - 2) ++ [x80].

Fixpoint lanes_of_bytes (fuel : nat) (bs : bytes) : list N :=
  match fuel with
  | O => []
  | S f => match bs with [] => [] | _ => le2n (firstn 8 bs) :: lanes_of_bytes f (skipn 8 bs) end
  end.

Fixpoint xor_lanes (st blk : list N) : list N :=
  match st, blk with
  | s :: st', b :: blk' => N.lxor s b :: xor_lanes st' blk'
  | _, _ => st
  end.

Fixpoint absorb (fuel : nat) (st : list N) (m : bytes) : list N :=
  match fuel with
  | O => st
  | S f => match m with
           | [] => st
           | _ => absorb f (keccak_f (xor_lanes st (lanes_of_bytes 17 (firstn rate m)))) (skipn rate m)
           end
  end.

Definition keccak256 (m : bytes) : bytes :=
  let p := pad m in
  let st := absorb (S (length p / rate)) (repeat 0 25) p in
  flat_map (n2le 8) (firstn 4 st).

(* hash-to-scalar: digest as little-endian integer reduced modulo the group order l *)
Definition group_order : N := 7237005577332262213973186563042994240857116359379907606001950938285454250989.
Definition h2s (digest : bytes) : N := le2n digest mod group_order.
Definition hash_to_scalar (m : bytes) : N := h2s (keccak256 m).
Definition scalar_bytes (s : N) : bytes := n2le 32 s.
