(* TreeHash.v — model of tree_hash_cnt / hash_concat / tree_hash (src/cryptonote/hash.rs) and of
   Block::{tx_root, serialize_hashable, id} (src/blockdata/block.rs).  NO proofs here.
   The tree part is parametric in the two-to-one hash `hc` (hash_concat); the executable instance is
   keccak_hc a b = keccak256 (a ++ b).  Transactions are not modelled here: the block functions take the
   serialised header and the miner-transaction hash as inputs. *)
From MRS Require Export Model.Base Model.Varint Model.Keccak.
Open Scope N_scope.

(* ---- tree_hash_cnt ------------------------------------------------------- *)
(* while pow < count { pow <<= 1 }   on a 64-bit usize (a shift does not panic, it drops the top bit) *)
Fixpoint cnt_loop (fuel : nat) (pow count : N) : res N :=
  match fuel with
  | O => Err EFuel
  | S f => if pow <? count then cnt_loop f (N.shiftl pow 1 mod 2 ^ 64) count else Ok pow
  end.

Definition tree_hash_cnt (count : N) : res N :=
  if count <? 3 then Panic                         (* assert!(count >= 3) *)
  else if 268435456 <? count then Panic            (* assert!(count <= 0x10000000) *)
  else match cnt_loop 64 2 count with
       | Ok pow => Ok (N.shiftr pow 1)
       | Err e => Err e
       | Panic => Panic
       end.

Section Tree.
Variable hc : bytes -> bytes -> bytes.             (* hash_concat *)

(* hashes[j] = v; None = index out of bounds (a panic) *)
Fixpoint set_nth (h : list bytes) (j : nat) (v : bytes) : option (list bytes) :=
  match h, j with
  | [], _ => None
  | _ :: t, O => Some (v :: t)
  | x :: t, S j' => match set_nth t j' v with Some t' => Some (x :: t') | None => None end
  end.

(* hashes[j] = hash_concat(hashes[i], hashes[i + 1]) *)
Definition pair_step (h : list bytes) (i j : nat) : res (list bytes) :=
  match nth_error h i, nth_error h (i + 1) with
  | Some a, Some b => match set_nth h j (hc a b) with Some h' => Ok h' | None => Panic end
  | _, _ => Panic
  end.

(* while j < cnt { hashes[j] = hash_concat(hashes[i], hashes[i+1]); i += 2; j += 1 }   returns (hashes, i) *)
Fixpoint first_loop (fuel : nat) (h : list bytes) (i j cnt : nat) : res (list bytes * nat) :=
  match fuel with
  | O => Err EFuel
  | S f => if (j <? cnt)%nat then
             match pair_step h i j with
             | Ok h' => first_loop f h' (i + 2) (j + 1) cnt
             | Err e => Err e
             | Panic => Panic
             end
           else Ok (h, i)
  end.

(* for i in i0 .. i0 + rem { hashes[i] = hash_concat(hashes[2*i], hashes[2*i+1]) } *)
Fixpoint pass (rem i : nat) (h : list bytes) : res (list bytes) :=
  match rem with
  | O => Ok h
  | S r => match pair_step h (2 * i) i with
           | Ok h' => pass r (S i) h'
           | Err e => Err e
           | Panic => Panic
           end
  end.

(* while cnt > 2 { cnt >>= 1; for i in 0..cnt {...} } *)
Fixpoint halving (fuel : nat) (h : list bytes) (cnt : nat) : res (list bytes) :=
  match fuel with
  | O => Err EFuel
  | S f => if (2 <? cnt)%nat then
             let cnt' := Nat.div2 cnt in
             match pass cnt' 0 h with
             | Ok h' => halving f h' cnt'
             | Err e => Err e
             | Panic => Panic
             end
           else Ok h
  end.

(* pub fn tree_hash(root_hash: Hash, extra_hashes: &[Hash]) -> Hash *)
Definition tree_hash (root : bytes) (extra : list bytes) : res bytes :=
  match extra with
  | [] => Ok root
  | [e] => Ok (hc root e)
  | _ =>
      match tree_hash_cnt (lenN extra + 1) with
      | Ok cntN =>
          let hashes := root :: extra in
          let n := S (length extra) in                      (* count *)
          let cnt := N.to_nat cntN in
          if (2 * cnt <? n)%nat then Panic                  (* 2 * cnt - count would underflow *)
          else
            let i0 := (2 * cnt - n)%nat in
            match first_loop (S n) hashes i0 i0 cnt with
            | Ok (h1, i) =>
                if negb (i =? n)%nat then Panic             (* assert_eq!(i, count) *)
                else match halving 64 h1 cnt with
                     | Ok h2 => match nth_error h2 0, nth_error h2 1 with
                                | Some a, Some b => Ok (hc a b)
                                | _, _ => Panic
                                end
                     | Err e => Err e
                     | Panic => Panic
                     end
            | Err e => Err e
            | Panic => Panic
            end
      | Err e => Err e
      | Panic => Panic
      end
  end.

(* the same on a non-empty list of leaves (first element = root_hash); the empty list is not expressible in Rust *)
Definition tree_hash_list (l : list bytes) : res bytes :=
  match l with [] => Panic | a :: r => tree_hash a r end.
End Tree.

(* ---- blocks ---------------------------------------------------------------- *)
Fixpoint bytes_eqb (a b : bytes) : bool :=
  match a, b with
  | [], [] => true
  | x :: a', y :: b' => Byte.eqb x y && bytes_eqb a' b'
  | _, _ => false
  end.

Definition correct_block_id_202612 : bytes :=
  [x42; x6d; x16; xcf; xf0; x4c; x71; xf8; xb1; x63; x40; xb7; x22; xdc; x40; x10; xa2; xdd; x38; x31; xc2; x20; x41; x43; x1f; x77; x25; x47; xba; x6e; x33; x1a].
Definition existing_block_id_202612 : bytes :=
  [xbb; xd6; x04; xd2; xba; x11; xba; x27; x93; x5e; x00; x6e; xd3; x9c; x9b; xfd; xd9; x9b; x76; xbf; x4a; x50; x65; x4b; xc1; xe1; xe6; x12; x17; x96; x26; x98].

Section Block.
Variable H : bytes -> bytes.                       (* keccak_256 *)
Definition hash_concat (a b : bytes) : bytes := H (a ++ b).

(* Block::tx_root: tree_hash(miner_tx.hash(), &tx_hashes) *)
Definition tx_root (miner_tx_hash : bytes) (tx_hashes : list bytes) : res bytes :=
  tree_hash hash_concat miner_tx_hash tx_hashes.

(* Block::serialize_hashable = serialize_header_and_root:
   serialize(header) ++ tx_root ++ serialize(VarInt(1 + tx_hashes.len() as u64)) *)
Definition hashable_blob (header_bytes miner_tx_hash : bytes) (tx_hashes : list bytes) : res bytes :=
  match tx_root miner_tx_hash tx_hashes with
  | Ok root =>
      let c := 1 + lenN tx_hashes in
      if c <? 2 ^ 64 then Ok (header_bytes ++ root ++ enc_varint c)
      else Panic                                   (* u64 addition overflow; unreachable (a Vec is shorter) *)
  | Err e => Err e
  | Panic => Panic
  end.

(* Block::id *)
Definition block_id (header_bytes miner_tx_hash : bytes) (tx_hashes : list bytes) : res bytes :=
  match hashable_blob header_bytes miner_tx_hash tx_hashes with
  | Ok blob =>
      let len := lenN blob in
      if len <? 2 ^ 64 then                        (* blob.len().try_into().unwrap(): usize -> u64 *)
        let h := H (enc_varint len ++ blob) in
        Ok (if bytes_eqb h correct_block_id_202612 then existing_block_id_202612 else h)
      else Panic
  | Err e => Err e
  | Panic => Panic
  end.
End Block.

Definition keccak_hc : bytes -> bytes -> bytes := hash_concat keccak256.
