(* Sender.v — the Monero SENDER procedure, written from the reference implementation and "Zero to Monero" (2nd ed.,
   ch. 4 one-time addresses / subaddresses, ch. 5 amount hiding), independently of the scanning model:
     cryptonote_basic / device_default.cpp  generate_key_derivation  D = 8*(r*V)
                                             derivation_to_scalar      Hs(D || varint(i))
                                             derive_public_key         Hs(D || i)*G + S_d
                                             derive_view_tag           H("view_tag" || D || varint(i))[0]
     cryptonote_tx_utils.cpp                 tx key R = r*G (standard destination) or r*S_d (subaddress destination);
                                             the same rule for per-output additional keys
     subaddress (get_subaddress_secret_key)  m = Hs("SubAddr\0" || v || major || minor), S' = S + m*G, V' = v*S'
     rctOps.cpp                              ecdhEncode legacy: mask += Hs(shared), amount += Hs(Hs(shared));
                                             compact: amount ^= H("amount" || shared)[0..8];
                                             genCommitmentMask = Hs("commitment_mask" || shared); C = y*G + a*H
   Everything is at the level of group ELEMENTS (no byte-level key handling, no error cases), over the abstract group
   interface and abstract hashes; the position is encoded with the textbook LEB128 of Spec/Leb128.v.
   Definitions only. *)
From MRS Require Export Model.EdClass Spec.Leb128.
Open Scope Z_scope.

Section Sender.
Context {E : EdOps}.
Variable Hs : bytes -> Z.          (* hash to scalar *)
Variable Hb : bytes -> bytes.      (* the underlying 32-byte hash *)

Definition sc32 (s : Z) : bytes := z2le 32 s.                 (* a scalar as 32 little-endian bytes *)
Definition u32le (n : N) : bytes := n2le 4 n.

Definition salt_subaddr : bytes := [x53; x75; x62; x41; x64; x64; x72; x00].            (* "SubAddr\0" *)
Definition salt_view_tag : bytes := [x76; x69; x65; x77; x5f; x74; x61; x67].            (* "view_tag" *)
Definition salt_amount : bytes := [x61; x6d; x6f; x75; x6e; x74].                        (* "amount" *)
Definition salt_mask : bytes :=
  [x63; x6f; x6d; x6d; x69; x74; x6d; x65; x6e; x74; x5f; x6d; x61; x73; x6b].           (* "commitment_mask" *)

(* ---- addresses of the wallet with view secret v and spend public point S ------------------------------------------ *)
Record address := mk_address { a_spend : point; a_view : point; a_is_sub : bool }.

Definition sub_scalar (v : Z) (maj min : N) : Z := Hs (salt_subaddr ++ sc32 v ++ u32le maj ++ u32le min).
Definition primary_of (v : Z) (S : point) : address := mk_address S (smul v G) false.
Definition subaddress_of (v : Z) (S : point) (maj min : N) : address :=
  let S' := padd S (smul (sub_scalar v maj min) G) in mk_address S' (smul v S') true.
Definition wallet_address (v : Z) (S : point) (maj min : N) : address :=
  if ((maj =? 0) && (min =? 0))%N then primary_of v S else subaddress_of v S maj min.

(* ---- one output, built with the secret transaction key r for destination d at position i ---------------------------- *)
Definition tx_public_key (r : Z) (d : address) : point := if a_is_sub d then smul r (a_spend d) else smul r G.
Definition derivation (r : Z) (d : address) : point := smul 8 (smul r (a_view d)).
Definition derivation_to_scalar (D : point) (i : N) : Z := Hs (compress D ++ leb128 i).
Definition one_time_public_key (D : point) (i : N) (d : address) : point :=
  padd (smul (derivation_to_scalar D i) G) (a_spend d).
Definition view_tag (D : point) (i : N) : byte := hd x00 (Hb (salt_view_tag ++ compress D ++ leb128 i)).

(* ---- amount hiding; `shared` is the scalar Hs(D || i) of the output ------------------------------------------------ *)
(* ecdhEncode, legacy form: (mask', amount') as 32-byte scalars *)
Definition sender_legacy (a : N) (y : Z) (shared : Z) : bytes * bytes :=
  let s1 := Hs (sc32 shared) in
  let s2 := Hs (sc32 s1) in
  (sc32 ((y + s1) mod ell), sc32 ((Z.of_N a + s2) mod ell)).
(* ecdhEncode, compact form: the 8-byte little-endian amount xor the first 8 bytes of H("amount" || shared) *)
Definition sender_compact (a : N) (shared : Z) : bytes :=
  n2le 8 (N.lxor a (le2n (firstn 8 (Hb (salt_amount ++ sc32 shared))))).
Definition gen_commitment_mask (shared : Z) : Z := Hs (salt_mask ++ sc32 shared).
(* Pedersen commitment with second generator Hp *)
Definition pedersen (Hp : point) (y : Z) (a : N) : point := padd (smul y G) (smul (Z.of_N a) Hp).

(* everything the sender publishes / knows for one output *)
Record sent := mk_sent { sn_key : point; sn_onetime : point; sn_tag : byte; sn_shared : Z }.
Definition send (r : Z) (d : address) (i : N) : sent :=
  let D := derivation r d in
  mk_sent (tx_public_key r d) (one_time_public_key D i d) (view_tag D i) (derivation_to_scalar D i).

End Sender.
