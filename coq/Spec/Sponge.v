(* Spec/Sponge.v — the sponge construction of FIPS 202 §4 (Algorithm 8) on bit strings, instantiated as
   KECCAK[c = 512] WITHOUT any domain-separation suffix and output length d = 256:
       Keccak-256(M) = SPONGE[Keccak-p[1600, 24], pad10*1, r = 1088](M, 256).
   (SHA3-256 would be the same with M || 01.)  Strings and state arrays are related as in FIPS 202 §3.1.2/3.1.3:
   A[x, y, z] = S[w (5y + x) + z];  S = Plane(0) || … || Plane(4), Plane(j) = Lane(0, j) || … || Lane(4, j). *)
From Coq Require Import List NArith Bool Arith.
From MRS Require Export Spec.Pad Spec.KeccakF.
Import ListNotations.

(* S xor (P || 0^c) as a state array: P has r = 1088 bits, positions beyond it read as 0 *)
Definition bit_index (x y : nat) (z : N) : nat := 64 * (5 * y + x) + N.to_nat z.
Definition s_xor_block (A : sstate) (P : list bit) : sstate := fun x y z =>
  xorb (A x y z) (nth (bit_index x y z) P false).

Definition s_zero : sstate := fun _ _ _ => false.

(* absorbing n blocks of r bits: S = f (S xor (P_i || 0^c)) *)
Fixpoint s_absorb (f : sstate -> sstate) (n : nat) (P : list bit) (A : sstate) : sstate :=
  match n with
  | O => A
  | S n' => s_absorb f n' (skipn rate_bits P) (f (s_xor_block A (firstn rate_bits P)))
  end.

(* the state array as a string (FIPS 202 §3.1.3) *)
Definition s_lane (A : sstate) (x y : nat) : list bit := map (fun z => A x y (N.of_nat z)) (seq 0 64).
Definition s_plane (A : sstate) (y : nat) : list bit := flat_map (fun x => s_lane A x y) (seq 0 5).
Definition s_string (A : sstate) : list bit := flat_map (s_plane A) (seq 0 5).

(* d = 256 <= r: one squeeze, Trunc_256 *)
Definition sponge256 (f : sstate -> sstate) (M : list bit) : list bit :=
  let P := padded_bits M in
  firstn 256 (s_string (s_absorb f (length P / rate_bits) P s_zero)).

Definition keccak256_bits (M : list bit) : list bit := sponge256 s_keccak_f M.
