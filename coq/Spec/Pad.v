(* Spec/Pad.v — the multi-rate padding pad10*1 of the Keccak submission / FIPS 202 §5.1, on BIT strings,
   with NO domain-separation suffix (SHA-3 would first append the bits 0,1; CryptoNote's hash does not).
   Written from the definition: pad10*1(x, m) = 1 || 0^j || 1 with j = (-m - 2) mod x.
   Bytes are turned into bits least-significant bit first (Keccak's bit ordering convention). *)
From MRS Require Export Model.Base.
Local Open Scope nat_scope.

Definition bit := bool.

(* bit i of a byte, i = 0 is the least significant *)
Definition bits_of_byte (b : byte) : list bit :=
  map (fun i => N.testbit (b2n b) (N.of_nat i)) (seq 0 8).

Definition bits_of_bytes (bs : bytes) : list bit := flat_map bits_of_byte bs.

(* j = (-m - 2) mod x, written without negative numbers: x - ((m + 2) mod x), folded back into [0, x) *)
Definition pad_zeros (x m : nat) : nat := (x - (m + 2) mod x) mod x.

Definition pad10star1 (x m : nat) : list bit := true :: repeat false (pad_zeros x m) ++ [true].

(* the rate of Keccak-256 in bits: 1600 - 2 * 256 *)
Definition rate_bits : nat := 1088.

(* what a sponge absorbs for the message bits M: M || pad10*1(r, |M|) *)
Definition padded_bits (M : list bit) : list bit := M ++ pad10star1 rate_bits (length M).

(* SHA-3 (FIPS 202 §6.1) instead absorbs M || 01 || pad10*1; stated here only to show the difference *)
Definition sha3_padded_bits (M : list bit) : list bit :=
  let M' := M ++ [false; true] in M' ++ pad10star1 rate_bits (length M').
