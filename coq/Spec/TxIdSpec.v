(* TxIdSpec.v — Monero's transaction identifier as a function of the transaction BYTES and the format's boundaries
   (cryptonote_format_utils.cpp: calculate_transaction_hash / get_transaction_prefix_hash):
     version 1:   id = H(whole blob)
     version >=2: id = H( H(prefix bytes) || H(rct base bytes) || H(rct prunable bytes) ),
                  the third hash being the null hash when the RingCT type is Null;
                  a transaction without inputs has no RingCT bytes and is hashed as type Null with base bytes [0x00].
   The boundaries p (end of prefix) and q (end of RingCT base) are those of the format's own parsers. *)
From MRS Require Export Model.Codec.
Open Scope N_scope.

Section Spec.
  Variable H : bytes -> bytes.
  Definition null_hash : bytes := repeat x00 32.

  Definition spec_prefix_hash (sz : sizes) (b : bytes) : option bytes :=
    match dec_prefix sz b with
    | (Ok _, r1) => Some (H (firstn (length b - length r1) b))
    | _ => None
    end.

  Definition spec_id (sz : sizes) (b : bytes) : option bytes :=
    match dec_prefix sz b with
    | (Ok p, r1) =>
        let pb := firstn (length b - length r1) b in
        if version p =? 1 then Some (H b)
        else if lenN (inputs p) =? 0 then Some (H (H pb ++ H [x00] ++ null_hash))
        else match dec_rct_base (lenN (inputs p)) (lenN (outputs p)) r1 with
             | (Ok base, r2) =>
                 let bb := firstn (length r1 - length r2) r1 in
                 Some (H (H pb ++ H bb ++ match rb_type base with RNull => null_hash | _ => H r2 end))
             | _ => None
             end
    | _ => None
    end.
End Spec.
