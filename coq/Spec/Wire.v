(* Wire.v — the Monero consensus wire layout of transactions and blocks, written as FIELD LISTS from the reference
   serialisers (cryptonote_basic.h: transaction_prefix / transaction / block_header / block;
   rctTypes.h: rctSigBase::serialize_rctsig_base, rctSigPrunable::serialize_rctsig_prunable), independently of the
   model's encoders: integers are rendered with the textbook LEB128 of Spec/Leb128.v, and every implicit-length array
   is laid out with the count the FORMAT prescribes (inputs / outputs / mixin+1 / 2 or inputs+1), not with the
   length the value happens to carry.  Values are the records of Model/Codec.v used as plain descriptions. *)
From MRS Require Export Model.Codec Spec.Leb128.
Open Scope N_scope.

Inductive field :=
| FVarint (n : N)                  (* VARINT_FIELD *)
| FByte (n : N)                    (* one raw byte: variant tags, view tag, RCT type *)
| FU32 (n : N)                     (* 4 bytes little endian: nonce; nbp of RCTTypeBulletproof *)
| FBlob (k : nat) (b : bytes).     (* exactly k raw bytes: keys, hashes, 64-key arrays (k = 2048) *)

Definition pad_to (k : nat) (b : bytes) : bytes := firstn k (b ++ repeat x00 k).

Definition render1 (f : field) : bytes :=
  match f with
  | FVarint n => leb128 n
  | FByte n => [n2b n]
  | FU32 n => n2le 4 n
  | FBlob k b => pad_to k b
  end.
Definition render (fs : list field) : bytes := flat_map render1 fs.

Definition key (b : bytes) : list field := [FBlob 32 b].
(* exactly n elements of l, laid out by f (missing elements would be empty blobs; wf descriptions have exactly n) *)
Definition arr {A} (n : N) (f : A -> list field) (l : list A) : list field :=
  flat_map f (firstn (N.to_nat n) l).
Definition all {A} (f : A -> list field) (l : list A) : list field := flat_map f l.
(* a length-prefixed vector: VARINT count, then the elements *)
Definition counted {A} (f : A -> list field) (l : list A) : list field := FVarint (lenN l) :: flat_map f l.

(* ---- transaction prefix --------------------------------------------------------------------------------- *)
Definition f_txin (i : txin) : list field :=
  match i with
  | Gen h => [FByte 255; FVarint h]                                            (* txin_gen: tag 0xff, height *)
  | ToKey a ko ki => [FByte 2; FVarint a] ++ counted (fun o => [FVarint o]) ko ++ key ki     (* txin_to_key *)
  end.
Definition f_target (t : target) : list field :=
  match t with
  | TKey k => FByte 2 :: key k                                                 (* txout_to_key *)
  | TTagged k v => FByte 3 :: key k ++ [FByte v]                               (* txout_to_tagged_key *)
  end.
Definition f_txout (o : txout) : list field := FVarint (o_amount o) :: f_target (o_target o).
Definition f_prefix (p : txprefix) : list field :=
  [FVarint (version p); FVarint (unlock_time p)] ++ counted f_txin (inputs p) ++ counted f_txout (outputs p) ++
  [FVarint (lenN (extra p)); FBlob (length (extra p)) (extra p)].

(* ---- RingCT ------------------------------------------------------------------------------------------------ *)
Definition f_ecdh (t : rct_type) (e : ecdh) : list field :=
  match t with
  | RBulletproof2 | RClsag | RBulletproofPlus =>                               (* 8-byte amount only *)
      match e with EBulletproof a => [FBlob 8 a] | EStandard _ a => [FBlob 8 a] end
  | _ => match e with EStandard m a => key m ++ key a | EBulletproof a => key [] ++ key a end
  end.

Definition f_rct_base (n_in n_out : N) (b : rct_base) : list field :=
  FByte (rct_type_tag (rb_type b)) ::
  match rb_type b with
  | RNull => []
  | t => FVarint (rb_fee b) ::
         (match t with RSimple => arr n_in key (rb_pseudo_outs b) | _ => [] end) ++
         arr n_out (f_ecdh t) (rb_ecdh b) ++ arr n_out key (rb_out_pk b)
  end.

Definition f_bulletproof (p : bulletproof) : list field :=
  key (bp_A p) ++ key (bp_S p) ++ key (bp_T1 p) ++ key (bp_T2 p) ++ key (bp_taux p) ++ key (bp_mu p) ++
  counted key (bp_L p) ++ counted key (bp_R p) ++ key (bp_a p) ++ key (bp_b p) ++ key (bp_t p).
Definition f_bpplus (p : bpplus) : list field :=
  key (bpp_A p) ++ key (bpp_A1 p) ++ key (bpp_B p) ++ key (bpp_r1 p) ++ key (bpp_s1 p) ++ key (bpp_d1 p) ++
  counted key (bpp_L p) ++ counted key (bpp_R p).
Definition f_rangesig (r : rangesig) : list field :=
  [FBlob 2048 (bs_s0 (rs_asig r)); FBlob 2048 (bs_s1 (rs_asig r)); FBlob 32 (bs_ee (rs_asig r)); FBlob 2048 (rs_Ci r)].
Definition f_mg (rows cols : N) (m : mgsig) : list field :=
  arr rows (arr cols key) (mg_ss m) ++ key (mg_cc m).
Definition f_clsag (ring : N) (c : clsag) : list field := arr ring key (cl_s c) ++ key (cl_c1 c) ++ key (cl_D c).

Definition f_rct_prunable (t : rct_type) (n_in n_out mixin : N) (p : rct_prunable) : list field :=
  (* range proofs *)
  (match t with
   | RFull | RSimple => arr n_out f_rangesig (rp_range_sigs p)
   | RBulletproof => FU32 (lenN (rp_bulletproofs p)) :: all f_bulletproof (rp_bulletproofs p)
   | RBulletproof2 | RClsag => counted f_bulletproof (rp_bulletproofs p)
   | RBulletproofPlus => counted f_bpplus (rp_bulletproofplus p)
   | RNull => []
   end) ++
  (* ring signatures *)
  (match t with
   | RClsag | RBulletproofPlus => arr n_in (f_clsag (mixin + 1)) (rp_Clsags p)
   | RFull => arr 1 (f_mg (mixin + 1) (n_in + 1)) (rp_MGs p)
   | RSimple | RBulletproof | RBulletproof2 => arr n_in (f_mg (mixin + 1) 2) (rp_MGs p)
   | RNull => []
   end) ++
  (* pseudo outputs moved to the prunable part since bulletproofs *)
  (match t with
   | RBulletproof | RBulletproof2 | RClsag | RBulletproofPlus => arr n_in key (rp_pseudo_outs p)
   | _ => []
   end).

(* ---- transaction -------------------------------------------------------------------------------------------- *)
Definition ring_size_of (i : txin) : N := match i with ToKey _ ko _ => lenN ko | Gen _ => 0 end.
Definition spec_mixin (ins : list txin) : N :=
  match ins with ToKey _ ko _ :: _ => lenN ko - 1 | _ => 0 end.

(* version 1: for every txin_to_key, one 64-byte signature per ring member, in input order *)
Fixpoint f_v1_sigs (ins : list txin) (rows : list (list signature)) : list field :=
  match ins, rows with
  | Gen _ :: t, _ => f_v1_sigs t rows
  | ToKey _ ko _ :: t, row :: rest =>
      arr (lenN ko) (fun s => key (sig_c s) ++ key (sig_r s)) row ++ f_v1_sigs t rest
  | _, _ => []
  end.

Definition f_tx (t : tx) : list field :=
  let p := tx_prefix t in
  f_prefix p ++
  if version p =? 1 then f_v1_sigs (inputs p) (tx_signatures t)
  else match inputs p with
       | [] => []                                  (* `if (!vin.empty())`: no rct_signatures on the wire *)
       | _ =>
           match rct_base_of (tx_rct t) with
           | None => []
           | Some b =>
               f_rct_base (lenN (inputs p)) (lenN (outputs p)) b ++
               match rb_type b, rct_p (tx_rct t) with
               | RNull, _ => []
               | ty, Some pr => f_rct_prunable ty (lenN (inputs p)) (lenN (outputs p)) (spec_mixin (inputs p)) pr
               | _, None => []
               end
           end
       end.

Definition f_header (h : header) : list field :=
  [FVarint (major_version h); FVarint (minor_version h); FVarint (timestamp h); FBlob 32 (prev_id h); FU32 (nonce h)].
Definition f_block (b : block) : list field :=
  f_header (blk_header b) ++ f_tx (miner_tx b) ++ counted key (tx_hashes b).

Definition spec_tx (t : tx) : bytes := render (f_tx t).
Definition spec_prefix (p : txprefix) : bytes := render (f_prefix p).
Definition spec_block (b : block) : bytes := render (f_block b).
Definition spec_header (h : header) : bytes := render (f_header h).
