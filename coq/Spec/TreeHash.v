(* Spec/TreeHash.v — the CryptoNote tree hash as DEFINED (CryptoNote standard 003 / tree-hash.c description), written
   recursively and independently of the in-place array algorithm of the model:
     * one leaf: the leaf;  two leaves: hc a b;
     * n >= 3 leaves: let c be the largest power of two strictly below n.  The first 2c - n leaves are kept, the remaining
       2(n - c) leaves are hashed in pairs; this gives exactly c values, whose perfect binary tree root is the result.
   `perfect d l` is the root of the perfect binary tree of depth d over the 2^d values l, by halves. *)
From MRS Require Export Model.Base.
Local Open Scope nat_scope.

Section TreeSpec.
Variable hc : bytes -> bytes -> bytes.

Fixpoint pairs (l : list bytes) : list bytes :=
  match l with
  | a :: b :: t => hc a b :: pairs t
  | _ => []
  end.

Fixpoint perfect (d : nat) (l : list bytes) : bytes :=
  match d with
  | O => hd [] l
  | S d' => hc (perfect d' (firstn (2 ^ d') l)) (perfect d' (skipn (2 ^ d') l))
  end.

(* exponent of the largest power of two strictly below n (n >= 2):  2^d < n <= 2^(d+1) *)
Definition depth_below (n : nat) : nat := N.to_nat (N.log2 (N.of_nat n - 1)).

Definition tree_spec (l : list bytes) : bytes :=
  match l with
  | [] => []                                       (* not defined for zero leaves *)
  | [h] => h
  | [a; b] => hc a b
  | _ =>
      let n := length l in
      let d := depth_below n in
      let c := 2 ^ d in
      let keep := 2 * c - n in
      perfect d (firstn keep l ++ pairs (skipn keep l))
  end.
End TreeSpec.

(* block level: PoW blob and identifier, from the serialised header, the leaves (miner-tx hash first) and the hash H *)
Section BlockSpec.
Variable H : bytes -> bytes.
Variable varint : N -> bytes.                      (* instantiated with the textbook LEB128 of Spec/Leb128.v *)

Definition root_spec (leaves : list bytes) : bytes := tree_spec (fun a b => H (a ++ b)) leaves.

Definition blob_spec (header_bytes : bytes) (leaves : list bytes) : bytes :=
  header_bytes ++ root_spec leaves ++ varint (lenN leaves).

Definition id_spec (special_computed special_existing : bytes) (header_bytes : bytes) (leaves : list bytes) : bytes :=
  let blob := blob_spec header_bytes leaves in
  let h := H (varint (lenN blob) ++ blob) in
  if list_eq_dec Byte.byte_eq_dec h special_computed then special_existing else h.
End BlockSpec.
