(* Decimal.v — what a decimal amount string MEANS, and what exact amount arithmetic is.
   Written independently of Model/Amount.v: positional notation with explicit powers of ten (no running
   accumulator, no overflow tests, no decimal counter), a relational description of the string grammar,
   and plain integer arithmetic in Z.  Only the enumerations `denom` and `aop` are shared with the model. *)
From MRS Require Export Model.Base.
From MRS Require Import Model.Amount.
From Coq Require Import String.
Open Scope list_scope.
Open Scope Z_scope.

(* ---- denominations: 1 XMR = 10^12 piconero, milli 10^9, micro 10^6, nano 10^3 ------------------- *)
Definition decimals (d : denom) : nat :=
  match d with Monero => 12 | Millinero => 9 | Micronero => 6 | Nanonero => 3 | Piconero => 0 end%nat.

(* names accepted after the amount (the first one is the name the formatter writes); "µ" is U+00B5 *)
Definition aliases (d : denom) : list bytes :=
  map bytes_of_string
    match d with
    | Monero => ["xmr"; "XMR"; "monero"]
    | Millinero => ["millinero"; "mXMR"]
    | Micronero => ["micronero"; "µXMR"; "mcXMR"]
    | Nanonero => ["nanonero"; "nXMR"]
    | Piconero => ["piconero"; "pXMR"]
    end%string.

(* ---- digits ----------------------------------------------------------------------------------- *)
Definition digit_of (b : byte) : option Z :=
  match b with
  | x30 => Some 0 | x31 => Some 1 | x32 => Some 2 | x33 => Some 3 | x34 => Some 4
  | x35 => Some 5 | x36 => Some 6 | x37 => Some 7 | x38 => Some 8 | x39 => Some 9
  | _ => None
  end.
Definition dig (b : byte) : Z := match digit_of b with Some v => v | None => 0 end.
Definition all_digits (ds : bytes) : Prop := Forall (fun b => digit_of b <> None) ds.

(* positional value, most significant digit first: d_1 d_2 … d_n  |->  Σ d_i · 10^(n-i) *)
Fixpoint dval (ds : bytes) : Z :=
  match ds with
  | [] => 0
  | d :: t => dig d * 10 ^ Z.of_nat (List.length t) + dval t
  end.

(* ---- grammar  ['-'] D* ['.' D*],  non-empty after the sign ---------------------------------------- *)
Definition sign_str (neg : bool) : bytes := if neg then [x2d] else [].

Inductive decimal_shape : bytes -> bool -> bytes -> bytes -> Prop :=
| shape_int neg ip : ip <> [] -> decimal_shape (sign_str neg ++ ip) neg ip []
| shape_point neg ip fp : decimal_shape (sign_str neg ++ ip ++ x2e :: fp) neg ip fp.

(* `s` is a well-formed amount text with at most `decs` decimals and at most 50 bytes, and the quantity it
   denotes, scaled by 10^decs, is the integer q:
        ± (int(ip) + int(fp) / 10^|fp|) · 10^decs  =  ± (int(ip)·10^decs + int(fp)·10^(decs-|fp|))         *)
Definition denotes (decs : nat) (s : bytes) (q : Z) : Prop :=
  exists neg ip fp,
    decimal_shape s neg ip fp /\ all_digits ip /\ all_digits fp /\
    (List.length s <= 50)%nat /\ (List.length fp <= decs)%nat /\
    q = (if neg then -1 else 1) *
        (dval ip * 10 ^ Z.of_nat decs + dval fp * 10 ^ Z.of_nat (decs - List.length fp)).

Definition has_sign (s : bytes) : Prop := exists t, s = x2d :: t.

(* ---- fixed-point expansions --------------------------------------------------------------------- *)
(* integer part without superfluous zeros *)
Definition canonical_int (ip : bytes) : Prop :=
  all_digits ip /\ ip <> [] /\ (forall t, ip = x30 :: t -> t = []).

(* `s` is THE decimal expansion of a / 10^decs with exactly `decs` decimals (no point when decs = 0) *)
Definition expansion (decs : nat) (a : Z) (s : bytes) : Prop :=
  exists ip fp,
    canonical_int ip /\ all_digits fp /\ List.length fp = decs /\
    s = sign_str (a <? 0) ++ ip ++ (match decs with O => [] | S _ => x2e :: fp end) /\
    dval ip * 10 ^ Z.of_nat decs + dval fp = Z.abs a.

(* ---- exact arithmetic (C18) --------------------------------------------------------------------- *)
(* division and remainder truncate towards zero (Rust `/` and `%`): Z.quot / Z.rem *)
Definition exact (o : aop) (a b : Z) : Z :=
  match o with
  | OAdd => a + b | OSub => a - b | OMul => a * b | ODiv => Z.quot a b | ORem => Z.rem a b
  end.
Definition needs_divisor (o : aop) : bool := match o with ODiv | ORem => true | _ => false end.
Definition u64 (z : Z) : Prop := 0 <= z <= 2 ^ 64 - 1.
Definition i64 (z : Z) : Prop := - 2 ^ 63 <= z <= 2 ^ 63 - 1.
Definition u64b (z : Z) : bool := (0 <=? z) && (z <=? 2 ^ 64 - 1).
Definition i64b (z : Z) : bool := (- 2 ^ 63 <=? z) && (z <=? 2 ^ 63 - 1).
(* what a checked operation must return *)
Definition exact_or_refuse (rep : Z -> bool) (o : aop) (a b : Z) : option Z :=
  if (needs_divisor o && (b =? 0)) then None
  else if rep (exact o a b) then Some (exact o a b) else None.
