(* Spec/KeccakF.v — Keccak-f[1600] (= Keccak-p[1600, 24]) at BIT level, transcribed from FIPS 202 §3.2 (Algorithms 1–7)
   for w = 64, l = 6.  The state is a function A[x, y, z], 0 <= x, y < 5, 0 <= z < 64.  Nothing here is shared with the
   lane implementation of Model/Keccak.v: no 64-bit words, no rotation table, no round-constant table — the ρ offsets
   come from the (x, y) walk of Algorithm 2 and the round constants from the LFSR of Algorithm 5. *)
From Coq Require Import List NArith Bool Arith.
Import ListNotations.

Definition sstate := nat -> nat -> N -> bool.
Definition w : N := 64.

(* Algorithm 1: θ *)
Definition s_theta (A : sstate) : sstate := fun x y z =>
  let C := fun x z => fold_left xorb (map (fun y => A x y z) [0; 1; 2; 3; 4]) false in
  let D := fun x z => xorb (C ((x + 4) mod 5) z) (C ((x + 1) mod 5) ((z + (w - 1)) mod w)%N) in
  xorb (A x y z) (D x z).

(* Algorithm 2: ρ.  (x, y) = (1, 0); for t = 0..23: lane (x, y) is rotated by (t+1)(t+2)/2; (x, y) = (y, (2x + 3y) mod 5) *)
Fixpoint rho_walk (n : nat) (t : N) (x y : nat) : list (nat * nat * N) :=
  match n with
  | O => []
  | S n' => (x, y, (((t + 1) * (t + 2)) / 2) mod w)%N :: rho_walk n' (t + 1)%N y ((2 * x + 3 * y) mod 5)
  end.
Definition rho_table : list (nat * nat * N) := rho_walk 24 0%N 1 0.
Definition rho_off (x y : nat) : N :=
  match find (fun e => Nat.eqb (fst (fst e)) x && Nat.eqb (snd (fst e)) y) rho_table with
  | Some e => snd e
  | None => 0%N                                    (* the lane (0, 0) is not moved *)
  end.
Definition s_rho (A : sstate) : sstate := fun x y z => A x y ((z + (w - rho_off x y)) mod w)%N.

(* Algorithm 3: π *)
Definition s_pi (A : sstate) : sstate := fun x y z => A ((x + 3 * y) mod 5) x z.

(* Algorithm 4: χ *)
Definition s_chi (A : sstate) : sstate := fun x y z =>
  xorb (A x y z) (andb (xorb (A ((x + 1) mod 5) y z) true) (A ((x + 2) mod 5) y z)).

(* Algorithm 5: rc(t), with R = R[0..7] *)
Definition lfsr_step (R : list bool) : list bool :=
  match false :: R with
  | [r0; r1; r2; r3; r4; r5; r6; r7; r8] =>
      [xorb r0 r8; r1; r2; r3; xorb r4 r8; xorb r5 r8; xorb r6 r8; r7]
  | other => other
  end.
Definition rc_bit (t : nat) : bool :=
  hd false (Nat.iter (t mod 255) lfsr_step [true; false; false; false; false; false; false; false]).

(* Algorithm 6: ι.  RC[2^j - 1] = rc(j + 7 ir) for j = 0..6, all other bits of RC are 0 *)
Definition RC_bit (ir : nat) (z : N) : bool :=
  existsb (fun j => N.eqb z (2 ^ N.of_nat j - 1) && rc_bit (j + 7 * ir)) [0; 1; 2; 3; 4; 5; 6].
Definition s_iota (ir : nat) (A : sstate) : sstate := fun x y z =>
  if Nat.eqb x 0 && Nat.eqb y 0 then xorb (A x y z) (RC_bit ir z) else A x y z.

(* Rnd(A, ir) = ι(χ(π(ρ(θ(A)))), ir);  Keccak-f[1600] = rounds ir = 0 .. 23 *)
Definition s_round (ir : nat) (A : sstate) : sstate := s_iota ir (s_chi (s_pi (s_rho (s_theta A)))).
Definition s_keccak_f (A : sstate) : sstate := fold_left (fun A ir => s_round ir A) (seq 0 24) A.

(* the state array of a lane list: A[x, y, z] = bit z of lane x + 5y (FIPS 202 §3.1.2 with little-endian lanes) *)
Definition in_dom (x y : nat) (z : N) : Prop := x < 5 /\ y < 5 /\ (z < w)%N.
Definition eqdom (A B : sstate) : Prop := forall x y z, in_dom x y z -> A x y z = B x y z.
