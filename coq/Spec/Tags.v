(* Tags.v — Monero's address prefix table (cryptonote_config.h:
   CRYPTONOTE_PUBLIC_{,INTEGRATED_,SUB}ADDRESS_BASE58_PREFIX for mainnet / testnet / stagenet). *)
From MRS Require Export Model.Network.
Open Scope N_scope.

Inductive kind := KStd | KInt | KSub.
Definition kind_of (t : addr_type) : kind :=
  match t with Standard => KStd | Integrated _ => KInt | SubAddress => KSub end.

(* the table as a literal list of (network, kind, tag) *)
Definition tag_table : list (network * kind * N) :=
  [ (Mainnet, KStd, 18); (Mainnet, KInt, 19); (Mainnet, KSub, 42);
    (Testnet, KStd, 53); (Testnet, KInt, 54); (Testnet, KSub, 63);
    (Stagenet, KStd, 24); (Stagenet, KInt, 25); (Stagenet, KSub, 36) ].
