(* Leb128.v — textbook unsigned LEB128 (little-endian base 128 with continuation bits),
   written independently of the model: arithmetic (mod / div), relational + executable. *)
From MRS Require Export Model.Base.
Open Scope N_scope.

Inductive LEB : N -> bytes -> Prop :=
| LEB_last n : n < 128 -> LEB n [n2b n]
| LEB_more n t : 128 <= n -> LEB (n / 128) t -> LEB n (n2b (n mod 128 + 128) :: t).

(* executable version (used as oracle by the correspondence check) *)
Fixpoint leb_fuel (fuel : nat) (n : N) : bytes :=
  match fuel with
  | O => []
  | S f => if n <? 128 then [n2b n] else n2b (n mod 128 + 128) :: leb_fuel f (n / 128)
  end.
Definition leb128 (n : N) : bytes := leb_fuel (S (N.to_nat (N.size n))) n.

(* number of 7-bit groups: max 1 (ceil (bits n / 7)) *)
Definition leb_len (n : N) : N := N.max 1 ((N.size n + 6) / 7).
