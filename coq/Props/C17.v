(* C17 — hashing is Keccak-256 with the original (pre-SHA-3) padding; hash-to-scalar reduces modulo l.
   Statements only (pinned by Check), `exact` proofs and assumption audits.  Keccak-f[1600] of Model/Keccak.v is the
   reference itself (validated by the known-answer Examples below and by the correspondence check). *)
From MRS Require Import Proofs.KeccakProofs Proofs.KeccakBounds Proofs.KeccakFRefine Proofs.SpongeProofs.
From Coq Require Import String.
Open Scope N_scope.

(* every digest has 32 bytes *)
Theorem C17_len : forall m, List.length (keccak256 m) = 32%nat.
Proof. exact keccak256_length. Qed.

(* byte level: the message is followed by 81, or by 01 00* 80, of exactly the length that reaches the next multiple
   of the 136-byte rate — between 1 and 136 bytes, i.e. a whole extra block exactly when |m| mod 136 = 0 *)
Theorem C17_pad_shape : forall m, exists s,
  pad m = (m ++ s)%list /\
  (s = [x81] \/ exists z, s = x01 :: (repeat x00 z ++ [x80])%list) /\
  List.length s = (136 - List.length m mod 136)%nat /\ (1 <= List.length s <= 136)%nat /\
  List.length (pad m) = (136 * (List.length m / 136 + 1))%nat.
Proof. exact pad_shape. Qed.

(* bit level (bytes read least-significant bit first): pad m is the message followed by pad10*1 for rate 1088,
   1 0^j 1 with j = (-8|m| - 2) mod 1088, and NO domain-separation bits in between *)
Theorem C17_pad_is_pad10star1 : forall m,
  bits_of_bytes (pad m) = padded_bits (bits_of_bytes m) /\
  padded_bits (bits_of_bytes m) = (bits_of_bytes m ++ pad10star1 1088 (8 * List.length m))%list.
Proof. exact pad_is_pad10star1_explicit. Qed.

Theorem C17_padded_bits_blocks : forall M, exists k, (1 <= k)%nat /\ List.length (padded_bits M) = (1088 * k)%nat.
Proof. exact padded_bits_length. Qed.

(* the padding is never the SHA-3 one: the two padded bit strings differ for every message *)
Theorem C17_padding_is_not_sha3 : forall M, padded_bits M <> sha3_padded_bits M.
Proof. exact sha3_padding_differs. Qed.

(* the absorb loop processes all k = |pad m| / 136 = |m| / 136 + 1 blocks of 136 bytes (their concatenation is pad m);
   its fuel is never exhausted: any fuel >= k gives the same state *)
Theorem C17_absorb_all_blocks : forall m,
  let k := (List.length m / 136 + 1)%nat in
  (List.length (pad m) / 136)%nat = k /\
  List.concat (blocks k (pad m)) = pad m /\ List.length (blocks k (pad m)) = k /\
  Forall (fun b => List.length b = 136%nat) (blocks k (pad m)) /\
  keccak256 m = flat_map (n2le 8) (firstn 4 (fold_left absorb_block (blocks k (pad m)) (repeat 0 25))) /\
  forall fuel, (k <= fuel)%nat -> absorb fuel (repeat 0 25) (pad m) = absorb k (repeat 0 25) (pad m).
Proof. exact keccak256_blocks. Qed.

(* the lane loader's fuel (17) is exactly enough for a block *)
Theorem C17_block_lanes : forall blk, List.length blk = 136%nat ->
  List.length (lanes_of_bytes 17 blk) = 17%nat /\
  forall extra, lanes_of_bytes (17 + extra) blk = lanes_of_bytes 17 blk.
Proof. exact lanes_of_block. Qed.

(* THE property, end to end on bit strings (bytes read least-significant bit first):
     keccak256 = SPONGE[Keccak-p[1600, 24], pad10*1, r = 1088](M, d = 256)   (FIPS 202 Algorithm 8, Spec/Sponge.v)
   with NO suffix appended to M — i.e. original Keccak-256, not SHA3-256 *)
Theorem C17_keccak256_is_sponge : forall m, bits_of_bytes (keccak256 m) = keccak256_bits (bits_of_bytes m).
Proof. exact keccak256_is_sponge. Qed.

(* the permutation: the 25-lane Keccak-f[1600] of the model IS the bit-level Keccak-p[1600, 24] of FIPS 202 §3.2-3.4
   (Spec/KeccakF.v: theta, rho with offsets from the (x,y) walk, pi, chi, iota with round constants from the LFSR rc(t)),
   under the state-array convention A[x, y, z] = bit z of lane x + 5y; 64-bit lanes stay 64-bit *)
Theorem C17_keccak_f_is_fips202 : forall (a : list N),
  List.length a = 25%nat -> Forall (fun v => v < 2 ^ 64) a ->
  List.length (keccak_f a) = 25%nat /\ Forall (fun v => v < 2 ^ 64) (keccak_f a) /\
  forall x y z, (x < 5)%nat -> (y < 5)%nat -> z < 64 ->
    N.testbit (nth (x + 5 * y) (keccak_f a) 0) z =
    s_keccak_f (fun x y z => N.testbit (nth (x mod 5 + 5 * (y mod 5)) a 0) z) x y z.
Proof. exact keccak_f_is_fips202. Qed.

(* every lane of the final state is below 2^64 (rotations and complements never leave 64 bits), so the digest is the exact
   little-endian image of the first four lanes *)
Theorem C17_state_lanes_64bit : forall m, exists st,
  List.length st = 25%nat /\ Forall (fun x => x < 2 ^ 64) st /\
  keccak256 m = flat_map (n2le 8) (firstn 4 st) /\
  Forall (fun x => le2n (n2le 8 x) = x) st.
Proof. exact keccak256_state. Qed.

(* hash-to-scalar: the digest as little-endian integer modulo l; canonical; its 32-byte form decodes to itself *)
Theorem C17_scalar : forall h,
  h2s h = le2n h mod group_order /\ h2s h < group_order /\
  le2n (scalar_bytes (h2s h)) = h2s h /\ List.length (scalar_bytes (h2s h)) = 32%nat.
Proof. exact h2s_scalar. Qed.

Theorem C17_scalar_canonical_fixed : forall h,
  List.length h = 32%nat -> le2n h < group_order -> scalar_bytes (h2s h) = h.
Proof. exact h2s_canonical. Qed.

Theorem C17_le_roundtrip : forall k n, n < 256 ^ N.of_nat k -> le2n (n2le k n) = n.
Proof. exact le2n_n2le. Qed.

(* known answers (Keccak team's vectors) and the difference from SHA3-256 *)
Example C17_kat_empty :
  Some (keccak256 []) = parse_hex "c5d2460186f7233c927e7db2dcc703c0e500b653ca82273b7bfad8045d85a470".
Proof. vm_compute. reflexivity. Qed.
Example C17_kat_abc :
  Some (keccak256 (bytes_of_string "abc")) = parse_hex "4e03657aea45a94fc7d47ba826c8d667c0d1e6e33a64a036ec44f58fa12d6c45".
Proof. vm_compute. reflexivity. Qed.
(* 200 bytes 0xa3: two blocks *)
Example C17_kat_200_a3 :
  Some (keccak256 (repeat xa3 200)) = parse_hex "3a57666b048777f2c953dc4456f45a2588e1cb6f2da760122d530ac2ce607d4a".
Proof. vm_compute. reflexivity. Qed.
Example C17_not_sha3_256_empty :
  Some (keccak256 []) <> parse_hex "a7ffc6f8bf1ed76651c14756a061d662f580ff4de43b49fa82d80a4b80f8434a".
Proof. vm_compute. discriminate. Qed.
(* hence the bit-level specification itself yields the published digest of the empty message *)
Example C17_spec_kat_empty :
  Some (keccak256_bits []) =
  option_map bits_of_bytes (parse_hex "c5d2460186f7233c927e7db2dcc703c0e500b653ca82273b7bfad8045d85a470").
Proof. change (@nil bit) with (bits_of_bytes []). rewrite <- C17_keccak256_is_sponge. vm_compute. reflexivity. Qed.
(* the specification's derived tables are the published ones (FIPS 202 Table 2; RC[0], RC[1], RC[23]) *)
Example C17_spec_rho_offsets :
  map (fun xy => rho_off (fst xy) (snd xy)) [(0,0); (1,0); (2,0); (3,0); (4,0); (0,1); (1,1); (2,1); (3,1); (4,1)]%nat
  = [0; 1; 62; 28; 27; 36; 44; 6; 55; 20].
Proof. vm_compute. reflexivity. Qed.
Example C17_spec_round_constants :
  map (fun ir => fold_left (fun acc z => acc + if RC_bit ir (N.of_nat z) then 2 ^ N.of_nat z else 0) (seq 0 64) 0) [0; 1; 23]%nat
  = [0x1; 0x8082; 0x8000000080008008].
Proof. vm_compute. reflexivity. Qed.
Example C17_group_order : group_order = 2 ^ 252 + 27742317777372353535851937790883648493.
Proof. vm_compute. reflexivity. Qed.
Example C17_scalar_of_all_ones : h2s (repeat xff 32) = (2 ^ 256 - 1) mod group_order /\ h2s (n2le 32 group_order) = 0.
Proof. split; vm_compute; reflexivity. Qed.
Example C17_pad_135_136 :
  pad (repeat x00 135) = (repeat x00 135 ++ [x81])%list /\
  List.length (pad (repeat x00 136)) = 272%nat /\ List.length (pad []) = 136%nat.
Proof. repeat split; vm_compute; reflexivity. Qed.

Check C17_len : forall m, List.length (keccak256 m) = 32%nat.
Check C17_pad_shape : forall m, exists s,
  pad m = (m ++ s)%list /\
  (s = [x81] \/ exists z, s = x01 :: (repeat x00 z ++ [x80])%list) /\
  List.length s = (136 - List.length m mod 136)%nat /\ (1 <= List.length s <= 136)%nat /\
  List.length (pad m) = (136 * (List.length m / 136 + 1))%nat.
Check C17_pad_is_pad10star1 : forall m,
  bits_of_bytes (pad m) = padded_bits (bits_of_bytes m) /\
  padded_bits (bits_of_bytes m) = (bits_of_bytes m ++ pad10star1 1088 (8 * List.length m))%list.
Check C17_padded_bits_blocks : forall M, exists k, (1 <= k)%nat /\ List.length (padded_bits M) = (1088 * k)%nat.
Check C17_padding_is_not_sha3 : forall M, padded_bits M <> sha3_padded_bits M.
Check C17_absorb_all_blocks : forall m,
  let k := (List.length m / 136 + 1)%nat in
  (List.length (pad m) / 136)%nat = k /\
  List.concat (blocks k (pad m)) = pad m /\ List.length (blocks k (pad m)) = k /\
  Forall (fun b => List.length b = 136%nat) (blocks k (pad m)) /\
  keccak256 m = flat_map (n2le 8) (firstn 4 (fold_left absorb_block (blocks k (pad m)) (repeat 0 25))) /\
  forall fuel, (k <= fuel)%nat -> absorb fuel (repeat 0 25) (pad m) = absorb k (repeat 0 25) (pad m).
Check C17_block_lanes : forall blk, List.length blk = 136%nat ->
  List.length (lanes_of_bytes 17 blk) = 17%nat /\
  forall extra, lanes_of_bytes (17 + extra) blk = lanes_of_bytes 17 blk.
Check C17_keccak256_is_sponge : forall m, bits_of_bytes (keccak256 m) = keccak256_bits (bits_of_bytes m).
Check C17_keccak_f_is_fips202 : forall (a : list N),
  List.length a = 25%nat -> Forall (fun v => v < 2 ^ 64) a ->
  List.length (keccak_f a) = 25%nat /\ Forall (fun v => v < 2 ^ 64) (keccak_f a) /\
  forall x y z, (x < 5)%nat -> (y < 5)%nat -> z < 64 ->
    N.testbit (nth (x + 5 * y) (keccak_f a) 0) z =
    s_keccak_f (fun x y z => N.testbit (nth (x mod 5 + 5 * (y mod 5)) a 0) z) x y z.
Check C17_state_lanes_64bit : forall m, exists st,
  List.length st = 25%nat /\ Forall (fun x => x < 2 ^ 64) st /\
  keccak256 m = flat_map (n2le 8) (firstn 4 st) /\
  Forall (fun x => le2n (n2le 8 x) = x) st.
Check C17_scalar : forall h,
  h2s h = le2n h mod group_order /\ h2s h < group_order /\
  le2n (scalar_bytes (h2s h)) = h2s h /\ List.length (scalar_bytes (h2s h)) = 32%nat.
Check C17_scalar_canonical_fixed : forall h,
  List.length h = 32%nat -> le2n h < group_order -> scalar_bytes (h2s h) = h.
Check C17_le_roundtrip : forall k n, n < 256 ^ N.of_nat k -> le2n (n2le k n) = n.

Print Assumptions C17_len.
Print Assumptions C17_pad_shape.
Print Assumptions C17_pad_is_pad10star1.
Print Assumptions C17_padded_bits_blocks.
Print Assumptions C17_padding_is_not_sha3.
Print Assumptions C17_absorb_all_blocks.
Print Assumptions C17_block_lanes.
Print Assumptions C17_keccak256_is_sponge.
Print Assumptions C17_keccak_f_is_fips202.
Print Assumptions C17_state_lanes_64bit.
Print Assumptions C17_scalar.
Print Assumptions C17_scalar_canonical_fixed.
Print Assumptions C17_le_roundtrip.
