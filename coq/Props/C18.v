(* C18 — amount arithmetic is exact or refuses; it never wraps.
   Only statements (pinned by Check), `exact` proofs and assumption audits.  `exact`, `exact_or_refuse`, `u64`, `i64`
   are the specification (Spec/Decimal.v: plain Z arithmetic, Z.quot / Z.rem); the other names are the model. *)
From MRS Require Import Proofs.AmountArithProofs.
Open Scope Z_scope.

(* Amount::checked_{add,sub,mul,div,rem}: exactly the specification function, for all u64 operands; never panics *)
Theorem C18_checked_unsigned : forall o a b, u64 a -> u64 b -> amount_checked o a b = AOk (exact_or_refuse u64b o a b).
Proof. exact amount_checked_exact. Qed.

(* SignedAmount::checked_*: likewise for all i64 operands (MIN / -1 refuses, MIN % -1 = 0) *)
Theorem C18_checked_signed : forall o a b, i64 a -> i64 b -> signed_checked o a b = AOk (exact_or_refuse i64b o a b).
Proof. exact signed_checked_exact. Qed.

(* reading of the specification function: Some r iff divisor non-zero, r the exact integer result, r representable *)
Theorem C18_exact_or_refuse : forall rep o a b r,
  exact_or_refuse rep o a b = Some r <-> ((needs_divisor o = true -> b <> 0) /\ r = exact o a b /\ rep r = true).
Proof. exact exact_or_refuse_some. Qed.

(* operator and assigning forms: the exact result, or a panic exactly when there is none *)
Theorem C18_operators_unsigned : forall o a b, u64 a -> u64 b ->
  amount_operator o a b = match exact_or_refuse u64b o a b with Some r => AOk r | None => APanic end
  /\ amount_assign o a b = amount_operator o a b.
Proof. exact amount_operator_spec. Qed.

Theorem C18_operators_signed : forall o a b, i64 a -> i64 b ->
  signed_operator o a b = match exact_or_refuse i64b o a b with Some r => AOk r | None => APanic end
  /\ signed_assign o a b = signed_operator o a b.
Proof. exact signed_operator_spec. Qed.

Theorem C18_operator_panics_iff_unsigned : forall o a b, u64 a -> u64 b ->
  (amount_operator o a b = APanic <-> amount_checked o a b = AOk None).
Proof. exact amount_operator_panics. Qed.

Theorem C18_operator_panics_iff_signed : forall o a b, i64 a -> i64 b ->
  (signed_operator o a b = APanic <-> signed_checked o a b = AOk None).
Proof. exact signed_operator_panics. Qed.

(* conversions are exact or an error *)
Theorem C18_to_signed : forall a, u64 a -> amount_to_signed a = if a <=? 2 ^ 63 - 1 then AOk a else AErr ETooBig.
Proof. exact amount_to_signed_spec. Qed.

Theorem C18_to_unsigned : forall a, i64 a -> signed_to_unsigned a = if 0 <=? a then AOk a else AErr ENegative.
Proof. exact signed_to_unsigned_spec. Qed.

(* positive_sub(a,b) = a-b iff 0 <= b <= a *)
Theorem C18_positive_sub : forall a b, i64 a -> i64 b ->
  signed_positive_sub a b = if (0 <=? b) && (b <=? a) then Some (a - b) else None.
Proof. exact signed_positive_sub_spec. Qed.

Theorem C18_checked_abs : forall a, i64 a -> signed_checked_abs a = if i64b (Z.abs a) then Some (Z.abs a) else None.
Proof. exact signed_checked_abs_spec. Qed.

(* non-vacuity / sanity *)
Example C18_ex_min_rem : signed_checked ORem I64MIN (-1) = AOk (Some 0) /\ signed_checked ODiv I64MIN (-1) = AOk None
  /\ signed_operator ODiv I64MIN (-1) = APanic.
Proof. repeat split. Qed.
Example C18_ex_unsigned : amount_checked OAdd U64MAX 1 = AOk None /\ amount_checked OAdd (U64MAX - 1) 1 = AOk (Some U64MAX)
  /\ amount_operator OSub 0 1 = APanic /\ amount_checked ODiv 7 0 = AOk None /\ amount_checked ORem 7 2 = AOk (Some 1).
Proof. repeat split. Qed.
Example C18_ex_trunc : signed_checked ODiv (-7) 2 = AOk (Some (-3)) /\ signed_checked ORem (-7) 2 = AOk (Some (-1))
  /\ signed_checked OMul I64MIN (-1) = AOk None /\ signed_checked OSub I64MIN 1 = AOk None.
Proof. repeat split. Qed.

Check C18_checked_unsigned : forall o a b, u64 a -> u64 b -> amount_checked o a b = AOk (exact_or_refuse u64b o a b).
Check C18_checked_signed : forall o a b, i64 a -> i64 b -> signed_checked o a b = AOk (exact_or_refuse i64b o a b).
Check C18_exact_or_refuse : forall rep o a b r,
  exact_or_refuse rep o a b = Some r <-> ((needs_divisor o = true -> b <> 0) /\ r = exact o a b /\ rep r = true).
Check C18_operators_unsigned : forall o a b, u64 a -> u64 b ->
  amount_operator o a b = match exact_or_refuse u64b o a b with Some r => AOk r | None => APanic end
  /\ amount_assign o a b = amount_operator o a b.
Check C18_operators_signed : forall o a b, i64 a -> i64 b ->
  signed_operator o a b = match exact_or_refuse i64b o a b with Some r => AOk r | None => APanic end
  /\ signed_assign o a b = signed_operator o a b.
Check C18_operator_panics_iff_unsigned : forall o a b, u64 a -> u64 b ->
  (amount_operator o a b = APanic <-> amount_checked o a b = AOk None).
Check C18_operator_panics_iff_signed : forall o a b, i64 a -> i64 b ->
  (signed_operator o a b = APanic <-> signed_checked o a b = AOk None).
Check C18_to_signed : forall a, u64 a -> amount_to_signed a = if a <=? 2 ^ 63 - 1 then AOk a else AErr ETooBig.
Check C18_to_unsigned : forall a, i64 a -> signed_to_unsigned a = if 0 <=? a then AOk a else AErr ENegative.
Check C18_positive_sub : forall a b, i64 a -> i64 b ->
  signed_positive_sub a b = if (0 <=? b) && (b <=? a) then Some (a - b) else None.
Check C18_checked_abs : forall a, i64 a -> signed_checked_abs a = if i64b (Z.abs a) then Some (Z.abs a) else None.

Print Assumptions C18_checked_unsigned.
Print Assumptions C18_checked_signed.
Print Assumptions C18_exact_or_refuse.
Print Assumptions C18_operators_unsigned.
Print Assumptions C18_operators_signed.
Print Assumptions C18_operator_panics_iff_unsigned.
Print Assumptions C18_operator_panics_iff_signed.
Print Assumptions C18_to_signed.
Print Assumptions C18_to_unsigned.
Print Assumptions C18_positive_sub.
Print Assumptions C18_checked_abs.
